"""Per-property configuration for check.py."""

def _nonempty_inputs(line, verdict):
    lhs = line.split(" => ")[0].split(" ")[1:]
    return all(t != "E" for t in lhs)

PROPS = {}

PROPS["C01"] = {
    "modules": ["IbexProofs.Props.C01"],
    "harnesses": ["h_itv", "h_elem"],
    "workloads": lambda tier, seed: [
        {"harness": "h_itv", "tag": "fwd", "args": ["c01", seed, 3000 if tier == "quick" else 60000] + (["full"] if tier == "thorough" else [])},
        {"harness": "h_elem", "tag": "elem", "args": ["c01elem", seed, 600 if tier == "quick" else 20000] + (["full"] if tier == "thorough" else [])},
    ],
    "nontrivial": _nonempty_inputs,
    "rule": "lattice of special endpoints (pairs sampled in quick, exhaustive in thorough) + random intervals; a case is "
            "non-trivial when no argument is empty; distinct = distinct (operator, arguments) lines",
    "assumptions": ["correspondence is sampled: impl result must contain the model's tightest outward-rounded hull on every generated input",
                    "MPFR (correct directed rounding at 53 bits) is the point oracle for elementary functions",
                    "gaol/libultim/libm point functions are NOT proved; they are tested against MPFR at sample points (end points included)"],
    "trusted": ["MPFR/GMP as oracle for elementary functions", "g++/x86-64 SSE2 IEEE-754 arithmetic"],
    "technique": "Lean 4 proof (enclosure theorems over R for the model's tightest hulls, monotone lifting) + differential correspondence impl >= model / MPFR point oracle",
    "level_text": "Kernel-checked theorems: for + - * / neg sqr sqrt abs max min sign floor ceil integer pow(int) the model's outward-rounded hull contains the real result for every real point of every (possibly unbounded) argument interval, and is empty only outside the domain; accepted implementation results contain the model hull (checked on every generated input, lattice of special endpoints exhaustive in the thorough tier). Elementary functions: monotone lifting theorems + MPFR-rigorous point checks (end points, critical points, random). Vector/matrix operators: not yet in the model.",
    "level_note": "Trusted: Lean kernel + Mathlib, axioms propext/Classical.choice/Quot.sound; harness, line protocol and driver glue; MPFR as oracle; the correspondence is sampled. Known finding: libm-based hyperbolic bounds off by <=2 floats (third-party gaol).",
}

PROPS["C16"] = {
    "modules": ["IbexProofs.Props.C16"],
    "harnesses": ["h_itv"],
    "workloads": lambda tier, seed: [
        {"harness": "h_itv", "tag": "set", "args": ["c16", seed, 5000 if tier == "quick" else 100000] + (["full"] if tier == "thorough" else [])},
    ],
    "nontrivial": _nonempty_inputs,
    "rule": "lattice pairs + random/related intervals; exact equality with the model's set operation; non-trivial = no empty argument",
    "assumptions": [],
    "claimed": False,
}
