"""Per-property configuration for check.py."""

def _nonempty_inputs(line, verdict):
    lhs = line.split(" => ")[0].split(" ")[1:]
    return all(t != "E" for t in lhs)

PROPS = {}

PROPS["C01"] = {
    "modules": ["IbexProofs.Props.C01"],
    "harnesses": ["h_itv"],
    "workloads": lambda tier, seed: [
        {"harness": "h_itv", "tag": "fwd", "args": ["c01", seed, 3000 if tier == "quick" else 60000] + (["full"] if tier == "thorough" else [])},
    ],
    "nontrivial": _nonempty_inputs,
    "rule": "lattice of special endpoints (pairs sampled in quick, exhaustive in thorough) + random intervals; a case is "
            "non-trivial when no argument is empty; distinct = distinct (operator, arguments) lines",
    "assumptions": ["correspondence is sampled: impl result must contain the model's tightest outward-rounded hull on every generated input"],
}

PROPS["C16"] = {
    "modules": ["IbexProofs.Props.C16"],
    "harnesses": ["h_itv"],
    "workloads": lambda tier, seed: [
        {"harness": "h_itv", "tag": "set", "args": ["c16", seed, 5000 if tier == "quick" else 100000] + (["full"] if tier == "thorough" else [])},
    ],
    "nontrivial": _nonempty_inputs,
    "rule": "lattice pairs + random/related intervals; exact equality with the model's set operation; non-trivial = no empty argument",
    "assumptions": [],
}
