"""Per-property configuration for check.py."""

def _nonempty_inputs(line, verdict):
    lhs = line.split(" => ")[0].split(" ")[1:]
    return all(t != "E" for t in lhs)

PROPS = {}

PROPS["C01"] = {
    "modules": ["IbexProofs.Props.C01", "IbexProofs.Props.C01vec"],
    "harnesses": ["h_itv", "h_elem"],
    "workloads": lambda tier, seed: [
        {"harness": "h_itv", "tag": "fwd", "args": ["c01", seed, 3000 if tier == "quick" else 60000] + (["full"] if tier == "thorough" else [])},
        {"harness": "h_elem", "tag": "elem", "args": ["c01elem", seed, 600 if tier == "quick" else 20000] + (["full"] if tier == "thorough" else [])},
        {"harness": "h_itv", "tag": "vec", "args": ["c01vec", seed, 300 if tier == "quick" else 12000]},
    ],
    "nontrivial": _nonempty_inputs,
    "rule": "lattice of special endpoints (pairs sampled in quick, exhaustive in thorough) + random intervals; a case is "
            "non-trivial when no argument is empty; distinct = distinct (operator, arguments) lines; vec: IntervalVector / IntervalMatrix "
            "operators (sum, difference, opposite, scaling, dot / outer / Hadamard products, matrix-vector, vector-matrix, matrix-matrix, "
            "transposition, mixed real/interval operands, in-place variants) on dimensions 1-4 with bounded, degenerate, half-bounded and unbounded "
            "entries: the result must contain, entry by entry, the exact interval result (= the range), rounding mode checked after every call",
    "assumptions": ["correspondence is sampled: impl result must contain the model's tightest outward-rounded hull on every generated input",
                    "MPFR (correct directed rounding at 53 bits) is the point oracle for elementary functions",
                    "gaol/libultim/libm point functions are NOT proved; they are tested against MPFR at sample points (end points included)"],
    "trusted": ["MPFR/GMP as oracle for elementary functions", "g++/x86-64 SSE2 IEEE-754 arithmetic"],
    "technique": "Lean 4 proof (enclosure theorems over R for the model's tightest hulls, monotone lifting) + differential correspondence impl >= model / MPFR point oracle",
    "level_text": "Kernel-checked theorems: for + - * / neg sqr sqrt abs max min sign floor ceil integer pow(int) the model's outward-rounded hull contains the real result for every real point of every (possibly unbounded) argument interval, and is empty only outside the domain; accepted implementation results contain the model hull (checked on every generated input, lattice of special endpoints exhaustive in the thorough tier). Elementary functions: monotone lifting theorems + MPFR-rigorous point checks (end points, critical points, random). Vector/matrix operators: dotX_encl, mulOk_sound, mapOk2_sound, scaleOk_sound, transOk_sound (an accepted result contains the real result for all real arguments; the reference is exact interval arithmetic, i.e. the range).",
    "level_note": "Trusted: Lean kernel + Mathlib, axioms propext/Classical.choice/Quot.sound; harness, line protocol and driver glue; MPFR as oracle; the correspondence is sampled. Known finding: libm-based hyperbolic bounds off by <=2 floats (third-party gaol).",
}

PROPS["C16"] = {
    "modules": ["IbexProofs.Props.C16"],
    "harnesses": ["h_itv", "h_bsc"],
    "workloads": lambda tier, seed: [
        {"harness": "h_itv", "tag": "set", "args": ["c16", seed, 3000 if tier == "quick" else 100000] + (["full"] if tier == "thorough" else [])},
        {"harness": "h_itv", "tag": "box", "args": ["c16box", seed, 3000 if tier == "quick" else 100000] + (["full"] if tier == "thorough" else [])},
        # bisectors that need a system: SmearMax/Sum/SumRelative/MaxRelative (+ LargestFirst fallback), OptimLargestFirst with / without the objective
        {"harness": "h_bsc", "tag": "bsc", "args": ["c16bsc", seed, 120 if tier == "quick" else 4000]},
    ],
    "nontrivial": _nonempty_inputs,
    "rule": "lattice pairs of special endpoints (sampled in quick, exhaustive in thorough) + random and related (shared bounds, touching faces, "
            "degenerate components) intervals/boxes of dimension 1-4; exact equality with the model's set operation, certificate check for "
            "bisections and bisector answers (LargestFirst, RoundRobin with call histories); non-trivial = no empty argument",
    "assumptions": ["correspondence is sampled", "LSmear needs an LP library (none in this configuration): not driven",
                    "OptimLargestFirst bisects the objective only under its documented special conditions: `none` means that no other variable can be bisected"],
    "trusted": ["g++/x86-64 IEEE-754 arithmetic"],
    "technique": "Lean 4 proof (model set operations <-> point-wise definitions over R, any dimension; certificate checkers for bisection) + differential correspondence (=) with the C++",
    "level_text": "Kernel-checked theorems: inter/hull/subset/strict/interior subset/intersects/overlaps/disjoint of the model agree with their point-wise definitions over the reals; diff and complementary (intervals and boxes of any dimension, by induction on the peeling loop) return pieces inside x that cover x minus y and share no positive-volume box with y; an accepted bisection covers the box, meets on one plane and is strictly smaller; accepted bisector answers respect the precision. The C++ is compared = with the model (order-insensitive for lists of boxes) on every generated case, bisections/bisectors through the verified checkers.",
    "level_note": "Trusted: Lean kernel + Mathlib, axioms propext/Classical.choice/Quot.sound; harness/driver glue; correspondence sampled (lattice exhaustive in thorough). overlaps follows the documented interior-point convention (degenerate operands). A genuine defect (IntervalVector::overlaps for boxes touching on a face) was found and fixed (8848b2a4).",
}

def _bwd_nontrivial(line, verdict):
    # a case where something was actually contracted or decided infeasible, or a consistent sample point
    return ("contract" in verdict and "nocontract" not in verdict) or "infeasible" in verdict or "consistent-kept" in verdict

PROPS["C03"] = {
    "modules": ["IbexProofs.Props.C03"],
    "harnesses": ["h_bwd"],
    "workloads": lambda tier, seed: [
        {"harness": "h_bwd", "tag": "exact", "args": ["c03", seed, 2000 if tier == "quick" else 40000] + (["full"] if tier == "thorough" else [])},
        {"harness": "h_bwd", "tag": "sampled", "args": ["c03t", seed, 400 if tier == "quick" else 10000] + (["full"] if tier == "thorough" else [])},
    ],
    "nontrivial": _bwd_nontrivial,
    "rule": "result intervals derived from the forward image of sub-intervals of the arguments (so consistent tuples exist) and random ones; "
            "lattice of special endpoints + moderate random intervals; rational operators decided exactly by the verified checkers, "
            "other operators by MPFR-rigorous sample points in the removed parts; non-trivial = the call contracted, proved infeasibility, or a consistent sample point was tested",
    "assumptions": ["exact decision for add sub mul div sqrt abs max min sign floor ceil pow(n>=1); point sampling (MPFR oracle) for sqr exp log cos sin tan acos asin atan cosh sinh tanh acosh asinh atanh atan2 pow(n<=0)",
                    "vector/matrix backward operators (add, sub, scalar*vector, dot product up to dimension 6, matrix*vector, vector*matrix, matrix*matrix, matrix add, scalar*matrix) by planted consistent tuples decided exactly; bwd_chi, bwd_saw, bwd_imod not yet driven"],
    "trusted": ["MPFR/GMP as point oracle for transcendental operators"],
    "technique": "Lean 4 proof (verified exact checkers: contracting, no consistent real tuple lost, flag) run on the C++ outputs + MPFR-rigorous point sampling for transcendental operators",
    "level_text": "Kernel-checked theorems: each checker run by the driver on the outputs (x1',x2',flag) of bwd_add/sub/mul/div/sqrt/abs/max/min/sign/floor/ceil/pow(n>=1) is sound for all intervals (any extended bounds) and all real tuples: accepted outputs are sub-intervals, contain every consistent tuple, and flag=false only if none exists; the projections are computed with exact rational arithmetic so that one-ulp rounding slips are decided, not sampled. Other operators: a sample point whose MPFR image enclosure lies in y must remain (sampleOk_sound).",
    "level_note": "Trusted: Lean kernel + Mathlib (axioms propext/Classical.choice/Quot.sound), harness/driver glue, MPFR oracle; correspondence sampled. Four genuine defects found and fixed (bwd_pow n=0 and negative odd n, bwd_atan2 with x=0, bwd_mul/bwd_div through gaol::div_rel rounding).",
}

def _expr_nontrivial(line, verdict):
    return not ("undefined" in verdict or "unsupported" in verdict or "empty-result" in verdict or "harnesserror" in verdict or "builderror" in verdict)

PROPS["C02"] = {
    "modules": ["IbexProofs.Props.C02"],
    "harnesses": ["h_expr"],
    "workloads": lambda tier, seed: [
        {"harness": "h_expr", "tag": "eval", "args": ["c02", seed, 1200 if tier == "quick" else 20000]},
        {"harness": "h_expr", "tag": "elementary", "args": ["c02t", seed, 500 if tier == "quick" else 20000]},
    ],
    "nontrivial": _expr_nontrivial,
    "rule": "random well-typed expression DAGs built through the C++ API (scalar/vector/matrix variables and values, indexing, transposition, "
            "vector construction, dot/matrix products, shared sub-expressions, applied functions, depth <= 4), 3 boxes each (degenerate, thin, wide, half-bounded), "
            "optionally after an unrelated evaluation of the same Function (stale node domains); per box: the node-domain certificate, 4 exact point checks, "
            "the typed entry points eval/eval_vector/eval_matrix, eval(i,box), eval_vector(box,components), eval_matrix(box,rows), eval_matrix(box,rows,cols) (after an unrelated call of the same overload; "
            "matrices written entry by entry); workload c02t: scalar expressions with every elementary function (exp log sin cos tan asin acos atan sinh cosh tanh asinh acosh atanh atan2 sqrt abs "
            "max min chi sign pow), evaluated over boxes after unrelated evaluations, judged at 7 points per box against a rigorous MPFR interval evaluation of the same DAG (mp_dag.h); "
            "non-trivial = value defined and checked",
    "assumptions": ["the certificate workload does not generate transcendental nodes (cert_sound takes their enclosure as hypothesis; their operators are validated by C01 against MPFR); the c02t workload judges whole DAGs with elementary functions at points with the MPFR oracle (trusted)",
                    "Minibex-text functions are covered by C10"],
    "trusted": ["the DAG dumper of the harness (expr_io.h) reads ibex's own node structure", "MPFR interval evaluator of the harness (mp_dag.h) for expressions with elementary functions"],
    "technique": "Lean 4 proof (node-local certificate => enclosure of the real value at every point of the box, induction over the DAG incl. applied functions) + certificate check on the C++ node domains + exact rational point evaluation",
    "level_text": "Kernel-checked theorem cert_sound: if the certificate checker accepts the node domains computed by the C++ for a box (each node domain contains the model's tightest operator applied to the C++ domains of its arguments) then for EVERY real point of the box every node value (in particular the function value) lies in its domain - for all DAGs of any size and sharing, with vector/matrix operators, indexing and applied functions; run_encl is the same statement for the model's own evaluator. The check runs the certificate on every evaluation and, independently, evaluates the user-level expression exactly (rationals) at sample points; component evaluations are checked against the exact components.",
    "level_note": "Trusted: Lean kernel + Mathlib (axioms propext/Classical.choice/Quot.sound); harness dumper + driver glue; correspondence sampled. Two genuine defects found and fixed (index of a transposed vector; DimException in component functions).",
}



def _c18_nontrivial(line, verdict):
    # a case counts as non-trivial unless the real reader stopped on a resource limit (model not run)
    return "resource-limit" not in verdict

PROPS["C18"] = {
    "modules": ["IbexProofs.Props.C18", "IbexProofs.Props.C18resume", "IbexProofs.Props.C18loop", "IbexProofs.Props.C07"],
    "harnesses": ["h_cov", "h_solver", "h_optim"],
    "workloads": lambda tier, seed: [
        # random objects of the 7 classes: save, bytes vs model, reload, cross-class loads, trailing bytes
        {"harness": "h_cov", "tag": "save", "args": ["save", seed, 280 if tier == "quick" else 4000] + (["full"] if tier == "thorough" else [])},
        # small objects: every truncation, every single-field corruption, byte flips, other-class readers
        {"harness": "h_cov", "tag": "corrupt", "args": ["corrupt", seed, 28 if tier == "quick" else 210] + (["full"] if tier == "thorough" else [])},
        # solver: interruption at every cell count k (and by the time limit), save, load, resume, chains of interruptions
        {"harness": "h_solver", "tag": "resume", "args": ["c18r", seed, 45 if tier == "quick" else 400] + (["full"] if tier == "thorough" else [])},
        # optimizer: interruption by the deterministic cell budget (hook H2) at every k, save, load, resume with fresh objects, chains
        {"harness": "h_optim", "tag": "optresume", "args": ["resume", seed, 350 if tier == "quick" else 2500] + (["full"] if tier == "thorough" else [])},
    ],
    "nontrivial": _c18_nontrivial,
    "rule": "save: random contents built through the API of Cov, CovList, CovIUList, CovIBUList, CovManifold, CovSolverData, "
            "CovOptimData (n=1..5, 0..60 boxes, all statuses/boundary types/varsets/names, infinite, degenerate, huge, -0, empty "
            "bounds), bytes of save() decoded by the model and compared with the object, content checked WF, reloaded by the real "
            "constructor (must be identical), loaded by the constructor of every other class, with trailing bytes; corrupt: for "
            "small objects every truncation, every u32/f64/char field replaced by 0,1,2,max,+-1,+2,sign flip,byte swap..., random "
            "byte flips: the real reader and the model must reject the same files and load the same content otherwise; every "
            "load runs in a forked child (crash = finding); distinct = distinct lines, non-trivial = not stopped by the 256 MB limit; "
            "resume (solver): random systems with planted solutions (0..n equations, inequalities, singular roots that leave unknown boxes), "
            "assemblies HC4/Acid/Newton x RoundRobin/LargestFirst/SmearSumRelative x stack/list; the search is interrupted by cell_limit=k for "
            "EVERY k=1..N+1 when N<=24 cells (thorough: N<=120; larger searches: first, last and sampled k) and by a tiny time limit, "
            "saved to a COV file, reloaded (resumeload: loaded paving = saved paving), resumed by a fresh solver with fresh components "
            "(25%: interrupted again, chains of 2-3 resumptions); per resumed run `Cover.stageOk` (carry-over of validated boxes unchanged, "
            "unknown/pending boxes re-queued or kept, log accepted by the cover certificate) and on the final data the C05/C06 rules: exactly "
            "feasible planted/sampled points in the paving, inner boxes proved by the model, unknown boxes small, status agrees with the output; "
            "resume (optimizer): problems with a minimum known by construction, every interruption point of small searches through the cell budget (hook H2), "
            "chains of 2-3 interruptions, state saved to a COV file (extended or original space), reloaded, resumed with fresh objects: the final result must pass "
            "the verified result checker of C07 (bounds, witness, status), the loup never exceeds a saved loup and an unimproved loup keeps its point (resumed_sound)",
    "assumptions": ["correspondence is sampled: the real writer/reader agree with encode/decode on every generated file",
                    "the reader of class k is modelled at the level of the file contents it returns through the public accessors "
                    "(statuses per box, index lists, varsets, names, scalars); object internals are not modelled",
                    "files for which the real reader exceeds 256 MB / 20000 boxes (corrupted counts with dimension 0) are not compared"],
    "trusted": ["g++/x86-64 little-endian layout of uint32_t/double (the model fixes little endian)",
                "harness h_cov: accessor-based dump of an object, OptAccess subclass to fill the protected CovOptimData::Data"],
    "technique": "Lean 4 proof of the codec (decode (encode v) = v for well-formed v; every accepted byte string is the canonical "
                 "encoding of what it loads as; truncations rejected) + differential correspondence `=` of the real save()/constructors "
                 "with encode/decode on generated and corrupted files",
    "level_text": "Kernel-checked, no size bound: for the 7 COV classes decode_k(encode v ++ rest) = (v, rest) for every well-formed "
                  "content v (WF decidable, checked on every object the harness builds); decode_k bs = (v, rest) implies "
                  "bs = encode v ++ rest for EVERY byte string (so a corrupted file is rejected or is the canonical file of the other "
                  "content it loads as; a same-length corruption is never loaded as the original; every truncation is rejected). "
                  "Correspondence: bytes written by the real save() and objects loaded by the real constructors equal the model on all "
                  "generated files, truncations, single-field corruptions and byte flips.",
    "level_note": "Trusted: Lean kernel, axioms propext/Quot.sound (Classical.choice where simp uses it); harness, line protocol, driver "
                  "glue; correspondence is sampled. Deviations of /repo from its own format are reported by the check (see findings).",
}

def _ctc_nontrivial(line, verdict):
    return "feasible-kept" in verdict or verdict.startswith("ok contract") or "same-as-model" in verdict or "wider-than-model" in verdict or "emptied" in verdict

PROPS["C04"] = {
    "modules": ["IbexProofs.Props.C04"],
    "harnesses": ["h_ctc"],
    "workloads": lambda tier, seed: [
        {"harness": "h_ctc", "tag": "ctc", "args": ["c04", seed, 250 if tier == "quick" else 8000]},
        {"harness": "h_ctc", "tag": "elementary", "args": ["c04t", seed, 400 if tier == "quick" else 12000]},
    ],
    "nontrivial": _ctc_nontrivial,
    "rule": "random constraints with a planted feasible point: scalar DAGs (f(x) in K, K thin/thick/half-bounded) contracted by CtcFwdBwd (also after calls on other boxes), "
            "vector/matrix-valued f(x) in Y with vector and matrix variables and applied functions, systems of 1-3 constraints (=,<=,<,>=,>) built through SystemFactory and contracted by "
            "CtcHC4 (ratio, incremental), Ctc3BCid (s3b, scid, vhandled, var_min_width), CtcAcid (ct_ratio), CtcCompo, with and without an explicit impact context, 6 calls per object; "
            "per call: contraction check, 11 sample points (planted point, just outside the contracted bounds, removed slabs) decided feasible/infeasible exactly; "
            "workload c04t: 1-2 constraints with elementary functions (exp ... atanh, atan2, chi, ...) whose right-hand sides contain the rigorous MPFR enclosure of the value at a planted point "
            "(feasible by construction), contracted by CtcFwdBwd, CtcHC4, Ctc3BCid, CtcAcid, CtcCompo on 8 boxes per object: the point must be kept, the box contracted; "
            "non-trivial = a feasible point was tested, or the box was contracted, or the model box was compared",
    "assumptions": ["the HC4 model covers scalar DAGs over var const + - * / minus sqr sqrt abs max min sign pow(1,2); other operators only through exact point sampling",
                    "CtcNewton is exercised under C09"],
    "trusted": ["expr_io.h dumper", "exact rational evaluation of the user-level expression in the driver (Alg.rat, proved equal to the real semantics: rat_root_real in C02)"],
    "technique": "Lean 4 proof (abstract contractor theory: any schedule / shaving of sound contractors is sound; acceptance rules) + model HC4Revise compared (impl box must contain model box) + exact point feasibility oracle",
    "level_text": "Kernel-checked: any finite schedule of sound, contracting sub-contractors (propagation with any agenda/ratio/impact) is sound and contracting; the hull of contracted slices covering the box (3BCID/ACID for any parameters) keeps every feasible point; accepted run-time checks mean what they say. Run time: every output box is inside its input, every exactly-feasible sample point survives, and the real CtcFwdBwd output contains the tightest single-pass HC4 box of the Lean model (identical on >99% of the cases).",
    "level_note": "Trusted: Lean kernel + Mathlib (axioms propext/Classical.choice/Quot.sound); harness/driver glue; sampled correspondence. A genuine defect found through this check (chi simplification, fixed 55600f68).",
}
# entry for props.py  (C17 — cell buffers behave as priority multisets over every operation history)
def _c17_nontrivial(line, verdict):
    lhs = line.split(" => ")[0]
    return lhs.count(" P:") >= 2 and (" O" in lhs)

PROPS["C17"] = {
    "modules": ["IbexProofs.Props.C17"],
    "harnesses": ["h_buf"],
    "workloads": lambda tier, seed: (
        [
            # random histories (length <= 400) of the real cell buffers: CellStack, CellList (with capacities), CellHeap,
            # Heap<Cell> x 9 cost functions, CellDoubleHeap x 8 second criteria x critpr 0/50/100 (+20, 80), CellBeamSearch x 5 beam sizes
            {"harness": "h_buf", "tag": "cells", "args": ["c17", seed, 200 if tier == "quick" else 2500]},
            # generic templates Heap<T>, SharedHeap<T> (driven directly: push_elt/pop_elt/erase_node/sort), DoubleHeap<T> (4 update-flag combinations x critpr)
            {"harness": "h_buf", "tag": "tpl", "args": ["c17tpl", seed, 200 if tier == "quick" else 2500]},
        ] + (
            [{"harness": "h_buf", "tag": "ex", "args": ["c17ex", seed, 5]}] if tier == "quick" else
            # every operation sequence of length 6 (7 for Heap<T> / SharedHeap<T>) over 3 cost values, incl. {-oo, 0, +oo}
            [{"harness": "h_buf", "tag": "exT", "args": ["c17exT", seed, 6, "full"]},
             {"harness": "h_buf", "tag": "exD", "args": ["c17exD", seed, 6, "full"]},
             {"harness": "h_buf", "tag": "exC", "args": ["c17exC", seed, 6, "full"]}]
        )),
    "nontrivial": _c17_nontrivial,
    "rule": "one line = one whole operation history of one buffer object (random: up to 400 operations + observers, costs from small palettes "
            "(ties), +-oo, values equal to stored costs for contractions, loup / cost-function changes between operations; exhaustive: all "
            "sequences of push(3 values) / pop / contract(2 values) / erase / flush of a fixed length, everything observed after each operation); "
            "a history is non-trivial when it has at least two pushes and one pop; distinct = distinct lines",
    "assumptions": [
        "correspondence is sampled: the trace checker is run on the histories generated (random up to length 400, exhaustive up to length 5 (quick) / 6-7 (thorough))",
        "costs are never NaN (the harness discards candidate cells / contraction values that would produce a NaN cost); the logged cost of a cell is the value returned by the real cost-function object",
        "pop / top / minimum are only called on non-empty buffers (precondition of the C++ code)",
        "destroyed cells are observed through a tracer object owned by each cell (Bxp property / element destructor); cell identity = tracer id + live pointer map",
        "DoubleHeap::current_heap_id, the SharedHeap node structure and Heap::l are read through a `#define private public` include of the ibex headers in the harness only",
    ],
    "trusted": ["harness h_buf.cpp (logging of operations and answers)", "g++/libstdc++ std::push_heap/pop_heap/sort_heap/make_heap"],
    "technique": "Lean 4 proof (multiset specification + trace checker; theorems by induction over histories of any length) + trace validation of the real C++ buffers",
    "level_text": "Kernel-checked theorems: if the trace checker accepts a logged history (any length, any costs incl. ties and +-oo) then at every prefix "
                  "stored + handed out + destroyed + erased = pushed as multisets of cell ids with no id pushed twice (nothing lost, duplicated or handed out twice; a popped cell was pushed before, "
                  "is still stored and was not removed before); every pop/top of Heap/CellHeap/SharedHeap/DoubleHeap/CellDoubleHeap returns a stored cell of minimal cost for the criterion of the heap used "
                  "(both heaps judged against the same multiset; pop1/pop2 use criterion 1/2; critpr=0 uses heap 1 only); CellBeamSearch pops the minimum of the sub-buffer that has priority; stack LIFO / list FIFO; "
                  "minimum() is the least (first-criterion) cost = least objective lower bound over ALL stored cells (all three heaps of the beam search); contract(v) destroys exactly the cells with cost > v (strict) and keeps exactly those <= v; "
                  "flush destroys everything; size/empty agree; push is refused exactly when a bounded stack/list is full; the two internal heaps of a double heap hold the stored cells; an accepted dump of an internal binary heap is a permutation of the stored cells "
                  "in heap order, hence its root is minimal; the specification itself sorts (every complete drain is a cost-sorted permutation, and one exists). "
                  "Correspondence: the checker is run on histories of the real classes (all cost functions, critpr 0/20/50/80/100, beam sizes 1/2/3/5/12, capacities), never prescribing a tie-break.",
    "level_note": "Trusted: Lean kernel + Mathlib, axioms propext/Classical.choice/Quot.sound; harness, line protocol and driver glue; the correspondence is sampled "
                  "(random + bounded-exhaustive), not proved for the C++ code. Not covered: NaN costs, copy constructors of Heap/DoubleHeap, beam size 0.",
}

def _sym_nontrivial(line, verdict):
    return not any(k in verdict for k in ("undefined", "unsupported", "too-large", "same-point", "diffunsupported", "no-oracle", "undecided"))

PROPS["C04"]["modules"] = ["IbexProofs.Props.C04", "IbexProofs.Props.C04hc4"]
PROPS["C04"]["level_text"] = ("Kernel-checked: (1) the Lean model HC4.revise of ibex's forward-backward contractor (same node order, sequential updates, aliasing) is contracting and keeps every "
    "real point of the box whose DAG value lies in the right-hand side - for all scalar DAGs over var const + - * / minus sqr sqrt abs max min sign pow(1,2), any size/sharing (revise_sub, revise_keeps); "
    "an accepted `hc4` line (real output contains the model box) therefore keeps every feasible point (accepted_hc4_keeps); (2) any finite schedule of sound contracting sub-contractors "
    "(propagation with any agenda/ratio/impact) is sound and contracting; the hull of contracted slices covering the box (3BCID/ACID, any parameters) keeps every feasible point. "
    "Run time: every output box is inside its input, every exactly-feasible sample point survives, the real CtcFwdBwd output contains the model box (identical on >99% of cases).")

PROPS["C08"] = {
    "modules": ["IbexProofs.Props.C08"],
    "harnesses": ["h_sym"],
    "workloads": lambda tier, seed: [{"harness": "h_sym", "tag": "deriv", "args": ["c08", seed, 600 if tier == "quick" else 15000]},
                                     {"harness": "h_sym", "tag": "elementary", "args": ["c08t", seed, 400 if tier == "quick" else 15000]}],
    "nontrivial": _sym_nontrivial,
    "rule": "random differentiable (and 25% non-smooth: abs max min sign chi) rational DAGs, scalar and vector valued, with scalar/vector/matrix arguments, applied functions, linear and nonlinear components mixed; "
            "3 boxes each, optionally after a Jacobian computed on another box; per box: jacobian (3 points), gradient, jacobian of a random subset of rows, single column v, "
            "Hansen matrix with explicit centre (3 points) and default centre; the exact derivative at the point (forward-mode dual numbers over Q) must lie in the interval entry, "
            "f(x)-f(x0) must lie in H(x-x0) computed with exact interval arithmetic; workload c08t: scalar expressions with every elementary function (exp ... atanh, atan2, sqrt, abs, max, min, "
            "chi, sign, pow; nested three deep): gradient and Jacobian over boxes (after unrelated calls) must contain, at 4 points per box, the partial derivatives computed by forward "
            "differentiation in 160-bit MPFR interval arithmetic (mp_dag.h); non-trivial = differentiable at the point and checked",
    "assumptions": ["the exact (dual-number) oracle covers rational DAGs; expressions with elementary functions are judged by the MPFR differentiation oracle (trusted); Hansen checks are skipped when the box contains a pole of f (enclosure of f unbounded)"],
    "trusted": ["expr_io.h dumper", "MPFR forward-differentiation oracle of the harness (mp_dag.h) for expressions with elementary functions"],
    "technique": "Lean 4 proof (dual-number evaluation = true Frechet derivative for every DAG incl. applied functions; accepted checks imply the true partial derivatives are enclosed / the slope inclusion holds; mean-value theorem: a matrix enclosing the derivatives along Hansen's segments is a slope matrix) + exact point oracle on the C++ results",
    "level_text": "Kernel-checked: for every DAG (any size, sharing, vector/matrix operators, indexing, applied functions) and every rational point where dual-number evaluation is defined, the real function is defined near the point and its Frechet derivative is the dual gradient (dual_run_correct); hence an accepted gradpt/jacrows/jaccol line means the TRUE partial derivatives at the point are in the interval Jacobian entries, and an accepted hansenpt line means f(x)-f(x0) is in H(x-x0) for the real numbers; hansen_slope: enclosing the partial derivatives on Hansen's staircase segments yields a slope matrix (n-dimensional, by telescoping the mean value theorem).",
    "level_note": "Trusted: Lean kernel + Mathlib (axioms propext/Classical.choice/Quot.sound); harness/driver glue; the correspondence is sampled at points. Genuine defects found and fixed: Jacobian rows through mis-simplified component functions (5fc0a73f), gradient of x^0 (741fa77e).",
}

PROPS["C11"] = {
    "modules": ["IbexProofs.Props.C11"],
    "harnesses": ["h_sym"],
    "workloads": lambda tier, seed: [{"harness": "h_sym", "tag": "rewrite", "args": ["c11", seed, 300 if tier == "quick" else 12000]}],
    "nontrivial": _sym_nontrivial,
    "rule": "random rational DAGs (scalar/vector/matrix valued, vector and matrix arguments, indexing, transposition, products, shared nodes) transformed by simplify(1), simplify(2), simplify(3) on a copy, "
            "Function(f,COPY), Expr2DAG, component extraction f[i]; each pair is decided by the verified normal-form checker (identical rational-function normal forms) and at 3 exact rational points "
            "(same value; set value for thick constants produced by constant folding); non-trivial = inside the decided fragment / defined at the point",
    "assumptions": ["the normal-form checker decides the rational fragment (+ - * / minus sqr pow(int), structural operators, applied functions); abs max min sign chi floor ceil sqrt and transcendentals only through exact point sampling",
                    "Expr2Polynom/monomial normal forms and System-level simpl_level are exercised through C13/C04 workloads only"],
    "trusted": ["expr_io.h dumper of original and transformed expressions"],
    "technique": "Lean 4 proof (verified equivalence checker: equal rational-function normal forms => equal real value at every point where both are defined, check_sound) run on every (original, transformed) pair + exact rational point evaluation",
    "level_text": "Kernel-checked check_sound / checkComp_sound: when the normal-form checker accepts a pair (original DAG, transformed DAG) - evaluated through the same generic evaluator, so vectors, matrices, indexing, products and applied functions are covered - the two expressions have the same dimensions and the same real value at EVERY point where both are defined; the pair produced by each real transformation is submitted to it. Outside the rational fragment, and for definedness, exact evaluation at sample points (Alg.rat = real semantics, rat_root_real).",
    "level_note": "Trusted: Lean kernel + Mathlib (axioms propext/Classical.choice/Quot.sound); dumper/driver glue; pairs are those generated. Genuine defects found and fixed in the simplifier and Expr2DAG (55600f68 chi, 5e54ba7c, 2b18df75, 297b604c, af130b06, 5fc0a73f).",
}

PROPS["C12"] = {
    "modules": ["IbexProofs.Props.C12", "IbexProofs.Props.C12nf"],
    "harnesses": ["h_sym"],
    "workloads": lambda tier, seed: [{"harness": "h_sym", "tag": "diff", "args": ["c12", seed, 600 if tier == "quick" else 15000]},
                                     {"harness": "h_sym", "tag": "elementary", "args": ["c12t", seed, 400 if tier == "quick" else 15000]}],
    "nontrivial": _sym_nontrivial,
    "rule": "random differentiable rational DAGs (scalar and vector valued, scalar/vector/matrix arguments, applied functions, shared nodes); f.diff() (gradient / Jacobian) and, for scalar f, the second derivative; "
            "decided by the verified symbolic checker (formal partial derivatives of the normal form vs the normal form of the library's derivative, in the documented layout) and at 4 exact rational points "
            "(forward-mode dual numbers vs exact value of the derivative expression); mutable constants holding special values (0, 1, -1) while the library differentiates, changed afterwards; "
            "workload c12t: scalar expressions with every elementary function: the library's derivative expression, evaluated at 5 points in 160-bit MPFR interval arithmetic, must meet the "
            "derivative of f computed by MPFR forward differentiation (mp_dag.h; both enclosures are ~1e-40 wide); non-trivial = decided / differentiable at the point",
    "assumptions": ["chi, saw, matrix-valued functions raise ExprDiffException in the library (outside the statement)", "expressions with elementary functions are judged by the MPFR oracle (trusted), not by the exact checker"],
    "trusted": ["expr_io.h dumper", "MPFR evaluation / forward-differentiation oracle of the harness (mp_dag.h) for expressions with elementary functions"],
    "technique": "Lean 4 proof (checkDiff_sound: accepted normal forms => the library's expression is the derivative wherever defined; dual numbers = true derivative) + exact point oracle",
    "level_text": "Kernel-checked: checkDiff_sound - when the verified checker accepts (f, df) then at every real point (where f is defined nearby and df is defined) the entries of df are the partial derivatives of the entries of f in the layout [d f_i / d x_j]; dual_gradient_correct / accepted_derivative_equal - the exact point oracle compares with the TRUE derivative. Every (f, f.diff()) pair generated is submitted to both.",
    "level_note": "Trusted: Lean kernel + Mathlib (axioms propext/Classical.choice/Quot.sound); dumper/driver glue. Genuine defects found and fixed (e37b7124, 5e54ba7c, 2b18df75).",
}

from props_C19 import ENTRY as _C19
PROPS["C19"] = _C19

def _solver_nontrivial(line, verdict):
    return any(k in verdict for k in ("log-accepted", "solution-covered", "inner-certified", "unknown-small", "status-", "default-solver"))

_SOLVER_WL = lambda tier, seed: [{"harness": "h_solver", "tag": "solver", "args": ["c05", seed, 160 if tier == "quick" else 2500]},
                                 # completeness across an interruption (cell / time limit), save, reload, resume: the resumed paving must still cover every solution
                                 {"harness": "h_solver", "tag": "resume", "args": ["c18r", seed + 1000, 16 if tier == "quick" else 150] + (["full"] if tier == "thorough" else [])}]

PROPS["C05"] = {
    "modules": ["IbexProofs.Props.C05", "IbexProofs.Props.C05loop"],
    "harnesses": ["h_solver"],
    "workloads": _SOLVER_WL,
    "nontrivial": _solver_nontrivial,
    "rule": "random systems with a planted solution (1-3 variables; square, under-constrained, inequality-only, mixed), solved by a real Solver assembled from CtcHC4 / HC4+ACID (+CtcNewton), "
            "RoundRobin / LargestFirst / SmearSumRelative, CellStack / CellList, eps_x_min in {1e-3,1/32,1/8} (uniform or per variable), eps_x_max, cell limits 1..60 or none, with logging wrappers "
            "around the contractor and the buffer; the whole log (pushes, tops, contractions, pops, flushes) is replayed by the Lean cover checker against the final paving; "
            "the planted solution and 12 sampled points are decided feasible exactly and must lie in a box of the paving; DefaultSolver must return a status (no abort without LP library); "
            "the box given to solve() differs from the declared domain System::box in 45% of the runs (smaller, shifted, larger declared domain); 12% of the searches are stopped by a tiny time limit "
            "(the buffer must be flushed into pending boxes); searches interrupted at every cell count, saved, reloaded and resumed (workload of C18) must still cover every solution; "
            "non-trivial = accepted log / exactly feasible covered point / certified box",
    "assumptions": ["leaf contract: each logged contraction keeps the solutions (C04); reported existence boxes contain a solution for each parameter value (C06/C09, Brouwer)",
                    "time limits are not exercised deterministically (cell limits are)"],
    "trusted": ["logging wrappers of the harness (LogCtc, LogBuffer)", "expr_io.h dumper"],
    "technique": "Lean 4 proof (cover certificate: an accepted log implies every solution of the initial box is in the paving, given sound leaf contractions; uniqueness certificate by regular interval Jacobian) + replay of real solver logs + exact planted-solution oracle",
    "level_text": "The real search is logged through wrapper objects and replayed by Cover.check: every cell leaves the buffer emptied by logged contractions, split into two logged children covering it (split2Ok), covered by a box of the final paving, or - when replaced/discarded in favour of a Newton existence box - justified by the uniqueness certificate Newton.replaceCert (interval Jacobian w.r.t. the solution's variables regular on the hull, parameters of the cell inside those of the solution); cells left in the buffer at an interruption must be pending boxes. Theorems: see Props/C05 (acceptance rules; cover soundness).",
    "level_note": "Trusted: Lean kernel + Mathlib; wrappers/dumper/driver; sampled systems and configurations. Known finding: Newton replacement without unicity cover (reported when no uniqueness certificate exists). Fixed: DefaultSolver abort without LP library (02c07dae).",
}

def _c06_nontrivial(line, verdict):
    return verdict.startswith("ok solution") or any(k in verdict for k in ("inner-certified", "unknown-small", "status-"))

PROPS["C06"] = {
    "modules": ["IbexProofs.Props.C06"],
    "harnesses": ["h_solver"],
    "workloads": lambda tier, seed: [{"harness": "h_solver", "tag": "verdicts", "args": ["c06", seed, 300 if tier == "quick" else 5000]},
                                     # the final status and the boxes of searches that were interrupted, saved, reloaded and resumed
                                     {"harness": "h_solver", "tag": "resume", "args": ["c18r", seed + 2000, 14 if tier == "quick" else 120] + (["full"] if tier == "thorough" else []),
                                      # the replayed search logs and the covered-point lines decide completeness (C05 / C18), not the verdicts
                                      "out_of_scope": r"^(solvelog|resumelog|solvept) "}],
    "nontrivial": _c06_nontrivial,
    "rule": "real Solver runs (same assemblies as C05, plus DefaultSolver) on random systems with planted exact solutions, square systems with 2-3 "
            "regular solutions all known exactly, systems with singular solutions, under-constrained and inequality-only systems; for every box of "
            "the returned data (up to 40 solution boxes / 25 inner / 25 unknown boxes per run): solution boxes -> `solbox` (inside the initial box, "
            "inequalities proved on the box by the model's interval evaluation, no refutation by the exactly known zeros, uniqueness certificate on the "
            "unicity box, existence by an exactly known zero), inner boxes -> every constraint proved on the box, unknown boxes -> not wider than "
            "eps_min per component, status vs. counts of boxes; non-trivial = a decided box / status",
    "assumptions": ["a solution box is DECIDED when the Lean certificates exist (verdict `exactly-one-zero-certified`: Krawczyk existence certificate on a sub-box with the "
                    "parameter ranges of E + regular interval Jacobian on U) or when it is refuted by exactly known zeros; when no certificate exists (thick constants, "
                    "non-rational operators, wide parameter ranges) the line is tagged uniqueness-/existence-uncertified, not failed: for those boxes only the refutation "
                    "rules were applied"],
    "trusted": ["expr_io.h dumper", "harness h_solver (read-out of CovSolverData)"],
    "technique": "Lean 4 proof (verified certifying/refuting rules for the solver's claims: interval-Jacobian uniqueness certificate, exact rational zeros, "
                 "interval evaluation for inner boxes, exact width/status rules) evaluated on the outputs of real Solver runs",
    "level_text": "Kernel-checked: `SolClaim` (for every parameter value in E exactly one zero in E, no other in U) follows from the certificates "
                  "(claim_of_certifiedBy: Krawczyk/Banach existence certificate C09 exists_zero_of_cert + regular interval Jacobian C09 unique_zero; "
                  "claim_of_known_zero) and is refuted by exactly known zeros "
                  "(refutedOutside_sound, refutedTwo_sound); inner_box_sound (C02 enclosure) for all real points; unknown_small_iff/dist; status rules. "
                  "Every reported box of every generated run is decided by these rules.",
    "level_note": "Trusted: Lean kernel + Mathlib; dumper/driver glue; sampled systems and configurations. The share of solution boxes decided by certificates is in the "
                  "verdict histogram of the evidence (typically > 85 %).",
}

def _c09_nontrivial(line, verdict):
    return verdict.startswith("ok") and "no-claim" not in verdict and "no-known-zero" not in verdict

PROPS["C09"] = {
    "modules": ["IbexProofs.Props.C09", "IbexProofs.Props.C09exist", "IbexProofs.Props.C09exact", "IbexProofs.Props.C09rules", "IbexProofs.Props.C09certify"],
    "harnesses": ["h_newton"],
    "workloads": lambda tier, seed: [{"harness": "h_newton", "tag": "newton", "args": ["c09", seed, 350 if tier == "quick" else 6000]},
                                     {"harness": "h_newton", "tag": "certify", "args": ["certify", seed, 250 if tier == "quick" else 4000]}],
    "nontrivial": _c09_nontrivial,
    "rule": "systems with exactly known zeros (planted solution of random square / under-constrained systems, 2-3 regular zeros all known, singular zeros) "
            "and systems without any zero; boxes around / away from the zeros (tiny, small, medium, large with several zeros, zero on the boundary, the whole domain); "
            "newton() and CtcNewton (ceil, prec, Gauss-Seidel ratio varied; all variables or a VarSet chosen by get_newton_vars / at random): no known zero lost, "
            "all zeros kept certified when the box has a regular interval Jacobian, emptied boxes contain no known zero; inflating_newton (from the box / its midpoint, "
            "with VarSet): success => SolClaim certified by the Krawczyk + regular-Jacobian certificates or refuted by known zeros / by interval exclusion; "
            "PdcHansenFeasibility (inflating or not): YES => the returned box contains a zero (known zero, Krawczyk certificate on a sub-box) and is refuted when "
            "interval evaluation on a subdivision excludes a zero; LoupFinderCertify (rigor mode: systems whose zeros are all known exactly, inequalities that cut some of them off, "
            "constraints declared as scalars or grouped into vector-valued constraints in every order, inner finder failing / returning a nearby point / the zero): a returned box "
            "is refuted when a constraint is violated at every point of it, when the equalities have no zero in it or when the goal exceeds the returned value, and certified by a known "
            "feasible point or by the existence certificate with the inequalities proved on the box; non-trivial = a decided claim",
    "assumptions": ["claims that are neither certified nor refuted are tagged `uncertified` (non-rational operators; thick constants; wide parameter ranges) and counted in "
                    "the verdict histogram; existence boxes a few ulps wide are decided by the certificates evaluated with EXACT rational interval arithmetic "
                    "(existCertVarsX, exists_zero_of_certX)",
                    "LoupFinderCertify is exercised through PdcHansenFeasibility (inflating mode), its only source of feasibility claims"],
    "trusted": ["expr_io.h dumper", "harness h_newton"],
    "technique": "Lean 4 proof (existence by Banach fixed point of the Krawczyk operator, uniqueness by regular interval Jacobian + mean value theorem, "
                 "interval-exclusion refutation, exact rational zeros) as verified certificate checkers run on the outputs of the real Newton procedures",
    "level_text": "Kernel-checked: exists_zero_of_cert / exists_unique_zero (Krawczyk test accepted => for every parameter value a zero exists in the box; with the "
                  "uniqueness certificate exactly one, none other in the unicity box), unique_zero, replaceCert_sound' ; run-time rules lostZero_sound, keptAllBy_sound, "
                  "noZero_sound, hasZeroBy_sound, feasibility_refuted. Every output of every generated call is decided by these rules or tagged uncertified.",
    "level_note": "Trusted: Lean kernel + Mathlib; dumper/driver glue; sampled systems, boxes and parameters. Fixed: PdcHansenFeasibility false YES (non-inflating mode).",
}

from props_C20 import ENTRY as _C20
PROPS["C20"] = _C20

from props_C13 import ENTRY as _C13
PROPS["C13"] = _C13

from props_C15 import ENTRY as _C15
PROPS["C15"] = _C15

from props_C07 import ENTRY as _C07
PROPS["C07"] = _C07

from props_C14 import ENTRY as _C14
PROPS["C14"] = _C14

from props_C10 import ENTRY as _C10
PROPS["C10"] = _C10
