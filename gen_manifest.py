#!/usr/bin/env python3
"""Regenerate MANIFEST.json from props.py (claimed checks) and properties.jsonl (everything else -> not_applicable)."""
import json, os, subprocess
ROOT = os.path.dirname(os.path.abspath(__file__))
import sys; sys.path.insert(0, ROOT)
from props import PROPS
ids = [json.loads(l)["id"] for l in open(os.path.join(ROOT, "properties.jsonl"))]
hooks = subprocess.run(["git", "-C", "/repo", "log", "--format=%h %s"], stdout=subprocess.PIPE, text=True).stdout.splitlines()
hook_commits = [l.split(" ")[0] for l in hooks if l.split(" ", 1)[1].startswith("verif hook")]
m = {
 "version": 1,
 "setup_cmd": "python3 /verif/setup.py",
 "hooks": {
  "guard": "IBEX_VERIF_HOOKS",
  "enable": "out-of-tree cmake build in /verif/.build/ibex with -DCMAKE_CXX_FLAGS='-Wno-error -DIBEX_VERIF_HOOKS' (done by setup.py and incrementally by every check)",
  "baseline_off_cmd": "ninja -C /repo/_build check",
  "source_commits": hook_commits,
  "add_only": True
 },
 "engines": [
  {"name": "lean-model", "path": "/verif/lean", "serves_properties": sorted(PROPS), "kind_free_text": "Lean 4 executable model (IbexModel), theorems (IbexProofs, property theorems in IbexProofs/Props), compiled line-protocol driver (Driver)"},
  {"name": "harness", "path": "/verif/harness", "serves_properties": sorted(PROPS), "kind_free_text": "C++ harnesses linked against the hook-enabled libibex.a rebuilt from /repo's working tree; MPFR point oracle"},
  {"name": "check.py", "path": "/verif/check.py", "serves_properties": sorted(PROPS), "kind_free_text": "orchestrator: build, lake build, axiom audit, correspondence, evidence, replays, known findings"}
 ],
 "checks": [],
 "not_applicable": [],
 "notes": "See DESIGN.md. Every check: python3 /verif/check.py <id> --tier quick|thorough (VERIF_SEED honoured)."
}
for pid in ids:
    if pid in PROPS and PROPS[pid].get("claimed", True):
        c = PROPS[pid]
        m["checks"].append({
            "property_id": pid,
            "quick_cmd": "python3 /verif/check.py %s --tier quick" % pid,
            "thorough_cmd": "python3 /verif/check.py %s --tier thorough" % pid,
            "evidence_file": "/verif/evidence/%s.json" % pid,
            "replay_cmd_template": "python3 /verif/check.py %s --replay {path}" % pid,
            "engine": "lean-model",
            "level_claimed": {"category": "proof", "text": c["level_text"], "design_ref": c.get("design_ref", "DESIGN.md section 5, " + pid)},
            "level_note": c["level_note"],
            "technique": c["technique"],
        })
    else:
        reason = PROPS.get(pid, {}).get("na_reason", "check not built yet in this round (planned with the same technique, see DESIGN.md section 3 " + pid + ")")
        m["not_applicable"].append({"property_id": pid, "reason": reason})
json.dump(m, open(os.path.join(ROOT, "MANIFEST.json"), "w"), indent=1)
print("claimed:", [c["property_id"] for c in m["checks"]])
