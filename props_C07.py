"""props.py entry for C07 (optimizer bounds / witness / status) + the optimizer half of C18 (ops optresume*)."""


def _c07_nontrivial(line, verdict):
    # a run whose verdict was decided with a verified witness or a proved absence of loup; undecided witnesses do not count
    return verdict.startswith("ok ") and "undecided" not in verdict


def _wl(tier, seed):
    full = ["full"] if tier == "thorough" else []
    return [
        # problems with a known global minimum x hand-assembled optimizers (3 configurations each)
        {"harness": "h_optim", "tag": "run", "args": ["c07", seed, 1800 if tier == "quick" else 6000] + full},
        # (optimizer half of C18) every interruption point k = 2,4,..,N-2 of small searches, chains of 2-3 interruptions:
        # save -> reload -> resume with fresh objects
        {"harness": "h_optim", "tag": "resume", "args": ["resume", seed, 500 if tier == "quick" else 2500] + full},
        # searches logged through wrappers (buffer, bisector, contractor): cover certificate for uplo, also on random problems without oracle
        {"harness": "h_optim", "tag": "cover", "args": ["cover", seed, 500 if tier == "quick" else 3000] + full},
    ]


ENTRY = {
    "modules": ["IbexProofs.Props.C07", "IbexProofs.Props.C07loop"],
    "harnesses": ["h_optim"],
    "workloads": _wl,
    "nontrivial": _c07_nontrivial,
    "rule": "one line = one complete run of a real Optimizer assembled by hand (no LP library here): contractor in {HC4, HC4 incremental, HC4+ACID, HC4+3BCID, ACID, identity}, "
            "bisector in {OptimLargestFirst (goal bisected or not), SmearSumRelative, SmearMax (OptimLargestFirst fallback), RoundRobin}, loup finder in {Probing (1-3 samples), InHC4, FwdBwd} "
            "optionally wrapped in LoupFinderCertify (rigor), buffer in {CellHeap, CellDoubleHeap x crit2_pr {0,20,50,100} x all 8 second criteria, CellBeamSearch beam 1-5}, "
            "eps_x in {1e-7..0.5}, abs/rel eps_f in {0,1e-5..0.5}, eps_h in {0,2^-20,2^-10,2^-8,1e-8}, anticipated upper bounding on/off, extended COV on/off, random seed, "
            "initial loup (none / above / equal to / slightly below / slightly above f*), cell budget; problems of dimension 1-4 with a minimum known by construction: "
            "separable convex quadratics (minimiser inside, on the boundary, outside the box, cut by bound constraints), linear objectives (vertex, active linear constraint), "
            "non-convex sums of squares (several global minimisers), equality-constrained problems (line, circle, two equalities; eps_h relaxation; rigor), infeasible systems, "
            "objectives outside the polynomial fragment (x+k^2/x, abs, max, sqrt domain), each with 0-2 random extra constraints (vh::ExprGen) satisfied with a margin at the planted minimiser; "
            "per run: planted minimiser + 8-10 lattice/perturbed points decided feasible exactly, a lower-bound certificate f = c + sum w q^2 + sum lam slack checked by the verified normal form; "
            "cover workload: the same families plus random objectives/constraints without oracle (vh::ExprGen), 2 configurations each, the search logged through wrappers "
            "(top/pop/push of the buffer, the two halves of each bisection, input/output of each contraction) and replayed by the verified cover checker against the final uplo; "
            "resume workload: for each small search EVERY interruption point (cell budget k=2,4,..,N-2; sampled above 24 points in the quick tier) and chains of 2-3 interruptions, "
            "state saved to a COV file, reloaded, resumed with fresh objects; non-trivial = verdict decided (no undecided witness); distinct = distinct lines",
    "assumptions": [
        "correspondence is sampled: the verified checker is run on the outputs of the real optimizer for the generated problems/configurations (known-minimum oracle)",
        "the universal lower-bound claim is derived (theorem lower_bound_universal) on the families that carry a certificate (all polynomial families: >60% of the runs); "
        "on the other families (abs/max/sqrt/rational objectives, circle) uplo is compared with the objective at the planted global minimiser and at the sampled feasible points only",
        "cover certificate: each logged contraction keeps the extended points (x, f(x)) of the feasible x (leaf hypothesis = property C04, checked there); "
        "the halves logged for a bisection are recomputed by the wrapper with the code of Cell::bisect (the replay checks that they cover the cell and that the boxes handled next are these halves)",
        "rigor mode: that the thin loup box CONTAINS an exactly feasible point (Hansen/Newton existence test of LoupFinderCertify) is the claim of C09; "
        "here: the box lies in the initial box, f <= loup on the whole box, no constraint is refuted on it",
        "LP-based components (LoupFinderXTaylor, CtcLinearRelax/CtcPolytopeHull, LSmear, DefaultOptimizer) cannot run in this configuration (LP_LIB=none): not exercised",
        "time-outs are exercised through the deterministic cell budget (hook H2), not through the wall clock",
    ],
    "trusted": ["expr_io.h dumper (objective and constraints are dumped from the System object the optimizer works on)",
                "harness h_optim.cpp (assembly of the optimizer, reporting of get_status/get_uplo/get_loup/get_loup_point and of the reloaded CovOptimData)",
                "hook H2 (cell budget) in ibex_Optimizer.cpp", "logging wrappers LogCtc / LogBsc / LogBuffer of the harness"],
    "technique": "Lean 4 proof (verified replay of the logged branch-and-bound: accepted log + sound contractions => uplo <= f on the whole feasible set, by induction over the log; verified result checker: exact feasibility / objective bounds over Q = real semantics; Positivstellensatz-style lower-bound certificate "
                 "checked by the verified rational-function normal form => universal lower bound over the reals) + the checker run on every output of the real optimizer "
                 "on problems with a minimum known by construction",
    "level_text": "Kernel-checked (Props/C07): if the checker accepts an output (status, uplo, loup, loup point) of the optimizer then, for the real-number semantics of the dumped problem: "
                  "uplo <= loup <= initial loup (bounds_ordered); uplo <= f(p) at every planted/sampled point that is feasible, feasibility and f(p) being decided exactly (lower_bound_on_checked_points); "
                  "with an accepted certificate f = c + sum w_i q_i^2 + sum lam_j s_j (w, lam >= 0, s_j slacks of box bounds / constraints / eps_h-relaxed equalities, identity checked by the verified normal form) "
                  "and uplo <= c: uplo <= f(x) for EVERY feasible real point of the box (lower_bound_universal), and c is the global minimum when attained at the planted point (certified_minimum); "
                  "cover_lower_bound: for ANY problem (no known minimum), if the replay of the search log (wrappers around buffer, bisector, contractor) is accepted for U = uplo and the logged contractions keep the feasible extended points (C04) "
                  "then uplo <= f(x) for every feasible real x - by induction over logs of any length; "
                  "sepquad_ge / sepquad_box_ge: the planted point of the convex separable family is its global minimiser over the box (projection); minimizer_lower_bound: universal claim from a minimiser hypothesis; "
                  "the loup point is feasible for the eps_h-relaxed problem, lies in the initial box and has f <= loup (witness_exact, witness_interval; witness_rigor for the thin box of rigor mode); "
                  "SUCCESS implies the documented precision test (abs: loup-uplo <= abs_eps_f, or rel: (loup-uplo)/|uplo| <= rel_eps_f with the conventions of get_obj_rel_prec at 0) on the exact values and a verified witness (success_precision); "
                  "INFEASIBLE implies that none of the checked points is feasible below the initial loup (infeasible_sound) and, like NO_FEASIBLE_FOUND, that no loup below the initial bound is reported (nofeasible_no_loup); "
                  "resumed_sound (C18): an accepted interrupted/saved/reloaded/resumed run satisfies all this, its loup never exceeds a saved loup and an unimproved loup keeps its point. "
                  "The checker is run on every output of real Optimizer objects (all assemblies listed in the rule) on generated problems with known minimum.",
    "level_note": "Trusted: Lean kernel + Mathlib (axioms propext/Classical.choice/Quot.sound); dumper, harness, driver glue; the correspondence (the C++ always produces accepted outputs) is sampled. "
                  "The universal lower-bound claim 'for all feasible x, uplo <= f(x)' is DECIDED through a known-minimum oracle: proved from a machine-checked certificate on the polynomial families, "
                  "from the planted minimiser (hypothesis of minimizer_lower_bound) elsewhere; and, independently of any oracle, from the verified replay of the logged search (cover_lower_bound) under the leaf hypothesis that each contraction is sound (C04); "
                  "there is no proof that the C++ loop always produces an accepted log (sampled). "
                  "Reading of the status semantics after a resume: NO_FEASIBLE_FOUND / INFEASIBLE while a feasible loup point below the initial bound is held (inherited) is a violation "
                  "(header: 'no feasible point could be found / exists less than obj_init_bound'); the resumed run is given the same obj_init_bound as the original run. "
                  "Genuine defects found: loup point of LoupFinderProbing (line search) outside the initial box by rounding; Optimizer::start(CovOptimData) forgets uplo_of_epsboxes "
                  "(resumed uplo above the global minimum, SUCCESS with a wrong lower bound).",
}
