"""PROPS["C14"] — inner operators and feasibility claims never overshoot.

Merge into props.py with:   from props_C14 import ENTRY as _e; PROPS["C14"] = _e
"""

_TRIVIAL = ("ok empty", "ok none-found", "ok nothing-claimed", "ok notfound", "ok skipped", "ok empty-box",
            "ok vacuous-empty-result-with-flag-true", "ok seed-violates-the-precondition", "ok seed-precondition-not-certified", "ok undecided",
            "ok undecided-point", "ok empty-component")


def _nontrivial(line, verdict):
    v = " ".join(verdict.split(" ")[:2])
    if v in _TRIVIAL:
        return False
    if v == "ok empty-conservative":
        return False
    return verdict.startswith("ok")


def _workloads(tier, seed):
    q = tier == "quick"
    full = [] if q else ["full"]
    return [
        # A.1 forward inner operators: lattice of special endpoints (pairs sampled / dense) + random intervals
        {"harness": "h_inner", "tag": "fwd", "args": ["c14fwd", seed, 400 if q else 20000] + full},
        # A.2 inner backward projections of single operators, inflating (random valid seeds) and not
        {"harness": "h_inner", "tag": "bwd", "args": ["c14bwd", seed, 20000 if q else 300000]},
        # B Function::ibwd on random DAGs
        {"harness": "h_inner", "tag": "fun", "args": ["c14fun", seed, 6000 if q else 100000]},
        # B' Function::ibwd on DAGs with exp log cos sin tan nodes (sampled: box relations exact, points through the library's outward evaluation)
        {"harness": "h_inner", "tag": "funt", "args": ["c14funt", seed, 8000 if q else 150000]},
        # C System::is_inner / active_ctrs
        {"harness": "h_inner", "tag": "sys", "args": ["c14sys", seed, 4000 if q else 60000]},
        # D loup finders without LP
        {"harness": "h_inner", "tag": "loup", "args": ["c14loup", seed, 5000 if q else 80000]},
    ]


ENTRY = {
    "modules": ["IbexProofs.Props.C14"],
    "harnesses": ["h_inner"],
    "workloads": _workloads,
    "nontrivial": _nontrivial,
    "rule": "A: iadd isub imul idiv imax imin isqr iminus ilog iexp iacos iasin iatan on the lattice of special endpoints "
            "(0, +-min subnormal, +-DBL_MIN, +-1+-ulp, pi/2+-ulp, 2^52, 2^53, DBL_MAX, +-oo: pairs sampled in quick, dense in thorough) and on "
            "random intervals (degenerate, one ulp wide, half-bounded); ibwd_add sub mul div max min sqr abs minus sqrt pow(-4..6) exp log cos sin tan "
            "with random images derived from the forward image of sub-intervals, in non-inflating mode and in inflating mode with random seeds that "
            "satisfy the documented preconditions (seed inside the arguments, outward image of the seed inside the requested image); every call is "
            "followed by fegetround()==FE_UPWARD. B: Function::ibwd on random scalar DAGs over + - * / minus sqr sqrt abs max min pow(int) with shared "
            "sub-expressions (x op x), applied functions, 1-3 variables, images around the value at a planted point (half-bounded, thin, wide), "
            "bounded and half-bounded boxes, with and without a seed box, optionally after a call on another box; result certified by total interval "
            "evaluation with subdivision (depth <= 7) + 6 random points, the corners, the centre and the points with a zero coordinate of the result "
            "evaluated exactly. C: systems of 1-3 constraints (< <= = >= >) built with SystemFactory, boxes = points / small boxes / boxes around a "
            "planted feasible point; every constraint outside active_ctrs certified on the whole box, is_inner == (active set empty). D: LoupFinderProbing "
            "(1-12 samples), LoupFinderInHC4, LoupFinderFwdBwd on systems with a goal (raw and NormalizedSystem with eps_h 0 / 1e-8), with and without an "
            "incumbent: the returned point evaluated exactly. non-trivial = a non-empty answer was accepted by a verified checker",
    "assumptions": [
        "correspondence is sampled: the verified checkers are run on the outputs of the real code for the generated inputs",
        "transcendental operators (ilog iexp iacos iasin iatan, ibwd_exp log cos sin tan): MPFR (correct directed rounding at 53 bits, 400 bits for the "
        "position of the critical points k*pi, pi/2+k*pi) is the point oracle; the theorems take the meaning of the oracle bounds as hypotheses",
        "whole functions: rational operators and sqrt only (no exact oracle for transcendental nodes); chi is not generated (lazy in ibex, strict in the model); "
        "vector/matrix-valued constraints are not generated (InHC4Revise does not support them)",
        "an interval constant of a dumped DAG (constant folding) denotes any of its members (theorems quantify over all selections)",
        "Function::ibwd in inflating mode is judged only when the documented precondition (every point of the seed box is mapped into the image) is itself certified by the verified evaluator (the harness can only validate a seed with ibex's own evaluation, which ignores undefined points)",
        "ibwd_trigo is only driven with |x| <= 3000 (it scans the periods one by one)",
    ],
    "trusted": ["MPFR/GMP as point oracle for transcendental operators", "expr_io.h dumper of the constraint / goal functions of a System",
                "g++/x86-64 IEEE-754 arithmetic"],
    "technique": "Lean 4 proof (verified checkers: witness points + intermediate value theorem for 'subset of the exact range'; exact corner hulls for "
                 "'image inside'; total interval evaluation natural w.r.t. the real semantics for whole functions; exact rational evaluation for points) "
                 "run on the outputs of the real C++ code + MPFR oracle with the opposite rounding for transcendental operators",
    "level_text": "Kernel-checked, for all intervals (any extended bounds), all DAGs (any size, sharing, applied functions), all boxes and all REAL points: "
                  "(A) an accepted answer Z of iadd/isub/imul/idiv/imax/imin/isqr/iminus consists of values of the operator on X x Y (idiv: with y != 0) - the "
                  "checker exhibits exact rational points of the region with values on both sides (or a ray along which the operator is unbounded) and the "
                  "intermediate value theorem on the preconnected region does the rest; over bounded intervals the unrounded corner hull IS the range "
                  "(range_exact_add/sub/mul/sqr/div_pos); ilog/iexp/iacos/iasin/iatan: inside the range given the meaning of the MPFR bounds (iexp on (-oo,b]: 0 "
                  "excluded); (B) an accepted answer of ibwd_add/sub/mul/div/max/min/sqr/abs/minus/sqrt/pow is inside the input, contains the seed, and the "
                  "operator is DEFINED at every real point of it and maps it into the image (no pole, no negative square root); (C) when the total interval "
                  "evaluation (division only by intervals without 0, sqrt only of non-negative intervals) of a DAG over a box - or over every leaf of a "
                  "subdivision of any depth - is accepted, the real function is defined at every point of the box and satisfies the requirement: accepted "
                  "Function::ibwd results (inside the box, containing the seed) and accepted is_inner/active_ctrs answers mean what they say; (D) an accepted "
                  "loup point satisfies every constraint exactly and its goal value is <= the reported loup (exact rational evaluation = real semantics).",
    "level_note": "Trusted: Lean kernel + Mathlib (axioms propext/Classical.choice/Quot.sound); harness, dumper, line protocol, driver glue; MPFR; the "
                  "correspondence is sampled. Genuine defects found: see C14_proposed_fixes.diff (iexp((-oo,b]) contains 0; ibwd_div returns false / a pole in "
                  "inflating mode and for mixed-sign quadrants; overflow of z/y confused with the y=0 marker; random point in an unbounded interval; "
                  "ibwd_pow with a negative / zero exponent and lost seeds; ibwd_cos/sin/tan periods rounded the wrong way, macro arguments not "
                  "parenthesised, lost seeds; InHC4Revise: x op x aliasing, abs/sqrt/exp/log ignore the seed). Known finding (not a small repair): "
                  "is_inner / active_ctrs / loup points ignore the points where a constraint is undefined.",
}
