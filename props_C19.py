"""PROPS["C19"] — contractor / separator combinators realise the set operation they name.

Merge into props.py with:   from props_C19 import ENTRY as _C19; PROPS["C19"] = _C19
"""

_NONTRIVIAL = ("ok eq-contracted", "ok differs-sound", "ok eq-decided", "ok eq", "ok wider",
               "ok sampled-members-kept", "ok sampled-outside", "ok sampled-removed")


def _nontrivial(line, verdict):
    return " ".join(verdict.split(" ")[:2]) in _NONTRIVIAL


def _workloads(tier, seed):
    q = tier == "quick"
    full = [] if q else ["full"]          # full: trees of depth <= 5 (quick: <= 3)
    k = 2 if q else 12
    w = [
        ("comb", "comb", 3000), ("combg", "combg", 1500),          # contractor trees, synthetic leaves (lattice / general doubles)
        ("sep", "sep", 2000), ("sepg", "sepg", 1000),              # separator trees
        ("pdc", "pdc", 1500),                                      # predicate trees (three-valued)
        ("qint", "qint", 1000), ("qintg", "qintg", 500),           # qinter() on boxes
        ("quant", "quant", 1500), ("quantg", "quantg", 700),        # trees rooted at CtcExist / CtcForAll, repeated calls
        ("quantsmall", "quantsmall", 300),                         # parameter box narrower than the precision / degenerate
        ("cst", "cst", 2000), ("csep", "csep", 2000),              # constraint-based leaves, contract on sampled points
    ]
    return [{"harness": "h_comb", "tag": tag, "args": [wl, seed, n * k] + full} for tag, wl, n in w]


ENTRY = {
    "modules": ["IbexProofs.Props.C19"],
    "harnesses": ["h_comb"],
    "workloads": _workloads,
    "nontrivial": _nontrivial,
    "rule": "random combinator trees (depth <= 3 quick, <= 5 thorough; dimension 1-3; CtcCompo/Union/FixPoint/QInter/Integer/"
            "Identity/Empty/Exist/ForAll/CtcEmpty(pdc), SepCtcPair/Inter/Union/Not/QInter, PdcAnd/Or/Not) over synthetic exact "
            "leaves (unions of boxes with legitimate FIXPOINT/INACTIVE flags) on a half-integer lattice (ties, touching faces, "
            "degenerate and unbounded boxes) and on general doubles; 1-3 successive calls on the same object; plus trees over "
            "constraint-based leaves (CtcFwdBwd, CtcNotIn, CtcInverse, SepFwdBwd, SepInverse, CtcExist at the root). "
            "A line is non-trivial when some call returns a non-empty box different from its input (or a decided predicate / "
            "a sampled point outside the result); distinct = distinct lines",
    "assumptions": [
        "correspondence is sampled: on every generated (tree, leaves, box) the implementation's result is compared with the model "
        "evaluator (equal => the theorems apply); results equal to the model on small grids and ALL results different from the model "
        "are decided by an exact cell oracle (every point of the input box in the logical set must remain)",
        "constraint-based leaves (CtcFwdBwd/HC4Revise, CtcNotIn, CtcInverse, SepFwdBwd, SepInverse): only the contract is checked, on "
        "sampled points of the input box lying outside the result, membership decided exactly in rational arithmetic",
        "the C++ synthetic leaves CtcUnionOfBoxes / SepOfBoxes / PdcOfBoxes (harness/h_comb.cpp) implement ctcU / sepLeafF / pdcLeafF",
        "SepBoundaryCtc, Set / SetInterval pavings, CtcPropag, matrix-valued CtcNotIn are not covered",
    ],
    "trusted": ["exact cell oracle Driver/CombOracle.lean (decides the property on outputs that differ from the model; not proved)",
                "printing of boxes as hex bit patterns is injective"],
    "technique": "Lean 4 proofs (contract CtcOK/SepOK/PdcOK preserved by every combinator for arbitrary sub-contractors; induction over "
                 "trees, lists, fuel; stack invariants of CtcExist/CtcForAll) + differential correspondence impl = model on synthetic "
                 "exact leaves + exact cell oracle + exact point-membership checks for constraint-based leaves",
    "level_text": "Kernel-checked: for ANY sub-contractors meeting the contract (sub-box, no point of the set lost, INACTIVE only if "
                  "nothing removed) composition / union / fix-point (any fuel, any ratio) / q-intersection / integer / identity / empty / "
                  "CtcEmpty(pdc) / exists / for-all (any covering bisection, any sampling point, any precision) / not-in / inverse meet "
                  "the contract for the named set; the separator contract is closed under pair, intersection, union, complement and "
                  "q-intersection; three-valued PdcAnd/Or/Not; all trees by induction (tree_ctc, tree_sep, tree_pdc); an implementation "
                  "result equal to the model's is a sub-box keeping every point of the logical set (comb_accept, sep_accept).",
    "level_note": "Trusted: Lean kernel + Mathlib, axioms propext/Classical.choice/Quot.sound; harness, line protocol, driver glue, the "
                  "cell oracle; the correspondence is sampled. Genuine defects found on the pinned tree: qinter drops q-intersections "
                  "of measure zero (also for q=1 and q=n); CtcCompo leaks stale FIXPOINT/INACTIVE flags (CtcUnion then drops "
                  "sub-contractors); CtcForAll reports INACTIVE after contracting; CtcExist throws NoBisectableVariableException when the "
                  "parameter box is narrower than the precision; PdcAnd/PdcOr use the set operators & and | instead of && and ||.",
}
