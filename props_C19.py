"""PROPS["C19"] — contractor / separator combinators realise the set operation they name.

Merge into props.py with:   from props_C19 import ENTRY as _C19; PROPS["C19"] = _C19
"""

_NONTRIVIAL = ("ok eq-contracted", "ok differs-sound", "ok eq-decided", "ok eq", "ok wider",
               "ok sampled-members-kept", "ok sampled-outside", "ok sampled-removed")


# set pavings (h_set): a line is non-trivial when some YES / NO leaf was really examined (cells of an exact expression or
# exact sample points inside the leaf), a separator contracted, a predicate decided
_NONTRIVIAL_SET = ("ok exact-decided", "ok sampled-decided", "ok sepx-contracted", "ok cpdc-decided")


def _nontrivial(line, verdict):
    return " ".join(verdict.split(" ")[:2]) in _NONTRIVIAL or verdict.startswith(_NONTRIVIAL_SET)


def _workloads(tier, seed):
    q = tier == "quick"
    full = [] if q else ["full"]          # full: trees of depth <= 5 (quick: <= 3)
    k = 2 if q else 12
    w = [
        ("comb", "comb", 3000), ("combg", "combg", 1500),          # contractor trees, synthetic leaves (lattice / general doubles)
        ("sep", "sep", 2000), ("sepg", "sepg", 1000),              # separator trees
        ("pdc", "pdc", 1500),                                      # predicate trees (three-valued)
        ("qint", "qint", 1000), ("qintg", "qintg", 500),           # qinter() on boxes
        ("quant", "quant", 1500), ("quantg", "quantg", 700),        # trees rooted at CtcExist / CtcForAll, repeated calls
        ("quantsmall", "quantsmall", 300),                         # parameter box narrower than the precision / degenerate
        ("cst", "cst", 2000), ("csep", "csep", 2000),              # constraint-based leaves, contract on sampled points
    ]
    res = [{"harness": "h_comb", "tag": tag, "args": [wl, seed, n * k] + full} for tag, wl, n in w]
    # set pavings (last sentence of the property): real ibex::Set / ibex::SetInterval, leaves walked with a SetVisitor
    ks = 1 if q else 10
    ws = [
        ("pav", "pav", 300), ("pavg", "pavg", 110),               # exact leaves (lattice / general doubles): verified cell checker
        ("pavc", "pavc", 250),                                     # + polynomial constraints: refutation by exact points
        ("sepx", "sepx", 600), ("sepxg", "sepxg", 120),            # Sep::separate on trees with SepBoundaryCtc leaves
        ("cpdc", "cpdc", 800),                                     # PdcFwdBwd / PdcAnd / PdcOr / PdcNot (fixed-arity constructors)
        ("cinv", "cinv", 300),                                     # repeated calls of one CtcInverse (INACTIVE sub-contractor)
    ]
    res += [{"harness": "h_set", "tag": tag, "args": [wl, seed, n * ks] + full} for tag, wl, n in ws]
    return res


ENTRY = {
    "modules": ["IbexProofs.Props.C19", "IbexProofs.Props.C19set"],
    "harnesses": ["h_comb", "h_set"],
    "workloads": _workloads,
    "nontrivial": _nontrivial,
    "rule": "random combinator trees (depth <= 3 quick, <= 5 thorough; dimension 1-3; CtcCompo/Union/FixPoint/QInter/Integer/"
            "Identity/Empty/Exist/ForAll/CtcEmpty(pdc), SepCtcPair/Inter/Union/Not/QInter, PdcAnd/Or/Not) over synthetic exact "
            "leaves (unions of boxes with legitimate FIXPOINT/INACTIVE flags) on a half-integer lattice (ties, touching faces, "
            "degenerate and unbounded boxes) and on general doubles; 1-3 successive calls on the same object; plus trees over "
            "constraint-based leaves (CtcFwdBwd, CtcNotIn, CtcInverse, SepFwdBwd, SepInverse, CtcExist at the root). "
            "A line is non-trivial when some call returns a non-empty box different from its input (or a decided predicate / "
            "a sampled point outside the result); distinct = distinct lines. "
            "SET PAVINGS (h_set): programs of 1-7 steps on the real ibex::Set / ibex::SetInterval in dimension 1-3 (constructors from "
            "a dimension / a box and a status / a Function, NumConstraint or System with eps; Sep::contract(Set, eps) and "
            "Sep::contract(SetInterval, eps, status1, status2) with separator trees SepOfBoxes / SepCtcPair / SepInter / SepUnion / "
            "SepNot / SepQInter / SepBoundaryCtc / SepFwdBwd / SepInverse; &=, |=, save + load, repeated operations on the same "
            "object); the leaves are walked with a SetVisitor and every leaf (box, YES / NO / MAYBE) is printed, with is_empty, "
            "is_superset on 1-4 boxes and Set::dist (in a child process). The driver interprets the program as a thick-set "
            "expression [lo, hi] and runs the verified checker pavingOk (exact leaves: every cell of every YES / NO leaf, cover of "
            "the space) or the exact point rule leafRefuted (polynomial constraints: corners, midpoints, 40 sample points); "
            "i-sets whose information is contradictory carry no claim. A paving line is non-trivial when a YES / NO leaf with "
            "a full-dimensional cell (or an exact sample point inside) was examined",
    "assumptions": [
        "correspondence is sampled: on every generated (tree, leaves, box) the implementation's result is compared with the model "
        "evaluator (equal => the theorems apply); results equal to the model on small grids and ALL results different from the model "
        "are decided by an exact cell oracle (every point of the input box in the logical set must remain)",
        "constraint-based leaves (CtcFwdBwd/HC4Revise, CtcNotIn, CtcInverse, SepFwdBwd, SepInverse): only the contract is checked, on "
        "sampled points of the input box lying outside the result, membership decided exactly in rational arithmetic",
        "the C++ synthetic leaves CtcUnionOfBoxes / SepOfBoxes / PdcOfBoxes (harness/h_comb.cpp) implement ctcU / sepLeafF / pdcLeafF",
        "CtcPropag, matrix-valued CtcNotIn (not_implemented) are not covered",
        "set pavings: the translation of a program of Set operations into a thick-set expression (Driver/OpsSet.lean: stepSE, sepSE, "
        "statusImage) is the specification of what each operation names (Set::&= intersection, |= union, Sep::contract "
        "intersection with the separator's set, SetInterval contraction = information of both); boundary convention: leaves are "
        "closed boxes, labels are claims up to the boundary (YES leaf inside hi and limit of points of lo, NO leaf disjoint from lo "
        "and limit of points outside hi); flat YES / NO leaves (none met) carry only the pointwise claim",
        "constraint-based pavings are only refuted at exact points (no proof of a label); i-sets over polynomial constraints: the "
        "successive informations are consistent by construction of the generator (all true for one hidden set), checked at the sample points",
        "pavings needing more than 4e6 cell x box tests, or more than 2600 leaves, are reported / skipped as not examined; the refinement "
        "only terminates when the undetermined region is bounded: programs start from bounded boxes (or exact separators in dimension 1)",
        "Set::dist is compared with the exact distance to the printed leaves (relative tolerance 1e-9), not with the denoted set",
    ],
    "trusted": ["exact cell oracle Driver/CombOracle.lean (decides the property on outputs that differ from the model; not proved; "
                "the set-paving checker IbexModel/SetPaving.lean has its own PROVED cell enumeration)",
                "printing of boxes as hex bit patterns is injective"],
    "technique": "Lean 4 proofs (contract CtcOK/SepOK/PdcOK preserved by every combinator for arbitrary sub-contractors; induction over "
                 "trees, lists, fuel; stack invariants of CtcExist/CtcForAll) + differential correspondence impl = model on synthetic "
                 "exact leaves + exact cell oracle + exact point-membership checks for constraint-based leaves; set pavings: verified "
                 "checker (pavingOk / sepOk / supOk: cell enumeration proved complete for all real points, segment argument for the "
                 "closed leaves) run on the leaves of the real Set / SetInterval + exact refuting points",
    "level_text": "Kernel-checked: for ANY sub-contractors meeting the contract (sub-box, no point of the set lost, INACTIVE only if "
                  "nothing removed) composition / union / fix-point (any fuel, any ratio) / q-intersection / integer / identity / empty / "
                  "CtcEmpty(pdc) / exists / for-all (any covering bisection, any sampling point, any precision) / not-in / inverse meet "
                  "the contract for the named set; the separator contract is closed under pair, intersection, union, complement and "
                  "q-intersection; three-valued PdcAnd/Or/Not; all trees by induction (tree_ctc, tree_sep, tree_pdc); an implementation "
                  "result equal to the model's is a sub-box keeping every point of the logical set (comb_accept, sep_accept). "
                  "Set pavings (Props/C19set): if pavingOk accepts the printed leaves then, for ALL real points, any dimension, any "
                  "number of leaves and any tree of set operations over exact leaves: the leaves cover the space, every point of a YES "
                  "leaf is possibly in the set and is the end of a segment of points of the leaf certainly in it (hence in every closed "
                  "set denoted), every point of a NO leaf is not certainly in the set and is a limit of points certainly outside "
                  "(yes_leaf_subset, no_leaf_disjoint, leaves_cover); refutations by exact points are sound for every expression "
                  "(refuted_yes, refuted_no); is_superset, Sep::separate (SepBoundaryCtc) and i-set consistency likewise.",
    "level_note": "Trusted: Lean kernel + Mathlib, axioms propext/Classical.choice/Quot.sound; harness, line protocol, driver glue, the "
                  "cell oracle; the correspondence is sampled. Genuine defects found on the pinned tree: qinter drops q-intersections "
                  "of measure zero (also for q=1 and q=n); CtcCompo leaks stale FIXPOINT/INACTIVE flags (CtcUnion then drops "
                  "sub-contractors); CtcForAll reports INACTIVE after contracting; CtcExist throws NoBisectableVariableException when the "
                  "parameter box is narrower than the precision; PdcAnd/PdcOr use the set operators & and | instead of && and ||. "
                  "Set pavings (this round, C19set_proposed_fixes.diff): SetLeaf::inter(Sep) turns a MAYBE leaf into YES; "
                  "SetBisect::is_superset combines with & (YES & MAYBE = YES, YES & NO = EMPTY_BOOL); SepFwdBwd(NumConstraint) / "
                  "PdcFwdBwd with an equality use the equality itself as its negation; CtcUnion(System) ignores the f<0 side of "
                  "an equality; Set::dist always crashes (property key mismatch); &= / |= throw on non-bisectable unbounded leaves.",
}
