"""PROPS["C10"] — Minibex text denotes the model it spells; exact serialisation round-trips.

Merge into props.py with:   from props_C10 import ENTRY as _e; PROPS["C10"] = _e
"""

_TRIVIAL = ("ok skipped", "ok resource-limit", "ok outside-reference-fragment", "ok not-loaded-syntax-error")


def _nontrivial(line, verdict):
    return verdict.startswith("ok ") and not any(verdict.startswith(t) for t in _TRIVIAL)


def _workloads(tier, seed):
    q = tier == "quick"
    full = [] if q else ["full"]
    w = [
        # deterministic: one function per printable operator keyword, printer corners (negative exponents and bases, hex state of the
        # stream, constants under an index, -0.0, empty / unbounded constants, shared nodes), a system with all comparison operators
        ("api", "api", 1, 1),
        # hand-written texts: precedence against explicit parentheses, the forms of the documentation, forms of the grammar the
        # documentation omits, malformed texts; each followed by a valid parse in the same process and by the round trip
        ("corner", "corner", 1, 1),
        # interval constants over the lattice of special doubles (+-0, subnormals, DBL_MAX, infinities): printed text = model, reading = model
        ("hex", "hex", 600, 6000),
        # random Functions through the C++ API (rational operators / all operators), minibex(false), Function(file) and Function(strings)
        ("rtfun", "rtfun", 1500, 15000),
        # random Systems through SystemFactory (scalar/vector/matrix variables and constraints, goal, all comparison operators, unbounded
        # and degenerate domains), minibex(false), System(file): flattened comparison + function bodies + internal consistency
        ("rtsys", "rtsys", 600, 6000),
        # texts of the independent grammar-based generator (with syntactic noise): reference denotation vs real parser (strict), then the
        # round trip of the loaded system
        ("text", "text", 600, 6000),
        # generated function files (constants + functions; the first function is the one loaded) read by Function(filename)
        ("ftext", "ftext", 300, 4000),
        # single-token mutations (3 per base text, 6 in thorough): accept/reject and meaning vs the reference reader, then the unmutated
        # text parsed in the same process
        ("mutate", "mutate", 300, 2500),
        # benchmark files of the library (and tests/minibex): load, serialise, reload
        ("bench", "bench", 60, 100000),
    ]
    return [{"harness": "h_mbx", "tag": tag, "args": [wl, seed, nq if q else nt] + full} for tag, wl, nq, nt in w]


ENTRY = {
    "modules": ["IbexProofs.Props.C10"],
    "harnesses": ["h_mbx"],
    "translators": ["tokens.py"],
    "workloads": _workloads,
    "nontrivial": _nontrivial,
    "rule": "three families, every parse of a text in a forked child (CPU/memory/wall-clock limits: crash, exit, hang are outcomes). "
            "(1) ROUND TRIP: random Functions and Systems built through the C++ API (all operators incl. elementary functions, atan2, chi, saw, "
            "integer and real powers, vectors, matrices, indexing, ranges, transposition, block concatenation, shared sub-expressions, interval and "
            "extreme constants, unbounded/degenerate domains, vector/matrix constraints, all comparison operators), serialised with minibex(false), "
            "parsed back from a file or through the string constructors; deterministic list of one function per operator keyword and of printer "
            "corners; the benchmark files of the library loaded, serialised and reloaded. (2) TEXT -> MODEL: texts of an independent grammar-based "
            "generator (constants incl. intervals, vectors, matrices, hex doubles; variables with dimensions and domains; auxiliary functions with "
            "intermediate assignments before/after the variables; minimize; constraints with = <= < >= >, `in`, integer(), temporary symbols, "
            "nested for loops, sum; C-style and Matlab-style indexing, ranges; n-ary max/min, chi, sign, abs, atan2, ^ with integer / constant / "
            "variable exponents; random spacing, comments, keyword case, redundant parentheses, optional semicolons) whose expected model is the "
            "denotation of the generated syntax tree by the independent reference reader (harness/mbx_ref.h) — generator and reader must agree "
            "(mbxself) before the real parser is judged; hand-written corner texts (precedence against explicit parentheses, documentation "
            "examples, undocumented grammar forms). (3) MALFORMED TEXT: single-token mutations (delete, duplicate, swap, keyword, parenthesis, "
            "identifier, number, operator, insertions, truncation) judged against the reference reader (reject / accept with the same meaning), "
            "each followed by a parse of the unmutated text in the same process. Expressions are compared by the cascade structure (sameTree) / "
            "normal forms (Equiv.check) / exact points / points with uninterpreted non-rational operators; a line is non-trivial unless it is a "
            "skip, a resource limit or a text outside the reference fragment; distinct = distinct lines",
    "assumptions": [
        "correspondence is sampled: the cascade is run on the pairs generated",
        "the LALR automaton is NOT modelled in Lean: the grammar is modelled by the generator and by the independent reference reader "
        "(harness/mbx_ref.h: own lexer, recursive-descent parser with the precedence table of parser.yc, own denotation with constant "
        "folding by directed FPU rounding), which is trusted as an oracle and cross-checked against the generator on every text",
        "levels `tree` and `nf` of the cascade are theorems (every algebra / every real point); `same-at-exact-points` and "
        "`same-at-uninterpreted-points` are exact evaluations at 3 sample points (non-rational operators as fixed pseudo-random rational "
        "functions, thick constants by their midpoint): evidence, not proof — used when the structure legitimately differs "
        "(serialised systems wrap their functions: `_x_0=_f_1(x); _x_0[i]<=0`; `-c*e` is re-read `-(c*e)`)",
        "constant sub-expressions folded by the parser with the interval library are compared by inclusion of exact set values; the generators "
        "avoid operators applied to constants only when elementary functions are involved (no exact oracle for their interval images)",
        "decimal literals that are not binary64 numbers: either neighbour is accepted (the lexer uses atof under the current rounding mode)",
        "mutable constants, diff(), ball constants <c,r>, CHOCO `{i}` syntax, user-defined operators: outside the reference fragment "
        "(the real parser must then only not crash); NumConstraint(string) and System(n,string) are not driven",
    ],
    "trusted": ["harness/mbx_ref.h (reference reader) and harness/mbx_gen.h (generator, mutations)", "expr_io.h dumper of the objects built by the library",
                "translate/tokens.py (regular expressions over lexer.l, parser.yc, ibex_P_Expr.h, ibex_P_ExprGenerator.cpp, ibex_Expr.h, ibex_ExprPrinter.cpp, ibex_Expr2Minibex.cpp)"],
    "technique": "Lean 4 proof (structural comparison up to sharing sound for every node semantics; acceptance rules of the cascade incl. the verified "
                 "normal-form checker; hex print/read round trip on every non-NaN binary64; operator keyword tables extracted from the sources and "
                 "composed by decide) + differential correspondence of the real printer/parser with an independent generator and reference reader",
    "level_text": "Kernel-checked: sameTree_sound(_gen) - two DAGs accepted by Dag.sameTree (equal unfolded trees up to sharing, constants compared "
                  "exactly; an unverified hash-consing proposes node classes, a verified linear checker validates them) have the same value in EVERY "
                  "number algebra / node semantics wherever both are defined, so also for atan2, saw and user operators; accepted_tree / accepted_nf / "
                  "accepted_flat_nf - an accepted verdict of the driver's cascade at level tree or nf means identical in every algebra, resp. identical "
                  "at every real point where both are defined (also for vector/matrix constraints against their flattened components, through C11's "
                  "verified normal forms); hex_roundtrip - print_dbl followed by the lexer is the identity on every non-NaN binary64 for the reader "
                  "(strtoll/strtoull) and sign test (x>=0 / signbit) found in the CURRENT sources, with the single exception -0.0 under "
                  "x>=0 + strtoll made explicit (and proved real: hex_negzero_misread); tokens_agree - every operator keyword printed as `kw(` "
                  "is lexed to a token whose rule builds the same operator class (tables regenerated from the sources at check time), recorded "
                  "exceptions ExprLog (`log(` vs `ln`) and ExprSaw (no keyword). Run time: printed text and read value of interval constants equal "
                  "the Lean model on the lattice of special doubles; every (original, re-read) pair and every (reference, real) pair goes through the cascade.",
    "level_note": "Trusted: Lean kernel + Mathlib (axioms propext/Classical.choice/Quot.sound); harness (reference reader, generator, dumper), "
                  "line protocol, driver glue, translator regexes; correspondence sampled. Genuine defects found on the pinned tree: see "
                  "C10_proposed_fixes.diff (log/saw keywords, std::hex leaking into exponents, negative exponents/bases, human-mode printing under "
                  "an index, -0.0 bounds, empty constant, dangling `end`, `e in [a,oo]`, exceptions leaving the parser mutex locked, chi of "
                  "constants, negative/fractional dimensions, shadowing of a constant by a local symbol, argument dimension not checked, "
                  "transposed scalar, constant sums destroying constant symbols, constant +/- without dimension check, overflowing exponents / "
                  "literals / hex patterns, `oo` in arithmetic, function named like a variable).",
}
