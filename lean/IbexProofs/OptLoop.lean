/-
  The model of the optimizer's branch-and-bound loop (`IbexModel/OptLoop.lean`): after any number of
  iterations, for every policy whose contractor keeps the extended points below the current loup and whose
  bisector covers the cell, every point of the tracked set `Sol` (extended points `(x, f(x))` of feasible `x`)
  has its goal value above the loup, above `uplo_of_epsboxes`, or lies in a cell of the buffer; hence
  `uplo ≤ f(x)`.  Induction over the iterations; no bound on cells, dimension or steps.
-/
import IbexModel.OptLoop
import IbexProofs.Cover

namespace Ibex.OptLoop
open Ibex

variable {P : Policy} {g : Nat} {Sol : Set (List ℝ)}

/-- where a point with goal value `t` can be -/
def Acc (s : St) (p : List ℝ) (t : ℝ) : Prop :=
  s.loup.toE ≤ ((t : ℝ) : EReal) ∨ s.uploEps.toE ≤ ((t : ℝ) : EReal) ∨ ∃ b ∈ s.buffer, Box.Mem p b

theorem lbg_le {b : Box} {p : List ℝ} {t : ℝ} (hm : Box.Mem p b) (ht : p[g]? = some t) :
    (lbg g b).toE ≤ ((t : ℝ) : EReal) := by
  obtain ⟨hl, h⟩ := Box.mem_iff.1 hm
  have hg : g < b.length := by
    have := (List.getElem?_eq_some_iff.1 ht).1
    omega
  have hb : b[g]? = some b[g] := List.getElem?_eq_getElem hg
  have hmem := h g t _ ht hb
  unfold lbg
  rw [hb]
  cases hI : b[g] with
  | empty => rw [hI] at hmem; exact absurd hmem (Itv.not_mem_empty t)
  | mk a c => rw [hI] at hmem; exact ((Itv.mem_mk t a c).1 hmem).1

theorem minLb_le {b : Box} : ∀ {l : List Box}, b ∈ l → (minLb g l).toE ≤ (lbg g b).toE
  | [], h => by cases h
  | x :: xs, h => by
    unfold minLb
    rw [Ext.toE_min]
    rcases List.mem_cons.1 h with h | h
    · subst h; exact min_le_left _ _
    · exact le_trans (min_le_right _ _) (minLb_le h)

/-- a point accounted for has its goal value above `uplo` -/
theorem uplo_le_of_acc {s : St} {p : List ℝ} {t : ℝ} (ht : p[g]? = some t) (h : Acc s p t) :
    (uplo g s).toE ≤ ((t : ℝ) : EReal) := by
  unfold uplo
  rw [Ext.toE_min, Ext.toE_min]
  rcases h with h | h | ⟨b, hb, hm⟩
  · exact le_trans (min_le_right _ _) h
  · exact le_trans (le_trans (min_le_left _ _) (min_le_right _ _)) h
  · exact le_trans (le_trans (min_le_left _ _) (min_le_left _ _)) (le_trans (minLb_le hb) (lbg_le hm ht))

theorem uplo_le_loup (s : St) : (uplo g s).toE ≤ s.loup.toE := by
  unfold uplo
  rw [Ext.toE_min]
  exact min_le_right _ _

/-- soundness of contract-and-bound: a tracked point whose goal value is below the loup is kept -/
def CtcSound (P : Policy) (g : Nat) (Sol : Set (List ℝ)) : Prop :=
  ∀ (L : Ext) (h : Box) (p : List ℝ) (t : ℝ), p ∈ Sol → p[g]? = some t → Box.Mem p h →
    ((t : ℝ) : EReal) < L.toE → Box.Mem p (P.ctc L h)

theorem handle_acc (hctc : CtcSound P g Sol) {s : St} {h : Box} {p : List ℝ} {t : ℝ} (hp : p ∈ Sol)
    (ht : p[g]? = some t) (h0 : Acc s p t ∨ Box.Mem p h) : Acc (handle P g s h) p t := by
  -- the loup and uplo_of_epsboxes only decrease, the buffer only grows
  have mono : ∀ (lp ue : Ext) (bs : List Box), Acc s p t →
      Acc ⟨bs ++ s.buffer, Ext.min s.loup lp, Ext.min s.uploEps ue⟩ p t := by
    intro lp ue bs ha
    rcases ha with ha | ha | ⟨b, hb, hm⟩
    · exact Or.inl (by simp only [Ext.toE_min]; exact le_trans (min_le_left _ _) ha)
    · exact Or.inr (Or.inl (by simp only [Ext.toE_min]; exact le_trans (min_le_left _ _) ha))
    · exact Or.inr (Or.inr ⟨b, List.mem_append_right _ hb, hm⟩)
  unfold handle
  by_cases hlt : ((t : ℝ) : EReal) < s.loup.toE
  · -- the point may still improve the loup: the contractor keeps it
    split
    · rename_i he
      rcases h0 with ha | hm
      · exact ha
      · exact absurd (hctc _ _ _ _ hp ht hm hlt) (Box.not_mem_of_isEmpty he)
    · split
      · rcases h0 with ha | hm
        · have := mono (P.finder s.loup (P.ctc s.loup h)) (lbg g (P.ctc s.loup h)) [] ha
          simpa using this
        · refine Or.inr (Or.inl ?_)
          simp only [Ext.toE_min]
          exact le_trans (min_le_right _ _) (lbg_le (hctc _ _ _ _ hp ht hm hlt) ht)
      · rcases h0 with ha | hm
        · rcases ha with ha | ha | ⟨b, hb, hm⟩
          · exact Or.inl (by simp only [Ext.toE_min]; exact le_trans (min_le_left _ _) ha)
          · exact Or.inr (Or.inl ha)
          · exact Or.inr (Or.inr ⟨b, List.mem_cons_of_mem _ hb, hm⟩)
        · exact Or.inr (Or.inr ⟨_, List.mem_cons_self, hctc _ _ _ _ hp ht hm hlt⟩)
  · -- the point cannot improve the loup any more
    have hle : s.loup.toE ≤ ((t : ℝ) : EReal) := not_lt.1 hlt
    split
    · exact Or.inl hle
    · split
      · exact Or.inl (by simp only [Ext.toE_min]; exact le_trans (min_le_left _ _) hle)
      · exact Or.inl (by simp only [Ext.toE_min]; exact le_trans (min_le_left _ _) hle)

theorem prune_acc {s : St} {p : List ℝ} {t : ℝ} (ht : p[g]? = some t) (h : Acc s p t) : Acc (prune g s) p t := by
  rcases h with h | h | ⟨b, hb, hm⟩
  · exact Or.inl h
  · exact Or.inr (Or.inl h)
  · by_cases hk : Ext.lt (lbg g b) s.loup = true
    · exact Or.inr (Or.inr ⟨b, by simp [prune, hb, hk], hm⟩)
    · refine Or.inl ?_
      have : ¬ (lbg g b).toE < s.loup.toE := fun hh => hk ((Ext.lt_iff _ _).2 hh)
      exact le_trans (not_lt.1 this) (lbg_le hm ht)

theorem stepOn_acc (hctc : CtcSound P g Sol)
    (hbis : ∀ c, Cover.split2Ok c (P.bisect c).1 (P.bisect c).2 = true)
    {s : St} {c : Box} {p : List ℝ} {t : ℝ} (hp : p ∈ Sol) (ht : p[g]? = some t) (h : Acc s p t) :
    Acc (stepOn P g s c) p t := by
  unfold stepOn
  apply prune_acc ht
  -- either the point is still accounted for without the cell `c`, or it is in `c`, hence in one half
  have h0 : Acc ⟨s.buffer.erase c, s.loup, s.uploEps⟩ p t ∨ Box.Mem p c := by
    rcases h with h | h | ⟨b, hb, hm⟩
    · exact Or.inl (Or.inl h)
    · exact Or.inl (Or.inr (Or.inl h))
    · by_cases hbc : b = c
      · exact Or.inr (hbc ▸ hm)
      · exact Or.inl (Or.inr (Or.inr ⟨b, (List.mem_erase_of_ne hbc).2 hb, hm⟩))
  rcases h0 with h0 | hc
  · exact handle_acc hctc hp ht (Or.inl (handle_acc hctc hp ht (Or.inl h0)))
  · rcases Cover.split2Ok_sound (hbis c) hc with hl | hr
    · exact handle_acc hctc hp ht (Or.inl (handle_acc hctc hp ht (Or.inr hl)))
    · exact handle_acc hctc hp ht (Or.inr hr)

theorem run_acc (hctc : CtcSound P g Sol)
    (hbis : ∀ c, Cover.split2Ok c (P.bisect c).1 (P.bisect c).2 = true) {p : List ℝ} {t : ℝ}
    (hp : p ∈ Sol) (ht : p[g]? = some t) : ∀ (fuel : Nat) (s : St), Acc s p t → Acc (run P g fuel s) p t
  | 0, _, h => h
  | fuel + 1, s, h => by
    unfold run
    split
    · exact h
    · rename_i s' hs
      unfold step at hs
      cases hb : s.buffer[P.pick s.buffer % s.buffer.length]? with
      | none => rw [hb] at hs; cases hs
      | some b =>
        rw [hb] at hs
        cases hs
        exact run_acc hctc hbis hp ht fuel _ (stepOn_acc hctc hbis hp ht h)

/-- the loup never increases -/
theorem handle_loup (s : St) (h : Box) : (handle P g s h).loup.toE ≤ s.loup.toE := by
  unfold handle
  split
  · exact le_refl _
  · split <;> (simp only [Ext.toE_min]; exact min_le_left _ _)

theorem run_loup : ∀ (fuel : Nat) (s : St), (run P g fuel s).loup.toE ≤ s.loup.toE
  | 0, _ => le_refl _
  | fuel + 1, s => by
    unfold run
    split
    · exact le_refl _
    · rename_i s' hs
      unfold step at hs
      cases hb : s.buffer[P.pick s.buffer % s.buffer.length]? with
      | none => rw [hb] at hs; cases hs
      | some b =>
        rw [hb] at hs
        cases hs
        refine le_trans (run_loup fuel _) ?_
        unfold stepOn prune
        exact le_trans (handle_loup _ _) (handle_loup _ _)

end Ibex.OptLoop
