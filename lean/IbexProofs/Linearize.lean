/-
  C20 — soundness of the linearisation certificates of `IbexModel/Linearize.lean` over the reals.
  First-order rows: with slopes `s_j ∈ G_j` such that `g x − g c = Σ s_j (x_j − c_j)`, a coefficient chosen on the
  right side of `G_j` (according to the sign that `x_j − c_j` can take on the box) gives a valid relaxation /
  restriction; exact range of a linear form over a box; duality rows.
-/
import IbexProofs.Basic
import IbexProofs.Arith
import Mathlib.Tactic.Linarith
import Mathlib.Tactic.Ring
import Mathlib.Tactic.Positivity

namespace Ibex
namespace Lin
open List

/-! ### real semantics -/

/-- real dot product (over the common prefix) -/
def dotR : List ℝ → List ℝ → ℝ
  | a :: as, x :: xs => a * x + dotR as xs
  | _, _ => 0

@[simp] theorem dotR_nil_left (x : List ℝ) : dotR [] x = 0 := by cases x <;> rfl
@[simp] theorem dotR_nil_right (a : List ℝ) : dotR a [] = 0 := by cases a <;> rfl
@[simp] theorem dotR_cons (a x : ℝ) (as xs : List ℝ) : dotR (a :: as) (x :: xs) = a * x + dotR as xs := rfl

/-- rationals seen as reals -/
def castL (l : List ℚ) : List ℝ := l.map fun q => (q : ℝ)

@[simp] theorem castL_nil : castL [] = [] := rfl
@[simp] theorem castL_cons (q : ℚ) (l : List ℚ) : castL (q :: l) = (q : ℝ) :: castL l := rfl
@[simp] theorem castL_length (l : List ℚ) : (castL l).length = l.length := by simp [castL]

theorem dot_cast : ∀ (a x : List ℚ), ((dot a x : ℚ) : ℝ) = dotR (castL a) (castL x)
  | [], x => by cases x <;> simp [dot]
  | _ :: _, [] => by simp [dot]
  | a :: as, x :: xs => by simp [dot, dot_cast as xs]

/-- membership of a real point in a box -/
def BoxMem (x : List ℝ) (box : Box) : Prop := Forall₂ (fun (t : ℝ) (I : Itv) => t ∈ I) x box

theorem BoxMem.length_eq {x : List ℝ} {box : Box} (h : BoxMem x box) : x.length = box.length := Forall₂.length_eq h

/-- componentwise difference -/
def subR (x c : List ℝ) : List ℝ := zipWith (· - ·) x c

@[simp] theorem subR_cons (x c : ℝ) (xs cs : List ℝ) : subR (x :: xs) (c :: cs) = (x - c) :: subR xs cs := rfl

/-- `a·x = a·c + a·(x−c)` for lists of the same length -/
theorem dotR_split : ∀ (a x c : List ℝ), a.length = x.length → a.length = c.length →
    dotR a x = dotR a c + dotR a (subR x c)
  | [], _, _, _, _ => by simp
  | a :: as, [], _, h, _ => by simp at h
  | a :: as, _ :: _, [], _, h => by simp at h
  | a :: as, x :: xs, c :: cs, h1, h2 => by
    simp only [length_cons, Nat.add_right_cancel_iff] at h1 h2
    simp only [dotR_cons, subR_cons, dotR_split as xs cs h1 h2]
    ring

/-- a row `lo ≤ a·x ≤ hi` at a real point -/
def Row.SatR (r : Row) (x : List ℝ) : Prop :=
  r.lo.toE ≤ ((dotR (castL r.a) x : ℝ) : EReal) ∧ ((dotR (castL r.a) x : ℝ) : EReal) ≤ r.hi.toE

/-- a one-sided row `a·x ≤ b` at a real point -/
def LeRow.SatR (r : LeRow) (x : List ℝ) : Prop := ((dotR (castL r.a) x : ℝ) : EReal) ≤ r.b.toE

theorem dotR_neg_left : ∀ (a : List ℚ) (x : List ℝ), dotR (castL (a.map fun q => -q)) x = - dotR (castL a) x
  | [], x => by simp
  | _ :: _, [] => by simp
  | a :: as, x :: xs => by
    simp only [map_cons, castL_cons, dotR_cons, dotR_neg_left as xs]
    push_cast
    ring

theorem Row.satR_iff_sides (r : Row) (x : List ℝ) : r.SatR x ↔ ∀ s ∈ r.sides, s.SatR x := by
  unfold Row.SatR Row.sides
  have hneg : ∀ (lo : Ext), LeRow.SatR ⟨r.a.map (fun q => -q), Ext.neg lo⟩ x ↔ lo.toE ≤ ((dotR (castL r.a) x : ℝ) : EReal) := by
    intro lo
    unfold LeRow.SatR
    simp only [dotR_neg_left, Ext.toE_neg, EReal.coe_neg]
    exact EReal.neg_le_neg_iff
  constructor
  · rintro ⟨h1, h2⟩ s hs
    simp only [mem_append] at hs
    rcases hs with hs | hs
    · split at hs
      · simp at hs
      · simp only [mem_singleton] at hs; subst hs; exact h2
    · split at hs
      · simp at hs
      · simp only [mem_singleton] at hs; subst hs; exact (hneg _).2 h1
  · intro h
    constructor
    · by_cases hlo : r.lo = .ninf
      · simp [hlo]
      · exact (hneg _).1 (h ⟨r.a.map (fun q => -q), Ext.neg r.lo⟩ (by simp [hlo]))
    · by_cases hhi : r.hi = .pinf
      · simp [hhi]
      · exact h ⟨r.a, r.hi⟩ (by simp [hhi])

theorem mem_sidesOf {rows : List Row} {s : LeRow} : s ∈ sidesOf rows ↔ ∃ r ∈ rows, s ∈ r.sides := by
  simp [sidesOf, mem_flatMap]

/-- the constraint `g(x) op 0` over the reals -/
def Cmp.HoldsR : Cmp → ℝ → Prop
  | .lt, v => v < 0
  | .leq, v => v ≤ 0
  | .eq, v => v = 0
  | .geq, v => 0 ≤ v
  | .gt, v => 0 < v

/-- `s·v` for a sign (`true` = minus) -/
def sg (neg : Bool) (v : ℝ) : ℝ := if neg then -v else v

theorem Cmp.signs_sound {op : Cmp} {v : ℝ} (h : op.HoldsR v) {s : Bool} (hs : s ∈ op.signs) : sg s v ≤ 0 := by
  cases op <;> cases s <;> simp [Cmp.signs] at hs <;> simp only [Cmp.HoldsR] at h <;> simp only [sg] <;>
    first | linarith | (simp; linarith)

theorem Cmp.rsign_sound {op : Cmp} {s : Bool} (hs : op.rsign = some s) {v : ℝ} (h : sg s v ≤ 0) : op.weak.HoldsR v := by
  cases op <;> simp [Cmp.rsign] at hs <;> subst hs <;> simp [sg] at h <;> simpa [Cmp.weak, Cmp.HoldsR] using h

theorem mem_sgn {neg : Bool} {v : ℝ} {I : Itv} (h : v ∈ I) : sg neg v ∈ sgn neg I := by
  unfold sg sgn
  cases neg
  · simpa using h
  · simpa using Itv.neg_encl h

theorem dotR_map_neg : ∀ (s d : List ℝ), dotR (s.map fun t => -t) d = - dotR s d
  | [], d => by simp
  | _ :: _, [] => by simp
  | s :: ss, d :: ds => by simp only [map_cons, dotR_cons, dotR_map_neg ss ds]; ring

/-! ### one coordinate -/

theorem canUp_of_lt {bx : Itv} {c : ℚ} {x : ℝ} (hx : x ∈ bx) (h : (c : ℝ) < x) : canUp bx c = true := by
  cases bx with
  | empty => exact absurd hx (Itv.not_mem_empty x)
  | mk lo hi =>
    simp only [canUp, Ext.lt_iff, Ext.toE_fin]
    exact lt_of_lt_of_le (EReal.coe_lt_coe_iff.2 h) hx.2

theorem canDown_of_lt {bx : Itv} {c : ℚ} {x : ℝ} (hx : x ∈ bx) (h : x < (c : ℝ)) : canDown bx c = true := by
  cases bx with
  | empty => exact absurd hx (Itv.not_mem_empty x)
  | mk lo hi =>
    simp only [canDown, Ext.lt_iff, Ext.toE_fin]
    exact lt_of_le_of_lt hx.1 (EReal.coe_lt_coe_iff.2 h)

theorem fin_le_of_mem_lo {a : ℚ} {gl gu : Ext} {s : ℝ} (h : Ext.le (.fin a) gl = true) (hs : s ∈ Itv.mk gl gu) : (a : ℝ) ≤ s := by
  rw [Ext.le_iff] at h
  exact EReal.coe_le_coe_iff.1 (le_trans h hs.1)

theorem le_fin_of_mem_hi {a : ℚ} {gl gu : Ext} {s : ℝ} (h : Ext.le gu (.fin a) = true) (hs : s ∈ Itv.mk gl gu) : s ≤ (a : ℝ) := by
  rw [Ext.le_iff] at h
  exact EReal.coe_le_coe_iff.1 (le_trans hs.2 h)

/-- RELAX: the chosen coefficient under-estimates every slope term on the box -/
theorem coefRelax_le {bx : Itv} {c a : ℚ} {G : Itv} {x s : ℝ} (h : coefRelax bx c a G = true) (hx : x ∈ bx) (hs : s ∈ G) :
    (a : ℝ) * (x - c) ≤ s * (x - c) := by
  cases G with
  | empty => exact absurd hs (Itv.not_mem_empty s)
  | mk gl gu =>
    simp only [coefRelax, Bool.and_eq_true, Bool.or_eq_true, Bool.not_eq_true'] at h
    rcases lt_trichotomy ((c : ℝ)) x with hlt | heq | hgt
    · have hup := canUp_of_lt hx hlt
      rcases h.1 with h1 | h1
      · rw [hup] at h1; exact absurd h1 (by simp)
      · have := fin_le_of_mem_lo h1 hs
        exact mul_le_mul_of_nonneg_right this (by linarith)
    · rw [← heq]; simp
    · have hdn := canDown_of_lt hx hgt
      rcases h.2 with h1 | h1
      · rw [hdn] at h1; exact absurd h1 (by simp)
      · have := le_fin_of_mem_hi h1 hs
        exact mul_le_mul_of_nonpos_right this (by linarith)

/-- RESTRICT: the chosen coefficient over-estimates every slope term on the box -/
theorem coefRestrict_le {bx : Itv} {c a : ℚ} {G : Itv} {x s : ℝ} (h : coefRestrict bx c a G = true) (hx : x ∈ bx) (hs : s ∈ G) :
    s * (x - c) ≤ (a : ℝ) * (x - c) := by
  cases G with
  | empty => exact absurd hs (Itv.not_mem_empty s)
  | mk gl gu =>
    simp only [coefRestrict, Bool.and_eq_true, Bool.or_eq_true, Bool.not_eq_true'] at h
    rcases lt_trichotomy ((c : ℝ)) x with hlt | heq | hgt
    · have hup := canUp_of_lt hx hlt
      rcases h.1 with h1 | h1
      · rw [hup] at h1; exact absurd h1 (by simp)
      · have := le_fin_of_mem_hi h1 hs
        exact mul_le_mul_of_nonneg_right this (by linarith)
    · rw [← heq]; simp
    · have hdn := canDown_of_lt hx hgt
      rcases h.2 with h1 | h1
      · rw [hdn] at h1; exact absurd h1 (by simp)
      · have := fin_le_of_mem_lo h1 hs
        exact mul_le_mul_of_nonpos_right this (by linarith)

/-! ### all coordinates -/

theorem coefsAll_length {p : Itv → ℚ → ℚ → Itv → Bool} :
    ∀ {box : Box} {c a : List ℚ} {G : List Itv}, coefsAll p box c a G = true →
      c.length = box.length ∧ a.length = box.length ∧ G.length = box.length
  | [], [], [], [], _ => by simp
  | _ :: bs, _ :: cs, _ :: as, _ :: gs, h => by
    simp only [coefsAll, Bool.and_eq_true] at h
    have := coefsAll_length h.2
    simp [this.1, this.2.1, this.2.2]
  | [], _ :: _, _, _, h => by simp [coefsAll] at h
  | [], [], _ :: _, _, h => by simp [coefsAll] at h
  | [], [], [], _ :: _, h => by simp [coefsAll] at h
  | _ :: _, [], _, _, h => by simp [coefsAll] at h
  | _ :: _, _ :: _, [], _, h => by simp [coefsAll] at h
  | _ :: _, _ :: _, _ :: _, [], h => by simp [coefsAll] at h

theorem coefsAll_dot {p : Itv → ℚ → ℚ → Itv → Bool} {R : ℝ → ℝ → Prop}
    (hp : ∀ {bx c a G} {x s : ℝ}, p bx c a G = true → x ∈ bx → s ∈ G → R ((a : ℝ) * (x - c)) (s * (x - c)))
    (hadd : ∀ {u v u' v' : ℝ}, R u v → R u' v' → R (u + u') (v + v')) (h0 : R 0 0) :
    ∀ {box : Box} {c a : List ℚ} {G : List Itv} {x s : List ℝ}, coefsAll p box c a G = true → BoxMem x box →
      Forall₂ (fun (t : ℝ) (I : Itv) => t ∈ I) s G →
      R (dotR (castL a) (subR x (castL c))) (dotR s (subR x (castL c)))
  | [], [], [], [], x, s, _, hx, hs => by
    cases hx; cases hs; simpa using h0
  | bx :: bs, c :: cs, a :: as, g :: gs, x, s, h, hx, hs => by
    simp only [coefsAll, Bool.and_eq_true] at h
    cases hx with
    | cons hx1 hxs =>
      cases hs with
      | cons hs1 hss =>
        simp only [castL_cons, subR_cons, dotR_cons]
        exact hadd (hp h.1 hx1 hs1) (coefsAll_dot hp hadd h0 h.2 hxs hss)
  | [], _ :: _, _, _, _, _, h, _, _ => by simp [coefsAll] at h
  | [], [], _ :: _, _, _, _, h, _, _ => by simp [coefsAll] at h
  | [], [], [], _ :: _, _, _, h, _, _ => by simp [coefsAll] at h
  | _ :: _, [], _, _, _, _, h, _, _ => by simp [coefsAll] at h
  | _ :: _, _ :: _, [], _, _, _, h, _, _ => by simp [coefsAll] at h
  | _ :: _, _ :: _, _ :: _, [], _, _, h, _, _ => by simp [coefsAll] at h

theorem coefs_relax_le {box : Box} {c a : List ℚ} {G : List Itv} {x s : List ℝ}
    (h : coefsAll coefRelax box c a G = true) (hx : BoxMem x box) (hs : Forall₂ (fun (t : ℝ) (I : Itv) => t ∈ I) s G) :
    dotR (castL a) (subR x (castL c)) ≤ dotR s (subR x (castL c)) :=
  coefsAll_dot (R := (· ≤ ·)) (fun h hx hs => coefRelax_le h hx hs) (fun h1 h2 => add_le_add h1 h2) le_rfl h hx hs

theorem coefs_restrict_le {box : Box} {c a : List ℚ} {G : List Itv} {x s : List ℝ}
    (h : coefsAll coefRestrict box c a G = true) (hx : BoxMem x box) (hs : Forall₂ (fun (t : ℝ) (I : Itv) => t ∈ I) s G) :
    dotR s (subR x (castL c)) ≤ dotR (castL a) (subR x (castL c)) :=
  coefsAll_dot (R := (· ≥ ·)) (fun h hx hs => coefRestrict_le h hx hs) (fun h1 h2 => add_le_add h1 h2) le_rfl h hx hs

/-! ### slope enclosures -/

/-- `v` encloses `g c` and `G` encloses slopes of `g` between `c` and every point of the box:
    `g x − g c = Σ_j s_j (x_j − c_j)` with `s_j ∈ G_j` (Hansen matrix row, or Jacobian row by the mean value theorem) -/
def SlopeEncl (g : List ℝ → ℝ) (box : Box) (c : List ℚ) (v : Itv) (G : List Itv) : Prop :=
  g (castL c) ∈ v ∧ ∀ x, BoxMem x box →
    ∃ s : List ℝ, Forall₂ (fun (t : ℝ) (I : Itv) => t ∈ I) s G ∧ g x - g (castL c) = dotR s (subR x (castL c))

theorem SlopeEncl.sgn {g : List ℝ → ℝ} {box : Box} {c : List ℚ} {v : Itv} {G : List Itv} (h : SlopeEncl g box c v G)
    (neg : Bool) : SlopeEncl (fun x => sg neg (g x)) box c (sgn neg v) (G.map (sgn neg)) := by
  refine ⟨mem_sgn h.1, fun x hx => ?_⟩
  obtain ⟨s, hs, heq⟩ := h.2 x hx
  cases neg
  · refine ⟨s, ?_, by simpa [sg] using heq⟩
    simpa [Lin.sgn] using hs
  · refine ⟨s.map fun t => -t, ?_, ?_⟩
    · rw [forall₂_map_left_iff, forall₂_map_right_iff]
      exact hs.imp fun {a b} hab => by simpa [Lin.sgn] using Itv.neg_encl hab
    · simp only [sg, if_true, dotR_map_neg]
      linarith

/-! ### the two row theorems -/

/-- **RELAX row.**  Coefficients on the relaxing side of the slopes, right-hand side `≥ a·c − lb g(c)`:
    every point of the box with `g x ≤ 0` satisfies `a·x ≤ b`. -/
theorem relax_row_valid {g : List ℝ → ℝ} {box : Box} {c a : List ℚ} {v : Itv} {G : List Itv} {b : Ext} {x : List ℝ}
    (hv : SlopeEncl g box c v G) (hco : coefsAll coefRelax box c a G = true) (hr : rhsRelax a c v b = true)
    (hx : BoxMem x box) (hg : g x ≤ 0) : ((dotR (castL a) x : ℝ) : EReal) ≤ b.toE := by
  obtain ⟨s, hs, heq⟩ := hv.2 x hx
  have hlen := coefsAll_length hco
  have hsplit := dotR_split (castL a) x (castL c) (by simp [hlen.2.1, hx.length_eq]) (by simp [hlen.1, hlen.2.1])
  have hle := coefs_relax_le hco hx hs
  unfold rhsRelax at hr
  split at hr
  · rename_i l hi
    rw [Ext.le_iff] at hr
    refine le_trans ?_ hr
    have hl : (l : ℝ) ≤ g (castL c) := EReal.coe_le_coe_iff.1 hv.1.1
    simp only [Ext.toE_fin, EReal.coe_le_coe_iff]
    push_cast
    rw [dot_cast, hsplit]
    linarith
  · have : b = .pinf := by simpa using hr
    subst this; simp

/-- **RESTRICT row.**  Coefficients on the restricting side of the slopes, right-hand side `≤ a·c − ub g(c)`:
    every point of the box with `a·x ≤ b` satisfies `g x ≤ 0`. -/
theorem restrict_row_valid {g : List ℝ → ℝ} {box : Box} {c a : List ℚ} {v : Itv} {G : List Itv} {b : Ext} {x : List ℝ}
    (hv : SlopeEncl g box c v G) (hco : coefsAll coefRestrict box c a G = true) (hr : rhsRestrict a c v b = true)
    (hx : BoxMem x box) (hrow : ((dotR (castL a) x : ℝ) : EReal) ≤ b.toE) : g x ≤ 0 := by
  obtain ⟨s, hs, heq⟩ := hv.2 x hx
  have hlen := coefsAll_length hco
  have hsplit := dotR_split (castL a) x (castL c) (by simp [hlen.2.1, hx.length_eq]) (by simp [hlen.1, hlen.2.1])
  have hle := coefs_restrict_le hco hx hs
  unfold rhsRestrict at hr
  split at hr
  · rename_i lo u
    rw [Ext.le_iff] at hr
    have hu : g (castL c) ≤ (u : ℝ) := EReal.coe_le_coe_iff.1 hv.1.2
    have := le_trans hrow hr
    simp only [Ext.toE_fin, EReal.coe_le_coe_iff] at this
    push_cast at this
    rw [dot_cast, hsplit] at this
    linarith
  · have : b = .ninf := by simpa using hr
    subst this
    simp at hrow

/-! ### exact range of a linear form over a box -/

theorem minTerm_le {a : ℚ} {bx : Itv} {t : ℚ} {x : ℝ} (h : minTerm a bx = some t) (hx : x ∈ bx) : (t : ℝ) ≤ (a : ℝ) * x := by
  cases bx with
  | empty => exact absurd hx (Itv.not_mem_empty x)
  | mk lo hi =>
    unfold minTerm at h
    simp only at h
    split at h
    · rename_i h0; simp at h; subst h; subst h0; simp
    · rename_i h0
      split at h
      · rename_i hpos
        cases lo with
        | fin q =>
          simp at h; subst h
          have : (q : ℝ) ≤ x := EReal.coe_le_coe_iff.1 hx.1
          push_cast
          exact mul_le_mul_of_nonneg_left this (by exact_mod_cast hpos.le)
        | ninf => simp at h
        | pinf => simp at h
      · rename_i hpos
        have hneg : (a : ℝ) ≤ 0 := by exact_mod_cast not_lt.1 hpos
        cases hi with
        | fin q =>
          simp at h; subst h
          have : x ≤ (q : ℝ) := EReal.coe_le_coe_iff.1 hx.2
          push_cast
          exact mul_le_mul_of_nonpos_left this hneg
        | ninf => simp at h
        | pinf => simp at h

theorem le_maxTerm {a : ℚ} {bx : Itv} {t : ℚ} {x : ℝ} (h : maxTerm a bx = some t) (hx : x ∈ bx) : (a : ℝ) * x ≤ (t : ℝ) := by
  cases bx with
  | empty => exact absurd hx (Itv.not_mem_empty x)
  | mk lo hi =>
    unfold maxTerm at h
    simp only at h
    split at h
    · rename_i h0; simp at h; subst h; subst h0; simp
    · rename_i h0
      split at h
      · rename_i hpos
        cases hi with
        | fin q =>
          simp at h; subst h
          have : x ≤ (q : ℝ) := EReal.coe_le_coe_iff.1 hx.2
          push_cast
          exact mul_le_mul_of_nonneg_left this (by exact_mod_cast hpos.le)
        | ninf => simp at h
        | pinf => simp at h
      · rename_i hpos
        have hneg : (a : ℝ) ≤ 0 := by exact_mod_cast not_lt.1 hpos
        cases lo with
        | fin q =>
          simp at h; subst h
          have : (q : ℝ) ≤ x := EReal.coe_le_coe_iff.1 hx.1
          push_cast
          exact mul_le_mul_of_nonpos_left this hneg
        | ninf => simp at h
        | pinf => simp at h

theorem minDot_le : ∀ {a : List ℚ} {box : Box} {m : ℚ} {x : List ℝ}, minDot a box = some m → BoxMem x box →
    (m : ℝ) ≤ dotR (castL a) x
  | [], [], m, x, h, hx => by cases hx; simp [minDot] at h; subst h; simp
  | a :: as, bx :: bs, m, x, h, hx => by
    cases hx with
    | cons hx1 hxs =>
      simp only [minDot] at h
      split at h
      · rename_i t r ht hr
        simp at h; subst h
        have h1 := minTerm_le ht hx1
        have h2 := minDot_le hr hxs
        simp only [castL_cons, dotR_cons]
        push_cast
        linarith
      · simp at h
  | [], _ :: _, _, _, h, _ => by simp [minDot] at h
  | _ :: _, [], _, _, h, _ => by simp [minDot] at h

theorem le_maxDot : ∀ {a : List ℚ} {box : Box} {m : ℚ} {x : List ℝ}, maxDot a box = some m → BoxMem x box →
    dotR (castL a) x ≤ (m : ℝ)
  | [], [], m, x, h, hx => by cases hx; simp [maxDot] at h; subst h; simp
  | a :: as, bx :: bs, m, x, h, hx => by
    cases hx with
    | cons hx1 hxs =>
      simp only [maxDot] at h
      split at h
      · rename_i t r ht hr
        simp at h; subst h
        have h1 := le_maxTerm ht hx1
        have h2 := le_maxDot hr hxs
        simp only [castL_cons, dotR_cons]
        push_cast
        linarith
      · simp at h
  | [], _ :: _, _, _, h, _ => by simp [maxDot] at h
  | _ :: _, [], _, _, h, _ => by simp [maxDot] at h

/-- a row violated on the whole box -/
theorem rowUnsat_sound {box : Box} {r : LeRow} (h : rowUnsat box r = true) {x : List ℝ} (hx : BoxMem x box) : ¬ r.SatR x := by
  unfold rowUnsat at h
  unfold LeRow.SatR
  split at h
  · rename_i m b hm hb
    rw [hb]
    have := minDot_le hm hx
    have hlt : (b : ℝ) < (m : ℝ) := by exact_mod_cast of_decide_eq_true h
    simp only [Ext.toE_fin, EReal.coe_le_coe_iff, not_le]
    linarith
  · rename_i hb
    rw [hb]; simp
  · simp at h

/-- a row that holds on the whole box -/
theorem rowRedundant_sound {box : Box} {r : LeRow} (h : rowRedundant box r = true) {x : List ℝ} (hx : BoxMem x box) : r.SatR x := by
  unfold rowRedundant at h
  unfold LeRow.SatR
  split at h
  · rename_i m b hm hb
    rw [hb]
    have := le_maxDot hm hx
    have hle : (m : ℝ) ≤ (b : ℝ) := by exact_mod_cast of_decide_eq_true h
    simp only [Ext.toE_fin, EReal.coe_le_coe_iff]
    linarith
  · rename_i hb
    rw [hb]; simp
  · simp at h

/-! ### the model row -/

theorem finOf_eq {e : Ext} {q : ℚ} (h : finOf e = some q) : e = .fin q := by
  cases e <;> simp [finOf] at h; subst h; rfl

theorem selRelax_coef {bx : Itv} {c : ℚ} {g : Itv} {a : ℚ} (h : selRelax bx c g = some a) : coefRelax bx c a g = true := by
  cases g with
  | empty => simp [selRelax] at h
  | mk gl gu =>
    unfold selRelax at h
    unfold coefRelax
    simp only at h ⊢
    split at h
    · rename_i h1 h2; rw [h1, h2, finOf_eq h]; simp [Ext.le]
    · rename_i h1 h2; rw [h1, h2, finOf_eq h]; simp [Ext.le]
    · rename_i h1 h2; rw [h1, h2]; simp
    · rename_i h1 h2
      split at h
      · rename_i heq
        have heq' : gl = gu := by simpa using heq
        subst heq'
        rw [finOf_eq h]; simp [Ext.le]
      · simp at h

theorem selRestrict_coef {bx : Itv} {c : ℚ} {g : Itv} {a : ℚ} (h : selRestrict bx c g = some a) : coefRestrict bx c a g = true := by
  cases g with
  | empty => simp [selRestrict] at h
  | mk gl gu =>
    unfold selRestrict at h
    unfold coefRestrict
    simp only at h ⊢
    split at h
    · rename_i h1 h2; rw [h1, h2, finOf_eq h]; simp [Ext.le]
    · rename_i h1 h2; rw [h1, h2, finOf_eq h]; simp [Ext.le]
    · rename_i h1 h2; rw [h1, h2]; simp
    · rename_i h1 h2
      split at h
      · rename_i heq
        have heq' : gl = gu := by simpa using heq
        subst heq'
        rw [finOf_eq h]; simp [Ext.le]
      · simp at h

theorem selAll_coefs {sel : Itv → ℚ → Itv → Option ℚ} {p : Itv → ℚ → ℚ → Itv → Bool}
    (hsp : ∀ {bx c g a}, sel bx c g = some a → p bx c a g = true) :
    ∀ {box : Box} {c : List ℚ} {G : List Itv} {a : List ℚ}, selAll sel box c G = some a → coefsAll p box c a G = true
  | [], [], [], a, h => by simp [selAll] at h; subst h; rfl
  | bx :: bs, c :: cs, g :: gs, a, h => by
    simp only [selAll] at h
    split at h
    · rename_i a0 as h0 hs
      simp at h; subst h
      simp [coefsAll, hsp h0, selAll_coefs hsp hs]
    · simp at h
  | [], _ :: _, _, _, h => by simp [selAll] at h
  | [], [], _ :: _, _, h => by simp [selAll] at h
  | _ :: _, [], _, _, h => by simp [selAll] at h
  | _ :: _, _ :: _, [], _, h => by simp [selAll] at h

/-! ### systems, expansions, certificates -/

/-- the nonlinear system: real functions with their comparison operators (`g(x) op 0`) -/
abbrev NLSys := List ((List ℝ → ℝ) × Cmp)

def opsOf (sys : NLSys) : List Cmp := sys.map (·.2)

def Feasible (sys : NLSys) (x : List ℝ) : Prop := ∀ p ∈ sys, p.2.HoldsR (p.1 x)

/-- feasibility with the non-strict reading of `<`, `>` -/
def WeakFeasible (sys : NLSys) (x : List ℝ) : Prop := ∀ p ∈ sys, p.2.weak.HoldsR (p.1 x)

theorem opsOf_get {sys : NLSys} {i : ℕ} {op : Cmp} (h : (opsOf sys)[i]? = some op) : ∃ g, sys[i]? = some (g, op) := by
  simp only [opsOf, getElem?_map, Option.map_eq_some_iff] at h
  obtain ⟨p, hp, rfl⟩ := h
  exact ⟨p.1, hp⟩

/-- every line of the expansion is what the library's contract promises (C02: value enclosure at `c`;
    C08: slope enclosure on the box) for the constraint function it is attached to -/
def Expansion.Valid (sys : NLSys) (box : Box) (E : Expansion) : Prop :=
  ∀ G, E.G = some G → ∀ (k i : ℕ) (gk : List Itv) (v : Itv) (g : List ℝ → ℝ) (op : Cmp),
    E.act[k]? = some i → G[k]? = some gk → E.gc[k]? = some v → sys[i]? = some (g, op) → SlopeEncl g box E.c v gk

theorem Expansion.line_valid {sys : NLSys} {box : Box} {E : Expansion} (hE : E.Valid sys box) {k : ℕ} {neg : Bool}
    {G' : List Itv} {v' : Itv} (hl : E.line k neg = some (G', v')) {i : ℕ} {g : List ℝ → ℝ} {op : Cmp}
    (hi : E.act[k]? = some i) (hg : sys[i]? = some (g, op)) : SlopeEncl (fun x => sg neg (g x)) box E.c v' G' := by
  unfold Expansion.line at hl
  split at hl
  · simp at hl
  · rename_i G hG
    split at hl
    · rename_i gk v hgk hv
      simp only [Option.some.injEq, Prod.mk.injEq] at hl
      obtain ⟨rfl, rfl⟩ := hl
      exact (hE G hG k i gk v g op hi hgk hv hg).sgn neg
    · simp at hl

theorem mem_relaxLines {ops : List Cmp} {E : Expansion} {k : ℕ} {s : Bool} (h : (k, s) ∈ relaxLines ops E) :
    ∃ i op, E.act[k]? = some i ∧ ops[i]? = some op ∧ s ∈ op.signs := by
  simp only [relaxLines, mem_flatMap, mem_range] at h
  obtain ⟨k', _, hks⟩ := h
  split at hks
  · rename_i i hi
    split at hks
    · rename_i op hop
      simp only [mem_map, Prod.mk.injEq] at hks
      obtain ⟨s', hs', rfl, rfl⟩ := hks
      exact ⟨i, op, hi, hop, hs'⟩
    · simp at hks
  · simp at hks

/-- a justified row holds at every point of the box where the (signed) constraint holds -/
theorem justRelax_sound {sys : NLSys} {box : Box} {E : Expansion} (hE : E.Valid sys box) {r : LeRow} {k : ℕ} {neg : Bool}
    (h : justRelax box E r k neg = true) {i : ℕ} {g : List ℝ → ℝ} {op : Cmp} (hi : E.act[k]? = some i)
    (hg : sys[i]? = some (g, op)) {x : List ℝ} (hx : BoxMem x box) (hgx : sg neg (g x) ≤ 0) : r.SatR x := by
  unfold justRelax at h
  split at h
  · rename_i G' v' hl
    simp only [Bool.and_eq_true] at h
    exact relax_row_valid (Expansion.line_valid hE hl hi hg) h.1 h.2 hx hgx
  · simp at h

theorem justRestrict_sound {sys : NLSys} {box : Box} {E : Expansion} (hE : E.Valid sys box) {r : LeRow} {k : ℕ} {neg : Bool}
    (h : justRestrict box E r k neg = true) {i : ℕ} {g : List ℝ → ℝ} {op : Cmp} (hi : E.act[k]? = some i)
    (hg : sys[i]? = some (g, op)) {x : List ℝ} (hx : BoxMem x box) (hr : r.SatR x) : sg neg (g x) ≤ 0 := by
  unfold justRestrict at h
  split at h
  · rename_i G' v' hl
    simp only [Bool.and_eq_true] at h
    exact restrict_row_valid (Expansion.line_valid hE hl hi hg) h.1 h.2 hx hr
  · simp at h

theorem fromFixed_sound {fixed : List LeRow} {r : LeRow} (h : fromFixed fixed r = true) {x : List ℝ}
    (hf : ∀ f ∈ fixed, f.SatR x) : r.SatR x := by
  simp only [fromFixed, any_eq_true, Bool.and_eq_true, beq_iff_eq] at h
  obtain ⟨f, hfm, ha, hb⟩ := h
  have := hf f hfm
  unfold LeRow.SatR at this ⊢
  rw [← ha]
  exact le_trans this ((Ext.le_iff _ _).1 hb)

/-- **RELAX certificate, one row** -/
theorem relaxRowCert_sound {sys : NLSys} {box : Box} {Es : List Expansion} {fixed : List LeRow} {r : LeRow}
    (hE : ∀ E ∈ Es, E.Valid sys box) (h : relaxRowCert box (opsOf sys) Es fixed r = true) {x : List ℝ}
    (hx : BoxMem x box) (hfeas : Feasible sys x) (hf : ∀ f ∈ fixed, f.SatR x) : r.SatR x := by
  simp only [relaxRowCert, Bool.or_eq_true, beq_iff_eq, any_eq_true] at h
  rcases h with (hb | hfx) | ⟨E, hEm, ks, hks, hj⟩
  · unfold LeRow.SatR; rw [hb]; simp
  · exact fromFixed_sound hfx hf
  · obtain ⟨i, op, hi, hop, hs⟩ := mem_relaxLines (k := ks.1) (s := ks.2) hks
    obtain ⟨g, hg⟩ := opsOf_get hop
    exact justRelax_sound (hE E hEm) hj hi hg hx (Cmp.signs_sound (hfeas _ (mem_of_getElem? hg)) hs)

/-- **the model row is a valid RELAX row** -/
theorem modelRowRelax_valid {sys : NLSys} {box : Box} {E : Expansion} (hE : E.Valid sys box) {k : ℕ} {neg : Bool} {r : LeRow}
    (h : modelRowRelax box E k neg = some r) {i : ℕ} {g : List ℝ → ℝ} {op : Cmp} (hi : E.act[k]? = some i)
    (hg : sys[i]? = some (g, op)) {x : List ℝ} (hx : BoxMem x box) (hgx : sg neg (g x) ≤ 0) : r.SatR x := by
  unfold modelRowRelax at h
  split at h
  · rename_i G' v' hl
    split at h
    · rename_i a l hi' hsel
      simp only [Option.some.injEq] at h
      subst h
      refine relax_row_valid (Expansion.line_valid hE hl hi hg) (selAll_coefs (sel := selRelax) (p := coefRelax) @selRelax_coef hsel) ?_ hx hgx
      simp [rhsRelax, Ext.le]
    · simp at h
  · simp at h

/-- **the model row is a valid RESTRICT row** -/
theorem modelRowRestrict_valid {sys : NLSys} {box : Box} {E : Expansion} (hE : E.Valid sys box) {k : ℕ} {neg : Bool} {r : LeRow}
    (h : modelRowRestrict box E k neg = some r) {i : ℕ} {g : List ℝ → ℝ} {op : Cmp} (hi : E.act[k]? = some i)
    (hg : sys[i]? = some (g, op)) {x : List ℝ} (hx : BoxMem x box) (hr : r.SatR x) : sg neg (g x) ≤ 0 := by
  unfold modelRowRestrict at h
  split at h
  · rename_i G' v' hl
    split at h
    · rename_i a lo u hsel
      simp only [Option.some.injEq] at h
      subst h
      refine restrict_row_valid (Expansion.line_valid hE hl hi hg) (selAll_coefs (sel := selRestrict) (p := coefRestrict) @selRestrict_coef hsel) ?_ hx hr
      simp [rhsRestrict, Ext.le]
    · simp at h
  · simp at h

/-- **RELAX certificate for −1**: no point of the box is feasible -/
theorem unsatCert_sound {sys : NLSys} {box : Box} {Es : List Expansion} (hE : ∀ E ∈ Es, E.Valid sys box)
    (h : unsatCert box (opsOf sys) Es = true) {x : List ℝ} (hx : BoxMem x box) : ¬ Feasible sys x := by
  intro hfeas
  simp only [unsatCert, any_eq_true] at h
  obtain ⟨E, hEm, ks, hks, hj⟩ := h
  obtain ⟨i, op, hi, hop, hs⟩ := mem_relaxLines (k := ks.1) (s := ks.2) hks
  obtain ⟨g, hg⟩ := opsOf_get hop
  split at hj
  · rename_i r hr
    exact rowUnsat_sound hj hx
      (modelRowRelax_valid (hE E hEm) hr hi hg hx (Cmp.signs_sound (hfeas _ (mem_of_getElem? hg)) hs))
  · simp at hj

/-- **RELAX certificate, one call** -/
theorem relaxCert_sound {sys : NLSys} {box : Box} {Es : List Expansion} {fixed : List LeRow} {rows : List Row} {ret : ℤ}
    (hE : ∀ E ∈ Es, E.Valid sys box) (h : relaxCert box (opsOf sys) Es fixed rows ret = true) {x : List ℝ}
    (hx : BoxMem x box) (hfeas : Feasible sys x) (hf : ∀ f ∈ fixed, f.SatR x) :
    ret ≠ -1 ∧ ∀ r ∈ rows, r.SatR x := by
  unfold relaxCert at h
  split at h
  · exact absurd hfeas (unsatCert_sound hE h hx)
  · rename_i hret
    refine ⟨by simpa using hret, fun r hr => ?_⟩
    rw [Row.satR_iff_sides]
    intro s hs
    rw [all_eq_true] at h
    exact relaxRowCert_sound hE (h s (mem_sidesOf.2 ⟨r, hr, hs⟩)) hx hfeas hf

/-! ### RESTRICT -/

theorem inactive_sound {op : Cmp} {ev : Itv} (h : inactive op ev = true) {v : ℝ} (hv : v ∈ ev) : op.weak.HoldsR v := by
  cases ev with
  | empty => exact absurd hv (Itv.not_mem_empty v)
  | mk lo hi =>
    have h0 : ((0 : ℚ) : ℝ) = 0 := by norm_num
    cases op <;> simp only [inactive] at h <;> simp only [Cmp.weak, Cmp.HoldsR]
    · rw [Ext.le_iff] at h; have := EReal.coe_le_coe_iff.1 (le_trans hv.2 h); linarith
    · rw [Ext.le_iff] at h; have := EReal.coe_le_coe_iff.1 (le_trans hv.2 h); linarith
    · simp only [Bool.and_eq_true, beq_iff_eq] at h
      obtain ⟨h1, h2⟩ := h
      subst h1; subst h2
      have a := EReal.coe_le_coe_iff.1 hv.1
      have b := EReal.coe_le_coe_iff.1 hv.2
      linarith
    · rw [Ext.le_iff] at h; have := EReal.coe_le_coe_iff.1 (le_trans h hv.1); linarith
    · rw [Ext.le_iff] at h; have := EReal.coe_le_coe_iff.1 (le_trans h hv.1); linarith

theorem mem_linesOf {E : Expansion} {i k : ℕ} (h : k ∈ linesOf E i) : E.act[k]? = some i := by
  simp only [linesOf, mem_filter, mem_range, beq_iff_eq] at h
  exact h.2

/-- the enclosure of `g_i` over the box (C02) -/
def EvalValid (sys : NLSys) (box : Box) (evalbox : List Itv) : Prop :=
  ∀ (i : ℕ) (g : List ℝ → ℝ) (op : Cmp) (ev : Itv), sys[i]? = some (g, op) → evalbox[i]? = some ev →
    ∀ x, BoxMem x box → g x ∈ ev

theorem covered_sound {sys : NLSys} {box : Box} {Es : List Expansion} {sides : List LeRow} {evalbox : List Itv}
    (hE : ∀ E ∈ Es, E.Valid sys box) (hev : EvalValid sys box evalbox) {i : ℕ} {g : List ℝ → ℝ} {op : Cmp}
    (hg : sys[i]? = some (g, op)) (h : covered box Es sides evalbox i op = true) {x : List ℝ} (hx : BoxMem x box)
    (hs : ∀ s ∈ sides, s.SatR x) : op.weak.HoldsR (g x) := by
  unfold covered at h
  rw [Bool.or_eq_true] at h
  rcases h with h | h
  · split at h
    · rename_i ev hevi
      exact inactive_sound h (hev i g op ev hg hevi x hx)
    · simp at h
  · split at h
    · simp at h
    · rename_i neg hneg
      simp only [any_eq_true, Bool.or_eq_true] at h
      obtain ⟨E, hEm, k, hk, hj⟩ := h
      have hi := mem_linesOf hk
      apply Cmp.rsign_sound hneg
      rcases hj with ⟨r, hr, hj⟩ | hj
      · exact justRestrict_sound (hE E hEm) hj hi hg hx (hs r hr)
      · split at hj
        · rename_i r hr
          exact modelRowRestrict_valid (hE E hEm) hr hi hg hx (rowRedundant_sound hj hx)
        · simp at hj

theorem zipIdxAll_get {α : Type} {l : List α} {p : ℕ → α → Bool} (h : zipIdxAll l p = true) {i : ℕ} {a : α}
    (hi : l[i]? = some a) : p i a = true := by
  simp only [zipIdxAll, all_eq_true] at h
  exact h (a, i) (mem_zipIdx_iff_getElem?.2 hi)

/-- **RESTRICT certificate, one call** (return value ≠ −1): a point of the box satisfying every row satisfies every
    constraint (non-strict reading) and every fixed row -/
theorem restrictCert_sound {sys : NLSys} {box : Box} {Es : List Expansion} {fixed : List LeRow} {rows : List Row}
    {evalbox : List Itv} (hE : ∀ E ∈ Es, E.Valid sys box) (hev : EvalValid sys box evalbox)
    (h : restrictCert box (opsOf sys) Es fixed rows evalbox = true) {x : List ℝ} (hx : BoxMem x box)
    (hrows : ∀ r ∈ rows, r.SatR x) : WeakFeasible sys x ∧ ∀ f ∈ fixed, f.SatR x := by
  simp only [restrictCert, Bool.and_eq_true] at h
  have hsides : ∀ s ∈ sidesOf rows, s.SatR x := by
    intro s hs
    obtain ⟨r, hr, hsr⟩ := mem_sidesOf.1 hs
    exact (Row.satR_iff_sides r x).1 (hrows r hr) s hsr
  constructor
  · intro p hp
    obtain ⟨i, hi⟩ := mem_iff_getElem?.1 hp
    have hop : (opsOf sys)[i]? = some p.2 := by simp [opsOf, getElem?_map, hi]
    exact covered_sound hE hev (g := p.1) (op := p.2) hi (zipIdxAll_get h.1 hop) hx hsides
  · intro f hf
    have := h.2
    rw [all_eq_true] at this
    have := this f hf
    simp only [any_eq_true, Bool.and_eq_true, beq_iff_eq] at this
    obtain ⟨r, hr, ha, hb⟩ := this
    have hsat := hsides r hr
    unfold LeRow.SatR at hsat ⊢
    rw [← ha]
    exact le_trans hsat ((Ext.le_iff _ _).1 hb)

/-! ### LinearizerDuality -/

/-- `Σ_c az_c·z_c` over the reals -/
def blocksR : List (List ℚ) → List (List ℝ) → ℝ
  | a :: as, z :: zs => dotR (castL a) z + blocksR as zs
  | _, _ => 0

/-- a block row `ax·x + Σ_c az_c·z_c ≤ b` at a real point -/
def DRow.SatR (r : DRow) (x : List ℝ) (zs : List (List ℝ)) : Prop :=
  ((dotR (castL r.ax) x + blocksR r.az zs : ℝ) : EReal) ≤ r.b.toE

theorem dotR_zero : ∀ {l : List ℚ} (z : List ℝ), isZero l = true → dotR (castL l) z = 0
  | [], z, _ => by simp
  | _ :: _, [], _ => by simp
  | a :: as, z :: zs, h => by
    simp only [isZero, all_cons, Bool.and_eq_true, beq_iff_eq] at h
    have := dotR_zero (l := as) zs (by simpa [isZero] using h.2)
    simp [h.1, this]

theorem blocksR_zero : ∀ {az : List (List ℚ)} (zs : List (List ℝ)), az.all isZero = true → blocksR az zs = 0
  | [], zs, _ => by cases zs <;> rfl
  | _ :: _, [], _ => rfl
  | a :: as, z :: zs, h => by
    simp only [all_cons, Bool.and_eq_true] at h
    simp [blocksR, dotR_zero z h.1, blocksR_zero zs h.2]

theorem blocksR_only : ∀ {az : List (List ℚ)} {i : ℕ} {zs : List (List ℝ)} {blk : List ℚ} {z : List ℝ},
    onlyBlock az i = true → az[i]? = some blk → zs[i]? = some z → blocksR az zs = dotR (castL blk) z
  | [], _, _, _, _, _, h, _ => by simp at h
  | _ :: _, _, [], _, _, _, _, h => by simp at h
  | a :: as, 0, z0 :: zs, blk, z, ho, ha, hz => by
    simp only [getElem?_cons_zero, Option.some.injEq] at ha hz
    subst ha; subst hz
    simp only [onlyBlock] at ho
    simp [blocksR, blocksR_zero zs ho]
  | a :: as, i + 1, z0 :: zs, blk, z, ho, ha, hz => by
    simp only [getElem?_cons_succ] at ha hz
    simp only [onlyBlock, Bool.and_eq_true] at ho
    simp [blocksR, dotR_zero z0 ho.1, blocksR_only ho.2 ha hz]

theorem dotR_unitAt : ∀ {n j : ℕ} (x : List ℝ), j < n → dotR (castL (unitAt n j)) x = x.getD j 0
  | 0, _, _, h => by omega
  | n + 1, 0, [], _ => by simp [unitAt]
  | n + 1, 0, x :: xs, _ => by
    have hz : isZero (replicate n (0 : ℚ)) = true := by simp [isZero]
    simp [unitAt, dotR_zero xs hz]
  | n + 1, j + 1, [], _ => by simp [unitAt]
  | n + 1, j + 1, x :: xs, h => by
    simp [unitAt, dotR_unitAt xs (Nat.lt_of_succ_lt_succ h)]

/-- a tie row gives `x_j + z_{i,j} ≤ p_j` -/
theorem tieRow_sound {n : ℕ} {r : DRow} {i j : ℕ} {pj : ℚ} (h : tieRow n r i j pj = true) (hj : j < n)
    {x : List ℝ} {zs : List (List ℝ)} {z : List ℝ} (hz : zs[i]? = some z) (hr : r.SatR x zs) :
    x.getD j 0 + z.getD j 0 ≤ (pj : ℝ) := by
  simp only [tieRow, Bool.and_eq_true, beq_iff_eq] at h
  obtain ⟨⟨⟨hax, hob⟩, haz⟩, hb⟩ := h
  unfold DRow.SatR at hr
  rw [blocksR_only hob haz hz, hax, dotR_unitAt x hj, dotR_unitAt z hj] at hr
  have := le_trans hr ((Ext.le_iff _ _).1 hb)
  simp only [Ext.toE_fin, EReal.coe_le_coe_iff] at this
  exact this

/-- one coordinate of the duality row -/
theorem dualCoef_le {n : ℕ} {rows : List DRow} {i : ℕ} {bx : Itv} {p a d : ℚ} {g : Itv} {j : ℕ}
    (h : dualCoef n rows i bx p a d g j = true) {x s z : ℝ} (hx : x ∈ bx) (hs : s ∈ g) (hz : z ≤ 0)
    (htie : j < n → (rows.any fun r => tieRow n r i j p) = true → x + z ≤ (p : ℝ)) :
    s * (x - p) ≤ (a : ℝ) * (x - p) + (d : ℝ) * (-z) := by
  cases g with
  | empty => exact absurd hs (Itv.not_mem_empty s)
  | mk gl gu =>
    simp only [dualCoef, Bool.and_eq_true, Bool.or_eq_true, Bool.not_eq_true', decide_eq_true_eq, beq_iff_eq] at h
    obtain ⟨⟨hd, hdown⟩, hup⟩ := h
    have hd' : (0 : ℝ) ≤ (d : ℝ) := by exact_mod_cast hd
    have hdz : 0 ≤ (d : ℝ) * (-z) := mul_nonneg hd' (by linarith)
    rcases lt_trichotomy ((p : ℝ)) x with hlt | heq | hgt
    · have hcu := canUp_of_lt hx hlt
      rcases hup with h1 | ⟨hgu, htd⟩
      · rw [hcu] at h1; exact absurd h1 (by simp)
      · have hsu : s ≤ ((a + d : ℚ) : ℝ) := le_fin_of_mem_hi hgu hs
        push_cast at hsu
        have hpos : 0 < x - p := by linarith
        rcases htd with hd0 | ⟨hjn, hany⟩
        · subst hd0
          have : s ≤ (a : ℝ) := by simpa using hsu
          have := mul_le_mul_of_nonneg_right this hpos.le
          simpa using this
        · have ht := htie hjn hany
          have h1 : s * (x - p) ≤ ((a : ℝ) + d) * (x - p) := mul_le_mul_of_nonneg_right hsu hpos.le
          have h2 : (d : ℝ) * (x - p) ≤ (d : ℝ) * (-z) := mul_le_mul_of_nonneg_left (by linarith) hd'
          nlinarith
    · rw [← heq]; simpa using hdz
    · have hcd := canDown_of_lt hx hgt
      rcases hdown with h1 | h1
      · rw [hcd] at h1; exact absurd h1 (by simp)
      · have hal : (a : ℝ) ≤ s := fin_le_of_mem_lo h1 hs
        have : s * (x - p) ≤ (a : ℝ) * (x - p) := mul_le_mul_of_nonpos_right hal (by linarith)
        linarith

theorem getD_drop_head {α : Type} {l : List α} {j : ℕ} {a : α} {t : List α} (h : l.drop j = a :: t) (d : α) :
    l.getD j d = a ∧ l.drop (j + 1) = t := by
  have h1 : l[j]? = some a := by
    have := congrArg (fun m => m[0]?) h
    simpa using this
  refine ⟨by simp [List.getD, h1], ?_⟩
  have := congrArg (fun m => m.drop 1) h
  simpa [Nat.add_comm] using this

/-- all coordinates of the duality row (`X`, `Z` are the full vectors, the lists are their suffixes from `j`) -/
theorem dualCoefs_le {n : ℕ} {rows : List DRow} {i : ℕ} {X Z : List ℝ} (hZ : ∀ t ∈ Z, t ≤ 0)
    (htie : ∀ (j : ℕ) (pj : ℚ), j < n → (rows.any fun r => tieRow n r i j pj) = true → X.getD j 0 + Z.getD j 0 ≤ (pj : ℝ)) :
    ∀ {box : Box} {p a d : List ℚ} {G : List Itv} {j : ℕ} {s : List ℝ},
      dualCoefs n rows i box p a d G j = true → BoxMem (X.drop j) box → Forall₂ (fun (t : ℝ) (I : Itv) => t ∈ I) s G →
      (Z.drop j).length = box.length →
      dotR s (subR (X.drop j) (castL p)) ≤
        dotR (castL a) (subR (X.drop j) (castL p)) + dotR (castL d) ((Z.drop j).map fun t => -t)
  | [], [], [], [], [], j, s, _, hx, hs, _ => by
    cases hs; simp
  | bx :: bs, p :: ps, a :: as, d :: ds, g :: gs, j, s, h, hx, hs, hzl => by
    simp only [dualCoefs, Bool.and_eq_true] at h
    cases hxd : X.drop j with
    | nil => rw [hxd] at hx; cases hx
    | cons x0 xt =>
      rw [hxd] at hx
      cases hzd : Z.drop j with
      | nil => rw [hzd] at hzl; simp at hzl
      | cons z0 zt =>
        cases hs with
        | cons hs1 hss =>
          cases hx with
          | cons hx1 hxs =>
            obtain ⟨hxg, hxt⟩ := getD_drop_head hxd (0 : ℝ)
            obtain ⟨hzg, hzt⟩ := getD_drop_head hzd (0 : ℝ)
            have hz0 : z0 ≤ 0 := hZ z0 (by
              have : z0 ∈ Z.drop j := by rw [hzd]; simp
              exact mem_of_mem_drop this)
            have h1 := dualCoef_le h.1 hx1 hs1 hz0 (fun hjn hany => by
              have := htie j p hjn hany
              rwa [hxg, hzg] at this)
            have hzl' : (Z.drop (j + 1)).length = bs.length := by
              rw [hzt]; rw [hzd] at hzl; simpa using hzl
            have h2 := dualCoefs_le hZ htie h.2 (by rw [hxt]; exact hxs) hss hzl'
            rw [hxt, hzt] at h2
            simp only [castL_cons, subR_cons, dotR_cons, map_cons]
            linarith
  | [], _ :: _, _, _, _, _, _, h, _, _, _ => by simp [dualCoefs] at h
  | [], [], _ :: _, _, _, _, _, h, _, _, _ => by simp [dualCoefs] at h
  | [], [], [], _ :: _, _, _, _, h, _, _, _ => by simp [dualCoefs] at h
  | [], [], [], [], _ :: _, _, _, h, _, _, _ => by simp [dualCoefs] at h
  | _ :: _, [], _, _, _, _, _, h, _, _, _ => by simp [dualCoefs] at h
  | _ :: _, _ :: _, [], _, _, _, _, h, _, _, _ => by simp [dualCoefs] at h
  | _ :: _, _ :: _, _ :: _, [], _, _, _, h, _, _, _ => by simp [dualCoefs] at h
  | _ :: _, _ :: _, _ :: _, _ :: _, [], _, _, h, _, _, _ => by simp [dualCoefs] at h

theorem dualCoefs_length {n : ℕ} {rows : List DRow} {i : ℕ} :
    ∀ {box : Box} {p a d : List ℚ} {G : List Itv} {j : ℕ}, dualCoefs n rows i box p a d G j = true →
      p.length = box.length ∧ a.length = box.length
  | [], [], [], [], [], _, _ => by simp
  | _ :: _, _ :: _, _ :: _, _ :: _, _ :: _, j, h => by
    simp only [dualCoefs, Bool.and_eq_true] at h
    have := dualCoefs_length h.2
    simp [this.1, this.2]
  | [], _ :: _, _, _, _, _, h => by simp [dualCoefs] at h
  | [], [], _ :: _, _, _, _, h => by simp [dualCoefs] at h
  | [], [], [], _ :: _, _, _, h => by simp [dualCoefs] at h
  | [], [], [], [], _ :: _, _, h => by simp [dualCoefs] at h
  | _ :: _, [], _, _, _, _, h => by simp [dualCoefs] at h
  | _ :: _, _ :: _, [], _, _, _, h => by simp [dualCoefs] at h
  | _ :: _, _ :: _, _ :: _, [], _, _, h => by simp [dualCoefs] at h
  | _ :: _, _ :: _, _ :: _, _ :: _, [], _, h => by simp [dualCoefs] at h

theorem dotR_castL_map_neg : ∀ (blk : List ℚ) (z : List ℝ),
    dotR (castL (blk.map fun q => -q)) (z.map fun t => -t) = dotR (castL blk) z
  | [], z => by simp
  | _ :: _, [] => by simp
  | b :: bs, z :: zs => by
    simp only [map_cons, castL_cons, dotR_cons, dotR_castL_map_neg bs zs]
    push_cast; ring

/-- **a main duality row proves its constraint** at every `(x, z)` of the LP box satisfying all the rows -/
theorem dualMain_sound {sys : NLSys} {n : ℕ} {box : Box} {E : Expansion} (hE : E.Valid sys box) {rows : List DRow} {r : DRow}
    {i k : ℕ} (h : dualMain n box E rows r i k = true) {g : List ℝ → ℝ} {op : Cmp} (hi : E.act[k]? = some i)
    (hg : sys[i]? = some (g, op)) {x : List ℝ} (hx : BoxMem x box) {zs : List (List ℝ)} {z : List ℝ}
    (hz : zs[i]? = some z) (hzlen : z.length = box.length) (hzneg : ∀ t ∈ z, t ≤ 0)
    (hrows : ∀ r' ∈ rows, r'.SatR x zs) (hr : r.SatR x zs) : g x ≤ 0 := by
  unfold dualMain at h
  split at h
  · rename_i G' v' blk hl hblk
    simp only [Bool.and_eq_true] at h
    obtain ⟨⟨hob, hco⟩, hrhs⟩ := h
    have hv := Expansion.line_valid hE hl hi hg
    simp only [sg, Bool.false_eq_true, if_false] at hv
    obtain ⟨s, hs, heq⟩ := hv.2 x hx
    have htie : ∀ (j : ℕ) (pj : ℚ), j < n → (rows.any fun r => tieRow n r i j pj) = true →
        x.getD j 0 + z.getD j 0 ≤ (pj : ℝ) := by
      intro j pj hj hany
      rw [any_eq_true] at hany
      obtain ⟨r', hr', ht⟩ := hany
      exact tieRow_sound ht hj hz (hrows r' hr')
    have hle := dualCoefs_le (X := x) (Z := z) hzneg htie hco (by simpa using hx) hs (by simpa using hzlen)
    simp only [drop_zero] at hle
    have hlen := dualCoefs_length hco
    have hsplit := dotR_split (castL r.ax) x (castL E.c) (by simp [hlen.2, hx.length_eq]) (by simp [hlen.1, hlen.2])
    unfold DRow.SatR at hr
    rw [blocksR_only hob hblk hz] at hr
    rw [dotR_castL_map_neg] at hle
    unfold rhsRestrict at hrhs
    split at hrhs
    · rename_i lo u
      rw [Ext.le_iff] at hrhs
      have hu : g (castL E.c) ≤ (u : ℝ) := EReal.coe_le_coe_iff.1 hv.1.2
      have := le_trans hr hrhs
      simp only [Ext.toE_fin, EReal.coe_le_coe_iff] at this
      push_cast at this
      rw [dot_cast, hsplit] at this
      linarith
    · have : r.b = .ninf := by simpa using hrhs
      rw [this] at hr
      simp at hr
  · simp at h

/-- **certificate for LinearizerDuality, one call** (return value ≠ −1): at every point `(x, z)` of the LP box
    (`x` in the box, every auxiliary variable `≤ 0`) satisfying all the rows, `x` satisfies every constraint -/
theorem dualCert_sound {sys : NLSys} {n : ℕ} {box : Box} {E : Option Expansion} (hE : ∀ E' ∈ E, E'.Valid sys box)
    {rows : List DRow} {evalbox : List Itv} (hev : EvalValid sys box evalbox)
    (h : dualCert n box (opsOf sys) E rows evalbox = true) {x : List ℝ} (hx : BoxMem x box) {zs : List (List ℝ)}
    (hzs : zs.length = sys.length) (hzlen : ∀ z ∈ zs, z.length = box.length) (hzneg : ∀ z ∈ zs, ∀ t ∈ z, t ≤ 0)
    (hrows : ∀ r ∈ rows, r.SatR x zs) : WeakFeasible sys x := by
  intro p hp
  obtain ⟨i, hi⟩ := mem_iff_getElem?.1 hp
  have hop : (opsOf sys)[i]? = some p.2 := by simp [opsOf, getElem?_map, hi]
  have hc := zipIdxAll_get h hop
  unfold dualCovered at hc
  rw [Bool.or_eq_true] at hc
  rcases hc with hc | hc
  · split at hc
    · rename_i ev hevi
      exact inactive_sound hc (hev i p.1 p.2 ev hi hevi x hx)
    · simp at hc
  · simp only [Bool.and_eq_true, beq_iff_eq] at hc
    obtain ⟨hrs, hc⟩ := hc
    split at hc
    · simp at hc
    · rename_i E'
      simp only [any_eq_true] at hc
      obtain ⟨k, hk, r, hr, hm⟩ := hc
      have hilt : i < zs.length := by
        rw [hzs]; exact (List.getElem?_eq_some_iff.1 hi).1
      have hz : zs[i]? = some zs[i] := getElem?_eq_getElem hilt
      have hzm : zs[i] ∈ zs := getElem_mem hilt
      apply Cmp.rsign_sound hrs
      simp only [sg, Bool.false_eq_true, if_false]
      exact dualMain_sound (hE E' rfl) hm (mem_linesOf hk) (g := p.1) (op := p.2) hi hx hz (hzlen _ hzm) (hzneg _ hzm)
        hrows (hrows r hr)

/-! ### flat rows and block rows denote the same inequality -/

theorem dotR_append : ∀ (a1 a2 x1 x2 : List ℝ), a1.length = x1.length →
    dotR (a1 ++ a2) (x1 ++ x2) = dotR a1 x1 + dotR a2 x2
  | [], a2, [], x2, _ => by simp
  | [], _, _ :: _, _, h => by simp at h
  | _ :: _, _, [], _, h => by simp at h
  | a :: as, a2, x :: xs, x2, h => by
    simp only [length_cons, Nat.add_right_cancel_iff] at h
    simp only [cons_append, dotR_cons, dotR_append as a2 xs x2 h]
    ring

theorem castL_append (a b : List ℚ) : castL (a ++ b) = castL a ++ castL b := by simp [castL]

theorem dotR_take_drop (n : ℕ) (a : List ℚ) (x1 x2 : List ℝ) (hx : x1.length = n) (ha : n ≤ a.length) :
    dotR (castL a) (x1 ++ x2) = dotR (castL (a.take n)) x1 + dotR (castL (a.drop n)) x2 := by
  have happ : castL a = castL (a.take n) ++ castL (a.drop n) := by
    rw [← castL_append, take_append_drop]
  rw [happ]
  exact dotR_append _ _ _ _ (by simp [hx, Nat.min_eq_left ha])

theorem blocksR_chunks (n : ℕ) : ∀ (m : ℕ) (l : List ℚ) (zs : List (List ℝ)), l.length = m * n → zs.length = m →
    (∀ z ∈ zs, z.length = n) → blocksR (chunks n m l) zs = dotR (castL l) zs.flatten
  | 0, l, zs, _, hz, _ => by
    have : zs = [] := length_eq_zero_iff.1 hz
    subst this
    simp [chunks, blocksR]
  | m + 1, l, [], _, hz, _ => by simp at hz
  | m + 1, l, z :: zs, hl, hz, hzn => by
    simp only [length_cons, Nat.add_right_cancel_iff] at hz
    have hzl : z.length = n := hzn z (by simp)
    have hn : n ≤ l.length := by rw [hl, Nat.succ_mul]; omega
    have hrest := blocksR_chunks n m (l.drop n) zs (by rw [length_drop, hl, Nat.succ_mul]; omega) hz
      (fun z' hz' => hzn z' (by simp [hz']))
    simp only [chunks, blocksR, flatten_cons, hrest]
    exact (dotR_take_drop n l z zs.flatten hzl hn).symm

/-- the block form of a recorded row denotes the same inequality at the flat point `(x, z_0, …, z_{m−1})` -/
theorem toDRow_sat {n m : ℕ} {r : LeRow} (hr : r.a.length = n + m * n) {x : List ℝ} (hx : x.length = n)
    {zs : List (List ℝ)} (hz : zs.length = m) (hzn : ∀ z ∈ zs, z.length = n) :
    (toDRow n m r).SatR x zs ↔ r.SatR (x ++ zs.flatten) := by
  unfold DRow.SatR LeRow.SatR toDRow
  simp only
  rw [dotR_take_drop n r.a x zs.flatten hx (by omega),
    blocksR_chunks n m (r.a.drop n) zs (by rw [length_drop, hr]; omega) hz hzn]

end Lin
end Ibex
