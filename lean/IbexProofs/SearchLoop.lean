/-
  The model of the search loop (`IbexModel/SearchLoop.lean`):
  * `run_inv` / `run_covers`: every run (any policy whose contractor keeps the solutions and whose decisions
    cover the contracted box, any number of iterations) keeps every solution of the root box in a stored box
    or in a cell of the buffer — induction over the fuel, no bound on anything;
  * `run_sim` / `run_checkOk`: the log emitted by every run is ACCEPTED by the certificate `Cover.check`
    that judges the logs of the real solver (simulation between the loop state and the replay state).
-/
import IbexProofs.Cover
import IbexProofs.Comb
import IbexModel.SearchLoop

namespace Ibex.SearchLoop
open Ibex Ibex.Cover

variable {P : Policy} {Sol : Set (List ℝ)}

/-! ### the picked cell -/

theorem step_some {s s' : St} (h : step P s = some s') : ∃ b ∈ s.buffer, s' = stepOn P s b := by
  unfold step at h
  cases hb : s.buffer[P.pick s.buffer % s.buffer.length]? with
  | none => rw [hb] at h; cases h
  | some b => rw [hb] at h; cases h; exact ⟨b, List.mem_of_getElem? hb, rfl⟩

theorem step_none {s : St} (h : step P s = none) : s.buffer = [] := by
  unfold step at h
  cases hbuf : s.buffer with
  | nil => rfl
  | cons x xs =>
    exfalso
    have hlt : P.pick s.buffer % s.buffer.length < s.buffer.length :=
      Nat.mod_lt _ (by rw [hbuf]; simp)
    rw [List.getElem?_eq_getElem hlt] at h
    cases h

/-! ### direct invariant: no solution is lost -/

/-- every solution of the root is in a stored box or in a cell of the buffer -/
def Covers (Sol : Set (List ℝ)) (root : Box) (s : St) : Prop :=
  ∀ p ∈ Sol, Box.Mem p root → ∃ b ∈ s.stored ++ s.buffer, Box.Mem p b

theorem step_covers {root : Box} {s s' : St}
    (hctc : ∀ x p, Box.Mem p x → p ∈ Sol → Box.Mem p (P.ctc x))
    (hact : ∀ o, Box.isEmpty o = false → actOk o (P.act o) = true)
    (hI : Covers Sol root s) (hs : step P s = some s') : Covers Sol root s' := by
  intro p hp hr
  obtain ⟨b', hb', hm⟩ := hI p hp hr
  obtain ⟨b, hbm, rfl⟩ := step_some hs
  by_cases hbb : b' = b
  · -- the point was in the picked cell
    subst hbb
    have hpo : Box.Mem p (P.ctc b') := hctc b' p hm hp
    have hne : Box.isEmpty (P.ctc b') = false := Box.isEmpty_eq_false_of_mem hpo
    have ha := hact _ hne
    unfold stepOn
    simp only [hne, Bool.false_eq_true, if_false]
    cases hact' : P.act (P.ctc b') with
    | store t =>
      rw [hact'] at ha
      exact ⟨t, by simp, Box.subset_sound ha hpo⟩
    | split l r =>
      rw [hact'] at ha
      simp only [actOk, Bool.and_eq_true] at ha
      rcases Cover.split2Ok_sound ha.1.1 hpo with h | h
      · exact ⟨l, by simp, h⟩
      · exact ⟨r, by simp, h⟩
  · -- the point was in another box: that box is still there
    refine ⟨b', ?_, hm⟩
    have hin : b' ∈ s.stored ∨ b' ∈ s.buffer.erase b := by
      rcases List.mem_append.1 hb' with h | h
      · exact Or.inl h
      · exact Or.inr ((List.mem_erase_of_ne hbb).2 h)
    unfold stepOn
    split
    · simpa using hin
    · split
      · rcases hin with h | h
        · simp [h]
        · simp [h]
      · rcases hin with h | h
        · simp [h]
        · simp [h]

theorem run_inv {root : Box}
    (hctc : ∀ x p, Box.Mem p x → p ∈ Sol → Box.Mem p (P.ctc x))
    (hact : ∀ o, Box.isEmpty o = false → actOk o (P.act o) = true) :
    ∀ (fuel : Nat) (s : St), Covers Sol root s → Covers Sol root (run P fuel s)
  | 0, _, h => h
  | fuel + 1, s, h => by
    unfold run
    split
    · exact h
    · rename_i s' hs
      exact run_inv hctc hact fuel s' (step_covers hctc hact h hs)

theorem init_covers (root : Box) : Covers Sol root (St.init root) :=
  fun p _ hr => ⟨root, by simp [St.init], hr⟩

/-! ### the emitted log is accepted by the certificate -/

theorem removeOne_erase {b : Box} : ∀ {l : List Box}, b ∈ l → removeOne b l = some (l.erase b)
  | [], h => by cases h
  | x :: xs, h => by
    unfold removeOne
    by_cases hx : x = b
    · subst hx; simp
    · have hb : b ∈ xs := by
        rcases List.mem_cons.1 h with h | h
        · exact absurd h.symm hx
        · exact h
      have hne : (x == b) = false := by simpa using hx
      simp only [hne, Bool.false_eq_true, if_false, removeOne_erase hb, Option.map_some]
      rw [List.erase_cons_tail (by simpa using hx)]

theorem sameBox_refl (a : Box) : sameBox a a = true := by simp [sameBox]

theorem Box.all2_subset_refl : ∀ b : Box, Box.all2 Itv.subset b b = true
  | [] => by simp [Box.all2]
  | x :: xs => by simp [Box.all2, Ibex.C19.Itv.subset_refl x, Box.all2_subset_refl xs]

theorem Box.subset_refl (b : Box) : Box.subset b b = true := by
  unfold Box.subset
  cases h : Box.isEmpty b <;> simp [Box.all2_subset_refl]

/-- the simulation relation: once the pending obligation of the replay is discharged, its buffer is the
    buffer of the loop and nothing else is pending -/
def Rel (cert : Box → Box × Box × List Nat → Bool) (pv : Paving) (s : St) (cs : Cover.St) : Prop :=
  ∃ cs', discharge cert pv cs = .ok cs' ∧ cs'.openB = s.buffer ∧ cs'.popped = none ∧ cs'.kids = []

variable {cert : Box → Box × Box × List Nat → Bool} {pv : Paving}

theorem step_sim {s s' : St} {cs : Cover.St}
    (hsub : ∀ x, Box.subset (P.ctc x) x = true)
    (hact : ∀ o, Box.isEmpty o = false → actOk o (P.act o) = true)
    (hpv : ∀ t ∈ s'.stored, t ∈ pv.boxes)
    (hR : Rel cert pv s cs) (hs : step P s = some s') :
    ∃ evs cs2, s'.log = s.log ++ evs ∧ evs.foldlM (Cover.step cert pv) cs = .ok cs2 ∧ Rel cert pv s' cs2 := by
  obtain ⟨cs', hd, hopen, hpop, hkids⟩ := hR
  obtain ⟨b, hbm, rfl⟩ := step_some hs
  obtain ⟨cf, ob, tp, cu, po, ki⟩ := cs'
  simp only at hopen hpop hkids
  subst hopen hpop hkids
  -- the three events common to every iteration
  have h3 : (evs3 P b).foldlM (Cover.step cert pv) cs
      = .ok ⟨cf, s.buffer.erase b, none, none, some (P.ctc b), []⟩ := by
    simp only [evs3, List.foldlM_cons, List.foldlM_nil, Cover.step, hd]
    simp [hbm, sameBox_refl, hsub, removeOne_erase hbm, bind, Except.bind, pure,
      Except.pure]
  unfold stepOn at hpv ⊢
  by_cases he : Box.isEmpty (P.ctc b) = true
  · -- the box was emptied
    simp only [he, if_true] at hpv ⊢
    refine ⟨_, _, rfl, h3, ?_⟩
    refine ⟨⟨cf, s.buffer.erase b, none, none, none, []⟩, ?_, rfl, rfl, rfl⟩
    simp [discharge, he]
  · have he' : Box.isEmpty (P.ctc b) = false := by simpa using he
    have ha := hact _ he'
    simp only [he', Bool.false_eq_true, if_false] at hpv ⊢
    cases hact' : P.act (P.ctc b) with
    | store t =>
      rw [hact'] at ha hpv
      simp only at hpv ⊢
      refine ⟨_, _, rfl, h3, ?_⟩
      refine ⟨⟨cf, s.buffer.erase b, none, none, none, []⟩, ?_, rfl, rfl, rfl⟩
      have hst : storedOk pv (P.ctc b) = true := by
        unfold storedOk
        simp only [Bool.or_eq_true, List.any_eq_true]
        exact Or.inl ⟨t, hpv t (by simp), ha⟩
      simp [discharge, he', hst]
    | split l r =>
      rw [hact'] at ha
      simp only [actOk, Bool.and_eq_true, Bool.not_eq_true'] at ha
      obtain ⟨⟨hsp, hl⟩, hr⟩ := ha
      simp only
      refine ⟨_, ⟨cf, s.buffer.erase b, none, none, some (P.ctc b), [l, r]⟩, rfl, ?_, ?_⟩
      · rw [List.foldlM_append, h3]
        simp [Cover.step, hl, hr, bind, Except.bind, pure, Except.pure]
      · refine ⟨⟨cf, l :: r :: s.buffer.erase b, none, none, none, []⟩, ?_, rfl, rfl, rfl⟩
        simp [discharge, he', hsp]

theorem stored_mono : ∀ (fuel : Nat) (s : St), ∀ t ∈ s.stored, t ∈ (run P fuel s).stored
  | 0, _, _, h => h
  | fuel + 1, s, t, h => by
    unfold run
    split
    · exact h
    · rename_i s' hs
      apply stored_mono fuel s' t
      obtain ⟨b, _, rfl⟩ := step_some hs
      unfold stepOn
      split
      · exact h
      · split
        · exact List.mem_cons_of_mem _ h
        · exact h

/-- every run extends the log by events that the replay accepts, and ends in related states -/
theorem run_sim
    (hsub : ∀ x, Box.subset (P.ctc x) x = true)
    (hact : ∀ o, Box.isEmpty o = false → actOk o (P.act o) = true) :
    ∀ (fuel : Nat) (s : St) (cs : Cover.St), (∀ t ∈ (run P fuel s).stored, t ∈ pv.boxes) → Rel cert pv s cs →
      ∃ evs cs2, (run P fuel s).log = s.log ++ evs ∧ evs.foldlM (Cover.step cert pv) cs = .ok cs2 ∧
        Rel cert pv (run P fuel s) cs2
  | 0, s, cs, _, hR => ⟨[], cs, by simp [run], rfl, hR⟩
  | fuel + 1, s, cs, hpv, hR => by
    unfold run at hpv ⊢
    split
    · exact ⟨[], cs, by simp, rfl, hR⟩
    · rename_i s' hs
      simp only [hs] at hpv
      obtain ⟨e1, c1, hl1, hf1, hR1⟩ :=
        step_sim (cert := cert) (pv := pv) hsub hact (fun t ht => hpv t (stored_mono fuel s' t ht)) hR hs
      obtain ⟨e2, c2, hl2, hf2, hR2⟩ := run_sim hsub hact fuel s' c1 hpv hR1
      refine ⟨e1 ++ e2, c2, by rw [hl2, hl1, List.append_assoc], ?_, hR2⟩
      rw [List.foldlM_append, hf1]
      exact hf2

/-- **Every run of the modelled search loop is accepted by the certificate that judges the real logs.** -/
theorem run_check (root : Box) (hroot : Box.isEmpty root = false)
    (hsub : ∀ x, Box.subset (P.ctc x) x = true)
    (hact : ∀ o, Box.isEmpty o = false → actOk o (P.act o) = true) (fuel : Nat) :
    ∃ k, Cover.check cert (run P fuel (St.init root)).paving (run P fuel (St.init root)).log = .ok k := by
  have hR0 : Rel cert (run P fuel (St.init root)).paving (St.init root) ⟨0, [root], none, none, none, []⟩ :=
    ⟨⟨0, [root], none, none, none, []⟩, by simp [discharge], rfl, rfl, rfl⟩
  obtain ⟨evs, cs2, hlog, hfold, cs3, hd, hopen, _, _⟩ :=
    run_sim (cert := cert) (pv := (run P fuel (St.init root)).paving) hsub hact fuel (St.init root) _
      (fun t ht => by simp only [St.paving]; exact List.mem_append_left _ ht) hR0
  refine ⟨cs3.certified, ?_⟩
  unfold Cover.check
  rw [hlog]
  have hpush : Cover.step cert (run P fuel (St.init root)).paving Cover.St.init (.push root)
      = .ok ⟨0, [root], none, none, none, []⟩ := by
    simp [Cover.step, Cover.St.init, hroot]
  have hall : cs3.openB.all (storedOk (run P fuel (St.init root)).paving) = true := by
    rw [hopen, List.all_eq_true]
    intro b hb
    unfold storedOk
    simp only [Bool.or_eq_true, List.any_eq_true]
    exact Or.inl ⟨b, by simp only [St.paving]; exact List.mem_append_right _ hb, Box.subset_refl b⟩
  have hl0 : (St.init root).log = [Ev.push root] := rfl
  rw [hl0]
  simp only [List.singleton_append, List.foldlM_cons, hpush]
  simp only [bind, Except.bind, hfold, hd, hall, pure, Except.pure, if_true]

/-! ### resumed searches: the stage certificate of C18 accepts every resumed run of the model -/

theorem fold_pushes : ∀ (bs : List Box) (cs : Cover.St), cs.popped = none → (∀ b ∈ bs, Box.isEmpty b = false) →
    (bs.map Ev.push).foldlM (Cover.step cert pv) cs = .ok { cs with openB := bs.reverse ++ cs.openB }
  | [], cs, _, _ => by simp [pure, Except.pure]
  | b :: bs, cs, hp, hne => by
    have hb : Box.isEmpty b = false := hne b List.mem_cons_self
    have h1 : Cover.step cert pv cs (Ev.push b) = .ok { cs with openB := b :: cs.openB } := by
      simp [Cover.step, hb, hp]
    simp only [List.map_cons, List.foldlM_cons, h1, bind, Except.bind]
    have := fold_pushes bs { cs with openB := b :: cs.openB } hp
      (fun x hx => hne x (List.mem_cons_of_mem _ hx))
    rw [this]
    simp

theorem leadingPushes_append (bs : List Box) : ∀ (rest : List Ev),
    (∀ b tl, rest ≠ Ev.push b :: tl) → Cover.leadingPushes (bs.map Ev.push ++ rest) = bs := by
  induction bs with
  | nil =>
    intro rest h
    cases rest with
    | nil => rfl
    | cons e tl =>
      cases e with
      | push b => exact absurd rfl (h b tl)
      | top _ => rfl
      | ctc _ _ => rfl
      | pop _ => rfl
      | flush => rfl
  | cons b bs ih =>
    intro rest h
    simp only [List.map_cons, List.cons_append, Cover.leadingPushes, ih rest h]

/-- the events emitted by the loop after its initial log never start with a push -/
theorem run_log_shape : ∀ (fuel : Nat) (s : St), ∃ evs, (run P fuel s).log = s.log ++ evs ∧ ∀ b tl, evs ≠ Ev.push b :: tl
  | 0, s => ⟨[], by simp [run], by intro b tl h; cases h⟩
  | fuel + 1, s => by
    unfold run
    split
    · exact ⟨[], by simp, by intro b tl h; cases h⟩
    · rename_i s' hs
      obtain ⟨b, _, rfl⟩ := step_some hs
      obtain ⟨evs, hl, _⟩ := run_log_shape fuel (stepOn P s b)
      have h3 : ∃ e2, (stepOn P s b).log = s.log ++ (Ev.top b :: e2) := by
        unfold stepOn evs3
        split
        · exact ⟨_, rfl⟩
        · split
          · exact ⟨_, rfl⟩
          · exact ⟨_, by simp only [List.cons_append, List.nil_append]; rfl⟩
      obtain ⟨e2, he2⟩ := h3
      refine ⟨Ev.top b :: e2 ++ evs, by rw [hl, he2]; simp, ?_⟩
      intro b' tl h
      simp at h

/-! ### every log of the model is loop-shaped -/

theorem shape_iter (b : Box) (st : Nat) (hst : st = 0 ∨ st = 2) :
    (evs3 P b).foldlM shapeStep st = some 2 := by
  rcases hst with h | h <;> subst h <;> rfl

theorem shape_run : ∀ (fuel : Nat) (s : St) (pre : List Ev) (st : Nat), (st = 0 ∨ st = 2) →
    s.log = pre → ∀ (base : List Ev) (rest0 : List Ev), pre = base ++ rest0 → rest0.foldlM shapeStep 0 = some st →
    ∃ rest st', (run P fuel s).log = base ++ rest ∧ rest.foldlM shapeStep 0 = some st' ∧ (st' = 0 ∨ st' = 2)
  | 0, s, pre, st, hst, hl, base, rest0, hp, hf => ⟨rest0, st, by simp [run, hl, hp], hf, hst⟩
  | fuel + 1, s, pre, st, hst, hl, base, rest0, hp, hf => by
    unfold run
    split
    · exact ⟨rest0, st, by rw [hl, hp], hf, hst⟩
    · rename_i s' hs
      obtain ⟨b, _, rfl⟩ := step_some hs
      -- the events of this iteration
      have : ∃ evs st2, (stepOn P s b).log = s.log ++ evs ∧ evs.foldlM shapeStep st = some st2 ∧ (st2 = 0 ∨ st2 = 2) := by
        unfold stepOn
        split
        · exact ⟨_, 2, rfl, shape_iter b st hst, Or.inr rfl⟩
        · split
          · exact ⟨_, 2, rfl, shape_iter b st hst, Or.inr rfl⟩
          · refine ⟨_, 0, rfl, ?_, Or.inl rfl⟩
            rw [List.foldlM_append, shape_iter b st hst]
            rfl
      obtain ⟨evs, st2, hl2, hf2, hst2⟩ := this
      refine shape_run fuel (stepOn P s b) _ st2 hst2 rfl base (rest0 ++ evs) ?_ ?_
      · rw [hl2, hl, hp, List.append_assoc]
      · rw [List.foldlM_append, hf]
        exact hf2

/-- **every log emitted by the model is loop-shaped** (the measure used by the driver is not vacuous) -/
theorem run_loopShaped (root : Box) (fuel : Nat) : loopShaped (run P fuel (St.init root)).log = true := by
  obtain ⟨rest, st', hlog, hf, hst⟩ := shape_run (P := P) fuel (St.init root) _ 0 (Or.inl rfl) rfl [Ev.push root] [] rfl rfl
  obtain ⟨evs', hlog', hshape⟩ := run_log_shape (P := P) fuel (St.init root)
  have hl0 : (St.init root).log = [Ev.push root] := rfl
  rw [hl0] at hlog'
  have hev : evs' = rest := List.append_cancel_left (hlog'.symm.trans hlog)
  subst hev
  unfold loopShaped
  rw [hlog]
  have hd : ([Ev.push root] ++ evs').dropWhile isPush = evs' := by
    simp only [List.singleton_append, List.dropWhile_cons, isPush, if_true]
    cases evs' with
    | nil => rfl
    | cons e tl =>
      cases e with
      | push b => exact absurd rfl (hshape b tl)
      | top _ => rfl
      | ctc _ _ => rfl
      | pop _ => rfl
      | flush => rfl
  rw [hd, hf]
  rcases hst with h | h <;> subst h <;> rfl

/-- **The stage certificate of C18 (`Cover.stageOk`) accepts every resumed run of the model**: validated boxes carried over
    unchanged, every other box of the previous paving re-queued, log accepted. -/
theorem resume_stage (prev : List Item) (fuel : Nat)
    (hne : ∀ b ∈ requeued prev, Box.isEmpty b = false)
    (hsub : ∀ x, Box.subset (P.ctc x) x = true)
    (hact : ∀ o, Box.isEmpty o = false → actOk o (P.act o) = true) :
    Cover.stageOk cert prev (resumedItems prev (run P fuel (St.resume prev))) (run P fuel (St.resume prev)).log = true := by
  set fin := run P fuel (St.resume prev) with hfin
  -- the replay after the leading pushes
  have hpush : ((requeued prev).map Ev.push).foldlM (Cover.step cert (Cover.pavingOf (resumedItems prev fin))) Cover.St.init
      = .ok ⟨0, (requeued prev).reverse, none, none, none, []⟩ := by
    rw [fold_pushes _ _ rfl hne]
    simp [Cover.St.init]
  have hR0 : Rel cert (Cover.pavingOf (resumedItems prev fin)) (St.resume prev) ⟨0, (requeued prev).reverse, none, none, none, []⟩ :=
    ⟨⟨0, (requeued prev).reverse, none, none, none, []⟩, by simp [discharge], rfl, rfl, rfl⟩
  have hboxes : ∀ t, t ∈ fin.stored ∨ t ∈ fin.buffer → t ∈ (Cover.pavingOf (resumedItems prev fin)).boxes := by
    intro t ht
    simp only [Cover.pavingOf, resumedItems, List.map_append, List.map_map, List.mem_append, List.mem_map,
      Function.comp]
    rcases ht with h | h
    · exact Or.inl (Or.inr ⟨t, h, rfl⟩)
    · exact Or.inr ⟨t, h, rfl⟩
  obtain ⟨evs, cs2, hlog, hfold, cs3, hd, hopen, _, _⟩ :=
    run_sim (cert := cert) (pv := Cover.pavingOf (resumedItems prev fin)) hsub hact fuel (St.resume prev) _
      (fun t ht => hboxes t (Or.inl ht)) hR0
  obtain ⟨evs', hlog', hshape⟩ := run_log_shape (P := P) fuel (St.resume prev)
  have hev : evs' = evs := List.append_cancel_left (hlog'.symm.trans hlog)
  subst hev
  have hl0 : (St.resume prev).log = (requeued prev).map Ev.push := rfl
  unfold Cover.stageOk
  rw [Bool.and_eq_true]
  refine ⟨?_, ?_⟩
  · -- the carry-over rule
    unfold Cover.resumeOk
    rw [List.all_eq_true]
    intro it hit
    by_cases hv : it.validated = true
    · simp only [hv, if_true, decide_eq_true_eq]
      simp only [resumedItems, List.mem_append, List.mem_filter]
      exact Or.inl (Or.inl ⟨hit, hv⟩)
    · simp only [hv, Bool.false_eq_true, if_false, Bool.or_eq_true, decide_eq_true_eq]
      left
      rw [← hfin] at hlog
      rw [hlog, hl0, leadingPushes_append _ _ hshape]
      simp only [requeued, List.mem_map, List.mem_filter]
      exact ⟨it, ⟨hit, by simpa using hv⟩, rfl⟩
  · -- the log is accepted
    have hall : cs3.openB.all (storedOk (Cover.pavingOf (resumedItems prev fin))) = true := by
      rw [hopen, List.all_eq_true]
      intro b hb
      unfold storedOk
      simp only [Bool.or_eq_true, List.any_eq_true]
      exact Or.inl ⟨b, hboxes b (Or.inr hb), Box.subset_refl b⟩
    unfold Cover.check
    rw [← hfin] at hlog
    rw [hlog, hl0, List.foldlM_append, hpush]
    simp only [bind, Except.bind, hfold, hd, hall, pure, Except.pure, if_true]

end Ibex.SearchLoop
