/-
  C15 — interval linear algebra: soundness of the models and checkers of `IbexModel/LinAlg.lean`
  over the real numbers.

  Real vectors are lists `List ℝ`, real matrices lists of rows; `VMem x X` / `MMem a A` say that a
  real vector / matrix lies in an interval vector / matrix (same shape, component-wise), and
  `Solves a b x` that `a·x = b` row by row (`dotR`).
-/
import IbexModel
import IbexProofs.Basic
import IbexProofs.Arith
import IbexProofs.Arith2
import IbexProofs.ArithG
import IbexProofs.Bwd
import Mathlib.Data.List.Forall2

namespace Ibex.LinAlg
open Ibex

abbrev RVec := List ℝ
abbrev RMat := List (List ℝ)

/-- the real vector `x` lies in the interval vector `X` (same length, component-wise) -/
def VMem (x : RVec) (X : IVec) : Prop := List.Forall₂ (fun (v : ℝ) (I : Itv) => v ∈ I) x X
/-- the real matrix `a` lies in the interval matrix `A` (same shape, entry-wise) -/
def MMem (a : RMat) (A : IMat) : Prop := List.Forall₂ VMem a A

def dotR : List ℝ → List ℝ → ℝ
  | a :: as, x :: xs => a * x + dotR as xs
  | _, _ => 0

/-- `a · x = b`, row by row -/
def Solves (a : RMat) (b x : RVec) : Prop := List.Forall₂ (fun row br => dotR row x = br) a b

@[simp] theorem dotR_nil_left (x : List ℝ) : dotR [] x = 0 := by simp [dotR]
@[simp] theorem dotR_nil_right (a : List ℝ) : dotR a [] = 0 := by cases a <;> simp [dotR]
@[simp] theorem dotR_cons (a x : ℝ) (as xs : List ℝ) : dotR (a :: as) (x :: xs) = a * x + dotR as xs := by
  simp [dotR]

/-! ### generic list facts -/

theorem VMem.length_eq {x : RVec} {X : IVec} (h : VMem x X) : x.length = X.length := List.Forall₂.length_eq h

theorem VMem.getD {x : RVec} {X : IVec} (h : VMem x X) {i : Nat} (hi : i < X.length) :
    x.getD i 0 ∈ X.getD i .empty := by
  induction h generalizing i with
  | nil => simp at hi
  | cons h1 _ ih =>
    cases i with
    | zero => simpa using h1
    | succ i => simpa using ih (by simpa using hi)

/-- membership with the default `point 0` beyond the end of the row (a missing coefficient is 0) -/
theorem VMem.getD_point {a : RVec} {A : IVec} (h : VMem a A) (i : Nat) :
    a.getD i 0 ∈ A.getD i (Itv.point 0) := by
  induction h generalizing i with
  | nil => simp [Bwd.mem_point_zero]
  | cons h1 _ ih =>
    cases i with
    | zero => simpa using h1
    | succ i => simpa using ih i

theorem VMem.set {x : RVec} {X : IVec} (h : VMem x X) {i : Nat} {I : Itv}
    (hI : i < X.length → x.getD i 0 ∈ I) : VMem x (X.set i I) := by
  induction h generalizing i with
  | nil => exact List.Forall₂.nil
  | cons h1 h2 ih =>
    cases i with
    | zero => exact List.Forall₂.cons (by simpa using hI (by simp)) h2
    | succ i =>
      refine List.Forall₂.cons h1 (ih ?_)
      intro hi
      simpa using hI (by simpa using hi)

theorem VMem.not_isEmpty {x : RVec} {X : IVec} (h : VMem x X) : Box.isEmpty X = false := by
  induction h with
  | nil => rfl
  | @cons v I _ _ h1 _ ih =>
    have hI : I.isEmpty = false := by
      cases I with
      | empty => exact absurd h1 (Itv.not_mem_empty _)
      | mk a b => rfl
    simp only [Box.isEmpty, List.any_cons, hI, Bool.false_or]
    exact ih

theorem VMem.of_all2_subset {x : RVec} {X Y : IVec} (h : VMem x X) (hs : Box.all2 Itv.subset X Y = true) :
    VMem x Y := by
  induction h generalizing Y with
  | nil =>
    cases Y with
    | nil => exact List.Forall₂.nil
    | cons _ _ => simp [Box.all2] at hs
  | cons h1 _ ih =>
    cases Y with
    | nil => simp [Box.all2] at hs
    | cons J Js =>
      simp only [Box.all2, Bool.and_eq_true] at hs
      exact List.Forall₂.cons (Itv.mem_of_subset hs.1 h1) (ih hs.2)

theorem VMem.of_subset {x : RVec} {X Y : IVec} (h : VMem x X) (hs : Box.subset X Y = true) : VMem x Y := by
  simp only [Box.subset, Bool.or_eq_true, Bool.and_eq_true] at hs
  rcases hs with he | ⟨_, hs⟩
  · rw [h.not_isEmpty] at he; exact absurd he (by simp)
  · exact h.of_all2_subset hs

/-! ### Gauss–Seidel: one row -/

/-- real counterpart of `restSub` -/
def restR (i : Nat) : Nat → List ℝ → List ℝ → ℝ → ℝ
  | k, a :: as, x :: xs, acc => restR i (k + 1) as xs (if k = i then acc else acc - a * x)
  | _, _, _, acc => acc

theorem restSub_encl (i : Nat) {a : RVec} {A : IVec} (ha : VMem a A) :
    ∀ {x : RVec} {X : IVec}, VMem x X → ∀ (k : Nat) {acc : ℝ} {Acc : Itv}, acc ∈ Acc →
      restR i k a x acc ∈ restSub i k A X Acc := by
  induction ha with
  | nil => intro x X _ k acc Acc h; simpa [restR, restSub] using h
  | cons h1 _ ih =>
    intro x X hx k acc Acc h
    cases hx with
    | nil => simpa [restR, restSub] using h
    | cons hx1 hx2 =>
      simp only [restR, restSub]
      apply ih hx2
      split
      · exact h
      · exact Itv.sub_encl h (Itv.mul_encl h1 hx1)

theorem restR_eq (i : Nat) : ∀ (a x : List ℝ) (k : Nat) (acc : ℝ),
    restR i k a x acc = acc - dotR a x + (if k ≤ i then a.getD (i - k) 0 * x.getD (i - k) 0 else 0) := by
  intro a
  induction a with
  | nil => intro x k acc; simp [restR]
  | cons a0 as ih =>
    intro x k acc
    cases x with
    | nil => simp [restR]
    | cons x0 xs =>
      simp only [restR, dotR_cons]
      rw [ih]
      by_cases hk : k = i
      · subst hk; simp; ring
      · rcases Nat.lt_or_gt_of_ne hk with hlt | hgt
        · have h1 : k + 1 ≤ i := hlt
          have h2 : k ≤ i := Nat.le_of_lt hlt
          have h3 : i - k = (i - (k + 1)) + 1 := by omega
          simp only [hk, if_false, h1, h2, if_true, h3, List.getD_cons_succ]
          ring
        · have h1 : ¬ k + 1 ≤ i := by omega
          have h2 : ¬ k ≤ i := by omega
          simp only [hk, if_false, h1, h2]
          ring

/-- **one Gauss–Seidel row projection keeps every solution**: if `a ∈ row`, `b ∈ br`, `x ∈ X` and
    `a·x = b`, then `x_i` stays in `x_i ∩ (br − Σ_{j≠i} row_j·X_j) ⊘ row_i`. -/
theorem rowProj_sound {row : IVec} {br : Itv} {X : IVec} {a : RVec} {b : ℝ} {x : RVec} {i : Nat}
    (ha : VMem a row) (hb : b ∈ br) (hx : VMem x X) (hi : i < X.length) (heq : dotR a x = b) :
    x.getD i 0 ∈ rowProj row br X i := by
  have h := restSub_encl i ha hx 0 hb
  rw [restR_eq] at h
  simp only [Nat.zero_le, if_true, Nat.sub_zero, heq, sub_self, zero_add] at h
  unfold rowProj
  refine Bwd.mem_projMul1 (hx.getD hi) (ha.getD_point i) ?_
  rwa [mul_comm]

theorem rowStep_sound {row : IVec} {br : Itv} {X : IVec} {a : RVec} {b : ℝ} {x : RVec} (i : Nat)
    (ha : VMem a row) (hb : b ∈ br) (hx : VMem x X) (heq : dotR a x = b) :
    VMem x (rowStep row br X i) :=
  hx.set fun hi => rowProj_sound ha hb hx hi heq

/-! ### Gauss–Seidel: sweeps -/

theorem sweepRows_sound (n : Nat) {a : RMat} {A : IMat} (ha : MMem a A) :
    ∀ {bv : RVec} {B : IVec} {x : RVec} {X : IVec} (r : Nat), VMem bv B → VMem x X → Solves a bv x →
      VMem x (sweepRows n r A B X) := by
  induction ha with
  | nil => intro bv B x X r _ hx _; simpa [sweepRows] using hx
  | cons h1 _ ih =>
    intro bv B x X r hb hx hs
    cases hs with
    | cons hs1 hs2 =>
      cases hb with
      | cons hb1 hb2 =>
        simp only [sweepRows]
        exact ih (r + 1) hb2 (rowStep_sound (r % n) h1 hb1 hx hs1) hs2

theorem gsSweep_sound {a : RMat} {A : IMat} {bv : RVec} {B : IVec} {x : RVec} {X : IVec}
    (ha : MMem a A) (hb : VMem bv B) (hx : VMem x X) (hs : Solves a bv x) : VMem x (gsSweep A B X) :=
  sweepRows_sound _ ha 0 hb hx hs

theorem gsIter_sound {a : RMat} {A : IMat} {bv : RVec} {B : IVec} {x : RVec}
    (ha : MMem a A) (hb : VMem bv B) (hs : Solves a bv x) :
    ∀ (fuel : Nat) {X : IVec}, VMem x X → VMem x (gsIter fuel A B X).1 := by
  intro fuel
  induction fuel with
  | zero => intro X hx; simpa [gsIter] using hx
  | succ f ih =>
    intro X hx
    simp only [gsIter]
    split
    · exact hx
    · split
      · exact hx
      · exact ih (gsSweep_sound ha hb hx hs)

/-! ### inflating Gauss–Seidel -/

theorem inflRowStep_sound {row : IVec} {br : Itv} {X : IVec} {a : RVec} {b : ℝ} {x : RVec} (i : Nat)
    (ha : VMem a row) (hb : b ∈ br) (hx : VMem x X) (heq : dotR a x = b) :
    VMem x (inflRowStep row br X i) := by
  unfold inflRowStep
  apply hx.set
  intro _
  have h := restSub_encl i ha hx 0 hb
  rw [restR_eq] at h
  simp only [Nat.zero_le, if_true, Nat.sub_zero, heq, sub_self, zero_add] at h
  have hai := ha.getD_point i
  split
  · exact Bwd.mem_all _
  · rename_i h0
    have hne : a.getD i 0 ≠ 0 := by
      intro hz
      apply h0
      have : (0 : ℝ) ∈ row.getD i (Itv.point 0) := hz ▸ hai
      exact Bwd.containsExt_z.2 this
    have := Itv.div_encl h hai hne
    rwa [mul_div_cancel_left₀ _ hne] at this

theorem inflSweepRows_sound {a : RMat} {A : IMat} (ha : MMem a A) :
    ∀ {bv : RVec} {B : IVec} {x : RVec} {X : IVec} (r : Nat), VMem bv B → VMem x X → Solves a bv x →
      VMem x (inflSweepRows r A B X) := by
  induction ha with
  | nil => intro bv B x X r _ hx _; simpa [inflSweepRows] using hx
  | cons h1 _ ih =>
    intro bv B x X r hb hx hs
    cases hs with
    | cons hs1 hs2 =>
      cases hb with
      | cons hb1 hb2 =>
        simp only [inflSweepRows]
        exact ih (r + 1) hb2 (inflRowStep_sound r h1 hb1 hx hs1) hs2

theorem inflIter_sound {a : RMat} {A : IMat} {bv : RVec} {B : IVec} {x : RVec}
    (ha : MMem a A) (hb : VMem bv B) (hs : Solves a bv x) :
    ∀ (k : Nat) {X : IVec}, VMem x X → VMem x (inflIter k A B X) := by
  intro k
  induction k with
  | zero => intro X hx; simpa [inflIter] using hx
  | succ k ih => intro X hx; exact ih (inflSweepRows_sound ha 0 hb hx hs)


/-- acceptance for the inflating variant: the implementation's box contains SOME model iterate -/
theorem inflOk_sound {a : RMat} {A : IMat} {bv : RVec} {B : IVec} {x : RVec} {impl : IVec}
    (ha : MMem a A) (hb : VMem bv B) (hs : Solves a bv x) :
    ∀ (fuel : Nat) {X : IVec}, VMem x X → inflOk fuel A B X impl = true → VMem x impl := by
  intro fuel
  induction fuel with
  | zero => intro X hx h; exact hx.of_subset (by simpa [inflOk] using h)
  | succ f ih =>
    intro X hx h
    simp only [inflOk, Bool.or_eq_true] at h
    rcases h with h | h
    · exact hx.of_subset h
    · exact ih (inflSweepRows_sound ha 0 hb hx hs) h

/-! ### transfer along the structural inclusion checks -/

theorem VMem.of_vecSubset {x : RVec} {X Y : IVec} (h : VMem x X) (hs : vecSubset X Y = true) : VMem x Y := by
  induction h generalizing Y with
  | nil =>
    cases Y with
    | nil => exact List.Forall₂.nil
    | cons _ _ => simp [vecSubset] at hs
  | cons h1 _ ih =>
    cases Y with
    | nil => simp [vecSubset] at hs
    | cons J Js =>
      simp only [vecSubset, Bool.and_eq_true] at hs
      exact List.Forall₂.cons (Itv.mem_of_subset hs.1 h1) (ih hs.2)

theorem MMem.of_matSubset {a : RMat} {A B : IMat} (h : MMem a A) (hs : matSubset A B = true) : MMem a B := by
  induction h generalizing B with
  | nil =>
    cases B with
    | nil => exact List.Forall₂.nil
    | cons _ _ => simp [matSubset] at hs
  | cons h1 _ ih =>
    cases B with
    | nil => simp [matSubset] at hs
    | cons J Js =>
      simp only [matSubset, Bool.and_eq_true] at hs
      exact List.Forall₂.cons (VMem.of_vecSubset h1 hs.1) (ih hs.2)

/-! ### preconditioning: `C·a·x = C·b` and the interval products enclose `C·a`, `C·b` -/

/-- the rational list as real numbers -/
def castV (c : List Rat) : List ℝ := List.map (fun (q : Rat) => (q : ℝ)) c

def colR (a : RMat) (j : Nat) : RVec := a.map (·.getD j 0)

/-- `C · a` for `a` with `n` columns -/
def mulRR (n : Nat) (C : List (List ℝ)) (a : RMat) : RMat :=
  C.map fun c => (List.range n).map fun j => dotR c (colR a j)

def mulRV (C : List (List ℝ)) (b : RVec) : RVec := C.map fun c => dotR c b

theorem dotCI_encl : ∀ (c : List Rat) {a : RVec} {X : IVec}, VMem a X → ∀ {acc : ℝ} {Acc : Itv}, acc ∈ Acc →
    acc + dotR (castV c) a ∈ dotCI c X Acc := by
  intro c
  induction c with
  | nil => intro a X _ acc Acc h; simpa [dotCI, castV] using h
  | cons c0 cs ih =>
    intro a X ha acc Acc h
    cases ha with
    | nil => simpa [dotCI, castV] using h
    | cons h1 h2 =>
      simp only [dotCI]
      have := ih h2 (Itv.add_encl h (Itv.mul_encl ((Bwd.mem_point (q := c0)).2 rfl) h1))
      simpa [castV, add_assoc] using this

theorem colR_mem {a : RMat} {A : IMat} (h : MMem a A) (j : Nat) : VMem (colR a j) (colI A j) := by
  induction h with
  | nil => exact List.Forall₂.nil
  | cons h1 _ ih => exact List.Forall₂.cons (h1.getD_point j) ih

theorem mulCI_encl (n : Nat) (C : QMat) {a : RMat} {A : IMat} (h : MMem a A) :
    MMem (mulRR n (C.map castV) a) (mulCI n C A) := by
  unfold mulRR mulCI MMem
  rw [List.forall₂_map_left_iff, List.forall₂_map_left_iff, List.forall₂_map_right_iff, List.forall₂_same]
  intro c _
  unfold VMem
  rw [List.forall₂_map_left_iff, List.forall₂_map_right_iff, List.forall₂_same]
  intro j _
  have := dotCI_encl c (colR_mem h j) (acc := 0) (Acc := Itv.point 0) (Bwd.mem_point.2 (by simp))
  simpa using this

theorem mulCV_encl (C : QMat) {b : RVec} {B : IVec} (h : VMem b B) :
    VMem (mulRV (C.map castV) b) (mulCV C B) := by
  unfold mulRV mulCV VMem
  rw [List.forall₂_map_left_iff, List.forall₂_map_left_iff, List.forall₂_map_right_iff, List.forall₂_same]
  intro c _
  have := dotCI_encl c h (acc := 0) (Acc := Itv.point 0) (Bwd.mem_point.2 (by simp))
  simpa using this

theorem dotR_map_add (u v : Nat → ℝ) : ∀ (l : List Nat) (x : List ℝ),
    dotR (l.map fun j => u j + v j) x = dotR (l.map u) x + dotR (l.map v) x := by
  intro l
  induction l with
  | nil => intro x; simp
  | cons j l ih =>
    intro x
    cases x with
    | nil => simp
    | cons x0 xs => simp only [List.map_cons, dotR_cons, ih]; ring

theorem dotR_map_mul (c : ℝ) (u : Nat → ℝ) : ∀ (l : List Nat) (x : List ℝ),
    dotR (l.map fun j => c * u j) x = c * dotR (l.map u) x := by
  intro l
  induction l with
  | nil => intro x; simp
  | cons j l ih =>
    intro x
    cases x with
    | nil => simp
    | cons x0 xs => simp only [List.map_cons, dotR_cons, ih]; ring

@[simp] theorem dotR_replicate_zero : ∀ (n : Nat) (x : List ℝ), dotR (List.replicate n (0 : ℝ)) x = 0 := by
  intro n
  induction n with
  | zero => intro x; simp
  | succ n ih =>
    intro x
    cases x with
    | nil => simp
    | cons x0 xs => simp [List.replicate_succ, ih]

theorem range_map_getD (r : List ℝ) : (List.range r.length).map (fun j => r.getD j 0) = r := by
  apply List.ext_getElem
  · simp
  · intro i h1 h2
    simp only [List.length_map, List.length_range] at h1
    simp [List.getD_eq_getElem?_getD, h1]

/-- `(cᵀ a)·x = cᵀ (a·x)` for a matrix whose rows all have length `n` -/
theorem dotR_mulRow (n : Nat) (x : RVec) : ∀ (c : List ℝ) (a : RMat), (∀ r ∈ a, r.length = n) →
    dotR ((List.range n).map fun j => dotR c (colR a j)) x = dotR c (a.map fun r => dotR r x) := by
  intro c
  induction c with
  | nil => intro a _; simp
  | cons c0 cs ih =>
    intro a ha
    cases a with
    | nil => simp [colR]
    | cons r0 rs =>
      have h0 : r0.length = n := ha r0 (by simp)
      have hrs : ∀ r ∈ rs, r.length = n := fun r hr => ha r (by simp [hr])
      have : (fun j => dotR (c0 :: cs) (colR (r0 :: rs) j)) =
          fun j => c0 * r0.getD j 0 + dotR cs (colR rs j) := by
        funext j; simp [colR]
      rw [this, dotR_map_add, dotR_map_mul, ih rs hrs]
      subst h0
      rw [range_map_getD]
      simp

theorem Solves.eq_map {a : RMat} {b x : RVec} (h : Solves a b x) : b = a.map fun r => dotR r x := by
  induction h with
  | nil => rfl
  | cons h1 _ ih => simp [← h1, ← ih]

/-- **preconditioning keeps every solution**: for ANY real matrix `C`, `a·x = b` implies `(C·a)·x = C·b` -/
theorem precond_real (n : Nat) (C : List (List ℝ)) {a : RMat} {b x : RVec} (hn : ∀ r ∈ a, r.length = n)
    (h : Solves a b x) : Solves (mulRR n C a) (mulRV C b) x := by
  unfold Solves mulRR mulRV
  rw [List.forall₂_map_left_iff, List.forall₂_map_right_iff, List.forall₂_same]
  intro c _
  rw [dotR_mulRow n x c a hn, h.eq_map]

theorem MMem.row_length {a : RMat} {A : IMat} (h : MMem a A) {n : Nat} (hn : ∀ R ∈ A, R.length = n) :
    ∀ r ∈ a, r.length = n := by
  induction h with
  | nil => intro r hr; simp at hr
  | @cons r R _ _ h1 _ ih =>
    intro r' hr'
    rcases List.mem_cons.1 hr' with rfl | h'
    · rw [VMem.length_eq h1]; exact hn R (by simp)
    · exact ih (fun R' hR' => hn R' (by simp [hR'])) r' h'

/-- **acceptance of a preconditioned system**: if `(A', b')` encloses the model products `C·[A]`, `C·[b]`
    for some rational matrix `C`, every solution `x` of an instance `(a, b)` of `([A],[b])` solves an
    instance `(a', b')` of `([A'],[b'])`. -/
theorem precondOk_sound {n : Nat} {C : QMat} {A A' : IMat} {B B' : IVec} (hn : ∀ R ∈ A, R.length = n)
    (hok : precondOk n C A B A' B' = true) {a : RMat} {b x : RVec}
    (ha : MMem a A) (hb : VMem b B) (hs : Solves a b x) :
    ∃ a' b', MMem a' A' ∧ VMem b' B' ∧ Solves a' b' x := by
  simp only [precondOk, Bool.and_eq_true] at hok
  exact ⟨mulRR n (C.map castV) a, mulRV (C.map castV) b,
    (mulCI_encl n C ha).of_matSubset hok.1, (mulCV_encl C hb).of_vecSubset hok.2,
    precond_real n _ (ha.row_length hn) hs⟩

/-! ### exact membership in the united solution set -/

theorem rowRange_encl : ∀ {a : RVec} {row : IVec}, VMem a row → ∀ (x : List Rat) {acc : ℝ} {Acc : Itv}, acc ∈ Acc →
    acc + dotR a (castV x) ∈ rowRange row x Acc := by
  intro a row ha
  induction ha with
  | nil => intro x acc Acc h; simpa [rowRange] using h
  | cons h1 _ ih =>
    intro x acc Acc h
    cases x with
    | nil => simpa [rowRange, castV] using h
    | cons x0 xs =>
      simp only [rowRange]
      have := ih xs (Itv.addG_encl Rnd.exact_sound h (Itv.mulG_encl Rnd.exact_sound h1 ((Bwd.mem_point (q := x0)).2 rfl)))
      simpa [castV, add_assoc] using this

/-- a rational point that solves some instance of `([A],[b])` passes the Oettli–Prager test: a point
    REJECTED by `sigmaMem` is a solution of no instance. -/
theorem sigmaMem_of_solution {A : IMat} {B : IVec} {x : List Rat} {a : RMat} {b : RVec}
    (ha : MMem a A) (hb : VMem b B) (hs : Solves a b (castV x)) : sigmaMem A B x = true := by
  induction ha generalizing b B with
  | nil =>
    cases hs with
    | nil => cases hb with | nil => rfl
  | cons h1 _ ih =>
    cases hs with
    | cons hs1 hs2 =>
      cases hb with
      | cons hb1 hb2 =>
        simp only [sigmaMem, Bool.and_eq_true]
        refine ⟨?_, ih hb2 hs2⟩
        have := rowRange_encl h1 x (acc := 0) (Acc := Itv.point 0) (Bwd.mem_point.2 (by simp))
        rw [zero_add, hs1] at this
        exact Itv.intersects_of_mem this hb1


/-! ### strict diagonal dominance -/

/-- `Σ_{j ≠ i} |a_j|` (columns counted from `k`) -/
def offAbsR (i : Nat) : Nat → List ℝ → ℝ
  | k, a :: as => (if k = i then 0 else |a|) + offAbsR i (k + 1) as
  | _, [] => 0

/-- every row `i, i+1, …` is strictly dominated by its diagonal entry -/
def SDDRows : Nat → RMat → Prop
  | i, row :: rows => offAbsR i 0 row < |row.getD i 0| ∧ SDDRows (i + 1) rows
  | _, [] => True

theorem abs_le_magE {v : ℝ} {I : Itv} (h : v ∈ I) : ((|v| : ℝ) : EReal) ≤ (magE I).toE := by
  cases I with
  | empty => exact absurd h (Itv.not_mem_empty v)
  | mk a b =>
    obtain ⟨h1, h2⟩ := h
    simp only [magE, Ext.toE_max, Ext.toE_neg]
    rcases abs_cases v with ⟨hv, _⟩ | ⟨hv, _⟩
    · rw [hv]; exact le_max_of_le_right h2
    · rw [hv]
      refine le_max_of_le_left ?_
      rw [EReal.coe_neg]
      exact EReal.neg_le_neg_iff.2 h1

theorem migE_le_abs {v : ℝ} {I : Itv} (h : v ∈ I) : (migE I).toE ≤ ((|v| : ℝ) : EReal) := by
  cases I with
  | empty => exact absurd h (Itv.not_mem_empty v)
  | mk a b =>
    obtain ⟨h1, h2⟩ := h
    simp only [migE]
    split
    · exact le_trans h1 (EReal.coe_le_coe_iff.2 (le_abs_self v))
    · split
      · rw [Ext.toE_neg]
        have : -b.toE ≤ ((-v : ℝ) : EReal) := by
          rw [EReal.coe_neg]; exact EReal.neg_le_neg_iff.2 h2
        exact le_trans this (EReal.coe_le_coe_iff.2 (neg_le_abs v))
      · simp only [Ext.toE_fin, Rat.cast_zero, EReal.coe_le_coe_iff]
        exact abs_nonneg v

theorem addE_toE (a b : Ext) : (addE a b).toE = a.toE + b.toE := by
  cases a <;> cases b <;> simp [addE, EReal.coe_add]

theorem offAbs_le (i : Nat) {a : RVec} {A : IVec} (h : VMem a A) :
    ∀ k, ((offAbsR i k a : ℝ) : EReal) ≤ (offMag i k A).toE := by
  induction h with
  | nil => intro k; simp [offAbsR, offMag]
  | cons h1 _ ih =>
    intro k
    simp only [offAbsR, offMag]
    split
    · simpa using ih (k + 1)
    · rw [addE_toE, EReal.coe_add]
      exact add_le_add (abs_le_magE h1) (ih (k + 1))

/-- **diagonal-dominance certificate**: if the exact test `Σ_{j≠i} mag([A]_ij) < mig([A]_ii)` holds for
    every row, every real matrix inside `[A]` is strictly diagonally dominant by rows. -/
theorem ddRows_sound {a : RMat} {A : IMat} (h : MMem a A) : ∀ i, ddRows i A = true → SDDRows i a := by
  induction h with
  | nil => intro i _; trivial
  | cons h1 _ ih =>
    intro i hd
    simp only [ddRows, Bool.and_eq_true] at hd
    refine ⟨?_, ih (i + 1) hd.2⟩
    have hlt := (Ext.lt_iff _ _).1 hd.1
    have h3 := lt_of_lt_of_le (lt_of_le_of_lt (offAbs_le i h1 0) hlt) (migE_le_abs (h1.getD_point i))
    exact EReal.coe_lt_coe_iff.1 h3


/-! ### the Boolean membership tests of the driver are exact -/

theorem ratIn_iff {q : Rat} {I : Itv} : ratIn q I = true ↔ (q : ℝ) ∈ I := Bwd.containsExt_fin

theorem vecIn_iff : ∀ {q : QVec} {X : IVec}, vecIn q X = true ↔ VMem (castV q) X := by
  intro q
  induction q with
  | nil =>
    intro X
    cases X with
    | nil => simp [vecIn, castV, VMem]
    | cons _ _ => simp [vecIn, castV, VMem]
  | cons q0 qs ih =>
    intro X
    cases X with
    | nil => simp [vecIn, castV, VMem]
    | cons I Is =>
      simp only [vecIn, Bool.and_eq_true, ratIn_iff, ih, castV, VMem, List.map_cons, List.forall₂_cons]

/-- the list of real rows of a list of rational rows -/
def castM (V : QMat) : RMat := V.map castV

theorem matIn_iff : ∀ {q : QMat} {A : IMat}, matIn q A = true ↔ MMem (castM q) A := by
  intro q
  induction q with
  | nil =>
    intro A
    cases A with
    | nil => simp [matIn, castM, MMem]
    | cons _ _ => simp [matIn, castM, MMem]
  | cons q0 qs ih =>
    intro A
    cases A with
    | nil => simp [matIn, castM, MMem]
    | cons I Is =>
      simp only [matIn, Bool.and_eq_true, vecIn_iff, ih, castM, MMem, List.map_cons, List.forall₂_cons]

theorem dotQ_cast : ∀ (u v : List Rat), ((dotQ u v : Rat) : ℝ) = dotR (castV u) (castV v) := by
  intro u
  induction u with
  | nil => intro v; simp [dotQ, castV]
  | cons u0 us ih =>
    intro v
    cases v with
    | nil => simp [dotQ, castV]
    | cons v0 vs =>
      have := ih vs
      simp only [castV] at this
      simp [dotQ, castV, this]

/-- the right-hand side recomputed by the driver is exact: `A_k · x_k = b_k` over the reals -/
theorem solves_mulVecQ (A : QMat) (x : QVec) : Solves (castM A) (castV (mulVecQ A x)) (castV x) := by
  unfold Solves castM mulVecQ
  induction A with
  | nil => simp [castV]
  | cons r rs ih =>
    simp only [List.map_cons, castV, List.forall₂_cons]
    refine ⟨?_, ?_⟩
    · have := dotQ_cast r x
      simp only [castV] at this
      exact this.symm
    · simpa [castV] using ih


/-! ### sub-matrices -/

/-- rows `rs` and columns `cs` of a real matrix (a missing entry is 0) -/
def subR (rs cs : List Nat) (a : RMat) : RMat := rs.map fun i => pickV (0 : ℝ) cs (a.getD i [])

theorem MMem.getD_nil {a : RMat} {A : IMat} (h : MMem a A) (i : Nat) : VMem (a.getD i []) (A.getD i []) := by
  induction h generalizing i with
  | nil => simp only [List.getD_nil]; exact List.Forall₂.nil
  | cons h1 _ ih =>
    cases i with
    | zero => simpa using h1
    | succ i => simpa using ih i

/-- a real matrix of `[A]` restricted to some rows and columns lies in the restricted interval matrix -/
theorem MMem.sub {a : RMat} {A : IMat} (h : MMem a A) (rs cs : List Nat) : MMem (subR rs cs a) (subI rs cs A) := by
  unfold subR subI MMem
  rw [List.forall₂_map_left_iff, List.forall₂_map_right_iff, List.forall₂_same]
  intro i _
  unfold pickV VMem
  rw [List.forall₂_map_left_iff, List.forall₂_map_right_iff, List.forall₂_same]
  intro j _
  exact (h.getD_nil i).getD_point j

end Ibex.LinAlg
