/-
  Soundness of the optimizer's cover certificate (`IbexModel/OptCover.lean`), by induction over the event list
  (no bound on the length of the log, on the number of cells, on the dimension).
-/
import IbexModel.OptCover
import IbexProofs.Cover

namespace Ibex.OptCover
open Ibex Ibex.Cover

/-- the goal coordinate of the point is below the threshold -/
def Below (g : Nat) (U : Ext) (p : List ℝ) : Prop := ∃ t : ℝ, p[g]? = some t ∧ ((t : ℝ) : EReal) < U.toE

theorem keeps_sound {g : Nat} {U : Ext} {e f : Box} (h : keeps g U e f = true) {p : List ℝ}
    (hp : Box.Mem p e) (hb : Below g U p) : Box.Mem p f := by
  simp only [keeps, Bool.and_eq_true, beq_iff_eq, List.all_eq_true, List.mem_range] at h
  obtain ⟨hlen, hall⟩ := h
  obtain ⟨hpl, hpe⟩ := Box.mem_iff.1 hp
  refine Box.mem_iff.2 ⟨hpl.trans hlen, fun i t I hpi hfi => ?_⟩
  have hi : i < e.length := by
    have := (List.getElem?_eq_some_iff.1 hfi).1
    omega
  obtain ⟨ej, hei⟩ : ∃ ej, e[i]? = some ej := ⟨_, List.getElem?_eq_getElem hi⟩
  have hte : t ∈ ej := hpe i t _ hpi hei
  have := hall i hi
  rw [hei, hfi] at this
  simp only at this
  split_ifs at this with hig
  · -- the goal coordinate
    subst hig
    cases ej with
    | empty => simp at this
    | mk a b =>
      cases I with
      | empty => simp at this
      | mk c d =>
        simp only [Bool.and_eq_true, Bool.or_eq_true, Ext.le_iff] at this
        rw [Itv.mem_mk] at hte ⊢
        refine ⟨le_trans this.1 hte.1, ?_⟩
        rcases this.2 with h2 | h2
        · exact le_trans hte.2 h2
        · obtain ⟨t', ht', hlt⟩ := hb
          rw [hpi] at ht'
          cases ht'
          exact le_trans (le_of_lt hlt) h2
  · exact Itv.mem_of_subset this hte

theorem droppable_sound {g : Nat} {U : Ext} {e : Box} (h : droppable g U e = true) {p : List ℝ}
    (hp : Box.Mem p e) : ¬ Below g U p := by
  rintro ⟨t, ht, hlt⟩
  simp only [droppable, Bool.or_eq_true] at h
  rcases h with h | h
  · exact Box.not_mem_of_isEmpty h hp
  · split at h
    · rename_i a b heg
      rw [Ext.le_iff] at h
      have := (Box.mem_iff.1 hp).2 g t _ ht heg
      rw [Itv.mem_mk] at this
      exact absurd (lt_of_lt_of_le hlt (le_trans h this.1)) (lt_irrefl _)
    · cases h

theorem replaceFirst_spec {pr : Box → Bool} {new : Box} : ∀ {l l' : List Box}, replaceFirst pr new l = some l' →
    ∃ e, pr e = true ∧ new ∈ l' ∧ ∀ x ∈ l, x = e ∨ x ∈ l'
  | [], _, h => by simp [replaceFirst] at h
  | y :: ys, l', h => by
    simp only [replaceFirst] at h
    split_ifs at h with hy
    · simp only [Option.some.injEq] at h
      subst h
      refine ⟨y, hy, List.mem_cons_self .., fun x hx => ?_⟩
      rcases List.mem_cons.1 hx with rfl | hx
      · exact Or.inl rfl
      · exact Or.inr (List.mem_cons_of_mem _ hx)
    · simp only [Option.map_eq_some_iff] at h
      obtain ⟨r, hr, rfl⟩ := h
      obtain ⟨e, he, hn, hall⟩ := replaceFirst_spec hr
      refine ⟨e, he, List.mem_cons_of_mem _ hn, fun x hx => ?_⟩
      rcases List.mem_cons.1 hx with rfl | hx
      · exact Or.inr (List.mem_cons_self ..)
      · rcases hall x hx with h | h
        · exact Or.inl h
        · exact Or.inr (List.mem_cons_of_mem _ h)

theorem removeFirst_spec {pr : Box → Bool} : ∀ {l l' : List Box}, removeFirst pr l = some l' →
    ∃ e, pr e = true ∧ ∀ x ∈ l, x = e ∨ x ∈ l'
  | [], _, h => by simp [removeFirst] at h
  | y :: ys, l', h => by
    simp only [removeFirst] at h
    split_ifs at h with hy
    · simp only [Option.some.injEq] at h
      subst h
      refine ⟨y, hy, fun x hx => ?_⟩
      rcases List.mem_cons.1 hx with rfl | hx
      · exact Or.inl rfl
      · exact Or.inr hx
    · simp only [Option.map_eq_some_iff] at h
      obtain ⟨r, hr, rfl⟩ := h
      obtain ⟨e, he, hall⟩ := removeFirst_spec hr
      refine ⟨e, he, fun x hx => ?_⟩
      rcases List.mem_cons.1 hx with rfl | hx
      · exact Or.inr (List.mem_cons_self ..)
      · rcases hall x hx with h | h
        · exact Or.inl h
        · exact Or.inr (List.mem_cons_of_mem _ h)

variable {Sol : Set (List ℝ)} {g : Nat} {U : Ext} {root : Box}

/-- every point of `Sol` inside the root is in a cell of the buffer or in a box being handled -/
def Inv (Sol : Set (List ℝ)) (root : Box) (s : St) : Prop :=
  ∀ p ∈ Sol, Box.Mem p root → (∃ b ∈ s.opn, Box.Mem p b) ∨ (∃ e ∈ s.pending, Box.Mem p e)

theorem step_inv (hSol : ∀ p ∈ Sol, Below g U p) {s s' : St} {ev : Ev} (hI : Inv Sol root s)
    (hleaf : ∀ i o, ev = .ctc i o → ∀ p ∈ Sol, Box.Mem p i → Box.Mem p o)
    (h : step g U s ev = .ok s') : Inv Sol root s' := by
  cases ev with
  | top c =>
    simp only [step] at h
    split_ifs at h with hd
    split at h
    · rename_i rest hrm
      injection h with h
      subst h
      intro p hp hr
      rcases hI p hp hr with ⟨b, hb, hm⟩ | ⟨e, he, hm⟩
      · rcases mem_of_removeOne hrm b hb with rfl | hb'
        · exact Or.inr ⟨b, List.mem_singleton.2 rfl, hm⟩
        · exact Or.inl ⟨b, hb', hm⟩
      · exfalso
        have hdr : droppable g U e = true := by
          have := hd
          simp only [Bool.not_eq_true, Bool.not_eq_false'] at this
          exact List.all_eq_true.1 (by simpa using this) e he
        exact droppable_sound hdr hm (hSol p hp)
    · cases h
  | bis l r =>
    simp only [step] at h
    split at h
    · rename_i c hpd
      split_ifs at h with hsp
      injection h with h
      subst h
      intro p hp hr
      rcases hI p hp hr with hb | ⟨e, he, hm⟩
      · exact Or.inl hb
      · rw [hpd, List.mem_singleton] at he
        subst he
        rcases split2Ok_sound hsp hm with h1 | h1
        · exact Or.inr ⟨l, List.mem_cons_self .., h1⟩
        · exact Or.inr ⟨r, List.mem_cons_of_mem _ (List.mem_cons_self ..), h1⟩
    · cases h
  | pop c =>
    simp only [step] at h
    injection h with h
    exact h ▸ hI
  | ctc i o =>
    simp only [step] at h
    split_ifs at h with hsub
    split at h
    · rename_i pd hrf
      injection h with h
      subst h
      obtain ⟨e, hme, hnew, hall⟩ := replaceFirst_spec hrf
      intro p hp hr
      rcases hI p hp hr with hb | ⟨x, hx, hm⟩
      · exact Or.inl hb
      · rcases hall x hx with rfl | hx'
        · simp only [pairs, Bool.and_eq_true] at hme
          have hin := keeps_sound hme.2 hm (hSol p hp)
          exact Or.inr ⟨o, hnew, hleaf i o rfl p hp hin⟩
        · exact Or.inr ⟨x, hx', hm⟩
    · injection h with h
      exact h ▸ hI
  | push f =>
    simp only [step] at h
    split at h
    · rename_i pd hrf
      injection h with h
      subst h
      obtain ⟨e, hme, hall⟩ := removeFirst_spec hrf
      intro p hp hr
      rcases hI p hp hr with ⟨b, hb, hm⟩ | ⟨x, hx, hm⟩
      · exact Or.inl ⟨b, List.mem_cons_of_mem _ hb, hm⟩
      · rcases hall x hx with rfl | hx'
        · simp only [pairs, Bool.and_eq_true] at hme
          exact Or.inl ⟨f, List.mem_cons_self .., keeps_sound hme.2 hm (hSol p hp)⟩
        · exact Or.inr ⟨x, hx', hm⟩
    · cases h

theorem foldlM_inv (hSol : ∀ p ∈ Sol, Below g U p) : ∀ (log : List Ev) {s s' : St}, Inv Sol root s →
    (∀ i o, Ev.ctc i o ∈ log → ∀ p ∈ Sol, Box.Mem p i → Box.Mem p o) →
    log.foldlM (step g U) s = .ok s' → Inv Sol root s'
  | [], s, s', hI, _, h => by
    simp only [List.foldlM_nil, pure, Except.pure] at h
    injection h with h
    exact h ▸ hI
  | e :: es, s, s', hI, hleaf, h => by
    simp only [List.foldlM_cons, bind, Except.bind] at h
    cases hs : step g U s e with
    | error m => rw [hs] at h; cases h
    | ok s1 =>
      rw [hs] at h
      exact foldlM_inv hSol es
        (step_inv hSol hI (fun i o he => hleaf i o (he ▸ List.mem_cons_self ..)) hs)
        (fun i o he => hleaf i o (List.mem_cons_of_mem _ he)) h

/-- **Soundness of the optimizer's cover certificate.**  `Sol` is any set of points whose goal coordinate is below
    `U` and that every logged contraction keeps.  If the log is accepted, no point of `Sol` lies in the root box. -/
theorem check_sound (hSol : ∀ p ∈ Sol, Below g U p) {log : List Ev}
    (hacc : checkOk g U root log = true)
    (hleaf : ∀ i o, Ev.ctc i o ∈ log → ∀ p ∈ Sol, Box.Mem p i → Box.Mem p o) :
    ∀ p ∈ Sol, ¬ Box.Mem p root := by
  intro p hp hr
  unfold checkOk at hacc
  split at hacc
  · rename_i u hchk
    simp only [check, bind, Except.bind] at hchk
    cases h1 : log.foldlM (step g U) ⟨[], [root]⟩ with
    | error m => rw [h1] at hchk; cases hchk
    | ok s1 =>
      rw [h1] at hchk
      simp only at hchk
      split_ifs at hchk with hpd hop
      have hI0 : Inv Sol root ⟨[], [root]⟩ := fun q _ hq => Or.inr ⟨root, List.mem_singleton.2 rfl, hq⟩
      have hI := foldlM_inv hSol log hI0 hleaf h1
      rcases hI p hp hr with ⟨b, hb, hm⟩ | ⟨e, he, hm⟩
      · have : droppable g U b = true := by
          simp only [Bool.not_eq_true, Bool.not_eq_false'] at hop
          exact List.all_eq_true.1 (by simpa using hop) b hb
        exact droppable_sound this hm (hSol p hp)
      · have : droppable g U e = true := by
          simp only [Bool.not_eq_true, Bool.not_eq_false'] at hpd
          exact List.all_eq_true.1 (by simpa using hpd) e he
        exact droppable_sound this hm (hSol p hp)
  · cases hacc

end Ibex.OptCover
