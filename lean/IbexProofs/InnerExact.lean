/-
  C14 — the exact range of `+ − * sqr /` over BOUNDED intervals is the hull of the corner values
  computed without rounding (`Rnd.exact`): every value between the bounds is attained
  (intermediate value theorem on the box, the bounds being values at corners).  Together with the
  enclosure lemmas of `ArithG.lean` this gives `z ∈ hull ↔ z is a value`, i.e. the operators
  `Itv.addG Rnd.exact …` used by the checkers ARE the exact ranges.  (For unbounded intervals the
  range need not be closed — e.g. `[1,2]/[1,+∞) = (0,2]` — and the forward checker works with
  explicit witnesses instead, see `Inner.lean`.)
-/
import IbexProofs.InnerBwd

namespace Ibex
namespace Inner
open Ibex

/-- a bounded non-empty interval -/
def bnd (a b : ℚ) : Itv := .mk (.fin a) (.fin b)

theorem mem_bnd {a b : ℚ} {x : ℝ} : x ∈ bnd a b ↔ (a : ℝ) ≤ x ∧ x ≤ (b : ℝ) := by
  simp [bnd, Itv.mem_mk]

theorem left_mem_bnd {a b : ℚ} (h : a ≤ b) : ((a : ℝ)) ∈ bnd a b :=
  mem_bnd.2 ⟨le_refl _, by exact_mod_cast h⟩
theorem right_mem_bnd {a b : ℚ} (h : a ≤ b) : ((b : ℝ)) ∈ bnd a b :=
  mem_bnd.2 ⟨by exact_mod_cast h, le_refl _⟩

theorem reg_of_mem {op : Op2} {X Y : Itv} {x y : ℝ} (hx : x ∈ X) (hy : y ∈ Y) (hop : op ≠ .divp) :
    (x, y) ∈ Reg op X Y := ⟨hx, hy, fun e => absurd e hop⟩

/-- **addition** -/
theorem range_exact_add {a b c d : ℚ} (hab : a ≤ b) (hcd : c ≤ d) (z : ℝ) :
    z ∈ Itv.addG Rnd.exact (bnd a b) (bnd c d) ↔ ∃ x y : ℝ, x ∈ bnd a b ∧ y ∈ bnd c d ∧ x + y = z := by
  constructor
  · intro hz
    simp only [Itv.addG, Itv.addLoG, Itv.addHiG, Rnd.exact, bnd, Itv.mem_mk, Ext.toE_fin,
      EReal.coe_le_coe_iff] at hz
    push_cast at hz
    have hz' := hz
    obtain ⟨p, hp, hv⟩ := reg_ivt (op := .add)
      (reg_of_mem (left_mem_bnd hab) (left_mem_bnd hcd) (by simp))
      (reg_of_mem (right_mem_bnd hab) (right_mem_bnd hcd) (by simp)) (z := z)
      (by have := hz'.1; simp only [Op2.evalR]; linarith) (by have := hz'.2; simp only [Op2.evalR]; linarith)
    exact ⟨p.1, p.2, hp.1, hp.2.1, hv⟩
  · rintro ⟨x, y, hx, hy, rfl⟩
    exact Itv.addG_encl Rnd.exact_sound hx hy

/-- **subtraction** -/
theorem range_exact_sub {a b c d : ℚ} (hab : a ≤ b) (hcd : c ≤ d) (z : ℝ) :
    z ∈ Itv.subG Rnd.exact (bnd a b) (bnd c d) ↔ ∃ x y : ℝ, x ∈ bnd a b ∧ y ∈ bnd c d ∧ x - y = z := by
  constructor
  · intro hz
    simp only [Itv.subG, Itv.addG, Itv.neg, Ext.neg, Itv.addLoG, Itv.addHiG, Rnd.exact, bnd, Itv.mem_mk,
      Ext.toE_fin, EReal.coe_le_coe_iff] at hz
    push_cast at hz
    have hz' := hz
    obtain ⟨p, hp, hv⟩ := reg_ivt (op := .sub)
      (reg_of_mem (left_mem_bnd hab) (right_mem_bnd hcd) (by simp))
      (reg_of_mem (right_mem_bnd hab) (left_mem_bnd hcd) (by simp)) (z := z)
      (by have := hz'.1; simp only [Op2.evalR]; linarith)
      (by have := hz'.2; simp only [Op2.evalR]; linarith)
    exact ⟨p.1, p.2, hp.1, hp.2.1, hv⟩
  · rintro ⟨x, y, hx, hy, rfl⟩
    exact Itv.subG_encl Rnd.exact_sound hx hy

theorem Ext.min_cases (p q : Ext) : Ext.min p q = p ∨ Ext.min p q = q := by
  unfold Ext.min; split <;> simp
theorem Ext.max_cases (p q : Ext) : Ext.max p q = p ∨ Ext.max p q = q := by
  unfold Ext.max; split <;> simp

theorem min4_cases (p q r s : Ext) :
    Itv.min4 p q r s = p ∨ Itv.min4 p q r s = q ∨ Itv.min4 p q r s = r ∨ Itv.min4 p q r s = s := by
  unfold Itv.min4
  rcases Ext.min_cases (Ext.min p q) (Ext.min r s) with h | h <;> rw [h]
  · rcases Ext.min_cases p q with h | h <;> simp [h]
  · rcases Ext.min_cases r s with h | h <;> simp [h]

theorem max4_cases (p q r s : Ext) :
    Itv.max4 p q r s = p ∨ Itv.max4 p q r s = q ∨ Itv.max4 p q r s = r ∨ Itv.max4 p q r s = s := by
  unfold Itv.max4
  rcases Ext.max_cases (Ext.max p q) (Ext.max r s) with h | h <;> rw [h]
  · rcases Ext.max_cases p q with h | h <;> simp [h]
  · rcases Ext.max_cases r s with h | h <;> simp [h]

/-- **multiplication** -/
theorem range_exact_mul {a b c d : ℚ} (hab : a ≤ b) (hcd : c ≤ d) (z : ℝ) :
    z ∈ Itv.mulG Rnd.exact (bnd a b) (bnd c d) ↔ ∃ x y : ℝ, x ∈ bnd a b ∧ y ∈ bnd c d ∧ x * y = z := by
  constructor
  · intro hz
    simp only [Itv.mulG, bnd, Rnd.exact, Itv.mulExt, Itv.mem_mk] at hz
    obtain ⟨hlo, hhi⟩ := hz
    have A := left_mem_bnd hab; have B := right_mem_bnd hab
    have C := left_mem_bnd hcd; have D := right_mem_bnd hcd
    -- a corner below z
    have hlow : ∃ p ∈ Reg .mul (bnd a b) (bnd c d), Op2.evalR .mul p.1 p.2 ≤ z := by
      rcases min4_cases (.fin (a * c)) (.fin (a * d)) (.fin (b * c)) (.fin (b * d)) with h | h | h | h <;>
        rw [h] at hlo <;> simp only [Ext.toE_fin, EReal.coe_le_coe_iff] at hlo <;> push_cast at hlo
      · exact ⟨(_, _), reg_of_mem A C (by simp), hlo⟩
      · exact ⟨(_, _), reg_of_mem A D (by simp), hlo⟩
      · exact ⟨(_, _), reg_of_mem B C (by simp), hlo⟩
      · exact ⟨(_, _), reg_of_mem B D (by simp), hlo⟩
    have hupp : ∃ p ∈ Reg .mul (bnd a b) (bnd c d), z ≤ Op2.evalR .mul p.1 p.2 := by
      rcases max4_cases (.fin (a * c)) (.fin (a * d)) (.fin (b * c)) (.fin (b * d)) with h | h | h | h <;>
        rw [h] at hhi <;> simp only [Ext.toE_fin, EReal.coe_le_coe_iff] at hhi <;> push_cast at hhi
      · exact ⟨(_, _), reg_of_mem A C (by simp), hhi⟩
      · exact ⟨(_, _), reg_of_mem A D (by simp), hhi⟩
      · exact ⟨(_, _), reg_of_mem B C (by simp), hhi⟩
      · exact ⟨(_, _), reg_of_mem B D (by simp), hhi⟩
    obtain ⟨p1, hp1, h1⟩ := hlow
    obtain ⟨p2, hp2, h2⟩ := hupp
    obtain ⟨p, hp, hv⟩ := reg_ivt hp1 hp2 h1 h2
    exact ⟨p.1, p.2, hp.1, hp.2.1, hv⟩
  · rintro ⟨x, y, hx, hy, rfl⟩
    exact Itv.mulG_encl Rnd.exact_sound hx hy

/-- **square** -/
theorem range_exact_sqr {a b : ℚ} (hab : a ≤ b) (z : ℝ) :
    z ∈ Itv.sqrG Rnd.exact (bnd a b) ↔ ∃ x : ℝ, x ∈ bnd a b ∧ x * x = z := by
  constructor
  · intro hz
    have A := left_mem_bnd hab; have B := right_mem_bnd hab
    have hpre : IsPreconnected {x : ℝ | x ∈ bnd a b} := (itv_set_ordConnected _).isPreconnected
    have hcont : ContinuousOn (fun x : ℝ => x * x) {x : ℝ | x ∈ bnd a b} :=
      (continuous_id.mul continuous_id).continuousOn
    have key : ∀ x1 x2 : ℝ, x1 ∈ bnd a b → x2 ∈ bnd a b → x1 * x1 ≤ z → z ≤ x2 * x2 →
        ∃ x : ℝ, x ∈ bnd a b ∧ x * x = z := by
      intro x1 x2 h1 h2 hz1 hz2
      obtain ⟨x, hx, hxz⟩ := hpre.intermediate_value h1 h2 hcont ⟨hz1, hz2⟩
      exact ⟨x, hx, hxz⟩
    simp only [Itv.sqrG, bnd, Rnd.exact, Itv.mulExt] at hz
    split at hz
    · -- 0 ≤ a
      simp only [Itv.mem_mk, Ext.toE_fin, EReal.coe_le_coe_iff] at hz
      push_cast at hz
      exact key _ _ A B hz.1 hz.2
    · split at hz
      · simp only [Itv.mem_mk, Ext.toE_fin, EReal.coe_le_coe_iff] at hz
        push_cast at hz
        exact key _ _ B A hz.1 hz.2
      · rename_i h1 h2
        -- a < 0 < b : 0 is in the interval
        have ha : a < 0 := by
          have := (Ext.le_iff (.fin 0) (.fin a)).not.1 (by simpa using h1)
          simpa using this
        have hb : 0 < b := by
          have := (Ext.le_iff (.fin b) (.fin 0)).not.1 (by simpa using h2)
          simpa using this
        have Z0 : (0 : ℝ) ∈ bnd a b := mem_bnd.2 ⟨by exact_mod_cast le_of_lt ha, by exact_mod_cast le_of_lt hb⟩
        obtain ⟨hz0, hzu⟩ := hz
        have hz0' : (0 : ℝ) ≤ z := by simpa using hz0
        rcases Ext.max_cases (.fin (a * a)) (.fin (b * b)) with h | h <;> rw [h] at hzu <;>
          simp only [Ext.toE_fin, EReal.coe_le_coe_iff] at hzu <;> push_cast at hzu
        · exact key 0 _ Z0 A (by simpa using hz0') hzu
        · exact key 0 _ Z0 B (by simpa using hz0') hzu
  · rintro ⟨x, hx, rfl⟩
    exact Itv.sqrG_encl Rnd.exact_sound hx

/-- **division by a positive interval** (`0 < c`) -/
theorem range_exact_div_pos {a b c d : ℚ} (hab : a ≤ b) (hc : 0 < c) (hcd : c ≤ d) (z : ℝ) :
    z ∈ Itv.divG Rnd.exact (bnd a b) (bnd c d) ↔
      ∃ x y : ℝ, x ∈ bnd a b ∧ y ∈ bnd c d ∧ y ≠ 0 ∧ x / y = z := by
  have hcpos : (0 : ℝ) < (c : ℝ) := by exact_mod_cast hc
  have hdpos : (0 : ℝ) < (d : ℝ) := lt_of_lt_of_le hcpos (by exact_mod_cast hcd)
  constructor
  · intro hz
    have A := left_mem_bnd hab; have B := right_mem_bnd hab
    have C := left_mem_bnd hcd; have D := right_mem_bnd hcd
    have regp : ∀ {x y : ℝ}, x ∈ bnd a b → y ∈ bnd c d → (x, y) ∈ Reg .divp (bnd a b) (bnd c d) := by
      intro x y hx hy
      exact ⟨hx, hy, fun _ => lt_of_lt_of_le hcpos (mem_bnd.1 hy).1⟩
    have hlt : Ext.lt (.fin 0) (.fin c) = true := (Ext.lt_iff _ _).2 (by simpa using hcpos)
    have hne : ((Ext.fin c == Ext.fin 0) && (Ext.fin d == Ext.fin 0)) = false := by
      have : c ≠ 0 := ne_of_gt hc
      simp [this]
    simp only [Itv.divG, bnd, hne, hlt, Bool.false_eq_true, ↓reduceIte, Itv.divPosG, Rnd.exact, Itv.divExt,
      Itv.mem_mk] at hz
    obtain ⟨hlo, hhi⟩ := hz
    have hlow : ∃ p ∈ Reg .divp (bnd a b) (bnd c d), Op2.evalR .divp p.1 p.2 ≤ z := by
      split at hlo <;> simp only [Ext.toE_fin, EReal.coe_le_coe_iff] at hlo <;> push_cast at hlo
      · exact ⟨(_, _), regp A D, hlo⟩
      · exact ⟨(_, _), regp A C, hlo⟩
    have hupp : ∃ p ∈ Reg .divp (bnd a b) (bnd c d), z ≤ Op2.evalR .divp p.1 p.2 := by
      split at hhi <;> simp only [Ext.toE_fin, EReal.coe_le_coe_iff] at hhi <;> push_cast at hhi
      · exact ⟨(_, _), regp B C, hhi⟩
      · exact ⟨(_, _), regp B D, hhi⟩
    obtain ⟨p1, hp1, h1⟩ := hlow
    obtain ⟨p2, hp2, h2⟩ := hupp
    obtain ⟨p, hp, hv⟩ := reg_ivt hp1 hp2 h1 h2
    exact ⟨p.1, p.2, hp.1, hp.2.1, ne_of_gt (hp.2.2 rfl), hv⟩
  · rintro ⟨x, y, hx, hy, hy0, rfl⟩
    exact Itv.divG_encl Rnd.exact_sound hx hy hy0

end Inner
end Ibex
