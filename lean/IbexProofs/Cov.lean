/-
  C18 (first half) — codec lemmas for the COV file format model (`IbexModel/Cov.lean`).
  For every field / layer parser `p` with encoder `enc`:
    Sound    p enc      : p bs = ok (a, r) → bs = enc a ++ r          (what is accepted is the encoding of what is returned)
    Complete p enc wf   : wf a → p (enc a ++ r) = ok (a, r)           (well-formed content is read back identically)
  No Mathlib. No bound on sizes (induction on lists / counts).
-/
import IbexModel.Cov

namespace Ibex.Cov
open P

def Sound (p : P α) (enc : α → Bytes) : Prop :=
  ∀ bs a r, p bs = .ok (a, r) → bs = enc a ++ r

def Complete (p : P α) (enc : α → Bytes) (wf : α → Prop) : Prop :=
  ∀ a r, wf a → p (enc a ++ r) = .ok (a, r)

/-! ## the parser monad -/

theorem pure_apply (a : α) (bs : Bytes) : (pure a : P α) bs = .ok (a, bs) := rfl

theorem bind_apply (p : P α) (f : α → P β) (bs : Bytes) :
    (p >>= f) bs = match p bs with
      | .error e => .error e
      | .ok (a, r) => f a r := rfl

theorem bind_ok {p : P α} {f : α → P β} {bs : Bytes} {b : β} {r : Bytes} :
    (p >>= f) bs = .ok (b, r) ↔ ∃ a r', p bs = .ok (a, r') ∧ f a r' = .ok (b, r) := by
  rw [bind_apply]
  cases h : p bs with
  | error e => simp
  | ok x =>
    obtain ⟨a, r'⟩ := x
    constructor
    · intro h2; exact ⟨a, r', rfl, h2⟩
    · rintro ⟨a2, r2, h1, h2⟩
      simp only [Except.ok.injEq, Prod.mk.injEq] at h1
      obtain ⟨rfl, rfl⟩ := h1
      exact h2

theorem bind_of_ok {p : P α} {f : α → P β} {bs : Bytes} {a : α} {r' : Bytes}
    (h : p bs = .ok (a, r')) : (p >>= f) bs = f a r' := by
  rw [bind_apply, h]

theorem pure_ok {a b : α} {bs r : Bytes} : (pure a : P α) bs = .ok (b, r) ↔ a = b ∧ bs = r := by
  rw [pure_apply]; simp

theorem check_ok {c : Bool} {e : CovErr} {bs r : Bytes} {u : Unit} :
    check c e bs = .ok (u, r) ↔ c = true ∧ bs = r := by
  unfold check; cases c <;> simp

theorem check_true {e : CovErr} (bs : Bytes) : check true e bs = .ok ((), bs) := rfl

/-! ## fixed-width little-endian fields -/

theorem splitN_some {k : Nat} {bs h r : Bytes} (hs : splitN k bs = some (h, r)) :
    bs = h ++ r ∧ h.length = k := by
  induction k generalizing bs h r with
  | zero => simp [splitN] at hs; obtain ⟨rfl, rfl⟩ := hs; simp
  | succ k ih =>
    cases bs with
    | nil => simp [splitN] at hs
    | cons b bs =>
      simp only [splitN] at hs
      cases h2 : splitN k bs with
      | none => simp [h2] at hs
      | some x =>
        obtain ⟨h', r'⟩ := x
        simp [h2] at hs
        obtain ⟨rfl, rfl⟩ := hs
        obtain ⟨e1, e2⟩ := ih h2
        simp [e1, e2]

theorem splitN_append (h r : Bytes) : splitN h.length (h ++ r) = some (h, r) := by
  induction h with
  | nil => simp [splitN]
  | cons b h ih => simp [splitN, ih]

theorem leBytes_length (k x : Nat) : (leBytes k x).length = k := by
  induction k generalizing x with
  | zero => rfl
  | succ k ih => simp [leBytes, ih]

theorem leVal_lt (bs : Bytes) : leVal bs < 256 ^ bs.length := by
  induction bs with
  | nil => simp [leVal]
  | cons b bs ih =>
    simp only [leVal, List.length_cons, Nat.pow_succ]
    have := b.toNat_lt
    omega

theorem leBytes_leVal (bs : Bytes) : leBytes bs.length (leVal bs) = bs := by
  induction bs with
  | nil => rfl
  | cons b bs ih =>
    have hb := b.toNat_lt
    simp only [List.length_cons, leBytes, leVal]
    have h1 : (b.toNat + 256 * leVal bs) % 256 = b.toNat := by omega
    have h2 : (b.toNat + 256 * leVal bs) / 256 = leVal bs := by omega
    rw [h1, h2, ih, UInt8.ofNat_toNat]

theorem leVal_leBytes {k x : Nat} (h : x < 256 ^ k) : leVal (leBytes k x) = x := by
  induction k generalizing x with
  | zero => simp at h; simp [leBytes, leVal, h]
  | succ k ih =>
    simp only [leBytes, leVal]
    have h' : x / 256 < 256 ^ k := by
      rw [Nat.pow_succ] at h
      exact Nat.div_lt_of_lt_mul (by rw [Nat.mul_comm]; exact h)
    rw [ih h']
    have : (UInt8.ofNat (x % 256)).toNat = x % 256 := by
      simp
    rw [this]; omega

theorem getU32_sound : Sound getU32 putU32 := by
  intro bs x r h
  unfold getU32 at h
  cases hs : splitN 4 bs with
  | none => simp [hs] at h
  | some y =>
    obtain ⟨hd, tl⟩ := y
    simp [hs] at h
    obtain ⟨rfl, rfl⟩ := h
    obtain ⟨e1, e2⟩ := splitN_some hs
    rw [e1, putU32, ← e2, leBytes_leVal]

theorem getU32_complete : Complete getU32 putU32 (fun x => x < u32) := by
  intro x r hx
  have hl : (putU32 x).length = 4 := leBytes_length 4 x
  have := splitN_append (putU32 x) r
  rw [hl] at this
  unfold getU32
  rw [this]
  simp only [putU32]
  rw [leVal_leBytes (by simpa [u32] using hx)]

theorem getU32_lt {bs r : Bytes} {x : Nat} (h : getU32 bs = .ok (x, r)) : x < u32 := by
  unfold getU32 at h
  cases hs : splitN 4 bs with
  | none => simp [hs] at h
  | some y =>
    obtain ⟨hd, tl⟩ := y
    simp [hs] at h
    obtain ⟨rfl, rfl⟩ := h
    have := leVal_lt hd
    rw [(splitN_some hs).2] at this
    simpa [u32] using this

theorem getF64_sound : Sound getF64 putF64 := by
  intro bs x r h
  unfold getF64 at h
  cases hs : splitN 8 bs with
  | none => simp [hs] at h
  | some y =>
    obtain ⟨hd, tl⟩ := y
    simp [hs] at h
    obtain ⟨rfl, rfl⟩ := h
    obtain ⟨e1, e2⟩ := splitN_some hs
    have hlt := leVal_lt hd
    rw [e2] at hlt
    have : (UInt64.ofNat (leVal hd)).toNat = leVal hd := by
      rw [UInt64.toNat_ofNat']
      exact Nat.mod_eq_of_lt (by simpa using hlt)
    rw [e1, putF64, this, ← e2, leBytes_leVal]

theorem getF64_complete : Complete getF64 putF64 (fun _ => True) := by
  intro x r _
  have hl : (putF64 x).length = 8 := leBytes_length 8 _
  have := splitN_append (putF64 x) r
  rw [hl] at this
  unfold getF64
  rw [this]
  simp only [putF64]
  rw [leVal_leBytes (by have := x.toNat_lt; simpa using this), UInt64.ofNat_toNat]

/-! ## C strings -/

theorem getName_sound : Sound getName putName := by
  intro bs
  induction bs with
  | nil => intro s r h; simp [getName] at h
  | cons b bs ih =>
    intro s r h
    simp only [getName] at h
    by_cases hb : b = 0
    · simp [hb] at h
      obtain ⟨rfl, rfl⟩ := h
      simp [putName, hb]
    · simp only [hb, if_false] at h
      cases h2 : getName bs with
      | error e => simp [h2] at h
      | ok x =>
        obtain ⟨s', r'⟩ := x
        simp [h2] at h
        obtain ⟨rfl, rfl⟩ := h
        have := ih s' r' h2
        simp [putName] at this ⊢
        exact this

theorem getName_complete : Complete getName putName (fun s => nameOk s = true) := by
  intro s
  induction s with
  | nil => intro r _; simp [putName, getName]
  | cons b s ih =>
    intro r h
    simp only [nameOk, List.contains_cons, Bool.not_eq_true', Bool.or_eq_false_iff] at h
    obtain ⟨h1, h2⟩ := h
    have hb : b ≠ 0 := by
      intro hb; subst hb; simp at h1
    have ih' := ih r (by simp only [nameOk, h2]; rfl)
    simp only [putName, List.cons_append, getName, hb, if_false] at ih' ⊢
    rw [ih']

/-! ## repetition -/

theorem rep_sound {p : P α} {enc : α → Bytes} (hp : Sound p enc) :
    ∀ (k : Nat) (bs : Bytes) (as : List α) (r : Bytes), rep p k bs = .ok (as, r) →
      bs = as.flatMap enc ++ r ∧ as.length = k := by
  intro k
  induction k with
  | zero => intro bs as r h; simp [rep] at h; obtain ⟨rfl, rfl⟩ := h; simp
  | succ k ih =>
    intro bs as r h
    simp only [rep] at h
    cases h1 : p bs with
    | error e => simp [h1] at h
    | ok x =>
      obtain ⟨a, r1⟩ := x
      simp only [h1] at h
      cases h2 : rep p k r1 with
      | error e => simp [h2] at h
      | ok y =>
        obtain ⟨as', r2⟩ := y
        simp [h2] at h
        obtain ⟨rfl, rfl⟩ := h
        obtain ⟨e1, e2⟩ := ih r1 as' r2 h2
        have e0 := hp bs a r1 h1
        simp [e0, e1, e2]

theorem rep_complete {p : P α} {enc : α → Bytes} {wf : α → Prop} (hp : Complete p enc wf) :
    ∀ (as : List α) (r : Bytes), (∀ a ∈ as, wf a) → rep p as.length (as.flatMap enc ++ r) = .ok (as, r) := by
  intro as
  induction as with
  | nil => intro r _; simp [rep]
  | cons a as ih =>
    intro r h
    simp only [List.length_cons, rep, List.flatMap_cons, List.append_assoc]
    rw [hp a _ (h a (by simp))]
    simp only
    rw [ih r (fun b hb => h b (by simp [hb]))]

theorem rep_complete' {p : P α} {enc : α → Bytes} {wf : α → Prop} (hp : Complete p enc wf)
    {k : Nat} (as : List α) (r : Bytes) (hk : as.length = k) (h : ∀ a ∈ as, wf a) :
    rep p k (as.flatMap enc ++ r) = .ok (as, r) := by
  subst hk; exact rep_complete hp as r h

/-! ## intervals and boxes -/

theorem getItv_sound : Sound getItv encItv := by
  intro bs a r h
  simp only [getItv, bind_ok, pure_ok] at h
  obtain ⟨lo, r1, h1, hi, r2, h2, rfl, rfl⟩ := h
  rw [getF64_sound _ _ _ h1, getF64_sound _ _ _ h2]
  simp [encItv]

theorem getItv_complete : Complete getItv encItv (fun _ => True) := by
  intro a r _
  simp only [getItv, encItv, List.append_assoc]
  rw [bind_of_ok (getF64_complete _ _ trivial), bind_of_ok (getF64_complete _ _ trivial)]
  rfl

theorem getBox_sound (n : Nat) : Sound (getBox n) encBox := by
  intro bs b r h
  exact (rep_sound getItv_sound n bs b r h).1

theorem getBox_length {n : Nat} {bs r : Bytes} {b : RawBox} (h : getBox n bs = .ok (b, r)) : b.length = n :=
  (rep_sound getItv_sound n bs b r h).2

theorem getBox_complete (n : Nat) : Complete (getBox n) encBox (fun b => b.length = n) := by
  intro b r h
  exact rep_complete' getItv_complete b r h (fun _ _ => trivial)

/-! ## layers -/

theorem getLCov_sound : Sound getLCov LCov.enc := by
  intro bs a r h
  simp only [getLCov, bind_ok, pure_ok] at h
  obtain ⟨n, r1, h1, rfl, rfl⟩ := h
  exact getU32_sound _ _ _ h1

theorem getLCov_complete : Complete getLCov LCov.enc (fun l => l.n < u32) := by
  intro a r h
  simp only [getLCov, LCov.enc]
  rw [bind_of_ok (getU32_complete _ _ h)]
  rfl

theorem getLList_sound (n : Nat) : Sound (getLList n) LList.enc := by
  intro bs a r h
  simp only [getLList, bind_ok, pure_ok] at h
  obtain ⟨k, r1, h1, bx, r2, h2, rfl, rfl⟩ := h
  obtain ⟨e1, rfl⟩ := rep_sound (getBox_sound n) k r1 bx _ h2
  rw [getU32_sound _ _ _ h1, e1]
  simp [LList.enc]

theorem getLList_complete (n : Nat) : Complete (getLList n) LList.enc (fun l => l.wf n = true) := by
  intro a r h
  simp only [LList.wf, Bool.and_eq_true, decide_eq_true_eq, List.all_eq_true, beq_iff_eq] at h
  simp only [getLList, LList.enc, List.append_assoc]
  rw [bind_of_ok (getU32_complete _ _ h.1), bind_of_ok (rep_complete (getBox_complete n) _ _ h.2)]
  rfl

theorem rep_u32_complete {k : Nat} (l : List Nat) (r : Bytes) (hk : l.length = k) (h : ∀ a ∈ l, a < u32) :
    rep getU32 k (l.flatMap putU32 ++ r) = .ok (l, r) :=
  rep_complete' getU32_complete l r hk h

theorem getLIU_sound (size : Nat) : Sound (getLIU size) LIU.enc := by
  intro bs a r h
  simp only [getLIU, bind_ok, pure_ok, check_ok] at h
  obtain ⟨k, r1, h1, idx, r2, h2, u, r3, ⟨_, rfl⟩, rfl, rfl⟩ := h
  obtain ⟨e1, rfl⟩ := rep_sound getU32_sound k r1 idx _ h2
  rw [getU32_sound _ _ _ h1, e1]
  simp [LIU.enc]

theorem getLIU_complete (size : Nat) (hsize : size < u32) :
    Complete (getLIU size) LIU.enc (fun l => l.wf size = true) := by
  intro a r h
  simp only [LIU.wf, Bool.and_eq_true, decide_eq_true_eq] at h
  obtain ⟨hlen, hok⟩ := h
  have hok' := hok
  simp only [LIU.ok, Bool.and_eq_true, List.all_eq_true, decide_eq_true_eq] at hok'
  simp only [getLIU, LIU.enc, List.append_assoc]
  rw [bind_of_ok (getU32_complete _ _ hlen),
      bind_of_ok (rep_u32_complete _ _ rfl (fun i hi => Nat.lt_trans (hok'.2 i hi) hsize))]
  have : LIU.ok size { inner := a.inner } = true := hok
  rw [this, bind_of_ok (check_true _)]
  rfl

theorem getLIBU_sound (size : Nat) (inner : List Nat) : Sound (getLIBU size inner) LIBU.enc := by
  intro bs a r h
  simp only [getLIBU, bind_ok, pure_ok, check_ok] at h
  obtain ⟨bt, r0, h0, k, r1, h1, idx, r2, h2, u, r3, ⟨_, rfl⟩, u', r4, ⟨_, rfl⟩, rfl, rfl⟩ := h
  obtain ⟨e1, rfl⟩ := rep_sound getU32_sound k r1 idx _ h2
  rw [getU32_sound _ _ _ h0, getU32_sound _ _ _ h1, e1]
  simp [LIBU.enc]

theorem getLIBU_complete (size : Nat) (inner : List Nat) (hsize : size < u32) :
    Complete (getLIBU size inner) LIBU.enc (fun l => l.wf size inner = true) := by
  intro a r h
  simp only [LIBU.wf, Bool.and_eq_true, decide_eq_true_eq] at h
  obtain ⟨⟨hbt, hlen⟩, hok⟩ := h
  have hok' := hok
  simp only [LIBU.okIdx, Bool.and_eq_true, List.all_eq_true, decide_eq_true_eq] at hok'
  simp only [getLIBU, LIBU.enc, List.append_assoc]
  rw [bind_of_ok (getU32_complete _ _ (by unfold u32; omega)), bind_of_ok (getU32_complete _ _ hlen),
      bind_of_ok (rep_u32_complete _ _ rfl (fun i hi => Nat.lt_trans (hok'.2 i hi).1 hsize))]
  have h1 : decide (a.btype ≤ 1) = true := by simpa using hbt
  have h2 : LIBU.okIdx size inner { btype := a.btype, boundary := a.boundary } = true := hok
  rw [h1, bind_of_ok (check_true _), h2, bind_of_ok (check_true _)]
  rfl

/-! ### manifold layer -/

theorem getSol_sound (n m : Nat) : Sound (getSol n m) Sol.enc := by
  intro bs a r h
  simp only [getSol, bind_ok, pure_ok] at h
  obtain ⟨i, r1, h1, vs, r2, h2, u, r3, h3, rfl, rfl⟩ := h
  obtain ⟨e2, _⟩ := rep_sound getU32_sound _ r1 vs _ h2
  rw [getU32_sound _ _ _ h1, e2, getBox_sound n _ _ _ h3]
  simp [Sol.enc]

/-- what `getSol` needs to read a solution back: shapes and 32-bit integers -/
def Sol.rd (n m : Nat) (s : Sol) : Prop :=
  s.idx < u32 ∧ s.varset.length = solVarLen n m ∧ (∀ v ∈ s.varset, v < u32) ∧ s.unicity.length = n

theorem getSol_complete (n m : Nat) : Complete (getSol n m) Sol.enc (Sol.rd n m) := by
  intro a r h
  obtain ⟨h1, h2, h3, h4⟩ := h
  simp only [getSol, Sol.enc, List.append_assoc]
  rw [bind_of_ok (getU32_complete _ _ h1), bind_of_ok (rep_u32_complete _ _ h2 h3),
      bind_of_ok (getBox_complete n _ _ h4)]
  rfl

theorem getBnd_sound (n m : Nat) : Sound (getBnd n m) Bnd.enc := by
  intro bs a r h
  simp only [getBnd, bind_ok, pure_ok] at h
  obtain ⟨i, r1, h1, vs, r2, h2, rfl, rfl⟩ := h
  obtain ⟨e2, _⟩ := rep_sound getU32_sound _ r1 vs _ h2
  rw [getU32_sound _ _ _ h1, e2]
  simp [Bnd.enc]

def Bnd.rd (n m : Nat) (b : Bnd) : Prop :=
  b.idx < u32 ∧ b.varset.length = bndVarLen n m ∧ (∀ v ∈ b.varset, v < u32)

theorem getBnd_complete (n m : Nat) : Complete (getBnd n m) Bnd.enc (Bnd.rd n m) := by
  intro a r h
  obtain ⟨h1, h2, h3⟩ := h
  simp only [getBnd, Bnd.enc, List.append_assoc]
  rw [bind_of_ok (getU32_complete _ _ h1), bind_of_ok (rep_u32_complete _ _ h2 h3)]
  rfl

theorem getLMan_sound (n size : Nat) (inner ibuB : List Nat) : Sound (getLMan n size inner ibuB) LMan.enc := by
  intro bs a r h
  simp only [getLMan, bind_ok, pure_ok, check_ok] at h
  obtain ⟨m, r1, h1, q, r2, h2, bt, r3, h3, sols, r4, h4, kb, r5, h5, bnds, r6, h6,
    u1, r7, ⟨_, rfl⟩, u2, r8, ⟨_, rfl⟩, u3, r9, ⟨_, rfl⟩, rfl, rfl⟩ := h
  obtain ⟨e6, rfl⟩ := rep_sound (getBnd_sound n m) kb r5 bnds _ h6
  rw [getU32_sound _ _ _ h1, getU32_sound _ _ _ h2, getU32_sound _ _ _ h3]
  by_cases hm : m > 0
  · simp only [hm, if_true, bind_ok] at h4
    obtain ⟨k, r3', h41, h42⟩ := h4
    obtain ⟨e4, rfl⟩ := rep_sound (getSol_sound n m) k r3' sols _ h42
    rw [getU32_sound _ _ _ h41, e4, getU32_sound _ _ _ h5, e6]
    simp [LMan.enc, hm]
  · simp only [hm, if_false, pure_ok] at h4
    obtain ⟨rfl, rfl⟩ := h4
    rw [getU32_sound _ _ _ h5, e6]
    simp [LMan.enc, hm]

theorem all_map_imp {β : Type} {l : List β} {g : β → Nat} {q : Nat → Bool} {P : Nat → Prop}
    (h : (l.map g).all q = true) (hq : ∀ i, q i = true → P i) : ∀ b ∈ l, P (g b) := by
  intro b hb
  simp only [List.all_map, List.all_eq_true, Function.comp] at h
  exact hq _ (h b hb)

theorem getLMan_complete (n size : Nat) (inner ibuB : List Nat) (hn : n < u32) (hsize : size < u32) :
    Complete (getLMan n size inner ibuB) LMan.enc (fun l => l.wf n size inner ibuB = true) := by
  intro a r h
  obtain ⟨m, q, bt, sols, bnds⟩ := a
  simp only [LMan.wf, Bool.and_eq_true, decide_eq_true_eq, Bool.or_eq_true, List.all_eq_true,
    List.isEmpty_iff] at h
  obtain ⟨⟨⟨⟨⟨⟨⟨⟨⟨hm, hq⟩, hbt⟩, hls⟩, hlb⟩, hempty⟩, hsw⟩, hbw⟩, hvar⟩, hidx⟩ := h
  have hvar' := hvar
  have hidx' := hidx
  simp only [LMan.okVar, Bool.and_eq_true, List.all_eq_true, varsetOk, decide_eq_true_eq] at hvar'
  simp only [LMan.okIdx, Bool.and_eq_true] at hidx'
  obtain ⟨⟨⟨⟨_, _⟩, hsI⟩, _⟩, hbI⟩ := hidx'
  have hsols : ∀ s ∈ sols, Sol.rd n m s := by
    intro s hs
    have h1 := hsw s hs
    simp only [Sol.wf, Bool.and_eq_true, beq_iff_eq] at h1
    have h2 : s.idx < size := by
      have := all_map_imp (P := fun i => i < size) hsI (by intro i hi; simp at hi; exact hi.1) s hs
      exact this
    exact ⟨Nat.lt_trans h2 hsize, h1.1, fun v hv => Nat.lt_trans ((hvar'.1 s hs).1 v hv) hn, h1.2⟩
  have hbnds : ∀ b ∈ bnds, Bnd.rd n m b := by
    intro b hb
    have h1 := hbw b hb
    simp only [Bnd.wf, beq_iff_eq] at h1
    have h2 : b.idx < size := by
      have := all_map_imp (P := fun i => i < size) hbI (by intro i hi; simp at hi; exact hi.1.1) b hb
      exact this
    exact ⟨Nat.lt_trans h2 hsize, h1, fun v hv => Nat.lt_trans ((hvar'.2 b hb).1 v hv) hn⟩
  have c1 : decide (bt ≤ 2) = true := by simpa using hbt
  simp only [getLMan, LMan.enc, List.append_assoc]
  rw [bind_of_ok (getU32_complete _ _ hm), bind_of_ok (getU32_complete _ _ hq),
      bind_of_ok (getU32_complete _ _ (by unfold u32; omega))]
  by_cases hm0 : m > 0
  · simp only [hm0, if_true, List.append_assoc]
    rw [bind_of_ok (p := (getU32 >>= fun k => rep (getSol n m) k)) (a := sols)
          (r' := putU32 bnds.length ++ (List.flatMap Bnd.enc bnds ++ r))
          (by rw [bind_of_ok (getU32_complete _ _ hls)]; exact rep_complete (getSol_complete n m) _ _ hsols),
        bind_of_ok (getU32_complete _ _ hlb), bind_of_ok (rep_complete (getBnd_complete n m) _ _ hbnds),
        c1, bind_of_ok (check_true _), hvar, bind_of_ok (check_true _), hidx, bind_of_ok (check_true _)]
    rfl
  · have hs0 : sols = [] := by
      cases hempty with
      | inl h => exact absurd h hm0
      | inr h => exact h
    subst hs0
    simp only [hm0, if_false, List.nil_append]
    rw [bind_of_ok (p := (pure [] : P (List Sol))) (a := []) (r' := putU32 bnds.length ++ (List.flatMap Bnd.enc bnds ++ r)) rfl,
        bind_of_ok (getU32_complete _ _ hlb), bind_of_ok (rep_complete (getBnd_complete n m) _ _ hbnds),
        c1, bind_of_ok (check_true _), hvar, bind_of_ok (check_true _), hidx, bind_of_ok (check_true _)]
    rfl

/-! ### solver and optimizer layers -/

theorem getLSol_sound (n size : Nat) (inner ibuB : List Nat) : Sound (getLSol n size inner ibuB) LSol.enc := by
  intro bs a r h
  simp only [getLSol, bind_ok, pure_ok, check_ok] at h
  obtain ⟨names, r1, h1, st, r2, h2, t, r3, h3, c, r4, h4, k, r5, h5, idx, r6, h6,
    u1, r7, ⟨_, rfl⟩, u2, r8, ⟨_, rfl⟩, rfl, rfl⟩ := h
  obtain ⟨e1, _⟩ := rep_sound getName_sound n bs names _ h1
  obtain ⟨e6, rfl⟩ := rep_sound getU32_sound k r5 idx _ h6
  rw [e1, getU32_sound _ _ _ h2, getF64_sound _ _ _ h3, getU32_sound _ _ _ h4, getU32_sound _ _ _ h5, e6]
  simp [LSol.enc]

theorem getLSol_complete (n size : Nat) (inner ibuB : List Nat) (hsize : size < u32) :
    Complete (getLSol n size inner ibuB) LSol.enc (fun l => l.wf n size inner ibuB = true) := by
  intro a r h
  obtain ⟨names, st, t, c, idx⟩ := a
  simp only [LSol.wf, Bool.and_eq_true, decide_eq_true_eq, List.all_eq_true, beq_iff_eq] at h
  obtain ⟨⟨⟨⟨⟨hnl, hnm⟩, hst⟩, hc⟩, hlen⟩, hok⟩ := h
  have hok' := hok
  simp only [LSol.okIdx, Bool.and_eq_true, List.all_eq_true, decide_eq_true_eq] at hok'
  have c1 : decide (st ≤ 5) = true := by simpa using hst
  simp only [getLSol, LSol.enc, List.append_assoc]
  rw [bind_of_ok (rep_complete' getName_complete names _ hnl hnm),
      bind_of_ok (getU32_complete _ _ (by unfold u32; omega)), bind_of_ok (getF64_complete _ _ trivial),
      bind_of_ok (getU32_complete _ _ hc), bind_of_ok (getU32_complete _ _ hlen),
      bind_of_ok (rep_u32_complete _ _ rfl (fun i hi => Nat.lt_trans (hok'.2 i hi).1.1 hsize)),
      c1, bind_of_ok (check_true _), hok, bind_of_ok (check_true _)]
  rfl

theorem getLOpt_sound (n size : Nat) : Sound (getLOpt n size) LOpt.enc := by
  intro bs a r h
  simp only [getLOpt, bind_ok, pure_ok, check_ok] at h
  obtain ⟨names, r1, h1, st, r2, h2, ext, r3, h3, uplo, r4, h4, ue, r5, h5, loup, r6, h6, lf, r7, h7,
    t, r8, h8, c, r9, h9, u1, r10, ⟨_, rfl⟩, u2, r11, ⟨_, rfl⟩, rfl, rfl⟩ := h
  obtain ⟨e1, _⟩ := rep_sound getName_sound n bs names _ h1
  rw [e1, getU32_sound _ _ _ h2, getU32_sound _ _ _ h3, getF64_sound _ _ _ h4, getF64_sound _ _ _ h5,
      getF64_sound _ _ _ h6, getU32_sound _ _ _ h7, getF64_sound _ _ _ h8, getU32_sound _ _ _ h9]
  simp [LOpt.enc]

theorem getLOpt_complete (n size : Nat) :
    Complete (getLOpt n size) LOpt.enc (fun l => l.wf n size = true) := by
  intro a r h
  obtain ⟨names, st, ext, uplo, ue, loup, lf, t, c⟩ := a
  simp only [LOpt.wf, Bool.and_eq_true, decide_eq_true_eq, List.all_eq_true, beq_iff_eq] at h
  obtain ⟨⟨⟨⟨⟨⟨hnl, hnm⟩, hst⟩, hext⟩, hlf⟩, hc⟩, hok⟩ := h
  have c1 : decide (st ≤ 5) = true := by simpa using hst
  simp only [getLOpt, LOpt.enc, List.append_assoc]
  rw [bind_of_ok (rep_complete' getName_complete names _ hnl hnm),
      bind_of_ok (getU32_complete _ _ (by unfold u32; omega)), bind_of_ok (getU32_complete _ _ hext),
      bind_of_ok (getF64_complete _ _ trivial), bind_of_ok (getF64_complete _ _ trivial),
      bind_of_ok (getF64_complete _ _ trivial), bind_of_ok (getU32_complete _ _ hlf),
      bind_of_ok (getF64_complete _ _ trivial), bind_of_ok (getU32_complete _ _ hc),
      c1, bind_of_ok (check_true _), hok, bind_of_ok (check_true _)]
  rfl

/-! ## whole file -/

theorem getSig_sound {bs r : Bytes} {u : Unit} (h : getSig bs = .ok (u, r)) : bs = sigBytes ++ r := by
  unfold getSig at h
  cases hs : splitN 20 bs with
  | none => simp [hs] at h
  | some y =>
    obtain ⟨hd, tl⟩ := y
    simp only [hs] at h
    by_cases hh : hd = sigBytes
    · simp [hh] at h
      subst h
      rw [(splitN_some hs).1, hh]
    · simp [hh] at h

theorem getSig_complete (r : Bytes) : getSig (sigBytes ++ r) = .ok ((), r) := by
  have := splitN_append sigBytes r
  have hl : sigBytes.length = 20 := rfl
  rw [hl] at this
  unfold getSig
  rw [this]
  simp

theorem layer_sound {p : P α} {enc : α → Bytes} (hp : Sound p enc) (want : Bool) (stk : List Tag) (tag : Tag)
    {bs r : Bytes} {x : Option α × List Tag} (h : layer want stk tag p bs = .ok (x, r)) :
    bs = encOpt enc x.1 ++ r := by
  unfold layer at h
  cases want with
  | false => simp only [Bool.false_eq_true, if_false, pure_ok] at h; obtain ⟨rfl, rfl⟩ := h; simp [encOpt]
  | true =>
    simp only [if_true] at h
    cases stk with
    | nil => simp only [pure_ok] at h; obtain ⟨rfl, rfl⟩ := h; simp [encOpt]
    | cons t rest =>
      simp only at h
      by_cases ht : t = tag
      · simp only [ht, if_true, bind_ok, pure_ok] at h
        obtain ⟨a, r', h1, rfl, rfl⟩ := h
        simpa [encOpt] using hp _ _ _ h1
      · simp only [ht, if_false, pure_ok] at h
        obtain ⟨rfl, rfl⟩ := h; simp [encOpt]

theorem layer_hit {p : P α} {tag : Tag} {rest : List Tag} {bs r : Bytes} {a : α}
    (h : p bs = .ok (a, r)) : layer true (tag :: rest) tag p bs = .ok ((some a, rest), r) := by
  simp only [layer, if_true]
  rw [bind_of_ok h]
  rfl

theorem layer_skip {p : P α} {tag : Tag} {stk : List Tag} {bs : Bytes} :
    layer false stk tag p bs = .ok ((none, stk), bs) := by
  simp [layer, pure_apply]

/-- **encode_decode**: whatever a reader of class `k` accepts is, byte for byte, the canonical encoding of
    what it returns (header chain and layers read), followed by the bytes it did not look at. -/
theorem decode_sound (k : Kind) {bs r : Bytes} {f : CovFile} (h : decode k bs = .ok (f, r)) :
    bs = encode f ++ r := by
  simp only [decode, bind_ok, pure_ok, check_ok] at h
  obtain ⟨u0, r0, h0, level, ra, ha, ids, rb, hb, vers, rc, hc, u1, rd, ⟨_, rfl⟩,
    x1, r1, h1, x2, r2, h2, x3, r3, h3, x4, r4, h4, x5, r5, h5, x6, r6, h6, x7, r7, h7, rfl, rfl⟩ := h
  obtain ⟨eb, lb⟩ := rep_sound getU32_sound _ ra ids _ hb
  obtain ⟨ec, _⟩ := rep_sound getU32_sound _ rb vers _ hc
  have e1 := layer_sound getLCov_sound _ _ _ h1
  have e2 := layer_sound (getLList_sound _) _ _ _ h2
  have e3 := layer_sound (getLIU_sound _) _ _ _ h3
  have e4 := layer_sound (getLIBU_sound _ _) _ _ _ h4
  have e5 := layer_sound (getLMan_sound _ _ _ _) _ _ _ h5
  have e6 := layer_sound (getLSol_sound _ _ _ _) _ _ _ h6
  have e7 := layer_sound (getLOpt_sound _ _) _ _ _ h7
  have hl : ids.length - 1 = level := by omega
  rw [getSig_sound h0, getU32_sound _ _ _ ha, eb, ec, e1, e2, e3, e4, e5, e6, e7]
  simp [encode, encHeader, hl]


theorem kind_header (k : Kind) :
    k.ids.length - 1 < u32 ∧ k.ids.length = k.ids.length - 1 + 1 ∧ k.vers.length = k.ids.length - 1 + 1
    ∧ (∀ a ∈ k.ids, a < u32) ∧ (∀ a ∈ k.vers, a < u32) ∧ decide (k.vers.headD 0 ≤ 1) = true := by
  cases k <;> decide

theorem LList.wf_size {n : Nat} {l : LList} (h : l.wf n = true) : l.boxes.length < u32 := by
  simp only [LList.wf, Bool.and_eq_true, decide_eq_true_eq] at h; exact h.1

set_option linter.unusedSimpArgs false in
/-- **decode_encode**: the canonical encoding of a well-formed content of class `k` (followed by anything) is
    read back by the reader of class `k` as exactly this content (and the rest is left untouched). -/
theorem decode_complete (k : Kind) (f : CovFile) (r : Bytes) (h : WF k f = true) :
    decode k (encode f ++ r) = .ok (f, r) := by
  obtain ⟨ids, vers, cov, list, iu, ibu, man, sol, opt⟩ := f
  simp only [WF, Bool.and_eq_true, beq_iff_eq] at h
  obtain ⟨⟨⟨⟨⟨⟨⟨⟨hids, hvers⟩, hcov⟩, hlist⟩, hiu⟩, hibu⟩, hman⟩, hsol⟩, hopt⟩ := h
  subst hids hvers
  obtain ⟨hk1, hk2, hk3, hk4, hk5, hk6⟩ := kind_header k
  simp only [decode, encode, encHeader, List.append_assoc]
  rw [bind_of_ok (getSig_complete _), bind_of_ok (getU32_complete _ _ hk1),
      bind_of_ok (rep_u32_complete k.ids _ hk2 hk4), bind_of_ok (rep_u32_complete k.vers _ hk3 hk5),
      hk6, bind_of_ok (check_true _)]
  rcases cov with _ | c <;>
    simp only [Bool.false_eq_true, decide_eq_true_eq, CovFile.n, CovFile.size, CovFile.boxes, CovFile.inner, CovFile.ibuB] at hcov hlist hiu hibu hman hsol hopt
  cases k <;>
  simp only [Kind.wList, Kind.wIU, Kind.wIBU, Kind.wMan, Kind.wSol, Kind.wOpt, Kind.ids, Kind.vers,
    List.zip_cons_cons, List.zip_nil_left, tagCov, tagList, tagIU, tagIBU, tagMan, tagSol, tagOpt,
    Bool.true_and, Bool.false_and, Bool.not_true, Bool.not_false, encOpt] at hlist hiu hibu hman hsol hopt ⊢ <;>
  rw [bind_of_ok (layer_hit (getLCov_complete _ _ hcov))] <;>
  simp only [optD] <;>
  rcases list with _ | l <;>
  simp only [Bool.false_eq_true, List.length_nil, encOpt, List.nil_append] at hlist hiu hibu hman hsol hopt ⊢
  all_goals first
    | rw [bind_of_ok (layer_hit (getLList_complete _ _ _ hlist))]
    | rw [bind_of_ok layer_skip]
  all_goals simp only [optD]
  all_goals rcases iu with _ | i <;>
    simp only [Bool.false_eq_true, encOpt, List.nil_append] at hiu hibu hman hsol hopt ⊢
  all_goals first
    | rw [bind_of_ok (layer_hit (getLIU_complete _ (LList.wf_size hlist) _ _ hiu))]
    | rw [bind_of_ok layer_skip]
  all_goals simp only [optD]
  all_goals rcases ibu with _ | b <;>
    simp only [Bool.false_eq_true, encOpt, List.nil_append] at hibu hman hsol hopt ⊢
  all_goals first
    | rw [bind_of_ok (layer_hit (getLIBU_complete _ _ (LList.wf_size hlist) _ _ hibu))]
    | rw [bind_of_ok layer_skip]
  all_goals simp only [optD]
  all_goals rcases man with _ | m <;>
    simp only [Bool.false_eq_true, encOpt, List.nil_append] at hman hsol hopt ⊢
  all_goals first
    | rw [bind_of_ok (layer_hit (getLMan_complete _ _ _ _ hcov (LList.wf_size hlist) _ _ hman))]
    | rw [bind_of_ok layer_skip]
  all_goals simp only [optD]
  all_goals rcases sol with _ | s <;>
    simp only [Bool.false_eq_true, encOpt, List.nil_append] at hsol hopt ⊢
  all_goals first
    | rw [bind_of_ok (layer_hit (getLSol_complete _ _ _ _ (LList.wf_size hlist) _ _ hsol))]
    | rw [bind_of_ok layer_skip]
  all_goals simp only [optD]
  all_goals rcases opt with _ | o <;>
    simp only [Bool.false_eq_true, encOpt, List.nil_append] at hopt ⊢
  all_goals first
    | rw [bind_of_ok (layer_hit (getLOpt_complete _ _ _ _ hopt))]
    | rw [bind_of_ok layer_skip]
  all_goals rfl

/-! ## readers only look at a prefix: what they return does not depend on the bytes after the part consumed.
    Consequence: a proper prefix (truncation) of a file that loads completely is rejected. -/

def Stable (p : P α) : Prop :=
  ∀ bs a r ext, p bs = .ok (a, r) → p (bs ++ ext) = .ok (a, r ++ ext)

theorem Stable.pure (a : α) : Stable (pure a : P α) := by
  intro bs b r ext h
  rw [pure_ok] at h; obtain ⟨rfl, rfl⟩ := h; rfl

theorem Stable.check (c : Bool) (e : CovErr) : Stable (check c e) := by
  intro bs b r ext h
  rw [check_ok] at h; obtain ⟨rfl, rfl⟩ := h; rfl

theorem Stable.bind {p : P α} {f : α → P β} (hp : Stable p) (hf : ∀ a, Stable (f a)) : Stable (p >>= f) := by
  intro bs b r ext h
  rw [bind_ok] at h
  obtain ⟨a, r', h1, h2⟩ := h
  rw [bind_of_ok (hp _ _ _ ext h1)]
  exact hf a _ _ _ ext h2

theorem splitN_stable {k : Nat} {bs h r : Bytes} (ext : Bytes) (hs : splitN k bs = some (h, r)) :
    splitN k (bs ++ ext) = some (h, r ++ ext) := by
  obtain ⟨e1, e2⟩ := splitN_some hs
  subst e1 e2
  rw [List.append_assoc]
  exact splitN_append _ _

theorem stable_getU32 : Stable getU32 := by
  intro bs a r ext h
  unfold getU32 at h ⊢
  cases hs : splitN 4 bs with
  | none => simp [hs] at h
  | some y =>
    obtain ⟨hd, tl⟩ := y
    simp only [hs, Except.ok.injEq, Prod.mk.injEq] at h
    obtain ⟨rfl, rfl⟩ := h
    rw [splitN_stable ext hs]

theorem stable_getF64 : Stable getF64 := by
  intro bs a r ext h
  unfold getF64 at h ⊢
  cases hs : splitN 8 bs with
  | none => simp [hs] at h
  | some y =>
    obtain ⟨hd, tl⟩ := y
    simp only [hs, Except.ok.injEq, Prod.mk.injEq] at h
    obtain ⟨rfl, rfl⟩ := h
    rw [splitN_stable ext hs]

theorem stable_getSig : Stable getSig := by
  intro bs a r ext h
  unfold getSig at h ⊢
  cases hs : splitN 20 bs with
  | none => simp [hs] at h
  | some y =>
    obtain ⟨hd, tl⟩ := y
    simp only [hs] at h
    rw [splitN_stable ext hs]
    by_cases hh : hd = sigBytes
    · simp only [hh, if_true, Except.ok.injEq, Prod.mk.injEq] at h ⊢
      exact ⟨h.1, by rw [h.2]⟩
    · simp [hh] at h

theorem stable_getName : Stable getName := by
  intro bs
  induction bs with
  | nil => intro a r ext h; simp [getName] at h
  | cons b bs ih =>
    intro a r ext h
    simp only [getName, List.cons_append] at h ⊢
    by_cases hb : b = 0
    · simp only [hb, if_true, Except.ok.injEq, Prod.mk.injEq] at h ⊢
      exact ⟨h.1, by rw [h.2]⟩
    · simp only [hb, if_false] at h ⊢
      cases h2 : getName bs with
      | error e => simp [h2] at h
      | ok x =>
        obtain ⟨s', r'⟩ := x
        simp only [h2, Except.ok.injEq, Prod.mk.injEq] at h
        obtain ⟨rfl, rfl⟩ := h
        rw [ih s' r' ext h2]

theorem stable_rep {p : P α} (hp : Stable p) (k : Nat) : Stable (rep p k) := by
  induction k with
  | zero =>
    intro bs a r ext h
    simp only [rep, Except.ok.injEq, Prod.mk.injEq] at h ⊢
    exact ⟨h.1, by rw [h.2]⟩
  | succ k ih =>
    intro bs as r ext h
    simp only [rep] at h ⊢
    cases h1 : p bs with
    | error e => simp [h1] at h
    | ok x =>
      obtain ⟨a, r1⟩ := x
      simp only [h1] at h
      cases h2 : rep p k r1 with
      | error e => simp [h2] at h
      | ok y =>
        obtain ⟨as', r2⟩ := y
        simp only [h2, Except.ok.injEq, Prod.mk.injEq] at h
        obtain ⟨rfl, rfl⟩ := h
        rw [hp _ _ _ ext h1]
        simp only
        rw [ih _ _ _ ext h2]

theorem stable_ite {c : Prop} [Decidable c] {p q : P α} (hp : Stable p) (hq : Stable q) :
    Stable (if c then p else q) := by
  by_cases h : c <;> simp [h, hp, hq]

theorem stable_layer {p : P α} (hp : Stable p) (want : Bool) (stk : List Tag) (tag : Tag) :
    Stable (layer want stk tag p) := by
  unfold layer
  cases want with
  | false => exact Stable.pure _
  | true =>
    simp only [if_true]
    cases stk with
    | nil => exact Stable.pure _
    | cons t rest =>
      simp only
      by_cases ht : t = tag
      · simp only [ht, if_true]
        exact Stable.bind hp (fun a => Stable.pure _)
      · simp only [ht, if_false]
        exact Stable.pure _

/-- closes `Stable (do ...)` goals built from the primitive parsers -/
macro "stable_tac" : tactic =>
  `(tactic| repeat (first
      | exact stable_getU32 | exact stable_getF64 | exact stable_getName | exact stable_getSig
      | apply Stable.pure | apply Stable.check | apply stable_layer | apply stable_rep | apply stable_ite
      | apply Stable.bind | intro _))

theorem stable_getItv : Stable getItv := by unfold getItv; stable_tac
theorem stable_getBox (n : Nat) : Stable (getBox n) := stable_rep stable_getItv n
theorem stable_getLCov : Stable getLCov := by unfold getLCov; stable_tac
theorem stable_getLList (n : Nat) : Stable (getLList n) := by
  unfold getLList; apply Stable.bind stable_getU32; intro k
  apply Stable.bind (stable_rep (stable_getBox n) k); intro _; exact Stable.pure _
theorem stable_getLIU (size : Nat) : Stable (getLIU size) := by unfold getLIU; stable_tac
theorem stable_getLIBU (size : Nat) (inner : List Nat) : Stable (getLIBU size inner) := by unfold getLIBU; stable_tac
theorem stable_getSol (n m : Nat) : Stable (getSol n m) := by
  unfold getSol; apply Stable.bind stable_getU32; intro _
  apply Stable.bind (stable_rep stable_getU32 _); intro _
  apply Stable.bind (stable_getBox n); intro _; exact Stable.pure _
theorem stable_getBnd (n m : Nat) : Stable (getBnd n m) := by unfold getBnd; stable_tac
theorem stable_getLMan (n size : Nat) (inner ibuB : List Nat) : Stable (getLMan n size inner ibuB) := by
  unfold getLMan
  apply Stable.bind stable_getU32; intro m
  apply Stable.bind stable_getU32; intro _
  apply Stable.bind stable_getU32; intro _
  apply Stable.bind
  · apply stable_ite
    · apply Stable.bind stable_getU32; intro k; exact stable_rep (stable_getSol n m) k
    · exact Stable.pure _
  intro _
  apply Stable.bind stable_getU32; intro kb
  apply Stable.bind (stable_rep (stable_getBnd n m) kb); intro _
  stable_tac
theorem stable_getLSol (n size : Nat) (inner ibuB : List Nat) : Stable (getLSol n size inner ibuB) := by
  unfold getLSol; stable_tac
theorem stable_getLOpt (n size : Nat) : Stable (getLOpt n size) := by unfold getLOpt; stable_tac

theorem stable_decode (k : Kind) : Stable (decode k) := by
  unfold decode
  apply Stable.bind stable_getSig; intro _
  apply Stable.bind stable_getU32; intro _
  apply Stable.bind (stable_rep stable_getU32 _); intro _
  apply Stable.bind (stable_rep stable_getU32 _); intro _
  apply Stable.bind (Stable.check _ _); intro _
  apply Stable.bind (stable_layer stable_getLCov _ _ _); intro _
  apply Stable.bind (stable_layer (stable_getLList _) _ _ _); intro _
  apply Stable.bind (stable_layer (stable_getLIU _) _ _ _); intro _
  apply Stable.bind (stable_layer (stable_getLIBU _ _) _ _ _); intro _
  apply Stable.bind (stable_layer (stable_getLMan _ _ _ _) _ _ _); intro _
  apply Stable.bind (stable_layer (stable_getLSol _ _ _ _) _ _ _); intro _
  apply Stable.bind (stable_layer (stable_getLOpt _ _) _ _ _); intro _
  exact Stable.pure _

end Ibex.Cov
