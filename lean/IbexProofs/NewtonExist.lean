/-
  Existence certificate `Newton.existCertVars` (IbexModel/Newton.lean): the tools.

  1. `krawczyk_fixed` : Banach fixed point theorem on a box of `Fin m → ℝ` (sup metric), matrix form:
     a self-map `g` of the box `[lo,hi]` whose increments are `g y − g y' = B (y − y')` with
     `|B_ic| ≤ q_ic`, `Σ_c q_ic < 1` for every row, has a fixed point in the box
     (`ContractingWith.exists_fixedPoint'` on the complete set `Set.Icc lo hi`).
  2. enclosure lemmas for the interval computations of the certificate (`dotQ`, `dotI`, `iterMat`,
     `rowSumLt1`, `leftInvOk`, `midBox`, `boundsQ`, `nodupB`).
  3. `exist_unpack` : what `existCertVars = true` provides.

  The soundness theorem is in `Props/C09exist.lean`.
-/
import IbexProofs.NewtonCert
import Mathlib.Topology.MetricSpace.Contracting
import Mathlib.Topology.MetricSpace.Pseudo.Pi

namespace Ibex
open Ibex List Filter Topology

/-! ## 1. Banach fixed point on a box -/


/-- **Banach fixed point on a box, matrix form** -/
theorem krawczyk_fixed {m : ℕ} (lo hi : Fin m → ℝ) (g : (Fin m → ℝ) → (Fin m → ℝ))
    (q : Fin m → Fin m → ℝ) (hq0 : ∀ i c, 0 ≤ q i c) (hq : ∀ i, ∑ c, q i c < 1)
    (hne : lo ≤ hi)
    (hmaps : ∀ y ∈ Set.Icc lo hi, g y ∈ Set.Icc lo hi)
    (hlip : ∀ y ∈ Set.Icc lo hi, ∀ y' ∈ Set.Icc lo hi, ∃ B : Fin m → Fin m → ℝ,
      (∀ i c, |B i c| ≤ q i c) ∧ ∀ i, g y i - g y' i = ∑ c, B i c * (y c - y' c)) :
    ∃ z ∈ Set.Icc lo hi, g z = z := by
  classical
  let rs : Fin m → NNReal := fun i => ⟨∑ c, q i c, Finset.sum_nonneg fun c _ => hq0 i c⟩
  let K : NNReal := Finset.univ.sup rs
  have hK1 : K < 1 := by
    rw [Finset.sup_lt_iff (by simp)]
    intro i _
    exact_mod_cast (show ((rs i : NNReal) : ℝ) < 1 from hq i)
  have hKi : ∀ i, ∑ c, q i c ≤ (K : ℝ) := fun i => by
    have : rs i ≤ K := Finset.le_sup (f := rs) (Finset.mem_univ i)
    exact_mod_cast this
  have hsf : Set.MapsTo g (Set.Icc lo hi) (Set.Icc lo hi) := hmaps
  have hcontr : ContractingWith K (hsf.restrict g _ _) := by
    refine ⟨hK1, LipschitzWith.of_dist_le_mul fun y y' => ?_⟩
    rw [Subtype.dist_eq, Subtype.dist_eq]
    simp only [Set.MapsTo.val_restrict_apply]
    obtain ⟨B, hB, hg⟩ := hlip y y.2 y' y'.2
    refine (dist_pi_le_iff (mul_nonneg K.2 dist_nonneg)).2 ?_
    intro i
    rw [Real.dist_eq, hg i]
    calc |∑ c, B i c * ((y : Fin m → ℝ) c - (y' : Fin m → ℝ) c)|
        ≤ ∑ c, |B i c * ((y : Fin m → ℝ) c - (y' : Fin m → ℝ) c)| := Finset.abs_sum_le_sum_abs _ _
      _ ≤ ∑ c, q i c * dist (y : Fin m → ℝ) (y' : Fin m → ℝ) := by
          refine Finset.sum_le_sum fun c _ => ?_
          rw [abs_mul]
          refine mul_le_mul (hB i c) ?_ (abs_nonneg _) (hq0 i c)
          rw [← Real.dist_eq]
          exact dist_le_pi_dist _ _ c
      _ = (∑ c, q i c) * dist (y : Fin m → ℝ) (y' : Fin m → ℝ) := by rw [Finset.sum_mul]
      _ ≤ K * dist (y : Fin m → ℝ) (y' : Fin m → ℝ) := mul_le_mul_of_nonneg_right (hKi i) dist_nonneg
  obtain ⟨z, hz, hfix, _⟩ := hcontr.exists_fixedPoint' isClosed_Icc.isComplete hsf
    (x := lo) (Set.left_mem_Icc.2 hne) (edist_ne_top _ _)
  exact ⟨z, hz, hfix⟩



/-! ## 2. enclosure lemmas for the interval computations of the certificate -/

theorem dotQ_fold_encl :
    ∀ (xs : List Itv) (crow : List ℚ) (acc : Itv) (s : ℝ) (a : ℕ → ℝ), s ∈ acc →
      (∀ k (hk : k < xs.length), a k ∈ xs[k]) →
      s + ∑ k ∈ Finset.range xs.length, ((crow.getD k 0 : ℚ) : ℝ) * a k ∈
        (List.zip crow xs).foldl (fun acc (q : ℚ × Itv) =>
          Itv.add acc (Itv.mul (Itv.point q.1) q.2)) acc := by
  intro xs
  induction xs with
  | nil =>
    intro crow acc s a hs _
    simpa using hs
  | cons r rs ih =>
    intro crow acc s a hs ha
    cases crow with
    | nil => simpa using hs
    | cons c cs =>
      simp only [List.zip_cons_cons, List.foldl_cons, List.length_cons]
      have h0 : a 0 ∈ r := by
        have := ha 0 (by simp)
        simpa using this
      have := ih cs (Itv.add acc (Itv.mul (Itv.point c) r)) (s + (c : ℝ) * a 0)
        (fun k => a (k + 1)) (Itv.add_encl hs (Itv.mul_encl (mem_point_cast c) h0))
        (fun k hk => by
          have := ha (k + 1) (by simp; omega)
          simpa using this)
      rw [Finset.sum_range_succ']
      simp only [List.getD_cons_succ, List.getD_cons_zero]
      convert this using 1
      ring

theorem getD_eq_getElem' {α : Type} {l : List α} {k : ℕ} (hk : k < l.length) (d : α) : l.getD k d = l[k] := by
  rw [List.getD_eq_getElem?_getD, List.getElem?_eq_getElem hk]; rfl

/-- `Σ_k c_k a_k ∈ dotQ c [x]` when `a_k ∈ [x_k]` -/
theorem dotQ_encl {crow : List ℚ} {xs : List Itv} {m : ℕ} (hx : xs.length = m) (a : Fin m → ℝ)
    (ha : ∀ k : Fin m, a k ∈ xs.getD k .empty) :
    ∑ k : Fin m, ((crow.getD k 0 : ℚ) : ℝ) * a k ∈ Newton.dotQ crow xs := by
  let a' : ℕ → ℝ := fun k => if h : k < m then a ⟨k, h⟩ else 0
  have h := dotQ_fold_encl xs crow (Itv.point 0) 0 a' (by simpa using mem_point_cast 0) (by
    intro k hk
    have hkm : k < m := hx ▸ hk
    have := ha ⟨k, hkm⟩
    rw [getD_eq_getElem' hk] at this
    simpa only [a', dif_pos hkm] using this)
  rw [zero_add, hx, ← Fin.sum_univ_eq_sum_range (fun k => ((crow.getD k 0 : ℚ) : ℝ) * a' k) m] at h
  have e : ∀ k : Fin m, a' k = a k := fun k => by simp [a', k.2]
  simp only [e] at h
  exact h

theorem dotI_fold_encl :
    ∀ (as bs : List Itv) (acc : Itv) (s : ℝ) (u v : ℕ → ℝ), as.length = bs.length → s ∈ acc →
      (∀ k (hk : k < as.length), u k ∈ as[k]) → (∀ k (hk : k < bs.length), v k ∈ bs[k]) →
      s + ∑ k ∈ Finset.range as.length, u k * v k ∈
        (List.zip as bs).foldl (fun acc (q : Itv × Itv) => Itv.add acc (Itv.mul q.1 q.2)) acc := by
  intro as
  induction as with
  | nil =>
    intro bs acc s u v _ hs _ _
    simpa using hs
  | cons r rs ih =>
    intro bs acc s u v hl hs hu hv
    cases bs with
    | nil => simp at hl
    | cons b bs =>
      simp only [List.zip_cons_cons, List.foldl_cons, List.length_cons]
      have h0 : u 0 ∈ r := by
        have := hu 0 (by simp)
        simpa using this
      have h0' : v 0 ∈ b := by
        have := hv 0 (by simp)
        simpa using this
      have := ih bs (Itv.add acc (Itv.mul r b)) (s + u 0 * v 0)
        (fun k => u (k + 1)) (fun k => v (k + 1)) (by simpa using hl)
        (Itv.add_encl hs (Itv.mul_encl h0 h0'))
        (fun k hk => by
          have := hu (k + 1) (by simp; omega)
          simpa using this)
        (fun k hk => by
          have := hv (k + 1) (by simp; omega)
          simpa using this)
      rw [Finset.sum_range_succ']
      convert this using 1
      ring

/-- `Σ_k u_k v_k ∈ dotI [a] [b]` when `u_k ∈ [a_k]`, `v_k ∈ [b_k]` -/
theorem dotI_encl {as bs : List Itv} {m : ℕ} (ha : as.length = m) (hb : bs.length = m) (u v : Fin m → ℝ)
    (hu : ∀ k : Fin m, u k ∈ as.getD k .empty) (hv : ∀ k : Fin m, v k ∈ bs.getD k .empty) :
    ∑ k : Fin m, u k * v k ∈ Newton.dotI as bs := by
  let u' : ℕ → ℝ := fun k => if h : k < m then u ⟨k, h⟩ else 0
  let v' : ℕ → ℝ := fun k => if h : k < m then v ⟨k, h⟩ else 0
  have h := dotI_fold_encl as bs (Itv.point 0) 0 u' v' (ha.trans hb.symm) (by simpa using mem_point_cast 0)
    (by
      intro k hk
      have hkm : k < m := ha ▸ hk
      have := hu ⟨k, hkm⟩
      rw [getD_eq_getElem' hk] at this
      simpa only [u', dif_pos hkm] using this)
    (by
      intro k hk
      have hkm : k < m := hb ▸ hk
      have := hv ⟨k, hkm⟩
      rw [getD_eq_getElem' hk] at this
      simpa only [v', dif_pos hkm] using this)
  rw [zero_add, ha, ← Fin.sum_univ_eq_sum_range (fun k => u' k * v' k) m] at h
  have e : ∀ k : Fin m, u' k = u k := fun k => by simp [u', k.2]
  have e' : ∀ k : Fin m, v' k = v k := fun k => by simp [v', k.2]
  simp only [e, e'] at h
  exact h

theorem precond_length (c : List (List ℚ)) (j : List (List Itv)) : (Newton.precond c j).length = c.length := by
  simp [Newton.precond]

theorem precond_row_length {c : List (List ℚ)} {j : List (List Itv)} {i : ℕ} (hi : i < c.length) :
    ((Newton.precond c j).getD i []).length = j.length := by
  simp [Newton.precond, List.getD_eq_getElem?_getD, List.getElem?_map, List.getElem?_eq_getElem hi]

theorem iterMat_length (c : List (List ℚ)) (j : List (List Itv)) : (Newton.iterMat c j).length = c.length := by
  simp [Newton.iterMat, precond_length]

theorem iterMat_getD {c : List (List ℚ)} {j : List (List Itv)} {i k : ℕ} (hi : i < c.length)
    (hk : k < j.length) :
    ((Newton.iterMat c j).getD i []).getD k .empty =
      Itv.sub (Itv.point (if k == i then 1 else 0)) (((Newton.precond c j).getD i []).getD k .empty) := by
  have hi' : i < (Newton.precond c j).length := by rw [precond_length]; exact hi
  have hk' : k < ((Newton.precond c j)[i]).length := by
    have := precond_row_length (j := j) hi
    rw [getD_eq_getElem' hi'] at this
    rw [this]; exact hk
  unfold Newton.iterMat
  simp only [List.getD_eq_getElem?_getD, List.getElem?_map, List.getElem?_zipIdx,
    List.getElem?_eq_getElem hi', Option.map_some, Option.getD_some, Nat.zero_add,
    List.getElem?_eq_getElem hk']

theorem iterMat_row_length {c : List (List ℚ)} {j : List (List Itv)} {i : ℕ} (hi : i < c.length) :
    ((Newton.iterMat c j).getD i []).length = j.length := by
  have hi' : i < (Newton.precond c j).length := by rw [precond_length]; exact hi
  have := precond_row_length (j := j) hi
  rw [getD_eq_getElem' hi'] at this
  unfold Newton.iterMat
  simp only [List.getD_eq_getElem?_getD, List.getElem?_map, List.getElem?_zipIdx,
    List.getElem?_eq_getElem hi', Option.map_some, Option.getD_some, List.length_map, List.length_zipIdx]
  exact this

theorem sum_range_getD (ms : List ℚ) :
    ∑ k ∈ Finset.range ms.length, ((ms.getD k 0 : ℚ) : ℝ) = ((ms.sum : ℚ) : ℝ) := by
  induction ms with
  | nil => simp
  | cons q ms ih =>
    rw [List.length_cons, Finset.sum_range_succ']
    simp only [List.getD_cons_succ, List.getD_cons_zero, List.sum_cons, Rat.cast_add]
    rw [ih]; ring

/-- what the row test of the contraction provides -/
theorem rowSum_sound {row : List Itv} (hr : Newton.rowSumLt1 row = true) {m : ℕ} (hl : row.length = m) :
    ∃ qs : Fin m → ℝ, (∀ c, 0 ≤ qs c) ∧ (∀ (c : Fin m) (x : ℝ), x ∈ row.getD c .empty → |x| ≤ qs c) ∧
      ∑ c, qs c < 1 := by
  unfold Newton.rowSumLt1 at hr
  split at hr
  · exact absurd hr (by simp)
  · rename_i ms hms
    have hf := C08.mapM_forall₂ hms
    have hlen : ms.length = m := by rw [← hf.length_eq, hl]
    refine ⟨fun c => ((ms.getD c 0 : ℚ) : ℝ), fun c => ?_, fun c x hx => ?_, ?_⟩
    · have hc : (c : ℕ) < row.length := hl ▸ c.2
      obtain ⟨hc', hq⟩ := forall₂_getElem hf hc
      show (0 : ℝ) ≤ ((ms.getD c 0 : ℚ) : ℝ)
      rw [getD_eq_getElem' hc']
      exact magQ_nonneg hq
    · have hc : (c : ℕ) < row.length := hl ▸ c.2
      obtain ⟨hc', hq⟩ := forall₂_getElem hf hc
      rw [getD_eq_getElem' hc] at hx
      show |x| ≤ ((ms.getD c 0 : ℚ) : ℝ)
      rw [getD_eq_getElem' hc']
      exact magQ_sound hq hx
    · rw [Fin.sum_univ_eq_sum_range (fun k => ((ms.getD k 0 : ℚ) : ℝ)) m, ← hlen, sum_range_getD,
        List.sum_eq_foldl]
      have : ms.foldl (· + ·) 0 < 1 := by simpa using hr
      exact_mod_cast this

theorem boundsQ_some {I : Itv} {ab : ℚ × ℚ} (h : Newton.boundsQ I = some ab) :
    I = Itv.mk (.fin ab.1) (.fin ab.2) ∧ ab.1 ≤ ab.2 := by
  unfold Newton.boundsQ at h
  split at h
  · split at h
    · rename_i hle
      simp only [Option.some.injEq] at h
      subst h
      exact ⟨rfl, hle⟩
    · exact absurd h (by simp)
  · exact absurd h (by simp)

theorem nodupB_iff (l : List ℕ) : Newton.nodupB l = true ↔ l.Nodup := by
  induction l with
  | nil => simp [Newton.nodupB]
  | cons v vs ih => simp [Newton.nodupB, ih, List.nodup_cons]

theorem foldl_add_range (f : ℕ → ℚ) (m : ℕ) :
    (List.range m).foldl (fun acc t => acc + f t) 0 = ∑ t ∈ Finset.range m, f t := by
  induction m with
  | zero => simp
  | succ m ih => rw [List.range_succ, List.foldl_append, ih, Finset.sum_range_succ]; rfl

/-- the exact left inverse -/
theorem leftInvOk_sound {l c : List (List ℚ)} {m : ℕ} (h : Newton.leftInvOk l c m = true) (i k : Fin m) :
    ∑ t : Fin m, (((l.getD i []).getD t 0 : ℚ) : ℝ) * (((c.getD t []).getD k 0 : ℚ) : ℝ) =
      if i = k then 1 else 0 := by
  unfold Newton.leftInvOk at h
  simp only [List.all_eq_true, List.mem_range, beq_iff_eq] at h
  have := h i i.2 k k.2
  rw [foldl_add_range] at this
  rw [Fin.sum_univ_eq_sum_range (fun t => (((l.getD i []).getD t 0 : ℚ) : ℝ) * (((c.getD t []).getD k 0 : ℚ) : ℝ)) m]
  have h2 := congrArg (fun q : ℚ => (q : ℝ)) this
  simp only [Rat.cast_sum, Rat.cast_mul] at h2
  rw [h2]
  by_cases hik : i = k
  · subst hik; simp
  · have : ¬ (i : ℕ) = k := fun e => hik (Fin.ext e)
    simp [hik, this]

theorem midBox_length (h : Box) (vars : List ℕ) (xm : List ℚ) : (Newton.midBox h vars xm).length = h.length := by
  simp [Newton.midBox]

theorem midBox_getD {h : Box} {vars : List ℕ} {xm : List ℚ} {k : ℕ} (hk : k < h.length) :
    (Newton.midBox h vars xm).getD k .empty =
      if vars.idxOf k < vars.length then Itv.point (xm.getD (vars.idxOf k) 0) else h.getD k .empty := by
  unfold Newton.midBox
  simp only [List.getD_eq_getElem?_getD, List.getElem?_map, List.getElem?_zipIdx,
    List.getElem?_eq_getElem hk, Option.map_some, Option.getD_some, Nat.zero_add]



/-- what `existCertVars = true` provides -/
theorem exist_unpack {progs : List (List Dag × Dag)} {h : Box} {vars : List ℕ}
    (hcert : Newton.existCertVars progs h vars = true) :
    progs.length = vars.length ∧ (∀ v ∈ vars, v < h.length) ∧ vars.Nodup ∧
    ∃ (jfull : List (List Itv)) (mid c : List (List ℚ)) (bnds : List (ℚ × ℚ)) (fm : List Itv),
      Newton.jacobian progs h = some jfull ∧ c.length = jfull.length ∧
      Newton.leftInvOk mid c vars.length = true ∧
      vars.mapM (fun v => Newton.boundsQ (h.getD v .empty)) = some bnds ∧
      progs.mapM (fun p => Newton.evalItv1 p
        (Newton.midBox h vars (bnds.map fun (ab : ℚ × ℚ) => (ab.1 + ab.2) / 2))) = some fm ∧
      (Newton.iterMat c (jfull.map fun row => vars.map fun v => row.getD v .empty)).all
        Newton.rowSumLt1 = true ∧
      ∀ i < vars.length, Itv.subset
        (Itv.add (Itv.sub (Itv.point ((bnds.map fun (ab : ℚ × ℚ) => (ab.1 + ab.2) / 2).getD i 0))
            (Newton.dotQ (c.getD i []) fm))
          (Newton.dotI ((Newton.iterMat c (jfull.map fun row => vars.map fun v => row.getD v .empty)).getD i [])
            (List.zipWith (fun v x => Itv.sub (h.getD v .empty) (Itv.point x)) vars
              (bnds.map fun (ab : ℚ × ℚ) => (ab.1 + ab.2) / 2))))
        (h.getD (vars.getD i 0) .empty) = true := by
  unfold Newton.existCertVars at hcert
  simp only [Bool.and_eq_true, beq_iff_eq, List.all_eq_true, decide_eq_true_eq] at hcert
  obtain ⟨⟨⟨⟨hlen, _⟩, hvars⟩, hnd⟩, hmatch⟩ := hcert
  refine ⟨hlen, hvars, (nodupB_iff vars).1 hnd, ?_⟩
  split at hmatch
  · exact absurd hmatch (by simp)
  · rename_i jfull hJ
    split at hmatch
    · exact absurd hmatch (by simp)
    · rename_i mid hmid
      split at hmatch
      · exact absurd hmatch (by simp)
      · rename_i c hc
        simp only [Bool.and_eq_true] at hmatch
        obtain ⟨hL, hmatch⟩ := hmatch
        split at hmatch
        · exact absurd hmatch (by simp)
        · rename_i bnds hb
          split at hmatch
          · exact absurd hmatch (by simp)
          · rename_i fm hfm
            simp only [Bool.and_eq_true, List.all_eq_true, List.mem_range] at hmatch
            refine ⟨jfull, mid, c, bnds, fm, hJ, ?_, hL, hb, hfm, ?_, hmatch.2⟩
            · rw [inverse_length hc, ← (C08.mapM_forall₂ hmid).length_eq, List.length_map]
            · rw [List.all_eq_true]
              exact hmatch.1

end Ibex
