/-
  Rounding-generic versions (IbexModel/Newton.lean, second part) of the results of `NewtonCert.lean`:
  soundness of the interval forward-mode differentiation `Alg.idualG r`, of the interval evaluation
  `Alg.itvG r`, and of the preconditioned regularity test `precondG r`, for EVERY sound rounding pair
  `r` (`Rnd.Sound r`; in particular `Rnd.exact` — exact rational interval arithmetic — and `Rnd.dbl`).

  The proofs are those of `NewtonCert.lean` with `Itv.add_encl`, `Itv.mul_encl`, ... replaced by
  `Itv.addG_encl hr`, `Itv.mulG_encl hr`, ... (`ArithG.lean`).  Everything that does not depend on the
  interval operators (`IRel`, `gradR`, `iseed_rel`, `diagDominant_regular`, `inverse_length`, ...) is
  reused from `NewtonCert.lean`.
-/
import IbexProofs.NewtonCert
import IbexProofs.ArithG

namespace Ibex
open Ibex List Filter Topology

noncomputable section

variable {r : Rnd}

/-! ## 0. integer powers, interval evaluation -/

theorem Itv.powIntG_encl (hr : r.Sound) {X : Itv} {x : ℝ} (n : ℤ) (hx : x ∈ X) (h0 : n < 0 → x ≠ 0) :
    x ^ n ∈ Itv.powIntG r X n := by
  unfold Itv.powIntG
  by_cases hn : n ≥ 0
  · rw [if_pos hn]
    have e : x ^ n = x ^ n.toNat := by
      conv_lhs => rw [← Int.toNat_of_nonneg hn]
      exact zpow_natCast x _
    rw [e]
    exact Itv.powNatG_encl hr n.toNat hx
  · rw [if_neg hn]
    have hx0 : x ≠ 0 := h0 (not_le.1 hn)
    have e : x ^ n = 1 / x ^ (-n).toNat := by
      have h1 : n = -(((-n).toNat : ℕ) : ℤ) := by
        rw [Int.toNat_of_nonneg (by omega)]; ring
      conv_lhs => rw [h1]
      rw [zpow_neg, zpow_natCast, one_div]
    rw [e]
    refine Itv.divG_encl hr ?_ (Itv.powNatG_encl hr _ hx) (pow_ne_zero _ hx0)
    simpa using mem_point_cast 1

/-- **Operator-level enclosure** for the interval operators generic in the rounding pair: every
    operator of `Alg.itvG r` encloses the real operator, and is defined whenever the real operator is
    defined at a point of its arguments. -/
theorem Alg.real_itvG (hr : r.Sound) : AlgRel RMem Alg.real (Alg.itvG r) where
  ofItv := Alg.real_itv.ofItv
  zero := Alg.real_itv.zero
  add := by
    intro x X y Y s hx hy h
    simp only [Alg.real, Option.some.injEq] at h
    subst h
    exact mem_itvNonEmpty (Itv.addG_encl hr hx hy)
  sub := by
    intro x X y Y s hx hy h
    simp only [Alg.real, Option.some.injEq] at h
    subst h
    exact mem_itvNonEmpty (Itv.subG_encl hr hx hy)
  mul := by
    intro x X y Y s hx hy h
    simp only [Alg.real, Option.some.injEq] at h
    subst h
    exact mem_itvNonEmpty (Itv.mulG_encl hr hx hy)
  div := by
    intro x X y Y s hx hy h
    simp only [Alg.real] at h
    split at h
    · exact absurd h (by simp)
    · rename_i hy0
      simp only [Option.some.injEq] at h
      subst h
      exact mem_itvNonEmpty (Itv.divG_encl hr hx hy hy0)
  max := Alg.real_itv.max
  min := Alg.real_itv.min
  un := by
    intro op f g hf hg x X s hx hs
    simp only [Alg.itvG] at hg
    split at hg
    · simp only [Alg.real, Option.some.injEq] at hf hg
      subst hf; subst hg
      simp only [Option.some.injEq] at hs; subst hs
      exact mem_itvNonEmpty (Itv.neg_encl hx)
    · simp only [Alg.real, Option.some.injEq] at hf hg
      subst hf; subst hg
      simp only [Option.some.injEq] at hs; subst hs
      exact mem_itvNonEmpty (Itv.sqrG_encl hr hx)
    · simp only [Alg.real, Option.some.injEq] at hf hg
      subst hf; subst hg
      simp only [Option.some.injEq] at hs; subst hs
      exact mem_itvNonEmpty (Itv.abs_encl hx)
    · simp only [Alg.real, Option.some.injEq] at hf hg
      subst hf; subst hg
      simp only [Option.some.injEq] at hs; subst hs
      exact mem_itvNonEmpty (Itv.sign_encl hx)
    · simp only [Alg.real, Option.some.injEq] at hf hg
      subst hf; subst hg
      simp only [Option.some.injEq] at hs; subst hs
      exact mem_itvNonEmpty (Itv.floor_encl hx)
    · simp only [Alg.real, Option.some.injEq] at hf hg
      subst hf; subst hg
      simp only [Option.some.injEq] at hs; subst hs
      exact mem_itvNonEmpty (Itv.ceil_encl hx)
    · exact absurd hg (by simp)
  pow := by
    intro n x X s hx h
    simp only [Alg.real] at h
    split at h
    · exact absurd h (by simp)
    · rename_i h0
      simp only [Option.some.injEq] at h
      subst h
      exact mem_itvNonEmpty (Itv.powIntG_encl hr n hx (fun hn hx0 => h0 ⟨hn, hx0⟩))
  chi := Alg.real_itv.chi

theorem Alg.realWith_itvG (hr : r.Sound) {ch : Itv → Option ℝ} (hch : ∀ I x, ch I = some x → x ∈ I) :
    AlgRel RMem (Alg.realWith ch) (Alg.itvG r) where
  ofItv := fun I a h => mem_itvNonEmpty (hch I a h)
  zero := (Alg.real_itvG hr).zero
  add := (Alg.real_itvG hr).add
  sub := (Alg.real_itvG hr).sub
  mul := (Alg.real_itvG hr).mul
  div := (Alg.real_itvG hr).div
  max := (Alg.real_itvG hr).max
  min := (Alg.real_itvG hr).min
  un := (Alg.real_itvG hr).un
  pow := (Alg.real_itvG hr).pow
  chi := (Alg.real_itvG hr).chi

/-- the exact interval algebra of `IbexModel/Expr.lean` is the instance `Rnd.exact` -/
theorem Alg.itvX_eq : Alg.itvX = Alg.itvG Rnd.exact := by
  unfold Alg.itvX Alg.itvG
  congr 1
  funext a n
  unfold Itv.powIntG
  split <;> rfl

/-- hence the exact interval algebra `Alg.itvX` encloses the real operators (this was not proved before) -/
theorem Alg.real_itvX : AlgRel RMem Alg.real Alg.itvX :=
  Alg.itvX_eq ▸ Alg.real_itvG Rnd.exact_sound

/-! ## 1. the interval dual numbers -/

variable {n : ℕ} {p : Fin n → ℝ}

/-- a value `χ` whose derivative is `α·dφ + β·dψ` -/
theorem IRel.linG (hr : r.Sound) {a b : IDual} {φ ψ χ : (Fin n → ℝ) → ℝ} {A B V : Itv} {α β : ℝ}
    (ha : IRel n p a φ) (hb : IRel n p b ψ) (hα : α ∈ A) (hβ : β ∈ B) (hv : χ p ∈ V)
    (hd : ∀ La Lb : (Fin n → ℝ) →L[ℝ] ℝ, HasFDerivAt φ La p → HasFDerivAt ψ Lb p →
      HasFDerivAt χ (α • La + β • Lb) p) :
    IRel n p ⟨V, IDual.linG r A a B b⟩ χ := by
  obtain ⟨_, ga, hla, hga, hda⟩ := ha
  obtain ⟨_, gb, hlb, hgb, hdb⟩ := hb
  refine ⟨hv, List.zipWith (fun u v => α * u + β * v) ga gb, by simp [hla, hlb], ?_, ?_⟩
  · exact forall₂_zipWith (R := RMem) (S := RMem) (T := RMem)
      (fun u U v V hu hv => Itv.addG_encl hr (Itv.mulG_encl hr hα hu) (Itv.mulG_encl hr hβ hv)) hga hgb
  · rw [gradR_lin hla hlb]
    exact hd _ _ hda hdb

/-- a value `χ` whose derivative is `α·dφ` -/
theorem IRel.scaleG (hr : r.Sound) {a : IDual} {φ χ : (Fin n → ℝ) → ℝ} {A V : Itv} {α : ℝ}
    (ha : IRel n p a φ) (hα : α ∈ A) (hv : χ p ∈ V)
    (hd : ∀ La : (Fin n → ℝ) →L[ℝ] ℝ, HasFDerivAt φ La p → HasFDerivAt χ (α • La) p) :
    IRel n p ⟨V, IDual.scaleG r A a⟩ χ := by
  obtain ⟨_, ga, hla, hga, hda⟩ := ha
  refine ⟨hv, ga.map (α * ·), by simp [hla], ?_, ?_⟩
  · unfold IDual.scaleG
    rw [forall₂_map_left_iff, forall₂_map_right_iff]
    exact hga.imp fun u U hu => Itv.mulG_encl hr hα hu
  · rw [gradR_scale]
    exact hd _ hda

theorem idualG_ev_un (ch : Itv → Option ℝ) (F : Filter (Fin n → ℝ)) (op : String)
    (h : (Alg.ev F (Alg.realWith ch)).un op = none) : (Alg.idualG r n).un op = none := by
  simp only [Alg.idualG]
  split
  all_goals first
    | rfl
    | (simp [Alg.ev, Alg.realWith, Alg.real] at h)

theorem Alg.idualG_ev_supp (ch : Itv → Option ℝ) (F : Filter (Fin n → ℝ)) (nd : Node) :
    Eval.Supp (Alg.idualG r n) (Alg.ev F (Alg.realWith ch)) nd :=
  fun op _ _ _ h => idualG_ev_un ch F op h

/-- **Operator-level enclosure of the interval dual numbers, generic rounding** (see `Alg.idual_ev`). -/
theorem Alg.idualG_ev (hr : r.Sound) {ch : Itv → Option ℝ} (hch : Sel ch) (n : ℕ) (p : Fin n → ℝ) :
    AlgRel (IRel n p) (Alg.idualG r n) (Alg.ev (𝓝 p) (Alg.realWith ch)) where
  ofItv := by
    intro I a h
    simp only [Alg.idualG] at h
    split at h
    · exact absurd h (by simp)
    · rename_i hne
      simp only [Option.some.injEq] at h
      subst h
      simp only [Bool.or_eq_true, Bool.not_eq_true', not_or, Bool.not_eq_false] at hne
      obtain ⟨c, hc, hcI⟩ := hch I (Itv.exists_mem_of_WF hne.2 (fun e => by simp [e, Itv.isEmpty] at hne))
      refine ⟨fun _ => c, ?_, IRel.const n p hcI⟩
      show (ch I).map _ = _
      rw [hc]; rfl
  zero := by
    show IRel n p (IDual.const n (Itv.point 0)) (fun _ => (0 : ℝ))
    exact IRel.const n p (by simpa using mem_point_cast 0)
  add := by
    intro a φ b ψ x ha hb h
    simp only [Alg.idualG] at h
    have := IDual.ok_some h; subst this
    refine IRel.of_eventually (ψ := fun x => φ x + ψ x) (Eventually.of_forall fun x => rfl) ?_
    refine IRel.linG hr ha hb (α := 1) (β := 1) (by simpa using mem_point_cast 1)
      (by simpa using mem_point_cast 1) (Itv.addG_encl hr ha.1 hb.1) fun La Lb hLa hLb => ?_
    exact (hLa.add hLb).congr_fderiv (by simp)
  sub := by
    intro a φ b ψ x ha hb h
    simp only [Alg.idualG] at h
    have := IDual.ok_some h; subst this
    refine IRel.of_eventually (ψ := fun x => φ x - ψ x) (Eventually.of_forall fun x => rfl) ?_
    refine IRel.linG hr ha hb (α := 1) (β := -1) (by simpa using mem_point_cast 1)
      (by simpa using mem_point_cast (-1)) (Itv.subG_encl hr ha.1 hb.1) fun La Lb hLa hLb => ?_
    exact (hLa.sub hLb).congr_fderiv (by ext v; simp [sub_eq_add_neg])
  mul := by
    intro a φ b ψ x ha hb h
    simp only [Alg.idualG] at h
    have := IDual.ok_some h; subst this
    refine IRel.of_eventually (ψ := fun x => φ x * ψ x) (Eventually.of_forall fun x => rfl) ?_
    refine IRel.linG hr ha hb (α := ψ p) (β := φ p) hb.1 ha.1 (Itv.mulG_encl hr ha.1 hb.1)
      fun La Lb hLa hLb => ?_
    exact (hLa.mul hLb).congr_fderiv (by rw [add_comm])
  div := by
    intro a φ b ψ x ha hb h
    simp only [Alg.idualG] at h
    split at h
    · exact absurd h (by simp)
    · rename_i hb0
      have := IDual.ok_some h; subst this
      have h0 : ψ p ≠ 0 := fun e => not_mem_zero_of_containsExt hb0 (by have := hb.1; rwa [e] at this)
      have hne : ∀ᶠ x in 𝓝 p, ψ x ≠ 0 := hb.cont.eventually_ne h0
      refine IRel.of_eventually (ψ := fun x => φ x * (ψ x)⁻¹) ?_ ?_
      · filter_upwards [hne] with x hx
        simp only [Alg.realWith, Alg.real, if_neg hx, div_eq_mul_inv]
      · have hsq : ψ p * ψ p ≠ 0 := mul_ne_zero h0 h0
        refine IRel.linG hr ha hb (α := 1 / ψ p) (β := -(φ p / (ψ p * ψ p)))
          (Itv.divG_encl hr (by simpa using mem_point_cast 1) hb.1 h0)
          (Itv.neg_encl (Itv.divG_encl hr ha.1 (Itv.sqrG_encl hr hb.1) hsq)) ?_ fun La Lb hLa hLb => ?_
        · show φ p * (ψ p)⁻¹ ∈ _
          rw [← div_eq_mul_inv]
          exact Itv.divG_encl hr ha.1 hb.1 h0
        · have hinv := (hasDerivAt_inv h0).comp_hasFDerivAt p hLb
          refine (hLa.mul hinv).congr_fderiv ?_
          ext v
          simp only [_root_.add_apply, _root_.smul_apply, smul_eq_mul, Function.comp_apply]
          field_simp
          ring
  max := by
    intro a φ b ψ x _ _ h
    simp only [Alg.idualG] at h
    exact absurd h (by simp)
  min := by
    intro a φ b ψ x _ _ h
    simp only [Alg.idualG] at h
    exact absurd h (by simp)
  un := by
    intro op f g hf hg a φ x ha hx
    simp only [Alg.idualG] at hf
    split at hf
    · -- minus
      simp only [Alg.ev, Alg.realWith, Alg.real, Option.map_some, Option.some.injEq] at hf hg
      subst hf; subst hg
      have := IDual.ok_some hx; subst this
      refine IRel.of_eventually (ψ := fun x => -φ x) (Eventually.of_forall fun x => rfl) ?_
      refine IRel.scaleG hr ha (α := -1) (by simpa using mem_point_cast (-1)) (Itv.neg_encl ha.1)
        fun La hLa => ?_
      exact hLa.neg.congr_fderiv (by ext v; simp)
    · -- sqr
      simp only [Alg.ev, Alg.realWith, Alg.real, Option.map_some, Option.some.injEq] at hf hg
      subst hf; subst hg
      have := IDual.ok_some hx; subst this
      refine IRel.of_eventually (ψ := fun x => φ x * φ x) (Eventually.of_forall fun x => rfl) ?_
      refine IRel.scaleG hr ha (α := 2 * φ p) (Itv.mulG_encl hr (by simpa using mem_point_cast 2) ha.1)
        (Itv.sqrG_encl hr ha.1) fun La hLa => ?_
      exact (hLa.mul hLa).congr_fderiv (by rw [← add_smul, two_mul])
    · exact absurd hf (by simp)
  pow := by
    intro k a φ x ha h
    simp only [Alg.idualG] at h
    split at h
    · -- k = 0
      rename_i hk
      subst hk
      have := IDual.ok_some h; subst this
      refine IRel.of_eventually (ψ := fun _ => (1 : ℝ))
        (Eventually.of_forall fun x => by simp [Alg.realWith, Alg.real]) ?_
      refine IRel.scaleG hr ha (α := 0) (by simpa using mem_point_cast 0)
        (by simpa using mem_point_cast 1) fun La hLa => ?_
      exact (hasFDerivAt_const (1 : ℝ) p).congr_fderiv (by simp)
    · split at h
      · -- k = 1
        rename_i hk0 hk
        subst hk
        simp only [Option.some.injEq] at h
        subst h
        exact IRel.of_eventually (ψ := φ)
          (Eventually.of_forall fun x => by simp [Alg.realWith, Alg.real]) ha
      · split at h
        · -- k > 1
          rename_i hk0 hk1 hk
          have := IDual.ok_some h; subst this
          have hnn : ¬ k < 0 := by omega
          refine IRel.of_eventually (ψ := fun x => φ x ^ k)
            (Eventually.of_forall fun x => by simp [Alg.realWith, Alg.real, hnn]) ?_
          refine IRel.scaleG hr ha (α := (k : ℝ) * φ p ^ (k - 1)) ?_ ?_ fun La hLa => ?_
          · exact Itv.mulG_encl hr (by simpa using mem_point_cast (k : ℚ))
              (Itv.powIntG_encl hr (k - 1) ha.1 (fun h => by omega))
          · exact Itv.powIntG_encl hr k ha.1 (fun h => by omega)
          · exact (hasDerivAt_zpow k (φ p) (Or.inr (by omega))).comp_hasFDerivAt p hLa
        · split at h
          · exact absurd h (by simp)
          · -- k < 0, 0 ∉ a.v
            rename_i hk0 hk1 hk ha0
            have := IDual.ok_some h; subst this
            have h0 : φ p ≠ 0 := fun e => not_mem_zero_of_containsExt ha0 (by have := ha.1; rwa [e] at this)
            refine IRel.of_eventually (ψ := fun x => φ x ^ k) ?_ ?_
            · filter_upwards [ha.cont.eventually_ne h0] with x hx
              simp [Alg.realWith, Alg.real, hx]
            · refine IRel.scaleG hr ha (α := (k : ℝ) * φ p ^ (k - 1)) ?_ ?_ fun La hLa => ?_
              · exact Itv.mulG_encl hr (by simpa using mem_point_cast (k : ℚ))
                  (Itv.powIntG_encl hr (k - 1) ha.1 (fun _ => h0))
              · exact Itv.powIntG_encl hr k ha.1 (fun _ => h0)
              · exact (hasDerivAt_zpow k (φ p) (Or.inl h0)).comp_hasFDerivAt p hLa
  chi := by
    intro a φa b φb c φc x _ _ _ h
    simp only [Alg.idualG] at h
    exact absurd h (by simp)

/-! ## 2. every DAG: the interval Jacobian encloses the Jacobian of the real denotation -/

/-- **The interval Jacobian (generic rounding) encloses the Jacobian** (see `jacobian_encl`). -/
theorem jacobianG_encl (hr : r.Sound) {ch : Itv → Option ℝ} (hch : Sel ch) {progs : List (List Dag × Dag)}
    {h : Box} {J : List (List Itv)} (hJ : Newton.jacobianG r progs h = some J) :
    Forall₂ (fun q row => row.length = h.length ∧ ∀ p : Fin h.length → ℝ, Box.Mem (List.ofFn p) h →
      (∃ m, rootW ch q (List.ofFn p) = some m ∧ m.d = [valW ch q p]) ∧
      ∃ g : List ℝ, g.length = h.length ∧ Forall₂ RMem g row ∧
        HasFDerivAt (valW ch q) (gradR h.length g) p) progs J := by
  refine (C08.mapM_forall₂ hJ).imp fun q row hq => ?_
  split at hq
  · rename_i m hroot
    split at hq
    · rename_i d hmd
      split at hq
      · rename_i hlen
        simp only [Option.some.injEq] at hq
        subst hq
        have hlen' : d.g.length = h.length := by simpa using hlen
        refine ⟨hlen', fun p hp => ?_⟩
        have hA := Alg.idualG_ev hr hch h.length p
        obtain ⟨fv, hfv, hrr, hc, hd⟩ := Eval.root_rel_total hA (iseed_rel p hp)
          (Eval.buildCalls_rel_total hA q.1 fun _ _ nd _ => Alg.idualG_ev_supp ch _ nd)
          (fun nd _ => Alg.idualG_ev_supp ch _ nd) hroot
        rw [hmd] at hd
        obtain ⟨φ, l, hdφ, hl, hfd⟩ := List.forall₂_cons_left_iff.1 hd
        have hl' : l = [] := by simpa using hl
        subst hl'
        have hev : ∀ᶠ x in 𝓝 p, rootW ch q (List.ofFn x) = some (fv.at x) := by
          filter_upwards [Eval.root_ev (Eval.buildCalls_ev q.1) hfv] with x hx
          rw [coordFns_at] at hx
          exact hx
        have hval : valW ch q =ᶠ[𝓝 p] φ := by
          filter_upwards [hev] with x hx
          simp [valW, hx, Mat.at, Mat.map, hfd]
        refine ⟨⟨fv.at p, hev.self_of_nhds, ?_⟩, ?_⟩
        · simp [Mat.at, Mat.map, hfd, hval.eq_of_nhds]
        · obtain ⟨_, g, hg1, hg2, hg3⟩ := hdφ.congr hval
          exact ⟨g, hg1, hg2, hg3⟩
      · exact absurd hq (by simp)
    · exact absurd hq (by simp)
  · exact absurd hq (by simp)

theorem jacobianG_length {progs : List (List Dag × Dag)} {h : Box} {J : List (List Itv)}
    (hJ : Newton.jacobianG r progs h = some J) : J.length = progs.length :=
  (C08.mapM_forall₂ hJ).length_eq.symm

/-! ## 3. preconditioning -/

/-- the interval dot product of `precondG` encloses the real dot product -/
theorem precondG_fold_encl (hr : r.Sound) (col : ℕ) :
    ∀ (jrows : List (List Itv)) (crow : List ℚ) (acc : Itv) (s : ℝ) (a : ℕ → ℝ), s ∈ acc →
      (∀ k (hk : k < jrows.length), a k ∈ (jrows[k]).getD col .empty) →
      s + ∑ k ∈ Finset.range jrows.length, ((crow.getD k 0 : ℚ) : ℝ) * a k ∈
        (List.zip crow jrows).foldl (fun acc (q : ℚ × List Itv) =>
          Itv.addG r acc (Itv.mulG r (Itv.point q.1) (q.2.getD col .empty))) acc := by
  intro jrows
  induction jrows with
  | nil =>
    intro crow acc s a hs _
    simpa using hs
  | cons r0 rs ih =>
    intro crow acc s a hs ha
    cases crow with
    | nil =>
      simpa using hs
    | cons c cs =>
      simp only [List.zip_cons_cons, List.foldl_cons, List.length_cons]
      have h0 : a 0 ∈ r0.getD col .empty := by
        have := ha 0 (by simp)
        simpa using this
      have := ih cs (Itv.addG r acc (Itv.mulG r (Itv.point c) (r0.getD col .empty))) (s + (c : ℝ) * a 0)
        (fun k => a (k + 1)) (Itv.addG_encl hr hs (Itv.mulG_encl hr (mem_point_cast c) h0))
        (fun k hk => by
          have := ha (k + 1) (by simp; omega)
          simpa using this)
      rw [Finset.sum_range_succ']
      simp only [List.getD_cons_succ, List.getD_cons_zero]
      convert this using 1
      ring

/-- **`precondG` encloses the product**: `(C·A)_{i,col} ∈ (precondG r C J)_{i,col}` for every `A ∈ J` -/
theorem precondG_encl (hr : r.Sound) {c : List (List ℚ)} {j : List (List Itv)} {m : ℕ} (hj : j.length = m)
    (A : Fin m → Fin m → ℝ) (hA : ∀ i k : Fin m, A i k ∈ (j.getD i []).getD k .empty)
    (i col : Fin m) (hi : (i : ℕ) < c.length) :
    ∑ k : Fin m, (((c.getD i []).getD k 0 : ℚ) : ℝ) * A k col ∈
      ((Newton.precondG r c j).getD i []).getD col .empty := by
  let a : ℕ → ℝ := fun k => if h : k < m then A ⟨k, h⟩ col else 0
  have h := precondG_fold_encl hr col j (c.getD i []) (Itv.point 0) 0 a (by simpa using mem_point_cast 0) (by
    intro k hk
    have hkm : k < m := hj ▸ hk
    have := hA ⟨k, hkm⟩ col
    have e : j.getD k [] = j[k] := by
      rw [List.getD_eq_getElem?_getD, List.getElem?_eq_getElem hk]; rfl
    simp only [a, dif_pos hkm]
    rw [← e]
    exact this)
  rw [zero_add, hj, ← Fin.sum_univ_eq_sum_range (fun k => (((c.getD i []).getD k 0 : ℚ) : ℝ) * a k) m] at h
  have e : ∀ k : Fin m, a k = A k col := fun k => by simp [a, k.2]
  simp only [e] at h
  have hcol : (col : ℕ) < j.length := hj ▸ col.2
  unfold Newton.precondG
  simp only [List.getD_eq_getElem?_getD, List.getElem?_map, List.getElem?_eq_getElem hi,
    Option.map_some, Option.getD_some, List.getElem?_range hcol] at h ⊢
  exact h

/-- **Regularity from the preconditioned certificate** (generic rounding, see `regular_of_cert`). -/
theorem regular_of_certG (hr : r.Sound) {c : List (List ℚ)} {j : List (List Itv)} {m : ℕ} (hj : j.length = m)
    (hc : c.length = m) (hdd : Newton.diagDominant (Newton.precondG r c j) = true)
    (A : Fin m → Fin m → ℝ) (hA : ∀ i k : Fin m, A i k ∈ (j.getD i []).getD k .empty)
    (x : Fin m → ℝ) (hx : ∀ i, ∑ k, A i k * x k = 0) : x = 0 := by
  refine diagDominant_regular hdd (m := m) (by simp [Newton.precondG, hc]) ?_
    (fun i col => ∑ k : Fin m, (((c.getD i []).getD k 0 : ℚ) : ℝ) * A k col)
    (fun i col => precondG_encl hr hj A hA i col (hc ▸ i.2)) x fun i => ?_
  · intro row hrow
    simp only [Newton.precondG, List.mem_map] at hrow
    obtain ⟨crow, _, rfl⟩ := hrow
    simp [hj]
  · calc ∑ col, (∑ k : Fin m, (((c.getD i []).getD k 0 : ℚ) : ℝ) * A k col) * x col
        = ∑ col, ∑ k : Fin m, (((c.getD i []).getD k 0 : ℚ) : ℝ) * (A k col * x col) := by
          refine Finset.sum_congr rfl fun col _ => ?_
          rw [Finset.sum_mul]
          exact Finset.sum_congr rfl fun k _ => by ring
      _ = ∑ k : Fin m, (((c.getD i []).getD k 0 : ℚ) : ℝ) * ∑ col, A k col * x col := by
          rw [Finset.sum_comm]
          exact Finset.sum_congr rfl fun k _ => by rw [Finset.mul_sum]
      _ = 0 := by simp [hx]

end

end Ibex
