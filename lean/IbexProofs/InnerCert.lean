/-
  C14 — soundness of the checkers of `IbexModel/Inner.lean`, part 3: whole functions.

  `Alg.itvT` is the *total* interval algebra: an operator is defined only when the real operator
  is defined at every point of its arguments.  `Alg.itvT_real` is the operator-level statement;
  the generic naturality theorem of `EvalCert.lean` lifts it to DAGs (any size, sharing, vectors,
  matrices, applied functions): if the total interval evaluation of a DAG over a box is defined,
  the real function is DEFINED AT EVERY POINT of the box and its value belongs to the enclosure.
  The budgeted subdivision `certifyWith` and the exact point check `loupOk` follow.
-/
import IbexProofs.EvalCert
import IbexProofs.InnerBwd

namespace Ibex
open Ibex List Eval Inner

/-- the relation "the real `x` belongs to the interval `X`", interval first -/
abbrev IMem : Itv → ℝ → Prop := fun X x => x ∈ X

theorem itvNonEmpty_some {X Y : Itv} (h : itvNonEmpty X = some Y) : Y = X ∧ X.isEmpty = false := by
  unfold itvNonEmpty at h
  split at h
  · exact absurd h (by simp)
  · rename_i hne
    simp only [Option.some.injEq] at h
    exact ⟨h.symm, by simpa using hne⟩

/-- a selection of a member of every non-empty interval constant (thick constants come from the
    constant folding of the library: they denote *some* real of the interval) -/
structure Sel (ch : Itv → Option ℝ) : Prop where
  mem : ∀ I x, ch I = some x → x ∈ I
  total : ∀ I, (∃ x : ℝ, x ∈ I) → ∃ x, ch I = some x

open Classical in
/-- a selection exists (any member, by choice) -/
noncomputable def chAny (I : Itv) : Option ℝ := if h : ∃ x : ℝ, x ∈ I then some (Classical.choose h) else none

theorem chAny_sel : Sel chAny where
  mem := by
    intro I x h
    unfold chAny at h
    split at h
    · rename_i hex
      simp only [Option.some.injEq] at h
      rw [← h]
      exact Classical.choose_spec hex
    · exact absurd h (by simp)
  total := by
    intro I h
    exact ⟨_, by unfold chAny; rw [dif_pos h]⟩

/-- a well-formed non-empty interval has a member -/
theorem exists_mem_of_wf {I : Itv} (hwf : I.WF = true) (hne : I.isEmpty = false) : ∃ x : ℝ, x ∈ I := by
  cases I with
  | empty => simp [Itv.isEmpty] at hne
  | mk a b =>
    simp only [Itv.WF, Bool.and_eq_true, bne_iff_ne, ne_eq] at hwf
    obtain ⟨⟨hle, ha⟩, hb⟩ := hwf
    have hle' := (Ext.le_iff _ _).1 hle
    cases a with
    | pinf => exact absurd rfl ha
    | fin p => exact ⟨(p : ℝ), by simp, by simpa using hle'⟩
    | ninf =>
      cases b with
      | ninf => exact absurd rfl hb
      | fin q => exact ⟨(q : ℝ), by simp, by simp⟩
      | pinf => exact ⟨0, by simp, by simp⟩

theorem mem_zero_point : (0 : ℝ) ∈ Itv.point 0 := by
  simp [Itv.point, Itv.mem_mk]

/-- **Operator-level statement**: when a total interval operator is defined on intervals, the real
    operator is defined at every point of these intervals and its value is in the result. -/
theorem Alg.itvT_real {ch : Itv → Option ℝ} (hch : Sel ch) : AlgRel IMem Alg.itvT (Alg.realWith ch) where
  ofItv := by
    intro I a h
    simp only [Alg.itvT] at h
    split at h
    · rename_i hwf
      obtain ⟨e, hne⟩ := itvNonEmpty_some h
      subst e
      obtain ⟨x, hx⟩ := hch.total a (exists_mem_of_wf hwf hne)
      exact ⟨x, hx, hch.mem a x hx⟩
    · exact absurd h (by simp)
  zero := mem_zero_point
  add := by
    intro X x Y y Z hx hy h
    obtain ⟨e, _⟩ := itvNonEmpty_some h
    subst e
    exact ⟨x + y, rfl, Itv.add_encl hx hy⟩
  sub := by
    intro X x Y y Z hx hy h
    obtain ⟨e, _⟩ := itvNonEmpty_some h
    subst e
    exact ⟨x - y, rfl, Itv.sub_encl hx hy⟩
  mul := by
    intro X x Y y Z hx hy h
    obtain ⟨e, _⟩ := itvNonEmpty_some h
    subst e
    exact ⟨x * y, rfl, Itv.mul_encl hx hy⟩
  div := by
    intro X x Y y Z hx hy h
    simp only [Alg.itvT] at h
    split at h
    · exact absurd h (by simp)
    · rename_i hc
      obtain ⟨e, _⟩ := itvNonEmpty_some h
      subst e
      have hy0 : y ≠ 0 := not_containsExt_zero (by simpa [z0] using hc) hy
      exact ⟨x / y, by simp [Alg.realWith, Alg.real, hy0], Itv.div_encl hx hy hy0⟩
  max := by
    intro X x Y y Z hx hy h
    obtain ⟨e, _⟩ := itvNonEmpty_some h
    subst e
    exact ⟨Max.max x y, rfl, Itv.max_encl hx hy⟩
  min := by
    intro X x Y y Z hx hy h
    obtain ⟨e, _⟩ := itvNonEmpty_some h
    subst e
    exact ⟨Min.min x y, rfl, Itv.min_encl hx hy⟩
  un := by
    intro op f g hf hg X x Z hx hZ
    simp only [Alg.itvT] at hf
    split at hf
    · simp only [Alg.realWith, Alg.real, Option.some.injEq] at hf hg
      subst hf; subst hg
      obtain ⟨e, _⟩ := itvNonEmpty_some hZ
      subst e
      exact ⟨-x, rfl, Itv.neg_encl hx⟩
    · simp only [Alg.realWith, Alg.real, Option.some.injEq] at hf hg
      subst hf; subst hg
      obtain ⟨e, _⟩ := itvNonEmpty_some hZ
      subst e
      exact ⟨x * x, rfl, Itv.sqr_encl hx⟩
    · simp only [Alg.realWith, Alg.real, Option.some.injEq] at hf hg
      subst hf; subst hg
      obtain ⟨e, _⟩ := itvNonEmpty_some hZ
      subst e
      exact ⟨|x|, rfl, Itv.abs_encl hx⟩
    · simp only [Alg.realWith, Alg.real, Option.some.injEq] at hf hg
      subst hf; subst hg
      obtain ⟨e, _⟩ := itvNonEmpty_some hZ
      subst e
      exact ⟨_, rfl, Itv.sign_encl hx⟩
    · simp only [Alg.realWith, Alg.real, Option.some.injEq] at hf hg
      subst hf; subst hg
      cases X with
      | empty => exact absurd hx (Itv.not_mem_empty x)
      | mk lo hi =>
        simp only at hZ
        split at hZ
        · rename_i h0
          obtain ⟨e, _⟩ := itvNonEmpty_some hZ
          subst e
          have hlo : ((0 : ℝ) : EReal) ≤ lo.toE := by simpa using (Ext.le_iff _ _).1 h0
          have hx0 : 0 ≤ x := by exact_mod_cast le_trans hlo hx.1
          exact ⟨Real.sqrt x, by simp [hx0], Itv.sqrt_encl hx hx0⟩
        · exact absurd hZ (by simp)
    · simp only [Alg.realWith, Alg.real, Option.some.injEq] at hf hg
      subst hf; subst hg
      obtain ⟨e, _⟩ := itvNonEmpty_some hZ
      subst e
      exact ⟨_, rfl, Itv.floor_encl hx⟩
    · simp only [Alg.realWith, Alg.real, Option.some.injEq] at hf hg
      subst hf; subst hg
      obtain ⟨e, _⟩ := itvNonEmpty_some hZ
      subst e
      exact ⟨_, rfl, Itv.ceil_encl hx⟩
    · exact absurd hf (by simp)
  pow := by
    intro n X x Z hx h
    simp only [Alg.itvT] at h
    split at h
    · exact absurd h (by simp)
    · rename_i hc
      obtain ⟨e, _⟩ := itvNonEmpty_some h
      subst e
      have h0 : n < 0 → x ≠ 0 := by
        intro hn
        have : Itv.containsExt X (.fin 0) = false := by
          simp only [Bool.and_eq_true, decide_eq_true_eq, not_and, Bool.not_eq_true] at hc
          exact hc hn
        exact not_containsExt_zero (by simpa [z0] using this) hx
      refine ⟨x ^ n, ?_, Itv.powInt_encl n hx h0⟩
      simp only [Alg.realWith, Alg.real]
      rw [if_neg]
      rintro ⟨hn, hx0⟩
      exact h0 hn hx0
  chi := by
    intro X x Y y Z z W hx hy hz h
    cases X with
    | empty => exact absurd hx (Itv.not_mem_empty x)
    | mk al ah =>
      simp only [Alg.itvT] at h
      obtain ⟨h1, h2⟩ := hx
      split at h
      · rename_i hle
        rw [Ext.le_iff, Ext.toE_fin] at hle
        obtain ⟨e, _⟩ := itvNonEmpty_some h
        subst e
        have : x ≤ 0 := by exact_mod_cast le_trans h2 hle
        exact ⟨y, by simp [Alg.realWith, Alg.real, this], hy⟩
      · split at h
        · rename_i _ hlt
          rw [Ext.lt_iff, Ext.toE_fin] at hlt
          obtain ⟨e, _⟩ := itvNonEmpty_some h
          subst e
          have : ¬ x ≤ 0 := not_le.2 (by exact_mod_cast lt_of_lt_of_le hlt h1)
          exact ⟨z, by simp [Alg.realWith, Alg.real, this], hz⟩
        · obtain ⟨e, _⟩ := itvNonEmpty_some h
          subst e
          refine ⟨if x ≤ 0 then y else z, rfl, ?_⟩
          split
          · exact Itv.mem_hull_left hy
          · exact Itv.mem_hull_right hz

/-- every unary operator of `Alg.itvT` is an operator of the real semantics -/
theorem Alg.itvT_real_un {ch : Itv → Option ℝ} (op : String) (h : (Alg.realWith ch).un op = none) :
    Alg.itvT.un op = none := by
  simp only [Alg.itvT]
  split
  all_goals first
    | rfl
    | (simp [Alg.realWith, Alg.real] at h)

theorem Alg.itvT_real_supp {ch : Itv → Option ℝ} (n : Node) : Eval.Supp Alg.itvT (Alg.realWith ch) n :=
  fun op _ _ _ h => Alg.itvT_real_un op h

namespace Inner

/-- the real value of the DAG at the point `p` (interval constants read through `ch`) -/
noncomputable def realRoot (ch : Itv → Option ℝ) (funs : List Dag) (dag : Dag) (p : List ℝ) : Option (Mat ℝ) :=
  Eval.root (Alg.realWith ch) p (Eval.buildCalls (Alg.realWith ch) funs) dag

/-- the point `p` belongs to the box -/
def InBox (box : List Itv) (p : List ℝ) : Prop := Forall₂ IMem box p

theorem inBox_of_mem {p : List ℝ} {b : Box} (h : Box.Mem p b) : InBox b p := List.Forall₂.flip h
theorem mem_of_inBox {p : List ℝ} {b : Box} (h : InBox b p) : Box.Mem p b := List.Forall₂.flip h

/-- **Total interval evaluation**: defined on the box ⇒ the real function is defined at every point
    of the box, with its value in the enclosure. -/
theorem evalT_sound {ch : Itv → Option ℝ} (hch : Sel ch) {funs : List Dag} {dag : Dag} {box : List Itv}
    {Z : Mat Itv} (h : evalT funs dag box = some Z) {p : List ℝ} (hp : InBox box p) :
    ∃ v, realRoot ch funs dag p = some v ∧ MatRel IMem Z v :=
  root_rel_total (Alg.itvT_real hch) hp
    (buildCalls_rel_total (Alg.itvT_real hch) funs (fun _ _ n _ => Alg.itvT_real_supp n))
    (fun n _ => Alg.itvT_real_supp n) h

/-- meaning of a requirement for a real matrix value -/
def RealSat (s : Spec) (v : Mat ℝ) : Prop :=
  match s with
  | .inM Y => MatRel IMem Y v
  | .leq => ∀ x ∈ v.d, x ≤ 0
  | .lt => ∀ x ∈ v.d, x < 0
  | .geq => ∀ x ∈ v.d, 0 ≤ x
  | .gt => ∀ x ∈ v.d, 0 < x
  | .eq => ∀ x ∈ v.d, x = 0

theorem forall₂_imem_subset : ∀ {zd yd : List Itv} {vd : List ℝ}, Forall₂ IMem zd vd → zd.length = yd.length →
    ((List.zip zd yd).all fun p => Itv.subset p.1 p.2) = true → Forall₂ IMem yd vd := by
  intro zd yd vd h
  induction h generalizing yd with
  | nil =>
    intro hl _
    cases yd with
    | nil => exact .nil
    | cons _ _ => simp at hl
  | cons hab _ ih =>
    intro hl hs
    cases yd with
    | nil => simp at hl
    | cons y yd =>
      simp only [List.zip_cons_cons, List.all_cons, Bool.and_eq_true] at hs
      simp only [List.length_cons, Nat.add_right_cancel_iff] at hl
      exact .cons (Itv.mem_of_subset hs.1 hab) (ih hl hs.2)

theorem itvSat_sound {s : Spec} {Z : Itv} (h : itvSat s Z = true) {x : ℝ} (hx : x ∈ Z) :
    match s with
    | .inM _ => False
    | .leq => x ≤ 0
    | .lt => x < 0
    | .geq => 0 ≤ x
    | .gt => 0 < x
    | .eq => x = 0 := by
  cases Z with
  | empty => exact absurd hx (Itv.not_mem_empty x)
  | mk l u =>
    obtain ⟨h1, h2⟩ := hx
    cases s <;> simp only [itvSat] at h ⊢
    · exact absurd h (by simp)
    · have := (Ext.le_iff _ _).1 h
      have h3 : (x : EReal) ≤ ((0 : ℝ) : EReal) := le_trans h2 (by simpa [z0] using this)
      exact_mod_cast h3
    · have := (Ext.lt_iff _ _).1 h
      have h3 : (x : EReal) < ((0 : ℝ) : EReal) := lt_of_le_of_lt h2 (by simpa [z0] using this)
      exact_mod_cast h3
    · have := (Ext.le_iff _ _).1 h
      have h3 : ((0 : ℝ) : EReal) ≤ (x : EReal) := le_trans (by simpa [z0] using this) h1
      exact_mod_cast h3
    · have := (Ext.lt_iff _ _).1 h
      have h3 : ((0 : ℝ) : EReal) < (x : EReal) := lt_of_lt_of_le (by simpa [z0] using this) h1
      exact_mod_cast h3
    · simp only [Bool.and_eq_true, beq_iff_eq] at h
      obtain ⟨e1, e2⟩ := h
      subst e1; subst e2
      have a1 : (0 : ℝ) ≤ x := by exact_mod_cast (by simpa [z0] using h1 : ((0 : ℝ) : EReal) ≤ (x : EReal))
      have a2 : x ≤ (0 : ℝ) := by exact_mod_cast (by simpa [z0] using h2 : (x : EReal) ≤ ((0 : ℝ) : EReal))
      exact le_antisymm a2 a1

theorem forall₂_imem_all {zd : List Itv} {vd : List ℝ} (h : Forall₂ IMem zd vd) {P : Itv → Prop} {Q : ℝ → Prop}
    (hPQ : ∀ Z x, P Z → x ∈ Z → Q x) (hP : ∀ Z ∈ zd, P Z) : ∀ x ∈ vd, Q x := by
  induction h with
  | nil => intro x hx; simp at hx
  | cons hab _ ih =>
    intro x hx
    simp only [List.mem_cons] at hx
    rcases hx with rfl | hx
    · exact hPQ _ _ (hP _ (by simp)) hab
    · exact ih (fun Z hZ => hP Z (by simp [hZ])) x hx

/-- **an accepted enclosure satisfies the requirement at each of its members** -/
theorem matSat_sound {s : Spec} {Z : Mat Itv} (h : matSat s Z = true) {v : Mat ℝ} (hv : MatRel IMem Z v) :
    RealSat s v := by
  obtain ⟨hr, hc, hd⟩ := hv
  cases s with
  | inM Y =>
    simp only [matSat, Eval.matSubset, Bool.and_eq_true, beq_iff_eq] at h
    obtain ⟨⟨⟨e1, e2⟩, e3⟩, hall⟩ := h
    exact ⟨e1.symm.trans hr, e2.symm.trans hc, forall₂_imem_subset hd e3 hall⟩
  | leq =>
    simp only [matSat, List.all_eq_true] at h
    exact forall₂_imem_all hd (P := fun Z => itvSat .leq Z = true) (fun Z x hZ hx => itvSat_sound hZ hx) h
  | lt =>
    simp only [matSat, List.all_eq_true] at h
    exact forall₂_imem_all hd (P := fun Z => itvSat .lt Z = true) (fun Z x hZ hx => itvSat_sound hZ hx) h
  | geq =>
    simp only [matSat, List.all_eq_true] at h
    exact forall₂_imem_all hd (P := fun Z => itvSat .geq Z = true) (fun Z x hZ hx => itvSat_sound hZ hx) h
  | gt =>
    simp only [matSat, List.all_eq_true] at h
    exact forall₂_imem_all hd (P := fun Z => itvSat .gt Z = true) (fun Z x hZ hx => itvSat_sound hZ hx) h
  | eq =>
    simp only [matSat, List.all_eq_true] at h
    exact forall₂_imem_all hd (P := fun Z => itvSat .eq Z = true) (fun Z x hZ hx => itvSat_sound hZ hx) h

/-! ### subdivision -/

theorem splitAt_cover : ∀ (box : List Itv) (i : Nat) (m : Rat) {p : List ℝ}, InBox box p →
    InBox (splitAt box i m).1 p ∨ InBox (splitAt box i m).2 p := by
  intro box
  induction box with
  | nil => intro i m p hp; exact .inl (by simpa [splitAt] using hp)
  | cons I r ih =>
    intro i m p hp
    cases hp with
    | cons hI hr =>
      rename_i x q
      cases i with
      | zero =>
        cases I with
        | empty => exact absurd hI (Itv.not_mem_empty x)
        | mk a b =>
          simp only [splitAt]
          by_cases hx : x ≤ (m : ℝ)
          · exact .inl (.cons ⟨hI.1, by simpa using hx⟩ hr)
          · exact .inr (.cons ⟨by simpa using le_of_lt (not_le.1 hx), hI.2⟩ hr)
      | succ i =>
        simp only [splitAt]
        rcases ih i m hr with h | h
        · exact .inl (.cons hI h)
        · exact .inr (.cons hI h)

/-- **Certification of a whole box** (any subdivision depth): if no leaf is left undecided, the real
    function is defined at EVERY point of the box and its value belongs to an enclosure accepted by
    `chk`. -/
theorem certifyWith_sound {ch : Itv → Option ℝ} (hch : Sel ch) {funs : List Dag} {dag : Dag}
    {chk : Mat Itv → Bool} : ∀ (fuel : Nat) {box : List Itv}, certifyWith funs dag chk fuel box = 0 →
    ∀ {p : List ℝ}, InBox box p → ∃ v Z, realRoot ch funs dag p = some v ∧ chk Z = true ∧ MatRel IMem Z v := by
  have base : ∀ {box : List Itv}, certBoxWith funs dag chk box = true →
      ∀ {p : List ℝ}, InBox box p → ∃ v Z, realRoot ch funs dag p = some v ∧ chk Z = true ∧ MatRel IMem Z v := by
    intro box h p hp
    unfold certBoxWith at h
    cases hz : evalT funs dag box with
    | none => simp [hz] at h
    | some Z =>
      simp only [hz] at h
      obtain ⟨v, hv, hm⟩ := evalT_sound hch hz hp
      exact ⟨v, Z, hv, h, hm⟩
  intro fuel
  induction fuel with
  | zero =>
    intro box h p hp
    simp only [certifyWith] at h
    split at h
    · rename_i hc; exact base hc hp
    · exact absurd h (by simp)
  | succ fuel ih =>
    intro box h p hp
    simp only [certifyWith] at h
    split at h
    · rename_i hc; exact base hc hp
    · split at h
      · exact absurd h (by simp)
      · rename_i i m _
        have h1 : certifyWith funs dag chk fuel (splitAt box i m).1 = 0 := by omega
        have h2 : certifyWith funs dag chk fuel (splitAt box i m).2 = 0 := by omega
        rcases splitAt_cover box i m hp with hp' | hp'
        · exact ih h1 hp'
        · exact ih h2 hp'

/-- **Inner box of a requirement** (`Function::ibwd`, `is_inner`, `active_ctrs`): an accepted box
    has ALL its points mapped into the requirement, the function being defined at each of them. -/
theorem certify_sound {ch : Itv → Option ℝ} (hch : Sel ch) {funs : List Dag} {dag : Dag} {s : Spec}
    {fuel : Nat} {box : List Itv} (h : certify funs dag s fuel box = 0) {p : List ℝ} (hp : InBox box p) :
    ∃ v, realRoot ch funs dag p = some v ∧ RealSat s v := by
  obtain ⟨v, Z, hv, hZ, hm⟩ := certifyWith_sound hch fuel h hp
  exact ⟨v, hv, matSat_sound hZ hm⟩


/-! ### exact rational evaluation at a point (loup points, sample points) -/

/-- the real semantics with degenerate constants only (`Alg.real`) is a special case of every
    selection semantics: same operators, and a degenerate constant has only one member -/
theorem Alg.real_realWith {ch : Itv → Option ℝ} (hch : Sel ch) : AlgRel Eq Alg.real (Alg.realWith ch) where
  ofItv := by
    intro I a h
    unfold Alg.real realOfItv at h
    simp only at h
    split at h
    · rename_i q q'
      split at h
      · rename_i e
        subst e
        simp only [Option.some.injEq] at h
        subst h
        obtain ⟨x, hx⟩ := hch.total (.mk (.fin q) (.fin q)) ⟨(q : ℝ), by simp [Itv.mem_mk]⟩
        refine ⟨x, hx, ?_⟩
        obtain ⟨h1, h2⟩ := hch.mem _ _ hx
        have a1 : (q : ℝ) ≤ x := by
          have : ((q : ℝ) : EReal) ≤ (x : EReal) := by simpa using h1
          exact_mod_cast this
        have a2 : x ≤ (q : ℝ) := by
          have : (x : EReal) ≤ ((q : ℝ) : EReal) := by simpa using h2
          exact_mod_cast this
        exact le_antisymm a1 a2
      · exact absurd h (by simp)
    · exact absurd h (by simp)
  zero := rfl
  add := by intro a b a' b' x e e' h; subst e; subst e'; exact ⟨x, h, rfl⟩
  sub := by intro a b a' b' x e e' h; subst e; subst e'; exact ⟨x, h, rfl⟩
  mul := by intro a b a' b' x e e' h; subst e; subst e'; exact ⟨x, h, rfl⟩
  div := by intro a b a' b' x e e' h; subst e; subst e'; exact ⟨x, h, rfl⟩
  max := by intro a b a' b' x e e' h; subst e; subst e'; exact ⟨x, h, rfl⟩
  min := by intro a b a' b' x e e' h; subst e; subst e'; exact ⟨x, h, rfl⟩
  un := by
    intro op f g hf hg a b x e h
    subst e
    have : (Alg.realWith ch).un op = Alg.real.un op := rfl
    rw [this, hf] at hg
    simp only [Option.some.injEq] at hg
    subst hg
    exact ⟨x, h, rfl⟩
  pow := by intro n a b x e h; subst e; exact ⟨x, h, rfl⟩
  chi := by
    intro a b a' b' a'' b'' x e e' e'' h
    subst e; subst e'; subst e''
    exact ⟨x, h, rfl⟩

theorem forall₂_eq_id {l1 l2 : List ℝ} (h : Forall₂ Eq l1 l2) : l1 = l2 := by
  induction h with
  | nil => rfl
  | cons e _ ih => subst e; rw [ih]

theorem matRel_eq {a b : Mat ℝ} (h : MatRel Eq a b) : a = b := by
  obtain ⟨hr, hc, hd⟩ := h
  cases a; cases b
  simp only at hr hc hd
  subst hr; subst hc
  rw [forall₂_eq_id hd]

theorem forall₂_self_eq (l : List ℝ) : Forall₂ Eq l l := by
  induction l with
  | nil => exact .nil
  | cons a l ih => exact .cons rfl ih

/-- exact rational evaluation is the real semantics, for every selection of the constants -/
theorem evalQ_real {ch : Itv → Option ℝ} (hch : Sel ch) {funs : List Dag} {dag : Dag} {q : List ℚ} {v : Mat ℚ}
    (h : evalQ funs dag q = some v) :
    ∃ z, realRoot ch funs dag (q.map (Rat.cast : ℚ → ℝ)) = some z ∧ MatRel RCast v z := by
  have hq : ∀ l : List ℚ, Forall₂ RCast l (l.map (Rat.cast : ℚ → ℝ)) := by
    intro l
    induction l with
    | nil => exact .nil
    | cons t l ih => exact .cons rfl ih
  have hq := hq q
  obtain ⟨z, hz, hvz⟩ := root_rel_total Alg.rat_real hq
    (buildCalls_rel_total Alg.rat_real funs (fun _ _ n _ => Alg.rat_real_supp n))
    (fun n _ => Alg.rat_real_supp n) h
  have hsupp : ∀ n : Node, Eval.Supp Alg.real (Alg.realWith ch) n := fun n op _ _ _ h => h
  obtain ⟨z', hz', hzz⟩ := root_rel_total (Alg.real_realWith hch) (forall₂_self_eq _)
    (buildCalls_rel_total (Alg.real_realWith hch) funs (fun _ _ n _ => hsupp n))
    (fun n _ => hsupp n) hz
  rw [← matRel_eq hzz] at hz'
  exact ⟨z, hz', hvz⟩

theorem ratSat1_sound {s : Spec} {q : Rat} (h : ratSat1 s q = true) :
    match s with
    | .inM _ => False
    | .leq => (q : ℝ) ≤ 0
    | .lt => (q : ℝ) < 0
    | .geq => (0 : ℝ) ≤ q
    | .gt => (0 : ℝ) < q
    | .eq => (q : ℝ) = 0 := by
  cases s <;> simp only [ratSat1, decide_eq_true_eq] at h ⊢
  · exact absurd h (by simp)
  all_goals exact_mod_cast h

theorem forall₂_rcast_all {qd : List ℚ} {vd : List ℝ} (h : Forall₂ RCast qd vd) {P : ℚ → Prop} {Q : ℝ → Prop}
    (hPQ : ∀ q, P q → Q (q : ℝ)) (hP : ∀ q ∈ qd, P q) : ∀ x ∈ vd, Q x := by
  induction h with
  | nil => intro x hx; simp at hx
  | cons hab _ ih =>
    intro x hx
    simp only [List.mem_cons] at hx
    rcases hx with rfl | hx
    · rw [hab]; exact hPQ _ (hP _ (by simp))
    · exact ih (fun q hq => hP q (by simp [hq])) x hx

theorem forall₂_rcast_mem : ∀ {qd : List ℚ} {vd : List ℝ} {yd : List Itv}, Forall₂ RCast qd vd →
    qd.length = yd.length → ((List.zip qd yd).all fun p => memQ p.1 p.2) = true → Forall₂ IMem yd vd := by
  intro qd vd yd h
  induction h generalizing yd with
  | nil =>
    intro hl _
    cases yd with
    | nil => exact .nil
    | cons _ _ => simp at hl
  | cons hab _ ih =>
    intro hl hs
    cases yd with
    | nil => simp at hl
    | cons y yd =>
      simp only [List.zip_cons_cons, List.all_cons, Bool.and_eq_true] at hs
      simp only [List.length_cons, Nat.add_right_cancel_iff] at hl
      refine .cons ?_ (ih hl hs.2)
      show _ ∈ y
      rw [hab]
      exact memQ_mem hs.1

/-- an exact rational value accepted by `ratSat` satisfies the requirement as a real value -/
theorem ratSat_sound {s : Spec} {v : Mat ℚ} (h : ratSat s v = true) {z : Mat ℝ} (hz : MatRel RCast v z) :
    RealSat s z := by
  obtain ⟨hr, hc, hd⟩ := hz
  cases s with
  | inM Y =>
    simp only [ratSat, Bool.and_eq_true, beq_iff_eq] at h
    obtain ⟨⟨⟨e1, e2⟩, e3⟩, hall⟩ := h
    exact ⟨e1.symm.trans hr, e2.symm.trans hc, forall₂_rcast_mem hd e3 hall⟩
  | leq =>
    simp only [ratSat, List.all_eq_true] at h
    exact forall₂_rcast_all hd (P := fun q => ratSat1 .leq q = true) (fun q hq => ratSat1_sound hq) h
  | lt =>
    simp only [ratSat, List.all_eq_true] at h
    exact forall₂_rcast_all hd (P := fun q => ratSat1 .lt q = true) (fun q hq => ratSat1_sound hq) h
  | geq =>
    simp only [ratSat, List.all_eq_true] at h
    exact forall₂_rcast_all hd (P := fun q => ratSat1 .geq q = true) (fun q hq => ratSat1_sound hq) h
  | gt =>
    simp only [ratSat, List.all_eq_true] at h
    exact forall₂_rcast_all hd (P := fun q => ratSat1 .gt q = true) (fun q hq => ratSat1_sound hq) h
  | eq =>
    simp only [ratSat, List.all_eq_true] at h
    exact forall₂_rcast_all hd (P := fun q => ratSat1 .eq q = true) (fun q hq => ratSat1_sound hq) h

/-- **Loup points**: if `loupOk` accepts the point `p` and the bound `loup`, every constraint of the
    system holds at `p` (as real numbers, the functions being defined there) and the value of the
    goal at `p` is at most `loup`. -/
theorem loupOk_sound {ch : Itv → Option ℝ} (hch : Sel ch) {funs : List (List Dag)} {ctrs : List (Dag × Spec)}
    {gfuns : List Dag} {goal : Dag} {p : List ℚ} {loup : Ext} (h : loupOk funs ctrs gfuns goal p loup = true) :
    (∀ c ∈ List.zip funs ctrs, ∃ z, realRoot ch c.1 c.2.1 (p.map (Rat.cast : ℚ → ℝ)) = some z ∧ RealSat c.2.2 z) ∧
    funs.length = ctrs.length ∧
    ∃ g : ℝ, realRoot ch gfuns goal (p.map (Rat.cast : ℚ → ℝ)) = some (Mat.scalar g) ∧ (g : EReal) ≤ loup.toE := by
  simp only [loupOk, Bool.and_eq_true, List.all_eq_true, beq_iff_eq] at h
  obtain ⟨⟨hc, hlen⟩, hg⟩ := h
  refine ⟨?_, hlen, ?_⟩
  · intro c hcm
    have := hc c hcm
    cases hv : evalQ c.1 c.2.1 p with
    | none => simp [hv] at this
    | some v =>
      simp only [hv] at this
      obtain ⟨z, hz, hvz⟩ := evalQ_real hch hv
      exact ⟨z, hz, ratSat_sound this hvz⟩
  · cases hv : evalQ gfuns goal p with
    | none => simp [hv] at hg
    | some v =>
      simp only [hv] at hg
      obtain ⟨z, hz, hvz⟩ := evalQ_real hch hv
      split at hg
      · rename_i g heq
        simp only [Option.some.injEq] at heq
        subst heq
        obtain ⟨hr, hcc, hd⟩ := hvz
        obtain ⟨zr, zc, zd⟩ := z
        simp only at hr hcc hd
        cases hd with
        | cons hab htl =>
          cases htl
          subst hr; subst hcc
          refine ⟨_, hz, ?_⟩
          rw [hab]
          simpa using (Ext.le_iff _ _).1 hg
      · exact absurd hg (by simp)

end Inner
end Ibex
