/-
  C13 — the MODEL of the derived systems (`IbexModel/Sys.lean`) has the property, over the reals:
  evaluation lemmas for the DAG surgery (`negDag`, `subConstDag`, `constSubDag`, `subVarDag`,
  `renameDag`, extension of the environment) and the four theorems
  `normalized_iff`, `extended_iff`, `copy_keeps`, `merge_keeps`.
-/
import IbexProofs.SysSem

namespace Ibex
namespace Sys
open Ibex Ibex.Eval

variable {A : Alg ℝ}

/-! ### evaluation of the derived DAGs -/

theorem run_push (env : List ℝ) (call : Nat → List (Mat ℝ) → Option (Mat ℝ)) (d : Dag) (n : Node) :
    run A env call (d.push n) = (run A env call d).bind fun vals => step A env call vals n := by
  rw [run_eq, run_eq, Array.toList_push, List.foldlM_append]
  simp [bind]

theorem root_of_back_none {env : List ℝ} {call : Nat → List (Mat ℝ) → Option (Mat ℝ)} {d : Dag}
    (h : d.back? = none) : root A env call d = none := by
  rw [Array.back?_eq_none_iff] at h
  subst h
  simp [root, run]

/-- the value of the last node has the dimensions of the last node -/
theorem run_back {env : List ℝ} {call : Nat → List (Mat ℝ) → Option (Mat ℝ)} {d : Dag}
    {vals : Array (Mat ℝ)} (h : run A env call d = some vals) {nd : Node} (hb : d.back? = some nd) :
    vals.size = d.size ∧ ∃ v, vals.back? = some v ∧ v.r = nd.r ∧ v.c = nd.c := by
  constructor
  · rw [run_eq] at h
    have := (fold_prefix _ h).1
    simpa using this
  · have hne : d.size ≠ 0 := by
      intro h0
      have : d = #[] := Array.eq_empty_of_size_eq_zero h0
      subst this
      simp at hb
    obtain ⟨d', x, rfl⟩ := Array.eq_push_of_size_ne_zero hne
    rw [Array.back?_push] at hb
    cases hb
    rw [run_push] at h
    simp only [Option.bind_eq_some_iff] at h
    obtain ⟨vals', _, h⟩ := h
    obtain ⟨v, _, hr, hc, rfl⟩ := step_eq_some h
    exact ⟨v, Array.back?_push, hr, hc⟩

theorem root_eq_some_iff {env : List ℝ} {call : Nat → List (Mat ℝ) → Option (Mat ℝ)} {d : Dag} {v : Mat ℝ} :
    root A env call d = some v ↔ ∃ vals, run A env call d = some vals ∧ vals.back? = some v := by
  simp [root, Option.bind_eq_some_iff]

/-- evaluation of a DAG with one more node -/
theorem root_push {env : List ℝ} {call : Nat → List (Mat ℝ) → Option (Mat ℝ)} {d : Dag}
    {vals : Array (Mat ℝ)} (h : run A env call d = some vals) (n : Node) :
    root A env call (d.push n) =
      (nodeVal A env call vals n).bind fun w => if w.r = n.r ∧ w.c = n.c then some w else none := by
  simp only [root, run_push, h, Option.bind_some, step, bind]
  cases nodeVal A env call vals n with
  | none => rfl
  | some w =>
    simp only [Option.bind_some]
    by_cases hd : w.r = n.r ∧ w.c = n.c
    · simp [hd, pure]
    · rw [if_neg hd]
      have : (w.r == n.r && w.c == n.c) = false := by
        simpa [Bool.and_eq_false_iff] using hd
      simp [this]

theorem mapM_some {α β : Type} (f : α → β) (l : List α) : l.mapM (fun a => some (f a)) = some (l.map f) := by
  induction l with
  | nil => rfl
  | cons a l ih => simp [List.mapM_cons, ih]


theorem getElem?_last {α : Type} {vals : Array α} {v : α} (h : vals.back? = some v) :
    vals[vals.size - 1]? = some v := by
  rw [← Array.back?_eq_getElem?]; exact h

/-- value of `-f` -/
theorem evalR_neg (hA : RealLike A) (f : Prog) (ρ : List ℝ) :
    evalR A f.neg ρ = (evalR A f ρ).map fun v => ⟨v.r, v.c, v.d.map fun x => -x⟩ := by
  unfold evalR Prog.neg negDag
  simp only
  cases hb : f.main.back? with
  | none => simp [root_of_back_none hb]
  | some nd =>
    simp only
    cases hr : run A ρ (buildCalls A f.funs) f.main with
    | none => simp [root, run_push, hr]
    | some vals =>
      obtain ⟨hs, v, hv, hvr, hvc⟩ := run_back hr hb
      rw [root_push hr]
      have h1 : root A ρ (buildCalls A f.funs) f.main = some v := by
        rw [root_eq_some_iff]; exact ⟨vals, hr, hv⟩
      rw [h1]
      have h2 : vals[f.main.size - 1]? = some v := by rw [← hs]; exact getElem?_last hv
      simp [nodeVal, h2, unVal, hA.neg, Mat.mapM?, mapM_some, hvr, hvc]


theorem mapM_replicate {α β : Type} (f : α → Option β) (a : α) (b : β) (h : f a = some b) (k : ℕ) :
    (List.replicate k a).mapM f = some (List.replicate k b) := by
  induction k with
  | zero => rfl
  | succ k ih => simp [List.replicate_succ, List.mapM_cons, ih, h]

theorem zip_replicate_right (l : List ℝ) (q : ℝ) (k : ℕ) (h : l.length = k) :
    (List.zip l (List.replicate k q)).map (fun p => p.1 - p.2) = l.map fun x => x - q := by
  induction l generalizing k with
  | nil => simp
  | cons a l ih =>
    cases k with
    | zero => simp at h
    | succ k => simp [List.replicate_succ, ih k (by simpa using h)]

theorem zip_replicate_left (l : List ℝ) (q : ℝ) (k : ℕ) (h : l.length = k) :
    (List.zip (List.replicate k q) l).map (fun p => p.1 - p.2) = l.map fun x => q - x := by
  induction l generalizing k with
  | nil => simp
  | cons a l ih =>
    cases k with
    | zero => simp at h
    | succ k => simp [List.replicate_succ, ih k (by simpa using h)]

theorem zip?_sub (hA : RealLike A) (a b : Mat ℝ) :
    Mat.zip? A.sub a b =
      if a.r = b.r ∧ a.c = b.c then some ⟨a.r, a.c, (List.zip a.d b.d).map fun p => p.1 - p.2⟩ else none := by
  unfold Mat.zip?
  have : (fun p : ℝ × ℝ => A.sub p.1 p.2) = fun p => some (p.1 - p.2) := by
    funext p; exact hA.sub _ _
  rw [this, mapM_some]
  by_cases h : a.r = b.r ∧ a.c = b.c
  · simp [h]
  · rw [if_neg h]
    have : (a.r == b.r && a.c == b.c) = false := by simpa [Bool.and_eq_false_iff] using h
    simp [this]

theorem binVal_sub (a b : Mat ℝ) : binVal A "sub" a b = Mat.zip? A.sub a b := rfl

/-- the value of a constant node `q` replicated -/
theorem nodeVal_const (hA : RealLike A) (env : List ℝ) (call : Nat → List (Mat ℝ) → Option (Mat ℝ))
    (vals : Array (Mat ℝ)) (q : ℚ) (r c : ℕ) :
    nodeVal A env call vals ⟨.const (List.replicate (r * c) (Itv.point q)), r, c⟩ =
      some ⟨r, c, List.replicate (r * c) (q : ℝ)⟩ := by
  simp [nodeVal, mapM_replicate _ _ _ (hA.pt q)]


theorem run_push_some {env : List ℝ} {call : Nat → List (Mat ℝ) → Option (Mat ℝ)} {d : Dag}
    {vals : Array (Mat ℝ)} (h : run A env call d = some vals) {n : Node} {w : Mat ℝ}
    (h1 : nodeVal A env call vals n = some w) (hr : w.r = n.r) (hc : w.c = n.c) :
    run A env call (d.push n) = some (vals.push w) := by
  rw [run_push, h, Option.bind_some, step_of_nodeVal h1 hr hc]

theorem nodeVal_bin (env : List ℝ) (call : Nat → List (Mat ℝ) → Option (Mat ℝ)) (vals : Array (Mat ℝ))
    (op : String) (a b r c : ℕ) {x y : Mat ℝ} (ha : vals[a]? = some x) (hb : vals[b]? = some y) :
    nodeVal A env call vals ⟨.bin op a b, r, c⟩ = binVal A op x y := by
  simp [nodeVal, ha, hb]

/-- lookups in the values after one auxiliary node has been pushed -/
theorem lookups {vals : Array (Mat ℝ)} {v : Mat ℝ} (hv : vals.back? = some v) (w : Mat ℝ) {k : ℕ}
    (hs : vals.size = k) :
    (vals.push w)[k - 1]? = some v ∧ (vals.push w)[k]? = some w := by
  subst hs
  have : 0 < vals.size := by
    rcases Nat.eq_zero_or_pos vals.size with h0 | h0
    · have : vals = #[] := Array.eq_empty_of_size_eq_zero h0
      subst this; simp at hv
    · exact h0
  constructor
  · rw [Array.getElem?_push, if_neg (by omega)]; exact getElem?_last hv
  · simp

/-- value of `f - q` -/
theorem evalR_subConst (hA : RealLike A) (f : Prog) (q : ℚ) (ρ : List ℝ) :
    evalR A (f.subConst q) ρ = (evalR A f ρ).map fun v => ⟨v.r, v.c, v.d.map fun x => x - (q : ℝ)⟩ := by
  unfold evalR Prog.subConst subConstDag
  simp only
  cases hb : f.main.back? with
  | none => simp [root_of_back_none hb]
  | some nd =>
    simp only
    cases hr : run A ρ (buildCalls A f.funs) f.main with
    | none => simp [root, run_push, hr]
    | some vals =>
      obtain ⟨hs, v, hv, hvr, hvc⟩ := run_back hr hb
      have h1 : root A ρ (buildCalls A f.funs) f.main = some v := by
        rw [root_eq_some_iff]; exact ⟨vals, hr, hv⟩
      have hwf := root_wf _ _ _ _ h1
      rw [root_push (run_push_some hr (nodeVal_const hA _ _ _ q nd.r nd.c) rfl rfl), h1]
      obtain ⟨g1, g2⟩ := lookups hv ⟨nd.r, nd.c, List.replicate (nd.r * nd.c) (q : ℝ)⟩ hs
      rw [hvr, hvc] at hwf
      rw [nodeVal_bin _ _ _ _ _ _ _ _ g1 g2, binVal_sub, zip?_sub hA]
      simp [hvr, hvc, zip_replicate_right _ _ _ hwf]

/-- value of `q - f` -/
theorem evalR_constSub (hA : RealLike A) (f : Prog) (q : ℚ) (ρ : List ℝ) :
    evalR A (f.constSub q) ρ = (evalR A f ρ).map fun v => ⟨v.r, v.c, v.d.map fun x => (q : ℝ) - x⟩ := by
  unfold evalR Prog.constSub constSubDag
  simp only
  cases hb : f.main.back? with
  | none => simp [root_of_back_none hb]
  | some nd =>
    simp only
    cases hr : run A ρ (buildCalls A f.funs) f.main with
    | none => simp [root, run_push, hr]
    | some vals =>
      obtain ⟨hs, v, hv, hvr, hvc⟩ := run_back hr hb
      have h1 : root A ρ (buildCalls A f.funs) f.main = some v := by
        rw [root_eq_some_iff]; exact ⟨vals, hr, hv⟩
      have hwf := root_wf _ _ _ _ h1
      rw [root_push (run_push_some hr (nodeVal_const hA _ _ _ q nd.r nd.c) rfl rfl), h1]
      obtain ⟨g1, g2⟩ := lookups hv ⟨nd.r, nd.c, List.replicate (nd.r * nd.c) (q : ℝ)⟩ hs
      rw [hvr, hvc] at hwf
      rw [nodeVal_bin _ _ _ _ _ _ _ _ g2 g1, binVal_sub, zip?_sub hA]
      simp [hvr, hvc, zip_replicate_left _ _ _ hwf]


/-! ### change of environment -/

theorem fold_congr {e₁ e₂ : List ℝ} {call : Nat → List (Mat ℝ) → Option (Mat ℝ)} (g : Node → Node) :
    ∀ (ns : List Node) (acc : Array (Mat ℝ)),
      (∀ nd ∈ ns, (g nd).r = nd.r ∧ (g nd).c = nd.c ∧
        ∀ vals, nodeVal A e₁ call vals (g nd) = nodeVal A e₂ call vals nd) →
      (ns.map g).foldlM (step A e₁ call) acc = ns.foldlM (step A e₂ call) acc := by
  intro ns
  induction ns with
  | nil => intro acc _; rfl
  | cons nd ns ih =>
    intro acc h
    obtain ⟨h1, h2, h3⟩ := h nd (by simp)
    have hs : step A e₁ call acc (g nd) = step A e₂ call acc nd := by
      unfold step; rw [h3, h1, h2]
    simp only [List.map_cons, List.foldlM_cons, hs]
    cases step A e₂ call acc nd with
    | none => rfl
    | some acc' => exact ih acc' fun x hx => h x (by simp [hx])

theorem run_congr {e₁ e₂ : List ℝ} {call : Nat → List (Mat ℝ) → Option (Mat ℝ)} (g : Node → Node) (d : Dag)
    (h : ∀ nd ∈ d, (g nd).r = nd.r ∧ (g nd).c = nd.c ∧
        ∀ vals, nodeVal A e₁ call vals (g nd) = nodeVal A e₂ call vals nd) :
    run A e₁ call (d.map g) = run A e₂ call d := by
  rw [run_eq, run_eq, Array.toList_map]
  exact fold_congr g _ _ fun nd hnd => h nd (Array.mem_toList_iff.1 hnd)

theorem slice_append (ρ ys : List ℝ) (off k : ℕ) (h : off + k ≤ ρ.length) :
    ((ρ ++ ys).drop off).take k = (ρ.drop off).take k := by
  rw [List.drop_append_of_le_length (by omega), List.take_append_of_le_length (by simp; omega)]

theorem run_append_env (call : Nat → List (Mat ℝ) → Option (Mat ℝ)) (d : Dag) (n : ℕ) (ρ ys : List ℝ)
    (hn : ρ.length = n) (hv : varsWithin n d = true) :
    run A (ρ ++ ys) call d = run A ρ call d := by
  have := run_congr (A := A) (e₁ := ρ ++ ys) (e₂ := ρ) (call := call) id d ?_
  · simpa using this
  · intro nd hnd
    refine ⟨rfl, rfl, fun vals => ?_⟩
    unfold varsWithin at hv
    rw [Array.all_eq_true_iff_forall_mem] at hv
    have := hv nd hnd
    obtain ⟨k, r, c⟩ := nd
    cases k with
    | var off =>
      simp only [decide_eq_true_eq] at this
      simp only [id, nodeVal]
      rw [slice_append _ _ _ _ (by omega)]
    | _ => rfl

/-- the value of an expression depends only on the variables it reads -/
theorem evalR_append (f : Prog) (n : ℕ) (ρ ys : List ℝ) (hn : ρ.length = n)
    (hv : varsWithin n f.main = true) : evalR A f (ρ ++ ys) = evalR A f ρ := by
  unfold evalR root
  rw [run_append_env _ _ n _ _ hn hv]


theorem nodeVal_lastVar (call : Nat → List (Mat ℝ) → Option (Mat ℝ)) (vals : Array (Mat ℝ))
    (n : ℕ) (ρ : List ℝ) (y : ℝ) (hn : ρ.length = n) :
    nodeVal A (ρ ++ [y]) call vals ⟨.var n, 1, 1⟩ = some ⟨1, 1, [y]⟩ := by
  subst hn
  simp [nodeVal]

/-- the variable `y` appended last is the goal of the extended system -/
theorem evalR_varProg (n : ℕ) (ρ : List ℝ) (y : ℝ) (hn : ρ.length = n) :
    evalR A (varProg n) (ρ ++ [y]) = some ⟨1, 1, [y]⟩ := by
  unfold evalR varProg
  have h0 : run A (ρ ++ [y]) (buildCalls A []) #[] = some #[] := by simp [run]
  have := root_push (A := A) h0 ⟨.var n, 1, 1⟩
  simp only [nodeVal_lastVar _ _ n ρ y hn] at this
  simpa using this

/-- value of `goal(x) - y` at `(x, y)`: defined exactly when the goal is a scalar defined at `x` -/
theorem evalR_subVar (hA : RealLike A) (f : Prog) (n : ℕ) (ρ : List ℝ) (y : ℝ) (hn : ρ.length = n)
    (hv : varsWithin n f.main = true) (w : Mat ℝ) :
    evalR A (f.subVar n) (ρ ++ [y]) = some w ↔
      ∃ g, evalR A f ρ = some ⟨1, 1, [g]⟩ ∧ w = ⟨1, 1, [g - y]⟩ := by
  unfold evalR Prog.subVar subVarDag
  simp only
  cases hb : f.main.back? with
  | none => simp [root_of_back_none hb]
  | some nd =>
    simp only
    cases hr : run A ρ (buildCalls A f.funs) f.main with
    | none => simp [root, run_push, run_append_env _ _ n _ _ hn hv, hr]
    | some vals =>
      obtain ⟨hs, v, hv', hvr, hvc⟩ := run_back hr hb
      have h1 : root A ρ (buildCalls A f.funs) f.main = some v := by
        rw [root_eq_some_iff]; exact ⟨vals, hr, hv'⟩
      have hwf := root_wf _ _ _ _ h1
      have hr' : run A (ρ ++ [y]) (buildCalls A f.funs) f.main = some vals := by
        rw [run_append_env _ _ n _ _ hn hv, hr]
      rw [root_push (run_push_some hr' (nodeVal_lastVar _ _ n ρ y hn) rfl rfl), h1]
      obtain ⟨g1, g2⟩ := lookups hv' ⟨1, 1, [y]⟩ hs
      rw [nodeVal_bin _ _ _ _ _ _ _ _ g1 g2, binVal_sub, zip?_sub hA]
      obtain ⟨vr, vc, vd⟩ := v
      obtain ⟨k, r, c⟩ := nd
      simp only at hvr hvc hwf ⊢
      subst hvr hvc
      by_cases hd : vr = 1 ∧ vc = 1
      · obtain ⟨rfl, rfl⟩ := hd
        match vd, hwf with
        | [g], _ =>
          simp
          constructor
          · intro h; exact h.symm
          · intro h; exact h.symm
      · rw [if_neg hd]
        constructor
        · intro h; exact absurd h (by simp)
        · rintro ⟨g, hg, _⟩
          simp only [Option.some.injEq, Mat.mk.injEq] at hg
          exact absurd ⟨hg.1, hg.2.1⟩ hd


/-! ### renaming -/

theorem env₂_cons (b : Block) (bs : List Block) (p : List ℝ) :
    env₂ (b :: bs) p = (p.drop b.moff).take b.size ++ env₂ bs p := by
  simp [env₂]

/-- consecutive blocks: the block is found by its offset, and its slice of the merged point is
    what the second system reads at this offset -/
theorem blocks_spec (n : ℕ) (p : List ℝ) (hp : p.length = n) :
    ∀ (bs : List Block) (o : ℕ), blocksOK n o bs = true → ∀ b ∈ bs,
      o ≤ b.off ∧ bs.find? (fun b' => b'.off == b.off) = some b ∧
      ((env₂ bs p).drop (b.off - o)).take b.size = (p.drop b.moff).take b.size := by
  intro bs
  induction bs with
  | nil => intro o _ b hb; simp at hb
  | cons b0 bs ih =>
    intro o h b hb
    simp only [blocksOK, Bool.and_eq_true, beq_iff_eq, decide_eq_true_eq] at h
    obtain ⟨⟨⟨h1, h2⟩, h3⟩, h4⟩ := h
    have hlen : ((p.drop b0.moff).take b0.size).length = b0.size := by
      simp only [List.length_take, List.length_drop]; omega
    rw [env₂_cons]
    rcases List.mem_cons.1 hb with rfl | hb
    · refine ⟨by omega, by simp, ?_⟩
      rw [h1, Nat.sub_self, List.drop_zero, List.take_append_of_le_length (by omega),
        List.take_of_length_le (by omega)]
    · obtain ⟨g1, g2, g3⟩ := ih (o + b0.size) h4 b hb
      refine ⟨by omega, ?_, ?_⟩
      · rw [List.find?_cons]
        have : (b0.off == b.off) = false := by
          rw [beq_eq_false_iff_ne]; omega
        rw [this]; exact g2
      · rw [List.drop_append, List.drop_of_length_le (by omega), List.nil_append, hlen,
          show b.off - o - b0.size = b.off - (o + b0.size) by omega]
        exact g3

theorem renameDag_eq (σ : ℕ → ℕ) (d : Dag) :
    renameDag σ d = d.map fun nd => match nd.k with
      | .var off => ⟨.var (σ off), nd.r, nd.c⟩
      | _ => nd := rfl

/-- renamed variables read the merged point where the original ones read the point of the second system -/
theorem evalR_rename (bs : List Block) (n : ℕ) (f : Prog) (p : List ℝ) (hp : p.length = n)
    (hb : blocksOK n 0 bs = true) (hv : varsAreBlocks bs f.main = true) :
    evalR A (f.rename (blockMap bs)) p = evalR A f (env₂ bs p) := by
  unfold evalR root Prog.rename
  simp only
  rw [renameDag_eq, run_congr]
  intro nd hnd
  unfold varsAreBlocks at hv
  rw [Array.all_eq_true_iff_forall_mem] at hv
  have := hv nd hnd
  obtain ⟨k, r, c⟩ := nd
  cases k with
  | var off =>
    refine ⟨rfl, rfl, fun vals => ?_⟩
    simp only [List.any_eq_true, Bool.and_eq_true, beq_iff_eq] at this
    obtain ⟨b, hbm, ho, hsz⟩ := this
    obtain ⟨_, g2, g3⟩ := blocks_spec n p hp bs 0 hb b hbm
    simp only [nodeVal]
    have hm : blockMap bs off = b.moff := by
      unfold blockMap; rw [← ho, g2]
    rw [hm, ← hsz, ← ho, ← g3, Nat.sub_zero]
  | _ => exact ⟨rfl, rfl, fun _ => rfl⟩


/-! ### the four theorems -/

/-- a constraint `f = 0` within `0` is the constraint itself -/
theorem satEps_zero (c : Ctr) (ρ : List ℝ) (h : c.op = .eq) : c.SatEps A 0 ρ ↔ c.Sat A ρ := by
  unfold Ctr.SatEps Ctr.Sat
  rw [h]
  simp only [Cmp.holds, abs_nonpos_iff]

theorem satAll_cons (c : Ctr) (cs : List Ctr) (ρ : List ℝ) :
    SatAll A (c :: cs) ρ ↔ c.Sat A ρ ∧ SatAll A cs ρ := by
  simp [SatAll]

theorem satAll_nil (ρ : List ℝ) : SatAll A [] ρ := by simp [SatAll]

theorem satAll_append (cs cs' : List Ctr) (ρ : List ℝ) :
    SatAll A (cs ++ cs') ρ ↔ SatAll A cs ρ ∧ SatAll A cs' ρ := by
  simp [SatAll, or_imp, forall_and]

theorem sat_map {f f' : Prog} {ρ : List ℝ} {h : ℝ → ℝ}
    (he : evalR A f' ρ = (evalR A f ρ).map fun v => ⟨v.r, v.c, v.d.map h⟩) (P : ℝ → Prop) :
    (∃ v, evalR A f' ρ = some v ∧ ∀ x ∈ v.d, P x) ↔ ∃ v, evalR A f ρ = some v ∧ ∀ x ∈ v.d, P (h x) := by
  rw [he]
  cases evalR A f ρ with
  | none => simp
  | some v => simp

theorem normalize1_iff (hA : RealLike A) (eps : ℚ) (heps : 0 ≤ eps) (c : Ctr) (ρ : List ℝ) :
    SatAll A (normalize1 eps c) ρ ↔
      (c.op ≠ .eq → c.Sat A ρ) ∧ (c.op = .eq → c.SatEps A (eps : ℝ) ρ) := by
  obtain ⟨f, op⟩ := c
  cases op with
  | lt => simp [normalize1, satAll_cons, satAll_nil]
  | leq => simp [normalize1, satAll_cons, satAll_nil]
  | geq =>
    simp only [normalize1, satAll_cons, satAll_nil, and_true, Ctr.Sat, Cmp.holds]
    rw [sat_map (evalR_neg hA f ρ)]
    simp
  | gt =>
    simp only [normalize1, satAll_cons, satAll_nil, and_true, Ctr.Sat, Cmp.holds]
    rw [sat_map (evalR_neg hA f ρ)]
    simp
  | eq =>
    by_cases he : 0 < eps
    · simp only [normalize1, he, if_true, satAll_cons, satAll_nil, and_true, Ctr.Sat, Cmp.holds,
        Ctr.SatEps]
      rw [sat_map (evalR_subConst hA f eps ρ), sat_map (evalR_constSub hA f (-eps) ρ)]
      cases evalR A f ρ with
      | none => simp
      | some v =>
        simp only [Option.some.injEq, exists_eq_left', ne_eq, not_true_eq_false, false_implies,
          true_and, forall_const]
        constructor
        · rintro ⟨h1, h2⟩ x hx
          have := h1 x hx
          have := h2 x hx
          push_cast at *
          rw [abs_le]; constructor <;> linarith
        · intro h
          constructor
          · intro x hx
            have := abs_le.1 (h x hx)
            linarith [this.2]
          · intro x hx
            have := abs_le.1 (h x hx)
            push_cast
            linarith [this.1]
    · have h0 : eps = 0 := le_antisymm (not_lt.1 he) heps
      subst h0
      simp only [normalize1, he, if_false, satAll_cons, satAll_nil, and_true, Rat.cast_zero]
      rw [satEps_zero _ _ rfl]
      simp

/-- **Normalization.** The normalized constraints hold at a point exactly when the original
    inequalities hold there and every entry of every original equality is within `eps` of 0. -/
theorem normalized_iff (hA : RealLike A) (eps : ℚ) (heps : 0 ≤ eps) (cs : List Ctr) (ρ : List ℝ) :
    SatAll A (normalize eps cs) ρ ↔
      (∀ c ∈ cs, c.op ≠ .eq → c.Sat A ρ) ∧ (∀ c ∈ cs, c.op = .eq → c.SatEps A (eps : ℝ) ρ) := by
  have : SatAll A (normalize eps cs) ρ ↔ ∀ c ∈ cs, SatAll A (normalize1 eps c) ρ := by
    unfold normalize SatAll
    simp only [List.mem_flatMap]
    constructor
    · intro h c hc c' hc'; exact h c' ⟨c, hc, hc'⟩
    · rintro h c' ⟨c, hc, hc'⟩; exact h c hc c' hc'
  rw [this]
  simp only [normalize1_iff hA eps heps]
  constructor
  · intro h; exact ⟨fun c hc => (h c hc).1, fun c hc => (h c hc).2⟩
  · intro h c hc; exact ⟨h.1 c hc, h.2 c hc⟩

/-- with `eps = 0` the normalized system has exactly the solutions of the original one -/
theorem normalized_zero_iff (hA : RealLike A) (cs : List Ctr) (ρ : List ℝ) :
    SatAll A (normalize 0 cs) ρ ↔ SatAll A cs ρ := by
  rw [normalized_iff hA 0 le_rfl]
  simp only [Rat.cast_zero]
  unfold SatAll
  constructor
  · rintro ⟨h1, h2⟩ c hc
    by_cases he : c.op = .eq
    · exact (satEps_zero c ρ he).1 (h2 c hc he)
    · exact h1 c hc he
  · intro h
    exact ⟨fun c hc _ => h c hc, fun c hc he => (satEps_zero c ρ he).2 (h c hc)⟩


theorem varsWithin_neg (n : ℕ) (d : Dag) (h : varsWithin n d = true) : varsWithin n (negDag d) = true := by
  unfold negDag
  cases d.back? with
  | none => exact h
  | some nd => unfold varsWithin at h ⊢; simp [h]

theorem varsWithin_subConst (n : ℕ) (d : Dag) (q : ℚ) (h : varsWithin n d = true) :
    varsWithin n (subConstDag d q) = true := by
  unfold subConstDag
  cases d.back? with
  | none => exact h
  | some nd => unfold varsWithin at h ⊢; simp [h]

theorem varsWithin_constSub (n : ℕ) (d : Dag) (q : ℚ) (h : varsWithin n d = true) :
    varsWithin n (constSubDag d q) = true := by
  unfold constSubDag
  cases d.back? with
  | none => exact h
  | some nd => unfold varsWithin at h ⊢; simp [h]

theorem varsWithin_normalize (n : ℕ) (eps : ℚ) (cs : List Ctr)
    (hv : ∀ c ∈ cs, varsWithin n c.f.main = true) :
    ∀ c ∈ normalize eps cs, varsWithin n c.f.main = true := by
  intro c' hc'
  unfold normalize at hc'
  obtain ⟨c, hc, hc'⟩ := List.mem_flatMap.1 hc'
  have h := hv c hc
  unfold normalize1 at hc'
  split at hc'
  · simp at hc'; subst hc'; exact h
  · simp at hc'; subst hc'; exact h
  · simp at hc'; subst hc'; exact varsWithin_neg n _ h
  · simp at hc'; subst hc'; exact varsWithin_neg n _ h
  · split at hc'
    · simp at hc'
      rcases hc' with rfl | rfl
      · exact varsWithin_subConst n _ _ h
      · exact varsWithin_constSub n _ _ h
    · simp at hc'; subst hc'; exact h

theorem sat_append (c : Ctr) (n : ℕ) (ρ ys : List ℝ) (hn : ρ.length = n)
    (hv : varsWithin n c.f.main = true) : c.Sat A (ρ ++ ys) ↔ c.Sat A ρ := by
  unfold Ctr.Sat
  rw [evalR_append c.f n ρ ys hn hv]

/-- **Extension.** `(x, y)` satisfies the extended constraints exactly when `x` satisfies the
    normalized ones and `y` is the value of the goal at `x`. -/
theorem extended_iff (hA : RealLike A) (n : ℕ) (goal : Prog) (eps : ℚ) (cs : List Ctr)
    (ρ : List ℝ) (y : ℝ) (hn : ρ.length = n) (hg : varsWithin n goal.main = true)
    (hv : ∀ c ∈ cs, varsWithin n c.f.main = true) :
    SatAll A (extend n goal eps cs) (ρ ++ [y]) ↔
      SatAll A (normalize eps cs) ρ ∧ evalR A goal ρ = some ⟨1, 1, [y]⟩ := by
  unfold extend
  rw [satAll_cons, and_comm]
  have h1 : SatAll A (normalize eps cs) (ρ ++ [y]) ↔ SatAll A (normalize eps cs) ρ := by
    unfold SatAll
    constructor
    · intro h c hc
      exact (sat_append c n ρ [y] hn (varsWithin_normalize n eps cs hv c hc)).1 (h c hc)
    · intro h c hc
      exact (sat_append c n ρ [y] hn (varsWithin_normalize n eps cs hv c hc)).2 (h c hc)
  have h2 : Ctr.Sat A ⟨goal.subVar n, .eq⟩ (ρ ++ [y]) ↔ evalR A goal ρ = some ⟨1, 1, [y]⟩ := by
    unfold Ctr.Sat
    simp only [evalR_subVar hA goal n ρ y hn hg, Cmp.holds]
    constructor
    · rintro ⟨v, ⟨g, hg', rfl⟩, hx⟩
      have : g - y = 0 := hx _ (by simp)
      have : g = y := by linarith
      rw [hg', this]
    · intro h
      exact ⟨⟨1, 1, [y - y]⟩, ⟨y, h, rfl⟩, by simp⟩
  rw [h1, h2]

/-- **Copies**: exactly the constraints selected by the mode, in the original order -/
theorem mem_copyCtrs (m : CopyMode) (cs : List Ctr) (c : Ctr) :
    c ∈ copyCtrs m cs ↔ c ∈ cs ∧ m.keeps c.op = true := by
  simp [copyCtrs, List.mem_filter]

theorem copyCtrs_sublist (m : CopyMode) (cs : List Ctr) : (copyCtrs m cs).Sublist cs :=
  List.filter_sublist

theorem copy_keeps (m : CopyMode) (cs : List Ctr) (ρ : List ℝ) :
    SatAll A (copyCtrs m cs) ρ ↔ ∀ c ∈ cs, m.keeps c.op = true → c.Sat A ρ := by
  unfold SatAll
  simp only [mem_copyCtrs, and_imp]

theorem copy_all (cs : List Ctr) : copyCtrs .copy cs = cs := by
  simp [copyCtrs, CopyMode.keeps]

/-- **Merge.** A point of the merged system satisfies the merged constraints exactly when its
    restriction to the variables of the first system satisfies the first system and the point
    of the second system read through the variable names satisfies the second one. -/
theorem merge_keeps (bs : List Block) (n₁ n : ℕ) (cs₁ cs₂ : List Ctr) (p : List ℝ)
    (hp : p.length = n) (hn : n₁ ≤ n) (h₁ : ∀ c ∈ cs₁, varsWithin n₁ c.f.main = true)
    (hb : blocksOK n 0 bs = true) (h₂ : ∀ c ∈ cs₂, varsAreBlocks bs c.f.main = true) :
    SatAll A (mergeCtrs bs cs₁ cs₂) p ↔ SatAll A cs₁ (p.take n₁) ∧ SatAll A cs₂ (env₂ bs p) := by
  unfold mergeCtrs
  rw [satAll_append]
  have hl : (p.take n₁).length = n₁ := by rw [List.length_take]; omega
  have g1 : SatAll A cs₁ p ↔ SatAll A cs₁ (p.take n₁) := by
    unfold SatAll
    constructor
    · intro h c hc
      have := h c hc
      rw [← List.take_append_drop n₁ p] at this
      exact (sat_append c n₁ _ _ hl (h₁ c hc)).1 this
    · intro h c hc
      rw [← List.take_append_drop n₁ p]
      exact (sat_append c n₁ _ _ hl (h₁ c hc)).2 (h c hc)
  have g2 : SatAll A (cs₂.map (Ctr.rename (blockMap bs))) p ↔ SatAll A cs₂ (env₂ bs p) := by
    unfold SatAll
    simp only [List.mem_map, forall_exists_index, and_imp, forall_apply_eq_imp_iff₂]
    constructor
    · intro h c hc
      have := h c hc
      unfold Ctr.Sat Ctr.rename at this
      simp only at this
      rw [evalR_rename bs n c.f p hp hb (h₂ c hc)] at this
      exact this
    · intro h c hc
      unfold Ctr.Sat Ctr.rename
      simp only
      rw [evalR_rename bs n c.f p hp hb (h₂ c hc)]
      exact h c hc
  rw [g1, g2]

end Sys
end Ibex
