/-
  C19 — quantified contractors `CtcExist` / `CtcForAll` (projection-union / projection-intersection):
  soundness of the stack algorithms for ANY sub-contractor meeting the contract, any covering
  bisection function, any sampling function, any precision and any fuel.
-/
import IbexProofs.Comb

namespace Ibex.C19
open Ibex Ibex.Comb

/-! ### variables / parameters: `merge`, `projT`, `projF` -/

section MergeLemmas
variable {α β : Type}

theorem merge_nil_mask (xs ys : List α) : merge [] xs ys = [] := by
  cases xs <;> cases ys <;> rfl

theorem merge_true_nil (m : List Bool) (ys : List α) : merge (true :: m) [] ys = [] := by
  cases ys <;> rfl

theorem merge_false_nil (m : List Bool) (xs : List α) : merge (false :: m) xs [] = [] := by
  cases xs <;> rfl

theorem merge_true_cons (m : List Bool) (x : α) (xs ys : List α) :
    merge (true :: m) (x :: xs) ys = x :: merge m xs ys := by
  cases ys <;> rfl

theorem merge_false_cons (m : List Bool) (xs : List α) (y : α) (ys : List α) :
    merge (false :: m) xs (y :: ys) = y :: merge m xs ys := by
  cases xs <;> rfl

theorem forall₂_merge {R : α → β → Prop} : ∀ (m : List Bool) {ps qs : List α} {xs ys : List β},
    List.Forall₂ R ps xs → List.Forall₂ R qs ys → List.Forall₂ R (merge m ps qs) (merge m xs ys)
  | [], _, _, _, _, _, _ => by rw [merge_nil_mask, merge_nil_mask]; exact List.Forall₂.nil
  | true :: m, _, _, _, _, hp, hq => by
    cases hp with
    | nil => rw [merge_true_nil, merge_true_nil]; exact List.Forall₂.nil
    | cons h hp' => rw [merge_true_cons, merge_true_cons]; exact List.Forall₂.cons h (forall₂_merge m hp' hq)
  | false :: m, _, _, _, _, hp, hq => by
    cases hq with
    | nil => rw [merge_false_nil, merge_false_nil]; exact List.Forall₂.nil
    | cons h hq' => rw [merge_false_cons, merge_false_cons]; exact List.Forall₂.cons h (forall₂_merge m hp hq')

theorem projT_nil_mask (as : List α) : projT [] as = [] := by cases as <;> rfl
theorem projF_nil_mask (as : List α) : projF [] as = [] := by cases as <;> rfl
theorem projT_nil (m : List Bool) : projT m ([] : List α) = [] := by
  cases m with
  | nil => rfl
  | cons b m => cases b <;> rfl
theorem projF_nil (m : List Bool) : projF m ([] : List α) = [] := by
  cases m with
  | nil => rfl
  | cons b m => cases b <;> rfl

theorem forall₂_projT {R : α → β → Prop} : ∀ (m : List Bool) {rs : List α} {fs : List β},
    List.Forall₂ R rs fs → List.Forall₂ R (projT m rs) (projT m fs)
  | [], _, _, _ => by rw [projT_nil_mask, projT_nil_mask]; exact List.Forall₂.nil
  | b :: m, _, _, h => by
    cases h with
    | nil => rw [projT_nil, projT_nil]; exact List.Forall₂.nil
    | cons h1 h' =>
      cases b with
      | true => exact List.Forall₂.cons h1 (forall₂_projT m h')
      | false => exact forall₂_projT m h'

theorem forall₂_projF {R : α → β → Prop} : ∀ (m : List Bool) {rs : List α} {fs : List β},
    List.Forall₂ R rs fs → List.Forall₂ R (projF m rs) (projF m fs)
  | [], _, _, _ => by rw [projF_nil_mask, projF_nil_mask]; exact List.Forall₂.nil
  | b :: m, _, _, h => by
    cases h with
    | nil => rw [projF_nil, projF_nil]; exact List.Forall₂.nil
    | cons h1 h' =>
      cases b with
      | true => exact forall₂_projF m h'
      | false => exact List.Forall₂.cons h1 (forall₂_projF m h')

theorem projT_merge : ∀ (m : List Bool) (xs ys : List α), cntT m = xs.length → cntF m = ys.length →
    projT m (merge m xs ys) = xs
  | [], xs, ys, hx, _ => by
    have : xs = [] := List.length_eq_zero_iff.1 (by simpa [cntT] using hx.symm)
    subst this; rw [merge_nil_mask]; rfl
  | true :: m, xs, ys, hx, hy => by
    cases xs with
    | nil => simp [cntT] at hx
    | cons x xs =>
      rw [merge_true_cons]
      show x :: projT m (merge m xs ys) = x :: xs
      rw [projT_merge m xs ys (by simpa [cntT] using hx) (by simpa [cntF] using hy)]
  | false :: m, xs, ys, hx, hy => by
    cases ys with
    | nil => simp [cntF] at hy
    | cons y ys =>
      rw [merge_false_cons]
      show projT m (merge m xs ys) = xs
      exact projT_merge m xs ys (by simpa [cntT] using hx) (by simpa [cntF] using hy)

theorem projF_merge : ∀ (m : List Bool) (xs ys : List α), cntT m = xs.length → cntF m = ys.length →
    projF m (merge m xs ys) = ys
  | [], xs, ys, _, hy => by
    have : ys = [] := List.length_eq_zero_iff.1 (by simpa [cntF] using hy.symm)
    subst this; rw [merge_nil_mask]; rfl
  | true :: m, xs, ys, hx, hy => by
    cases xs with
    | nil => simp [cntT] at hx
    | cons x xs =>
      rw [merge_true_cons]
      show projF m (merge m xs ys) = ys
      exact projF_merge m xs ys (by simpa [cntT] using hx) (by simpa [cntF] using hy)
  | false :: m, xs, ys, hx, hy => by
    cases ys with
    | nil => simp [cntF] at hy
    | cons y ys =>
      rw [merge_false_cons]
      show y :: projF m (merge m xs ys) = y :: ys
      rw [projF_merge m xs ys (by simpa [cntT] using hx) (by simpa [cntF] using hy)]

end MergeLemmas

/-! ### `CtcQuantif::contract(x,y)` -/

theorem BSub_varBox {m : List Bool} {B x y : Box} (h : BSub B (merge m x y))
    (hx : cntT m = x.length) (hy : cntF m = y.length) : BSub (varBox m B) x := by
  have h' : BSub (projT m B) x := by
    have := forall₂_projT m h
    rwa [projT_merge m x y hx hy] at this
  unfold varBox; split
  · exact BSub_emptyLike_of_length h'.length_eq
  · exact h'

theorem BSub_paramBox {m : List Bool} {B x y : Box} (h : BSub B (merge m x y))
    (hx : cntT m = x.length) (hy : cntF m = y.length) : BSub (paramBox m B) y := by
  have h' : BSub (projF m B) y := by
    have := forall₂_projF m h
    rwa [projF_merge m x y hx hy] at this
  unfold paramBox; split
  · exact BSub_emptyLike_of_length h'.length_eq
  · exact h'

section QC
variable {c : CtcFn} {S : Set Pt} (hc : CtcOK c S) (m : List Bool)
include hc

theorem qc_sub {x y : Box} (hx : cntT m = x.length) (hy : cntF m = y.length) :
    BSub (qc c m x y).x x ∧ BSub (qc c m x y).y y := by
  have h : BSub (c (norm (merge m x y)) (allImp (norm (merge m x y)))).box (merge m x y) :=
    (hc.sub _ _).trans (BSub_norm _)
  exact ⟨BSub_varBox h hx hy, BSub_paramBox h hx hy⟩

theorem qc_keep {x y : Box} {p q : Pt} (hp : Mem p x) (hq : Mem q y)
    (hx : cntT m = x.length) (hy : cntF m = y.length)
    (h : merge m p q ∈ S ∨ (qc c m x y).inact = true) :
    Mem p (qc c m x y).x ∧ Mem q (qc c m x y).y := by
  have hfull : Mem (merge m p q) (norm (merge m x y)) := mem_norm (forall₂_merge m hp hq)
  have hB : Mem (merge m p q) (c (norm (merge m x y)) (allImp (norm (merge m x y)))).box := by
    rcases h with h | h
    · exact hc.sound _ _ _ hfull h
    · exact hc.inact _ _ h _ hfull
  have hne : Box.isEmpty (c (norm (merge m x y)) (allImp (norm (merge m x y)))).box = false := by
    cases hh : Box.isEmpty (c (norm (merge m x y)) (allImp (norm (merge m x y)))).box with
    | false => rfl
    | true => exact absurd hB (not_mem_of_isEmpty hh _)
  have hpl : cntT m = p.length := hx.trans hp.length_eq.symm
  have hql : cntF m = q.length := hy.trans hq.length_eq.symm
  constructor
  · have h1 := forall₂_projT m hB
    rw [projT_merge m p q hpl hql] at h1
    simp only [qc, varBox, hne, Bool.false_eq_true, if_false]
    exact h1
  · have h1 := forall₂_projF m hB
    rw [projF_merge m p q hpl hql] at h1
    simp only [qc, paramBox, hne, Bool.false_eq_true, if_false]
    exact h1

end QC

/-! ### contracts of the bisection and sampling functions -/

structure BisOK (bis : Box → Option (Box × Box)) : Prop where
  len : ∀ {y l r}, bis y = some (l, r) → l.length = y.length ∧ r.length = y.length
  cover : ∀ {y l r}, bis y = some (l, r) → ∀ q, Mem q y → Mem q l ∨ Mem q r
  sub : ∀ {y l r}, bis y = some (l, r) → (∀ q, Mem q l → Mem q y) ∧ (∀ q, Mem q r → Mem q y)
  nonempty : ∀ {y l r}, bis y = some (l, r) → (∃ q, Mem q y) → (∃ q, Mem q l) ∧ (∃ q, Mem q r)

structure SampOK (samp : Box → Box) : Prop where
  len : ∀ y, (samp y).length = y.length
  sub : ∀ y q, Mem q (samp y) → Mem q y
  nonempty : ∀ y, (∃ q, Mem q y) → ∃ q, Mem q (samp y)

/-- `{x | ∃ y ∈ yinit, (x,y) ∈ S}` -/
def existSet (m : List Bool) (yinit : Box) (S : Set Pt) : Set Pt := {p | ∃ q, Mem q yinit ∧ merge m p q ∈ S}
/-- `{x | ∀ y ∈ yinit, (x,y) ∈ S}` -/
def forallSet (m : List Bool) (yinit : Box) (S : Set Pt) : Set Pt := {p | ∀ q, Mem q yinit → merge m p q ∈ S}

theorem boxEq_mem' {a b : Box} (h : boxEq a b = true) {p : Pt} (hp : Mem p b) : Mem p a := by
  simp only [boxEq, Bool.or_eq_true, Bool.and_eq_true] at h
  rcases h with h | h
  · exact absurd hp (not_mem_of_isEmpty h.2 p)
  · have : a = b := by simpa using h
    exact this ▸ hp

/-! ### CtcExist -/

/-- the pair `(p,q)` is already in the result or still pending on the stack -/
def CovP (p q : Pt) (res : Box) (stack : List (Box × Box)) : Prop :=
  Mem p res ∨ ∃ e ∈ stack, Mem p e.1 ∧ Mem q e.2

theorem CovP.perm {p q : Pt} {res : Box} {s1 s2 : List (Box × Box)} (h : CovP p q res s1)
    (hs : ∀ e ∈ s1, e ∈ s2) : CovP p q res s2 := by
  rcases h with h | ⟨e, he, hpe⟩
  · exact Or.inl h
  · exact Or.inr ⟨e, hs e he, hpe⟩

section Exist
variable {c : CtcFn} {S : Set Pt} (hc : CtcOK c S) (m : List Bool) (prec : Ext) (samp : Box → Box)
  (hsamp : ∀ y, (samp y).length = y.length) (box : Box) (hbx : cntT m = box.length)
include hc hsamp hbx

theorem exProceed_ok {xCur res y : Box} (hxc : BSub xCur box) (hres : BSub res box) (hy : cntF m = y.length) :
    BSub (exProceed c m prec samp box xCur res y).res box ∧
    (∀ e ∈ (exProceed c m prec samp box xCur res y).push, BSub e.1 box ∧ cntF m = e.2.length) ∧
    (∀ p q rest, merge m p q ∈ S → CovP p q res ((xCur, y) :: rest) →
      CovP p q (exProceed c m prec samp box xCur res y).res ((exProceed c m prec samp box xCur res y).push ++ rest)) ∧
    ((exProceed c m prec samp box xCur res y).stop = true → ∀ p, Mem p box → Mem p (exProceed c m prec samp box xCur res y).res) ∧
    ((exProceed c m prec samp box xCur res y).inact = true → (exProceed c m prec samp box xCur res y).stop = true) := by
  have hxcl : cntT m = xCur.length := hbx.trans hxc.length_eq.symm
  obtain ⟨hrx, hry⟩ := qc_sub hc m hxcl hy
  have hrxb : BSub (qc c m xCur y).x box := hrx.trans hxc
  have hl : res.length = (qc c m xCur y).x.length := hres.length_eq.trans hrxb.length_eq.symm
  -- a covered pair is kept by the contraction of (xCur, y)
  have hkeep : ∀ p q, merge m p q ∈ S → Mem p xCur → Mem q y → Mem p (qc c m xCur y).x ∧ Mem q (qc c m xCur y).y :=
    fun p q hS hp hq => qc_keep hc m hp hq hxcl hy (Or.inl hS)
  have hcov_hull : ∀ p q rest, merge m p q ∈ S → CovP p q res ((xCur, y) :: rest) →
      CovP p q (Box.hull res (qc c m xCur y).x) rest := by
    intro p q rest hS hcov
    rcases hcov with h | ⟨e, he, hpe⟩
    · exact Or.inl (mem_hull_left h hl)
    · rcases List.mem_cons.1 he with rfl | he'
      · exact Or.inl (mem_hull_right (hkeep p q hS hpe.1 hpe.2).1 hl)
      · exact Or.inr ⟨e, he', hpe⟩
  simp only [exProceed]
  split_ifs with h1 h2 h3 h4 h5 h6
  · -- the contracted box is empty
    refine ⟨hres, by simp, ?_, by simp, by simp⟩
    intro p q rest hS hcov
    rcases hcov with h | ⟨e, he, hpe⟩
    · exact Or.inl h
    · rcases List.mem_cons.1 he with rfl | he'
      · exact absurd (hkeep p q hS hpe.1 hpe.2).1 (not_mem_of_isEmpty h1 p)
      · exact Or.inr ⟨e, by simpa using he', hpe⟩
  · -- inactive on the whole initial box: stop with the initial box
    refine ⟨BSub.refl box, by simp, ?_, fun _ p hp => hp, fun _ => rfl⟩
    intro p q rest _ hcov
    rcases hcov with h | ⟨e, he, hpe⟩
    · exact Or.inl (hres.mem h)
    · rcases List.mem_cons.1 he with rfl | he'
      · exact Or.inl (hxc.mem hpe.1)
      · exact Or.inr ⟨e, by simpa using he', hpe⟩
  · -- inactive on a sub-box: keep it entirely
    refine ⟨BSub_hull hres hrxb, by simp, ?_, by simp, by simp⟩
    intro p q rest hS hcov
    simpa using hcov_hull p q rest hS hcov
  · -- small parameter box: add to the result
    refine ⟨BSub_hull hres hrxb, by simp, ?_, ?_, by simp⟩
    · intro p q rest hS hcov
      simpa using hcov_hull p q rest hS hcov
    · intro hst p hp
      exact boxEq_mem' hst hp
  · -- push and sample (sample not empty)
    have hsl : cntF m = (samp (qc c m xCur y).y).length := by rw [hsamp]; exact hy.trans hry.length_eq.symm
    have hrxl : cntT m = (qc c m xCur y).x.length := hbx.trans hrxb.length_eq.symm
    have hsx : BSub (qc c m (qc c m xCur y).x (samp (qc c m xCur y).y)).x box := (qc_sub hc m hrxl hsl).1.trans hrxb
    have hl2 : res.length = (qc c m (qc c m xCur y).x (samp (qc c m xCur y).y)).x.length := hres.length_eq.trans hsx.length_eq.symm
    refine ⟨BSub_hull hres hsx, ?_, ?_, ?_, by simp⟩
    · intro e he
      simp only [List.mem_singleton] at he
      subst he
      exact ⟨hrxb, hy.trans hry.length_eq.symm⟩
    · intro p q rest hS hcov
      rcases hcov with h | ⟨e, he, hpe⟩
      · exact Or.inl (mem_hull_left h hl2)
      · rcases List.mem_cons.1 he with rfl | he'
        · exact Or.inr ⟨((qc c m xCur y).x, (qc c m xCur y).y), by simp, hkeep p q hS hpe.1 hpe.2⟩
        · exact Or.inr ⟨e, by simp [he'], hpe⟩
    · intro hst p hp
      exact boxEq_mem' hst hp
  · -- push and sample (sample empty)
    refine ⟨hres, ?_, ?_, by simp, by simp⟩
    · intro e he
      simp only [List.mem_singleton] at he
      subst he
      exact ⟨hrxb, hy.trans hry.length_eq.symm⟩
    · intro p q rest hS hcov
      rcases hcov with h | ⟨e, he, hpe⟩
      · exact Or.inl h
      · rcases List.mem_cons.1 he with rfl | he'
        · exact Or.inr ⟨((qc c m xCur y).x, (qc c m xCur y).y), by simp, hkeep p q hS hpe.1 hpe.2⟩
        · exact Or.inr ⟨e, by simp [he'], hpe⟩
  · -- already inside the result
    refine ⟨hres, by simp, ?_, by simp, by simp⟩
    intro p q rest hS hcov
    rcases hcov with h | ⟨e, he, hpe⟩
    · exact Or.inl h
    · rcases List.mem_cons.1 he with rfl | he'
      · have hsub : Box.subset (qc c m xCur y).x res = true := by simpa using h4
        exact Or.inl (mem_of_subset hsub (hkeep p q hS hpe.1 hpe.2).1)
      · exact Or.inr ⟨e, by simpa using he', hpe⟩

theorem exLoop_ok (bis : Box → Option (Box × Box)) (hbis : BisOK bis) (imp : Imp) :
    ∀ (n : Nat) (stack : List (Box × Box)) (res : Box) (gu : Bool),
      BSub res box → (∀ e ∈ stack, BSub e.1 box ∧ cntF m = e.2.length) →
      BSub (exLoop c m prec bis samp box imp n stack res gu).box box ∧
      (∀ p q, Mem p box → merge m p q ∈ S → CovP p q res stack →
        Mem p (exLoop c m prec bis samp box imp n stack res gu).box) ∧
      ((exLoop c m prec bis samp box imp n stack res gu).fl.inact = true →
        ∀ p, Mem p box → Mem p (exLoop c m prec bis samp box imp n stack res gu).box) := by
  intro n
  induction n with
  | zero =>
    intro stack res gu _ _
    refine ⟨BSub.refl box, fun p q hp _ _ => hp, ?_⟩
    intro hi; simp [exLoop] at hi
  | succ n ih =>
    intro stack res gu hres hst
    cases stack with
    | nil =>
      simp only [exLoop, exFinish]
      refine ⟨BSub_binter_left _ _, ?_, by simp⟩
      intro p q hp _ hcov
      rcases hcov with h | ⟨e, he, _⟩
      · exact mem_binter hp h
      · simp at he
    | cons e rest =>
      obtain ⟨xs, ys⟩ := e
      have hxs : BSub xs box := (hst (xs, ys) (List.mem_cons_self ..)).1
      have hys : cntF m = ys.length := (hst (xs, ys) (List.mem_cons_self ..)).2
      have hrest : ∀ e ∈ rest, BSub e.1 box ∧ cntF m = e.2.length := fun e he => hst e (List.mem_cons_of_mem _ he)
      cases hb : bis ys with
      | none =>
        obtain ⟨p1, p2, p3, p4, _⟩ := exProceed_ok hc m prec samp hsamp box hbx hxs hres hys
        simp only [exLoop, hb]
        split_ifs with hstop
        · simp only [exFinish]
          refine ⟨BSub_binter_left _ _, fun p q hp _ _ => mem_binter hp (p4 hstop p hp), fun _ p hp => mem_binter hp (p4 hstop p hp)⟩
        · have hst' : ∀ e ∈ (exProceed c m prec samp box xs res ys).push ++ rest, BSub e.1 box ∧ cntF m = e.2.length := by
            intro e he
            rcases List.mem_append.1 he with h | h
            · exact p2 e h
            · exact hrest e h
          obtain ⟨i1, i2, i3⟩ := ih _ _ (gu || (exProceed c m prec samp box xs res ys).gaveUp) p1 hst'
          exact ⟨i1, fun p q hp hS hcov => i2 p q hp hS (p3 p q rest hS hcov), i3⟩
      | some lr =>
        obtain ⟨y1, y2⟩ := lr
        obtain ⟨hl1, hl2⟩ := hbis.len hb
        have hy1 : cntF m = y1.length := hys.trans hl1.symm
        have hy2 : cntF m = y2.length := hys.trans hl2.symm
        obtain ⟨p1, p2, p3, p4, _⟩ := exProceed_ok hc m prec samp hsamp box hbx hxs hres hy1
        obtain ⟨r1, r2, r3, r4, _⟩ := exProceed_ok hc m prec samp hsamp box hbx hxs p1 hy2
        simp only [exLoop, hb]
        split_ifs with hstop1 hstop2
        · simp only [exFinish]
          refine ⟨BSub_binter_left _ _, fun p q hp _ _ => mem_binter hp (p4 hstop1 p hp), fun _ p hp => mem_binter hp (p4 hstop1 p hp)⟩
        · simp only [exFinish]
          refine ⟨BSub_binter_left _ _, fun p q hp _ _ => mem_binter hp (r4 hstop2 p hp), fun _ p hp => mem_binter hp (r4 hstop2 p hp)⟩
        · have hst' : ∀ e ∈ (exProceed c m prec samp box xs (exProceed c m prec samp box xs res y1).res y2).push ++
              (exProceed c m prec samp box xs res y1).push ++ rest, BSub e.1 box ∧ cntF m = e.2.length := by
            intro e he
            simp only [List.mem_append] at he
            rcases he with (h | h) | h
            · exact r2 e h
            · exact p2 e h
            · exact hrest e h
          obtain ⟨i1, i2, i3⟩ := ih _ _ (gu || (exProceed c m prec samp box xs res y1).gaveUp ||
            (exProceed c m prec samp box xs (exProceed c m prec samp box xs res y1).res y2).gaveUp) r1 hst'
          refine ⟨i1, ?_, i3⟩
          intro p q hp hS hcov
          apply i2 p q hp hS
          -- split the popped pair into its two halves
          have hA : CovP p q res ((xs, y1) :: (xs, y2) :: rest) := by
            rcases hcov with h | ⟨e, he, hpe⟩
            · exact Or.inl h
            · rcases List.mem_cons.1 he with rfl | he'
              · rcases hbis.cover hb q hpe.2 with hq | hq
                · exact Or.inr ⟨(xs, y1), by simp, hpe.1, hq⟩
                · exact Or.inr ⟨(xs, y2), by simp, hpe.1, hq⟩
              · exact Or.inr ⟨e, by simp [he'], hpe⟩
          have hB := (p3 p q ((xs, y2) :: rest) hS hA).perm
            (s2 := (xs, y2) :: ((exProceed c m prec samp box xs res y1).push ++ rest))
            (by
              intro e he
              rcases List.mem_append.1 he with h | h
              · exact List.mem_cons_of_mem _ (List.mem_append_left _ h)
              · rcases List.mem_cons.1 h with rfl | h'
                · exact List.mem_cons_self ..
                · exact List.mem_cons_of_mem _ (List.mem_append_right _ h'))
          have hC := r3 p q _ hS hB
          rwa [← List.append_assoc] at hC

end Exist

/-- exists: every point `x` of the box such that `(x,y)` is in the set for some `y` of the parameter box
    is kept, whatever the sub-contractor (meeting the contract), the covering bisection, the sampling,
    the precision and the fuel; the result is a sub-box -/
theorem exist_ok {c : CtcFn} {S : Set Pt} (hc : CtcOK c S) (fuel : Nat) (m : List Bool) (yinit : Box) (prec : Ext)
    (bis : Box → Option (Box × Box)) (samp : Box → Box) (hbis : BisOK bis) (hsamp : ∀ y, (samp y).length = y.length) :
    CtcOK (existF fuel c m yinit prec bis samp) (existSet m yinit S) := by
  have key : ∀ x imp, cntT m = x.length ∧ cntF m = yinit.length →
      BSub (exLoop c m prec bis samp x imp fuel [(x, yinit)] (emptyLike x) false).box x ∧
      (∀ p q, Mem p x → merge m p q ∈ S → CovP p q (emptyLike x) [(x, yinit)] →
        Mem p (exLoop c m prec bis samp x imp fuel [(x, yinit)] (emptyLike x) false).box) ∧
      ((exLoop c m prec bis samp x imp fuel [(x, yinit)] (emptyLike x) false).fl.inact = true →
        ∀ p, Mem p x → Mem p (exLoop c m prec bis samp x imp fuel [(x, yinit)] (emptyLike x) false).box) := by
    intro x imp hg
    apply exLoop_ok hc m prec samp hsamp x hg.1 bis hbis imp fuel _ _ false (BSub_emptyLike x)
    intro e he
    simp only [List.mem_singleton] at he
    subst he
    exact ⟨BSub.refl x, hg.2⟩
  constructor
  · intro x imp
    simp only [existF]; split_ifs with hg
    · exact (key x imp hg).1
    · exact BSub.refl x
  · intro x imp p hp hS
    obtain ⟨q, hq, hS'⟩ := hS
    simp only [existF]; split_ifs with hg
    · exact (key x imp hg).2.1 p q hp hS' (Or.inr ⟨(x, yinit), by simp, hp, hq⟩)
    · exact hp
  · intro x imp hi p hp
    simp only [existF] at hi ⊢; split_ifs at hi ⊢ with hg
    · exact (key x imp hg).2.2 hi p hp

/-! ### CtcForAll -/

/-- a pending parameter box: inside the initial one, non-empty, of the right dimension -/
def GoodY (m : List Bool) (yinit y : Box) : Prop :=
  (∀ q, Mem q y → Mem q yinit) ∧ (∃ q, Mem q y) ∧ cntF m = y.length

section ForAll
variable {c : CtcFn} {S : Set Pt} (hc : CtcOK c S) (m : List Bool) (prec : Ext) (samp : Box → Box)
  (hsamp : SampOK samp) (yinit : Box)
include hc hsamp

theorem faProceed_ok {x y : Box} (hx : cntT m = x.length) (hy : GoodY m yinit y) (inact : Bool) :
    match faProceed c m prec samp x y inact with
    | none => ∀ p, Mem p x → p ∉ forallSet m yinit S
    | some s => BSub s.x x ∧ (∀ p, Mem p x → p ∈ forallSet m yinit S → Mem p s.x) ∧ (∀ y' ∈ s.push, y' = y) := by
  obtain ⟨hyin, ⟨q1, hq1⟩, hyl⟩ := hy
  have hsl : cntF m = (samp y).length := by rw [hsamp.len]; exact hyl
  obtain ⟨q0, hq0⟩ := hsamp.nonempty y ⟨q1, hq1⟩
  have hrx : BSub (qc c m x (samp y)).x x := (qc_sub hc m hx hsl).1
  have hkeep : ∀ p, Mem p x → p ∈ forallSet m yinit S → Mem p (qc c m x (samp y)).x :=
    fun p hp hS => (qc_keep hc m hp hq0 hx hsl (Or.inl (hS q0 (hyin q0 (hsamp.sub y q0 hq0))))).1
  simp only [faProceed]
  split_ifs with h1 h2 h3
  · intro p hp hS
    exact not_mem_of_isEmpty h1 p (hkeep p hp hS)
  · exact ⟨hrx, hkeep, by simp⟩
  · have hrxl : cntT m = (qc c m x (samp y)).x.length := hx.trans hrx.length_eq.symm
    refine ⟨(qc_sub hc m hrxl hyl).1.trans hrx, ?_, by simp⟩
    intro p hp hS
    exact (qc_keep hc m (hkeep p hp hS) hq1 hrxl hyl (Or.inl (hS q1 (hyin q1 hq1)))).1
  · exact ⟨hrx, hkeep, by simp⟩

theorem faLoop_ok (bis : Box → Option (Box × Box)) (hbis : BisOK bis) (box : Box) (hbx : cntT m = box.length) (imp : Imp) :
    ∀ (n : Nat) (stack : List Box) (x : Box) (inact gu : Bool),
      BSub x box → (∀ y ∈ stack, GoodY m yinit y) →
      BSub (faLoop c m prec bis samp box imp n stack x inact gu).box box ∧
      (∀ p, Mem p x → p ∈ forallSet m yinit S → Mem p (faLoop c m prec bis samp box imp n stack x inact gu).box) ∧
      ((faLoop c m prec bis samp box imp n stack x inact gu).fl.inact = true →
        boxEq box (faLoop c m prec bis samp box imp n stack x inact gu).box = true) := by
  intro n
  induction n with
  | zero =>
    intro stack x inact gu hx _
    refine ⟨BSub.refl box, fun p hp _ => hx.mem hp, ?_⟩
    intro hi; simp [faLoop] at hi
  | succ n ih =>
    intro stack x inact gu hx hst
    have hxl : cntT m = x.length := hbx.trans hx.length_eq.symm
    cases stack with
    | nil =>
      simp only [faLoop]
      refine ⟨hx, fun p hp _ => hp, ?_⟩
      intro hi
      simp only [Bool.and_eq_true] at hi
      exact hi.2
    | cons y rest =>
      have hy : GoodY m yinit y := hst y (List.mem_cons_self ..)
      have hrest : ∀ y' ∈ rest, GoodY m yinit y' := fun y' h => hst y' (List.mem_cons_of_mem _ h)
      cases hb : bis y with
      | none =>
        have P := faProceed_ok hc m prec samp hsamp yinit hxl hy inact
        cases h1 : faProceed c m prec samp x y inact with
        | none =>
          rw [h1] at P
          simp only [faLoop, hb, h1]
          exact ⟨BSub_emptyLike box, fun p hp hS => absurd hS (P p hp), by simp⟩
        | some s =>
          rw [h1] at P
          obtain ⟨P1, P2, _⟩ := P
          simp only [faLoop, hb, h1]
          have hst' : ∀ y' ∈ (if s.push.isEmpty = true then rest else y :: rest), GoodY m yinit y' := by
            intro y' hy'
            split_ifs at hy'
            · exact hrest y' hy'
            · exact hst y' hy'
          obtain ⟨i1, i2, i3⟩ := ih _ s.x s.inact (gu || s.gaveUp) (P1.trans hx) hst'
          exact ⟨i1, fun p hp hS => i2 p (P2 p hp hS) hS, i3⟩
      | some lr =>
        obtain ⟨y1, y2⟩ := lr
        obtain ⟨hl1, hl2⟩ := hbis.len hb
        obtain ⟨hs1, hs2⟩ := hbis.sub hb
        obtain ⟨hn1, hn2⟩ := hbis.nonempty hb hy.2.1
        have hy1 : GoodY m yinit y1 := ⟨fun q hq => hy.1 q (hs1 q hq), hn1, hy.2.2.trans hl1.symm⟩
        have hy2 : GoodY m yinit y2 := ⟨fun q hq => hy.1 q (hs2 q hq), hn2, hy.2.2.trans hl2.symm⟩
        have P := faProceed_ok hc m prec samp hsamp yinit hxl hy1 inact
        cases h1 : faProceed c m prec samp x y1 inact with
        | none =>
          rw [h1] at P
          simp only [faLoop, hb, h1]
          exact ⟨BSub_emptyLike box, fun p hp hS => absurd hS (P p hp), by simp⟩
        | some s1 =>
          rw [h1] at P
          obtain ⟨P1, P2, P3⟩ := P
          have hs1l : cntT m = s1.x.length := hxl.trans P1.length_eq.symm
          have Q := faProceed_ok hc m prec samp hsamp yinit hs1l hy2 s1.inact
          cases h2 : faProceed c m prec samp s1.x y2 s1.inact with
          | none =>
            rw [h2] at Q
            simp only [faLoop, hb, h1, h2]
            exact ⟨BSub_emptyLike box, fun p hp hS => absurd hS (Q p (P2 p hp hS)), by simp⟩
          | some s2 =>
            rw [h2] at Q
            obtain ⟨Q1, Q2, Q3⟩ := Q
            simp only [faLoop, hb, h1, h2]
            have hst' : ∀ y' ∈ s2.push ++ s1.push ++ rest, GoodY m yinit y' := by
              intro y' hy'
              simp only [List.mem_append] at hy'
              rcases hy' with (h | h) | h
              · rw [Q3 y' h]; exact hy2
              · rw [P3 y' h]; exact hy1
              · exact hrest y' h
            obtain ⟨i1, i2, i3⟩ := ih _ s2.x s2.inact (gu || s1.gaveUp || s2.gaveUp) ((Q1.trans P1).trans hx) hst'
            exact ⟨i1, fun p hp hS => i2 p (Q2 p (P2 p hp hS) hS) hS, i3⟩

end ForAll

/-- for all: every point `x` of the box such that `(x,y)` is in the set for all `y` of the (non-empty)
    parameter box is kept; the result is a sub-box; INACTIVE only if nothing was removed -/
theorem forall_ok {c : CtcFn} {S : Set Pt} (hc : CtcOK c S) (fuel : Nat) (m : List Bool) (yinit : Box) (prec : Ext)
    (bis : Box → Option (Box × Box)) (samp : Box → Box) (hbis : BisOK bis) (hsamp : SampOK samp)
    (hne : ∃ q, Mem q yinit) :
    CtcOK (forallF fuel c m yinit prec bis samp) (forallSet m yinit S) := by
  have key : ∀ x imp, cntT m = x.length ∧ cntF m = yinit.length →
      BSub (faLoop c m prec bis samp x imp fuel [yinit] x true false).box x ∧
      (∀ p, Mem p x → p ∈ forallSet m yinit S → Mem p (faLoop c m prec bis samp x imp fuel [yinit] x true false).box) ∧
      ((faLoop c m prec bis samp x imp fuel [yinit] x true false).fl.inact = true →
        boxEq x (faLoop c m prec bis samp x imp fuel [yinit] x true false).box = true) := by
    intro x imp hg
    apply faLoop_ok hc m prec samp hsamp yinit bis hbis x hg.1 imp fuel _ x true false (BSub.refl x)
    intro y hy
    simp only [List.mem_singleton] at hy
    subst hy
    exact ⟨fun q hq => hq, hne, hg.2⟩
  constructor
  · intro x imp
    simp only [forallF]; split_ifs with hg
    · exact (key x imp hg).1
    · exact BSub.refl x
  · intro x imp p hp hS
    simp only [forallF]; split_ifs with hg
    · exact (key x imp hg).2.1 p hp hS
    · exact hp
  · intro x imp hi p hp
    simp only [forallF] at hi ⊢; split_ifs at hi ⊢ with hg
    · exact boxEq_mem ((key x imp hg).2.2 hi) hp

/-! ### the concrete bisection (`LargestFirst`, guarded cut point) and sampling (`mid`) functions -/

theorem guardCut_spec {a b p : Ext} {l r : Itv} (h : guardCut a b p = some (l, r)) :
    l = .mk a p ∧ r = .mk p b ∧ Ext.le a p = true ∧ Ext.le p b = true ∧ p.isFin = true := by
  unfold guardCut at h
  split_ifs at h with hg
  simp only [Option.some.injEq, Prod.mk.injEq] at h
  simp only [Bool.and_eq_true] at hg
  exact ⟨h.1.symm, h.2.symm, hg.1.1, hg.1.2, hg.2⟩

theorem bisectItv_spec {ratio : Rat} {I l r : Itv} (h : bisectItv ratio I = some (l, r)) :
    ∃ a b p, I = .mk a b ∧ l = .mk a p ∧ r = .mk p b ∧ Ext.le a p = true ∧ Ext.le p b = true ∧ p.isFin = true := by
  unfold bisectItv at h
  split at h
  · split at h
    · obtain ⟨h1, h2, h3, h4, h5⟩ := guardCut_spec h
      exact ⟨_, _, _, rfl, h1, h2, h3, h4, h5⟩
    · simp at h
  · simp at h

theorem mem_set_cover {q : Pt} {y : Box} (hq : Mem q y) : ∀ {i : Nat} {I Jl Jr : Itv}, y[i]? = some I →
    (∀ v : ℝ, v ∈ I → v ∈ Jl ∨ v ∈ Jr) → Mem q (y.set i Jl) ∨ Mem q (y.set i Jr) := by
  induction hq with
  | nil => intro i I Jl Jr hi; simp at hi
  | @cons v I0 q' y' hv hq' ih =>
    intro i I Jl Jr hi hcov
    cases i with
    | zero =>
      simp only [List.getElem?_cons_zero, Option.some.injEq] at hi
      subst hi
      rcases hcov v hv with h | h
      · exact Or.inl (List.Forall₂.cons h hq')
      · exact Or.inr (List.Forall₂.cons h hq')
    | succ k =>
      simp only [List.getElem?_cons_succ] at hi
      rcases ih hi hcov with h | h
      · exact Or.inl (List.Forall₂.cons hv h)
      · exact Or.inr (List.Forall₂.cons hv h)

theorem mem_of_mem_set : ∀ {y : Box} {q : Pt} {i : Nat} {I J : Itv}, Mem q (y.set i J) → y[i]? = some I →
    (∀ v : ℝ, v ∈ J → v ∈ I) → Mem q y
  | [], _, _, _, _, _, hi, _ => by simp at hi
  | I0 :: y', q, 0, I, J, hq, hi, hsub => by
    simp only [List.getElem?_cons_zero, Option.some.injEq] at hi
    subst hi
    simp only [List.set_cons_zero] at hq
    cases hq with
    | cons hv hq' => exact List.Forall₂.cons (hsub _ hv) hq'
  | I0 :: y', q, k + 1, I, J, hq, hi, hsub => by
    simp only [List.getElem?_cons_succ] at hi
    simp only [List.set_cons_succ] at hq
    cases hq with
    | cons hv hq' => exact List.Forall₂.cons hv (mem_of_mem_set hq' hi hsub)

theorem nonempty_set : ∀ {y : Box} {i : Nat} {I J : Itv}, (∃ q, Mem q y) → y[i]? = some I → (∃ v : ℝ, v ∈ J) →
    ∃ q, Mem q (y.set i J)
  | [], _, _, _, _, hi, _ => by simp at hi
  | I0 :: y', 0, I, J, ⟨q, hq⟩, _, ⟨v, hv⟩ => by
    cases hq with
    | cons _ hq' => exact ⟨v :: _, List.Forall₂.cons hv hq'⟩
  | I0 :: y', k + 1, I, J, ⟨q, hq⟩, hi, hJ => by
    simp only [List.getElem?_cons_succ] at hi
    cases hq with
    | cons hv hq' =>
      obtain ⟨q2, hq2⟩ := nonempty_set ⟨_, hq'⟩ hi hJ
      exact ⟨_ :: q2, List.Forall₂.cons hv hq2⟩

theorem lfBisect_spec {prec : Ext} {ratio : Rat} {y l r : Box} (h : lfBisect prec ratio y = some (l, r)) :
    ∃ i a b p, y[i]? = some (.mk a b) ∧ l = y.set i (.mk a p) ∧ r = y.set i (.mk p b) ∧
      Ext.le a p = true ∧ Ext.le p b = true ∧ p.isFin = true := by
  unfold lfBisect at h
  split at h
  · simp at h
  · rename_i i _
    split at h
    · simp at h
    · rename_i I hI
      split at h
      · simp at h
      · rename_i l' r' hb
        obtain ⟨a, b, p, hIab, hl, hr, h1, h2, h3⟩ := bisectItv_spec hb
        simp only [Option.some.injEq, Prod.mk.injEq] at h
        exact ⟨i, a, b, p, hIab ▸ hI, by rw [← h.1, hl], by rw [← h.2, hr], h1, h2, h3⟩

/-- the guarded `LargestFirst` bisection is a covering bisection into two non-empty sub-boxes -/
theorem lfBisect_ok (prec : Ext) (ratio : Rat) : BisOK (lfBisect prec ratio) := by
  have fin_real : ∀ {p : Ext}, p.isFin = true → ∃ t : ℝ, p.toE = (t : EReal) := by
    intro p hp
    cases p with
    | fin q => exact ⟨(q : ℝ), rfl⟩
    | ninf => simp [Ext.isFin] at hp
    | pinf => simp [Ext.isFin] at hp
  constructor
  · intro y l r h
    obtain ⟨i, a, b, p, _, hl, hr, _⟩ := lfBisect_spec h
    subst hl hr; simp
  · intro y l r h q hq
    obtain ⟨i, a, b, p, hi, hl, hr, _, _, hp⟩ := lfBisect_spec h
    subst hl hr
    obtain ⟨t, ht⟩ := fin_real hp
    refine mem_set_cover hq hi ?_
    intro v hv
    have hv' := (Itv.mem_mk v a b).1 hv
    rcases le_total ((v : ℝ) : EReal) p.toE with h' | h'
    · exact Or.inl ⟨hv'.1, h'⟩
    · exact Or.inr ⟨h', hv'.2⟩
  · intro y l r h
    obtain ⟨i, a, b, p, hi, hl, hr, h1, h2, _⟩ := lfBisect_spec h
    subst hl hr
    constructor
    · intro q hq
      refine mem_of_mem_set hq hi ?_
      intro v hv
      have hv' := (Itv.mem_mk v a p).1 hv
      exact ⟨hv'.1, le_trans hv'.2 ((Ext.le_iff _ _).1 h2)⟩
    · intro q hq
      refine mem_of_mem_set hq hi ?_
      intro v hv
      have hv' := (Itv.mem_mk v p b).1 hv
      exact ⟨le_trans ((Ext.le_iff _ _).1 h1) hv'.1, hv'.2⟩
  · intro y l r h hne
    obtain ⟨i, a, b, p, hi, hl, hr, h1, h2, hp⟩ := lfBisect_spec h
    subst hl hr
    obtain ⟨t, ht⟩ := fin_real hp
    constructor
    · exact nonempty_set hne hi ⟨t, by rw [Itv.mem_mk, ← ht]; exact ⟨(Ext.le_iff _ _).1 h1, le_refl _⟩⟩
    · exact nonempty_set hne hi ⟨t, by rw [Itv.mem_mk, ← ht]; exact ⟨le_refl _, (Ext.le_iff _ _).1 h2⟩⟩

theorem guardMid_sub (a b m : Ext) (v : ℝ) (hv : v ∈ guardMid a b m) : v ∈ Itv.mk a b := by
  unfold guardMid at hv
  split_ifs at hv with hg
  · simp only [Bool.and_eq_true, Ext.le_iff] at hg
    have hv' := (Itv.mem_mk _ _ _).1 hv
    exact ⟨le_trans hg.1 hv'.1, le_trans hv'.2 hg.2⟩
  · exact hv

theorem guardMid_nonempty (a b : Rat) (m : Ext) (h : ∃ v : ℝ, v ∈ Itv.mk (.fin a) (.fin b)) :
    ∃ v : ℝ, v ∈ guardMid (.fin a) (.fin b) m := by
  unfold guardMid
  split_ifs with hg
  · simp only [Bool.and_eq_true] at hg
    cases m with
    | fin t => exact ⟨(t : ℝ), ⟨le_refl _, le_refl _⟩⟩
    | ninf => simp [Ext.le] at hg
    | pinf => simp [Ext.le] at hg
  · exact h

theorem midItv_sub (I : Itv) (v : ℝ) (hv : v ∈ midItv I) : v ∈ I := by
  unfold midItv at hv
  split at hv
  · exact guardMid_sub _ _ _ v hv
  · exact hv

theorem midItv_nonempty (I : Itv) (h : ∃ v : ℝ, v ∈ I) : ∃ v : ℝ, v ∈ midItv I := by
  unfold midItv
  split
  · exact guardMid_nonempty _ _ _ h
  · exact h

/-- sampling at the (guarded) midpoint: a non-empty sub-box of the same dimension -/
theorem midBox_ok : SampOK midBox := by
  constructor
  · intro y; simp [midBox]
  · intro y q hq
    unfold midBox at hq
    induction y generalizing q with
    | nil => exact hq
    | cons I y ih =>
      cases hq with
      | cons hv hq' => exact List.Forall₂.cons (midItv_sub I _ hv) (ih _ hq')
  · intro y hne
    unfold midBox
    induction y with
    | nil => exact ⟨[], List.Forall₂.nil⟩
    | cons I y ih =>
      obtain ⟨q, hq⟩ := hne
      cases hq with
      | @cons v _ q' _ hv hq' =>
        obtain ⟨q2, hq2⟩ := ih ⟨q', hq'⟩
        obtain ⟨w, hw⟩ := midItv_nonempty I ⟨v, hv⟩
        exact ⟨w :: q2, List.Forall₂.cons hw hq2⟩

end Ibex.C19
