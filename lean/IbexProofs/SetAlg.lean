/-
  The set algebra of `IbexModel.Itv` / `IbexModel.Box` agrees with its point-wise
  (set-theoretic) meaning over the reals.
-/
import IbexProofs.Arith
import Mathlib.Data.List.Forall2

namespace Ibex
open Ibex

/-! ### helpers on extended reals -/

/-- a closed extended-real interval with a non-`⊤` lower and a non-`⊥` upper bound contains a real -/
theorem ereal_exists_mem {a b : EReal} (h : a ≤ b) (ha : a ≠ ⊤) (hb : b ≠ ⊥) :
    ∃ x : ℝ, a ≤ (x : EReal) ∧ (x : EReal) ≤ b := by
  rcases eq_or_lt_of_le h with rfl | hlt
  · lift a to ℝ using ⟨ha, hb⟩
    exact ⟨a, le_refl _, le_refl _⟩
  · obtain ⟨x, h1, h2⟩ := EReal.lt_iff_exists_real_btwn.1 hlt
    exact ⟨x, h1.le, h2.le⟩

/-- a real of `[a,b]` strictly below `c`, when `a < c` -/
theorem ereal_exists_mem_lt {a b c : EReal} (hab : a ≤ b) (hb : b ≠ ⊥) (hac : a < c) :
    ∃ x : ℝ, a ≤ (x : EReal) ∧ (x : EReal) ≤ b ∧ (x : EReal) < c := by
  rcases eq_or_lt_of_le hab with rfl | hlt
  · lift a to ℝ using ⟨ne_top_of_lt hac, hb⟩
    exact ⟨a, le_refl _, le_refl _, hac⟩
  · obtain ⟨x, h1, h2⟩ := EReal.lt_iff_exists_real_btwn.1 (lt_min hlt hac)
    exact ⟨x, h1.le, (lt_of_lt_of_le h2 (min_le_left _ _)).le, lt_of_lt_of_le h2 (min_le_right _ _)⟩

/-- a real of `[a,b]` strictly above `d`, when `d < b` -/
theorem ereal_exists_mem_gt {a b d : EReal} (hab : a ≤ b) (ha : a ≠ ⊤) (hdb : d < b) :
    ∃ x : ℝ, a ≤ (x : EReal) ∧ (x : EReal) ≤ b ∧ d < (x : EReal) := by
  rcases eq_or_lt_of_le hab with rfl | hlt
  · lift a to ℝ using ⟨ha, ne_bot_of_gt hdb⟩
    exact ⟨a, le_refl _, le_refl _, hdb⟩
  · obtain ⟨x, h1, h2⟩ := EReal.lt_iff_exists_real_btwn.1 (max_lt hlt hdb)
    exact ⟨x, (lt_of_le_of_lt (le_max_left _ _) h1).le, h2.le, lt_of_le_of_lt (le_max_right _ _) h1⟩

theorem Ext.toE_eq_top {a : Ext} : a.toE = ⊤ ↔ a = .pinf := by cases a <;> simp
theorem Ext.toE_eq_bot {a : Ext} : a.toE = ⊥ ↔ a = .ninf := by cases a <;> simp

theorem Ext.toE_eq_iff {a b : Ext} : a.toE = b.toE ↔ a = b :=
  ⟨fun h => Ext.toE_injective h, fun h => h ▸ rfl⟩

theorem Ext.beq_iff_toE {a b : Ext} : (a == b) = true ↔ a.toE = b.toE := by
  rw [beq_iff_eq, Ext.toE_eq_iff]

theorem Ext.bne_iff {a b : Ext} : (a != b) = true ↔ a.toE ≠ b.toE := by
  rw [bne_iff_ne, ne_eq, ne_eq, Ext.toE_eq_iff]

/-! ### well-formedness -/

theorem Itv.WF_mk {a b : Ext} :
    (Itv.mk a b).WF = true ↔ a.toE ≤ b.toE ∧ a.toE ≠ ⊤ ∧ b.toE ≠ ⊥ := by
  simp only [Itv.WF, Bool.and_eq_true, Ext.le_iff, bne_iff_ne, ne_eq, Ext.toE_eq_top,
    Ext.toE_eq_bot, and_assoc]

/-- an interval containing a real is well formed -/
theorem Itv.WF_of_mem {x : ℝ} {X : Itv} (hx : x ∈ X) : X.WF = true := by
  cases X with
  | empty => rfl
  | mk a b =>
    exact Itv.WF_mk.2 ⟨le_trans hx.1 hx.2, ne_top_of_le_ne_top (EReal.coe_ne_top x) hx.1,
      ne_bot_of_le_ne_bot (EReal.coe_ne_bot x) hx.2⟩

theorem Itv.mem_ofBounds_iff {x : ℝ} {lo hi : Ext} :
    x ∈ Itv.ofBounds lo hi ↔ lo.toE ≤ (x : EReal) ∧ (x : EReal) ≤ hi.toE := by
  have e : Itv.ofBounds lo hi = if (Itv.mk lo hi).WF = true then Itv.mk lo hi else Itv.empty := rfl
  rw [e]
  split
  · exact Iff.rfl
  · rename_i h
    constructor
    · intro hx; exact absurd hx (Itv.not_mem_empty x)
    · intro hx
      exact absurd (Itv.WF_of_mem (X := Itv.mk lo hi) hx) h

/-! ### 1. intersection -/

theorem Itv.mem_inter {x : ℝ} {X Y : Itv} : x ∈ Itv.inter X Y ↔ x ∈ X ∧ x ∈ Y := by
  cases X with
  | empty => simp [Itv.inter]
  | mk a b =>
    cases Y with
    | empty => simp [Itv.inter]
    | mk c d =>
      simp only [Itv.inter, Itv.mem_ofBounds_iff, Itv.mem_mk, Ext.toE_max, Ext.toE_min, max_le_iff,
        le_min_iff]
      tauto

/-! ### 2. hull -/

theorem Itv.mem_hull_left {x : ℝ} {X Y : Itv} (hx : x ∈ X) : x ∈ Itv.hull X Y := by
  cases X with
  | empty => exact absurd hx (Itv.not_mem_empty x)
  | mk a b =>
    cases Y with
    | empty => exact hx
    | mk c d =>
      simp only [Itv.hull, Itv.mem_mk, Ext.toE_max, Ext.toE_min]
      exact ⟨le_trans (min_le_left _ _) hx.1, le_trans hx.2 (le_max_left _ _)⟩

theorem Itv.mem_hull_right {x : ℝ} {X Y : Itv} (hx : x ∈ Y) : x ∈ Itv.hull X Y := by
  cases Y with
  | empty => exact absurd hx (Itv.not_mem_empty x)
  | mk c d =>
    cases X with
    | empty => exact hx
    | mk a b =>
      simp only [Itv.hull, Itv.mem_mk, Ext.toE_max, Ext.toE_min]
      exact ⟨le_trans (min_le_right _ _) hx.1, le_trans hx.2 (le_max_right _ _)⟩

theorem Itv.hull_least {X Y Z : Itv} (hX : Itv.subset X Z = true) (hY : Itv.subset Y Z = true) :
    Itv.subset (Itv.hull X Y) Z = true := by
  cases X with
  | empty => cases Y <;> simpa [Itv.hull] using hY
  | mk a b =>
    cases Y with
    | empty => simpa [Itv.hull] using hX
    | mk c d =>
      cases Z with
      | empty => simp [Itv.subset] at hX
      | mk e f =>
        simp only [Itv.subset, Itv.hull, Bool.and_eq_true, Ext.le_iff, Ext.toE_min,
          Ext.toE_max] at hX hY ⊢
        exact ⟨le_min hX.1 hY.1, max_le hX.2 hY.2⟩

/-! ### 3. a well-formed non-empty interval contains a real -/

theorem Itv.exists_mem_of_WF {X : Itv} (hX : X.WF = true) (hne : X ≠ .empty) : ∃ x : ℝ, x ∈ X := by
  cases X with
  | empty => exact absurd rfl hne
  | mk a b =>
    obtain ⟨h1, h2, h3⟩ := Itv.WF_mk.1 hX
    exact ereal_exists_mem h1 h2 h3

/-! ### 4. subset -/

theorem Itv.subset_iff {X Y : Itv} (hX : X.WF = true) :
    Itv.subset X Y = true ↔ ∀ x : ℝ, x ∈ X → x ∈ Y := by
  constructor
  · intro h x hx; exact Itv.mem_of_subset h hx
  · intro h
    cases X with
    | empty => rfl
    | mk a b =>
      obtain ⟨hab, ha, hb⟩ := Itv.WF_mk.1 hX
      cases Y with
      | empty =>
        obtain ⟨x, hx⟩ := ereal_exists_mem hab ha hb
        exact absurd (h x hx) (Itv.not_mem_empty x)
      | mk c d =>
        simp only [Itv.subset, Bool.and_eq_true, Ext.le_iff]
        constructor
        · by_contra hc
          obtain ⟨x, h1, h2, h3⟩ := ereal_exists_mem_lt hab hb (not_le.1 hc)
          exact absurd (h x ⟨h1, h2⟩).1 (not_le.2 h3)
        · by_contra hc
          obtain ⟨x, h1, h2, h3⟩ := ereal_exists_mem_gt hab ha (not_le.1 hc)
          exact absurd (h x ⟨h1, h2⟩).2 (not_le.2 h3)

/-! ### 5. intersects / isDisjoint -/

theorem Itv.intersects_iff {X Y : Itv} (hX : X.WF = true) (hY : Y.WF = true) :
    Itv.intersects X Y = true ↔ ∃ x : ℝ, x ∈ X ∧ x ∈ Y := by
  cases X with
  | empty => simp [Itv.intersects]
  | mk a b =>
    cases Y with
    | empty => simp [Itv.intersects]
    | mk c d =>
      obtain ⟨hab, ha, hb⟩ := Itv.WF_mk.1 hX
      obtain ⟨hcd, hc, hd⟩ := Itv.WF_mk.1 hY
      simp only [Itv.intersects, Bool.and_eq_true, Ext.le_iff, Itv.mem_mk]
      constructor
      · rintro ⟨had, hcb⟩
        have hle : Max.max a.toE c.toE ≤ Min.min b.toE d.toE :=
          max_le (le_min hab had) (le_min hcb hcd)
        have h1 : Max.max a.toE c.toE ≠ ⊤ := by
          rcases max_choice a.toE c.toE with e | e <;> rw [e] <;> assumption
        have h2 : Min.min b.toE d.toE ≠ ⊥ := by
          rcases min_choice b.toE d.toE with e | e <;> rw [e] <;> assumption
        obtain ⟨x, hx1, hx2⟩ := ereal_exists_mem hle h1 h2
        exact ⟨x, ⟨le_trans (le_max_left _ _) hx1, le_trans hx2 (min_le_left _ _)⟩,
          ⟨le_trans (le_max_right _ _) hx1, le_trans hx2 (min_le_right _ _)⟩⟩
      · rintro ⟨x, ⟨h1, h2⟩, ⟨h3, h4⟩⟩
        exact ⟨le_trans h1 h4, le_trans h3 h2⟩

/-- a common point always forces `intersects` (no well-formedness needed) -/
theorem Itv.intersects_of_mem {x : ℝ} {X Y : Itv} (hx : x ∈ X) (hy : x ∈ Y) :
    Itv.intersects X Y = true :=
  (Itv.intersects_iff (Itv.WF_of_mem hx) (Itv.WF_of_mem hy)).2 ⟨x, hx, hy⟩

theorem Itv.isDisjoint_iff {X Y : Itv} (hX : X.WF = true) (hY : Y.WF = true) :
    Itv.isDisjoint X Y = true ↔ ¬ ∃ x : ℝ, x ∈ X ∧ x ∈ Y := by
  rw [← Itv.intersects_iff hX hY]
  simp [Itv.isDisjoint]


/-! ### 6. overlaps

`Itv.overlaps X Y` tests `Y.lo < X.hi ∧ X.lo < Y.hi` (exactly ibex's `basic_overlaps ≥ 2`).  For a
*degenerate* `X = [p,p]` strictly inside `Y` this is `true` although `X ∩ Y = {p}` has an empty
interior (e.g. `X = [1,1]`, `Y = [0,2]`).  So "the intersection has a non-empty interior" is
equivalent to `overlaps` only for non-degenerate operands (`Itv.overlaps_iff`); the
characterisation valid for all well-formed operands is the second sentence of the ibex
documentation, "some interior point of `X` or of `Y` belongs to the intersection"
(`Itv.overlaps_iff_interior`). -/

/-- `p` is an interior point of `X` (topology of ℝ) -/
def Itv.InteriorMem (p : ℝ) (X : Itv) : Prop := ∃ ε > 0, ∀ t : ℝ, |t - p| < ε → t ∈ X

theorem ereal_nhds_lower {c : EReal} {x : ℝ} (h : c < (x : EReal)) :
    ∃ ε > 0, ∀ t : ℝ, |t - x| < ε → c ≤ (t : EReal) := by
  induction c using EReal.rec with
  | bot => exact ⟨1, one_pos, fun _ _ => bot_le⟩
  | coe r =>
    have hr : r < x := EReal.coe_lt_coe_iff.1 h
    refine ⟨x - r, sub_pos.2 hr, fun t ht => EReal.coe_le_coe_iff.2 ?_⟩
    have := abs_lt.1 ht
    linarith [this.1]
  | top => exact absurd h (not_top_lt)

theorem ereal_nhds_upper {d : EReal} {x : ℝ} (h : (x : EReal) < d) :
    ∃ ε > 0, ∀ t : ℝ, |t - x| < ε → (t : EReal) ≤ d := by
  induction d using EReal.rec with
  | bot => exact absurd h (not_lt_bot)
  | coe r =>
    have hr : x < r := EReal.coe_lt_coe_iff.1 h
    refine ⟨r - x, sub_pos.2 hr, fun t ht => EReal.coe_le_coe_iff.2 ?_⟩
    have := abs_lt.1 ht
    linarith [this.2]
  | top => exact ⟨1, one_pos, fun _ _ => le_top⟩

theorem Itv.interiorMem_mk {p : ℝ} {a b : Ext} :
    Itv.InteriorMem p (Itv.mk a b) ↔ a.toE < (p : EReal) ∧ (p : EReal) < b.toE := by
  constructor
  · rintro ⟨ε, hε, h⟩
    have h1 := h (p - ε / 2) (by rw [abs_lt]; constructor <;> linarith)
    have h2 := h (p + ε / 2) (by rw [abs_lt]; constructor <;> linarith)
    refine ⟨lt_of_le_of_lt h1.1 (EReal.coe_lt_coe_iff.2 (by linarith)),
      lt_of_lt_of_le (EReal.coe_lt_coe_iff.2 (by linarith)) h2.2⟩
  · rintro ⟨h1, h2⟩
    obtain ⟨e1, he1, H1⟩ := ereal_nhds_lower h1
    obtain ⟨e2, he2, H2⟩ := ereal_nhds_upper h2
    refine ⟨Min.min e1 e2, lt_min he1 he2, fun t ht => ⟨H1 t ?_, H2 t ?_⟩⟩
    · exact lt_of_lt_of_le ht (min_le_left _ _)
    · exact lt_of_lt_of_le ht (min_le_right _ _)

theorem Itv.not_interiorMem_empty {p : ℝ} : ¬ Itv.InteriorMem p Itv.empty := by
  rintro ⟨ε, hε, h⟩
  exact Itv.not_mem_empty p (h p (by simpa using hε))

/-- a common segment of positive length forces `overlaps` (no hypothesis needed) -/
theorem Itv.overlaps_of_segment {X Y : Itv} {u v : ℝ} (huv : u < v)
    (h : ∀ t : ℝ, u ≤ t → t ≤ v → t ∈ X ∧ t ∈ Y) : Itv.overlaps X Y = true := by
  have hu := h u (le_refl _) huv.le
  have hv := h v huv.le (le_refl _)
  have huv' : (u : EReal) < (v : EReal) := EReal.coe_lt_coe_iff.2 huv
  cases X with
  | empty => exact absurd hu.1 (Itv.not_mem_empty u)
  | mk a b =>
    cases Y with
    | empty => exact absurd hu.2 (Itv.not_mem_empty u)
    | mk c d =>
      simp only [Itv.overlaps, Bool.and_eq_true, Ext.lt_iff]
      exact ⟨lt_of_le_of_lt hu.2.1 (lt_of_lt_of_le huv' hv.1.2),
        lt_of_le_of_lt hu.1.1 (lt_of_lt_of_le huv' hv.2.2)⟩

theorem Itv.lt_of_nondeg {a b : Ext} (hX : (Itv.mk a b).WF = true)
    (hd : (Itv.mk a b).isDegenerated = false) : a.toE < b.toE := by
  obtain ⟨hab, -, -⟩ := Itv.WF_mk.1 hX
  refine lt_of_le_of_ne hab fun e => ?_
  have : a = b := Ext.toE_injective e
  simp [Itv.isDegenerated, this] at hd

/-- for non-degenerate well-formed intervals, `overlaps` means that the intersection has a
    non-empty interior.  (False for a degenerate operand, see the section header.) -/
theorem Itv.overlaps_iff {X Y : Itv} (hX : X.WF = true) (hY : Y.WF = true)
    (hXd : X.isDegenerated = false) (hYd : Y.isDegenerated = false) :
    Itv.overlaps X Y = true ↔
      ∃ u v : ℝ, u < v ∧ ∀ t : ℝ, u ≤ t → t ≤ v → t ∈ X ∧ t ∈ Y := by
  constructor
  · intro h
    cases X with
    | empty => simp [Itv.overlaps] at h
    | mk a b =>
      cases Y with
      | empty => simp [Itv.overlaps] at h
      | mk c d =>
        have hab := Itv.lt_of_nondeg hX hXd
        have hcd := Itv.lt_of_nondeg hY hYd
        simp only [Itv.overlaps, Bool.and_eq_true, Ext.lt_iff] at h
        have hlt : Max.max a.toE c.toE < Min.min b.toE d.toE :=
          max_lt (lt_min hab h.2) (lt_min h.1 hcd)
        obtain ⟨u, hu1, hu2⟩ := EReal.lt_iff_exists_real_btwn.1 hlt
        obtain ⟨v, hv1, hv2⟩ := EReal.lt_iff_exists_real_btwn.1 hu2
        refine ⟨u, v, EReal.coe_lt_coe_iff.1 hv1, fun t h1 h2 => ?_⟩
        have h1' : (u : EReal) ≤ (t : EReal) := EReal.coe_le_coe_iff.2 h1
        have h2' : (t : EReal) ≤ (v : EReal) := EReal.coe_le_coe_iff.2 h2
        have lo : Max.max a.toE c.toE ≤ (t : EReal) := le_trans hu1.le h1'
        have hi : (t : EReal) ≤ Min.min b.toE d.toE := le_trans h2' hv2.le
        exact ⟨⟨le_trans (le_max_left _ _) lo, le_trans hi (min_le_left _ _)⟩,
          ⟨le_trans (le_max_right _ _) lo, le_trans hi (min_le_right _ _)⟩⟩
  · rintro ⟨u, v, huv, h⟩
    exact Itv.overlaps_of_segment huv h

/-- the characterisation of `overlaps` valid for all well-formed intervals: some point of the
    intersection is interior to one of the operands -/
theorem Itv.overlaps_iff_interior {X Y : Itv} (hX : X.WF = true) (hY : Y.WF = true) :
    Itv.overlaps X Y = true ↔
      ∃ p : ℝ, p ∈ X ∧ p ∈ Y ∧ (Itv.InteriorMem p X ∨ Itv.InteriorMem p Y) := by
  cases X with
  | empty => simp [Itv.overlaps]
  | mk a b =>
    cases Y with
    | empty => simp [Itv.overlaps]
    | mk c d =>
      obtain ⟨hab, ha, hb⟩ := Itv.WF_mk.1 hX
      obtain ⟨hcd, hc, hd⟩ := Itv.WF_mk.1 hY
      simp only [Itv.overlaps, Bool.and_eq_true, Ext.lt_iff, Itv.interiorMem_mk, Itv.mem_mk]
      constructor
      · rintro ⟨hcb, had⟩
        rcases eq_or_lt_of_le hab with e | hab'
        · -- X = {p}
          have hb' : a.toE ≠ ⊥ := e ▸ hb
          rw [← e] at hcb
          lift a.toE to ℝ using ⟨ha, hb'⟩ with p hp
          rw [← e]
          exact ⟨p, ⟨le_refl _, le_refl _⟩, ⟨hcb.le, had.le⟩, Or.inr ⟨hcb, had⟩⟩
        · rcases eq_or_lt_of_le hcd with e | hcd'
          · have hd' : c.toE ≠ ⊥ := e ▸ hd
            rw [← e] at had
            lift c.toE to ℝ using ⟨hc, hd'⟩ with p hp
            rw [← e]
            exact ⟨p, ⟨had.le, hcb.le⟩, ⟨le_refl _, le_refl _⟩, Or.inl ⟨had, hcb⟩⟩
          · have hlt : Max.max a.toE c.toE < Min.min b.toE d.toE :=
              max_lt (lt_min hab' had) (lt_min hcb hcd')
            obtain ⟨p, hp1, hp2⟩ := EReal.lt_iff_exists_real_btwn.1 hlt
            have h1 := lt_of_le_of_lt (le_max_left _ _) hp1
            have h2 := lt_of_le_of_lt (le_max_right _ _) hp1
            have h3 := lt_of_lt_of_le hp2 (min_le_left _ _)
            have h4 := lt_of_lt_of_le hp2 (min_le_right _ _)
            exact ⟨p, ⟨h1.le, h3.le⟩, ⟨h2.le, h4.le⟩, Or.inl ⟨h1, h3⟩⟩
      · rintro ⟨p, ⟨h1, h2⟩, ⟨h3, h4⟩, (⟨h5, h6⟩ | ⟨h5, h6⟩)⟩
        · exact ⟨lt_of_le_of_lt h3 h6, lt_of_lt_of_le h5 h4⟩
        · exact ⟨lt_of_lt_of_le h5 h2, lt_of_le_of_lt h1 h6⟩

/-- `overlaps` is stronger than `intersects` on well-formed intervals -/
theorem Itv.intersects_of_overlaps {X Y : Itv} (h : Itv.overlaps X Y = true) :
    Itv.intersects X Y = true := by
  cases X with
  | empty => simp [Itv.overlaps] at h
  | mk a b =>
    cases Y with
    | empty => simp [Itv.overlaps] at h
    | mk c d =>
      simp only [Itv.overlaps, Itv.intersects, Bool.and_eq_true, Ext.lt_iff, Ext.le_iff] at h ⊢
      exact ⟨h.2.le, h.1.le⟩

/-! ### 7. strict subset -/

theorem Itv.strictSubset_iff {X Y : Itv} (hX : X.WF = true) (hY : Y.WF = true) :
    Itv.strictSubset X Y = true ↔
      (∀ x : ℝ, x ∈ X → x ∈ Y) ∧ ∃ y : ℝ, y ∈ Y ∧ ¬ y ∈ X := by
  unfold Itv.strictSubset
  rw [Bool.and_eq_true, Itv.subset_iff hX, bne_iff_ne]
  constructor
  · rintro ⟨hs, hne⟩
    refine ⟨hs, ?_⟩
    cases X with
    | empty =>
      obtain ⟨y, hy⟩ := Itv.exists_mem_of_WF hY (Ne.symm hne)
      exact ⟨y, hy, Itv.not_mem_empty y⟩
    | mk a b =>
      cases Y with
      | empty =>
        obtain ⟨x, hx⟩ := Itv.exists_mem_of_WF hX (by simp)
        exact absurd (hs x hx) (Itv.not_mem_empty x)
      | mk c d =>
        have hsub := (Itv.subset_iff hX).2 hs
        simp only [Itv.subset, Bool.and_eq_true, Ext.le_iff] at hsub
        obtain ⟨hcd, hc, hd⟩ := Itv.WF_mk.1 hY
        by_cases hca : c.toE < a.toE
        · obtain ⟨y, h1, h2, h3⟩ := ereal_exists_mem_lt hcd hd hca
          exact ⟨y, ⟨h1, h2⟩, fun hy => absurd hy.1 (not_le.2 h3)⟩
        · by_cases hbd : b.toE < d.toE
          · obtain ⟨y, h1, h2, h3⟩ := ereal_exists_mem_gt hcd hc hbd
            exact ⟨y, ⟨h1, h2⟩, fun hy => absurd hy.2 (not_le.2 h3)⟩
          · exfalso
            have e1 : a = c := Ext.toE_injective (le_antisymm (not_lt.1 hca) hsub.1)
            have e2 : b = d := Ext.toE_injective (le_antisymm hsub.2 (not_lt.1 hbd))
            exact hne (by rw [e1, e2])
  · rintro ⟨hs, y, hy, hny⟩
    exact ⟨hs, fun e => hny (e ▸ hy)⟩

/-! ### 8. interior subset -/

theorem ereal_exists_mem_le {a b c : EReal} (hab : a ≤ b) (ha : a ≠ ⊤) (hb : b ≠ ⊥) (hc : c ≠ ⊥)
    (hac : a ≤ c) : ∃ x : ℝ, a ≤ (x : EReal) ∧ (x : EReal) ≤ b ∧ (x : EReal) ≤ c := by
  have h2 : Min.min b c ≠ ⊥ := by
    rcases min_choice b c with e | e <;> rw [e] <;> assumption
  obtain ⟨x, h1, h3⟩ := ereal_exists_mem (le_min hab hac) ha h2
  exact ⟨x, h1, le_trans h3 (min_le_left _ _), le_trans h3 (min_le_right _ _)⟩

theorem ereal_exists_mem_ge {a b d : EReal} (hab : a ≤ b) (ha : a ≠ ⊤) (hb : b ≠ ⊥) (hd : d ≠ ⊤)
    (hdb : d ≤ b) : ∃ x : ℝ, a ≤ (x : EReal) ∧ (x : EReal) ≤ b ∧ d ≤ (x : EReal) := by
  have h2 : Max.max a d ≠ ⊤ := by
    rcases max_choice a d with e | e <;> rw [e] <;> assumption
  obtain ⟨x, h1, h3⟩ := ereal_exists_mem (max_le hab hdb) h2 hb
  exact ⟨x, le_trans (le_max_left _ _) h1, h3, le_trans (le_max_right _ _) h1⟩

theorem Itv.interiorSubset_iff {X Y : Itv} (hX : X.WF = true) :
    Itv.interiorSubset X Y = true ↔
      ∀ x : ℝ, x ∈ X → ∃ ε > 0, ∀ t : ℝ, |t - x| < ε → t ∈ Y := by
  cases X with
  | empty =>
    simp only [Itv.interiorSubset, true_iff]
    intro x hx; exact absurd hx (Itv.not_mem_empty x)
  | mk a b =>
    obtain ⟨hab, ha, hb⟩ := Itv.WF_mk.1 hX
    cases Y with
    | empty =>
      simp only [Itv.interiorSubset, Bool.false_eq_true, false_iff]
      intro h
      obtain ⟨x, hx⟩ := ereal_exists_mem hab ha hb
      obtain ⟨ε, hε, H⟩ := h x hx
      exact Itv.not_mem_empty x (H x (by simpa using hε))
    | mk c d =>
      simp only [Itv.interiorSubset, Bool.and_eq_true, Bool.or_eq_true, beq_iff_eq, Ext.lt_iff]
      constructor
      · rintro ⟨h1, h2⟩ x hx
        have hcx : c.toE < (x : EReal) := by
          rcases h1 with e | h
          · rw [e]; exact EReal.bot_lt_coe x
          · exact lt_of_lt_of_le h hx.1
        have hxd : (x : EReal) < d.toE := by
          rcases h2 with e | h
          · rw [e]; exact EReal.coe_lt_top x
          · exact lt_of_le_of_lt hx.2 h
        exact Itv.interiorMem_mk.2 ⟨hcx, hxd⟩
      · intro h
        constructor
        · by_contra hneg
          rw [not_or] at hneg
          obtain ⟨hc, hac⟩ := hneg
          have hc' : c.toE ≠ ⊥ := fun e => hc (Ext.toE_eq_bot.1 e)
          obtain ⟨x, h1, h2, h3⟩ := ereal_exists_mem_le hab ha hb hc' (not_lt.1 hac)
          have := (Itv.interiorMem_mk.1 (h x ⟨h1, h2⟩)).1
          exact absurd h3 (not_le.2 this)
        · by_contra hneg
          rw [not_or] at hneg
          obtain ⟨hd, hdb⟩ := hneg
          have hd' : d.toE ≠ ⊤ := fun e => hd (Ext.toE_eq_top.1 e)
          obtain ⟨x, h1, h2, h3⟩ := ereal_exists_mem_ge hab ha hb hd' (not_lt.1 hdb)
          have := (Itv.interiorMem_mk.1 (h x ⟨h1, h2⟩)).2
          exact absurd h3 (not_le.2 this)


/-! ### 9. complementary -/

theorem Ext.lt_self (a : Ext) : Ext.lt a a = false := by
  rw [← Bool.not_eq_true, Ext.lt_iff]; exact _root_.lt_irrefl _

theorem Itv.compl_cover {x : ℝ} {X : Itv} (hx : ¬ x ∈ X) :
    ∃ c ∈ Itv.complementary X, x ∈ c := by
  cases X with
  | empty =>
    refine ⟨Itv.mk .ninf .pinf, by simp [Itv.complementary, Itv.all], ?_⟩
    exact ⟨bot_le, le_top⟩
  | mk a b =>
    rw [Itv.mem_mk, not_and_or, not_le, not_le] at hx
    rcases hx with h | h
    · have ha : a ≠ .ninf := by rintro rfl; exact not_lt_bot h
      refine ⟨Itv.mk .ninf a, ?_, ⟨bot_le, h.le⟩⟩
      simp [Itv.complementary, ha]
    · have hb : b ≠ .pinf := by rintro rfl; exact not_top_lt h
      refine ⟨Itv.mk b .pinf, ?_, ⟨h.le, le_top⟩⟩
      simp [Itv.complementary, hb]

theorem Itv.compl_no_overlap {c X : Itv} (hc : c ∈ Itv.complementary X) :
    Itv.overlaps c X = false := by
  cases X with
  | empty =>
    cases c <;> rfl
  | mk a b =>
    simp only [Itv.complementary, List.mem_append] at hc
    rcases hc with hc | hc
    · split at hc
      · rw [List.mem_singleton] at hc; subst hc
        simp [Itv.overlaps, Ext.lt_self]
      · simp at hc
    · split at hc
      · rw [List.mem_singleton] at hc; subst hc
        simp [Itv.overlaps, Ext.lt_self]
      · simp at hc

/-! ### 10. difference -/

theorem Itv.mem_diff_mk_empty {c' : Itv} {a b : Ext} :
    c' ∈ Itv.diff (Itv.mk a b) Itv.empty ↔ c' = Itv.mk a b := by
  by_cases hab : a = b <;> simp [Itv.diff, Itv.containsExt, hab]

theorem Itv.mem_diff_mk_mk {c' : Itv} {a b c d : Ext} :
    c' ∈ Itv.diff (Itv.mk a b) (Itv.mk c d) ↔
      (a = b ∧ Itv.containsExt (Itv.mk c d) a = false ∧ c' = Itv.mk a b) ∨
      (a ≠ b ∧ c = d ∧ c' = Itv.mk a b) ∨
      (a ≠ b ∧ c ≠ d ∧ ((Ext.lt a c = true ∧ c' = Itv.mk a (Ext.min b c)) ∨
                         (Ext.lt d b = true ∧ c' = Itv.mk (Ext.max a d) b))) := by
  by_cases hab : a = b
  · subst hab
    cases hk : Itv.containsExt (Itv.mk c d) a <;> simp [Itv.diff, hk]
  · by_cases hcd : c = d
    · simp [Itv.diff, hab, hcd]
    · by_cases h1 : Ext.lt a c = true <;> by_cases h2 : Ext.lt d b = true <;>
        simp [Itv.diff, hab, hcd, h1, h2]

theorem Itv.diff_subset {x : ℝ} {c X Y : Itv} (hc : c ∈ Itv.diff X Y) (hx : x ∈ c) : x ∈ X := by
  cases X with
  | empty => simp [Itv.diff] at hc
  | mk a b =>
    cases Y with
    | empty => rw [Itv.mem_diff_mk_empty] at hc; exact hc ▸ hx
    | mk c' d =>
      rw [Itv.mem_diff_mk_mk] at hc
      rcases hc with ⟨-, -, e⟩ | ⟨-, -, e⟩ | ⟨-, -, ⟨-, e⟩ | ⟨-, e⟩⟩
      · exact e ▸ hx
      · exact e ▸ hx
      · subst e
        rw [Itv.mem_mk, Ext.toE_min] at hx
        exact ⟨hx.1, le_trans hx.2 (min_le_left _ _)⟩
      · subst e
        rw [Itv.mem_mk, Ext.toE_max] at hx
        exact ⟨le_trans (le_max_left _ _) hx.1, hx.2⟩

theorem Itv.diff_cover {x : ℝ} {X Y : Itv} (hx : x ∈ X) (hy : ¬ x ∈ Y) :
    ∃ c ∈ Itv.diff X Y, x ∈ c := by
  cases X with
  | empty => exact absurd hx (Itv.not_mem_empty x)
  | mk a b =>
    cases Y with
    | empty => exact ⟨Itv.mk a b, Itv.mem_diff_mk_empty.2 rfl, hx⟩
    | mk c d =>
      by_cases hab : a = b
      · refine ⟨Itv.mk a b, Itv.mem_diff_mk_mk.2 (Or.inl ⟨hab, ?_, rfl⟩), hx⟩
        subst hab
        have e : a.toE = (x : EReal) := le_antisymm hx.1 hx.2
        rw [← Bool.not_eq_true]
        simp only [Itv.containsExt, Bool.and_eq_true, Ext.le_iff, e]
        exact hy
      · by_cases hcd : c = d
        · exact ⟨Itv.mk a b, Itv.mem_diff_mk_mk.2 (Or.inr (Or.inl ⟨hab, hcd, rfl⟩)), hx⟩
        · rw [Itv.mem_mk, not_and_or, not_le, not_le] at hy
          rcases hy with h | h
          · refine ⟨Itv.mk a (Ext.min b c), Itv.mem_diff_mk_mk.2
              (Or.inr (Or.inr ⟨hab, hcd, Or.inl ⟨?_, rfl⟩⟩)), ?_⟩
            · rw [Ext.lt_iff]; exact lt_of_le_of_lt hx.1 h
            · rw [Itv.mem_mk, Ext.toE_min]; exact ⟨hx.1, le_min hx.2 h.le⟩
          · refine ⟨Itv.mk (Ext.max a d) b, Itv.mem_diff_mk_mk.2
              (Or.inr (Or.inr ⟨hab, hcd, Or.inr ⟨?_, rfl⟩⟩)), ?_⟩
            · rw [Ext.lt_iff]; exact lt_of_lt_of_le h hx.2
            · rw [Itv.mem_mk, Ext.toE_max]; exact ⟨max_le hx.1 h.le, hx.2⟩

/-- Semantic non-overlap: a piece of `X \ Y` and `Y` share no segment of positive length
    (no hypothesis needed). -/
theorem Itv.diff_no_common_segment {c X Y : Itv} (hc : c ∈ Itv.diff X Y) {u v : ℝ} (huv : u < v)
    (h : ∀ t : ℝ, u ≤ t → t ≤ v → t ∈ c ∧ t ∈ Y) : False := by
  have hu := h u (le_refl _) huv.le
  have hv := h v huv.le (le_refl _)
  have huv' : (u : EReal) < (v : EReal) := EReal.coe_lt_coe_iff.2 huv
  cases X with
  | empty => simp [Itv.diff] at hc
  | mk a b =>
    cases Y with
    | empty => exact Itv.not_mem_empty u hu.2
    | mk c' d =>
      rw [Itv.mem_diff_mk_mk] at hc
      rcases hc with ⟨e1, -, e⟩ | ⟨-, e1, e⟩ | ⟨-, -, ⟨-, e⟩ | ⟨-, e⟩⟩
      · subst e; subst e1
        exact absurd (lt_of_le_of_lt hu.1.1 (lt_of_lt_of_le huv' hv.1.2)) (lt_irrefl _)
      · subst e1
        exact absurd (lt_of_le_of_lt hu.2.1 (lt_of_lt_of_le huv' hv.2.2)) (lt_irrefl _)
      · subst e
        have h1 := hv.1.2
        rw [Ext.toE_min] at h1
        exact absurd (lt_of_le_of_lt hu.2.1 (lt_of_lt_of_le huv' (le_trans h1 (min_le_right _ _))))
          (lt_irrefl _)
      · subst e
        have h1 := hu.1.1
        rw [Ext.toE_max] at h1
        exact absurd (lt_of_le_of_lt (le_trans (le_max_right _ _) h1) (lt_of_lt_of_le huv' hv.2.2))
          (lt_irrefl _)

/-- Boolean non-overlap.  The hypothesis excludes the only failing configuration, a degenerate
    `Y = [q,q]` strictly inside a non-degenerate `X` (there `diff X Y = [X]` by the compactness
    convention and `overlaps X Y = true`, see section 6). -/
theorem Itv.diff_no_overlap {c X Y : Itv} (hc : c ∈ Itv.diff X Y)
    (hY : ∀ q : Ext, Y = Itv.mk q q → X.isDegenerated = true) : Itv.overlaps c Y = false := by
  cases X with
  | empty => simp [Itv.diff] at hc
  | mk a b =>
    cases Y with
    | empty => cases c <;> rfl
    | mk c' d =>
      rw [Itv.mem_diff_mk_mk] at hc
      rw [← Bool.not_eq_true]
      rcases hc with ⟨e1, hk, e⟩ | ⟨hab, e1, -⟩ | ⟨-, -, ⟨-, e⟩ | ⟨-, e⟩⟩
      · subst e; subst e1
        rw [← Bool.not_eq_true] at hk
        simp only [Itv.containsExt, Itv.overlaps, Bool.and_eq_true, Ext.le_iff, Ext.lt_iff] at hk ⊢
        exact fun h => hk ⟨h.1.le, h.2.le⟩
      · exfalso
        have := hY c' (by rw [e1])
        simp [Itv.isDegenerated, hab] at this
      · subst e
        simp only [Itv.overlaps, Bool.and_eq_true, Ext.lt_iff, Ext.toE_min]
        exact fun h => absurd (lt_of_lt_of_le h.1 (min_le_right _ _)) (lt_irrefl _)
      · subst e
        simp only [Itv.overlaps, Bool.and_eq_true, Ext.lt_iff, Ext.toE_max]
        exact fun h => absurd (lt_of_le_of_lt (le_max_right _ _) h.2) (lt_irrefl _)

/-! ### 11. bisection certificate -/

theorem Itv.bisectOk_sound {X L R : Itv} (h : Box.bisectOk X L R = true) :
    (∀ x : ℝ, x ∈ X ↔ (x ∈ L ∨ x ∈ R)) ∧
    (∃ p : ℝ, ∀ x : ℝ, (x ∈ L ∧ x ∈ R) ↔ x = p) ∧
    Itv.strictSubset L X = true ∧ Itv.strictSubset R X = true := by
  cases X with
  | empty => simp [Box.bisectOk] at h
  | mk a b =>
    cases L with
    | empty => simp [Box.bisectOk] at h
    | mk la lb =>
      cases R with
      | empty => simp [Box.bisectOk] at h
      | mk ra rb =>
        simp only [Box.bisectOk, Bool.and_eq_true, beq_iff_eq, Ext.lt_iff] at h
        obtain ⟨⟨⟨⟨⟨e1, e2⟩, e3⟩, h1⟩, h2⟩, hf⟩ := h
        subst e1; subst e2; subst e3
        cases lb with
        | ninf => simp [Ext.isFin] at hf
        | pinf => simp [Ext.isFin] at hf
        | fin q =>
          simp only [Ext.toE_fin] at h1 h2
          refine ⟨fun x => ?_, ⟨(q : ℝ), fun x => ?_⟩, ?_, ?_⟩
          · simp only [Itv.mem_mk, Ext.toE_fin]
            constructor
            · rintro ⟨hx1, hx2⟩
              rcases le_total (x : EReal) ((q : ℝ) : EReal) with hle | hle
              · exact Or.inl ⟨hx1, hle⟩
              · exact Or.inr ⟨hle, hx2⟩
            · rintro (⟨hx1, hx2⟩ | ⟨hx1, hx2⟩)
              · exact ⟨hx1, le_trans hx2 h2.le⟩
              · exact ⟨le_trans h1.le hx1, hx2⟩
          · simp only [Itv.mem_mk, Ext.toE_fin]
            constructor
            · rintro ⟨⟨-, hx2⟩, ⟨hx3, -⟩⟩
              exact EReal.coe_eq_coe_iff.1 (le_antisymm hx2 hx3)
            · rintro rfl
              exact ⟨⟨h1.le, le_refl _⟩, ⟨le_refl _, h2.le⟩⟩
          · simp only [Itv.strictSubset, Itv.subset, Bool.and_eq_true, Ext.le_iff, bne_iff_ne,
              Ext.toE_fin]
            refine ⟨⟨le_refl _, h2.le⟩, fun e => ?_⟩
            injection e with _ e2
            rw [← e2] at h2
            exact lt_irrefl _ h2
          · simp only [Itv.strictSubset, Itv.subset, Bool.and_eq_true, Ext.le_iff, bne_iff_ne,
              Ext.toE_fin]
            refine ⟨⟨h1.le, le_refl _⟩, fun e => ?_⟩
            injection e with e1 _
            rw [← e1] at h1
            exact lt_irrefl _ h1


/-! ## Boxes -/

/-- a real vector belongs to a box: same length and component-wise membership -/
def Box.Mem (p : List ℝ) (b : Box) : Prop := List.Forall₂ (fun x I => x ∈ I) p b

theorem Box.mem_nil : Box.Mem [] [] := List.Forall₂.nil

theorem Box.mem_cons {t : ℝ} {ps : List ℝ} {I : Itv} {bs : Box} :
    Box.Mem (t :: ps) (I :: bs) ↔ t ∈ I ∧ Box.Mem ps bs := List.forall₂_cons

theorem Box.Mem.length_eq {p : List ℝ} {b : Box} (h : Box.Mem p b) : p.length = b.length :=
  List.Forall₂.length_eq h

/-- index-wise characterisation of `List.Forall₂` -/
theorem forall₂_iff_getElem? {α β : Type} {R : α → β → Prop} {l₁ : List α} {l₂ : List β} :
    List.Forall₂ R l₁ l₂ ↔
      l₁.length = l₂.length ∧
        ∀ (i : Nat) (a : α) (b : β), l₁[i]? = some a → l₂[i]? = some b → R a b := by
  induction l₁ generalizing l₂ with
  | nil =>
    cases l₂ with
    | nil => simp
    | cons I bs => simp
  | cons t ps ih =>
    cases l₂ with
    | nil => simp
    | cons I bs =>
      rw [List.forall₂_cons, ih]
      constructor
      · rintro ⟨h0, hl, h⟩
        refine ⟨by simp [hl], fun i t' I' h1 h2 => ?_⟩
        cases i with
        | zero =>
          simp only [List.getElem?_cons_zero, Option.some.injEq] at h1 h2
          subst h1; subst h2; exact h0
        | succ j =>
          simp only [List.getElem?_cons_succ] at h1 h2
          exact h j t' I' h1 h2
      · rintro ⟨hl, h⟩
        refine ⟨h 0 t I (by simp) (by simp), by simpa using hl, fun i t' I' h1 h2 => ?_⟩
        exact h (i + 1) t' I' (by simpa using h1) (by simpa using h2)

/-- replacing related entries keeps `List.Forall₂` -/
theorem forall₂_set {α β : Type} {R : α → β → Prop} {l₁ : List α} {l₂ : List β}
    (h : List.Forall₂ R l₁ l₂) (i : Nat) {a : α} {b : β} (hab : R a b) :
    List.Forall₂ R (l₁.set i a) (l₂.set i b) := by
  induction h generalizing i with
  | nil => exact List.Forall₂.nil
  | cons h0 _ ih =>
    cases i with
    | zero => exact List.Forall₂.cons hab (by assumption)
    | succ j => exact List.Forall₂.cons h0 (ih j)

theorem forall₂_set_right {α β : Type} {R : α → β → Prop} {l₁ : List α} {l₂ : List β}
    (h : List.Forall₂ R l₁ l₂) {i : Nat} {a : α} (ha : l₁[i]? = some a) {b : β} (hab : R a b) :
    List.Forall₂ R l₁ (l₂.set i b) := by
  have := forall₂_set h i hab
  obtain ⟨hi, e⟩ := List.getElem?_eq_some_iff.1 ha
  rwa [← e, List.set_getElem_self] at this

theorem forall₂_set_left {α β : Type} {R : α → β → Prop} {l₁ : List α} {l₂ : List β}
    (h : List.Forall₂ R l₁ l₂) {i : Nat} {b : β} (hb : l₂[i]? = some b) {a : α} (hab : R a b) :
    List.Forall₂ R (l₁.set i a) l₂ := by
  have := forall₂_set h i hab
  obtain ⟨hi, e⟩ := List.getElem?_eq_some_iff.1 hb
  rwa [← e, List.set_getElem_self] at this

/-- index-wise characterisation of membership -/
theorem Box.mem_iff {p : List ℝ} {b : Box} :
    Box.Mem p b ↔
      p.length = b.length ∧
        ∀ (i : Nat) (t : ℝ) (I : Itv), p[i]? = some t → b[i]? = some I → t ∈ I :=
  forall₂_iff_getElem?

/-- a point stays in the box when one component is replaced by an interval containing its
    coordinate -/
theorem Box.mem_set {p : List ℝ} {x : Box} {i : Nat} {t : ℝ} {c : Itv} (hm : Box.Mem p x)
    (ht : p[i]? = some t) (hc : t ∈ c) : Box.Mem p (x.set i c) :=
  forall₂_set_right hm ht hc

/-- a point of the box with one component shrunk is a point of the box -/
theorem Box.mem_of_mem_set {p : List ℝ} {x : Box} {i : Nat} {xi c : Itv} (hi : x[i]? = some xi)
    (hc : ∀ t : ℝ, t ∈ c → t ∈ xi) (hm : Box.Mem p (x.set i c)) : Box.Mem p x := by
  rw [Box.mem_iff] at hm ⊢
  obtain ⟨hl, h⟩ := hm
  obtain ⟨hlt, -⟩ := List.getElem?_eq_some_iff.1 hi
  refine ⟨by simpa using hl, fun j t I h1 h2 => ?_⟩
  by_cases e : i = j
  · subst e
    rw [hi] at h2
    injection h2 with h2
    subst h2
    exact hc t (h i t c h1 (by simp [hlt]))
  · exact h j t I h1 (by rw [List.getElem?_set_ne e]; exact h2)

/-! ### 12. empty boxes have no point -/

theorem Itv.isEmpty_eq_false_of_mem {x : ℝ} {X : Itv} (hx : x ∈ X) : X.isEmpty = false := by
  cases X with
  | empty => exact absurd hx (Itv.not_mem_empty x)
  | mk a b => rfl

theorem Box.not_mem_of_isEmpty {p : List ℝ} {b : Box} (h : Box.isEmpty b = true) :
    ¬ Box.Mem p b := by
  intro hm
  induction hm with
  | nil => simp [Box.isEmpty] at h
  | cons hx _ ih =>
    simp only [Box.isEmpty, List.any_cons, Bool.or_eq_true] at h
    rcases h with h | h
    · rw [Itv.isEmpty_eq_false_of_mem hx] at h; exact Bool.false_ne_true h
    · exact ih h

theorem Box.isEmpty_eq_false_of_mem {p : List ℝ} {b : Box} (hm : Box.Mem p b) :
    Box.isEmpty b = false := by
  cases h : Box.isEmpty b with
  | false => rfl
  | true => exact absurd hm (Box.not_mem_of_isEmpty h)

/-! ### 13. intersection -/

theorem Box.mem_inter {p : List ℝ} {x y : Box} (hl : x.length = y.length) :
    Box.Mem p (Box.inter x y) ↔ Box.Mem p x ∧ Box.Mem p y := by
  induction x generalizing y p with
  | nil =>
    cases y with
    | nil => simp [Box.inter]
    | cons Y ys => simp at hl
  | cons X xs ih =>
    cases y with
    | nil => simp at hl
    | cons Y ys =>
      have hl' : xs.length = ys.length := by simpa using hl
      cases p with
      | nil => simp [Box.Mem, Box.inter]
      | cons t ps =>
        have e : Box.inter (X :: xs) (Y :: ys) = Itv.inter X Y :: Box.inter xs ys := rfl
        rw [e, Box.mem_cons, Box.mem_cons, Box.mem_cons, ih hl', Itv.mem_inter]
        tauto

/-! ### 14. subset, intersects, overlaps -/

theorem Box.mem_of_all2 {f : Itv → Itv → Bool}
    (hf : ∀ (X Y : Itv) (t : ℝ), f X Y = true → t ∈ X → t ∈ Y)
    {p : List ℝ} {x y : Box} (h : Box.all2 f x y = true) (hm : Box.Mem p x) : Box.Mem p y := by
  induction hm generalizing y with
  | nil =>
    cases y with
    | nil => exact Box.mem_nil
    | cons Y ys => simp [Box.all2] at h
  | cons hx _ ih =>
    cases y with
    | nil => simp [Box.all2] at h
    | cons Y ys =>
      simp only [Box.all2, Bool.and_eq_true] at h
      exact Box.mem_cons.2 ⟨hf _ _ _ h.1 hx, ih h.2⟩

theorem Box.all2_of_mem {f : Itv → Itv → Bool}
    (hf : ∀ (X Y : Itv) (t : ℝ), t ∈ X → t ∈ Y → f X Y = true)
    {p : List ℝ} {x y : Box} (hx : Box.Mem p x) (hy : Box.Mem p y) : Box.all2 f x y = true := by
  induction hx generalizing y with
  | nil =>
    cases hy
    rfl
  | cons h1 _ ih =>
    cases hy with
    | cons h2 h3 =>
      simp only [Box.all2, Bool.and_eq_true]
      exact ⟨hf _ _ _ h1 h2, ih h3⟩

theorem Box.subset_sound {p : List ℝ} {x y : Box} (h : Box.subset x y = true)
    (hm : Box.Mem p x) : Box.Mem p y := by
  simp only [Box.subset, Box.isEmpty_eq_false_of_mem hm, Bool.false_or, Bool.and_eq_true] at h
  exact Box.mem_of_all2 (fun X Y t hs ht => Itv.mem_of_subset hs ht) h.2 hm

theorem Box.intersects_of_common_point {p : List ℝ} {x y : Box} (hx : Box.Mem p x)
    (hy : Box.Mem p y) : Box.intersects x y = true := by
  simp only [Box.intersects, Box.isEmpty_eq_false_of_mem hx, Box.isEmpty_eq_false_of_mem hy,
    Bool.not_false, Bool.true_and]
  exact Box.all2_of_mem (fun X Y t h1 h2 => Itv.intersects_of_mem h1 h2) hx hy

/-- `Box.overlaps` implies a common sub-box of positive volume, provided no component is degenerate
    (for a degenerate component the scalar `overlaps` does not have this meaning, see section 6:
    `x = [[1,1]]`, `y = [[0,2]]` is a counterexample). -/
theorem Box.overlaps_sound {x y : Box}
    (hx : ∀ I ∈ x, I.WF = true ∧ I.isDegenerated = false)
    (hy : ∀ I ∈ y, I.WF = true ∧ I.isDegenerated = false)
    (h : Box.overlaps x y = true) :
    ∃ u v : List ℝ, List.Forall₂ (· < ·) u v ∧
      ∀ t, List.Forall₂ (· ≤ ·) u t → List.Forall₂ (· ≤ ·) t v → Box.Mem t x ∧ Box.Mem t y := by
  simp only [Box.overlaps, Bool.and_eq_true] at h
  have h := h.2
  clear * - h hx hy
  induction x generalizing y with
  | nil =>
    cases y with
    | nil =>
      refine ⟨[], [], List.Forall₂.nil, fun t ht _ => ?_⟩
      rw [List.forall₂_nil_left_iff] at ht
      subst ht
      exact ⟨Box.mem_nil, Box.mem_nil⟩
    | cons Y ys => simp [Box.all2] at h
  | cons X xs ih =>
    cases y with
    | nil => simp [Box.all2] at h
    | cons Y ys =>
      simp only [Box.all2, Bool.and_eq_true] at h
      obtain ⟨hX, hXd⟩ := hx X (by simp)
      obtain ⟨hY, hYd⟩ := hy Y (by simp)
      obtain ⟨u0, v0, huv, H0⟩ := (Itv.overlaps_iff hX hY hXd hYd).1 h.1
      obtain ⟨us, vs, huvs, Hs⟩ := ih (fun I hI => hx I (by simp [hI]))
        (fun I hI => hy I (by simp [hI])) h.2
      refine ⟨u0 :: us, v0 :: vs, List.Forall₂.cons huv huvs, fun t h1 h2 => ?_⟩
      cases t with
      | nil => simp at h1
      | cons t0 ts =>
        rw [List.forall₂_cons] at h1 h2
        have := H0 t0 h1.1 h2.1
        have := Hs ts h1.2 h2.2
        exact ⟨Box.mem_cons.2 ⟨by tauto, by tauto⟩, Box.mem_cons.2 ⟨by tauto, by tauto⟩⟩

/-- converse (unconditional): a common sub-box of positive volume forces `Box.overlaps` -/
theorem Box.overlaps_complete {x y : Box}
    (h : ∃ u v : List ℝ, List.Forall₂ (· < ·) u v ∧
      ∀ t, List.Forall₂ (· ≤ ·) u t → List.Forall₂ (· ≤ ·) t v → Box.Mem t x ∧ Box.Mem t y) :
    Box.overlaps x y = true := by
  obtain ⟨u, v, huv, H⟩ := h
  have hle : List.Forall₂ (· ≤ ·) u v := huv.imp fun _ _ h => le_of_lt h
  have hu := H u (List.forall₂_refl u) hle
  simp only [Box.overlaps, Box.isEmpty_eq_false_of_mem hu.1, Box.isEmpty_eq_false_of_mem hu.2,
    Bool.not_false, Bool.true_and]
  clear hu hle
  induction huv generalizing x y with
  | nil =>
    have := H [] List.Forall₂.nil List.Forall₂.nil
    have h1 := this.1.length_eq
    have h2 := this.2.length_eq
    cases x with
    | nil =>
      cases y with
      | nil => rfl
      | cons _ _ => simp at h2
    | cons _ _ => simp at h1
  | @cons u0 v0 us vs h0 hs ih =>
    have hles : List.Forall₂ (· ≤ ·) us vs := hs.imp fun _ _ h => le_of_lt h
    have hu := H (u0 :: us) (List.forall₂_refl _) (List.Forall₂.cons h0.le hles)
    cases x with
    | nil => have := hu.1.length_eq; simp at this
    | cons X xs =>
      cases y with
      | nil => have := hu.2.length_eq; simp at this
      | cons Y ys =>
        simp only [Box.all2, Bool.and_eq_true]
        constructor
        · refine Itv.overlaps_of_segment h0 fun t h1 h2 => ?_
          have := H (t :: us) (List.Forall₂.cons h1 (List.forall₂_refl _))
            (List.Forall₂.cons h2 hles)
          exact ⟨(Box.mem_cons.1 this.1).1, (Box.mem_cons.1 this.2).1⟩
        · refine ih fun ts h1 h2 => ?_
          have := H (u0 :: ts) (List.Forall₂.cons (le_refl _) h1) (List.Forall₂.cons h0.le h2)
          exact ⟨(Box.mem_cons.1 this.1).2, (Box.mem_cons.1 this.2).2⟩


/-! ### 15. box difference -/

theorem Box.diffLoop_zero {y z x : Box} {var : Nat} : Box.diffLoop y z 0 var x = [] := rfl

theorem Box.diffLoop_succ {y z x : Box} {fuel var : Nat} {xv yv zv : Itv}
    (h1 : x[var]? = some xv) (h2 : y[var]? = some yv) (h3 : z[var]? = some zv) :
    Box.diffLoop y z (fuel + 1) var x =
      if Itv.diff xv yv = [] then Box.diffLoop y z fuel (var + 1) x
      else (Itv.diff xv yv).map (fun c => x.set var c) ++
        Box.diffLoop y z fuel (var + 1) (x.set var zv) := by
  simp only [Box.diffLoop, h1, h2, h3, Box.setAt]
  cases hd : Itv.diff xv yv with
  | nil => simp
  | cons c cs => simp

theorem Box.diffLoop_none {y z x : Box} {fuel var : Nat}
    (h : x[var]? = none ∨ y[var]? = none ∨ z[var]? = none) :
    Box.diffLoop y z (fuel + 1) var x = [] := by
  cases h1 : x[var]? <;> cases h2 : y[var]? <;> cases h3 : z[var]? <;>
    simp_all [Box.diffLoop]

/-- generalised soundness of the peeling loop: `z` is component-wise inside the running box on
    the not yet processed components -/
theorem Box.diffLoop_subset {p : List ℝ} {y z b : Box} : ∀ (fuel var : Nat) (x : Box),
    (∀ (j : Nat) (zj xj : Itv), var ≤ j → z[j]? = some zj → x[j]? = some xj →
      ∀ t : ℝ, t ∈ zj → t ∈ xj) →
    b ∈ Box.diffLoop y z fuel var x → Box.Mem p b → Box.Mem p x := by
  intro fuel
  induction fuel with
  | zero => intro var x _ hb; simp [Box.diffLoop_zero] at hb
  | succ fuel ih =>
    intro var x inv hb hm
    cases h1 : x[var]? with
    | none => simp [Box.diffLoop_none (Or.inl h1)] at hb
    | some xv =>
      cases h2 : y[var]? with
      | none => simp [Box.diffLoop_none (Or.inr (Or.inl h2))] at hb
      | some yv =>
        cases h3 : z[var]? with
        | none => simp [Box.diffLoop_none (Or.inr (Or.inr h3))] at hb
        | some zv =>
          rw [Box.diffLoop_succ h1 h2 h3] at hb
          split at hb
          · exact ih (var + 1) x (fun j zj xj hj => inv j zj xj (by omega)) hb hm
          · rw [List.mem_append, List.mem_map] at hb
            rcases hb with ⟨c, hc, rfl⟩ | hb
            · exact Box.mem_of_mem_set h1 (fun t ht => Itv.diff_subset hc ht) hm
            · have hm' := ih (var + 1) (x.set var zv) (fun j zj xj hj hz hx => by
                rw [List.getElem?_set_ne (by omega)] at hx
                exact inv j zj xj (by omega) hz hx) hb hm
              exact Box.mem_of_mem_set h1 (inv var zv xv (le_refl _) h3 h1) hm'

theorem Box.inter_getElem? {x y : Box} {j : Nat} {zj : Itv}
    (h : (Box.inter x y)[j]? = some zj) :
    ∃ xj yj, x[j]? = some xj ∧ y[j]? = some yj ∧ zj = Itv.inter xj yj := by
  obtain ⟨xj, yj, h1, h2, h3⟩ := List.getElem?_zipWith_eq_some.1 h
  exact ⟨xj, yj, h1, h2, h3.symm⟩

theorem Box.diff_subset {p : List ℝ} {x y b : Box} (hb : b ∈ Box.diff x y)
    (hm : Box.Mem p b) : Box.Mem p x := by
  unfold Box.diff at hb
  split at hb
  · simp at hb
  · simp only [] at hb
    split at hb
    · rw [List.mem_singleton] at hb; exact hb ▸ hm
    · split at hb
      · rw [List.mem_singleton] at hb; exact hb ▸ hm
      · refine Box.diffLoop_subset _ _ _ (fun j zj xj _ hz hx t ht => ?_) hb hm
        obtain ⟨xj', yj, h1, -, e⟩ := Box.inter_getElem? hz
        rw [hx] at h1
        injection h1 with h1
        subst h1; subst e
        exact (Itv.mem_inter.1 ht).1

/-- generalised completeness of the peeling loop: a point of the running box that leaves `y` on a
    not yet processed component is in one of the produced boxes -/
theorem Box.diffLoop_cover {p : List ℝ} {y z : Box} : ∀ (fuel var : Nat) (x : Box),
    x.length = y.length → z.length = y.length → var + fuel = y.length →
    (∀ (j : Nat) (xj yj zj : Itv), var ≤ j → x[j]? = some xj → y[j]? = some yj →
      z[j]? = some zj → ∀ t : ℝ, t ∈ xj → t ∈ yj → t ∈ zj) →
    Box.Mem p x →
    (∃ (j : Nat) (t : ℝ) (yj : Itv), var ≤ j ∧ p[j]? = some t ∧ y[j]? = some yj ∧ ¬ t ∈ yj) →
    ∃ b ∈ Box.diffLoop y z fuel var x, Box.Mem p b := by
  intro fuel
  induction fuel with
  | zero =>
    rintro var x - - hv - - ⟨j, t, yj, hj, -, hy, -⟩
    obtain ⟨hlt, -⟩ := List.getElem?_eq_some_iff.1 hy
    omega
  | succ fuel ih =>
    rintro var x hlx hlz hv inv hm ⟨j, t, yj, hj, hpj, hyj, hnot⟩
    have hlp : p.length = x.length := hm.length_eq
    have hvy : var < y.length := by omega
    have h1 : x[var]? = some (x[var]'(by omega)) := List.getElem?_eq_getElem _
    have h2 : y[var]? = some (y[var]'hvy) := List.getElem?_eq_getElem _
    have h3 : z[var]? = some (z[var]'(by omega)) := List.getElem?_eq_getElem _
    have h4 : p[var]? = some (p[var]'(by omega)) := List.getElem?_eq_getElem _
    generalize x[var]'(by omega) = xv at h1
    generalize y[var]'hvy = yv at h2
    generalize z[var]'(by omega) = zv at h3
    generalize p[var]'(by omega) = tv at h4
    have htx : tv ∈ xv := (Box.mem_iff.1 hm).2 var tv xv h4 h1
    rw [Box.diffLoop_succ h1 h2 h3]
    by_cases hty : tv ∈ yv
    · have hne : var ≠ j := by
        rintro rfl
        rw [h4] at hpj; rw [h2] at hyj
        injection hpj with e1; injection hyj with e2
        subst e1; subst e2
        exact hnot hty
      split
      · exact ih (var + 1) x hlx hlz (by omega)
          (fun j xj yj zj hj => inv j xj yj zj (by omega)) hm
          ⟨j, t, yj, by omega, hpj, hyj, hnot⟩
      · obtain ⟨b, hb, hmb⟩ := ih (var + 1) (x.set var zv) (by simpa using hlx) hlz (by omega)
          (fun j xj yj zj hj hx => by
            rw [List.getElem?_set_ne (by omega)] at hx
            exact inv j xj yj zj (by omega) hx)
          (Box.mem_set hm h4 (inv var xv yv zv (le_refl _) h1 h2 h3 tv htx hty))
          ⟨j, t, yj, by omega, hpj, hyj, hnot⟩
        exact ⟨b, List.mem_append_right _ hb, hmb⟩
    · obtain ⟨c, hc, htc⟩ := Itv.diff_cover htx hty
      rw [if_neg (List.ne_nil_of_mem hc)]
      exact ⟨x.set var c, List.mem_append_left _ (List.mem_map.2 ⟨c, hc, rfl⟩),
        Box.mem_set hm h4 htc⟩

theorem Box.diff_cover {p : List ℝ} {x y : Box} (hl : x.length = y.length)
    (hx : Box.Mem p x) (hy : ¬ Box.Mem p y) : ∃ b ∈ Box.diff x y, Box.Mem p b := by
  unfold Box.diff
  rw [if_neg (by simp [Box.isEmpty_eq_false_of_mem hx])]
  simp only []
  split
  · exact ⟨x, List.mem_singleton.2 rfl, hx⟩
  · split
    · exact ⟨x, List.mem_singleton.2 rfl, hx⟩
    · refine Box.diffLoop_cover _ 0 x hl (by simp [Box.inter, hl]) (by omega) ?_ hx ?_
      · intro j xj yj zj _ h1 h2 h3 t ht1 ht2
        obtain ⟨xj', yj', h1', h2', e⟩ := Box.inter_getElem? h3
        rw [h1] at h1'; rw [h2] at h2'
        injection h1' with e1; injection h2' with e2
        subst e1; subst e2; subst e
        exact Itv.mem_inter.2 ⟨ht1, ht2⟩
      · rw [Box.mem_iff] at hy
        by_contra hcon
        apply hy
        refine ⟨hx.length_eq.trans hl, fun i t I h1 h2 => ?_⟩
        by_contra hn
        exact hcon ⟨i, t, I, Nat.zero_le _, h1, h2, hn⟩

/-! ### 16. the pieces of a box difference do not overlap the subtracted box

Two statements.  `Box.diff_no_common_box` is the semantic one (no common sub-box of positive
volume) and holds unconditionally.  `Box.diff_no_overlap` speaks about the Boolean
`Box.overlaps`; because the scalar `overlaps` answers `true` for a degenerate interval strictly
inside another one (section 6), it needs the hypothesis that a degenerate component `[q,q]` of `y`
only faces a degenerate component of `x`.  Counterexample without it: `x = [[0,2]]`, `y = [[1,1]]`,
`Box.diff x y = [x]` (the intersection is degenerate, nothing is removed) and
`Box.overlaps x y = true`. -/

theorem Box.any2_exists {f : Itv → Itv → Bool} {a b : Box} (h : Box.any2 f a b = true) :
    ∃ (i : Nat) (ai bi : Itv), a[i]? = some ai ∧ b[i]? = some bi ∧ f ai bi = true := by
  induction a generalizing b with
  | nil => simp [Box.any2] at h
  | cons A as ih =>
    cases b with
    | nil => simp [Box.any2] at h
    | cons B bs =>
      simp only [Box.any2, Bool.or_eq_true] at h
      rcases h with h | h
      · exact ⟨0, A, B, by simp, by simp, h⟩
      · obtain ⟨i, ai, bi, h1, h2, h3⟩ := ih h
        exact ⟨i + 1, ai, bi, by simpa using h1, by simpa using h2, h3⟩

theorem Box.all2_eq_false_of_getElem? {f : Itv → Itv → Bool} {a b : Box} {i : Nat} {ai bi : Itv}
    (h1 : a[i]? = some ai) (h2 : b[i]? = some bi) (hf : f ai bi = false) :
    Box.all2 f a b = false := by
  induction a generalizing b i with
  | nil => simp at h1
  | cons A as ih =>
    cases b with
    | nil => simp at h2
    | cons B bs =>
      cases i with
      | zero =>
        simp only [List.getElem?_cons_zero, Option.some.injEq] at h1 h2
        subst h1; subst h2
        simp [Box.all2, hf]
      | succ j =>
        simp only [List.getElem?_cons_succ] at h1 h2
        simp [Box.all2, ih h1 h2]

/-- every box produced by the peeling loop carries, on some not yet processed component `i`,
    a piece of the scalar difference of the running component and `y[i]` -/
theorem Box.diffLoop_piece {y z b : Box} : ∀ (fuel var : Nat) (x : Box),
    b ∈ Box.diffLoop y z fuel var x →
    ∃ (i : Nat) (xi yi c : Itv), var ≤ i ∧ x[i]? = some xi ∧ y[i]? = some yi ∧
      c ∈ Itv.diff xi yi ∧ b[i]? = some c := by
  intro fuel
  induction fuel with
  | zero => intro var x hb; simp [Box.diffLoop_zero] at hb
  | succ fuel ih =>
    intro var x hb
    cases h1 : x[var]? with
    | none => simp [Box.diffLoop_none (Or.inl h1)] at hb
    | some xv =>
      cases h2 : y[var]? with
      | none => simp [Box.diffLoop_none (Or.inr (Or.inl h2))] at hb
      | some yv =>
        cases h3 : z[var]? with
        | none => simp [Box.diffLoop_none (Or.inr (Or.inr h3))] at hb
        | some zv =>
          rw [Box.diffLoop_succ h1 h2 h3] at hb
          split at hb
          · obtain ⟨i, xi, yi, c, hi, h⟩ := ih (var + 1) x hb
            exact ⟨i, xi, yi, c, by omega, h⟩
          · rw [List.mem_append, List.mem_map] at hb
            rcases hb with ⟨c, hc, rfl⟩ | hb
            · obtain ⟨hlt, -⟩ := List.getElem?_eq_some_iff.1 h1
              exact ⟨var, xv, yv, c, le_refl _, h1, h2, hc, by simp [hlt]⟩
            · obtain ⟨i, xi, yi, c, hi, hx, h⟩ := ih (var + 1) (x.set var zv) hb
              rw [List.getElem?_set_ne (by omega)] at hx
              exact ⟨i, xi, yi, c, by omega, hx, h⟩

/-- a common sub-box of positive volume yields a common segment of positive length on every
    component -/
theorem Box.segment_of_common_box {u v : List ℝ} (huv : List.Forall₂ (· < ·) u v) {b y : Box}
    (H : ∀ t, List.Forall₂ (· ≤ ·) u t → List.Forall₂ (· ≤ ·) t v → Box.Mem t b ∧ Box.Mem t y)
    {i : Nat} {bi yi : Itv} (hb : b[i]? = some bi) (hy : y[i]? = some yi) :
    ∃ u0 v0 : ℝ, u0 < v0 ∧ ∀ t : ℝ, u0 ≤ t → t ≤ v0 → t ∈ bi ∧ t ∈ yi := by
  have hle : List.Forall₂ (· ≤ ·) u v := huv.imp fun _ _ h => le_of_lt h
  have hu := H u (List.forall₂_refl u) hle
  obtain ⟨hlt, -⟩ := List.getElem?_eq_some_iff.1 hb
  have hlu : u.length = b.length := hu.1.length_eq
  have hlv : u.length = v.length := huv.length_eq
  have h1 : u[i]? = some (u[i]'(by omega)) := List.getElem?_eq_getElem _
  have h2 : v[i]? = some (v[i]'(by omega)) := List.getElem?_eq_getElem _
  generalize u[i]'(by omega) = u0 at h1
  generalize v[i]'(by omega) = v0 at h2
  refine ⟨u0, v0, (forall₂_iff_getElem?.1 huv).2 i u0 v0 h1 h2, fun t ht1 ht2 => ?_⟩
  have := H (u.set i t) (forall₂_set_right (List.forall₂_refl u) h1 ht1)
    (forall₂_set_left hle h2 ht2)
  have hti : (u.set i t)[i]? = some t := List.getElem?_set_self (by omega)
  exact ⟨(Box.mem_iff.1 this.1).2 i t bi hti hb, (Box.mem_iff.1 this.2).2 i t yi hti hy⟩

/-- Semantic non-overlap (unconditional): a box of `diff x y` and `y` have no common sub-box of
    positive volume. -/
theorem Box.diff_no_common_box {x y b : Box} (hb : b ∈ Box.diff x y) {u v : List ℝ}
    (huv : List.Forall₂ (· < ·) u v)
    (H : ∀ t, List.Forall₂ (· ≤ ·) u t → List.Forall₂ (· ≤ ·) t v → Box.Mem t b ∧ Box.Mem t y) :
    False := by
  unfold Box.diff at hb
  split at hb
  · simp at hb
  · simp only [] at hb
    split at hb
    · rename_i hz
      rw [List.mem_singleton] at hb; subst hb
      have hle : List.Forall₂ (· ≤ ·) u v := huv.imp fun _ _ h => le_of_lt h
      have hu := H u (List.forall₂_refl u) hle
      have hl : b.length = y.length := hu.1.length_eq.symm.trans hu.2.length_eq
      have := Box.isEmpty_eq_false_of_mem ((Box.mem_inter hl).2 hu)
      rw [this] at hz
      exact Bool.false_ne_true hz
    · split at hb
      · rename_i hany
        rw [List.mem_singleton] at hb; subst hb
        obtain ⟨i, zi, xi, hz, hx, hf⟩ := Box.any2_exists hany
        obtain ⟨xi', yi, hx', hy, e⟩ := Box.inter_getElem? hz
        rw [hx] at hx'
        injection hx' with hx'
        subst hx'
        obtain ⟨u0, v0, h0, H0⟩ := Box.segment_of_common_box huv H hx hy
        have hu0 : u0 ∈ zi := e ▸ Itv.mem_inter.2 (H0 u0 (le_refl _) h0.le)
        have hv0 : v0 ∈ zi := e ▸ Itv.mem_inter.2 (H0 v0 h0.le (le_refl _))
        rw [Bool.and_eq_true] at hf
        cases zi with
        | empty => exact Itv.not_mem_empty u0 hu0
        | mk a c =>
          have hac : a = c := by simpa [Itv.isDegenerated] using hf.1
          subst hac
          have : (v0 : EReal) ≤ (u0 : EReal) := le_trans hv0.2 hu0.1
          exact absurd (EReal.coe_le_coe_iff.1 this) (not_le.2 h0)
      · obtain ⟨i, xi, yi, c, -, -, hy, hc, hbi⟩ := Box.diffLoop_piece _ _ _ hb
        obtain ⟨u0, v0, h0, H0⟩ := Box.segment_of_common_box huv H hbi hy
        exact Itv.diff_no_common_segment hc h0 H0

theorem Itv.overlaps_empty_right (X : Itv) : Itv.overlaps X Itv.empty = false := by
  cases X <;> rfl

theorem Itv.ofBounds_eq (lo hi : Ext) :
    Itv.ofBounds lo hi = if (Itv.mk lo hi).WF = true then Itv.mk lo hi else Itv.empty := rfl

/-- well-formed intervals with an empty intersection do not overlap -/
theorem Itv.overlaps_eq_false_of_inter_empty {X Y : Itv} (hX : X.WF = true) (hY : Y.WF = true)
    (h : Itv.inter X Y = Itv.empty) : Itv.overlaps X Y = false := by
  cases X with
  | empty => rfl
  | mk a b =>
    cases Y with
    | empty => rfl
    | mk c d =>
      rw [← Bool.not_eq_true]
      intro ho
      obtain ⟨hab, ha, hb⟩ := Itv.WF_mk.1 hX
      obtain ⟨hcd, hc, hd⟩ := Itv.WF_mk.1 hY
      simp only [Itv.overlaps, Bool.and_eq_true, Ext.lt_iff] at ho
      have hwf : (Itv.mk (Ext.max a c) (Ext.min b d)).WF = true := by
        rw [Itv.WF_mk, Ext.toE_max, Ext.toE_min]
        refine ⟨max_le (le_min hab ho.2.le) (le_min ho.1.le hcd), ?_, ?_⟩
        · rcases max_choice a.toE c.toE with e | e <;> rw [e] <;> assumption
        · rcases min_choice b.toE d.toE with e | e <;> rw [e] <;> assumption
      simp [Itv.inter, Itv.ofBounds_eq, hwf] at h

/-- if two well-formed intervals overlap (Boolean test) although their intersection is degenerate
    or empty, one of them is degenerate -/
theorem Itv.degenerate_of_overlaps_of_inter_degenerate {X Y : Itv} (hX : X.WF = true)
    (hY : Y.WF = true) (hz : (Itv.inter X Y).isDegenerated = true)
    (ho : Itv.overlaps X Y = true) : X.isDegenerated = true ∨ Y.isDegenerated = true := by
  cases X with
  | empty => exact Or.inl rfl
  | mk a b =>
    cases Y with
    | empty => exact Or.inr rfl
    | mk c d =>
      by_contra hcon
      rw [not_or, Bool.not_eq_true, Bool.not_eq_true] at hcon
      have hab := Itv.lt_of_nondeg hX hcon.1
      have hcd := Itv.lt_of_nondeg hY hcon.2
      obtain ⟨-, ha, hb⟩ := Itv.WF_mk.1 hX
      obtain ⟨-, hc, hd⟩ := Itv.WF_mk.1 hY
      simp only [Itv.overlaps, Bool.and_eq_true, Ext.lt_iff] at ho
      have hlt : Max.max a.toE c.toE < Min.min b.toE d.toE :=
        max_lt (lt_min hab ho.2) (lt_min ho.1 hcd)
      have hwf : (Itv.mk (Ext.max a c) (Ext.min b d)).WF = true := by
        rw [Itv.WF_mk, Ext.toE_max, Ext.toE_min]
        refine ⟨hlt.le, ?_, ?_⟩
        · rcases max_choice a.toE c.toE with e | e <;> rw [e] <;> assumption
        · rcases min_choice b.toE d.toE with e | e <;> rw [e] <;> assumption
      simp only [Itv.inter, Itv.ofBounds_eq, hwf, if_true, Itv.isDegenerated, beq_iff_eq] at hz
      have := congrArg Ext.toE hz
      rw [Ext.toE_max, Ext.toE_min] at this
      exact absurd this (ne_of_lt hlt)

/-- Boolean non-overlap of the pieces of `diff x y` with `y`, for well-formed components, when a
    degenerate component of `y` only faces a degenerate component of `x` (see the section header
    for the counterexample otherwise). -/
theorem Box.diff_no_overlap {x y b : Box} (hx : ∀ I ∈ x, I.WF = true) (hy : ∀ I ∈ y, I.WF = true)
    (hdeg : ∀ (i : Nat) (xi : Itv) (q : Ext), x[i]? = some xi → y[i]? = some (Itv.mk q q) →
      xi.isDegenerated = true)
    (hb : b ∈ Box.diff x y) : Box.overlaps b y = false := by
  have key : ∀ {i : Nat} {bi yi : Itv}, b[i]? = some bi → y[i]? = some yi →
      Itv.overlaps bi yi = false → Box.overlaps b y = false := by
    intro i bi yi h1 h2 h3
    simp [Box.overlaps, Box.all2_eq_false_of_getElem? h1 h2 h3]
  unfold Box.diff at hb
  split at hb
  · simp at hb
  · simp only [] at hb
    split at hb
    · rename_i hz
      rw [List.mem_singleton] at hb; subst hb
      simp only [Box.isEmpty, List.any_eq_true] at hz
      obtain ⟨zi, hzi, hze⟩ := hz
      obtain ⟨i, hi⟩ := List.mem_iff_getElem?.1 hzi
      obtain ⟨xi, yi, h1, h2, e⟩ := Box.inter_getElem? hi
      have hemp : Itv.inter xi yi = Itv.empty := by
        rw [← e]; cases zi with
        | empty => rfl
        | mk _ _ => simp [Itv.isEmpty] at hze
      exact key h1 h2 (Itv.overlaps_eq_false_of_inter_empty (hx xi (List.mem_of_getElem? h1))
        (hy yi (List.mem_of_getElem? h2)) hemp)
    · split at hb
      · rename_i hany
        rw [List.mem_singleton] at hb; subst hb
        obtain ⟨i, zi, xi, hz, h1, hf⟩ := Box.any2_exists hany
        obtain ⟨xi', yi, h1', h2, e⟩ := Box.inter_getElem? hz
        rw [h1] at h1'
        injection h1' with h1'
        subst h1'
        simp only [Bool.and_eq_true, Bool.not_eq_true'] at hf
        refine key h1 h2 ?_
        cases ho : Itv.overlaps xi yi with
        | false => rfl
        | true =>
          exfalso
          have hxd : ¬ xi.isDegenerated = true := by simp [hf.2]
          rcases Itv.degenerate_of_overlaps_of_inter_degenerate
            (hx xi (List.mem_of_getElem? h1)) (hy yi (List.mem_of_getElem? h2))
            (e ▸ hf.1) ho with h | h
          · exact hxd h
          · cases yi with
            | empty => rw [Itv.overlaps_empty_right] at ho; exact Bool.false_ne_true ho
            | mk c d =>
              have hcd : c = d := by simpa [Itv.isDegenerated] using h
              subst hcd
              exact hxd (hdeg i xi c h1 h2)
      · obtain ⟨i, xi, yi, c, -, h1, h2, hc, hbi⟩ := Box.diffLoop_piece _ _ _ hb
        exact key hbi h2 (Itv.diff_no_overlap hc (fun q e => hdeg i xi q h1 (e ▸ h2)))

/-- special case: `y` has no degenerate (in particular no empty) component -/
theorem Box.diff_no_overlap_of_nondeg {x y b : Box} (hx : ∀ I ∈ x, I.WF = true)
    (hy : ∀ I ∈ y, I.WF = true) (hyd : ∀ I ∈ y, I.isDegenerated = false)
    (hb : b ∈ Box.diff x y) : Box.overlaps b y = false :=
  Box.diff_no_overlap hx hy (fun i xi q _ h2 => by
    have := hyd _ (List.mem_of_getElem? h2)
    simp [Itv.isDegenerated] at this) hb

/-! ### box complement (`Box.complementary y = Box.diff (-∞,+∞)ⁿ y`) -/

theorem Box.mem_all {p : List ℝ} {y : Box} (hl : p.length = y.length) :
    Box.Mem p (y.map fun _ => Itv.all) := by
  rw [Box.mem_iff]
  refine ⟨by simpa using hl, fun i t I _ h2 => ?_⟩
  rw [List.getElem?_map, Option.map_eq_some_iff] at h2
  obtain ⟨_, -, e⟩ := h2
  subst e
  exact ⟨bot_le, le_top⟩

theorem Box.compl_cover {p : List ℝ} {y : Box} (hl : p.length = y.length) (hy : ¬ Box.Mem p y) :
    ∃ b ∈ Box.complementary y, Box.Mem p b :=
  Box.diff_cover (by simp) (Box.mem_all hl) hy

theorem Box.compl_no_common_box {y b : Box} (hb : b ∈ Box.complementary y) {u v : List ℝ}
    (huv : List.Forall₂ (· < ·) u v)
    (H : ∀ t, List.Forall₂ (· ≤ ·) u t → List.Forall₂ (· ≤ ·) t v → Box.Mem t b ∧ Box.Mem t y) :
    False :=
  Box.diff_no_common_box hb huv H

/-! ### 17. box bisection certificate -/

theorem Box.boxBisectOk_sound {x l r : Box} {i : Nat} (h : Box.boxBisectOk x i l r = true) :
    ∀ p, Box.Mem p x ↔ (Box.Mem p l ∨ Box.Mem p r) := by
  unfold Box.boxBisectOk at h
  cases h1 : x[i]? with
  | none => simp [h1] at h
  | some xi =>
    cases h2 : l[i]? with
    | none => simp [h1, h2] at h
    | some li =>
      cases h3 : r[i]? with
      | none => simp [h1, h2, h3] at h
      | some ri =>
        simp only [h1, h2, h3, Bool.and_eq_true, beq_iff_eq, Box.setAt] at h
        obtain ⟨⟨⟨hb, hl⟩, hr⟩, -⟩ := h
        obtain ⟨hcov, -, -, -⟩ := Itv.bisectOk_sound hb
        intro p
        rw [hl, hr]
        constructor
        · intro hm
          have hlp : p.length = x.length := hm.length_eq
          obtain ⟨hlt, -⟩ := List.getElem?_eq_some_iff.1 h1
          have h4 : p[i]? = some (p[i]'(by omega)) := List.getElem?_eq_getElem _
          generalize p[i]'(by omega) = t at h4
          have ht : t ∈ xi := (Box.mem_iff.1 hm).2 i t xi h4 h1
          rcases (hcov t).1 ht with h | h
          · exact Or.inl (Box.mem_set hm h4 h)
          · exact Or.inr (Box.mem_set hm h4 h)
        · rintro (hm | hm)
          · exact Box.mem_of_mem_set h1 (fun t ht => (hcov t).2 (Or.inl ht)) hm
          · exact Box.mem_of_mem_set h1 (fun t ht => (hcov t).2 (Or.inr ht)) hm

end Ibex
