/-
  Soundness of the normal-form arithmetic of `IbexModel/RatFun.lean`.

  1. `Poly.ev p ρ` : the real value of a polynomial at a valuation `ρ : ℕ → ℝ`; every operation
     of `Poly` (`add neg sub mul pow const var deriv`) computes what it should.  Canonical forms
     are only used in the direction "equal lists ⇒ equal values".
  2. `RF.Rep ρ x f` : the real `x` is the value at `ρ` of the formal quotient `f`, whose
     denominator does not vanish at `ρ`; every operation of `RF` preserves it.
  3. `Alg.real_rfT` : naturality (`AlgRel`) from the real algebra to the *totalised* algebra of
     rational functions, and `nf_real`: whenever the normal form of a DAG exists and the real
     evaluation is defined at a point, every real entry is the value of the corresponding
     rational function there.
-/
import IbexModel.RatFun
import IbexProofs.EvalCert
import Mathlib.Analysis.Calculus.Deriv.Mul
import Mathlib.Analysis.Calculus.Deriv.Pow
import Mathlib.Analysis.Calculus.Deriv.Inv
import Mathlib.Analysis.Calculus.Deriv.Add

namespace Ibex
open List

/-! ## 1. polynomials -/

/-- value of a monomial (variable `k` ↦ `ρ k`) -/
noncomputable def Mono.ev : Mono → (ℕ → ℝ) → ℝ
  | [], _ => 1
  | e :: es, ρ => ρ 0 ^ e * Mono.ev es (fun i => ρ (i + 1))

/-- value of a polynomial -/
noncomputable def Poly.ev (p : Poly) (ρ : ℕ → ℝ) : ℝ :=
  (p.map fun t => (t.2 : ℝ) * Mono.ev t.1 ρ).sum

namespace Mono

@[simp] theorem ev_nil (ρ : ℕ → ℝ) : Mono.ev [] ρ = 1 := rfl
@[simp] theorem ev_cons' (e : ℕ) (es : Mono) (ρ : ℕ → ℝ) :
    Mono.ev (e :: es) ρ = ρ 0 ^ e * Mono.ev es (fun i => ρ (i + 1)) := rfl

theorem cmp_eq : ∀ (m n : Mono), Mono.cmp m n = .eq → m = n
  | [], [] => fun _ => rfl
  | [], _ :: _ => fun h => by simp [Mono.cmp] at h
  | _ :: _, [] => fun h => by simp [Mono.cmp] at h
  | a :: as, b :: bs => fun h => by
    simp only [Mono.cmp] at h
    split_ifs at h with h1 h2
    have : a = b := by omega
    rw [this, cmp_eq as bs h]

theorem ev_mul : ∀ (a b : Mono) (ρ : ℕ → ℝ), Mono.ev (Mono.mul a b) ρ = Mono.ev a ρ * Mono.ev b ρ
  | [], b, ρ => by simp [Mono.mul]
  | a :: as, [], ρ => by simp [Mono.mul]
  | a :: as, b :: bs, ρ => by
    simp only [Mono.mul, ev_cons', ev_mul as bs]
    ring

theorem ev_var : ∀ (k : ℕ) (ρ : ℕ → ℝ), Mono.ev (Mono.var k) ρ = ρ k
  | 0, ρ => by simp [Mono.var]
  | k + 1, ρ => by
    have := ev_var k (fun i => ρ (i + 1))
    simp only [Mono.var] at this
    simp [Mono.var, List.replicate_succ, this]

theorem ev_cons (e : ℕ) (es : Mono) (ρ : ℕ → ℝ) : Mono.ev (Mono.cons e es) ρ = Mono.ev (e :: es) ρ := by
  unfold Mono.cons
  split <;> simp

end Mono

namespace Poly

@[simp] theorem ev_nil (ρ : ℕ → ℝ) : Poly.ev [] ρ = 0 := rfl
@[simp] theorem ev_cons (t : Mono × Rat) (p : Poly) (ρ : ℕ → ℝ) :
    Poly.ev (t :: p) ρ = (t.2 : ℝ) * Mono.ev t.1 ρ + Poly.ev p ρ := by
  simp [Poly.ev]
theorem ev_append (p q : Poly) (ρ : ℕ → ℝ) : Poly.ev (p ++ q) ρ = Poly.ev p ρ + Poly.ev q ρ := by
  simp [Poly.ev]

theorem ev_one (ρ : ℕ → ℝ) : Poly.ev Poly.one ρ = 1 := by simp [Poly.one]

theorem ev_const (q : Rat) (ρ : ℕ → ℝ) : Poly.ev (Poly.const q) ρ = (q : ℝ) := by
  unfold Poly.const
  split_ifs with h
  · simp [h]
  · simp

theorem ev_var (k : ℕ) (ρ : ℕ → ℝ) : Poly.ev (Poly.var k) ρ = ρ k := by
  simp [Poly.var, Mono.ev_var]

theorem ev_addF (ρ : ℕ → ℝ) : ∀ (f : ℕ) (p q : Poly),
    Poly.ev (Poly.addF f p q) ρ = Poly.ev p ρ + Poly.ev q ρ
  | 0, p, q => by simp [Poly.addF, ev_append]
  | _ + 1, [], q => by simp [Poly.addF]
  | _ + 1, t :: p, [] => by simp [Poly.addF]
  | f + 1, (m, a) :: p, (n, b) :: q => by
    simp only [Poly.addF]
    split
    · simp only [ev_cons, ev_addF ρ f]; ring
    · simp only [ev_cons, ev_addF ρ f]; ring
    · rename_i hc
      have hmn := Mono.cmp_eq m n hc
      subst hmn
      split_ifs with h0
      · have : ((a : ℝ) + (b : ℝ)) = 0 := by exact_mod_cast h0
        simp only [ev_cons, ev_addF ρ f]
        linear_combination (-(Mono.ev m ρ)) * this
      · simp only [ev_cons, ev_addF ρ f]
        push_cast
        ring

theorem ev_add (p q : Poly) (ρ : ℕ → ℝ) : Poly.ev (Poly.add p q) ρ = Poly.ev p ρ + Poly.ev q ρ :=
  ev_addF ρ _ p q

theorem ev_neg (p : Poly) (ρ : ℕ → ℝ) : Poly.ev (Poly.neg p) ρ = - Poly.ev p ρ := by
  induction p with
  | nil => simp [Poly.neg]
  | cons t p ih =>
    simp only [Poly.neg, List.map_cons, ev_cons] at ih ⊢
    rw [ih]; push_cast; ring

theorem ev_sub (p q : Poly) (ρ : ℕ → ℝ) : Poly.ev (Poly.sub p q) ρ = Poly.ev p ρ - Poly.ev q ρ := by
  simp [Poly.sub, ev_add, ev_neg, sub_eq_add_neg]

theorem ev_mulTerm (m : Mono) (a : Rat) (q : Poly) (ρ : ℕ → ℝ) :
    Poly.ev (Poly.mulTerm m a q) ρ = (a : ℝ) * Mono.ev m ρ * Poly.ev q ρ := by
  induction q with
  | nil => simp [Poly.mulTerm]
  | cons t q ih =>
    simp only [Poly.mulTerm, List.map_cons, ev_cons, Mono.ev_mul] at ih ⊢
    rw [ih]; push_cast; ring

theorem ev_mulAux (p q : Poly) (ρ : ℕ → ℝ) : Poly.ev (Poly.mulAux p q) ρ = Poly.ev p ρ * Poly.ev q ρ := by
  induction p with
  | nil => simp [Poly.mulAux]
  | cons t p ih =>
    simp only [Poly.mulAux, List.foldr_cons, ev_add, ev_mulTerm, ev_cons] at ih ⊢
    rw [ih]; ring

theorem ev_mul (p q : Poly) (ρ : ℕ → ℝ) : Poly.ev (Poly.mul p q) ρ = Poly.ev p ρ * Poly.ev q ρ := by
  unfold Poly.mul
  split_ifs
  · exact ev_mulAux p q ρ
  · rw [ev_mulAux, mul_comm]

theorem ev_pow (p : Poly) (n : ℕ) (ρ : ℕ → ℝ) : Poly.ev (Poly.pow p n) ρ = Poly.ev p ρ ^ n := by
  induction n with
  | zero => simp [Poly.pow, ev_one]
  | succ n ih => simp [Poly.pow, ev_mul, ih, pow_succ]

end Poly

/-! ### formal partial derivatives -/

theorem shift_update_zero (ρ : ℕ → ℝ) (t : ℝ) :
    (fun i => Function.update ρ 0 t (i + 1)) = fun i => ρ (i + 1) := by
  funext i
  simp

theorem shift_update_succ (ρ : ℕ → ℝ) (j : ℕ) (t : ℝ) :
    (fun i => Function.update ρ (j + 1) t (i + 1)) = Function.update (fun i => ρ (i + 1)) j t := by
  funext i
  simp [Function.update_apply]

/-- derivative of a monomial along coordinate `j` -/
noncomputable def Mono.dval (j : ℕ) (m : Mono) (ρ : ℕ → ℝ) : ℝ :=
  match Mono.dec j m with
  | none => 0
  | some (e, m') => (e : ℝ) * Mono.ev m' ρ

theorem Mono.hasDerivAt_ev : ∀ (m : Mono) (j : ℕ) (ρ : ℕ → ℝ) (x : ℝ),
    HasDerivAt (fun t => Mono.ev m (Function.update ρ j t)) (Mono.dval j m (Function.update ρ j x)) x
  | [], j, ρ, x => by
    simp only [Mono.ev_nil, Mono.dval, Mono.dec]
    exact hasDerivAt_const x 1
  | e :: es, 0, ρ, x => by
    simp only [Mono.ev_cons', shift_update_zero, Function.update_self, Mono.dval, Mono.dec]
    split_ifs with he
    · subst he
      simpa using hasDerivAt_const x (Mono.ev es fun i => ρ (i + 1))
    · simp only [Mono.ev_cons, Mono.ev_cons', shift_update_zero, Function.update_self]
      have h := (hasDerivAt_pow e x).mul_const (Mono.ev es fun i => ρ (i + 1))
      refine h.congr_deriv ?_
      ring
  | e :: es, j + 1, ρ, x => by
    have ih := Mono.hasDerivAt_ev es j (fun i => ρ (i + 1)) x
    simp only [Mono.ev_cons', shift_update_succ, Mono.dval, Mono.dec]
    have h0 : ∀ t, Function.update ρ (j + 1) t 0 = ρ 0 := fun t => by simp
    simp only [h0]
    have h := ih.const_mul (ρ 0 ^ e)
    refine h.congr_deriv ?_
    unfold Mono.dval
    cases hd : Mono.dec j es with
    | none => simp
    | some p =>
      obtain ⟨c, es'⟩ := p
      simp only [Option.map_some, Mono.ev_cons, Mono.ev_cons', shift_update_succ, h0]
      ring

theorem Poly.hasDerivAt_ev (j : ℕ) (ρ : ℕ → ℝ) (x : ℝ) : ∀ (p : Poly),
    HasDerivAt (fun t => Poly.ev p (Function.update ρ j t))
      (Poly.ev (Poly.deriv j p) (Function.update ρ j x)) x
  | [] => by
    simp only [Poly.ev_nil, Poly.deriv]
    exact hasDerivAt_const x 0
  | (m, a) :: p => by
    have ih := Poly.hasDerivAt_ev j ρ x p
    have hm := (Mono.hasDerivAt_ev m j ρ x).const_mul (a : ℝ)
    have h := hm.add ih
    simp only [Poly.ev_cons]
    refine h.congr_deriv ?_
    simp only [Poly.deriv, Mono.dval]
    cases hd : Mono.dec j m with
    | none => simp
    | some q =>
      obtain ⟨e, m'⟩ := q
      simp only [Poly.ev_cons]
      push_cast
      ring

/-! ## 2. formal quotients -/

namespace RF

/-- the real `x` is the value at `ρ` of the quotient `f`, whose denominator does not vanish at `ρ` -/
def Rep (ρ : ℕ → ℝ) (x : ℝ) (f : RF) : Prop :=
  Poly.ev f.den ρ ≠ 0 ∧ x = Poly.ev f.num ρ / Poly.ev f.den ρ

variable {ρ : ℕ → ℝ}

theorem Rep_const (q : Rat) : Rep ρ (q : ℝ) (RF.const q) := by
  simp [Rep, RF.const, Poly.ev_const, Poly.ev_one]

theorem Rep_var (k : ℕ) : Rep ρ (ρ k) (RF.var k) := by
  simp [Rep, RF.var, Poly.ev_var, Poly.ev_one]

theorem Rep_add {x y : ℝ} {a b : RF} (ha : Rep ρ x a) (hb : Rep ρ y b) : Rep ρ (x + y) (RF.add a b) := by
  obtain ⟨ha0, rfl⟩ := ha
  obtain ⟨hb0, rfl⟩ := hb
  unfold RF.add
  split_ifs with hd
  · refine ⟨ha0, ?_⟩
    simp only [Poly.ev_add]
    rw [← hd]
    field_simp
  · refine ⟨by simp only [Poly.ev_mul]; exact mul_ne_zero ha0 hb0, ?_⟩
    simp only [Poly.ev_add, Poly.ev_mul]
    field_simp

theorem Rep_neg {x : ℝ} {a : RF} (ha : Rep ρ x a) : Rep ρ (-x) (RF.neg a) := by
  obtain ⟨ha0, rfl⟩ := ha
  refine ⟨ha0, ?_⟩
  simp only [RF.neg, Poly.ev_neg]
  ring

theorem Rep_sub {x y : ℝ} {a b : RF} (ha : Rep ρ x a) (hb : Rep ρ y b) : Rep ρ (x - y) (RF.sub a b) := by
  rw [sub_eq_add_neg]
  exact Rep_add ha (Rep_neg hb)

theorem Rep_mul {x y : ℝ} {a b : RF} (ha : Rep ρ x a) (hb : Rep ρ y b) : Rep ρ (x * y) (RF.mul a b) := by
  obtain ⟨ha0, rfl⟩ := ha
  obtain ⟨hb0, rfl⟩ := hb
  refine ⟨by simp only [RF.mul, Poly.ev_mul]; exact mul_ne_zero ha0 hb0, ?_⟩
  simp only [RF.mul, Poly.ev_mul]
  field_simp

/-- a non-zero value has a non-vanishing numerator -/
theorem Rep.num_ne {x : ℝ} {a : RF} (ha : Rep ρ x a) (hx : x ≠ 0) : Poly.ev a.num ρ ≠ 0 := by
  obtain ⟨_, rfl⟩ := ha
  intro h
  exact hx (by rw [h, zero_div])

theorem Rep_inv {x : ℝ} {a : RF} (ha : Rep ρ x a) (hx : x ≠ 0) : Rep ρ x⁻¹ (RF.inv a) := by
  have hn := ha.num_ne hx
  obtain ⟨ha0, rfl⟩ := ha
  refine ⟨hn, ?_⟩
  simp only [RF.inv]
  rw [inv_div]

theorem Rep_div {x y : ℝ} {a b : RF} (ha : Rep ρ x a) (hb : Rep ρ y b) (hy : y ≠ 0) :
    Rep ρ (x / y) (RF.div a b) := by
  have hn := hb.num_ne hy
  obtain ⟨ha0, rfl⟩ := ha
  obtain ⟨hb0, rfl⟩ := hb
  refine ⟨by simp only [RF.div, Poly.ev_mul]; exact mul_ne_zero ha0 hn, ?_⟩
  simp only [RF.div, Poly.ev_mul]
  field_simp

theorem guard_eq {B : ℕ} {a b r f : RF} (h : RF.guard B a b r = some f) : f = r := by
  unfold RF.guard at h
  split_ifs at h
  simpa using h.symm

theorem Rep_powM {B : ℕ} {x : ℝ} {a : RF} (ha : Rep ρ x a) :
    ∀ (n : ℕ) (f : RF), RF.powM B a n = some f → Rep ρ (x ^ n) f
  | 0, f, h => by
    simp only [RF.powM, Option.some.injEq] at h
    subst h
    simpa using Rep_const (ρ := ρ) 1
  | n + 1, f, h => by
    simp only [RF.powM, Option.bind_eq_some_iff] at h
    obtain ⟨r, hr, h⟩ := h
    rw [guard_eq h, pow_succ]
    exact Rep_mul (Rep_powM ha n r hr) ha

/-- accepted by the cross-multiplication test ⇒ same value wherever both are defined -/
theorem eqv_sound {B : ℕ} {a b : RF} (h : RF.eqv B a b = some true) {x y : ℝ}
    (ha : Rep ρ x a) (hb : Rep ρ y b) : x = y := by
  obtain ⟨ha0, rfl⟩ := ha
  obtain ⟨hb0, rfl⟩ := hb
  unfold RF.eqv at h
  split_ifs at h with h1 h2 h3
  · simp at h
  · simp only [Option.some.injEq, decide_eq_true_eq] at h
    rw [h, h2]
  · simp only [Option.some.injEq, decide_eq_true_eq] at h
    have := congrArg (fun p => Poly.ev p ρ) h
    simp only [Poly.ev_mul] at this
    rw [div_eq_div_iff ha0 hb0]
    exact this

/-- quotient rule: the formal derivative is the derivative along coordinate `j` -/
theorem hasDerivAt (f : RF) (j : ℕ) (ρ : ℕ → ℝ) (x : ℝ) (hd : Poly.ev f.den (Function.update ρ j x) ≠ 0) :
    HasDerivAt (fun t => Poly.ev f.num (Function.update ρ j t) / Poly.ev f.den (Function.update ρ j t))
      (Poly.ev (RF.deriv j f).num (Function.update ρ j x) /
        Poly.ev (RF.deriv j f).den (Function.update ρ j x)) x := by
  have h := (Poly.hasDerivAt_ev j ρ x f.num).div (Poly.hasDerivAt_ev j ρ x f.den) hd
  refine h.congr_deriv ?_
  simp only [RF.deriv, Poly.ev_sub, Poly.ev_mul, pow_two]

theorem deriv_den_ne (f : RF) (j : ℕ) {ρ : ℕ → ℝ} (hd : Poly.ev f.den ρ ≠ 0) :
    Poly.ev (RF.deriv j f).den ρ ≠ 0 := by
  simp only [RF.deriv, Poly.ev_mul]
  exact mul_ne_zero hd hd

end RF

/-! ## 3. naturality: from the real algebra to the totalised algebra of rational functions -/

/-- the same algebra on `Option α`, every operation being total (`some none` = no value) -/
def Alg.totalize {α : Type} (A : Alg α) : Alg (Option α) where
  ofItv I := some (A.ofItv I)
  zero := some A.zero
  add a b := some (a.bind fun a => b.bind fun b => A.add a b)
  sub a b := some (a.bind fun a => b.bind fun b => A.sub a b)
  mul a b := some (a.bind fun a => b.bind fun b => A.mul a b)
  div a b := some (a.bind fun a => b.bind fun b => A.div a b)
  max a b := some (a.bind fun a => b.bind fun b => A.max a b)
  min a b := some (a.bind fun a => b.bind fun b => A.min a b)
  un op := some fun a => some ((A.un op).bind fun f => a.bind f)
  pow a n := some (a.bind fun a => A.pow a n)
  chi a b c := some (a.bind fun a => b.bind fun b => c.bind fun c => A.chi a b c)

/-- `o` is the defined value `a` -/
abbrev RSome {α : Type} : α → Option α → Prop := fun a o => o = some a

theorem Alg.totalize_rel {α : Type} (A : Alg α) : AlgRel RSome A A.totalize where
  ofItv := fun I a h => ⟨_, rfl, h⟩
  zero := rfl
  add := by rintro a _ a' _ x rfl rfl h; exact ⟨_, rfl, by simpa using h⟩
  sub := by rintro a _ a' _ x rfl rfl h; exact ⟨_, rfl, by simpa using h⟩
  mul := by rintro a _ a' _ x rfl rfl h; exact ⟨_, rfl, by simpa using h⟩
  div := by rintro a _ a' _ x rfl rfl h; exact ⟨_, rfl, by simpa using h⟩
  max := by rintro a _ a' _ x rfl rfl h; exact ⟨_, rfl, by simpa using h⟩
  min := by rintro a _ a' _ x rfl rfl h; exact ⟨_, rfl, by simpa using h⟩
  un := by
    rintro op f g hf hg a _ x rfl hx
    simp only [Alg.totalize, Option.some.injEq] at hg
    subst hg
    exact ⟨_, rfl, by simp [RSome, hf, hx]⟩
  pow := by rintro n a _ x rfl h; exact ⟨_, rfl, by simpa using h⟩
  chi := by rintro a _ b _ c _ x rfl rfl rfl h; exact ⟨_, rfl, by simpa using h⟩

theorem Alg.totalize_supp {α : Type} (A : Alg α) (n : Node) : Eval.Supp A A.totalize n :=
  fun _ _ _ _ h => absurd h (by simp [Alg.totalize])

/-- the real `x` is the value at `ρ` of the rational function `o`, if there is one -/
def RepO (ρ : ℕ → ℝ) (x : ℝ) (o : Option RF) : Prop := ∀ f, o = some f → RF.Rep ρ x f

theorem rel2_totalize {ρ : ℕ → ℝ} {opR : ℝ → ℝ → Option ℝ} {opF : RF → RF → Option RF}
    (h : ∀ a b x fa fb f, opR a b = some x → RF.Rep ρ a fa → RF.Rep ρ b fb → opF fa fb = some f →
      RF.Rep ρ x f) :
    Rel2 (RepO ρ) (RepO ρ) opR (fun a b => some (a.bind fun a => b.bind fun b => opF a b)) := by
  intro a oa b ob x ha hb hx
  refine ⟨_, rfl, ?_⟩
  intro f hf
  cases oa with
  | none => simp at hf
  | some fa =>
    cases ob with
    | none => simp at hf
    | some fb => exact h _ _ _ _ _ _ hx (ha _ rfl) (hb _ rfl) (by simpa using hf)

/-- **Naturality**: on arguments that are values of rational functions at `ρ`, every operation
    of the real algebra that is defined yields the value of the rational function computed by
    `Alg.rf` (when the latter computes one). -/
theorem Alg.real_rfT (B : ℕ) (ρ : ℕ → ℝ) : AlgRel (RepO ρ) Alg.real (Alg.rf B).totalize where
  ofItv := by
    intro I x h
    refine ⟨_, rfl, ?_⟩
    intro f hf
    simp only [Alg.rf, Option.map_eq_some_iff] at hf
    obtain ⟨q, hq, rfl⟩ := hf
    simp only [Alg.real] at h
    unfold realOfItv at h
    unfold ratOfItv at hq
    split at h
    · rename_i a b
      simp only at hq
      split_ifs at h hq with e
      · simp only [Option.some.injEq] at h hq
        subst h; subst hq
        exact RF.Rep_const a
    · exact absurd h (by simp)
  zero := by
    intro f hf
    simp only [Alg.totalize, Alg.rf, Option.some.injEq] at hf
    subst hf
    simpa [Alg.real] using RF.Rep_const (ρ := ρ) 0
  add := rel2_totalize (by
    intro a b x fa fb f hx ha hb hf
    simp only [Alg.real, Option.some.injEq] at hx
    subst hx
    simp only [Alg.rf] at hf
    rw [RF.guard_eq hf]
    exact RF.Rep_add ha hb)
  sub := rel2_totalize (by
    intro a b x fa fb f hx ha hb hf
    simp only [Alg.real, Option.some.injEq] at hx
    subst hx
    simp only [Alg.rf] at hf
    rw [RF.guard_eq hf]
    exact RF.Rep_sub ha hb)
  mul := rel2_totalize (by
    intro a b x fa fb f hx ha hb hf
    simp only [Alg.real, Option.some.injEq] at hx
    subst hx
    simp only [Alg.rf] at hf
    rw [RF.guard_eq hf]
    exact RF.Rep_mul ha hb)
  div := rel2_totalize (by
    intro a b x fa fb f hx ha hb hf
    simp only [Alg.real] at hx
    split_ifs at hx with hb0
    simp only [Option.some.injEq] at hx
    subst hx
    simp only [Alg.rf] at hf
    split_ifs at hf
    rw [RF.guard_eq hf]
    exact RF.Rep_div ha hb hb0)
  max := rel2_totalize (by
    intro a b x fa fb f _ _ _ hf
    simp [Alg.rf] at hf)
  min := rel2_totalize (by
    intro a b x fa fb f _ _ _ hf
    simp [Alg.rf] at hf)
  un := by
    rintro op f g hf hg a oa x ha hx
    simp only [Alg.totalize, Option.some.injEq] at hg
    subst hg
    refine ⟨_, rfl, ?_⟩
    intro r hr
    simp only [Option.bind_eq_some_iff] at hr
    obtain ⟨fr, hfr, fa, rfl, hr⟩ := hr
    have ha' := ha fa rfl
    simp only [Alg.rf] at hfr
    split at hfr
    · simp only [Option.some.injEq] at hfr
      subst hfr
      simp only [Alg.real, Option.some.injEq] at hf
      subst hf
      simp only [Option.some.injEq] at hx hr
      subst hx; subst hr
      exact RF.Rep_neg ha'
    · simp only [Option.some.injEq] at hfr
      subst hfr
      simp only [Alg.real, Option.some.injEq] at hf
      subst hf
      simp only [Option.some.injEq] at hx
      subst hx
      rw [RF.guard_eq hr]
      exact RF.Rep_mul ha' ha'
    · exact absurd hfr (by simp)
  pow := by
    intro n a oa x ha hx
    refine ⟨_, rfl, ?_⟩
    intro r hr
    simp only [Option.bind_eq_some_iff] at hr
    obtain ⟨fa, rfl, hr⟩ := hr
    have ha' := ha fa rfl
    simp only [Alg.real] at hx
    split_ifs at hx with hcond
    simp only [Option.some.injEq] at hx
    subst hx
    simp only [Alg.rf] at hr
    split_ifs at hr with hn h0
    · have := RF.Rep_powM ha' _ _ hr
      rwa [← zpow_natCast, Int.toNat_of_nonneg hn] at this
    · have hn' : n < 0 := not_le.1 hn
      have ha0 : a ≠ 0 := fun h => hcond ⟨hn', h⟩
      have := RF.Rep_powM (RF.Rep_inv ha' ha0) _ _ hr
      rwa [← zpow_natCast, Int.toNat_of_nonneg (by omega), inv_zpow', neg_neg] at this
  chi := by
    intro a oa b ob c oc x _ _ _ _
    refine ⟨_, rfl, ?_⟩
    intro f hf
    simp only [Option.bind_eq_some_iff] at hf
    obtain ⟨_, _, _, _, _, _, hf⟩ := hf
    simp [Alg.rf] at hf

/-! ## 4. the normal form of a DAG denotes its real value -/

/-- the valuation defined by a (flattened) real environment -/
noncomputable def valOf (ρ : List ℝ) : ℕ → ℝ := fun k => ρ.getD k 0

theorem valOf_set (ρ : List ℝ) {j : ℕ} (hj : j < ρ.length) (s : ℝ) :
    valOf (ρ.set j s) = Function.update (valOf ρ) j s := by
  funext k
  simp only [valOf, List.getD_eq_getElem?_getD, List.getElem?_set, Function.update_apply]
  by_cases hk : k = j
  · subst hk
    simp [hj]
  · rw [if_neg (Ne.symm hk), if_neg hk]

theorem valOf_getElem? {ρ : List ℝ} {k : ℕ} {x : ℝ} (h : ρ[k]? = some x) : valOf ρ k = x := by
  simp [valOf, List.getD_eq_getElem?_getD, h]

/-- the real environment `ρ` consists of the values of the variables `x₀, x₁, …` -/
theorem env_rel (ρ : List ℝ) :
    Forall₂ (RepO (valOf ρ)) ρ ((Equiv.vars ρ.length).map some) := by
  rw [forall₂_iff_get]
  refine ⟨by simp [Equiv.vars], ?_⟩
  intro i h1 h2 f hf
  simp only [Equiv.vars, List.get_eq_getElem, List.getElem_map, List.getElem_range,
    Option.some.injEq] at hf
  subst hf
  have : valOf ρ i = ρ[i] := valOf_getElem? (by simp [h1])
  simpa [this] using RF.Rep_var (ρ := valOf ρ) i

theorem forall₂_rsome {α : Type} (l : List α) : Forall₂ RSome l (l.map some) := by
  rw [forall₂_map_right_iff]
  exact forall₂_same.2 fun _ _ => rfl

theorem forall₂_rsome_eq {α : Type} {l : List α} {l' : List (Option α)} (h : Forall₂ RSome l l') :
    l' = l.map some := by
  induction h with
  | nil => rfl
  | cons hab _ ih => rw [hab, ih]; rfl

/-- **The normal form denotes the real value**: if the DAG has a normal form `F` (matrix of
    rational functions) and its real evaluation at `ρ` is defined with value `v`, then `v` and `F`
    have the same shape, no denominator of `F` vanishes at `ρ`, and every entry of `v` is the
    value at `ρ` of the corresponding entry of `F`. -/
theorem nf_real {B : ℕ} {funs : List Dag} {dag : Dag} {n : ℕ} {F : Mat RF} {ρ : List ℝ} {v : Mat ℝ}
    (hn : ρ.length = n) (hF : Equiv.nf B funs dag n = some F)
    (hv : Eval.root Alg.real ρ (Eval.buildCalls Alg.real funs) dag = some v) :
    MatRel (RF.Rep (valOf ρ)) v F := by
  subst hn
  obtain ⟨O, hO, hFO⟩ := Eval.root_rel_total (Alg.totalize_rel (Alg.rf B)) (forall₂_rsome _)
    (Eval.buildCalls_rel_total (Alg.totalize_rel (Alg.rf B)) funs
      (fun _ _ n _ => Alg.totalize_supp _ n))
    (fun n _ => Alg.totalize_supp _ n) hF
  have hvO := Eval.root_rel (Alg.real_rfT B (valOf ρ)) (env_rel ρ)
    (Eval.buildCalls_rel (Alg.real_rfT B (valOf ρ)) funs) hv hO
  obtain ⟨hr, hc, hd⟩ := hvO
  obtain ⟨hr', hc', hd'⟩ := hFO
  refine ⟨hr.trans hr'.symm, hc.trans hc'.symm, ?_⟩
  rw [forall₂_rsome_eq hd', forall₂_map_right_iff] at hd
  exact hd.imp fun x f h => h f rfl

/-- entry-wise test accepted ⇒ the represented real lists are equal -/
theorem eqvList_sound {B : ℕ} {ρ : ℕ → ℝ} : ∀ {as bs : List RF} {xs ys : List ℝ},
    Equiv.eqvList B as bs = some true → Forall₂ (RF.Rep ρ) xs as → Forall₂ (RF.Rep ρ) ys bs → xs = ys
  | [], [], _, _, _, hx, hy => by
    rw [forall₂_nil_right_iff] at hx hy
    rw [hx, hy]
  | [], _ :: _, _, _, h, _, _ => by simp [Equiv.eqvList] at h
  | _ :: _, [], _, _, h, _, _ => by simp [Equiv.eqvList] at h
  | a :: as, b :: bs, _, _, h, hx, hy => by
    rw [forall₂_cons_right_iff] at hx hy
    obtain ⟨x, xs, hxa, hxs, rfl⟩ := hx
    obtain ⟨y, ys, hyb, hys, rfl⟩ := hy
    simp only [Equiv.eqvList] at h
    split at h
    · exact absurd h (by simp)
    · exact absurd h (by simp)
    · rename_i he
      rw [RF.eqv_sound he hxa hyb, eqvList_sound h hxs hys]

/-- entry-wise test accepted ⇒ corresponding entries pass the cross-multiplication test -/
theorem eqvList_getElem? {B : ℕ} : ∀ {as bs : List RF} (k : ℕ) {a : RF},
    Equiv.eqvList B as bs = some true → as[k]? = some a →
      ∃ b, bs[k]? = some b ∧ RF.eqv B a b = some true
  | [], _, _, _, _, hk => by simp at hk
  | _ :: _, [], _, _, h, _ => by simp [Equiv.eqvList] at h
  | a :: as, b :: bs, k, a', h, hk => by
    simp only [Equiv.eqvList] at h
    split at h
    · exact absurd h (by simp)
    · exact absurd h (by simp)
    · rename_i he
      cases k with
      | zero =>
        simp only [List.getElem?_cons_zero, Option.some.injEq] at hk
        subst hk
        exact ⟨b, by simp, he⟩
      | succ k =>
        simp only [List.getElem?_cons_succ] at hk ⊢
        exact eqvList_getElem? k h hk

/-- position of `∂fᵢ/∂xⱼ` in the flattened Jacobian -/
theorem jac_getElem? (n : ℕ) : ∀ (fs : List RF) (i j : ℕ) {f : RF}, fs[i]? = some f → j < n →
    (Equiv.jac n fs)[i * n + j]? = some (RF.deriv j f)
  | [], _, _, _, h, _ => by simp at h
  | g :: fs, 0, j, f, h, hj => by
    simp only [List.getElem?_cons_zero, Option.some.injEq] at h
    subst h
    simp only [Equiv.jac, List.flatMap_cons, Nat.zero_mul, Nat.zero_add]
    rw [List.getElem?_append_left (by simpa using hj)]
    simp [hj]
  | g :: fs, i + 1, j, f, h, hj => by
    simp only [List.getElem?_cons_succ] at h
    have ih := jac_getElem? n fs i j h hj
    simp only [Equiv.jac, List.flatMap_cons] at ih ⊢
    rw [List.getElem?_append_right (by simp; nlinarith)]
    have : (i + 1) * n + j - (List.map (fun j => RF.deriv j g) (List.range n)).length = i * n + j := by
      simp only [List.length_map, List.length_range]
      rw [Nat.add_mul, Nat.one_mul]
      omega
    rw [this]
    exact ih

end Ibex
