/-
  C19 — semantics of the combinator model over real points.

  `Mem p b`  : the real point `p` belongs to the box `b`.
  `BSub a b` : `a` is component-wise a sub-box of `b` (structural, implies inclusion of point sets).
  `CtcOK c S`: the contractor contract w.r.t. the set `S`:
      * the result is a sub-box of the input,
      * no point of `S` is removed,
      * the INACTIVE flag is raised only if nothing was removed.
  All combinator theorems quantify over arbitrary sub-contractors meeting the contract.
-/
import IbexModel
import IbexProofs.Basic
import IbexProofs.Arith
import IbexProofs.Arith2
import Mathlib.Data.List.Forall2
import Mathlib.Data.Set.Basic

namespace Ibex.C19
open Ibex Ibex.Comb

abbrev Pt := List ℝ

/-- the real point `p` belongs to the box `b` (same dimension, component-wise membership) -/
def Mem (p : Pt) (b : Box) : Prop := List.Forall₂ (fun (v : ℝ) (I : Itv) => v ∈ I) p b

/-- structural inclusion of boxes, component by component -/
def BSub (a b : Box) : Prop := List.Forall₂ (fun I J => Itv.subset I J = true) a b

/-! ### intervals -/

theorem Itv.subset_refl (I : Itv) : Itv.subset I I = true := by
  cases I with
  | empty => rfl
  | mk a b => simp [Itv.subset, Ext.le_iff]

theorem Itv.subset_trans {I J K : Itv} (h1 : Itv.subset I J = true) (h2 : Itv.subset J K = true) :
    Itv.subset I K = true := by
  cases I with
  | empty => rfl
  | mk a b =>
    cases J with
    | empty => simp [Itv.subset] at h1
    | mk c d =>
      cases K with
      | empty => simp [Itv.subset] at h2
      | mk e f =>
        simp only [Itv.subset, Bool.and_eq_true, Ext.le_iff] at *
        exact ⟨le_trans h2.1 h1.1, le_trans h1.2 h2.2⟩

theorem Itv.empty_subset (J : Itv) : Itv.subset .empty J = true := rfl

theorem Itv.ofBounds_subset {lo hi : Ext} {J : Itv} (h : Itv.subset (.mk lo hi) J = true) :
    Itv.subset (Itv.ofBounds lo hi) J = true := by
  unfold Itv.ofBounds; split
  · exact h
  · rfl

theorem Itv.inter_subset_left (I J : Itv) : Itv.subset (Itv.inter I J) I = true := by
  cases I with
  | empty => rfl
  | mk a b =>
    cases J with
    | empty => rfl
    | mk c d =>
      apply Itv.ofBounds_subset
      simp only [Itv.subset, Bool.and_eq_true, Ext.le_iff, Ext.toE_max, Ext.toE_min]
      exact ⟨le_max_left _ _, min_le_left _ _⟩

theorem Itv.inter_subset_right (I J : Itv) : Itv.subset (Itv.inter I J) J = true := by
  cases I with
  | empty => rfl
  | mk a b =>
    cases J with
    | empty => rfl
    | mk c d =>
      apply Itv.ofBounds_subset
      simp only [Itv.subset, Bool.and_eq_true, Ext.le_iff, Ext.toE_max, Ext.toE_min]
      exact ⟨le_max_right _ _, min_le_right _ _⟩

theorem Itv.hull_subset {I J K : Itv} (h1 : Itv.subset I K = true) (h2 : Itv.subset J K = true) :
    Itv.subset (Itv.hull I J) K = true := by
  cases I with
  | empty => simpa [Itv.hull] using h2
  | mk a b =>
    cases J with
    | empty => simpa [Itv.hull] using h1
    | mk c d =>
      cases K with
      | empty => simp [Itv.subset] at h1
      | mk e f =>
        simp only [Itv.hull, Itv.subset, Bool.and_eq_true, Ext.le_iff, Ext.toE_max, Ext.toE_min] at *
        exact ⟨le_min h1.1 h2.1, max_le h1.2 h2.2⟩

theorem Itv.mem_inter {v : ℝ} {I J : Itv} (h1 : v ∈ I) (h2 : v ∈ J) : v ∈ Itv.inter I J := by
  cases I with
  | empty => exact absurd h1 (Itv.not_mem_empty v)
  | mk a b =>
    cases J with
    | empty => exact absurd h2 (Itv.not_mem_empty v)
    | mk c d =>
      have h1' := (Itv.mem_mk v a b).1 h1
      have h2' := (Itv.mem_mk v c d).1 h2
      have hlo : (Ext.max a c).toE ≤ (v : EReal) := by rw [Ext.toE_max]; exact max_le h1'.1 h2'.1
      have hhi : (v : EReal) ≤ (Ext.min b d).toE := by rw [Ext.toE_min]; exact le_min h1'.2 h2'.2
      have hc : (Ext.le (Ext.max a c) (Ext.min b d) && (Ext.max a c != .pinf) && (Ext.min b d != .ninf)) = true := by
        simp only [Bool.and_eq_true, bne_iff_ne, ne_eq]
        refine ⟨⟨(Ext.le_iff _ _).2 (le_trans hlo hhi), ?_⟩, ?_⟩
        · intro h; rw [h] at hlo; simp at hlo
        · intro h; rw [h] at hhi; simp at hhi
      simp only [Itv.inter, Itv.ofBounds, hc, if_true]
      exact ⟨hlo, hhi⟩

theorem Itv.mem_hull_left {v : ℝ} {I : Itv} (J : Itv) (h : v ∈ I) : v ∈ Itv.hull I J := by
  cases I with
  | empty => exact absurd h (Itv.not_mem_empty v)
  | mk a b =>
    cases J with
    | empty => exact h
    | mk c d =>
      have h' := (Itv.mem_mk v a b).1 h
      refine (Itv.mem_mk _ _ _).2 ⟨?_, ?_⟩
      · rw [Ext.toE_min]; exact le_trans (min_le_left _ _) h'.1
      · rw [Ext.toE_max]; exact le_trans h'.2 (le_max_left _ _)

theorem Itv.mem_hull_right {v : ℝ} (I : Itv) {J : Itv} (h : v ∈ J) : v ∈ Itv.hull I J := by
  cases J with
  | empty => exact absurd h (Itv.not_mem_empty v)
  | mk c d =>
    cases I with
    | empty => exact h
    | mk a b =>
      have h' := (Itv.mem_mk v c d).1 h
      refine (Itv.mem_mk _ _ _).2 ⟨?_, ?_⟩
      · rw [Ext.toE_min]; exact le_trans (min_le_right _ _) h'.1
      · rw [Ext.toE_max]; exact le_trans h'.2 (le_max_right _ _)

theorem Itv.intersects_of_mem {v : ℝ} {I J : Itv} (h1 : v ∈ I) (h2 : v ∈ J) : Itv.intersects I J = true := by
  cases I with
  | empty => exact absurd h1 (Itv.not_mem_empty v)
  | mk a b =>
    cases J with
    | empty => exact absurd h2 (Itv.not_mem_empty v)
    | mk c d =>
      have h1' := (Itv.mem_mk v a b).1 h1
      have h2' := (Itv.mem_mk v c d).1 h2
      simp only [Itv.intersects, Bool.and_eq_true, Ext.le_iff]
      exact ⟨le_trans h1'.1 h2'.2, le_trans h2'.1 h1'.2⟩

/-! ### boxes -/

theorem Mem.length_eq {p : Pt} {b : Box} (h : Mem p b) : p.length = b.length := List.Forall₂.length_eq h
theorem BSub.length_eq {a b : Box} (h : BSub a b) : a.length = b.length := List.Forall₂.length_eq h

theorem BSub.refl (a : Box) : BSub a a := by
  induction a with
  | nil => exact List.Forall₂.nil
  | cons I a ih => exact List.Forall₂.cons (Itv.subset_refl I) ih

theorem BSub.trans {a b c : Box} (h1 : BSub a b) (h2 : BSub b c) : BSub a c := by
  induction h1 generalizing c with
  | nil => cases h2; exact List.Forall₂.nil
  | cons hI _ ih =>
    cases h2 with
    | cons hJ h2' => exact List.Forall₂.cons (Itv.subset_trans hI hJ) (ih h2')

theorem BSub.mem {a b : Box} (h : BSub a b) {p : Pt} (hp : Mem p a) : Mem p b := by
  induction h generalizing p with
  | nil => exact hp
  | cons hI _ ih =>
    cases hp with
    | cons hv hp' => exact List.Forall₂.cons (Itv.mem_of_subset hI hv) (ih hp')

theorem not_mem_of_isEmpty {b : Box} (h : Box.isEmpty b = true) (p : Pt) : ¬ Mem p b := by
  intro hp
  induction hp with
  | nil => simp [Box.isEmpty] at h
  | @cons v I p' b' hv _ ih =>
    simp only [Box.isEmpty, List.any_cons, Bool.or_eq_true] at h
    rcases h with h | h
    · cases I with
      | empty => exact Itv.not_mem_empty v hv
      | mk a b => simp [Itv.isEmpty] at h
    · exact ih h

theorem emptyLike_length (x : Box) : (emptyLike x).length = x.length := by simp [emptyLike]

theorem BSub_emptyLike_of_length {x y : Box} (h : x.length = y.length) : BSub (emptyLike x) y := by
  induction x generalizing y with
  | nil => cases y with
    | nil => exact List.Forall₂.nil
    | cons _ _ => simp at h
  | cons I x ih =>
    cases y with
    | nil => simp at h
    | cons J y => exact List.Forall₂.cons rfl (ih (by simpa using h))

theorem BSub_emptyLike (x : Box) : BSub (emptyLike x) x := BSub_emptyLike_of_length rfl

theorem norm_length (x : Box) : (norm x).length = x.length := by
  unfold norm; split <;> simp [emptyLike]

theorem BSub_norm (x : Box) : BSub (norm x) x := by
  unfold norm; split
  · exact BSub_emptyLike x
  · exact BSub.refl x

theorem mem_norm {p : Pt} {x : Box} (h : Mem p x) : Mem p (norm x) := by
  unfold norm; split
  · rename_i he; exact absurd h (not_mem_of_isEmpty he p)
  · exact h

theorem BSub_zipWith_inter_left : ∀ {x y : Box}, x.length = y.length → BSub (List.zipWith Itv.inter x y) x
  | [], [], _ => List.Forall₂.nil
  | [], _ :: _, h => by simp at h
  | _ :: _, [], h => by simp at h
  | I :: x, J :: y, h => List.Forall₂.cons (Itv.inter_subset_left I J) (BSub_zipWith_inter_left (by simpa using h))

theorem BSub_zipWith_inter_right : ∀ {x y : Box}, x.length = y.length → BSub (List.zipWith Itv.inter x y) y
  | [], [], _ => List.Forall₂.nil
  | [], _ :: _, h => by simp at h
  | _ :: _, [], h => by simp at h
  | I :: x, J :: y, h => List.Forall₂.cons (Itv.inter_subset_right I J) (BSub_zipWith_inter_right (by simpa using h))

theorem binter_length (x y : Box) : (binter x y).length = x.length := by
  unfold binter; split
  · rename_i h; rw [norm_length]; simp [Box.inter, h]
  · exact emptyLike_length x

theorem BSub_binter_left (x y : Box) : BSub (binter x y) x := by
  unfold binter; split
  · rename_i h; exact (BSub_norm _).trans (BSub_zipWith_inter_left h)
  · exact BSub_emptyLike x

theorem BSub_binter_right {x y : Box} (h : x.length = y.length) : BSub (binter x y) y := by
  unfold binter; rw [if_pos h]
  exact (BSub_norm _).trans (BSub_zipWith_inter_right h)

theorem mem_zipWith_inter {p : Pt} {x y : Box} (hx : Mem p x) (hy : Mem p y) :
    Mem p (List.zipWith Itv.inter x y) := by
  induction hx generalizing y with
  | nil => cases hy; exact List.Forall₂.nil
  | cons hv _ ih =>
    cases hy with
    | cons hw hy' => exact List.Forall₂.cons (Itv.mem_inter hv hw) (ih hy')

theorem mem_binter {p : Pt} {x y : Box} (hx : Mem p x) (hy : Mem p y) : Mem p (binter x y) := by
  unfold binter
  rw [if_pos (hx.length_eq.symm.trans hy.length_eq)]
  exact mem_norm (mem_zipWith_inter hx hy)

theorem mem_zipWith_hull_left {p : Pt} {a b : Box} (ha : Mem p a) (hl : a.length = b.length) :
    Mem p (List.zipWith Itv.hull a b) := by
  induction ha generalizing b with
  | nil => cases b with
    | nil => exact List.Forall₂.nil
    | cons _ _ => simp at hl
  | cons hv _ ih =>
    cases b with
    | nil => simp at hl
    | cons J b => exact List.Forall₂.cons (Itv.mem_hull_left J hv) (ih (by simpa using hl))

theorem mem_zipWith_hull_right {p : Pt} {a b : Box} (hb : Mem p b) (hl : a.length = b.length) :
    Mem p (List.zipWith Itv.hull a b) := by
  induction hb generalizing a with
  | nil => cases a with
    | nil => exact List.Forall₂.nil
    | cons _ _ => simp at hl
  | cons hv _ ih =>
    cases a with
    | nil => simp at hl
    | cons I a => exact List.Forall₂.cons (Itv.mem_hull_right I hv) (ih (by simpa using hl))

theorem mem_hull_left {p : Pt} {a b : Box} (ha : Mem p a) (hl : a.length = b.length) : Mem p (Box.hull a b) := by
  unfold Box.hull
  split
  · rename_i he; exact absurd ha (not_mem_of_isEmpty he p)
  · split
    · exact ha
    · exact mem_zipWith_hull_left ha hl

theorem mem_hull_right {p : Pt} {a b : Box} (hb : Mem p b) (hl : a.length = b.length) : Mem p (Box.hull a b) := by
  unfold Box.hull
  split
  · exact hb
  · split
    · rename_i he; exact absurd hb (not_mem_of_isEmpty he p)
    · exact mem_zipWith_hull_right hb hl

theorem hull_length {a b : Box} (h : a.length = b.length) : (Box.hull a b).length = a.length := by
  unfold Box.hull; split
  · exact h.symm
  · split
    · rfl
    · simp [h]

theorem BSub_zipWith_hull {a b x : Box} (ha : BSub a x) (hb : BSub b x) : BSub (List.zipWith Itv.hull a b) x := by
  induction ha generalizing b with
  | nil => cases hb; exact List.Forall₂.nil
  | cons hI _ ih =>
    cases hb with
    | cons hJ hb' => exact List.Forall₂.cons (Itv.hull_subset hI hJ) (ih hb')

theorem BSub_hull {a b x : Box} (ha : BSub a x) (hb : BSub b x) : BSub (Box.hull a b) x := by
  unfold Box.hull
  split
  · exact hb
  · split
    · exact ha
    · exact BSub_zipWith_hull ha hb

theorem mem_of_all2_subset {p : Pt} {x b : Box} (h : Box.all2 Itv.subset x b = true) (hp : Mem p x) : Mem p b := by
  induction hp generalizing b with
  | nil => cases b with
    | nil => exact List.Forall₂.nil
    | cons _ _ => simp [Box.all2] at h
  | cons hv _ ih =>
    cases b with
    | nil => simp [Box.all2] at h
    | cons J b =>
      simp only [Box.all2, Bool.and_eq_true] at h
      exact List.Forall₂.cons (Itv.mem_of_subset h.1 hv) (ih h.2)

theorem mem_of_subset {p : Pt} {x b : Box} (h : Box.subset x b = true) (hp : Mem p x) : Mem p b := by
  simp only [Box.subset, Bool.or_eq_true, Bool.and_eq_true] at h
  rcases h with h | h
  · exact absurd hp (not_mem_of_isEmpty h p)
  · exact mem_of_all2_subset h.2 hp

theorem all2_intersects_of_mem {p : Pt} {x b : Box} (hx : Mem p x) (hb : Mem p b) :
    Box.all2 Itv.intersects x b = true := by
  induction hx generalizing b with
  | nil => cases hb; rfl
  | cons hv _ ih =>
    cases hb with
    | cons hw hb' =>
      simp only [Box.all2, Bool.and_eq_true]
      exact ⟨Itv.intersects_of_mem hv hw, ih hb'⟩

theorem not_mem_of_isDisjoint {p : Pt} {x b : Box} (h : Box.isDisjoint x b = true) (hx : Mem p x) : ¬ Mem p b := by
  intro hb
  have hx' : Box.isEmpty x = false := by
    cases hh : Box.isEmpty x with
    | false => rfl
    | true => exact absurd hx (not_mem_of_isEmpty hh p)
  have hb' : Box.isEmpty b = false := by
    cases hh : Box.isEmpty b with
    | false => rfl
    | true => exact absurd hb (not_mem_of_isEmpty hh p)
  simp [Box.isDisjoint, Box.intersects, hx', hb', all2_intersects_of_mem hx hb] at h

theorem boxEq_mem {a b : Box} (h : boxEq a b = true) {p : Pt} (hp : Mem p a) : Mem p b := by
  simp only [boxEq, Bool.or_eq_true, Bool.and_eq_true] at h
  rcases h with h | h
  · exact absurd hp (not_mem_of_isEmpty h.1 p)
  · have : a = b := by simpa using h
    exact this ▸ hp

/-! ### the contractor contract -/

structure CtcOK (c : CtcFn) (S : Set Pt) : Prop where
  /-- the result is a sub-box of the input (whatever the impact) -/
  sub : ∀ x imp, BSub (c x imp).box x
  /-- no point of the set is lost -/
  sound : ∀ x imp p, Mem p x → p ∈ S → Mem p (c x imp).box
  /-- INACTIVE is reported only if nothing is removed -/
  inact : ∀ x imp, (c x imp).fl.inact = true → ∀ p, Mem p x → Mem p (c x imp).box

theorem CtcOK.mono {c : CtcFn} {S T : Set Pt} (h : CtcOK c S) (hTS : T ⊆ S) : CtcOK c T :=
  ⟨h.sub, fun x imp p hp hT => h.sound x imp p hp (hTS hT), h.inact⟩

theorem CtcOK.contracting {c : CtcFn} {S : Set Pt} (h : CtcOK c S) (x : Box) (imp : Imp) (p : Pt)
    (hp : Mem p (c x imp).box) : Mem p x := (h.sub x imp).mem hp

/-! ### synthetic leaves -/

def unionSet (U : List Box) : Set Pt := {p | ∃ b ∈ U, Mem p b}

theorem BSub_ctcU_aux (x : Box) : ∀ (U : List Box) (acc : Box), BSub acc x →
    BSub (U.foldl (fun acc b => Box.hull acc (binter x b)) acc) x
  | [], _, h => h
  | b :: U, acc, h => BSub_ctcU_aux x U _ (BSub_hull h (BSub_binter_left x b))

theorem mem_ctcU_aux (x : Box) (p : Pt) (hx : Mem p x) : ∀ (U : List Box) (acc : Box), acc.length = x.length →
    (Mem p acc ∨ ∃ b ∈ U, Mem p b) → Mem p (U.foldl (fun acc b => Box.hull acc (binter x b)) acc)
  | [], acc, _, h => by
    rcases h with h | ⟨b, hb, _⟩
    · exact h
    · simp at hb
  | b :: U, acc, hl, h => by
    have hl' : acc.length = (binter x b).length := by rw [binter_length]; exact hl
    have hl'' : (Box.hull acc (binter x b)).length = x.length := (hull_length hl').trans hl
    apply mem_ctcU_aux x p hx U _ hl''
    rcases h with h | ⟨b', hb', hp'⟩
    · exact Or.inl (mem_hull_left h hl')
    · rcases List.mem_cons.1 hb' with rfl | hb''
      · exact Or.inl (mem_hull_right (mem_binter hx hp') hl')
      · exact Or.inr ⟨b', hb'', hp'⟩

theorem leaf_ok (L : LeafCfg) : CtcOK (leafF L) (unionSet L.boxes) where
  sub x _ := BSub_ctcU_aux x L.boxes _ (BSub_emptyLike x)
  sound x _ p hp hS := mem_ctcU_aux x p hp L.boxes _ (emptyLike_length x) (Or.inr hS)
  inact x _ h p hp := by
    simp only [leafF, Bool.and_eq_true, List.any_eq_true] at h
    obtain ⟨_, b, hb, hsub⟩ := h
    exact mem_ctcU_aux x p hp L.boxes _ (emptyLike_length x) (Or.inr ⟨b, hb, mem_of_subset hsub hp⟩)

/-! ### CtcIdentity, CtcEmpty -/

theorem id_ok : CtcOK idF Set.univ where
  sub x _ := BSub.refl x
  sound _ _ _ hp _ := hp
  inact _ _ _ _ hp := hp

theorem empty_ok : CtcOK emptyF (∅ : Set Pt) where
  sub x _ := BSub_emptyLike x
  sound _ _ _ _ hS := absurd hS (Set.notMem_empty _)
  inact _ _ h := by simp [emptyF] at h

/-! ### CtcCompo: keeps every point kept by all the components -/

def interSets (Ss : List (Set Pt)) : Set Pt := {p | ∀ S ∈ Ss, p ∈ S}
def unionSets (Ss : List (Set Pt)) : Set Pt := {p | ∃ S ∈ Ss, p ∈ S}

theorem compoGo_ok {cs : List CtcFn} {Ss : List (Set Pt)} (h : List.Forall₂ CtcOK cs Ss) (impIn : Imp) :
    ∀ (box : Box) (ci : Imp) (inactive : Bool) (lf : Flags) (gu : Bool),
      BSub (compoGo impIn cs box ci inactive lf gu).box box ∧
      (∀ p, Mem p box → p ∈ interSets Ss → Mem p (compoGo impIn cs box ci inactive lf gu).box) ∧
      ((compoGo impIn cs box ci inactive lf gu).fl.inact = true →
        inactive = true ∧ ∀ p, Mem p box → Mem p (compoGo impIn cs box ci inactive lf gu).box) := by
  induction h with
  | nil =>
    intro box ci inactive lf gu
    refine ⟨BSub.refl box, fun p hp _ => hp, ?_⟩
    intro hi
    cases inactive with
    | true => exact ⟨rfl, fun p hp => hp⟩
    | false => simp [compoGo] at hi
  | @cons c S cs Ss hc _ ih =>
    intro box ci inactive lf gu
    by_cases he : Box.isEmpty (c box ci).box = true
    · simp only [compoGo, he, if_true]
      refine ⟨BSub_emptyLike box, ?_, ?_⟩
      · intro p hp hS
        exact absurd (hc.sound box ci p hp (hS S (List.mem_cons_self ..))) (not_mem_of_isEmpty he p)
      · intro hi; simp at hi
    · simp only [compoGo, he]
      obtain ⟨h1, h2, h3⟩ := ih (c box ci).box (c box ci).imp (inactive && (c box ci).fl.inact) (c box ci).fl (gu || (c box ci).fl.gaveUp)
      refine ⟨h1.trans (hc.sub box ci), ?_, ?_⟩
      · intro p hp hS
        exact h2 p (hc.sound box ci p hp (hS S (List.mem_cons_self ..))) (fun T hT => hS T (List.mem_cons_of_mem _ hT))
      · intro hi
        obtain ⟨hia, hk⟩ := h3 hi
        simp only [Bool.and_eq_true] at hia
        exact ⟨hia.1, fun p hp => hk p (hc.inact box ci hia.2 p hp)⟩

/-- composition: every point kept by all the components is kept; the result is a sub-box -/
theorem compo_ok {cs : List CtcFn} {Ss : List (Set Pt)} (h : List.Forall₂ CtcOK cs Ss) :
    CtcOK (compoF cs) (interSets Ss) where
  sub x imp := (compoGo_ok h imp x (allImp x) true {} false).1
  sound x imp p hp hS := (compoGo_ok h imp x (allImp x) true {} false).2.1 p hp hS
  inact x imp hi p hp := ((compoGo_ok h imp x (allImp x) true {} false).2.2 hi).2 p hp

/-! ### CtcUnion: keeps every point kept by at least one component -/

theorem unionGo_ok {cs : List CtcFn} {Ss : List (Set Pt)} (h : List.Forall₂ CtcOK cs Ss) (x : Box) (imp : Imp) :
    ∀ (res : Box) (gu : Bool), BSub res x →
      BSub (unionGo x imp cs res gu).box x ∧
      (∀ p, Mem p x → (Mem p res ∨ p ∈ unionSets Ss) → Mem p (unionGo x imp cs res gu).box) ∧
      ((unionGo x imp cs res gu).fl.inact = true → ∀ p, Mem p x → Mem p (unionGo x imp cs res gu).box) := by
  induction h with
  | nil =>
    intro res gu hres
    refine ⟨hres, ?_, ?_⟩
    · intro p _ hp
      rcases hp with hp | ⟨S, hS, _⟩
      · exact hp
      · simp at hS
    · intro hi; simp [unionGo] at hi
  | @cons c S cs Ss hc _ ih =>
    intro res gu hres
    have hsub := hc.sub x imp
    have hl : res.length = (c x imp).box.length := hres.length_eq.trans hsub.length_eq.symm
    have hres' : BSub (Box.hull res (c x imp).box) x := BSub_hull hres hsub
    by_cases hi : (c x imp).fl.inact = true
    · simp only [unionGo, hi, if_true]
      refine ⟨hres', ?_, ?_⟩
      · intro p hp _
        exact mem_hull_right (hc.inact x imp hi p hp) hl
      · intro _ p hp
        exact mem_hull_right (hc.inact x imp hi p hp) hl
    · simp only [unionGo, hi]
      obtain ⟨h1, h2, h3⟩ := ih (Box.hull res (c x imp).box) (gu || (c x imp).fl.gaveUp) hres'
      refine ⟨h1, ?_, h3⟩
      intro p hp hS
      apply h2 p hp
      rcases hS with hS | ⟨T, hT, hpT⟩
      · exact Or.inl (mem_hull_left hS hl)
      · rcases List.mem_cons.1 hT with rfl | hT'
        · exact Or.inl (mem_hull_right (hc.sound x imp p hp hpT) hl)
        · exact Or.inr ⟨T, hT', hpT⟩

/-- union: every point kept by at least one component is kept; the result is a sub-box -/
theorem union_ok {cs : List CtcFn} {Ss : List (Set Pt)} (h : List.Forall₂ CtcOK cs Ss) :
    CtcOK (unionF cs) (unionSets Ss) where
  sub x imp := (unionGo_ok h x imp (emptyLike x) false (BSub_emptyLike x)).1
  sound x imp p hp hS := (unionGo_ok h x imp (emptyLike x) false (BSub_emptyLike x)).2.1 p hp (Or.inr hS)
  inact x imp hi p hp := (unionGo_ok h x imp (emptyLike x) false (BSub_emptyLike x)).2.2 hi p hp

/-! ### CtcFixPoint: any number of iterations, any ratio -/

theorem fixGo_ok {c : CtcFn} {S : Set Pt} (hc : CtcOK c S) (ratio : Ext) (init : Box) :
    ∀ (n : Nat) (box : Box) (ci : Imp) (gu : Bool),
      BSub (fixGo c ratio init n box ci gu).box box ∧
      (∀ p, Mem p box → p ∈ S → Mem p (fixGo c ratio init n box ci gu).box) ∧
      ((fixGo c ratio init n box ci gu).fl.inact = true → boxEq init (fixGo c ratio init n box ci gu).box = true) := by
  intro n
  induction n with
  | zero =>
    intro box ci gu
    refine ⟨BSub.refl box, fun p hp _ => hp, ?_⟩
    intro hi; simp [fixGo] at hi
  | succ n ih =>
    intro box ci gu
    cases he : Box.isEmpty (c box ci).box with
    | true =>
      simp only [fixGo, he, if_true]
      refine ⟨BSub_emptyLike box, ?_, ?_⟩
      · intro p hp hS
        exact absurd (hc.sound box ci p hp hS) (not_mem_of_isEmpty he p)
      · intro hi
        simp only [Bool.and_eq_true] at hi
        exact hi.2
    | false =>
      simp only [fixGo, he, Bool.false_eq_true, if_false]
      by_cases hcont : (!(c box ci).fl.fix && !(c box ci).fl.inact && Ext.lt ratio (relDist box (c box ci).box)) = true
      · rw [if_pos hcont]
        obtain ⟨h1, h2, h3⟩ := ih (c box ci).box (List.zipWith (fun a b => a != b) (c box ci).box box) (gu || (c box ci).fl.gaveUp)
        exact ⟨h1.trans (hc.sub box ci), fun p hp hS => h2 p (hc.sound box ci p hp hS) hS, h3⟩
      · rw [if_neg hcont]
        refine ⟨hc.sub box ci, fun p hp hS => hc.sound box ci p hp hS, ?_⟩
        intro hi
        simp only [Bool.and_eq_true] at hi
        exact hi.2

/-- fix-point: every point the argument keeps is kept (any fuel, any ratio); sub-box -/
theorem fix_ok {c : CtcFn} {S : Set Pt} (hc : CtcOK c S) (fuel : Nat) (ratio : Ext) :
    CtcOK (fixF fuel c ratio) S where
  sub x imp := (fixGo_ok hc ratio x fuel x imp false).1
  sound x imp p hp hS := (fixGo_ok hc ratio x fuel x imp false).2.1 p hp hS
  inact x imp hi p hp := boxEq_mem ((fixGo_ok hc ratio x fuel x imp false).2.2 hi) hp

/-! ### CtcInteger: keeps the points whose masked components are integers -/

def intSet (mask : List Bool) : Set Pt :=
  {p | List.Forall₂ (fun (b : Bool) (v : ℝ) => b = true → ∃ n : ℤ, v = n) mask p}

theorem BSub_integerGo (mask : List Bool) (imp : Imp) (x : Box) : BSub (integerGo mask imp x) x := by
  induction x generalizing mask imp with
  | nil => cases mask <;> cases imp <;> simp [integerGo] <;> exact List.Forall₂.nil
  | cons I xs ih =>
    cases mask with
    | nil => simp only [integerGo]; exact BSub.refl _
    | cons m ms =>
      cases imp with
      | nil => simp only [integerGo]; exact BSub.refl _
      | cons i is =>
        simp only [integerGo]
        refine List.Forall₂.cons ?_ (ih ms is)
        split
        · exact Itv.inter_subset_left _ _
        · exact Itv.subset_refl _

theorem mem_integerGo {p : Pt} {x : Box} (hp : Mem p x) :
    ∀ (mask : List Bool) (imp : Imp), p ∈ intSet mask → Mem p (integerGo mask imp x) := by
  induction hp with
  | nil => intro mask imp _; cases mask <;> cases imp <;> simp [integerGo] <;> exact List.Forall₂.nil
  | @cons v I p' x' hv hp' ih =>
    intro mask imp hS
    cases mask with
    | nil => simp only [integerGo]; exact List.Forall₂.cons hv hp'
    | cons m ms =>
      cases imp with
      | nil => simp only [integerGo]; exact List.Forall₂.cons hv hp'
      | cons i is =>
        cases hS with
        | cons hm hS' =>
          simp only [integerGo]
          refine List.Forall₂.cons ?_ (ih ms is hS')
          split
          · rename_i hmi
            simp only [Bool.and_eq_true] at hmi
            exact Itv.mem_inter hv (Itv.integer_encl hv (hm hmi.1))
          · exact hv

/-- integer contractor: integer points (on the masked components) are kept; sub-box -/
theorem integer_ok (mask : List Bool) : CtcOK (integerF mask) (intSet mask) where
  sub x imp := by
    simp only [integerF]; split
    · exact BSub_emptyLike x
    · exact BSub_integerGo mask imp x
  sound x imp p hp hS := by
    have := mem_integerGo hp mask imp hS
    simp only [integerF]; split
    · rename_i he; exact absurd this (not_mem_of_isEmpty he p)
    · exact this
  inact x imp hi := by
    simp only [integerF] at hi; split at hi <;> simp at hi

/-! ### q-intersection: keeps every point that belongs to at least `q` of the sets -/

/-- the points that belong to at least `q` of the sets (a sub-list of `q` sets all containing the point) -/
def atLeast (q : Nat) (Ss : List (Set Pt)) : Set Pt :=
  {p | ∃ sub : List (Set Pt), sub.Sublist Ss ∧ sub.length = q ∧ ∀ S ∈ sub, p ∈ S}

theorem mem_choose {α : Type} {l sub : List α} (h : sub.Sublist l) : ∀ q, sub.length = q → sub ∈ choose q l := by
  induction h with
  | slnil => intro q hq; subst hq; simp [choose]
  | @cons sub l a _ ih =>
    intro q hq
    cases q with
    | zero =>
      have : sub = [] := List.length_eq_zero_iff.1 hq
      subst this; simp [choose]
    | succ k =>
      simp only [choose, List.mem_append]
      exact Or.inr (ih (k + 1) hq)
  | @cons_cons sub l a _ ih =>
    intro q hq
    cases q with
    | zero => simp at hq
    | succ k =>
      simp only [choose, List.mem_append, List.mem_map]
      exact Or.inl ⟨sub, ih k (by simpa using hq), rfl⟩

theorem sublist_forall₂ {α β : Type} {R : α → β → Prop} {as : List α} {bs : List β}
    (h : List.Forall₂ R as bs) : ∀ {subb : List β}, subb.Sublist bs →
      ∃ suba, suba.Sublist as ∧ List.Forall₂ R suba subb := by
  induction h with
  | nil => intro subb hs; cases hs; exact ⟨[], List.Sublist.slnil, List.Forall₂.nil⟩
  | @cons a b as bs hab _ ih =>
    intro subb hs
    cases hs with
    | cons _ hs' =>
      obtain ⟨suba, h1, h2⟩ := ih hs'
      exact ⟨suba, List.Sublist.cons a h1, h2⟩
    | cons_cons _ hs' =>
      obtain ⟨suba, h1, h2⟩ := ih hs'
      exact ⟨a :: suba, List.Sublist.cons_cons a h1, List.Forall₂.cons hab h2⟩

theorem BSub_interAll (x : Box) : ∀ (l : List Box) (acc : Box), BSub acc x → BSub (l.foldl binter acc) x
  | [], _, h => h
  | b :: l, acc, h => BSub_interAll x l _ ((BSub_binter_left acc b).trans h)

theorem mem_interAll {p : Pt} : ∀ (l : List Box) (acc : Box), Mem p acc → (∀ b ∈ l, Mem p b) →
    Mem p (l.foldl binter acc)
  | [], _, h, _ => h
  | b :: l, acc, h, hl =>
    mem_interAll l _ (mem_binter h (hl b (List.mem_cons_self ..))) (fun b' hb' => hl b' (List.mem_cons_of_mem _ hb'))

theorem BSub_foldl_hull {α : Type} (x : Box) (f : α → Box) (hf : ∀ a, BSub (f a) x) :
    ∀ (l : List α) (acc : Box), BSub acc x → BSub (l.foldl (fun acc a => Box.hull acc (f a)) acc) x
  | [], _, h => h
  | a :: l, acc, h => BSub_foldl_hull x f hf l _ (BSub_hull h (hf a))

theorem mem_foldl_hull {α : Type} (x : Box) (f : α → Box) (hf : ∀ a, BSub (f a) x) {p : Pt} :
    ∀ (l : List α) (acc : Box), BSub acc x → (Mem p acc ∨ ∃ a ∈ l, Mem p (f a)) →
      Mem p (l.foldl (fun acc a => Box.hull acc (f a)) acc)
  | [], acc, _, h => by
    rcases h with h | ⟨a, ha, _⟩
    · exact h
    · simp at ha
  | a :: l, acc, hacc, h => by
    have hl : acc.length = (f a).length := hacc.length_eq.trans (hf a).length_eq.symm
    apply mem_foldl_hull x f hf l _ (BSub_hull hacc (hf a))
    rcases h with h | ⟨a', ha', hp'⟩
    · exact Or.inl (mem_hull_left h hl)
    · rcases List.mem_cons.1 ha' with rfl | ha''
      · exact Or.inl (mem_hull_right hp' hl)
      · exact Or.inr ⟨a', ha'', hp'⟩

theorem BSub_qinterSpec (x : Box) (boxes : List Box) (q : Nat) : BSub (qinterSpec x boxes q) x :=
  BSub_foldl_hull x (interAll x) (fun sub => BSub_interAll x sub x (BSub.refl x)) _ _ (BSub_emptyLike x)

/-- the specification of the q-intersection keeps every point of `x` lying in `q` of the boxes -/
theorem mem_qinterSpec {x : Box} {boxes sub : List Box} {q : Nat} {p : Pt} (hx : Mem p x)
    (hs : sub.Sublist boxes) (hq : sub.length = q) (hp : ∀ b ∈ sub, Mem p b) : Mem p (qinterSpec x boxes q) :=
  mem_foldl_hull x (interAll x) (fun sub => BSub_interAll x sub x (BSub.refl x)) _ _ (BSub_emptyLike x)
    (Or.inr ⟨sub, mem_choose hs q hq, mem_interAll sub x hx hp⟩)

theorem forall₂_mem_left {α β : Type} {R : α → β → Prop} {as : List α} {bs : List β}
    (h : List.Forall₂ R as bs) : ∀ a ∈ as, ∃ b ∈ bs, R a b := by
  induction h with
  | nil => intro a ha; simp at ha
  | @cons a b as bs hab _ ih =>
    intro a' ha'
    rcases List.mem_cons.1 ha' with rfl | h'
    · exact ⟨b, List.mem_cons_self .., hab⟩
    · obtain ⟨b', hb', hr⟩ := ih a' h'
      exact ⟨b', List.mem_cons_of_mem _ hb', hr⟩

theorem qinter_boxes_rel {cs : List CtcFn} {Ss : List (Set Pt)} (h : List.Forall₂ CtcOK cs Ss) (x : Box) (imp : Imp) :
    List.Forall₂ (fun (b : Box) (S : Set Pt) => ∀ p, Mem p x → p ∈ S → Mem p b)
      ((cs.map fun c => c x imp).map (·.box)) Ss := by
  induction h with
  | nil => exact List.Forall₂.nil
  | cons hc _ ih => exact List.Forall₂.cons (fun p hp hS => hc.sound x imp p hp hS) ih

/-- q-intersection: every point belonging to at least `q` of the sets is kept; sub-box -/
theorem qinter_ok {cs : List CtcFn} {Ss : List (Set Pt)} (h : List.Forall₂ CtcOK cs Ss) (q : Nat) :
    CtcOK (qinterF cs q) (atLeast q Ss) where
  sub x imp := BSub_qinterSpec x _ q
  sound x imp p hp hS := by
    obtain ⟨subS, hsub, hlen, hall⟩ := hS
    obtain ⟨subB, hsB, hrel⟩ := sublist_forall₂ (qinter_boxes_rel h x imp) hsub
    refine mem_qinterSpec hp hsB (hrel.length_eq.trans hlen) ?_
    intro b hb
    obtain ⟨S, hS, hr⟩ := forall₂_mem_left hrel b hb
    exact hr p hp (hall S hS)
  inact x imp hi := by simp [qinterF] at hi

/-! ### predicates (three-valued) and `CtcEmpty(pdc)` -/

/-- what an answer claims about the points of `x` w.r.t. the set `S` -/
def PdcVal (r : BoolItv) (x : Box) (S : Set Pt) : Prop :=
  (r = .yes → ∀ q, Mem q x → q ∈ S) ∧ (r = .no → ∀ q, Mem q x → q ∉ S)

def PdcOK (t : PdcFn) (S : Set Pt) : Prop := ∀ x, PdcVal (t x) x S

theorem BoolItv.and_eq_yes {r t : BoolItv} (h : BoolItv.and r t = .yes) : r = .yes ∧ t = .yes := by
  cases r <;> cases t <;> simp [BoolItv.and] at h ⊢
theorem BoolItv.and_eq_no {r t : BoolItv} (h : BoolItv.and r t = .no) : r = .no ∨ t = .no := by
  cases r <;> cases t <;> simp [BoolItv.and] at h ⊢
theorem BoolItv.or_eq_yes {r t : BoolItv} (h : BoolItv.or r t = .yes) : r = .yes ∨ t = .yes := by
  cases r <;> cases t <;> simp [BoolItv.or] at h ⊢
theorem BoolItv.or_eq_no {r t : BoolItv} (h : BoolItv.or r t = .no) : r = .no ∧ t = .no := by
  cases r <;> cases t <;> simp [BoolItv.or] at h ⊢
theorem BoolItv.not_eq_yes {r : BoolItv} (h : BoolItv.not r = .yes) : r = .no := by
  cases r <;> simp [BoolItv.not] at h ⊢
theorem BoolItv.not_eq_no {r : BoolItv} (h : BoolItv.not r = .no) : r = .yes := by
  cases r <;> simp [BoolItv.not] at h ⊢

theorem PdcVal.and {r t : BoolItv} {x : Box} {A B : Set Pt} (h1 : PdcVal r x A) (h2 : PdcVal t x B) :
    PdcVal (BoolItv.and r t) x (A ∩ B) := by
  constructor
  · intro h q hq
    obtain ⟨hr, ht⟩ := BoolItv.and_eq_yes h
    exact ⟨h1.1 hr q hq, h2.1 ht q hq⟩
  · intro h q hq hAB
    rcases BoolItv.and_eq_no h with hr | ht
    · exact h1.2 hr q hq hAB.1
    · exact h2.2 ht q hq hAB.2

theorem PdcVal.or {r t : BoolItv} {x : Box} {A B : Set Pt} (h1 : PdcVal r x A) (h2 : PdcVal t x B) :
    PdcVal (BoolItv.or r t) x (A ∪ B) := by
  constructor
  · intro h q hq
    rcases BoolItv.or_eq_yes h with hr | ht
    · exact Or.inl (h1.1 hr q hq)
    · exact Or.inr (h2.1 ht q hq)
  · intro h q hq hAB
    obtain ⟨hr, ht⟩ := BoolItv.or_eq_no h
    exact hAB.elim (h1.2 hr q hq) (h2.2 ht q hq)

theorem PdcVal.not {r : BoolItv} {x : Box} {A : Set Pt} (h : PdcVal r x A) : PdcVal (BoolItv.not r) x Aᶜ :=
  ⟨fun hn q hq => h.2 (BoolItv.not_eq_yes hn) q hq, fun hn q hq hA => hA (h.1 (BoolItv.not_eq_no hn) q hq)⟩

/-- an accepted implementation answer (equal to the logical answer, or MAYBE) claims nothing false -/
theorem PdcVal.of_okFor {spec impl : BoolItv} {x : Box} {S : Set Pt} (h : BoolItv.okFor spec impl = true)
    (hs : PdcVal spec x S) : PdcVal impl x S := by
  simp only [BoolItv.okFor, Bool.or_eq_true, beq_iff_eq] at h
  rcases h with h | h
  · exact h ▸ hs
  · subst h; exact ⟨(fun h => nomatch h), (fun h => nomatch h)⟩

theorem pdcAnd_fold {ps : List PdcFn} {Ss : List (Set Pt)} (h : List.Forall₂ PdcOK ps Ss) (x : Box) :
    ∀ (r : BoolItv) (A : Set Pt), PdcVal r x A →
      PdcVal (ps.foldl (fun r p' => BoolItv.and r (p' x)) r) x (A ∩ interSets Ss) := by
  induction h with
  | nil =>
    intro r A hr
    have : A ∩ interSets [] = A := by ext q; simp [interSets]
    rw [this]; exact hr
  | @cons p S ps Ss hp _ ih =>
    intro r A hr
    have := ih (BoolItv.and r (p x)) (A ∩ S) (hr.and (hp x))
    have he : A ∩ interSets (S :: Ss) = (A ∩ S) ∩ interSets Ss := by
      ext q; simp only [interSets, Set.mem_inter_iff, Set.mem_setOf_eq, List.mem_cons, forall_eq_or_imp]; tauto
    rw [he]; exact this

theorem pdcAnd_ok {ps : List PdcFn} {Ss : List (Set Pt)} (h : List.Forall₂ PdcOK ps Ss) :
    PdcOK (pdcAndF ps) (interSets Ss) := by
  intro x
  cases h with
  | nil => exact ⟨fun _ q _ S hS => by simp at hS, fun h => by simp [pdcAndF] at h⟩
  | @cons p S ps Ss hp hps =>
    have := pdcAnd_fold hps x (p x) S (hp x)
    have he : interSets (S :: Ss) = S ∩ interSets Ss := by
      ext q; simp only [interSets, Set.mem_inter_iff, Set.mem_setOf_eq, List.mem_cons, forall_eq_or_imp]
    rw [he]; exact this

theorem pdcOr_fold {ps : List PdcFn} {Ss : List (Set Pt)} (h : List.Forall₂ PdcOK ps Ss) (x : Box) :
    ∀ (r : BoolItv) (A : Set Pt), PdcVal r x A →
      PdcVal (ps.foldl (fun r p' => BoolItv.or r (p' x)) r) x (A ∪ unionSets Ss) := by
  induction h with
  | nil =>
    intro r A hr
    have : A ∪ unionSets [] = A := by ext q; simp [unionSets]
    rw [this]; exact hr
  | @cons p S ps Ss hp _ ih =>
    intro r A hr
    have := ih (BoolItv.or r (p x)) (A ∪ S) (hr.or (hp x))
    have he : A ∪ unionSets (S :: Ss) = (A ∪ S) ∪ unionSets Ss := by
      ext q; simp only [unionSets, Set.mem_union, Set.mem_setOf_eq, List.mem_cons, exists_eq_or_imp]; tauto
    rw [he]; exact this

theorem pdcOr_ok {ps : List PdcFn} {Ss : List (Set Pt)} (h : List.Forall₂ PdcOK ps Ss) :
    PdcOK (pdcOrF ps) (unionSets Ss) := by
  intro x
  cases h with
  | nil => exact ⟨fun h => by simp [pdcOrF] at h, fun _ q _ hq => by obtain ⟨S, hS, _⟩ := hq; simp at hS⟩
  | @cons p S ps Ss hp hps =>
    have := pdcOr_fold hps x (p x) S (hp x)
    have he : unionSets (S :: Ss) = S ∪ unionSets Ss := by
      ext q; simp only [unionSets, Set.mem_union, Set.mem_setOf_eq, List.mem_cons, exists_eq_or_imp]
    rw [he]; exact this

theorem pdcNot_ok {t : PdcFn} {S : Set Pt} (h : PdcOK t S) : PdcOK (pdcNotF t) Sᶜ := fun x => (h x).not

theorem all2_length {f : Itv → Itv → Bool} : ∀ {x b : Box}, Box.all2 f x b = true → x.length = b.length
  | [], [], _ => rfl
  | [], _ :: _, h => by simp [Box.all2] at h
  | _ :: _, [], h => by simp [Box.all2] at h
  | _ :: x, _ :: b, h => by
    simp only [Box.all2, Bool.and_eq_true] at h
    simp [all2_length h.2]

/-- synthetic predicate leaf `(U,V)` in dimension `n` (the boxes of `V` have dimension `n`, and `U`,`V`
    cover the `n`-dimensional space): sound for the complement of `⋃V` -/
theorem pdcLeaf_ok (n : Nat) (U V : List Box) (hV : ∀ b ∈ V, b.length = n)
    (hcov : ∀ p : Pt, p.length = n → p ∈ unionSet U ∨ p ∈ unionSet V) :
    PdcOK (pdcLeafF U V) (unionSet V)ᶜ := by
  intro x
  unfold pdcLeafF
  split
  · rename_i hv
    refine ⟨fun _ q hq => ?_, (fun h => nomatch h)⟩
    rintro ⟨b, hb, hqb⟩
    exact not_mem_of_isDisjoint (List.all_eq_true.1 hv b hb) hq hqb
  · split
    · rename_i hv hu
      refine ⟨(fun h => nomatch h), fun _ q hq hS => ?_⟩
      -- some box of V meets x, hence x has dimension n
      have hx : x.length = n := by
        by_contra hne
        apply hv
        rw [List.all_eq_true]
        intro b hb
        cases hd : Box.isDisjoint x b with
        | true => rfl
        | false =>
          exfalso
          have hi : Box.intersects x b = true := by simpa [Box.isDisjoint] using hd
          simp only [Box.intersects, Bool.and_eq_true] at hi
          exact hne ((all2_length hi.2).trans (hV b hb))
      rcases hcov q (hq.length_eq.trans hx) with ⟨b, hb, hqb⟩ | hqV
      · exact not_mem_of_isDisjoint (List.all_eq_true.1 hu b hb) hq hqb
      · exact hS hqV
    · exact ⟨(fun h => nomatch h), (fun h => nomatch h)⟩

/-- `CtcEmpty(pdc)`: the points outside the set of the predicate are kept -/
theorem ofPdc_ok {t : PdcFn} {S : Set Pt} (h : PdcOK t S) : CtcOK (ofPdcF t) Sᶜ where
  sub x imp := by
    simp only [ofPdcF]; split
    · exact BSub_emptyLike x
    · exact BSub.refl x
  sound x imp p hp hS := by
    simp only [ofPdcF]; split
    · rename_i hy; exact absurd ((h x).1 hy p hp) hS
    · exact hp
  inact x imp hi := by
    simp only [ofPdcF] at hi; split at hi <;> simp at hi

/-! ### CtcInverse, CtcNotIn (abstract forward / backward operators) -/

/-- inverse image: `fwd` encloses the image, `bwd` keeps the points whose image is in `y` -/
theorem inverse_ok {c : CtcFn} {S : Set Pt} (hc : CtcOK c S) (f : Pt → Pt) (fwd : Box → Box) (bwd : Box → Box → Box)
    (hfwd : ∀ x p, Mem p x → Mem (f p) (fwd x))
    (hbwd : ∀ y x p, Mem p x → Mem (f p) y → Mem p (bwd y x))
    (hsub : ∀ y x, BSub (bwd y x) x) :
    CtcOK (inverseF c fwd bwd) {p | f p ∈ S} where
  sub x imp := by
    simp only [inverseF]; split
    · exact BSub_emptyLike x
    · split
      · exact BSub.refl x
      · exact hsub _ x
  sound x imp p hp hS := by
    have hy := hc.sound (fwd x) (allImp (fwd x)) (f p) (hfwd x p hp) hS
    simp only [inverseF]; split
    · rename_i he; exact absurd hy (not_mem_of_isEmpty he _)
    · split
      · exact hp
      · exact hbwd _ x p hp hy
  inact x imp hi := by
    simp only [inverseF] at hi
    split at hi
    · simp at hi
    · split at hi
      · intro p hp; simp only [inverseF]; rename_i h1 h2; rw [if_neg h1, if_pos h2]; exact hp
      · simp at hi

/-- not-in: the pieces cover the complement of `Y` -/
theorem notIn_ok {cs : List CtcFn} {Ss : List (Set Pt)} (h : List.Forall₂ CtcOK cs Ss) (Y : Set Pt)
    (hcover : ∀ p, p ∉ Y → p ∈ unionSets Ss) : CtcOK (notInF cs) Yᶜ := by
  have hu := (union_ok h).mono (T := Yᶜ) (fun p hp => hcover p hp)
  cases h with
  | nil =>
    refine empty_ok.mono ?_
    intro p hp
    obtain ⟨S, hS, _⟩ := hcover p hp
    simp at hS
  | @cons c S cs Ss hc hcs =>
    cases hcs with
    | nil =>
      refine hc.mono ?_
      intro p hp
      obtain ⟨T, hT, hpT⟩ := hcover p hp
      simp only [List.mem_singleton] at hT
      exact hT ▸ hpT
    | cons _ _ => exact hu

/-- the pieces produced by `Interval::complementary` cover the complement -/
theorem complementary_cover (y : Itv) (v : ℝ) (hv : ¬ v ∈ y) : ∃ J ∈ Itv.complementary y, v ∈ J := by
  cases y with
  | empty => exact ⟨Itv.all, by simp [Itv.complementary], by simp [Itv.all, Itv.mem_mk]⟩
  | mk a b =>
    by_cases h1 : a.toE ≤ (v : EReal)
    · have h2 : ¬ (v : EReal) ≤ b.toE := fun h2 => hv ⟨h1, h2⟩
      have hb : b ≠ .pinf := by intro h; rw [h] at h2; simp at h2
      refine ⟨.mk b .pinf, ?_, ?_⟩
      · simp [Itv.complementary, hb]
      · exact ⟨le_of_lt (not_le.1 h2), by simp⟩
    · have ha : a ≠ .ninf := by intro h; rw [h] at h1; simp at h1
      refine ⟨.mk .ninf a, ?_, ?_⟩
      · simp [Itv.complementary, ha]
      · exact ⟨by simp, le_of_lt (not_le.1 h1)⟩

end Ibex.C19
