/-
  Soundness of the interval forward-mode differentiation `Alg.idual` and of the uniqueness
  certificate of `IbexModel/Newton.lean`.

  1. `Alg.idual_ev` : every operator of `Alg.idual n` encloses the value AND the gradient of the real
     operator (relation `IRel n p` between an `IDual` and a function germ at the point `p`), hence
     (naturality of the evaluator, `EvalCert.lean`) so does the evaluation of every DAG:
     `jacobian_encl`.
  2. linear algebra: a strictly diagonally dominant interval matrix contains only regular matrices
     (`diagDominant_regular`), the interval product encloses the real product (`precond_encl`), the
     Gauss-Jordan `inverse` keeps the number of rows (`inverse_length`), hence `regular_of_cert`.

  Thick interval constants: `Alg.idual` accepts them, the point semantics `Alg.real` does not.  All
  statements are therefore proved for `Alg.realWith ch` where `ch` is ANY selection of a member of
  every non-empty interval constant (`Sel ch`); `Alg.real` is the restriction of each of them
  (`Alg.real_realWith`), see `Props/C09.lean`.
-/
import IbexProofs.DualCorrect
import IbexProofs.Props.C08
import IbexProofs.SetAlg

namespace Ibex
open Ibex List Filter Topology

noncomputable section

/-! ## 1. real gradients as linear maps -/

/-- the linear map `v ↦ Σ_k g_k · v_k` -/
def gradR (n : ℕ) (g : List ℝ) : (Fin n → ℝ) →L[ℝ] ℝ :=
  ∑ k : Fin n, g.getD k 0 • ContinuousLinearMap.proj k

theorem gradR_apply (n : ℕ) (g : List ℝ) (v : Fin n → ℝ) :
    gradR n g v = ∑ k : Fin n, g.getD k 0 * v k := by
  simp [gradR]

theorem gradR_single {n : ℕ} (g : List ℝ) (j : Fin n) : gradR n g (Pi.single j 1) = g.getD j 0 := by
  rw [gradR_apply, Finset.sum_eq_single j]
  · simp
  · intro k _ hkj
    simp [hkj]
  · intro h; exact absurd (Finset.mem_univ j) h

theorem getD_zipWith_lin {α β : ℝ} {ga gb : List ℝ} {n : ℕ} (ha : ga.length = n) (hb : gb.length = n) {k : ℕ}
    (hk : k < n) :
    (List.zipWith (fun u v => α * u + β * v) ga gb).getD k 0 = α * ga.getD k 0 + β * gb.getD k 0 := by
  rw [List.getD_eq_getElem?_getD, List.getD_eq_getElem?_getD, List.getD_eq_getElem?_getD,
    List.getElem?_zipWith, List.getElem?_eq_getElem (by omega : k < ga.length),
    List.getElem?_eq_getElem (by omega : k < gb.length)]
  simp

theorem gradR_lin {n : ℕ} {α β : ℝ} {ga gb : List ℝ} (ha : ga.length = n) (hb : gb.length = n) :
    gradR n (List.zipWith (fun u v => α * u + β * v) ga gb) = α • gradR n ga + β • gradR n gb := by
  ext v
  simp only [gradR_apply, _root_.add_apply, _root_.smul_apply, smul_eq_mul,
    Finset.mul_sum, ← Finset.sum_add_distrib]
  refine Finset.sum_congr rfl fun k _ => ?_
  rw [getD_zipWith_lin ha hb k.2]
  ring

theorem gradR_scale {n : ℕ} {α : ℝ} {g : List ℝ} : gradR n (g.map (α * ·)) = α • gradR n g := by
  ext v
  simp only [gradR_apply, _root_.smul_apply, smul_eq_mul, Finset.mul_sum]
  refine Finset.sum_congr rfl fun k _ => ?_
  rw [List.getD_eq_getElem?_getD, List.getD_eq_getElem?_getD, List.getElem?_map]
  cases g[(k : ℕ)]? <;> simp [mul_assoc]

theorem gradR_zero (n : ℕ) : gradR n (List.replicate n 0) = 0 := by
  ext v
  simp only [gradR_apply, _root_.zero_apply]
  refine Finset.sum_eq_zero fun k _ => ?_
  simp [List.getD_eq_getElem?_getD]

theorem gradR_unit {n : ℕ} (k : Fin n) :
    gradR n ((List.range n).map fun j => if j == k.1 then (1 : ℝ) else 0) = ContinuousLinearMap.proj k := by
  ext v
  rw [gradR_apply, ContinuousLinearMap.proj_apply, Finset.sum_eq_single k]
  · simp [List.getD_eq_getElem?_getD]
  · intro j _ hjk
    have : ¬ (j.1 = k.1) := fun e => hjk (Fin.ext e)
    simp [List.getD_eq_getElem?_getD, this]
  · intro h; exact absurd (Finset.mem_univ k) h

/-! ## 2. the relation between an interval dual number and a function germ -/

/-- `D` encloses the value and the gradient at `p` of the function `φ` -/
def IRel (n : ℕ) (p : Fin n → ℝ) (D : IDual) (φ : (Fin n → ℝ) → ℝ) : Prop :=
  φ p ∈ D.v ∧ ∃ g : List ℝ, g.length = n ∧ Forall₂ RMem g D.g ∧ HasFDerivAt φ (gradR n g) p

variable {n : ℕ} {p : Fin n → ℝ}

theorem IRel.cont {D : IDual} {φ : (Fin n → ℝ) → ℝ} (h : IRel n p D φ) : ContinuousAt φ p := by
  obtain ⟨_, g, _, _, hd⟩ := h
  exact hd.continuousAt

theorem IRel.length {D : IDual} {φ : (Fin n → ℝ) → ℝ} (h : IRel n p D φ) : D.g.length = n := by
  obtain ⟨_, g, hl, hg, _⟩ := h
  rw [← hg.length_eq, hl]

theorem IRel.congr {D : IDual} {φ φ' : (Fin n → ℝ) → ℝ} (h : IRel n p D φ) (e : φ' =ᶠ[𝓝 p] φ) :
    IRel n p D φ' := by
  obtain ⟨hv, g, hl, hg, hd⟩ := h
  exact ⟨by rw [e.eq_of_nhds]; exact hv, g, hl, hg, hd.congr_of_eventuallyEq e⟩

theorem IRel.of_eventually {z : ℝ} {o : (Fin n → ℝ) → Option ℝ} {ψ : (Fin n → ℝ) → ℝ} {D : IDual}
    (hev : ∀ᶠ x in 𝓝 p, o x = some (ψ x)) (h : IRel n p D ψ) :
    ∃ ψ', evOpt (𝓝 p) z o = some ψ' ∧ IRel n p D ψ' := by
  obtain ⟨ψ', h1, h2⟩ := evOpt_of_eventually (z := z) hev
  exact ⟨ψ', h1, h.congr h2⟩

theorem forall₂_zipWith {α β γ δ ε ζ : Type} {R : α → β → Prop} {S : γ → δ → Prop} {T : ε → ζ → Prop}
    {f : α → γ → ε} {g : β → δ → ζ} (hfg : ∀ a b c d, R a b → S c d → T (f a c) (g b d)) :
    ∀ {l1 : List α} {l2 : List β}, Forall₂ R l1 l2 → ∀ {m1 : List γ} {m2 : List δ}, Forall₂ S m1 m2 →
      Forall₂ T (List.zipWith f l1 m1) (List.zipWith g l2 m2) := by
  intro l1 l2 h
  induction h with
  | nil => intro m1 m2 _; simp
  | cons hab _ ih =>
    intro m1 m2 hm
    cases hm with
    | nil => simp
    | cons hcd hm' => exact .cons (hfg _ _ _ _ hab hcd) (ih hm')

theorem mem_point_cast (q : ℚ) : ((q : ℚ) : ℝ) ∈ Itv.point q := Bwd.mem_point.2 rfl

theorem IDual.ok_some {d x : IDual} (h : IDual.ok d = some x) : x = d := by
  unfold IDual.ok at h
  split at h
  · exact absurd h (by simp)
  · simp only [Option.some.injEq] at h
    exact h.symm

/-- a value `χ` whose derivative is `α·dφ + β·dψ` -/
theorem IRel.lin {a b : IDual} {φ ψ χ : (Fin n → ℝ) → ℝ} {A B V : Itv} {α β : ℝ}
    (ha : IRel n p a φ) (hb : IRel n p b ψ) (hα : α ∈ A) (hβ : β ∈ B) (hv : χ p ∈ V)
    (hd : ∀ La Lb : (Fin n → ℝ) →L[ℝ] ℝ, HasFDerivAt φ La p → HasFDerivAt ψ Lb p →
      HasFDerivAt χ (α • La + β • Lb) p) :
    IRel n p ⟨V, IDual.lin A a B b⟩ χ := by
  obtain ⟨_, ga, hla, hga, hda⟩ := ha
  obtain ⟨_, gb, hlb, hgb, hdb⟩ := hb
  refine ⟨hv, List.zipWith (fun u v => α * u + β * v) ga gb, by simp [hla, hlb], ?_, ?_⟩
  · exact forall₂_zipWith (R := RMem) (S := RMem) (T := RMem)
      (fun u U v V hu hv => Itv.add_encl (Itv.mul_encl hα hu) (Itv.mul_encl hβ hv)) hga hgb
  · rw [gradR_lin hla hlb]
    exact hd _ _ hda hdb

/-- a value `χ` whose derivative is `α·dφ` -/
theorem IRel.scale {a : IDual} {φ χ : (Fin n → ℝ) → ℝ} {A V : Itv} {α : ℝ}
    (ha : IRel n p a φ) (hα : α ∈ A) (hv : χ p ∈ V)
    (hd : ∀ La : (Fin n → ℝ) →L[ℝ] ℝ, HasFDerivAt φ La p → HasFDerivAt χ (α • La) p) :
    IRel n p ⟨V, IDual.scale A a⟩ χ := by
  obtain ⟨_, ga, hla, hga, hda⟩ := ha
  refine ⟨hv, ga.map (α * ·), by simp [hla], ?_, ?_⟩
  · unfold IDual.scale
    rw [forall₂_map_left_iff, forall₂_map_right_iff]
    exact hga.imp fun u U hu => Itv.mul_encl hα hu
  · rw [gradR_scale]
    exact hd _ hda

theorem IRel.const (n : ℕ) (p : Fin n → ℝ) {c : ℝ} {I : Itv} (hc : c ∈ I) :
    IRel n p (IDual.const n I) (fun _ => c) := by
  refine ⟨hc, List.replicate n 0, by simp, ?_, ?_⟩
  · unfold IDual.const IDual.zeroG
    simp only
    rw [List.forall₂_iff_get]
    refine ⟨by simp, fun i h1 h2 => ?_⟩
    simp only [List.get_eq_getElem, List.getElem_replicate]
    have := mem_point_cast 0
    simpa using this
  · rw [gradR_zero]
    exact hasFDerivAt_const _ _

/-! ## 3. selections of thick constants -/

/-- `ch` selects a member of every non-empty interval constant -/
def Sel (ch : Itv → Option ℝ) : Prop := ∀ I : Itv, (∃ x : ℝ, x ∈ I) → ∃ x, ch I = some x ∧ x ∈ I

theorem idual_ev_un (ch : Itv → Option ℝ) (F : Filter (Fin n → ℝ)) (op : String)
    (h : (Alg.ev F (Alg.realWith ch)).un op = none) : (Alg.idual n).un op = none := by
  simp only [Alg.idual]
  split
  all_goals first
    | rfl
    | (simp [Alg.ev, Alg.realWith, Alg.real] at h)

theorem Alg.idual_ev_supp (ch : Itv → Option ℝ) (F : Filter (Fin n → ℝ)) (nd : Node) :
    Eval.Supp (Alg.idual n) (Alg.ev F (Alg.realWith ch)) nd :=
  fun op _ _ _ h => idual_ev_un ch F op h

theorem not_mem_zero_of_containsExt {I : Itv} (h : ¬ Itv.containsExt I (.fin 0) = true) : ¬ (0 : ℝ) ∈ I := by
  intro h0
  apply h
  rw [Bwd.containsExt_fin]
  simpa using h0

/-- **Operator-level enclosure of the interval dual numbers**: when an operation of `Alg.idual n` is
    defined on interval dual numbers that enclose the values and gradients at `p` of some functions,
    then the real operation applied to these functions is defined in a neighbourhood of `p`, and the
    result encloses the value and the gradient at `p` of the resulting function. -/
theorem Alg.idual_ev {ch : Itv → Option ℝ} (hch : Sel ch) (n : ℕ) (p : Fin n → ℝ) :
    AlgRel (IRel n p) (Alg.idual n) (Alg.ev (𝓝 p) (Alg.realWith ch)) where
  ofItv := by
    intro I a h
    simp only [Alg.idual] at h
    split at h
    · exact absurd h (by simp)
    · rename_i hne
      simp only [Option.some.injEq] at h
      subst h
      simp only [Bool.or_eq_true, Bool.not_eq_true', not_or, Bool.not_eq_false] at hne
      obtain ⟨c, hc, hcI⟩ := hch I (Itv.exists_mem_of_WF hne.2 (fun e => by simp [e, Itv.isEmpty] at hne))
      refine ⟨fun _ => c, ?_, IRel.const n p hcI⟩
      show (ch I).map _ = _
      rw [hc]; rfl
  zero := by
    show IRel n p (IDual.const n (Itv.point 0)) (fun _ => (0 : ℝ))
    exact IRel.const n p (by simpa using mem_point_cast 0)
  add := by
    intro a φ b ψ x ha hb h
    simp only [Alg.idual] at h
    have := IDual.ok_some h; subst this
    refine IRel.of_eventually (ψ := fun x => φ x + ψ x) (Eventually.of_forall fun x => rfl) ?_
    refine IRel.lin ha hb (α := 1) (β := 1) (by simpa using mem_point_cast 1)
      (by simpa using mem_point_cast 1) (Itv.add_encl ha.1 hb.1) fun La Lb hLa hLb => ?_
    exact (hLa.add hLb).congr_fderiv (by simp)
  sub := by
    intro a φ b ψ x ha hb h
    simp only [Alg.idual] at h
    have := IDual.ok_some h; subst this
    refine IRel.of_eventually (ψ := fun x => φ x - ψ x) (Eventually.of_forall fun x => rfl) ?_
    refine IRel.lin ha hb (α := 1) (β := -1) (by simpa using mem_point_cast 1)
      (by simpa using mem_point_cast (-1)) (Itv.sub_encl ha.1 hb.1) fun La Lb hLa hLb => ?_
    exact (hLa.sub hLb).congr_fderiv (by ext v; simp [sub_eq_add_neg])
  mul := by
    intro a φ b ψ x ha hb h
    simp only [Alg.idual] at h
    have := IDual.ok_some h; subst this
    refine IRel.of_eventually (ψ := fun x => φ x * ψ x) (Eventually.of_forall fun x => rfl) ?_
    refine IRel.lin ha hb (α := ψ p) (β := φ p) hb.1 ha.1 (Itv.mul_encl ha.1 hb.1)
      fun La Lb hLa hLb => ?_
    exact (hLa.mul hLb).congr_fderiv (by rw [add_comm])
  div := by
    intro a φ b ψ x ha hb h
    simp only [Alg.idual] at h
    split at h
    · exact absurd h (by simp)
    · rename_i hb0
      have := IDual.ok_some h; subst this
      have h0 : ψ p ≠ 0 := fun e => not_mem_zero_of_containsExt hb0 (by have := hb.1; rwa [e] at this)
      have hne : ∀ᶠ x in 𝓝 p, ψ x ≠ 0 := hb.cont.eventually_ne h0
      refine IRel.of_eventually (ψ := fun x => φ x * (ψ x)⁻¹) ?_ ?_
      · filter_upwards [hne] with x hx
        simp only [Alg.realWith, Alg.real, if_neg hx, div_eq_mul_inv]
      · have hsq : ψ p * ψ p ≠ 0 := mul_ne_zero h0 h0
        refine IRel.lin ha hb (α := 1 / ψ p) (β := -(φ p / (ψ p * ψ p)))
          (Itv.div_encl (by simpa using mem_point_cast 1) hb.1 h0)
          (Itv.neg_encl (Itv.div_encl ha.1 (Itv.sqr_encl hb.1) hsq)) ?_ fun La Lb hLa hLb => ?_
        · show φ p * (ψ p)⁻¹ ∈ _
          rw [← div_eq_mul_inv]
          exact Itv.div_encl ha.1 hb.1 h0
        · have hinv := (hasDerivAt_inv h0).comp_hasFDerivAt p hLb
          refine (hLa.mul hinv).congr_fderiv ?_
          ext v
          simp only [_root_.add_apply, _root_.smul_apply, smul_eq_mul, Function.comp_apply]
          field_simp
          ring
  max := by
    intro a φ b ψ x _ _ h
    simp only [Alg.idual] at h
    exact absurd h (by simp)
  min := by
    intro a φ b ψ x _ _ h
    simp only [Alg.idual] at h
    exact absurd h (by simp)
  un := by
    intro op f g hf hg a φ x ha hx
    simp only [Alg.idual] at hf
    split at hf
    · -- minus
      simp only [Alg.ev, Alg.realWith, Alg.real, Option.map_some, Option.some.injEq] at hf hg
      subst hf; subst hg
      have := IDual.ok_some hx; subst this
      refine IRel.of_eventually (ψ := fun x => -φ x) (Eventually.of_forall fun x => rfl) ?_
      refine IRel.scale ha (α := -1) (by simpa using mem_point_cast (-1)) (Itv.neg_encl ha.1)
        fun La hLa => ?_
      exact hLa.neg.congr_fderiv (by ext v; simp)
    · -- sqr
      simp only [Alg.ev, Alg.realWith, Alg.real, Option.map_some, Option.some.injEq] at hf hg
      subst hf; subst hg
      have := IDual.ok_some hx; subst this
      refine IRel.of_eventually (ψ := fun x => φ x * φ x) (Eventually.of_forall fun x => rfl) ?_
      refine IRel.scale ha (α := 2 * φ p) (Itv.mul_encl (by simpa using mem_point_cast 2) ha.1)
        (Itv.sqr_encl ha.1) fun La hLa => ?_
      exact (hLa.mul hLa).congr_fderiv (by rw [← add_smul, two_mul])
    · exact absurd hf (by simp)
  pow := by
    intro k a φ x ha h
    simp only [Alg.idual] at h
    split at h
    · -- k = 0
      rename_i hk
      subst hk
      have := IDual.ok_some h; subst this
      refine IRel.of_eventually (ψ := fun _ => (1 : ℝ))
        (Eventually.of_forall fun x => by simp [Alg.realWith, Alg.real]) ?_
      refine IRel.scale ha (α := 0) (by simpa using mem_point_cast 0)
        (by simpa using mem_point_cast 1) fun La hLa => ?_
      exact (hasFDerivAt_const (1 : ℝ) p).congr_fderiv (by simp)
    · split at h
      · -- k = 1
        rename_i hk0 hk
        subst hk
        simp only [Option.some.injEq] at h
        subst h
        exact IRel.of_eventually (ψ := φ)
          (Eventually.of_forall fun x => by simp [Alg.realWith, Alg.real]) ha
      · split at h
        · -- k > 1
          rename_i hk0 hk1 hk
          have := IDual.ok_some h; subst this
          have hnn : ¬ k < 0 := by omega
          refine IRel.of_eventually (ψ := fun x => φ x ^ k)
            (Eventually.of_forall fun x => by simp [Alg.realWith, Alg.real, hnn]) ?_
          refine IRel.scale ha (α := (k : ℝ) * φ p ^ (k - 1)) ?_ ?_ fun La hLa => ?_
          · exact Itv.mul_encl (by simpa using mem_point_cast (k : ℚ))
              (Itv.powInt_encl (k - 1) ha.1 (fun h => by omega))
          · exact Itv.powInt_encl k ha.1 (fun h => by omega)
          · exact (hasDerivAt_zpow k (φ p) (Or.inr (by omega))).comp_hasFDerivAt p hLa
        · split at h
          · exact absurd h (by simp)
          · -- k < 0, 0 ∉ a.v
            rename_i hk0 hk1 hk ha0
            have := IDual.ok_some h; subst this
            have h0 : φ p ≠ 0 := fun e => not_mem_zero_of_containsExt ha0 (by have := ha.1; rwa [e] at this)
            refine IRel.of_eventually (ψ := fun x => φ x ^ k) ?_ ?_
            · filter_upwards [ha.cont.eventually_ne h0] with x hx
              simp [Alg.realWith, Alg.real, hx]
            · refine IRel.scale ha (α := (k : ℝ) * φ p ^ (k - 1)) ?_ ?_ fun La hLa => ?_
              · exact Itv.mul_encl (by simpa using mem_point_cast (k : ℚ))
                  (Itv.powInt_encl (k - 1) ha.1 (fun _ => h0))
              · exact Itv.powInt_encl k ha.1 (fun _ => h0)
              · exact (hasDerivAt_zpow k (φ p) (Or.inl h0)).comp_hasFDerivAt p hLa
  chi := by
    intro a φa b φb c φc x _ _ _ h
    simp only [Alg.idual] at h
    exact absurd h (by simp)

/-! ## 4. every DAG: the interval Jacobian encloses the Jacobian of the real denotation -/

/-- the real value (thick constants selected by `ch`) at the flattened point `x` of the DAG `q.2`,
    with applied functions `q.1` -/
def rootW (ch : Itv → Option ℝ) (q : List Dag × Dag) (x : List ℝ) : Option (Mat ℝ) :=
  Eval.root (Alg.realWith ch) x (Eval.buildCalls (Alg.realWith ch) q.1) q.2

/-- first entry of the value, as a total function (junk `0` where undefined) -/
def valW (ch : Itv → Option ℝ) (q : List Dag × Dag) {n : ℕ} (x : Fin n → ℝ) : ℝ :=
  ((rootW ch q (List.ofFn x)).bind (·.d[0]?)).getD 0

/-- the seeded environment of `Newton.jacobian` -/
theorem iseed_rel {h : Box} (p : Fin h.length → ℝ) (hp : Box.Mem (List.ofFn p) h) :
    Forall₂ (IRel h.length p)
      (h.zipIdx.map fun (q : Itv × Nat) =>
        (⟨q.1, (List.range h.length).map fun j => if j == q.2 then Itv.point 1 else Itv.point 0⟩ : IDual))
      (coordFns h.length) := by
  rw [List.forall₂_iff_get]
  refine ⟨by simp [coordFns], fun i h1 h2 => ?_⟩
  have hi : i < h.length := by simpa using h1
  simp only [coordFns, List.get_eq_getElem, List.getElem_map, List.getElem_zipIdx,
    List.getElem_ofFn, Nat.zero_add]
  refine ⟨?_, (List.range h.length).map (fun j => if j == i then (1 : ℝ) else 0), by simp, ?_, ?_⟩
  · have := (forall₂_getElem hp (i := i) (by simpa using hi)).2
    simpa using this
  · rw [forall₂_map_left_iff, forall₂_map_right_iff]
    refine List.forall₂_same.2 fun j _ => ?_
    by_cases hj : (j == i) = true
    · simp only [hj, if_true]
      simpa using mem_point_cast 1
    · simp only [hj]
      simpa using mem_point_cast 0
  · rw [gradR_unit ⟨i, hi⟩]
    exact hasFDerivAt_apply (𝕜 := ℝ) (⟨i, hi⟩ : Fin h.length) p

/-- **The interval Jacobian encloses the Jacobian.**  If `Newton.jacobian progs h = some J` then
    `J` has one row per function, each of length `n = h.length`, and for every function `q` and every
    real point `p` of the box: the real evaluation of `q` at `p` is defined (scalar value
    `valW ch q p`), `valW ch q` is Fréchet-differentiable at `p` and its gradient `g` is a member of
    the row (`g_k ∈ J_q,k` for all `k`). -/
theorem jacobian_encl {ch : Itv → Option ℝ} (hch : Sel ch) {progs : List (List Dag × Dag)} {h : Box}
    {J : List (List Itv)} (hJ : Newton.jacobian progs h = some J) :
    Forall₂ (fun q row => row.length = h.length ∧ ∀ p : Fin h.length → ℝ, Box.Mem (List.ofFn p) h →
      (∃ m, rootW ch q (List.ofFn p) = some m ∧ m.d = [valW ch q p]) ∧
      ∃ g : List ℝ, g.length = h.length ∧ Forall₂ RMem g row ∧
        HasFDerivAt (valW ch q) (gradR h.length g) p) progs J := by
  refine (C08.mapM_forall₂ hJ).imp fun q row hq => ?_
  split at hq
  · rename_i m hroot
    split at hq
    · rename_i d hmd
      split at hq
      · rename_i hlen
        simp only [Option.some.injEq] at hq
        subst hq
        have hlen' : d.g.length = h.length := by simpa using hlen
        refine ⟨hlen', fun p hp => ?_⟩
        have hA := Alg.idual_ev hch h.length p
        obtain ⟨fv, hfv, hr, hc, hd⟩ := Eval.root_rel_total hA (iseed_rel p hp)
          (Eval.buildCalls_rel_total hA q.1 fun _ _ nd _ => Alg.idual_ev_supp ch _ nd)
          (fun nd _ => Alg.idual_ev_supp ch _ nd) hroot
        rw [hmd] at hd
        obtain ⟨φ, l, hdφ, hl, hfd⟩ := List.forall₂_cons_left_iff.1 hd
        have hl' : l = [] := by simpa using hl
        subst hl'
        have hev : ∀ᶠ x in 𝓝 p, rootW ch q (List.ofFn x) = some (fv.at x) := by
          filter_upwards [Eval.root_ev (Eval.buildCalls_ev q.1) hfv] with x hx
          rw [coordFns_at] at hx
          exact hx
        have hval : valW ch q =ᶠ[𝓝 p] φ := by
          filter_upwards [hev] with x hx
          simp [valW, hx, Mat.at, Mat.map, hfd]
        refine ⟨⟨fv.at p, hev.self_of_nhds, ?_⟩, ?_⟩
        · simp [Mat.at, Mat.map, hfd, hval.eq_of_nhds]
        · obtain ⟨_, g, hg1, hg2, hg3⟩ := hdφ.congr hval
          exact ⟨g, hg1, hg2, hg3⟩
      · exact absurd hq (by simp)
    · exact absurd hq (by simp)
  · exact absurd hq (by simp)

theorem jacobian_length {progs : List (List Dag × Dag)} {h : Box} {J : List (List Itv)}
    (hJ : Newton.jacobian progs h = some J) : J.length = progs.length :=
  (C08.mapM_forall₂ hJ).length_eq.symm

/-! ## 5. linear algebra: strict diagonal dominance, preconditioning -/

theorem mem_fin_iff {a b : ℚ} {x : ℝ} : x ∈ Itv.mk (.fin a) (.fin b) ↔ (a : ℝ) ≤ x ∧ x ≤ (b : ℝ) := by
  simp only [Itv.mem_mk, Ext.toE_fin, EReal.coe_le_coe_iff]

theorem ratAbs_cast (q : ℚ) : ((Newton.ratAbs q : ℚ) : ℝ) = |(q : ℝ)| := by
  unfold Newton.ratAbs
  split
  · rename_i h
    have : (q : ℝ) < 0 := by exact_mod_cast h
    rw [abs_of_neg this]
    push_cast
    rfl
  · rename_i h
    have : (0 : ℝ) ≤ q := by exact_mod_cast not_lt.1 h
    rw [abs_of_nonneg this]

/-- `magQ` is an upper bound of the magnitude -/
theorem magQ_sound {I : Itv} {q : ℚ} (h : Newton.magQ I = some q) {x : ℝ} (hx : x ∈ I) : |x| ≤ (q : ℝ) := by
  unfold Newton.magQ at h
  split at h
  · rename_i a b
    simp only [Option.some.injEq] at h
    subst h
    rw [mem_fin_iff] at hx
    have := abs_le_max_abs_abs hx.1 hx.2
    split
    · rw [ratAbs_cast]
      exact le_trans this (max_le (le_refl _) (by
        rename_i hgt
        have : ((Newton.ratAbs b : ℚ) : ℝ) < ((Newton.ratAbs a : ℚ) : ℝ) := by exact_mod_cast hgt
        rw [ratAbs_cast, ratAbs_cast] at this
        exact this.le))
    · rw [ratAbs_cast]
      exact le_trans this (max_le (by
        rename_i hgt
        have : ((Newton.ratAbs a : ℚ) : ℝ) ≤ ((Newton.ratAbs b : ℚ) : ℝ) := by exact_mod_cast not_lt.1 hgt
        rw [ratAbs_cast, ratAbs_cast] at this
        exact this) (le_refl _))
  · exact absurd h (by simp)

theorem magQ_nonneg {I : Itv} {q : ℚ} (h : Newton.magQ I = some q) : (0 : ℝ) ≤ (q : ℝ) := by
  unfold Newton.magQ at h
  split at h
  · rename_i a b
    simp only [Option.some.injEq] at h
    subst h
    split <;> (rw [ratAbs_cast]; exact abs_nonneg _)
  · exact absurd h (by simp)

/-- `migQ` is a lower bound of the mignitude -/
theorem migQ_sound {I : Itv} {d : ℚ} (h : Newton.migQ I = some d) {x : ℝ} (hx : x ∈ I) : (d : ℝ) ≤ |x| := by
  unfold Newton.migQ at h
  split at h
  · rename_i a b
    simp only [Option.some.injEq] at h
    subst h
    rw [mem_fin_iff] at hx
    split
    · rename_i ha
      have : (0 : ℝ) < a := by exact_mod_cast ha
      exact le_trans hx.1 (le_abs_self x)
    · split
      · rename_i hb
        have : (b : ℝ) < 0 := by exact_mod_cast hb
        push_cast
        exact le_trans (neg_le_neg hx.2) (neg_le_abs x)
      · simp
  · exact absurd h (by simp)

/-- the sum of the off-diagonal magnitudes computed by `diagDominant` bounds the real sum -/
theorem offdiag_sum_le (i : ℕ) (a : ℕ → ℝ) :
    ∀ (row : List Itv) (k : ℕ) (offs : List ℚ),
      ((row.zipIdx k).filter fun (e : Itv × Nat) => e.2 != i).mapM (fun e => Newton.magQ e.1) = some offs →
      (∀ j (hj : j < row.length), k + j ≠ i → a (k + j) ∈ row[j]) →
      ∑ j ∈ Finset.range row.length, (if k + j ≠ i then |a (k + j)| else 0) ≤ ((offs.sum : ℚ) : ℝ) := by
  intro row
  induction row with
  | nil =>
    intro k offs h _
    simp at h
    subst h
    simp
  | cons I row ih =>
    intro k offs h ha
    rw [List.zipIdx_cons] at h
    have hrest : ∀ j (hj : j < row.length), k + 1 + j ≠ i → a (k + 1 + j) ∈ row[j] := by
      intro j hj hne
      have := ha (j + 1) (by simp; omega) (by omega)
      simpa [show k + (j + 1) = k + 1 + j by omega] using this
    have hsum : ∑ j ∈ Finset.range (I :: row).length, (if k + j ≠ i then |a (k + j)| else 0) =
        ∑ j ∈ Finset.range row.length, (if k + 1 + j ≠ i then |a (k + 1 + j)| else 0) +
          (if k ≠ i then |a k| else 0) := by
      rw [List.length_cons, Finset.sum_range_succ']
      simp only [Nat.add_zero]
      congr 1
      refine Finset.sum_congr rfl fun j _ => ?_
      rw [show k + (j + 1) = k + 1 + j by omega]
    rw [hsum]
    by_cases hk : k = i
    · rw [List.filter_cons_of_neg (by simp [hk])] at h
      have := ih (k + 1) offs h hrest
      simpa [hk] using this
    · rw [List.filter_cons_of_pos (by simpa using hk)] at h
      simp only [List.mapM_cons, Bind.bind, Pure.pure, Option.bind_eq_some_iff] at h
      obtain ⟨q, hq, offs', hoffs', h⟩ := h
      simp only [Option.some.injEq] at h
      subst h
      have h1 := ih (k + 1) offs' hoffs' hrest
      have h2 : |a k| ≤ (q : ℝ) := by
        have := ha 0 (by simp) (by simpa using hk)
        exact magQ_sound hq (by simpa using this)
      rw [if_pos hk, List.sum_cons, Rat.cast_add]
      linarith

theorem diagDominant_row {M : List (List Itv)} (hM : Newton.diagDominant M = true) {i : ℕ}
    (hi : i < M.length) :
    ∃ (d : ℚ) (offs : List ℚ), Newton.migQ (M[i].getD i .empty) = some d ∧
      ((M[i].zipIdx.filter fun (e : Itv × Nat) => e.2 != i).mapM fun e => Newton.magQ e.1) = some offs ∧
      offs.sum < d := by
  unfold Newton.diagDominant at hM
  rw [List.all_eq_true] at hM
  have := hM (M[i], i) (List.mk_mem_zipIdx_iff_getElem?.2 (List.getElem?_eq_getElem hi))
  simp only at this
  split at this
  · exact absurd this (by simp)
  · rename_i d hd
    split at this
    · exact absurd this (by simp)
    · rename_i offs hoffs
      refine ⟨d, offs, hd, hoffs, ?_⟩
      rw [List.sum_eq_foldl]
      simpa using this

/-- **A strictly diagonally dominant interval matrix contains only regular matrices.** -/
theorem diagDominant_regular {M : List (List Itv)} (hM : Newton.diagDominant M = true) {m : ℕ}
    (hm : M.length = m) (hrow : ∀ row ∈ M, row.length = m) (A : Fin m → Fin m → ℝ)
    (hA : ∀ i j : Fin m, A i j ∈ (M.getD i []).getD j .empty) (x : Fin m → ℝ)
    (hx : ∀ i, ∑ j, A i j * x j = 0) : x = 0 := by
  by_contra hne
  obtain ⟨i0, hi0⟩ := Function.ne_iff.1 hne
  obtain ⟨i, _, hmax⟩ := Finset.exists_max_image Finset.univ (fun j => |x j|) ⟨i0, Finset.mem_univ _⟩
  have hxi : 0 < |x i| := lt_of_lt_of_le (abs_pos.2 hi0) (hmax i0 (Finset.mem_univ _))
  have hiM : (i : ℕ) < M.length := hm ▸ i.2
  obtain ⟨d, offs, hd, hoffs, hlt⟩ := diagDominant_row hM hiM
  have hMi : M.getD i [] = M[(i : ℕ)] := by
    rw [List.getD_eq_getElem?_getD, List.getElem?_eq_getElem hiM]; rfl
  have hlen : M[(i : ℕ)].length = m := hrow _ (List.getElem_mem hiM)
  have hA' : ∀ j : Fin m, A i j ∈ M[(i : ℕ)][(j : ℕ)]'(by rw [hlen]; exact j.2) := by
    intro j
    have := hA i j
    rw [hMi, List.getD_eq_getElem?_getD, List.getElem?_eq_getElem (by rw [hlen]; exact j.2)] at this
    exact this
  -- the diagonal entry
  have hdiag : (d : ℝ) ≤ |A i i| := by
    refine migQ_sound hd ?_
    have := hA i i
    rwa [hMi] at this
  -- the off-diagonal entries
  let a : ℕ → ℝ := fun j => if h : j < m then A i ⟨j, h⟩ else 0
  have hoff := offdiag_sum_le i a M[(i : ℕ)] 0 offs hoffs (by
    intro j hj _
    have hjm : j < m := hlen ▸ hj
    simp only [Nat.zero_add, a, dif_pos hjm]
    exact hA' ⟨j, hjm⟩)
  have hoff' : ∑ j ∈ Finset.univ.erase i, |A i j| ≤ ((offs.sum : ℚ) : ℝ) := by
    refine le_trans (le_of_eq ?_) hoff
    rw [hlen, ← Finset.filter_ne' Finset.univ i, Finset.sum_filter,
      ← Fin.sum_univ_eq_sum_range (fun j => if 0 + j ≠ (i : ℕ) then |a (0 + j)| else 0) m]
    refine Finset.sum_congr rfl fun j _ => ?_
    simp only [Nat.zero_add, a, dif_pos j.2, Fin.eta]
    by_cases hji : j = i
    · simp [hji]
    · have : (j : ℕ) ≠ i := fun e => hji (Fin.ext e)
      simp [hji, this]
  -- the row equation
  have hrowi := hx i
  rw [← Finset.add_sum_erase _ _ (Finset.mem_univ i)] at hrowi
  have h1 : |A i i| * |x i| = |∑ j ∈ Finset.univ.erase i, A i j * x j| := by
    rw [← abs_mul, eq_neg_of_add_eq_zero_left hrowi, abs_neg]
  have h2 : |∑ j ∈ Finset.univ.erase i, A i j * x j| ≤ (∑ j ∈ Finset.univ.erase i, |A i j|) * |x i| := by
    refine le_trans (Finset.abs_sum_le_sum_abs _ _) ?_
    rw [Finset.sum_mul]
    refine Finset.sum_le_sum fun j _ => ?_
    rw [abs_mul]
    exact mul_le_mul_of_nonneg_left (hmax j (Finset.mem_univ _)) (abs_nonneg _)
  have h3 : ((offs.sum : ℚ) : ℝ) < (d : ℝ) := by exact_mod_cast hlt
  have h4 : (∑ j ∈ Finset.univ.erase i, |A i j|) * |x i| < |A i i| * |x i| :=
    mul_lt_mul_of_pos_right (lt_of_le_of_lt hoff' (lt_of_lt_of_le h3 hdiag)) hxi
  linarith

/-- the interval dot product of `precond` encloses the real dot product -/
theorem precond_fold_encl (col : ℕ) :
    ∀ (jrows : List (List Itv)) (crow : List ℚ) (acc : Itv) (s : ℝ) (a : ℕ → ℝ), s ∈ acc →
      (∀ k (hk : k < jrows.length), a k ∈ (jrows[k]).getD col .empty) →
      s + ∑ k ∈ Finset.range jrows.length, ((crow.getD k 0 : ℚ) : ℝ) * a k ∈
        (List.zip crow jrows).foldl (fun acc (q : ℚ × List Itv) =>
          Itv.add acc (Itv.mul (Itv.point q.1) (q.2.getD col .empty))) acc := by
  intro jrows
  induction jrows with
  | nil =>
    intro crow acc s a hs _
    simpa using hs
  | cons r rs ih =>
    intro crow acc s a hs ha
    cases crow with
    | nil =>
      simpa using hs
    | cons c cs =>
      simp only [List.zip_cons_cons, List.foldl_cons, List.length_cons]
      have h0 : a 0 ∈ r.getD col .empty := by
        have := ha 0 (by simp)
        simpa using this
      have := ih cs (Itv.add acc (Itv.mul (Itv.point c) (r.getD col .empty))) (s + (c : ℝ) * a 0)
        (fun k => a (k + 1)) (Itv.add_encl hs (Itv.mul_encl (mem_point_cast c) h0))
        (fun k hk => by
          have := ha (k + 1) (by simp; omega)
          simpa using this)
      rw [Finset.sum_range_succ']
      simp only [List.getD_cons_succ, List.getD_cons_zero]
      convert this using 1
      ring

/-- **`precond` encloses the product**: `(C·A)_{r,col} ∈ (precond C J)_{r,col}` for every `A ∈ J` -/
theorem precond_encl {c : List (List ℚ)} {j : List (List Itv)} {m : ℕ} (hj : j.length = m)
    (A : Fin m → Fin m → ℝ) (hA : ∀ i k : Fin m, A i k ∈ (j.getD i []).getD k .empty)
    (r col : Fin m) (hr : (r : ℕ) < c.length) :
    ∑ k : Fin m, (((c.getD r []).getD k 0 : ℚ) : ℝ) * A k col ∈
      ((Newton.precond c j).getD r []).getD col .empty := by
  let a : ℕ → ℝ := fun k => if h : k < m then A ⟨k, h⟩ col else 0
  have h := precond_fold_encl col j (c.getD r []) (Itv.point 0) 0 a (by simpa using mem_point_cast 0) (by
    intro k hk
    have hkm : k < m := hj ▸ hk
    have := hA ⟨k, hkm⟩ col
    have e : j.getD k [] = j[k] := by
      rw [List.getD_eq_getElem?_getD, List.getElem?_eq_getElem hk]; rfl
    simp only [a, dif_pos hkm]
    rw [← e]
    exact this)
  rw [zero_add, hj, ← Fin.sum_univ_eq_sum_range (fun k => (((c.getD r []).getD k 0 : ℚ) : ℝ) * a k) m] at h
  have e : ∀ k : Fin m, a k = A k col := fun k => by simp [a, k.2]
  simp only [e] at h
  have hcol : (col : ℕ) < j.length := hj ▸ col.2
  unfold Newton.precond
  simp only [List.getD_eq_getElem?_getD, List.getElem?_map, List.getElem?_eq_getElem hr,
    Option.map_some, Option.getD_some, List.getElem?_range hcol] at h ⊢
  exact h

theorem pivotStep_length {rows rows' : List (List ℚ)} {k : ℕ} (h : Newton.pivotStep rows k = some rows') :
    rows'.length = rows.length := by
  unfold Newton.pivotStep at h
  simp only at h
  split at h
  · exact absurd h (by simp)
  · split at h
    · exact absurd h (by simp)
    · simp only [Option.some.injEq] at h
      subst h
      simp

theorem foldlM_pivotStep_length : ∀ (l : List ℕ) {rows rows' : List (List ℚ)},
    l.foldlM (fun rows k => Newton.pivotStep rows k) rows = some rows' → rows'.length = rows.length := by
  intro l
  induction l with
  | nil => intro rows rows' h; simp at h; subst h; rfl
  | cons k l ih =>
    intro rows rows' h
    simp only [List.foldlM_cons, Bind.bind, Option.bind_eq_some_iff] at h
    obtain ⟨r1, h1, h2⟩ := h
    rw [ih h2, pivotStep_length h1]

/-- the Gauss-Jordan inverse has as many rows as its argument -/
theorem inverse_length {m c : List (List ℚ)} (h : Newton.inverse m = some c) : c.length = m.length := by
  unfold Newton.inverse at h
  simp only [Option.map_eq_some_iff] at h
  obtain ⟨rows, hrows, rfl⟩ := h
  rw [List.length_map, foldlM_pivotStep_length _ hrows]
  simp

/-- **Regularity from the preconditioned certificate**: if `C·[J]` is strictly diagonally dominant
    (`C` any rational matrix with as many rows as `J`) then every real matrix `A ∈ [J]` is injective. -/
theorem regular_of_cert {c : List (List ℚ)} {j : List (List Itv)} {m : ℕ} (hj : j.length = m)
    (hc : c.length = m) (hdd : Newton.diagDominant (Newton.precond c j) = true)
    (A : Fin m → Fin m → ℝ) (hA : ∀ i k : Fin m, A i k ∈ (j.getD i []).getD k .empty)
    (x : Fin m → ℝ) (hx : ∀ i, ∑ k, A i k * x k = 0) : x = 0 := by
  refine diagDominant_regular hdd (m := m) (by simp [Newton.precond, hc]) ?_
    (fun r col => ∑ k : Fin m, (((c.getD r []).getD k 0 : ℚ) : ℝ) * A k col)
    (fun r col => precond_encl hj A hA r col (hc ▸ r.2)) x fun r => ?_
  · intro row hrow
    simp only [Newton.precond, List.mem_map] at hrow
    obtain ⟨crow, _, rfl⟩ := hrow
    simp [hj]
  · calc ∑ col, (∑ k : Fin m, (((c.getD r []).getD k 0 : ℚ) : ℝ) * A k col) * x col
        = ∑ col, ∑ k : Fin m, (((c.getD r []).getD k 0 : ℚ) : ℝ) * (A k col * x col) := by
          refine Finset.sum_congr rfl fun col _ => ?_
          rw [Finset.sum_mul]
          exact Finset.sum_congr rfl fun k _ => by ring
      _ = ∑ k : Fin m, (((c.getD r []).getD k 0 : ℚ) : ℝ) * ∑ col, A k col * x col := by
          rw [Finset.sum_comm]
          exact Finset.sum_congr rfl fun k _ => by rw [Finset.mul_sum]
      _ = 0 := by simp [hx]

end

end Ibex
