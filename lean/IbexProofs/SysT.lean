/-
  C13 — soundness of the checkers with thick constants as atoms (`IbexModel/SysT.lean`) for the
  real semantics `Alg.realWith ch`, `ch` ANY selection of a member of each thick interval constant
  (`ChOK ch`: a degenerate constant `[q,q]` denotes `q`).  `Alg.real` is the case `ch = realOfItv`.
-/
import IbexProofs.SysCheck
import IbexModel.SysT

namespace Ibex
open Ibex Ibex.Eval List

/-- the selection gives degenerate constants their value -/
def ChOK (ch : Itv → Option ℝ) : Prop := ∀ I q x, ratOfItv I = some q → ch I = some x → x = (q : ℝ)

theorem chOK_realOfItv : ChOK realOfItv := by
  intro I q x hq hx
  unfold realOfItv at hx
  unfold ratOfItv at hq
  split at hx
  · rename_i a b
    simp only at hq
    split_ifs at hx hq with e
    simp only [Option.some.injEq] at hx hq
    rw [← hx, ← hq]
  · exact absurd hx (by simp)

theorem realWith_realOfItv : Alg.realWith realOfItv = Alg.real := rfl

theorem lookupIdx_spec {I : Itv} : ∀ {l : List Itv} {k j : ℕ}, lookupIdx I l k = some j →
    ∃ i, j = k + i ∧ l[i]? = some I
  | [], _, _, h => by simp [lookupIdx] at h
  | J :: l, k, j, h => by
    simp only [lookupIdx] at h
    split_ifs at h with e
    · simp only [Option.some.injEq] at h
      exact ⟨0, by omega, by simp [e]⟩
    · obtain ⟨i, hj, hi⟩ := lookupIdx_spec h
      exact ⟨i + 1, by omega, by simpa using hi⟩

/-- the values of the atoms under the selection `ch` -/
noncomputable def atomVals (ch : Itv → Option ℝ) (tbl : List Itv) : List ℝ := tbl.map fun I => (ch I).getD 0

/-- **Naturality with atoms**: as `Alg.real_rfT`, the thick constant `tbl[k]` being the variable
    `nv + k` whose value is the member selected by `ch`. -/
theorem Alg.realWith_rfT (B : ℕ) (tbl : List Itv) {nv : ℕ} {ch : Itv → Option ℝ} (hch : ChOK ch)
    (ρ : List ℝ) (hρ : ρ.length = nv) :
    AlgRel (RepO (valOf (ρ ++ atomVals ch tbl))) (Alg.realWith ch) (Alg.rfT B tbl nv).totalize where
  ofItv := by
    intro I x h
    refine ⟨_, rfl, ?_⟩
    intro f hf
    have hx : ch I = some x := h
    simp only [Alg.rfT] at hf
    split at hf
    · rename_i q hq
      simp only [Option.some.injEq] at hf
      subst hf
      rw [hch I q x hq hx]
      exact RF.Rep_const q
    · simp only [Option.map_eq_some_iff] at hf
      obtain ⟨j, hj, rfl⟩ := hf
      obtain ⟨i, rfl, hi⟩ := lookupIdx_spec hj
      have hv : valOf (ρ ++ atomVals ch tbl) (nv + (0 + i)) = x := by
        apply valOf_getElem?
        rw [getElem?_append_right (by omega)]
        have : nv + (0 + i) - ρ.length = i := by omega
        rw [this]
        simp [atomVals, hi, hx]
      have hr := RF.Rep_var (ρ := valOf (ρ ++ atomVals ch tbl)) (nv + (0 + i))
      rwa [hv] at hr
  zero := (Alg.real_rfT B _).zero
  add := (Alg.real_rfT B _).add
  sub := (Alg.real_rfT B _).sub
  mul := (Alg.real_rfT B _).mul
  div := (Alg.real_rfT B _).div
  max := (Alg.real_rfT B _).max
  min := (Alg.real_rfT B _).min
  un := (Alg.real_rfT B _).un
  pow := (Alg.real_rfT B _).pow
  chi := (Alg.real_rfT B _).chi

/-- the real environment consists of the values of the first variables -/
theorem env_relT (ρ ext : List ℝ) :
    Forall₂ (RepO (valOf (ρ ++ ext))) ρ ((Equiv.vars ρ.length).map some) := by
  rw [forall₂_iff_get]
  refine ⟨by simp [Equiv.vars], ?_⟩
  intro i h1 h2 f hf
  simp only [Equiv.vars, List.get_eq_getElem, List.getElem_map, List.getElem_range,
    Option.some.injEq] at hf
  subst hf
  have : valOf (ρ ++ ext) i = ρ[i] := valOf_getElem? (by rw [getElem?_append_left h1]; simp [h1])
  simpa [this] using RF.Rep_var (ρ := valOf (ρ ++ ext)) i

namespace Sys

/-- **The normal form over variables and atoms denotes the real value** under every selection. -/
theorem nfT_real {B : ℕ} {tbl : List Itv} {nv : ℕ} {p : Prog} {F : Mat RF} {ρ : List ℝ} {v : Mat ℝ}
    {ch : Itv → Option ℝ} (hch : ChOK ch) (hn : ρ.length = nv) (hF : nfT B tbl nv p = some F)
    (hv : evalR (Alg.realWith ch) p ρ = some v) :
    MatRel (RF.Rep (valOf (ρ ++ atomVals ch tbl))) v F := by
  subst hn
  obtain ⟨O, hO, hFO⟩ := Eval.root_rel_total (Alg.totalize_rel (Alg.rfT B tbl ρ.length)) (forall₂_rsome _)
    (Eval.buildCalls_rel_total (Alg.totalize_rel (Alg.rfT B tbl ρ.length)) p.funs
      (fun _ _ n _ => Alg.totalize_supp _ n))
    (fun n _ => Alg.totalize_supp _ n) hF
  have hvO := Eval.root_rel (Alg.realWith_rfT B tbl hch ρ rfl) (env_relT ρ _)
    (Eval.buildCalls_rel (Alg.realWith_rfT B tbl hch ρ rfl) p.funs) hv hO
  obtain ⟨hr, hc, hd⟩ := hvO
  obtain ⟨hr', hc', hd'⟩ := hFO
  refine ⟨hr.trans hr'.symm, hc.trans hc'.symm, ?_⟩
  rw [forall₂_rsome_eq hd', forall₂_map_right_iff] at hd
  exact hd.imp fun x f h => h f rfl

variable {ch : Itv → Option ℝ}

theorem progCheckTB_sound {B : ℕ} {tbl : List Itv} {nv : ℕ} {a b : Prog} (hch : ChOK ch)
    (h : progCheckTB B tbl nv a b = some true) {ρ : List ℝ} (hρ : ρ.length = nv) {v₁ v₂ : Mat ℝ}
    (h₁ : evalR (Alg.realWith ch) a ρ = some v₁) (h₂ : evalR (Alg.realWith ch) b ρ = some v₂) :
    v₁ = v₂ := by
  unfold progCheckTB at h
  simp only [bind, Option.bind_eq_some_iff] at h
  obtain ⟨F₁, hF₁, F₂, hF₂, h⟩ := h
  split_ifs at h with hdim
  swap
  · exact absurd h (by simp)
  obtain ⟨hr₁, hc₁, hd₁⟩ := nfT_real hch hρ hF₁ h₁
  obtain ⟨hr₂, hc₂, hd₂⟩ := nfT_real hch hρ hF₂ h₂
  have hd := eqvList_sound h hd₁ hd₂
  obtain ⟨r₁, c₁, d₁⟩ := v₁
  obtain ⟨r₂, c₂, d₂⟩ := v₂
  simp only at hr₁ hc₁ hr₂ hc₂ hd
  rw [hr₁, hc₁, hr₂, hc₂, hd, hdim.1, hdim.2]

theorem ctrsCheckT_forall₂ {tbl : List Itv} {nv : ℕ} : ∀ {as bs : List Ctr},
    ctrsCheckT tbl nv as bs = some true →
    Forall₂ (fun a b => a.op = b.op ∧ progCheckT tbl nv a.f b.f = some true) as bs
  | [], [], _ => Forall₂.nil
  | [], _ :: _, h => by simp [ctrsCheckT] at h
  | _ :: _, [], h => by simp [ctrsCheckT] at h
  | a :: as, b :: bs, h => by
    simp only [ctrsCheckT] at h
    split_ifs at h with hop
    · obtain ⟨h1, h2⟩ := optAnd_true h
      exact Forall₂.cons ⟨hop, h1⟩ (ctrsCheckT_forall₂ h2)
    · exact absurd h (by simp)

theorem sat_congrT {tbl : List Itv} {nv : ℕ} {a b : Ctr} (hch : ChOK ch) (hop : a.op = b.op)
    (h : progCheckT tbl nv a.f b.f = some true) {ρ : List ℝ} (hρ : ρ.length = nv)
    (ha : ∃ v, evalR (Alg.realWith ch) a.f ρ = some v) (hb : ∃ v, evalR (Alg.realWith ch) b.f ρ = some v) :
    a.Sat (Alg.realWith ch) ρ ↔ b.Sat (Alg.realWith ch) ρ := by
  obtain ⟨va, hva⟩ := ha
  obtain ⟨vb, hvb⟩ := hb
  have e := progCheckTB_sound hch h hρ hva hvb
  subst e
  constructor
  · rintro ⟨v, hv, hx⟩
    rw [hva] at hv
    cases hv
    exact ⟨va, hvb, by rwa [← hop]⟩
  · rintro ⟨v, hv, hx⟩
    rw [hvb] at hv
    cases hv
    exact ⟨va, hva, by rwa [hop]⟩

/-- **Accepted lists of constraints have the same solutions**, for every selection of the thick
    constants, at every real point where all the constraint functions are defined. -/
theorem ctrsCheckT_sound {tbl : List Itv} {nv : ℕ} {as bs : List Ctr} (hch : ChOK ch)
    (h : ctrsCheckT tbl nv as bs = some true) {ρ : List ℝ} (hρ : ρ.length = nv)
    (ha : Defined (Alg.realWith ch) as ρ) (hb : Defined (Alg.realWith ch) bs ρ) :
    SatAll (Alg.realWith ch) as ρ ↔ SatAll (Alg.realWith ch) bs ρ := by
  have hf := ctrsCheckT_forall₂ h
  clear h
  induction hf with
  | nil => simp [SatAll]
  | @cons a b as bs hab _ ih =>
    have ha' : Defined (Alg.realWith ch) as ρ := fun c hc => ha c (mem_cons_of_mem _ hc)
    have hb' : Defined (Alg.realWith ch) bs ρ := fun c hc => hb c (mem_cons_of_mem _ hc)
    have h1 := sat_congrT hch hab.1 hab.2 hρ (ha a mem_cons_self) (hb b mem_cons_self)
    have h2 := ih ha' hb'
    simp only [SatAll, forall_mem_cons] at h2 ⊢
    exact and_congr h1 h2

theorem flatNFT_rel {B : ℕ} {tbl : List Itv} {nv : ℕ} {ρ : List ℝ} (hch : ChOK ch) (hρ : ρ.length = nv) :
    ∀ {cs : List Ctr} {flat : List (RF × Cmp)}, flatNFT B tbl nv cs = some flat →
      Defined (Alg.realWith ch) cs ρ →
      ∃ xs, Forall₂ (RelNF (valOf (ρ ++ atomVals ch tbl))) xs flat ∧
        (AllHold xs ↔ SatAll (Alg.realWith ch) cs ρ)
  | [], flat, h, _ => by
    simp only [flatNFT, Option.some.injEq] at h
    subst h
    exact ⟨[], Forall₂.nil, by simp [AllHold, SatAll]⟩
  | c :: cs, flat, h, hd => by
    simp only [flatNFT, bind, Option.bind_eq_some_iff] at h
    obtain ⟨F, hF, rest, hrest, h⟩ := h
    simp only [pure, Option.some.injEq] at h
    subst h
    obtain ⟨v, hv⟩ := hd c mem_cons_self
    obtain ⟨xs, hxs, hiff⟩ := flatNFT_rel hch hρ hrest (fun c' hc' => hd c' (mem_cons_of_mem _ hc'))
    have hrep := (nfT_real hch hρ hF hv).2.2
    refine ⟨v.d.map (fun x => (x, c.op)) ++ xs, ?_, ?_⟩
    · refine rel_append ?_ hxs
      rw [forall₂_map_left_iff, forall₂_map_right_iff]
      exact hrep.imp fun x e hxe => ⟨hxe, rfl⟩
    · rw [allHold_append, hiff]
      simp only [SatAll, forall_mem_cons]
      refine and_congr ?_ Iff.rfl
      constructor
      · intro hall
        exact ⟨v, hv, fun x hx => hall (x, c.op) (mem_map.mpr ⟨x, hx, rfl⟩)⟩
      · rintro ⟨v', hv', hall⟩ p hp
        rw [hv] at hv'
        cases hv'
        obtain ⟨x, hx, rfl⟩ := mem_map.mp hp
        exact hall x hx

/-- **`f_ctrs` with `ops[]` describes the constraints**, for every selection of the thick constants. -/
theorem flatCheckTB_sound {B : ℕ} {tbl : List Itv} {nv : ℕ} {cs : List Ctr} {f : Prog} {ops : List Cmp}
    (hch : ChOK ch) (h : flatCheckTB B tbl nv cs f ops = some true) {ρ : List ℝ} (hρ : ρ.length = nv)
    (hd : Defined (Alg.realWith ch) cs ρ) {w : Mat ℝ} (hw : evalR (Alg.realWith ch) f ρ = some w) :
    SatF (Alg.realWith ch) f ops ρ ↔ SatAll (Alg.realWith ch) cs ρ := by
  simp only [flatCheckTB, bind, Option.bind_eq_some_iff] at h
  obtain ⟨F, hF, flat, hflat, h⟩ := h
  split_ifs at h with hl
  swap
  · exact absurd h (by simp)
  obtain ⟨xs, hxs, hiff⟩ := flatNFT_rel hch hρ hflat hd
  have hrep := (nfT_real hch hρ hF hw).2.2
  obtain ⟨hz, hzi⟩ := forall₂_zip_ops hrep hl
  rw [← hiff, matchAll_sound h hxs hz, hzi]
  constructor
  · rintro ⟨v, hv, hall⟩
    rw [hw] at hv
    cases hv
    exact hall
  · intro hall
    exact ⟨w, hw, hall⟩

end Sys
end Ibex
