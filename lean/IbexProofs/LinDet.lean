/-
  C15 — the exact rational linear algebra of `IbexModel/LinAlg.lean` against Mathlib's matrices:

  * `detQ_eq_det`  : the executable Laplace expansion `LinAlg.detQ` IS `Matrix.det` (any list of rows,
                     missing entries read as 0);
  * `det_vertices_sound` : the determinant is affine in each entry, so an interval containing the
                     determinants of all vertex matrices contains the determinant of every real
                     matrix of the interval matrix;
  * `sdd_det_ne_zero` : strict diagonal dominance implies regularity (Gershgorin);
  * `isInverse_sound` : the inverse certificate `A·B = I`.
-/
import IbexProofs.LinAlg
import Mathlib.LinearAlgebra.Matrix.Determinant.Basic
import Mathlib.Algebra.BigOperators.Fin
import Mathlib.LinearAlgebra.Matrix.Gershgorin
import Mathlib.LinearAlgebra.Matrix.NonsingularInverse
import Mathlib.LinearAlgebra.Matrix.ToLinearEquiv

namespace Ibex.LinAlg
open Ibex Matrix

/-- the `m × n` matrix read from a list of rows (missing rows / entries are 0) -/
def toMat {K : Type} [Zero K] (m n : Nat) (A : List (List K)) : Matrix (Fin m) (Fin n) K :=
  fun i j => (A.getD i []).getD j 0

theorem getD_eraseIdx {α : Type} (d : α) : ∀ (l : List α) (j k : Nat),
    (l.eraseIdx j).getD k d = l.getD (if k < j then k else k + 1) d := by
  intro l
  induction l with
  | nil => intro j k; simp
  | cons a as ih =>
    intro j k
    cases j with
    | zero => simp
    | succ j =>
      cases k with
      | zero => simp
      | succ k =>
        simp only [List.eraseIdx_cons_succ, List.getD_cons_succ, ih, Nat.add_lt_add_iff_right]
        split <;> simp

theorem getD_map_eraseIdx {α : Type} (rest : List (List α)) (j i : Nat) :
    (rest.map (·.eraseIdx j)).getD i [] = (rest.getD i []).eraseIdx j := by
  induction rest generalizing i with
  | nil => simp
  | cons r rs ih =>
    cases i with
    | zero => simp
    | succ i => simpa using ih i

theorem list_range_sum {M : Type} [AddCommMonoid M] (f : Nat → M) :
    ∀ n, ((List.range n).map f).sum = ∑ j : Fin n, f j := by
  intro n
  induction n with
  | zero => simp
  | succ n ih =>
    rw [List.range_succ, List.map_append, List.sum_append, ih, Fin.sum_univ_castSucc]
    simp

theorem altSign_eq (j : Nat) : altSign j = (-1 : ℚ) ^ j := by
  unfold altSign
  rcases Nat.even_or_odd j with h | h
  · rw [if_pos (Nat.even_iff.1 h), h.neg_one_pow]
  · rw [if_neg (by rw [Nat.odd_iff.1 h]; decide), h.neg_one_pow]

/-- **the executable determinant is the determinant** (Laplace expansion along the first row,
    all sizes, any list of rows) -/
theorem detQ_eq_det : ∀ (n : Nat) (A : List (List ℚ)), detQ n A = (toMat n n A).det := by
  intro n
  induction n with
  | zero => intro A; simp [detQ]
  | succ n ih =>
    intro A
    cases A with
    | nil =>
      have : toMat (n + 1) (n + 1) ([] : List (List ℚ)) = 0 := by
        funext i j; simp [toMat]
      rw [this, Matrix.det_zero]; simp [detQ]
    | cons row rest =>
      rw [Matrix.det_succ_row_zero]
      simp only [detQ]
      rw [list_range_sum]
      refine Finset.sum_congr rfl fun j _ => ?_
      have hsub : toMat n n (rest.map (·.eraseIdx j)) =
          (toMat (n + 1) (n + 1) (row :: rest)).submatrix Fin.succ j.succAbove := by
        funext i k
        simp only [toMat, Matrix.submatrix_apply, Fin.val_succ, List.getD_cons_succ,
          getD_map_eraseIdx, getD_eraseIdx]
        congr 1
        by_cases h : (k : Nat) < j
        · rw [if_pos h, Fin.succAbove_of_castSucc_lt j k (by simpa [Fin.lt_def] using h)]
          simp
        · rw [if_neg h, Fin.succAbove_of_le_castSucc j k (by simpa [Fin.le_def] using Nat.le_of_not_lt h)]
          simp
      rw [ih, altSign_eq, hsub]
      simp [toMat]

/-- the real matrix read from a list of rational rows -/
def toMatR (m n : Nat) (A : List (List ℚ)) : Matrix (Fin m) (Fin n) ℝ :=
  fun i j => (((A.getD i []).getD j 0 : ℚ) : ℝ)

theorem toMatR_eq_map (n : Nat) (A : List (List ℚ)) :
    toMatR n n A = (Rat.castHom ℝ).mapMatrix (toMat n n A) := by
  funext i j; rfl

theorem detQ_cast (n : Nat) (A : List (List ℚ)) : ((detQ n A : ℚ) : ℝ) = (toMatR n n A).det := by
  rw [detQ_eq_det, toMatR_eq_map, ← RingHom.map_det]
  rfl


/-! ### functions affine in each entry attain their bounds at the vertices -/

/-- `G` is affine in each component of its argument -/
def VecAffine (G : List ℝ → ℝ) : Prop :=
  ∀ (pre post : List ℝ) (p q lam : ℝ),
    G (pre ++ (lam * p + (1 - lam) * q) :: post) = lam * G (pre ++ p :: post) + (1 - lam) * G (pre ++ q :: post)

/-- `G` is affine in each entry of its (list of rows) argument -/
def MatAffine (G : List (List ℝ) → ℝ) : Prop :=
  ∀ (Rpre Rpost : List (List ℝ)), VecAffine fun r => G (Rpre ++ r :: Rpost)

theorem corners_some {I : Itv} {cs : List Rat} (h : corners I = some cs) :
    ∃ a b : Rat, I = .mk (.fin a) (.fin b) ∧ ((a = b ∧ cs = [a]) ∨ (a < b ∧ cs = [a, b])) := by
  cases I with
  | empty => simp [corners] at h
  | mk lo hi =>
    cases lo <;> cases hi <;> simp only [corners, reduceCtorEq] at h
    rename_i a b
    refine ⟨a, b, rfl, ?_⟩
    by_cases hab : a = b
    · subst hab; simp at h; exact Or.inl ⟨rfl, h.symm⟩
    · have hne : (a == b) = false := by simpa using hab
      rw [hne] at h
      simp only [Bool.false_eq_true, if_false] at h
      by_cases hlt : a < b
      · rw [if_pos hlt] at h; exact Or.inr ⟨hlt, by simpa using h.symm⟩
      · rw [if_neg hlt] at h; simp at h

theorem convex_bound {lo hi ga gb lam : ℝ} (h0 : 0 ≤ lam) (h1 : lam ≤ 1)
    (ha : lo ≤ ga ∧ ga ≤ hi) (hb : lo ≤ gb ∧ gb ≤ hi) :
    lo ≤ lam * ga + (1 - lam) * gb ∧ lam * ga + (1 - lam) * gb ≤ hi := by
  have h2 : 0 ≤ 1 - lam := by linarith
  constructor
  · nlinarith [mul_le_mul_of_nonneg_left ha.1 h0, mul_le_mul_of_nonneg_left hb.1 h2]
  · nlinarith [mul_le_mul_of_nonneg_left ha.2 h0, mul_le_mul_of_nonneg_left hb.2 h2]

theorem vec_vertices_bound {lo hi : ℝ} : ∀ {X : IVec} {G : List ℝ → ℝ} {vs : List QVec}, VecAffine G →
    vecVertices X = some vs → (∀ v ∈ vs, lo ≤ G (castV v) ∧ G (castV v) ≤ hi) →
    ∀ x, VMem x X → lo ≤ G x ∧ G x ≤ hi := by
  intro X
  induction X with
  | nil =>
    intro G vs _ hvs hv x hx
    cases hx
    simp only [vecVertices, Option.some.injEq] at hvs
    subst hvs
    simpa [castV] using hv [] (by simp)
  | cons I Xs ih =>
    intro G vs hG hvs hv x hx
    simp only [vecVertices, Option.bind_eq_bind, Option.bind_eq_some_iff, Option.pure_def,
      Option.some.injEq] at hvs
    obtain ⟨cs, hcs, rest, hrest, rfl⟩ := hvs
    cases hx with
    | @cons x0 _ xs _ hx0 hxs =>
      -- for every corner `c`, the bound holds on the whole remaining box
      have hc : ∀ c ∈ cs, lo ≤ G ((c : ℝ) :: xs) ∧ G ((c : ℝ) :: xs) ≤ hi := by
        intro c hcm
        have hGc : VecAffine fun t => G ((c : ℝ) :: t) := fun pre post p q lam => hG ((c : ℝ) :: pre) post p q lam
        refine ih hGc hrest ?_ xs hxs
        intro v hvm
        have : (c :: v) ∈ List.flatMap (fun c => List.map (fun x => c :: x) rest) cs :=
          List.mem_flatMap.2 ⟨c, hcm, List.mem_map.2 ⟨v, hvm, rfl⟩⟩
        simpa [castV] using hv (c :: v) this
      obtain ⟨a, b, rfl, hab⟩ := corners_some hcs
      obtain ⟨h1, h2⟩ := hx0
      simp only [Ext.toE_fin, EReal.coe_le_coe_iff] at h1 h2
      rcases hab with ⟨rfl, rfl⟩ | ⟨hlt, rfl⟩
      · have : x0 = (a : ℝ) := le_antisymm h2 h1
        rw [this]; exact hc a (by simp)
      · have hba : (0 : ℝ) < (b : ℝ) - a := by
          have : (a : ℝ) < b := by exact_mod_cast hlt
          linarith
        set lam : ℝ := ((b : ℝ) - x0) / ((b : ℝ) - a) with hlam
        have hl0 : 0 ≤ lam := div_nonneg (by linarith) hba.le
        have hl1 : lam ≤ 1 := by rw [hlam, div_le_one hba]; linarith
        have hx0 : x0 = lam * (a : ℝ) + (1 - lam) * (b : ℝ) := by
          rw [hlam]; field_simp; ring
        have := hG [] xs (a : ℝ) (b : ℝ) lam
        simp only [List.nil_append] at this
        rw [hx0, this]
        exact convex_bound hl0 hl1 (hc a (by simp)) (hc b (by simp))

theorem mat_vertices_bound {lo hi : ℝ} : ∀ {A : IMat} {G : List (List ℝ) → ℝ} {vs : List QMat}, MatAffine G →
    matVertices A = some vs → (∀ V ∈ vs, lo ≤ G (castM V) ∧ G (castM V) ≤ hi) →
    ∀ a, MMem a A → lo ≤ G a ∧ G a ≤ hi := by
  intro A
  induction A with
  | nil =>
    intro G vs _ hvs hv a ha
    cases ha
    simp only [matVertices, Option.some.injEq] at hvs
    subst hvs
    simpa [castM] using hv [] (by simp)
  | cons R Rs ih =>
    intro G vs hG hvs hv a ha
    simp only [matVertices, Option.bind_eq_bind, Option.bind_eq_some_iff, Option.pure_def,
      Option.some.injEq] at hvs
    obtain ⟨rvs, hrvs, rest, hrest, rfl⟩ := hvs
    cases ha with
    | @cons r _ rows _ hr hrows =>
      -- the first row fixed at a vertex: bound on all remaining rows
      have hv1 : ∀ v ∈ rvs, lo ≤ G (castV v :: rows) ∧ G (castV v :: rows) ≤ hi := by
        intro v hvm
        have hGv : MatAffine fun t => G (castV v :: t) :=
          fun Rpre Rpost pre post p q lam => hG (castV v :: Rpre) Rpost pre post p q lam
        refine ih hGv hrest ?_ rows hrows
        intro W hW
        have : (v :: W) ∈ List.flatMap (fun v => List.map (fun x => v :: x) rest) rvs :=
          List.mem_flatMap.2 ⟨v, hvm, List.mem_map.2 ⟨W, hW, rfl⟩⟩
        simpa [castM] using hv (v :: W) this
      have hGr : VecAffine fun t => G (t :: rows) := by
        have := hG [] rows
        simpa using this
      exact vec_vertices_bound hGr hrvs hv1 r hr

/-! ### the determinant is affine in each entry -/

theorem det_update_entry_affine {n : Nat} (M : Matrix (Fin n) (Fin n) ℝ) (i j : Fin n) (p q lam : ℝ) :
    (M.updateRow i (Function.update (M i) j (lam * p + (1 - lam) * q))).det =
      lam * (M.updateRow i (Function.update (M i) j p)).det +
        (1 - lam) * (M.updateRow i (Function.update (M i) j q)).det := by
  have : Function.update (M i) j (lam * p + (1 - lam) * q) =
      lam • Function.update (M i) j p + (1 - lam) • Function.update (M i) j q := by
    funext k
    by_cases hk : k = j
    · subst hk; simp
    · simp [Function.update_of_ne hk]; ring
  rw [this, Matrix.det_updateRow_add, Matrix.det_updateRow_smul, Matrix.det_updateRow_smul]

theorem getD_append_cons {α : Type} (d : α) (pre post : List α) (z : α) (k : Nat) :
    (pre ++ z :: post).getD k d = if k = pre.length then z else (pre ++ d :: post).getD k d := by
  induction pre generalizing k with
  | nil => cases k <;> simp
  | cons a as ih =>
    cases k with
    | zero => simp
    | succ k => simpa using ih k

/-- the matrix read from rows where one entry is the parameter `z` -/
theorem toMat_entry {n : Nat} (Rpre Rpost : List (List ℝ)) (pre post : List ℝ) (z : ℝ) (i j : Fin n) :
    toMat n n (Rpre ++ (pre ++ z :: post) :: Rpost) i j =
      if (i : Nat) = Rpre.length ∧ (j : Nat) = pre.length then z
      else toMat n n (Rpre ++ (pre ++ 0 :: post) :: Rpost) i j := by
  unfold toMat
  rw [getD_append_cons [] Rpre Rpost, getD_append_cons [] Rpre Rpost (pre ++ 0 :: post)]
  by_cases hi : (i : Nat) = Rpre.length
  · simp only [hi, if_true, true_and]
    rw [getD_append_cons 0 pre post z]
  · simp [hi]

theorem det_toMat_matAffine (n : Nat) : MatAffine fun a => (toMat n n a).det := by
  intro Rpre Rpost pre post p q lam
  simp only
  by_cases hi : Rpre.length < n
  · by_cases hj : pre.length < n
    · -- the entry is inside the matrix
      let i : Fin n := ⟨Rpre.length, hi⟩
      let j : Fin n := ⟨pre.length, hj⟩
      let M0 := toMat n n (Rpre ++ (pre ++ 0 :: post) :: Rpost)
      have hM0 : M0 = toMat n n (Rpre ++ (pre ++ 0 :: post) :: Rpost) := rfl
      have key : ∀ z : ℝ, toMat n n (Rpre ++ (pre ++ z :: post) :: Rpost) =
          M0.updateRow i (Function.update (M0 i) j z) := by
        intro z
        funext i' j'
        rw [toMat_entry, Matrix.updateRow_apply, Function.update_apply]
        by_cases h1 : i' = i
        · by_cases h2 : j' = j
          · simp [h1, h2, i, j]
          · have : ¬ ((j' : Nat) = pre.length) := fun h => h2 (Fin.ext h)
            simp [h1, h2, this, hM0]
        · have : ¬ ((i' : Nat) = Rpre.length) := fun h => h1 (Fin.ext h)
          simp [h1, this, hM0]
      rw [key, key, key]
      exact det_update_entry_affine M0 i j p q lam
    · have key : ∀ z : ℝ, toMat n n (Rpre ++ (pre ++ z :: post) :: Rpost) =
          toMat n n (Rpre ++ (pre ++ 0 :: post) :: Rpost) := by
        intro z; funext i' j'
        rw [toMat_entry]
        have : ¬ ((j' : Nat) = pre.length) := fun h => hj (h ▸ j'.2)
        simp [this]
      rw [key, key p, key q]; ring
  · have key : ∀ z : ℝ, toMat n n (Rpre ++ (pre ++ z :: post) :: Rpost) =
        toMat n n (Rpre ++ (pre ++ 0 :: post) :: Rpost) := by
      intro z; funext i' j'
      rw [toMat_entry]
      have : ¬ ((i' : Nat) = Rpre.length) := fun h => hi (h ▸ i'.2)
      simp [this]
    rw [key, key p, key q]; ring

theorem getD_map' {α β : Type} (f : α → β) (d : α) : ∀ (l : List α) (k : Nat),
    (l.map f).getD k (f d) = f (l.getD k d) := by
  intro l
  induction l with
  | nil => intro k; simp
  | cons a as ih =>
    intro k
    cases k with
    | zero => simp
    | succ k => simp

theorem toMat_castM (m n : Nat) (V : QMat) : toMat m n (castM V) = toMatR m n V := by
  funext i j
  simp only [toMat, toMatR, castM]
  have h1 := getD_map' castV ([] : List ℚ) V i
  have h1' : castV ([] : List ℚ) = [] := rfl
  rw [h1'] at h1
  rw [h1]
  have h2 := getD_map' (fun q : ℚ => (q : ℝ)) 0 (V.getD i []) j
  simp only [Rat.cast_zero] at h2
  unfold castV
  exact h2

/-- **determinant by vertex enumeration**: if the interval `D` contains the exact determinant of every
    vertex matrix of `[A]`, it contains the determinant of EVERY real matrix of `[A]`. -/
theorem det_vertices_sound {n : Nat} {A : IMat} {vs : List QMat} {lo hi : Ext}
    (hvs : matVertices A = some vs) (hchk : detVerticesIn n vs (.mk lo hi) = true)
    {a : RMat} (ha : MMem a A) : (toMat n n a).det ∈ Itv.mk lo hi := by
  -- work with real bounds through EReal: treat the two sides separately
  have hV : ∀ V ∈ vs, lo.toE ≤ (((toMat n n (castM V)).det : ℝ) : EReal) ∧
      (((toMat n n (castM V)).det : ℝ) : EReal) ≤ hi.toE := by
    intro V hVm
    simp only [detVerticesIn, List.all_eq_true] at hchk
    have := Bwd.containsExt_fin.1 (hchk V hVm)
    rw [detQ_cast, ← toMat_castM] at this
    exact this
  constructor
  · -- lower bound
    cases lo with
    | ninf => simp
    | pinf =>
      -- impossible unless there is no vertex; but then use any vertex bound
      rcases vs with _ | ⟨V, vs'⟩
      · have := mat_vertices_bound (lo := 1) (hi := 0) (det_toMat_matAffine n) hvs (by simp) a ha
        linarith [this.1, this.2]
      · exact absurd (hV V (by simp)).1 (by simp)
    | fin l =>
      have := mat_vertices_bound (lo := (l : ℝ)) (hi := (toMat n n a).det ⊔ (vs.map fun V => (toMat n n (castM V)).det).foldr max 0)
        (det_toMat_matAffine n) hvs ?_ a ha
      · simpa using this.1
      · intro V hVm
        refine ⟨by simpa using (hV V hVm).1, le_sup_of_le_right ?_⟩
        have : ∀ (l : List ℝ) (x : ℝ), x ∈ l → x ≤ l.foldr max 0 := by
          intro l
          induction l with
          | nil => intro x hx; simp at hx
          | cons y ys ih =>
            intro x hx
            rcases List.mem_cons.1 hx with rfl | h
            · exact le_max_left _ _
            · exact le_trans (ih x h) (le_max_right _ _)
        exact this _ _ (List.mem_map.2 ⟨V, hVm, rfl⟩)
  · cases hi with
    | pinf => simp
    | ninf =>
      rcases vs with _ | ⟨V, vs'⟩
      · have := mat_vertices_bound (lo := 1) (hi := 0) (det_toMat_matAffine n) hvs (by simp) a ha
        linarith [this.1, this.2]
      · exact absurd (hV V (by simp)).2 (by simp)
    | fin h =>
      have := mat_vertices_bound (lo := (toMat n n a).det ⊓ (vs.map fun V => (toMat n n (castM V)).det).foldr min 0)
        (hi := (h : ℝ)) (det_toMat_matAffine n) hvs ?_ a ha
      · simpa using this.2
      · intro V hVm
        refine ⟨inf_le_of_right_le ?_, by simpa using (hV V hVm).2⟩
        have : ∀ (l : List ℝ) (x : ℝ), x ∈ l → l.foldr min 0 ≤ x := by
          intro l
          induction l with
          | nil => intro x hx; simp at hx
          | cons y ys ih =>
            intro x hx
            rcases List.mem_cons.1 hx with rfl | h
            · exact min_le_left _ _
            · exact le_trans (min_le_right _ _) (ih x h)
        exact this _ _ (List.mem_map.2 ⟨V, hVm, rfl⟩)


theorem foldr_min_le : ∀ (l : List ℝ) (d x : ℝ), x ∈ l → l.foldr min d ≤ x := by
  intro l
  induction l with
  | nil => intro d x hx; simp at hx
  | cons y ys ih =>
    intro d x hx
    rcases List.mem_cons.1 hx with rfl | h
    · exact min_le_left _ _
    · exact le_trans (min_le_right _ _) (ih d x h)

theorem le_foldr_max : ∀ (l : List ℝ) (d x : ℝ), x ∈ l → x ≤ l.foldr max d := by
  intro l
  induction l with
  | nil => intro d x hx; simp at hx
  | cons y ys ih =>
    intro d x hx
    rcases List.mem_cons.1 hx with rfl | h
    · exact le_max_left _ _
    · exact le_trans (ih d x h) (le_max_right _ _)

theorem foldr_min_pos : ∀ (l : List ℝ) (d : ℝ), 0 < d → (∀ x ∈ l, 0 < x) → 0 < l.foldr min d := by
  intro l
  induction l with
  | nil => intro d hd _; simpa using hd
  | cons y ys ih =>
    intro d hd h
    simp only [List.foldr_cons]
    exact lt_min (h y (by simp)) (ih d hd fun x hx => h x (by simp [hx]))

theorem foldr_max_neg : ∀ (l : List ℝ) (d : ℝ), d < 0 → (∀ x ∈ l, x < 0) → l.foldr max d < 0 := by
  intro l
  induction l with
  | nil => intro d hd _; simpa using hd
  | cons y ys ih =>
    intro d hd h
    simp only [List.foldr_cons]
    exact max_lt (h y (by simp)) (ih d hd fun x hx => h x (by simp [hx]))

/-- **regularity by vertex enumeration**: if the determinants of all vertex matrices have the same
    strict sign, every real matrix of `[A]` is regular (non-zero determinant). -/
theorem det_vertices_regular {n : Nat} {A : IMat} {vs : List QMat}
    (hvs : matVertices A = some vs) (hchk : detVerticesSameSign n vs = true)
    {a : RMat} (ha : MMem a A) : (toMat n n a).det ≠ 0 := by
  let ds : List ℝ := vs.map fun V => (toMat n n (castM V)).det
  have hds : ∀ V ∈ vs, (toMat n n (castM V)).det = ((detQ n V : ℚ) : ℝ) := by
    intro V _; rw [detQ_cast, toMat_castM]
  simp only [detVerticesSameSign, Bool.or_eq_true, List.all_eq_true, decide_eq_true_eq] at hchk
  rcases hchk with hpos | hneg
  · have hp : ∀ x ∈ ds, 0 < x := by
      intro x hx
      obtain ⟨V, hV, rfl⟩ := List.mem_map.1 hx
      rw [hds V hV]; exact_mod_cast hpos V hV
    have := mat_vertices_bound (lo := ds.foldr min 1) (hi := ds.foldr max 0) (det_toMat_matAffine n) hvs
      (fun V hV => ⟨foldr_min_le ds 1 _ (List.mem_map.2 ⟨V, hV, rfl⟩),
        le_foldr_max ds 0 _ (List.mem_map.2 ⟨V, hV, rfl⟩)⟩) a ha
    have h0 := foldr_min_pos ds 1 one_pos hp
    exact ne_of_gt (lt_of_lt_of_le h0 this.1)
  · have hn : ∀ x ∈ ds, x < 0 := by
      intro x hx
      obtain ⟨V, hV, rfl⟩ := List.mem_map.1 hx
      rw [hds V hV]; exact_mod_cast hneg V hV
    have := mat_vertices_bound (lo := ds.foldr min 0) (hi := ds.foldr max (-1)) (det_toMat_matAffine n) hvs
      (fun V hV => ⟨foldr_min_le ds 0 _ (List.mem_map.2 ⟨V, hV, rfl⟩),
        le_foldr_max ds (-1) _ (List.mem_map.2 ⟨V, hV, rfl⟩)⟩) a ha
    have h0 := foldr_max_neg ds (-1) (by norm_num) hn
    exact ne_of_lt (lt_of_le_of_lt this.2 h0)

/-! ### strict diagonal dominance implies regularity (Gershgorin) -/

theorem offAbsR_eq_sum (i : Nat) : ∀ (row : List ℝ) (k n : Nat), row.length ≤ n →
    offAbsR i k row = ∑ j : Fin n, if (j : Nat) + k = i then 0 else |row.getD j 0| := by
  intro row
  induction row with
  | nil => intro k n _; simp [offAbsR]
  | cons a as ih =>
    intro k n hn
    cases n with
    | zero => simp at hn
    | succ n =>
      rw [offAbsR, ih (k + 1) n (by simpa using hn), Fin.sum_univ_succ]
      congr 1
      · simp [eq_comm]
      · refine Finset.sum_congr rfl fun j _ => ?_
        simp only [Fin.val_succ, List.getD_cons_succ]
        have : ((j : Nat) + 1 + k = i) ↔ ((j : Nat) + (k + 1) = i) := by omega
        simp only [this]

/-- a strictly diagonally dominant real matrix (`SDDRows`, all rows of length ≤ n, n rows) is regular -/
theorem sdd_det_ne_zero {n : Nat} {a : RMat} (hlen : a.length = n) (hrow : ∀ r ∈ a, r.length ≤ n)
    (h : SDDRows 0 a) : (toMat n n a).det ≠ 0 := by
  apply det_ne_zero_of_sum_row_lt_diag
  intro k
  -- row k of the list
  have key : ∀ (rows : RMat) (i0 : Nat), SDDRows i0 rows → ∀ t, (ht : t < rows.length) →
      offAbsR (i0 + t) 0 rows[t] < |rows[t].getD (i0 + t) 0| := by
    intro rows
    induction rows with
    | nil => intro i0 _ t ht; simp at ht
    | cons r rs ih =>
      intro i0 hs t ht
      cases t with
      | zero => simpa using hs.1
      | succ t =>
        have := ih (i0 + 1) hs.2 t (by simpa using ht)
        simpa [Nat.add_assoc, Nat.add_comm 1 t] using this
  have hk : (k : Nat) < a.length := by rw [hlen]; exact k.2
  have := key a 0 h k hk
  simp only [Nat.zero_add] at this
  rw [offAbsR_eq_sum k a[(k : Nat)] 0 n (hrow _ (List.getElem_mem hk))] at this
  have hrowk : a.getD k [] = a[(k : Nat)] := by simp [List.getD_eq_getElem?_getD, hk]
  simp only [toMat, hrowk, Real.norm_eq_abs]
  calc ∑ j ∈ Finset.univ.erase k, |a[(k : Nat)].getD j 0|
      = ∑ j : Fin n, if (j : Nat) + 0 = k then 0 else |a[(k : Nat)].getD j 0| := by
        rw [← Finset.sum_erase (s := Finset.univ) (a := k) (f := fun j : Fin n =>
          if (j : Nat) + 0 = k then 0 else |a[(k : Nat)].getD j 0|) (by simp)]
        refine Finset.sum_congr rfl fun j hj => ?_
        have : ¬ ((j : Nat) + 0 = k) := by
          simp only [Nat.add_zero]
          exact fun h => (Finset.ne_of_mem_erase hj) (Fin.ext h)
        rw [if_neg this]
    _ < _ := this


/-! ### certificates checked on rational instances: inverse, kernel vector, quadratic form -/

/-- the vector read from a list (missing entries are 0) -/
def toVec {K : Type} [Zero K] (n : Nat) (v : List K) : Fin n → K := fun k => v.getD k 0

theorem dotQ_eq_sum : ∀ (v u : List ℚ) (n : Nat), v.length = n →
    dotQ u v = ∑ k : Fin n, u.getD k 0 * v.getD k 0 := by
  intro v
  induction v with
  | nil => intro u n hn; subst hn; cases u <;> simp [dotQ]
  | cons v0 vs ih =>
    intro u n hn
    cases n with
    | zero => simp at hn
    | succ n =>
      cases u with
      | nil => simp [dotQ]
      | cons u0 us =>
        rw [dotQ, ih us n (by simpa using hn), Fin.sum_univ_succ]
        simp

theorem range_map_getD' {α : Type} (f : Nat → α) (d : α) (n j : Nat) (hj : j < n) :
    ((List.range n).map f).getD j d = f j := by
  simp [List.getD_eq_getElem?_getD, hj]

theorem colQ_getD (B : QMat) (j k : Nat) : (colQ B j).getD k 0 = (B.getD k []).getD j 0 := by
  have := getD_map' (fun r : List ℚ => r.getD j 0) [] B k
  simpa [colQ] using this

/-- **inverse certificate**: `isInverse n A B` means `A · B = 1` as matrices, hence `B = A⁻¹` -/
theorem isInverse_sound {n : Nat} {A B : QMat} (h : isInverse n A B = true) :
    toMat n n A * toMat n n B = 1 := by
  simp only [isInverse, Bool.and_eq_true, beq_iff_eq] at h
  obtain ⟨⟨hA, hB⟩, hmul⟩ := h
  funext i j
  rw [Matrix.mul_apply]
  have hi : (i : Nat) < A.length := by rw [hA]; exact i.2
  have h1 : ((mulQ n A B).getD i []).getD j 0 = ((idQ n).getD i []).getD j 0 := by rw [hmul]
  have hl : (mulQ n A B).getD i [] = (List.range n).map fun j => dotQ (A.getD i []) (colQ B j) := by
    have := getD_map' (fun row : List ℚ => (List.range n).map fun j => dotQ row (colQ B j)) [] A i
    unfold mulQ
    rw [List.getD_eq_getElem?_getD, List.getD_eq_getElem?_getD]
    simp [hi]
  have hr : (idQ n).getD i [] = (List.range n).map fun j => if (i : Nat) = j then (1 : ℚ) else 0 := by
    unfold idQ
    rw [range_map_getD' _ _ _ _ i.2]
  rw [hl, hr, range_map_getD' _ _ _ _ j.2, range_map_getD' _ _ _ _ j.2,
    dotQ_eq_sum (colQ B j) (A.getD i []) n (by simp [colQ, hB])] at h1
  rw [Matrix.one_apply]
  simp only [toMat]
  have : (∑ k : Fin n, (A.getD i []).getD k 0 * (colQ B j).getD k 0) =
      ∑ k : Fin n, (A.getD i []).getD k 0 * (B.getD k []).getD j 0 := by
    refine Finset.sum_congr rfl fun k _ => ?_
    rw [colQ_getD]
  rw [← this, h1]
  by_cases hij : i = j
  · simp [hij]
  · have : ¬ ((i : Nat) = j) := fun h => hij (Fin.ext h)
    simp [hij, this]

theorem isZeroVec_iff (v : QVec) : isZeroVec v = true ↔ ∀ x ∈ v, x = 0 := by
  simp [isZeroVec]

/-- **kernel certificate**: `isNullVec n A v` exhibits a non-zero vector of the kernel of the `m × n`
    matrix `A` (its columns are linearly dependent; for a square matrix its determinant is 0). -/
theorem isNullVec_sound {m n : Nat} {A : QMat} {v : QVec} (hm : A.length = m) (h : isNullVec n A v = true) :
    toVec n v ≠ 0 ∧ (toMat m n A).mulVec (toVec n v) = 0 := by
  simp only [isNullVec, Bool.and_eq_true, beq_iff_eq, Bool.not_eq_eq_eq_not, Bool.not_true] at h
  obtain ⟨⟨hlen, hnz⟩, hz⟩ := h
  constructor
  · intro h0
    have : isZeroVec v = true := by
      rw [isZeroVec_iff]
      intro x hx
      obtain ⟨k, hk, rfl⟩ := List.getElem_of_mem hx
      have := congrFun h0 ⟨k, by rw [← hlen]; exact hk⟩
      simpa [toVec, List.getD_eq_getElem?_getD, hk] using this
    rw [this] at hnz; exact absurd hnz (by simp)
  · funext i
    simp only [Matrix.mulVec, dotProduct, toMat, toVec, Pi.zero_apply]
    rw [← dotQ_eq_sum v (A.getD i []) n hlen]
    rw [isZeroVec_iff] at hz
    have hi : (i : Nat) < A.length := by rw [hm]; exact i.2
    apply hz
    unfold mulVecQ
    rw [List.getD_eq_getElem?_getD]
    simp only [hi, List.getElem?_eq_getElem, Option.getD_some]
    exact List.mem_map.2 ⟨A[(i : Nat)], List.getElem_mem hi, rfl⟩

/-- **non-definiteness certificate**: a non-zero `v` with `vᵀ A v ≤ 0` -/
theorem quadQ_eq {n : Nat} {A : QMat} {v : QVec} (hA : A.length = n) (hv : v.length = n) :
    quadQ A v = toVec n v ⬝ᵥ (toMat n n A).mulVec (toVec n v) := by
  unfold quadQ
  rw [dotQ_eq_sum (mulVecQ A v) v n (by simp [mulVecQ, hA])]
  simp only [dotProduct, Matrix.mulVec, toVec, toMat]
  refine Finset.sum_congr rfl fun i _ => ?_
  congr 1
  have hi : (i : Nat) < A.length := by rw [hA]; exact i.2
  unfold mulVecQ
  rw [List.getD_eq_getElem?_getD (l := A.map _)]
  simp only [List.getElem?_map, hi, List.getElem?_eq_getElem, Option.map_some, Option.getD_some]
  rw [dotQ_eq_sum v _ n hv]
  simp [List.getD_eq_getElem?_getD, hi]


/-! ### strong regularity: `‖I − C·a‖∞ < 1` for every instance implies regularity -/

theorem det_ne_zero_of_resid {n : Nat} (Cm M : Matrix (Fin n) (Fin n) ℝ)
    (h : ∀ i, ∑ j, |(1 - Cm * M) i j| < 1) : M.det ≠ 0 := by
  intro hdet
  obtain ⟨v, hv, hMv⟩ := Matrix.exists_mulVec_eq_zero_iff.2 hdet
  have hfix : (1 - Cm * M).mulVec v = v := by
    rw [Matrix.sub_mulVec, Matrix.one_mulVec, ← Matrix.mulVec_mulVec, hMv, Matrix.mulVec_zero, sub_zero]
  obtain ⟨i0, hi0⟩ : ∃ i, v i ≠ 0 := by
    by_contra hall
    simp only [not_exists, not_not] at hall
    exact hv (funext hall)
  obtain ⟨i, -, hmax⟩ := Finset.exists_max_image Finset.univ (fun i => |v i|) ⟨i0, Finset.mem_univ _⟩
  have hpos : 0 < |v i| := lt_of_lt_of_le (abs_pos.2 hi0) (hmax i0 (Finset.mem_univ _))
  have h1 : |v i| ≤ ∑ j, |(1 - Cm * M) i j| * |v i| := by
    have : v i = ∑ j, (1 - Cm * M) i j * v j := by
      conv_lhs => rw [← hfix]
      rfl
    calc |v i| = |∑ j, (1 - Cm * M) i j * v j| := by rw [← this]
      _ ≤ ∑ j, |(1 - Cm * M) i j * v j| := Finset.abs_sum_le_sum_abs _ _
      _ ≤ ∑ j, |(1 - Cm * M) i j| * |v i| := by
        refine Finset.sum_le_sum fun j _ => ?_
        rw [abs_mul]
        exact mul_le_mul_of_nonneg_left (hmax j (Finset.mem_univ _)) (abs_nonneg _)
  rw [← Finset.sum_mul] at h1
  have := mul_lt_mul_of_pos_right (h i) hpos
  linarith

theorem dotR_eq_sum : ∀ (v u : List ℝ) (n : Nat), v.length = n →
    dotR u v = ∑ k : Fin n, u.getD k 0 * v.getD k 0 := by
  intro v
  induction v with
  | nil => intro u n hn; subst hn; cases u <;> simp
  | cons v0 vs ih =>
    intro u n hn
    cases n with
    | zero => simp at hn
    | succ n =>
      cases u with
      | nil => simp
      | cons u0 us =>
        rw [dotR_cons, ih us n (by simpa using hn), Fin.sum_univ_succ]
        simp

theorem colR_getD (a : RMat) (j k : Nat) : (colR a j).getD k 0 = (a.getD k []).getD j 0 := by
  have := getD_map' (fun r : List ℝ => r.getD j 0) [] a k
  simpa [colR] using this

theorem castV_getD (c : List ℚ) (k : Nat) : (castV c).getD k 0 = ((c.getD k 0 : ℚ) : ℝ) := by
  have := getD_map' (fun q : ℚ => (q : ℝ)) 0 c k
  simpa [castV] using this

theorem sumAbs_le {e : RVec} {R : IVec} (h : VMem e R) :
    (((e.map fun t => |t|).sum : ℝ) : EReal) ≤ (sumMagE R).toE := by
  induction h with
  | nil => simp [sumMagE]
  | cons h1 _ ih =>
    simp only [List.map_cons, List.sum_cons, sumMagE, addE_toE, EReal.coe_add]
    exact add_le_add (abs_le_magE h1) ih

/-- **strong-regularity certificate**: if `‖I − C·[A]‖∞ < 1` (exact test on the interval residual) for
    some rational matrix `C`, every real matrix of the `n × n` interval matrix `[A]` is regular. -/
theorem betaOk_sound {n : Nat} {C : QMat} {A : IMat} (hok : betaOk n C A = true)
    {a : RMat} (ha : MMem a A) (hlen : a.length = n) : (toMat n n a).det ≠ 0 := by
  let Cm : Matrix (Fin n) (Fin n) ℝ := fun i k => (((C.getD i []).getD k 0 : ℚ) : ℝ)
  apply det_ne_zero_of_resid Cm
  intro i
  -- the real residual row and its interval enclosure
  let e : RVec := (List.range n).map fun j =>
    (if (i : Nat) = j then (1 : ℝ) else 0) - dotR (castV (C.getD i [])) (colR a j)
  let R : IVec := (List.range n).map fun j =>
    Itv.sub (Itv.point (if (i : Nat) = j then 1 else 0)) (dotCI (C.getD i []) (colI A j) (Itv.point 0))
  have hmem : VMem e R := by
    unfold VMem
    rw [List.forall₂_map_left_iff, List.forall₂_map_right_iff, List.forall₂_same]
    intro j _
    have h1 := dotCI_encl (C.getD i []) (colR_mem ha j) (acc := 0) (Acc := Itv.point 0)
      (Bwd.mem_point.2 (by simp))
    rw [zero_add] at h1
    refine Itv.sub_encl (Bwd.mem_point.2 ?_) h1
    split <;> simp
  have hrow : R ∈ residI n C A := by
    unfold residI
    exact List.mem_map.2 ⟨i, List.mem_range.2 i.2, rfl⟩
  simp only [betaOk, List.all_eq_true] at hok
  have hlt := (Ext.lt_iff _ _).1 (hok R hrow)
  have h2 := lt_of_le_of_lt (sumAbs_le hmem) hlt
  simp only [Ext.toE_fin, Rat.cast_one, EReal.coe_one] at h2
  have h3 : (e.map fun t => |t|).sum < 1 := by exact_mod_cast h2
  -- identify the list sum with the matrix row sum
  have h4 : (e.map fun t => |t|).sum = ∑ j : Fin n, |(1 - Cm * toMat n n a) i j| := by
    have : (e.map fun t => |t|) = (List.range n).map fun j =>
        |(if (i : Nat) = j then (1 : ℝ) else 0) - dotR (castV (C.getD i [])) (colR a j)| := by
      simp [e, List.map_map, Function.comp_def]
    rw [this, list_range_sum]
    refine Finset.sum_congr rfl fun j _ => ?_
    congr 1
    rw [Matrix.sub_apply, Matrix.one_apply, Matrix.mul_apply,
      dotR_eq_sum (colR a j) _ n (by simp [colR, hlen])]
    congr 1
    · by_cases hij : i = j
      · simp [hij]
      · have : ¬ ((i : Nat) = j) := fun h => hij (Fin.ext h)
        simp [hij, this]
    · refine Finset.sum_congr rfl fun k _ => ?_
      rw [castV_getD, colR_getD]
      rfl
  rw [← h4]; exact h3


/-! ### positive definiteness of every instance from an exact `L D Lᵀ` certificate -/

theorem quad_ldl {n : Nat} (L : Fin n → Fin n → ℝ) (d x : Fin n → ℝ) :
    ∑ i, ∑ j, x i * (∑ p, L i p * d p * L j p) * x j = ∑ p, d p * (∑ i, L i p * x i) ^ 2 := by
  have h1 : ∀ p, d p * (∑ i, L i p * x i) ^ 2 = ∑ i, ∑ j, x i * (L i p * d p * L j p) * x j := by
    intro p
    rw [sq, Finset.sum_mul_sum, Finset.mul_sum]
    refine Finset.sum_congr rfl fun i _ => ?_
    rw [Finset.mul_sum]
    refine Finset.sum_congr rfl fun j _ => ?_
    ring
  calc ∑ i, ∑ j, x i * (∑ p, L i p * d p * L j p) * x j
      = ∑ i, ∑ j, ∑ p, x i * (L i p * d p * L j p) * x j := by
        simp only [Finset.mul_sum, Finset.sum_mul]
    _ = ∑ i, ∑ p, ∑ j, x i * (L i p * d p * L j p) * x j :=
        Finset.sum_congr rfl fun i _ => Finset.sum_comm
    _ = ∑ p, ∑ i, ∑ j, x i * (L i p * d p * L j p) * x j := Finset.sum_comm
    _ = ∑ p, d p * (∑ i, L i p * x i) ^ 2 := by simp_rw [h1]

theorem quad_perturb {n : Nat} (e r : Fin n → Fin n → ℝ) (x : Fin n → ℝ) (mu : ℝ)
    (he : ∀ i j, |e i j| ≤ r i j) (hrow : ∀ i, ∑ j, r i j ≤ mu) (hcol : ∀ j, ∑ i, r i j ≤ mu) :
    -(mu * ∑ i, x i ^ 2) ≤ ∑ i, ∑ j, x i * e i j * x j := by
  have hterm : ∀ i j, -(r i j * ((x i ^ 2 + x j ^ 2) / 2)) ≤ x i * e i j * x j := by
    intro i j
    have hr : 0 ≤ r i j := le_trans (abs_nonneg _) (he i j)
    have h2 : |x i| * |x j| ≤ (x i ^ 2 + x j ^ 2) / 2 := by
      nlinarith [sq_nonneg (|x i| - |x j|), sq_abs (x i), sq_abs (x j)]
    have h1 : |x i * e i j * x j| ≤ r i j * ((x i ^ 2 + x j ^ 2) / 2) := by
      rw [abs_mul, abs_mul]
      calc |x i| * |e i j| * |x j| = |e i j| * (|x i| * |x j|) := by ring
        _ ≤ r i j * ((x i ^ 2 + x j ^ 2) / 2) :=
          mul_le_mul (he i j) h2 (mul_nonneg (abs_nonneg _) (abs_nonneg _)) hr
    exact (abs_le.1 h1).1
  have hsplit : ∑ i, ∑ j, r i j * ((x i ^ 2 + x j ^ 2) / 2) =
      (1 / 2) * ∑ i, x i ^ 2 * ∑ j, r i j + (1 / 2) * ∑ j, x j ^ 2 * ∑ i, r i j := by
    have e1 : ∑ i, ∑ j, r i j * ((x i ^ 2 + x j ^ 2) / 2) =
        ∑ i, ∑ j, ((1 / 2) * (x i ^ 2 * r i j) + (1 / 2) * (x j ^ 2 * r i j)) := by
      refine Finset.sum_congr rfl fun i _ => Finset.sum_congr rfl fun j _ => ?_
      ring
    have b2 : ∑ i, ∑ j, x j ^ 2 * r i j = ∑ j, x j ^ 2 * ∑ i, r i j := by
      rw [Finset.sum_comm]
      exact Finset.sum_congr rfl fun j _ => (Finset.mul_sum _ _ _).symm
    rw [e1]
    simp only [Finset.sum_add_distrib, ← Finset.mul_sum]
    rw [b2]
  have hsum : ∑ i, ∑ j, r i j * ((x i ^ 2 + x j ^ 2) / 2) ≤ mu * ∑ i, x i ^ 2 := by
    rw [hsplit]
    have a1 : ∑ i, x i ^ 2 * ∑ j, r i j ≤ ∑ i, x i ^ 2 * mu :=
      Finset.sum_le_sum fun i _ => mul_le_mul_of_nonneg_left (hrow i) (sq_nonneg _)
    have a2 : ∑ j, x j ^ 2 * ∑ i, r i j ≤ ∑ j, x j ^ 2 * mu :=
      Finset.sum_le_sum fun j _ => mul_le_mul_of_nonneg_left (hcol j) (sq_nonneg _)
    rw [← Finset.sum_mul] at a1 a2
    nlinarith [a1, a2]
  calc -(mu * ∑ i, x i ^ 2) ≤ -(∑ i, ∑ j, r i j * ((x i ^ 2 + x j ^ 2) / 2)) := neg_le_neg hsum
    _ = ∑ i, ∑ j, -(r i j * ((x i ^ 2 + x j ^ 2) / 2)) := by simp only [Finset.sum_neg_distrib]
    _ ≤ ∑ i, ∑ j, x i * e i j * x j :=
        Finset.sum_le_sum fun i _ => Finset.sum_le_sum fun j _ => hterm i j

theorem allRange_iff {n : Nat} {p : Nat → Bool} : allRange n p = true ↔ ∀ i, i < n → p i = true := by
  simp [allRange]

theorem sumRange_cast (n : Nat) (f : Nat → ℚ) : ((sumRange n f : ℚ) : ℝ) = ∑ k : Fin n, ((f k : ℚ) : ℝ) := by
  unfold sumRange
  rw [list_range_sum, Rat.cast_sum]

theorem abs_sub_cen_le {I : Itv} {v : ℝ} (hf : finiteI I = true) (hv : v ∈ I) :
    |v - ((cenQ I : ℚ) : ℝ)| ≤ ((radQ I : ℚ) : ℝ) := by
  cases I with
  | empty => exact absurd hv (Itv.not_mem_empty v)
  | mk lo hi =>
    cases lo <;> cases hi <;> simp only [finiteI, Bool.false_eq_true] at hf
    rename_i a b
    obtain ⟨h1, h2⟩ := hv
    simp only [Ext.toE_fin, EReal.coe_le_coe_iff] at h1 h2
    simp only [cenQ, radQ]
    push_cast
    rw [abs_le]
    constructor <;> linarith

/-- **positive-definiteness certificate**: when `pdCertOk` accepts, EVERY real matrix `a` of `[A]`
    (symmetric or not) satisfies `xᵀ a x > 0` for all `x ≠ 0`. -/
theorem pdCertOk_sound {n : Nat} {A : IMat} {L : QMat} {d : List ℚ} {mu eps : ℚ}
    (hok : pdCertOk n A L d mu eps = true) {a : RMat} (ha : MMem a A) (x : Fin n → ℝ) (hx : x ≠ 0) :
    0 < ∑ i, ∑ j, x i * toMat n n a i j * x j := by
  simp only [pdCertOk, Bool.and_eq_true, decide_eq_true_eq, allRange_iff, beq_iff_eq] at hok
  obtain ⟨⟨⟨⟨⟨heps, hfin⟩, hrow⟩, hcol⟩, hd⟩, hldl⟩ := hok
  let c : Fin n → Fin n → ℝ := fun i j => ((cenQ (entryI A i j) : ℚ) : ℝ)
  let r : Fin n → Fin n → ℝ := fun i j => ((radQ (entryI A i j) : ℚ) : ℝ)
  let e : Fin n → Fin n → ℝ := fun i j => toMat n n a i j - c i j
  let Lr : Fin n → Fin n → ℝ := fun i p => ((entryQ L i p : ℚ) : ℝ)
  let dr : Fin n → ℝ := fun p => ((d.getD p 0 : ℚ) : ℝ)
  have hmem : ∀ i j : Fin n, toMat n n a i j ∈ entryI A i j := fun i j => (ha.getD_nil i).getD_point j
  have he : ∀ i j, |e i j| ≤ r i j := fun i j => abs_sub_cen_le (hfin i i.2 j j.2) (hmem i j)
  have hrow' : ∀ i, ∑ j, r i j ≤ (mu : ℝ) := by
    intro i
    have := hrow i i.2
    have h2 : ((sumRange n (fun j => radQ (entryI A i j)) : ℚ) : ℝ) ≤ (mu : ℝ) := by exact_mod_cast this
    rwa [sumRange_cast] at h2
  have hcol' : ∀ j, ∑ i, r i j ≤ (mu : ℝ) := by
    intro j
    have := hcol j j.2
    have h2 : ((sumRange n (fun i => radQ (entryI A i j)) : ℚ) : ℝ) ≤ (mu : ℝ) := by exact_mod_cast this
    rwa [sumRange_cast] at h2
  have hc : ∀ i j, c i j = (∑ p, Lr i p * dr p * Lr j p) + (if i = j then ((mu : ℝ) + eps) else 0) := by
    intro i j
    have := hldl i i.2 j j.2
    have h2 : ((cenQ (entryI A i j) : ℚ) : ℝ) - (((if (i : Nat) = j then mu + eps else 0 : ℚ)) : ℝ) =
        ((sumRange n (fun p => entryQ L i p * d.getD p 0 * entryQ L j p) : ℚ) : ℝ) := by
      rw [← this]; push_cast; rfl
    rw [sumRange_cast] at h2
    have h3 : (((if (i : Nat) = j then mu + eps else 0 : ℚ)) : ℝ) = if i = j then ((mu : ℝ) + eps) else 0 := by
      by_cases hij : i = j
      · simp [hij]
      · have : ¬ ((i : Nat) = j) := fun h => hij (Fin.ext h)
        simp [hij, this]
    rw [h3] at h2
    have h4 : ∑ k : Fin n, ((entryQ L i k * d.getD k 0 * entryQ L j k : ℚ) : ℝ) = ∑ p, Lr i p * dr p * Lr j p := by
      refine Finset.sum_congr rfl fun p _ => ?_
      push_cast; rfl
    rw [h4] at h2
    show ((cenQ (entryI A i j) : ℚ) : ℝ) = _
    linarith
  set S : ℝ := ∑ i, x i ^ 2 with hS
  have hSpos : 0 < S := by
    obtain ⟨i0, hi0⟩ : ∃ i, x i ≠ 0 := by
      by_contra hall
      simp only [not_exists, not_not] at hall
      exact hx (funext hall)
    exact lt_of_lt_of_le (by positivity : 0 < x i0 ^ 2)
      (Finset.single_le_sum (f := fun i => x i ^ 2) (fun i _ => sq_nonneg _) (Finset.mem_univ i0))
  -- centre part
  have hcen : ((mu : ℝ) + eps) * S ≤ ∑ i, ∑ j, x i * c i j * x j := by
    have h1 : ∑ i, ∑ j, x i * c i j * x j =
        ∑ i, ∑ j, x i * (∑ p, Lr i p * dr p * Lr j p) * x j +
          ∑ i, ∑ j, x i * (if i = j then ((mu : ℝ) + eps) else 0) * x j := by
      rw [← Finset.sum_add_distrib]
      refine Finset.sum_congr rfl fun i _ => ?_
      rw [← Finset.sum_add_distrib]
      refine Finset.sum_congr rfl fun j _ => ?_
      rw [hc i j]; ring
    have h2 : ∑ i, ∑ j, x i * (if i = j then ((mu : ℝ) + eps) else 0) * x j = ((mu : ℝ) + eps) * S := by
      rw [hS, Finset.mul_sum]
      refine Finset.sum_congr rfl fun i _ => ?_
      simp only [mul_ite, ite_mul, mul_zero, zero_mul, Finset.sum_ite_eq, Finset.mem_univ, if_true]
      ring
    have h3 : 0 ≤ ∑ p, dr p * (∑ i, Lr i p * x i) ^ 2 :=
      Finset.sum_nonneg fun p _ => mul_nonneg
        (show (0 : ℝ) ≤ ((d.getD p 0 : ℚ) : ℝ) by exact_mod_cast hd p p.2) (sq_nonneg _)
    rw [h1, quad_ldl, h2]
    linarith
  have hper := quad_perturb e r x (mu : ℝ) he hrow' hcol'
  have hsplit : ∑ i, ∑ j, x i * toMat n n a i j * x j =
      ∑ i, ∑ j, x i * c i j * x j + ∑ i, ∑ j, x i * e i j * x j := by
    rw [← Finset.sum_add_distrib]
    refine Finset.sum_congr rfl fun i _ => ?_
    rw [← Finset.sum_add_distrib]
    refine Finset.sum_congr rfl fun j _ => ?_
    simp only [e]; ring
  rw [hsplit]
  have hepos : 0 < (eps : ℝ) * S := mul_pos (by exact_mod_cast heps) hSpos
  nlinarith [hcen, hper, hepos]

theorem pdCertFind_sound {n : Nat} {A : IMat} (hok : pdCertFind n A = true) {a : RMat} (ha : MMem a A)
    (x : Fin n → ℝ) (hx : x ≠ 0) : 0 < ∑ i, ∑ j, x i * toMat n n a i j * x j := by
  unfold pdCertFind at hok
  split at hok
  · exact absurd hok (by simp)
  · simp only at hok
    split at hok
    · exact absurd hok (by simp)
    · split at hok
      · exact pdCertOk_sound hok ha x hx
      · exact absurd hok (by simp)

end Ibex.LinAlg
