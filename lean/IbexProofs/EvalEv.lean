/-
  Families of evaluations.  For an algebra `B` on `β`, an index type `T` and a filter `F` on `T`
  (typically `𝓝 p`), `Alg.ev F B` is the algebra of *functions* `T → β` whose operations are the
  operations of `B` applied pointwise, defined when they are defined `F`-eventually.

  * Since `Alg.ev F B` is an algebra like any other, the naturality theorems of `EvalCert.lean`
    (`run_rel_total`, `buildCalls_rel_total`) apply to it: a relation between an algebra `A` and
    functions (e.g. "the dual number `d` is the value and the derivative of the function `φ`")
    that is preserved by every operator is preserved by the evaluation of every DAG.
  * `Eval.run_ev` (this file): one evaluation in `Alg.ev F B` IS, `F`-eventually, the family of the
    evaluations in `B`: `run (Alg.ev F B) φs … = some fvals` implies
    `∀ᶠ t in F, run B (φs at t) … = some (fvals at t)`.
-/
import IbexProofs.EvalCert
import Mathlib.Order.Filter.Basic

namespace Ibex
open Ibex List Filter

section Ev
variable {T β : Type}

open Classical in
/-- a family of optional values that is eventually defined is a function (junk value `z` elsewhere) -/
noncomputable def evOpt (F : Filter T) (z : β) (o : T → Option β) : Option (T → β) :=
  if ∀ᶠ t in F, (o t).isSome = true then some (fun t => (o t).getD z) else none

theorem evOpt_some {F : Filter T} {z : β} {o : T → Option β} {ψ : T → β} (h : evOpt F z o = some ψ) :
    ∀ᶠ t in F, o t = some (ψ t) := by
  unfold evOpt at h
  split at h
  · rename_i hev
    simp only [Option.some.injEq] at h
    subst h
    filter_upwards [hev] with t ht
    obtain ⟨y, hy⟩ := Option.isSome_iff_exists.1 ht
    simp [hy]
  · exact absurd h (by simp)

theorem evOpt_of_eventually {F : Filter T} {z : β} {o : T → Option β} {ψ : T → β}
    (h : ∀ᶠ t in F, o t = some (ψ t)) : ∃ ψ', evOpt F z o = some ψ' ∧ ψ' =ᶠ[F] ψ := by
  have hev : ∀ᶠ t in F, (o t).isSome = true := by
    filter_upwards [h] with t ht
    simp [ht]
  refine ⟨fun t => (o t).getD z, by unfold evOpt; rw [if_pos hev], ?_⟩
  filter_upwards [h] with t ht
  simp [ht]

/-- the algebra of functions `T → β`, with the operators of `B` applied pointwise; an operation is
    defined when it is defined for `F`-almost all indices -/
noncomputable def Alg.ev (F : Filter T) (B : Alg β) : Alg (T → β) where
  ofItv I := (B.ofItv I).map fun b _ => b
  zero := fun _ => B.zero
  add φ ψ := evOpt F B.zero fun t => B.add (φ t) (ψ t)
  sub φ ψ := evOpt F B.zero fun t => B.sub (φ t) (ψ t)
  mul φ ψ := evOpt F B.zero fun t => B.mul (φ t) (ψ t)
  div φ ψ := evOpt F B.zero fun t => B.div (φ t) (ψ t)
  max φ ψ := evOpt F B.zero fun t => B.max (φ t) (ψ t)
  min φ ψ := evOpt F B.zero fun t => B.min (φ t) (ψ t)
  un op := (B.un op).map fun f φ => evOpt F B.zero fun t => f (φ t)
  pow φ n := evOpt F B.zero fun t => B.pow (φ t) n
  chi a b c := evOpt F B.zero fun t => B.chi (a t) (b t) (c t)

/-- value of a matrix of functions at an index -/
def Mat.at (t : T) (m : Mat (T → β)) : Mat β := m.map (· t)

/-! ### structural operations commute with taking the value at `t` -/

theorem forall₂_graph {γ δ : Type} (f : γ → δ) (l : List γ) : Forall₂ (fun x y => y = f x) l (l.map f) := by
  induction l with
  | nil => exact .nil
  | cons a l ih => exact .cons rfl ih

theorem forall₂_graph_eq {γ δ : Type} {f : γ → δ} {l : List γ} {l' : List δ}
    (h : Forall₂ (fun x y => y = f x) l l') : l' = l.map f := by
  induction h with
  | nil => rfl
  | cons hab _ ih => rw [hab, ih]; rfl

theorem matRel_graph {γ δ : Type} (f : γ → δ) (m : Mat γ) : MatRel (fun x y => y = f x) m (m.map f) :=
  ⟨rfl, rfl, forall₂_graph f m.d⟩

theorem matRel_graph_eq {γ δ : Type} {f : γ → δ} {m : Mat γ} {m' : Mat δ}
    (h : MatRel (fun x y => y = f x) m m') : m' = m.map f := by
  obtain ⟨r, c, d⟩ := m'
  obtain ⟨hr, hc, hd⟩ := h
  simp only at hr hc hd
  subst hr; subst hc
  rw [forall₂_graph_eq hd]
  rfl

theorem Mat.row_map {γ δ : Type} (f : γ → δ) (m : Mat γ) (i : Nat) : (m.map f).row i = (m.row i).map f :=
  forall₂_graph_eq ((matRel_graph f m).row i)

theorem Mat.col_map {γ δ : Type} (f : γ → δ) (m : Mat γ) (j : Nat) : (m.map f).col j = (m.col j).map f :=
  forall₂_graph_eq ((matRel_graph f m).col j)

theorem Mat.transpose_map {γ δ : Type} (f : γ → δ) (m : Mat γ) : (m.map f).transpose = m.transpose.map f :=
  matRel_graph_eq (matRel_graph f m).transpose

theorem Mat.sub?_map {γ δ : Type} (f : γ → δ) {m x : Mat γ} {r1 r2 c1 c2 : Nat}
    (h : m.sub? r1 r2 c1 c2 = some x) : (m.map f).sub? r1 r2 c1 c2 = some (x.map f) := by
  obtain ⟨y, hy, hxy⟩ := (matRel_graph f m).sub? h
  rw [hy, matRel_graph_eq hxy]

theorem forall₂_matRel_graph {γ δ : Type} (f : γ → δ) (ps : List (Mat γ)) :
    Forall₂ (MatRel (fun x y => y = f x)) ps (ps.map (Mat.map f)) := by
  induction ps with
  | nil => exact .nil
  | cons a l ih => exact .cons (matRel_graph f a) ih

theorem Eval.vecVal_map {γ δ : Type} (f : γ → δ) {row : Bool} {ps : List (Mat γ)} {x : Mat γ}
    (h : Eval.vecVal row ps = some x) : Eval.vecVal row (ps.map (Mat.map f)) = some (x.map f) := by
  obtain ⟨y, hy, hxy⟩ := Eval.vecVal_rel (forall₂_matRel_graph f ps) h
  rw [hy, matRel_graph_eq hxy]

/-! ### monadic list operations -/

variable {F : Filter T}

theorem mapM_ev {γ γ' δ δ' : Type} {f : γ → Option γ'} {g : T → δ → Option δ'} {a : T → γ → δ}
    {a' : T → γ' → δ'} (h : ∀ x y, f x = some y → ∀ᶠ t in F, g t (a t x) = some (a' t y)) :
    ∀ {l : List γ} {o : List γ'}, l.mapM f = some o →
      ∀ᶠ t in F, (l.map (a t)).mapM (g t) = some (o.map (a' t)) := by
  intro l
  induction l with
  | nil =>
    intro o ho
    simp at ho
    subst ho
    exact Eventually.of_forall fun t => by simp
  | cons x l ih =>
    intro o ho
    simp only [List.mapM_cons, Bind.bind, Pure.pure, Option.bind_eq_some_iff] at ho
    obtain ⟨y, hy, ys, hys, ho⟩ := ho
    simp at ho
    subst ho
    filter_upwards [h _ _ hy, ih hys] with t h1 h2
    simp [List.mapM_cons, h1, h2]

theorem foldlM_ev {γ δ : Type} {f : γ → γ → Option γ} {g : δ → δ → Option δ} {a : T → γ → δ}
    (h : ∀ x y z, f x y = some z → ∀ᶠ t in F, g (a t x) (a t y) = some (a t z)) :
    ∀ {l : List γ} {x0 r : γ}, l.foldlM f x0 = some r →
      ∀ᶠ t in F, (l.map (a t)).foldlM g (a t x0) = some (a t r) := by
  intro l
  induction l with
  | nil =>
    intro x0 r hr
    simp at hr
    subst hr
    exact Eventually.of_forall fun t => by simp
  | cons y l ih =>
    intro x0 r hr
    simp only [List.foldlM_cons, Bind.bind, Option.bind_eq_some_iff] at hr
    obtain ⟨z, hz, hr⟩ := hr
    filter_upwards [h _ _ _ hz, ih hr] with t h1 h2
    simp [List.foldlM_cons, h1, h2]

theorem Mat.mapM?_ev {γ γ' δ δ' : Type} {f : γ → Option γ'} {g : T → δ → Option δ'} {a : T → γ → δ}
    {a' : T → γ' → δ'} (h : ∀ x y, f x = some y → ∀ᶠ t in F, g t (a t x) = some (a' t y))
    {m : Mat γ} {x : Mat γ'} (hx : m.mapM? f = some x) :
    ∀ᶠ t in F, (m.map (a t)).mapM? (g t) = some (x.map (a' t)) := by
  unfold Mat.mapM? at hx
  simp only [Option.map_eq_some_iff] at hx
  obtain ⟨d, hd, rfl⟩ := hx
  filter_upwards [mapM_ev h hd] with t ht
  simp [Mat.mapM?, Mat.map, ht]

theorem Mat.zip?_ev {γ γ' δ δ' : Type} {f : γ → γ → Option γ'} {g : δ → δ → Option δ'} {a : T → γ → δ}
    {a' : T → γ' → δ'} (h : ∀ x y z, f x y = some z → ∀ᶠ t in F, g (a t x) (a t y) = some (a' t z))
    {m m' : Mat γ} {x : Mat γ'} (hx : Mat.zip? f m m' = some x) :
    ∀ᶠ t in F, Mat.zip? g (m.map (a t)) (m'.map (a t)) = some (x.map (a' t)) := by
  unfold Mat.zip? at hx
  split at hx
  · rename_i hcond
    simp only [Option.map_eq_some_iff] at hx
    obtain ⟨d, hd, rfl⟩ := hx
    have := mapM_ev (F := F) (f := fun (p : γ × γ) => f p.1 p.2) (g := fun _ (p : δ × δ) => g p.1 p.2)
      (a := fun t (p : γ × γ) => (a t p.1, a t p.2)) (a' := a') (fun p y hy => h _ _ _ hy) hd
    filter_upwards [this] with t ht
    have hz : List.zip (m.d.map (a t)) (m'.d.map (a t)) =
        (List.zip m.d m'.d).map (fun (p : γ × γ) => (a t p.1, a t p.2)) := by
      rw [List.zip_map]; rfl
    simp only [Mat.zip?, Mat.map, hcond, if_true, hz, ht, Option.map_some]
  · exact absurd hx (by simp)

/-! ### the operators of the evaluator -/

variable {B : Alg β}

namespace Eval

theorem dot_ev {u v : List (T → β)} {x : T → β} (hx : dot (Alg.ev F B) u v = some x) :
    ∀ᶠ t in F, dot B (u.map (· t)) (v.map (· t)) = some (x t) := by
  unfold dot at hx
  simp only [Bind.bind, Option.bind_eq_some_iff] at hx
  obtain ⟨ps, hps, hx⟩ := hx
  have h1 := mapM_ev (F := F) (f := fun (p : (T → β) × (T → β)) => (Alg.ev F B).mul p.1 p.2)
    (g := fun _ (p : β × β) => B.mul p.1 p.2) (a := fun t p => (p.1 t, p.2 t)) (a' := fun t φ => φ t)
    (fun p y hy => evOpt_some hy) hps
  have hz : ∀ t, List.zip (u.map (· t)) (v.map (· t)) =
      (List.zip u v).map (fun (p : (T → β) × (T → β)) => (p.1 t, p.2 t)) := by
    intro t; rw [List.zip_map]; rfl
  cases ps with
  | nil =>
    simp only [Option.some.injEq] at hx
    subst hx
    filter_upwards [h1] with t h1
    simp only [dot, Bind.bind, hz, h1, Option.bind_some, List.map_nil]
    rfl
  | cons p rest =>
    simp only at hx
    have h2 := foldlM_ev (F := F) (f := fun acc y => (Alg.ev F B).add acc y) (g := fun acc y => B.add acc y)
      (a := fun t φ => φ t) (fun x y z hz => evOpt_some hz) hx
    filter_upwards [h1, h2] with t h1 h2
    simp only [dot, Bind.bind, hz, h1, Option.bind_some, List.map_cons, h2]

theorem matMul_ev {a b x : Mat (T → β)} (hx : matMul (Alg.ev F B) a b = some x) :
    ∀ᶠ t in F, matMul B (a.at t) (b.at t) = some (x.at t) := by
  unfold matMul at hx
  split at hx
  · exact absurd hx (by simp)
  · rename_i hcond
    simp only [Bind.bind, Pure.pure, Option.bind_eq_some_iff, Option.some.injEq] at hx
    obtain ⟨d, hd, rfl⟩ := hx
    have h1 := mapM_ev (F := F) (f := fun (ij : Nat × Nat) => dot (Alg.ev F B) (a.row ij.1) (b.col ij.2))
      (g := fun t (ij : Nat × Nat) => dot B ((a.at t).row ij.1) ((b.at t).col ij.2))
      (a := fun _ ij => ij) (a' := fun t φ => φ t)
      (fun ij y hy => by
        filter_upwards [dot_ev hy] with t ht
        simp only [Mat.at, Mat.row_map, Mat.col_map]
        exact ht) hd
    filter_upwards [h1] with t h1
    simp only [List.map_id'] at h1
    have e1 : (a.at t).c = a.c := rfl
    have e2 : (b.at t).r = b.r := rfl
    have e3 : (a.at t).r = a.r := rfl
    have e4 : (b.at t).c = b.c := rfl
    simp only [matMul, e1, e2, e3, e4, hcond, Bind.bind, Pure.pure, h1, Option.bind_some]
    rfl

theorem mulVal_ev {a b x : Mat (T → β)} (hx : mulVal (Alg.ev F B) a b = some x) :
    ∀ᶠ t in F, mulVal B (a.at t) (b.at t) = some (x.at t) := by
  unfold mulVal at hx
  have es : ∀ t, (a.at t).isScalar = a.isScalar := fun _ => rfl
  split at hx
  · rename_i hs
    split at hx
    · rename_i s hs1
      have := Mat.mapM?_ev (F := F) (f := fun u => (Alg.ev F B).mul s u) (g := fun t u => B.mul (s t) u)
        (a := fun t φ => φ t) (a' := fun t φ => φ t) (fun u y hy => evOpt_some hy) hx
      filter_upwards [this] with t ht
      have hd : (a.at t).d = [s t] := by simp [Mat.at, Mat.map, hs1]
      simp only [mulVal, es, hs, if_true, hd]
      exact ht
    · exact absurd hx (by simp)
  · rename_i hs
    filter_upwards [matMul_ev hx] with t ht
    simp only [mulVal, es, hs]
    exact ht

theorem binVal_ev (op : String) {a b x : Mat (T → β)} (hx : binVal (Alg.ev F B) op a b = some x) :
    ∀ᶠ t in F, binVal B op (a.at t) (b.at t) = some (x.at t) := by
  have esa : ∀ t, (a.at t).isScalar = a.isScalar := fun _ => rfl
  have esb : ∀ t, (b.at t).isScalar = b.isScalar := fun _ => rfl
  unfold binVal at hx
  split at hx
  · filter_upwards [Mat.zip?_ev (F := F) (g := B.add) (a := fun t φ => φ t) (a' := fun t φ => φ t)
      (fun x y z hz => evOpt_some hz) hx] with t ht
    simp only [binVal]
    exact ht
  · filter_upwards [Mat.zip?_ev (F := F) (g := B.sub) (a := fun t φ => φ t) (a' := fun t φ => φ t)
      (fun x y z hz => evOpt_some hz) hx] with t ht
    simp only [binVal]
    exact ht
  · filter_upwards [mulVal_ev hx] with t ht
    simp only [binVal]
    exact ht
  · split at hx
    · rename_i hs
      filter_upwards [Mat.zip?_ev (F := F) (g := B.div) (a := fun t φ => φ t) (a' := fun t φ => φ t)
        (fun x y z hz => evOpt_some hz) hx] with t ht
      simp only [binVal, esa, esb, hs, if_true]
      exact ht
    · exact absurd hx (by simp)
  · split at hx
    · rename_i hs
      filter_upwards [Mat.zip?_ev (F := F) (g := B.max) (a := fun t φ => φ t) (a' := fun t φ => φ t)
        (fun x y z hz => evOpt_some hz) hx] with t ht
      simp only [binVal, esa, esb, hs, if_true]
      exact ht
    · exact absurd hx (by simp)
  · split at hx
    · rename_i hs
      filter_upwards [Mat.zip?_ev (F := F) (g := B.min) (a := fun t φ => φ t) (a' := fun t φ => φ t)
        (fun x y z hz => evOpt_some hz) hx] with t ht
      simp only [binVal, esa, esb, hs, if_true]
      exact ht
    · exact absurd hx (by simp)
  · exact absurd hx (by simp)

theorem ev_un {op : String} {f : (T → β) → Option (T → β)} (hf : (Alg.ev F B).un op = some f) :
    ∃ g, B.un op = some g ∧ ∀ φ ψ, f φ = some ψ → ∀ᶠ t in F, g (φ t) = some (ψ t) := by
  simp only [Alg.ev, Option.map_eq_some_iff] at hf
  obtain ⟨g, hg, rfl⟩ := hf
  exact ⟨g, hg, fun φ ψ h => evOpt_some h⟩

theorem unVal_ev (op : String) {a x : Mat (T → β)} (hx : unVal (Alg.ev F B) op a = some x) :
    ∀ᶠ t in F, unVal B op (a.at t) = some (x.at t) := by
  have esa : ∀ t, (a.at t).isScalar = a.isScalar := fun _ => rfl
  unfold unVal at hx
  split at hx
  · simp only [Option.some.injEq] at hx
    subst hx
    exact Eventually.of_forall fun t => by simp only [unVal, Mat.at, Mat.transpose_map]
  · simp only [Option.bind_eq_some_iff] at hx
    obtain ⟨f, hf, hx⟩ := hx
    obtain ⟨g, hg, hfg⟩ := ev_un hf
    filter_upwards [Mat.mapM?_ev (F := F) (g := fun _ => g) (a := fun t φ => φ t) (a' := fun t φ => φ t)
      hfg hx] with t ht
    simp only [unVal, hg, Option.bind_some]
    exact ht
  · rename_i hnt hnm
    split at hx
    · rename_i hs
      simp only [Option.bind_eq_some_iff] at hx
      obtain ⟨f, hf, hx⟩ := hx
      obtain ⟨g, hg, hfg⟩ := ev_un hf
      filter_upwards [Mat.mapM?_ev (F := F) (g := fun _ => g) (a := fun t φ => φ t) (a' := fun t φ => φ t)
        hfg hx] with t ht
      unfold unVal
      split
      · exact absurd rfl hnt
      · exact absurd rfl hnm
      · simp only [esa, hs, if_true, hg, Option.bind_some]
        exact ht
    · exact absurd hx (by simp)

/-- call tables: a call of the function algebra is eventually the family of the calls -/
def CallEv (F : Filter T) (cE : Nat → List (Mat (T → β)) → Option (Mat (T → β)))
    (cB : Nat → List (Mat β) → Option (Mat β)) : Prop :=
  ∀ f as x, cE f as = some x → ∀ᶠ t in F, cB f (as.map (Mat.at t)) = some (x.at t)

theorem args_at {vals : Array (Mat (T → β))} (t : T) {as : List Nat} {ms : List (Mat (T → β))}
    (h : as.mapM (fun i => vals[i]?) = some ms) :
    as.mapM (fun i => (vals.map (Mat.at t))[i]?) = some (ms.map (Mat.at t)) := by
  induction as generalizing ms with
  | nil => simp at h; subst h; simp
  | cons i as ih =>
    simp only [List.mapM_cons, Bind.bind, Pure.pure, Option.bind_eq_some_iff] at h
    obtain ⟨y, hy, ys, hys, h⟩ := h
    simp at h
    subst h
    have h1 : (vals.map (Mat.at t))[i]? = some (y.at t) := by rw [Array.getElem?_map, hy]; rfl
    simp only [List.mapM_cons, Bind.bind, Pure.pure, h1, Option.bind_some, ih hys, List.map_cons]

theorem nodeVal_ev {envφ : List (T → β)} {cE : Nat → List (Mat (T → β)) → Option (Mat (T → β))}
    {cB : Nat → List (Mat β) → Option (Mat β)} (hc : CallEv F cE cB)
    {vals : Array (Mat (T → β))} (n : Node) {x : Mat (T → β)}
    (hx : nodeVal (Alg.ev F B) envφ cE vals n = some x) :
    ∀ᶠ t in F, nodeVal B (envφ.map (· t)) cB (vals.map (Mat.at t)) n = some (x.at t) := by
  obtain ⟨k, r, c⟩ := n
  have hget : ∀ t (a : Nat) (v : Mat (T → β)), vals[a]? = some v → (vals.map (Mat.at t))[a]? = some (v.at t) := by
    intro t a v hv
    rw [Array.getElem?_map, hv]; rfl
  cases k with
  | var off =>
    simp only [nodeVal] at hx
    split at hx
    · rename_i hl
      simp only [Option.some.injEq] at hx
      subst hx
      refine Eventually.of_forall fun t => ?_
      simp only [nodeVal, ← List.map_drop, ← List.map_take, List.length_map, hl, if_true]
      rfl
    · exact absurd hx (by simp)
  | const vs =>
    simp only [nodeVal, Option.bind_eq_some_iff] at hx
    obtain ⟨d, hd, hx⟩ := hx
    split at hx
    · rename_i hl
      simp only [Option.some.injEq] at hx
      subst hx
      have := mapM_ev (F := F) (f := (Alg.ev F B).ofItv) (g := fun _ => B.ofItv) (a := fun _ I => I)
        (a' := fun t φ => φ t) (fun I y hy => by
          simp only [Alg.ev, Option.map_eq_some_iff] at hy
          obtain ⟨b, hb, rfl⟩ := hy
          exact Eventually.of_forall fun t => hb) hd
      filter_upwards [this] with t ht
      simp only [List.map_id'] at ht
      simp only [nodeVal, ht, Option.bind_some, List.length_map, hl, if_true]
      rfl
    · exact absurd hx (by simp)
  | un op a =>
    simp only [nodeVal, Option.bind_eq_some_iff] at hx
    obtain ⟨va, hva, hx⟩ := hx
    filter_upwards [unVal_ev op hx] with t ht
    simp only [nodeVal, hget t _ _ hva, Option.bind_some, ht]
  | bin op a b =>
    simp only [nodeVal, Bind.bind, Option.bind_eq_some_iff] at hx
    obtain ⟨va, hva, vb, hvb, hx⟩ := hx
    filter_upwards [binVal_ev op hx] with t ht
    simp only [nodeVal, Bind.bind, hget t _ _ hva, hget t _ _ hvb, Option.bind_some, ht]
  | pow a k =>
    simp only [nodeVal, Bind.bind, Option.bind_eq_some_iff] at hx
    obtain ⟨va, hva, hx⟩ := hx
    split at hx
    · rename_i hs
      filter_upwards [Mat.mapM?_ev (F := F) (g := fun _ u => B.pow u k) (a := fun t φ => φ t)
        (a' := fun t φ => φ t) (fun u y hy => evOpt_some hy) hx] with t ht
      have es : (va.at t).isScalar = true := hs
      simp only [nodeVal, Bind.bind, hget t _ _ hva, Option.bind_some, es, if_true]
      exact ht
    · exact absurd hx (by simp)
  | idx a r1 r2 c1 c2 =>
    simp only [nodeVal, Bind.bind, Option.bind_eq_some_iff] at hx
    obtain ⟨va, hva, hx⟩ := hx
    refine Eventually.of_forall fun t => ?_
    simp only [nodeVal, Bind.bind, hget t _ _ hva, Option.bind_some]
    exact Mat.sub?_map _ hx
  | vec row as =>
    simp only [nodeVal, Bind.bind, Option.bind_eq_some_iff] at hx
    obtain ⟨ms, hms, hx⟩ := hx
    refine Eventually.of_forall fun t => ?_
    simp only [nodeVal, Bind.bind, args_at t hms, Option.bind_some]
    exact vecVal_map _ hx
  | chi a b c' =>
    simp only [nodeVal, Bind.bind, Option.bind_eq_some_iff] at hx
    obtain ⟨va, hva, vb, hvb, vc, hvc, hx⟩ := hx
    split at hx
    · rename_i x1 y1 z1 e1 e2 e3
      simp only [Option.map_eq_some_iff] at hx
      obtain ⟨s, hs, rfl⟩ := hx
      filter_upwards [evOpt_some hs] with t ht
      have d1 : (va.at t).d = [x1 t] := by simp [Mat.at, Mat.map, e1]
      have d2 : (vb.at t).d = [y1 t] := by simp [Mat.at, Mat.map, e2]
      have d3 : (vc.at t).d = [z1 t] := by simp [Mat.at, Mat.map, e3]
      simp only [nodeVal, Bind.bind, hget t _ _ hva, hget t _ _ hvb, hget t _ _ hvc, Option.bind_some,
        d1, d2, d3, ht, Option.map_some]
      rfl
    · exact absurd hx (by simp)
  | apply f as =>
    simp only [nodeVal, Bind.bind, Option.bind_eq_some_iff] at hx
    obtain ⟨ms, hms, hx⟩ := hx
    filter_upwards [hc _ _ _ hx] with t ht
    simp only [nodeVal, Bind.bind, args_at t hms, Option.bind_some, ht]

theorem fold_ev {envφ : List (T → β)} {cE : Nat → List (Mat (T → β)) → Option (Mat (T → β))}
    {cB : Nat → List (Mat β) → Option (Mat β)} (hc : CallEv F cE cB) :
    ∀ (ns : List Node) {v r : Array (Mat (T → β))}, ns.foldlM (step (Alg.ev F B) envφ cE) v = some r →
      ∀ᶠ t in F, ns.foldlM (step B (envφ.map (· t)) cB) (v.map (Mat.at t)) = some (r.map (Mat.at t)) := by
  intro ns
  induction ns with
  | nil =>
    intro v r h
    simp at h
    subst h
    exact Eventually.of_forall fun t => by simp
  | cons n ns ih =>
    intro v r h
    simp only [List.foldlM_cons, Bind.bind, Option.bind_eq_some_iff] at h
    obtain ⟨w, hw, h⟩ := h
    obtain ⟨x, hx, hxr, hxc, rfl⟩ := step_eq_some hw
    filter_upwards [nodeVal_ev hc n hx, ih h] with t h1 h2
    have hstep := step_of_nodeVal h1 (by exact hxr) (by exact hxc)
    simp only [List.foldlM_cons, Bind.bind, hstep, Option.bind_some]
    rw [Array.map_push] at h2
    exact h2

/-- **One evaluation in the function algebra is, eventually, the family of the evaluations.** -/
theorem run_ev {envφ : List (T → β)} {cE : Nat → List (Mat (T → β)) → Option (Mat (T → β))}
    {cB : Nat → List (Mat β) → Option (Mat β)} (hc : CallEv F cE cB) {dag : Dag}
    {r : Array (Mat (T → β))} (h : run (Alg.ev F B) envφ cE dag = some r) :
    ∀ᶠ t in F, run B (envφ.map (· t)) cB dag = some (r.map (Mat.at t)) := by
  rw [run_eq] at h
  filter_upwards [fold_ev hc _ h] with t ht
  rw [run_eq]
  simpa using ht

theorem root_ev {envφ : List (T → β)} {cE : Nat → List (Mat (T → β)) → Option (Mat (T → β))}
    {cB : Nat → List (Mat β) → Option (Mat β)} (hc : CallEv F cE cB) {dag : Dag}
    {x : Mat (T → β)} (h : root (Alg.ev F B) envφ cE dag = some x) :
    ∀ᶠ t in F, root B (envφ.map (· t)) cB dag = some (x.at t) := by
  unfold root at h
  simp only [Option.bind_eq_some_iff] at h
  obtain ⟨r, hr, h⟩ := h
  filter_upwards [run_ev hc hr] with t ht
  simp only [root, ht, Option.bind_some]
  rw [Array.back?_eq_getElem?] at h ⊢
  simp only [Array.size_map, Array.getElem?_map, h, Option.map_some]

theorem buildCalls_ev (funs : List Dag) : CallEv F (buildCalls (Alg.ev F B) funs) (buildCalls B funs) := by
  unfold buildCalls
  generalize funs.zipIdx = l
  have h0 : CallEv F (fun (_ : Nat) (_ : List (Mat (T → β))) => (none : Option (Mat (T → β))))
      (fun (_ : Nat) (_ : List (Mat β)) => (none : Option (Mat β))) := by
    intro f as x hx
    exact absurd hx (by simp)
  revert h0
  generalize (fun (_ : Nat) (_ : List (Mat (T → β))) => (none : Option (Mat (T → β)))) = t1
  generalize (fun (_ : Nat) (_ : List (Mat β)) => (none : Option (Mat β))) = t2
  induction l generalizing t1 t2 with
  | nil => intro h0; exact h0
  | cons p l ih =>
    intro h0
    simp only [List.foldl_cons]
    apply ih
    intro f as x hx
    simp only at hx ⊢
    split at hx
    · rename_i hf
      filter_upwards [root_ev h0 hx] with t ht
      rw [if_pos hf]
      have : (as.map (Mat.at t)).flatMap (·.d) = (as.flatMap (·.d)).map (· t) := by
        simp only [List.flatMap_map, List.map_flatMap]
        rfl
      rw [this]
      exact ht
    · rename_i hf
      filter_upwards [h0 _ _ _ hx] with t ht
      rw [if_neg hf]
      exact ht

end Eval

end Ev
end Ibex
