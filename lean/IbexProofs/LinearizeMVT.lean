/-
  C20 — slope enclosures from derivative enclosures: bridge between the list-based statements of
  IbexProofs/Linearize.lean and the mean value theorem telescoped over the coordinates (C08.hansen_slope).
-/
import IbexProofs.Linearize
import IbexProofs.Props.C08

namespace Ibex
namespace Lin
open List

theorem dotR_ofFn : ∀ {n : ℕ} (u w : Fin n → ℝ), dotR (ofFn u) (ofFn w) = ∑ k, u k * w k
  | 0, _, _ => by simp
  | n + 1, u, w => by
    rw [ofFn_succ, ofFn_succ, dotR_cons, Fin.sum_univ_succ, dotR_ofFn]

theorem ofFn_getD {α : Type} (l : List α) (d : α) {n : ℕ} (h : l.length = n) : ofFn (fun k : Fin n => l.getD k d) = l := by
  apply ext_getElem
  · simp [h]
  · intro i h1 h2
    simp [List.getD_eq_getElem?_getD, h2]

theorem castL_getD : ∀ (c : List ℚ) (k : ℕ), (castL c).getD k 0 = ((c.getD k 0 : ℚ) : ℝ)
  | [], k => by simp
  | a :: as, 0 => by simp
  | a :: as, k + 1 => by simpa using castL_getD as k

open Classical in
/-- **Slope enclosure from derivative enclosures.**  If `v ∋ g(c)` and, for every point `x` of the box, `G_k` encloses
    the partial derivative `∂g/∂x_k` on the Hansen segment (coordinates before `k` from `x`, after `k` from `c`,
    coordinate `k` between `c_k` and `x_k`) — which is what the Hansen matrix and, a fortiori, the Jacobian over the
    box provide (C08) — then `SlopeEncl g box c v G`. -/
theorem slopeEncl_of_derivatives' {n : ℕ} (g : List ℝ → ℝ) (box : Box) (c : List ℚ) (v : Itv) (G : List Itv)
    (hc : c.length = n) (hG : G.length = n) (hbox : box.length = n) (hval : g (castL c) ∈ v)
    (hder : ∀ x : Fin n → ℝ, BoxMem (ofFn x) box → ∀ (k : Fin n), ∀ t ∈ Set.uIcc ((c.getD k 0 : ℚ) : ℝ) (x k), ∃ D : ℝ,
      HasDerivAt (fun t => g (ofFn (Function.update (C08.mix (fun i : Fin n => ((c.getD i 0 : ℚ) : ℝ)) x k) k t))) D t ∧
        D ∈ G.getD k Itv.empty) :
    SlopeEncl g box c v G := by
  refine ⟨hval, fun xl hx => ?_⟩
  have hxl : xl.length = n := by rw [hx.length_eq, hbox]
  let x : Fin n → ℝ := fun k => xl.getD k 0
  let x0 : Fin n → ℝ := fun i => ((c.getD i 0 : ℚ) : ℝ)
  have hxe : ofFn x = xl := ofFn_getD xl 0 hxl
  have hce : ofFn x0 = castL c := by
    have : ofFn (fun k : Fin n => (castL c).getD k 0) = castL c := ofFn_getD (castL c) 0 (by simp [hc])
    rw [← this]
    congr 1
    funext k
    exact (castL_getD c k).symm
  have hd := hder x (by rw [hxe]; exact hx)
  let f' : Fin n → ℝ → ℝ := fun k t =>
    if ht : t ∈ Set.uIcc (x0 k) (x k) then Classical.choose (hd k t ht) else 0
  have hf' : ∀ (k : Fin n), ∀ t ∈ Set.uIcc (x0 k) (x k),
      HasDerivAt (fun t => (fun w => g (ofFn w)) (Function.update (C08.mix x0 x k) k t)) (f' k t) t ∧
        f' k t ∈ (fun k : Fin n => G.getD k Itv.empty) k := by
    intro k t ht
    simp only [f', dif_pos ht]
    exact Classical.choose_spec (hd k t ht)
  obtain ⟨s, hs, heq⟩ := C08.hansen_slope (f := fun w => g (ofFn w)) (H := fun k : Fin n => G.getD k Itv.empty) hf'
  refine ⟨ofFn s, ?_, ?_⟩
  · rw [forall₂_iff_get]
    refine ⟨by simp [hG], fun i h1 h2 => ?_⟩
    have hi : i < n := by simpa using h1
    have := hs ⟨i, hi⟩
    simpa [List.getD_eq_getElem?_getD, h2] using this
  · have hsub : subR xl (castL c) = ofFn (fun k => x k - x0 k) := by
      rw [← hxe, ← hce]
      apply ext_getElem
      · simp [subR]
      · intro i h1 h2
        simp [subR]
    rw [hsub, dotR_ofFn, ← hxe, ← hce]
    exact heq

end Lin
end Ibex
