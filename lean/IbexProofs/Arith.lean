/-
  Enclosure lemmas for the forward interval operators of `IbexModel.Itv`.
-/
import IbexProofs.Basic
import Mathlib.Data.EReal.Inv

namespace Ibex
open Ibex

/-! ### helpers on membership -/

theorem Itv.mem_of_subset {x : ℝ} {I J : Itv} (h : Itv.subset I J = true) (hx : x ∈ I) : x ∈ J := by
  cases I with
  | empty => exact absurd hx (Itv.not_mem_empty x)
  | mk a b =>
    cases J with
    | empty => simp [Itv.subset] at h
    | mk c d =>
      simp only [Itv.subset, Bool.and_eq_true, Ext.le_iff] at h
      exact ⟨le_trans h.1 hx.1, le_trans hx.2 h.2⟩

theorem Itv.lo_le_hi {x : ℝ} {a b : Ext} (hx : x ∈ Itv.mk a b) : a.toE ≤ b.toE := le_trans hx.1 hx.2

/-! ### addition, negation, subtraction -/

theorem addLo_le (a c : Ext) (x y : ℝ) (hx : a.toE ≤ x) (hy : c.toE ≤ y) :
    (Itv.addLo a c).toE ≤ ((x + y : ℝ) : EReal) := by
  cases a <;> cases c <;> simp only [Itv.addLo, Ext.toE_ninf, bot_le]
  rename_i p q
  refine le_trans (rd_le _) ?_
  simp only [Ext.toE_fin, EReal.coe_le_coe_iff] at hx hy ⊢
  push_cast; linarith

theorem le_addHi (b d : Ext) (x y : ℝ) (hx : (x : EReal) ≤ b.toE) (hy : (y : EReal) ≤ d.toE) :
    ((x + y : ℝ) : EReal) ≤ (Itv.addHi b d).toE := by
  cases b <;> cases d <;> simp only [Itv.addHi, Ext.toE_pinf, le_top]
  rename_i p q
  refine le_trans ?_ (le_ru _)
  simp only [Ext.toE_fin, EReal.coe_le_coe_iff] at hx hy ⊢
  push_cast; linarith

theorem Itv.add_encl {X Y : Itv} {x y : ℝ} (hx : x ∈ X) (hy : y ∈ Y) : x + y ∈ Itv.add X Y := by
  cases X with
  | empty => exact absurd hx (Itv.not_mem_empty x)
  | mk a b =>
    cases Y with
    | empty => exact absurd hy (Itv.not_mem_empty y)
    | mk c d => exact ⟨addLo_le a c x y hx.1 hy.1, le_addHi b d x y hx.2 hy.2⟩

theorem Itv.neg_encl {X : Itv} {x : ℝ} (hx : x ∈ X) : -x ∈ Itv.neg X := by
  cases X with
  | empty => exact absurd hx (Itv.not_mem_empty x)
  | mk a b =>
    refine ⟨?_, ?_⟩
    · rw [Ext.toE_neg, EReal.coe_neg, EReal.neg_le_neg_iff]; exact hx.2
    · rw [Ext.toE_neg, EReal.coe_neg, EReal.neg_le_neg_iff]; exact hx.1

theorem Itv.sub_encl {X Y : Itv} {x y : ℝ} (hx : x ∈ X) (hy : y ∈ Y) : x - y ∈ Itv.sub X Y := by
  have := Itv.add_encl hx (Itv.neg_encl hy)
  simpa [sub_eq_add_neg, Itv.sub] using this

/-! ### multiplication -/

/-- when one factor is infinite, the model product is the exact extended-real product -/
theorem mulExt_eq_of_not_fin (r : Rat → Ext) (a b : Ext) (h : ¬ (a.isFin = true ∧ b.isFin = true)) :
    (Itv.mulExt r a b).toE = a.toE * b.toE := by
  have sgn : ∀ q : Rat, q = 0 ∨ (0 : ℝ) < q ∨ (q : ℝ) < 0 := by
    intro q
    rcases lt_trichotomy q 0 with h | h | h
    · right; right; exact_mod_cast h
    · left; exact h
    · right; left; exact_mod_cast h
  cases a with
  | ninf =>
    cases b with
    | ninf => simp [Itv.mulExt]
    | pinf => simp [Itv.mulExt]
    | fin q =>
      rcases sgn q with h0 | hp | hn
      · subst h0; simp [Itv.mulExt]
      · have hq : 0 < q := by exact_mod_cast hp
        simp [Itv.mulExt, ne_of_gt hq, hq, EReal.bot_mul_coe_of_pos hp]
      · have hq : q < 0 := by exact_mod_cast hn
        simp [Itv.mulExt, ne_of_lt hq, not_lt.2 (le_of_lt hq), EReal.bot_mul_coe_of_neg hn]
  | pinf =>
    cases b with
    | ninf => simp [Itv.mulExt]
    | pinf => simp [Itv.mulExt]
    | fin q =>
      rcases sgn q with h0 | hp | hn
      · subst h0; simp [Itv.mulExt]
      · have hq : 0 < q := by exact_mod_cast hp
        simp [Itv.mulExt, ne_of_gt hq, hq, EReal.top_mul_coe_of_pos hp]
      · have hq : q < 0 := by exact_mod_cast hn
        simp [Itv.mulExt, ne_of_lt hq, not_lt.2 (le_of_lt hq), EReal.top_mul_coe_of_neg hn]
  | fin p =>
    cases b with
    | fin q => exact absurd ⟨rfl, rfl⟩ h
    | ninf =>
      rcases sgn p with h0 | hp | hn
      · subst h0; simp [Itv.mulExt]
      · have hq : 0 < p := by exact_mod_cast hp
        simp [Itv.mulExt, ne_of_gt hq, hq, EReal.coe_mul_bot_of_pos hp]
      · have hq : p < 0 := by exact_mod_cast hn
        simp [Itv.mulExt, ne_of_lt hq, not_lt.2 (le_of_lt hq), EReal.coe_mul_bot_of_neg hn]
    | pinf =>
      rcases sgn p with h0 | hp | hn
      · subst h0; simp [Itv.mulExt]
      · have hq : 0 < p := by exact_mod_cast hp
        simp [Itv.mulExt, ne_of_gt hq, hq, EReal.coe_mul_top_of_pos hp]
      · have hq : p < 0 := by exact_mod_cast hn
        simp [Itv.mulExt, ne_of_lt hq, not_lt.2 (le_of_lt hq), EReal.coe_mul_top_of_neg hn]

theorem mulExt_rd_le (a b : Ext) : (Itv.mulExt rd a b).toE ≤ a.toE * b.toE := by
  by_cases h : a.isFin = true ∧ b.isFin = true
  · cases a <;> cases b <;> simp [Ext.isFin] at h
    rename_i p q
    refine le_trans (rd_le _) ?_
    simp only [Ext.toE_fin]
    rw [← EReal.coe_mul]; push_cast; exact le_refl _
  · exact le_of_eq (mulExt_eq_of_not_fin rd a b h)

theorem le_mulExt_ru (a b : Ext) : a.toE * b.toE ≤ (Itv.mulExt ru a b).toE := by
  by_cases h : a.isFin = true ∧ b.isFin = true
  · cases a <;> cases b <;> simp [Ext.isFin] at h
    rename_i p q
    refine le_trans ?_ (le_ru _)
    simp only [Ext.toE_fin]
    rw [← EReal.coe_mul]; push_cast; exact le_refl _
  · exact le_of_eq (mulExt_eq_of_not_fin ru a b h).symm

/-- one-variable corner lemma on extended reals: x·c lies between a·c and b·c -/
theorem ereal_corner (a b c : EReal) (x : ℝ) (hax : a ≤ x) (hxb : (x : EReal) ≤ b) :
    Min.min (a * c) (b * c) ≤ (x : EReal) * c ∧ (x : EReal) * c ≤ Max.max (a * c) (b * c) := by
  rcases le_total 0 c with hc | hc
  · exact ⟨le_trans (min_le_left _ _) (mul_le_mul_of_nonneg_right hax hc),
           le_trans (mul_le_mul_of_nonneg_right hxb hc) (le_max_right _ _)⟩
  · exact ⟨le_trans (min_le_right _ _) (EReal.mul_le_mul_of_nonpos_right hxb hc),
           le_trans (EReal.mul_le_mul_of_nonpos_right hax hc) (le_max_left _ _)⟩

theorem Itv.mul_encl {X Y : Itv} {x y : ℝ} (hx : x ∈ X) (hy : y ∈ Y) : x * y ∈ Itv.mul X Y := by
  cases X with
  | empty => exact absurd hx (Itv.not_mem_empty x)
  | mk a b =>
    cases Y with
    | empty => exact absurd hy (Itv.not_mem_empty y)
    | mk c d =>
      obtain ⟨hax, hxb⟩ := hx
      obtain ⟨hcy, hyd⟩ := hy
      -- first in y (with the real factor x), then in x for each of c, d
      have hy' := ereal_corner c.toE d.toE (x : EReal) y hcy hyd
      have hc := ereal_corner a.toE b.toE c.toE x hax hxb
      have hd := ereal_corner a.toE b.toE d.toE x hax hxb
      rw [mul_comm c.toE, mul_comm d.toE, mul_comm (y : EReal)] at hy'
      rw [← EReal.coe_mul] at hy'
      refine ⟨?_, ?_⟩
      · simp only [Itv.min4, Ext.toE_min]
        have h1 : Min.min (Min.min (a.toE * c.toE) (a.toE * d.toE)) (Min.min (b.toE * c.toE) (b.toE * d.toE))
            ≤ ((x * y : ℝ) : EReal) := by
          refine le_trans ?_ hy'.1
          refine le_min (le_trans ?_ hc.1) (le_trans ?_ hd.1)
          · exact le_min (le_trans (min_le_left _ _) (min_le_left _ _)) (le_trans (min_le_right _ _) (min_le_left _ _))
          · exact le_min (le_trans (min_le_left _ _) (min_le_right _ _)) (le_trans (min_le_right _ _) (min_le_right _ _))
        refine le_trans ?_ h1
        exact min_le_min (min_le_min (mulExt_rd_le _ _) (mulExt_rd_le _ _)) (min_le_min (mulExt_rd_le _ _) (mulExt_rd_le _ _))
      · simp only [Itv.max4, Ext.toE_max]
        have h1 : ((x * y : ℝ) : EReal) ≤
            Max.max (Max.max (a.toE * c.toE) (a.toE * d.toE)) (Max.max (b.toE * c.toE) (b.toE * d.toE)) := by
          refine le_trans hy'.2 ?_
          refine max_le (le_trans hc.2 ?_) (le_trans hd.2 ?_)
          · exact max_le (le_trans (le_max_left _ _) (le_max_left _ _)) (le_trans (le_max_left _ _) (le_max_right _ _))
          · exact max_le (le_trans (le_max_right _ _) (le_max_left _ _)) (le_trans (le_max_right _ _) (le_max_right _ _))
        refine le_trans h1 ?_
        exact max_le_max (max_le_max (le_mulExt_ru _ _) (le_mulExt_ru _ _)) (max_le_max (le_mulExt_ru _ _) (le_mulExt_ru _ _))

end Ibex
