/-
  Soundness of the paving checker of `IbexModel/SetPaving.lean` (C19, last sentence).

  * real semantics `SE.sem e p = (p certainly in, p possibly in)` for a real point `p : List ℝ`;
  * `sem_cast`: the executable membership `SE.mem` at a rational point is the real semantics at that point
    (soundness of the refutation by exact points, for every expression);
  * `sem_cell`: for a boxy expression, membership is constant on the cells of a grid containing its cuts;
  * `lineReps_complete`, `repsIn_complete`, `gapsIn_complete`: the enumerated representatives meet every cell of a box /
    every point of a non-flat box is the end of a segment lying in one full-dimensional cell;
  * `leafOkW_sound`, `coverOk_sound`, `paving_sound`, `sepOk_sound`, `consistentOk_sound`, `leafRefuted_sound`.
-/
import IbexProofs.SetAlg
import IbexModel.SetPaving
import Mathlib.Tactic.Linarith
import Mathlib.Tactic.Ring
import Mathlib.Tactic.Positivity

namespace Ibex.SetPaving
open Ibex

abbrev Pt := List ℝ

/-- the real point of a rational point -/
def castPt (r : RPt) : Pt := r.map fun (q : Rat) => (q : ℝ)

@[simp] theorem castPt_nil : castPt [] = [] := rfl
@[simp] theorem castPt_cons (q : Rat) (r : RPt) : castPt (q :: r) = (q : ℝ) :: castPt r := rfl

/-! ### polynomials -/

noncomputable def monoValR : Pt → List Nat → ℝ
  | v :: pt, e :: exps => v ^ e * monoValR pt exps
  | _, _ => 1

noncomputable def polyEvalR : Poly → Pt → ℝ
  | [], _ => 0
  | m :: p, pt => (m.coef : ℝ) * monoValR pt m.exps + polyEvalR p pt

theorem monoValR_cast (r : RPt) (es : List Nat) : monoValR (castPt r) es = ((monoVal r es : Rat) : ℝ) := by
  induction r generalizing es with
  | nil => simp [monoValR, monoVal]
  | cons q r ih =>
    cases es with
    | nil => simp [monoValR, monoVal]
    | cons e es => simp [monoValR, monoVal, ih]

theorem polyEvalR_cast (f : Poly) (r : RPt) : polyEvalR f (castPt r) = ((polyEval f r : Rat) : ℝ) := by
  induction f with
  | nil => simp [polyEvalR, polyEval]
  | cons m f ih => simp [polyEvalR, polyEval, ih, monoValR_cast]

/-! ### rational points in intervals and boxes -/

/-- strict membership (topological interior of the interval, see `Itv.interiorMem_mk`) -/
def SMemI (x : ℝ) : Itv → Prop
  | .empty => False
  | .mk lo hi => lo.toE < (x : EReal) ∧ (x : EReal) < hi.toE

theorem SMemI_iff_interior {x : ℝ} {I : Itv} : SMemI x I ↔ Itv.InteriorMem x I := by
  cases I with
  | empty => exact ⟨fun h => h.elim, fun h => (Itv.not_interiorMem_empty h).elim⟩
  | mk a b => exact Itv.interiorMem_mk.symm

theorem SMemI.mem {x : ℝ} {I : Itv} (h : SMemI x I) : x ∈ I := by
  cases I with
  | empty => exact h.elim
  | mk a b => exact (Itv.mem_mk _ _ _).2 ⟨h.1.le, h.2.le⟩

theorem inItv_iff (q : Rat) (I : Itv) : inItv q I = true ↔ ((q : ℝ)) ∈ I := by
  cases I with
  | empty => simp [inItv]
  | mk a b =>
    rw [Itv.mem_mk]
    simp only [inItv, Bool.and_eq_true, Ext.le_iff, Ext.toE_fin]

theorem sinItv_iff (q : Rat) (I : Itv) : sinItv q I = true ↔ SMemI (q : ℝ) I := by
  cases I with
  | empty => simp [sinItv, SMemI]
  | mk a b => simp only [sinItv, SMemI, Bool.and_eq_true, Ext.lt_iff, Ext.toE_fin]

/-- strict membership in a box (interior of the box) -/
def SMem (p : Pt) (b : Box) : Prop := List.Forall₂ (fun x I => SMemI x I) p b

theorem SMem.mem {p : Pt} {b : Box} (h : SMem p b) : Box.Mem p b := by
  induction h with
  | nil => exact List.Forall₂.nil
  | cons h0 _ ih => exact List.Forall₂.cons h0.mem ih

theorem inBox_iff (r : RPt) (b : Box) : inBox r b = true ↔ Box.Mem (castPt r) b := by
  induction r generalizing b with
  | nil => cases b <;> simp [inBox, Box.Mem]
  | cons q r ih =>
    cases b with
    | nil => simp [inBox, Box.Mem]
    | cons I b =>
      simp only [inBox, Bool.and_eq_true, castPt_cons, Box.mem_cons, inItv_iff, ih]

theorem sinBox_iff (r : RPt) (b : Box) : sinBox r b = true ↔ SMem (castPt r) b := by
  induction r generalizing b with
  | nil => cases b <;> simp [sinBox, SMem]
  | cons q r ih =>
    cases b with
    | nil => simp [sinBox, SMem]
    | cons I b =>
      simp only [sinBox, Bool.and_eq_true, castPt_cons, SMem, List.forall₂_cons, sinItv_iff]
      rw [ih]; rfl

/-- the point belongs to one of the boxes -/
def InAny (p : Pt) (W : List Box) : Prop := ∃ b ∈ W, Box.Mem p b

theorem inAny_iff (r : RPt) (W : List Box) : inAny r W = true ↔ InAny (castPt r) W := by
  simp only [inAny, List.any_eq_true, InAny, inBox_iff]

/-! ### real semantics of the expressions -/

/-- (p certainly in the set, p possibly in the set) -/
noncomputable def SE.sem : SE → Pt → Prop × Prop
  | .univ, _ => (True, True)
  | .cl W, p => (InAny p W, InAny p W)
  | .cmp op f, p =>
    match op with
    | .lt => (polyEvalR f p < 0, polyEvalR f p ≤ 0)
    | .le => (polyEvalR f p < 0, polyEvalR f p ≤ 0)
    | .ge => (0 < polyEvalR f p, 0 ≤ polyEvalR f p)
    | .gt => (0 < polyEvalR f p, 0 ≤ polyEvalR f p)
    | .eq => (False, polyEvalR f p = 0)
  | .inv f s, p => s.sem [polyEvalR f p]
  | .not s, p => (¬ (s.sem p).2, ¬ (s.sem p).1)
  | .inter a b, p => ((a.sem p).1 ∧ (b.sem p).1, (a.sem p).2 ∧ (b.sem p).2)
  | .union a b, p => ((a.sem p).1 ∨ (b.sem p).1, (a.sem p).2 ∨ (b.sem p).2)
  | .thick a b, p => ((a.sem p).1, (b.sem p).2)
  | .meet a b, p => ((a.sem p).1 ∨ (b.sem p).1, (a.sem p).2 ∧ (b.sem p).2)

/-- `p` is certainly in the set -/
def SE.Lo (e : SE) (p : Pt) : Prop := (e.sem p).1
/-- `p` is possibly in the set -/
def SE.Hi (e : SE) (p : Pt) : Prop := (e.sem p).2

/-- exact evaluation at a rational point is the real semantics at this point (every expression) -/
theorem sem_cast (e : SE) : ∀ r : RPt,
    ((e.sem (castPt r)).1 ↔ (e.mem r).1 = true) ∧ ((e.sem (castPt r)).2 ↔ (e.mem r).2 = true) := by
  induction e with
  | univ => intro r; simp [SE.sem, SE.mem]
  | cl W => intro r; simp [SE.sem, SE.mem, inAny_iff]
  | cmp op f =>
    intro r
    have hv := polyEvalR_cast f r
    cases op <;> simp only [SE.sem, SE.mem, hv, decide_eq_true_eq] <;>
      constructor <;> first | exact Iff.rfl | (constructor <;> intro h <;> exact_mod_cast h) | simp
  | inv f s ih =>
    intro r
    have := ih [polyEval f r]
    simpa [SE.sem, SE.mem, polyEvalR_cast] using this
  | not s ih =>
    intro r
    obtain ⟨h1, h2⟩ := ih r
    simp [SE.sem, SE.mem, h1, h2]
  | inter a b iha ihb =>
    intro r
    obtain ⟨a1, a2⟩ := iha r; obtain ⟨b1, b2⟩ := ihb r
    simp [SE.sem, SE.mem, a1, a2, b1, b2]
  | union a b iha ihb =>
    intro r
    obtain ⟨a1, a2⟩ := iha r; obtain ⟨b1, b2⟩ := ihb r
    simp [SE.sem, SE.mem, a1, a2, b1, b2]
  | thick a b iha ihb =>
    intro r
    exact ⟨(iha r).1, (ihb r).2⟩
  | meet a b iha ihb =>
    intro r
    obtain ⟨a1, a2⟩ := iha r; obtain ⟨b1, b2⟩ := ihb r
    simp [SE.sem, SE.mem, a1, a2, b1, b2]

theorem lo_cast (e : SE) (r : RPt) : e.Lo (castPt r) ↔ e.lo r = true := (sem_cast e r).1
theorem hi_cast (e : SE) (r : RPt) : e.Hi (castPt r) ↔ e.hi r = true := (sem_cast e r).2

/-! ### cells -/

/-- the real `x` and the rational `q` are on the same side of every cut -/
def SameSide (cs : List Rat) (x : ℝ) (q : Rat) : Prop :=
  ∀ c ∈ cs, (x < (c : ℝ) ↔ (q : ℝ) < (c : ℝ)) ∧ ((c : ℝ) < x ↔ (c : ℝ) < (q : ℝ))

theorem SameSide.mono {cs cs' : List Rat} {x : ℝ} {q : Rat} (h : SameSide cs x q) (hs : ∀ c ∈ cs', c ∈ cs) :
    SameSide cs' x q := fun c hc => h c (hs c hc)

theorem SameSide.le_iff {cs : List Rat} {x : ℝ} {q : Rat} (h : SameSide cs x q) {c : Rat} (hc : c ∈ cs) :
    ((c : ℝ) ≤ x ↔ (c : ℝ) ≤ (q : ℝ)) ∧ (x ≤ (c : ℝ) ↔ (q : ℝ) ≤ (c : ℝ)) := by
  obtain ⟨h1, h2⟩ := h c hc
  exact ⟨by rw [← not_lt, ← not_lt, h1], by rw [← not_lt, ← not_lt, h2]⟩

theorem mem_finBounds_lo {a : Rat} {hi : Ext} : a ∈ SE.finBounds (.mk (.fin a) hi) := by
  simp [SE.finBounds]

theorem mem_finBounds_hi {lo : Ext} {b : Rat} : b ∈ SE.finBounds (.mk lo (.fin b)) := by
  simp [SE.finBounds]

/-- membership in an interval whose finite bounds are cuts is the same for `x` and `q` -/
theorem mem_itv_side {cs : List Rat} {x : ℝ} {q : Rat} (h : SameSide cs x q) {I : Itv}
    (hb : ∀ c ∈ SE.finBounds I, c ∈ cs) : x ∈ I ↔ inItv q I = true := by
  rw [inItv_iff]
  cases I with
  | empty => simp
  | mk lo hi =>
    rw [Itv.mem_mk, Itv.mem_mk]
    have hlo : lo.toE ≤ (x : EReal) ↔ lo.toE ≤ ((q : ℝ) : EReal) := by
      cases lo with
      | ninf => simp
      | pinf => simp
      | fin a =>
        simp only [Ext.toE_fin, EReal.coe_le_coe_iff]
        exact (h.le_iff (hb a mem_finBounds_lo)).1
    have hhi : (x : EReal) ≤ hi.toE ↔ ((q : ℝ) : EReal) ≤ hi.toE := by
      cases hi with
      | ninf => simp
      | pinf => simp
      | fin b =>
        simp only [Ext.toE_fin, EReal.coe_le_coe_iff]
        exact (h.le_iff (hb b mem_finBounds_hi)).2
    rw [hlo, hhi]

theorem smem_itv_side {cs : List Rat} {x : ℝ} {q : Rat} (h : SameSide cs x q) {I : Itv}
    (hb : ∀ c ∈ SE.finBounds I, c ∈ cs) : SMemI x I ↔ sinItv q I = true := by
  rw [sinItv_iff]
  cases I with
  | empty => simp [SMemI]
  | mk lo hi =>
    simp only [SMemI]
    have hlo : lo.toE < (x : EReal) ↔ lo.toE < ((q : ℝ) : EReal) := by
      cases lo with
      | ninf => simp
      | pinf => simp
      | fin a =>
        simp only [Ext.toE_fin, EReal.coe_lt_coe_iff]
        exact (h a (hb a mem_finBounds_lo)).2
    have hhi : (x : EReal) < hi.toE ↔ ((q : ℝ) : EReal) < hi.toE := by
      cases hi with
      | ninf => simp
      | pinf => simp
      | fin b =>
        simp only [Ext.toE_fin, EReal.coe_lt_coe_iff]
        exact (h b (hb b mem_finBounds_hi)).1
    rw [hlo, hhi]

/-- the real point `p` and the rational point `r` are in the same cell of the grid `cuts` (coordinate `i` of the points
    is coordinate `off + i` of the grid) -/
def SameCell (cuts : Nat → List Rat) : Nat → Pt → RPt → Prop
  | _, [], [] => True
  | off, x :: p, q :: r => SameSide (cuts off) x q ∧ SameCell cuts (off + 1) p r
  | _, _, _ => False

theorem SameCell.mono {cuts cuts' : Nat → List Rat} (hs : ∀ j c, c ∈ cuts' j → c ∈ cuts j) :
    ∀ {off : Nat} {p : Pt} {r : RPt}, SameCell cuts off p r → SameCell cuts' off p r
  | _, [], [], _ => trivial
  | _, _ :: _, _ :: _, h => ⟨h.1.mono (hs _), SameCell.mono hs h.2⟩
  | _, [], _ :: _, h => h.elim
  | _, _ :: _, [], h => h.elim

/-- membership in a box whose finite bounds are cuts is the same for the two points of a cell -/
theorem mem_box_cell {cuts : Nat → List Rat} : ∀ {off : Nat} {p : Pt} {r : RPt} {b : Box},
    SameCell cuts off p r → (∀ i I, b[i]? = some I → ∀ c ∈ SE.finBounds I, c ∈ cuts (off + i)) →
    (Box.Mem p b ↔ inBox r b = true)
  | _, [], [], [], _, _ => by simp [inBox, Box.Mem]
  | _, [], [], _ :: _, _, _ => by simp [inBox, Box.Mem]
  | _, _ :: _, _ :: _, [], _, _ => by simp [inBox, Box.Mem]
  | off, x :: p, q :: r, I :: b, h, hb => by
    rw [Box.mem_cons]
    simp only [inBox, Bool.and_eq_true]
    have h0 : x ∈ I ↔ inItv q I = true := mem_itv_side h.1 (by simpa using hb 0 I (by simp))
    have h1 : Box.Mem p b ↔ inBox r b = true :=
      mem_box_cell h.2 (fun i J hJ c hc => by
        have := hb (i + 1) J (by simpa using hJ) c hc
        rwa [show off + (i + 1) = off + 1 + i by omega] at this)
    rw [h0, h1]
  | _, [], _ :: _, _, h, _ => h.elim
  | _, _ :: _, [], _, h, _ => h.elim

theorem smem_box_cell {cuts : Nat → List Rat} : ∀ {off : Nat} {p : Pt} {r : RPt} {b : Box},
    SameCell cuts off p r → (∀ i I, b[i]? = some I → ∀ c ∈ SE.finBounds I, c ∈ cuts (off + i)) →
    (SMem p b ↔ sinBox r b = true)
  | _, [], [], [], _, _ => by simp [sinBox, SMem]
  | _, [], [], _ :: _, _, _ => by simp [sinBox, SMem]
  | _, _ :: _, _ :: _, [], _, _ => by simp [sinBox, SMem]
  | off, x :: p, q :: r, I :: b, h, hb => by
    simp only [SMem, List.forall₂_cons, sinBox, Bool.and_eq_true]
    have h0 : SMemI x I ↔ sinItv q I = true := smem_itv_side h.1 (by simpa using hb 0 I (by simp))
    have h1 : SMem p b ↔ sinBox r b = true :=
      smem_box_cell h.2 (fun i J hJ c hc => by
        have := hb (i + 1) J (by simpa using hJ) c hc
        rwa [show off + (i + 1) = off + 1 + i by omega] at this)
    rw [h0, ← h1]; rfl
  | _, [], _ :: _, _, h, _ => h.elim
  | _, _ :: _, [], _, h, _ => h.elim

theorem mem_boxCuts {b : Box} {i : Nat} {I : Itv} (h : b[i]? = some I) {c : Rat} (hc : c ∈ SE.finBounds I) :
    c ∈ SE.boxCuts b i := by
  simp only [SE.boxCuts, List.getD_eq_getElem?_getD, h, Option.getD_some]
  exact hc

/-- for a boxy expression the membership of a real point is the exact membership of any rational point of its cell -/
theorem sem_cell {cuts : Nat → List Rat} (e : SE) (hb : e.boxy = true) (hc : ∀ j c, c ∈ e.cuts j → c ∈ cuts j)
    {p : Pt} {r : RPt} (h : SameCell cuts 0 p r) :
    ((e.sem p).1 ↔ (e.mem r).1 = true) ∧ ((e.sem p).2 ↔ (e.mem r).2 = true) := by
  induction e with
  | univ => simp [SE.sem, SE.mem]
  | cl W =>
    have key : InAny p W ↔ inAny r W = true := by
      simp only [InAny, inAny, List.any_eq_true]
      constructor
      · rintro ⟨b, hbW, hm⟩
        refine ⟨b, hbW, (mem_box_cell h (fun i I hI c hcI => ?_)).1 hm⟩
        rw [Nat.zero_add]
        exact hc i c (by simp only [SE.cuts, List.mem_flatMap]; exact ⟨b, hbW, mem_boxCuts hI hcI⟩)
      · rintro ⟨b, hbW, hm⟩
        refine ⟨b, hbW, (mem_box_cell h (fun i I hI c hcI => ?_)).2 hm⟩
        rw [Nat.zero_add]
        exact hc i c (by simp only [SE.cuts, List.mem_flatMap]; exact ⟨b, hbW, mem_boxCuts hI hcI⟩)
    simp [SE.sem, SE.mem, key]
  | cmp op f => simp [SE.boxy] at hb
  | inv f s _ => simp [SE.boxy] at hb
  | not s ih =>
    obtain ⟨h1, h2⟩ := ih (by simpa [SE.boxy] using hb) (fun j c hj => hc j c (by simpa [SE.cuts] using hj))
    simp [SE.sem, SE.mem, h1, h2]
  | inter a b iha ihb =>
    simp only [SE.boxy, Bool.and_eq_true] at hb
    obtain ⟨a1, a2⟩ := iha hb.1 (fun j c hj => hc j c (by simp [SE.cuts, hj]))
    obtain ⟨b1, b2⟩ := ihb hb.2 (fun j c hj => hc j c (by simp [SE.cuts, hj]))
    simp [SE.sem, SE.mem, a1, a2, b1, b2]
  | union a b iha ihb =>
    simp only [SE.boxy, Bool.and_eq_true] at hb
    obtain ⟨a1, a2⟩ := iha hb.1 (fun j c hj => hc j c (by simp [SE.cuts, hj]))
    obtain ⟨b1, b2⟩ := ihb hb.2 (fun j c hj => hc j c (by simp [SE.cuts, hj]))
    simp [SE.sem, SE.mem, a1, a2, b1, b2]
  | thick a b iha ihb =>
    simp only [SE.boxy, Bool.and_eq_true] at hb
    obtain ⟨a1, _⟩ := iha hb.1 (fun j c hj => hc j c (by simp [SE.cuts, hj]))
    obtain ⟨_, b2⟩ := ihb hb.2 (fun j c hj => hc j c (by simp [SE.cuts, hj]))
    exact ⟨a1, b2⟩
  | meet a b iha ihb =>
    simp only [SE.boxy, Bool.and_eq_true] at hb
    obtain ⟨a1, a2⟩ := iha hb.1 (fun j c hj => hc j c (by simp [SE.cuts, hj]))
    obtain ⟨b1, b2⟩ := ihb hb.2 (fun j c hj => hc j c (by simp [SE.cuts, hj]))
    simp [SE.sem, SE.mem, a1, a2, b1, b2]

/-! ### the representatives of the cells of the line -/

theorem mem_insertCut {x y : Rat} : ∀ {l : List Rat}, y ∈ insertCut x l ↔ y = x ∨ y ∈ l
  | [] => by simp [insertCut]
  | c :: cs => by
    unfold insertCut
    split
    · simp
    · split
      · rename_i h; subst h; simp
      · simp only [List.mem_cons, mem_insertCut (l := cs)]
        tauto

theorem mem_sortCuts {y : Rat} : ∀ {l : List Rat}, y ∈ sortCuts l ↔ y ∈ l
  | [] => by simp [sortCuts]
  | x :: l => by
    have ih := mem_sortCuts (y := y) (l := l)
    simp only [sortCuts, List.foldr_cons] at ih ⊢
    rw [mem_insertCut, ih, List.mem_cons]

theorem sorted_insertCut {x : Rat} : ∀ {l : List Rat}, l.Pairwise (· < ·) → (insertCut x l).Pairwise (· < ·)
  | [], _ => by simp [insertCut]
  | c :: cs, h => by
    have hc := List.pairwise_cons.1 h
    unfold insertCut
    split
    · rename_i hx
      exact List.pairwise_cons.2 ⟨fun y hy => by
        rcases List.mem_cons.1 hy with rfl | hy
        · exact hx
        · exact lt_trans hx (hc.1 y hy), h⟩
    · split
      · exact h
      · rename_i h1 h2
        refine List.pairwise_cons.2 ⟨fun y hy => ?_, sorted_insertCut hc.2⟩
        rcases mem_insertCut.1 hy with rfl | hy
        · exact lt_of_le_of_ne (not_lt.1 h1) (fun e => h2 e.symm)
        · exact hc.1 y hy

theorem sorted_sortCuts : ∀ (l : List Rat), (sortCuts l).Pairwise (· < ·)
  | [] => by simp [sortCuts]
  | x :: l => by
    have ih := sorted_sortCuts l
    simp only [sortCuts, List.foldr_cons] at ih ⊢
    exact sorted_insertCut ih

theorem gapReps_complete : ∀ (cs : List Rat) (prev : Rat) (x : ℝ), (prev : ℝ) < x →
    (prev :: cs).Pairwise (· < ·) → ∃ q ∈ gapReps prev cs, (prev : ℝ) < (q : ℝ) ∧ SameSide cs x q
  | [], prev, x, _, _ => ⟨prev + 1, by simp [gapReps], by push_cast; linarith, fun c hc => by simp at hc⟩
  | c :: cs, prev, x, hx, hs => by
    obtain ⟨h1, h2⟩ := List.pairwise_cons.1 hs
    have hpc : (prev : ℝ) < (c : ℝ) := by exact_mod_cast h1 c (List.mem_cons_self ..)
    have hcs : ∀ c' ∈ cs, (c : ℝ) < (c' : ℝ) := fun c' hc' => by
      exact_mod_cast (List.pairwise_cons.1 h2).1 c' hc'
    rcases lt_trichotomy x (c : ℝ) with hlt | heq | hgt
    · refine ⟨(prev + c) / 2, by simp [gapReps], by push_cast; linarith, fun c' hc' => ?_⟩
      have hq : (((prev + c) / 2 : Rat) : ℝ) < (c : ℝ) := by push_cast; linarith
      rcases List.mem_cons.1 hc' with rfl | hc'
      · exact ⟨iff_of_true hlt hq, iff_of_false (not_lt.2 hlt.le) (not_lt.2 hq.le)⟩
      · have := hcs c' hc'
        exact ⟨iff_of_true (lt_trans hlt this) (lt_trans hq this),
          iff_of_false (not_lt.2 (lt_trans hlt this).le) (not_lt.2 (lt_trans hq this).le)⟩
    · refine ⟨c, by simp [gapReps], hpc, fun c' hc' => ?_⟩
      rw [heq]
      exact ⟨Iff.rfl, Iff.rfl⟩
    · obtain ⟨q, hq, hcq, hS⟩ := gapReps_complete cs c x hgt h2
      refine ⟨q, by simp [gapReps, hq], lt_trans hpc hcq, fun c' hc' => ?_⟩
      rcases List.mem_cons.1 hc' with rfl | hc'
      · exact ⟨iff_of_false (not_lt.2 hgt.le) (not_lt.2 hcq.le), iff_of_true hgt hcq⟩
      · exact hS c' hc'

/-- every real number is in the cell of one of the representatives -/
theorem lineReps_complete (cs : List Rat) (x : ℝ) : ∃ q ∈ lineReps cs, SameSide cs x q := by
  unfold lineReps
  have hs := sorted_sortCuts cs
  have hm : ∀ y, y ∈ sortCuts cs ↔ y ∈ cs := fun y => mem_sortCuts
  cases hsc : sortCuts cs with
  | nil =>
    refine ⟨0, by simp, fun c hc => ?_⟩
    have := (hm c).2 hc
    rw [hsc] at this
    simp at this
  | cons c cs' =>
    rw [hsc] at hs
    have hcs : ∀ c' ∈ cs', (c : ℝ) < (c' : ℝ) := fun c' hc' => by
      exact_mod_cast (List.pairwise_cons.1 hs).1 c' hc'
    have hmem : ∀ c' ∈ cs, c' = c ∨ c' ∈ cs' := fun c' hc' => by
      have := (hm c').2 hc'
      rw [hsc] at this
      exact List.mem_cons.1 this
    rcases lt_trichotomy x (c : ℝ) with hlt | heq | hgt
    · refine ⟨c - 1, by simp, fun c' hc' => ?_⟩
      have hq : (((c - 1 : Rat)) : ℝ) < (c : ℝ) := by push_cast; linarith
      rcases hmem c' hc' with rfl | hc'
      · exact ⟨iff_of_true hlt hq, iff_of_false (not_lt.2 hlt.le) (not_lt.2 hq.le)⟩
      · have := hcs c' hc'
        exact ⟨iff_of_true (lt_trans hlt this) (lt_trans hq this),
          iff_of_false (not_lt.2 (lt_trans hlt this).le) (not_lt.2 (lt_trans hq this).le)⟩
    · refine ⟨c, by simp, fun c' _ => ?_⟩
      rw [heq]
      exact ⟨Iff.rfl, Iff.rfl⟩
    · obtain ⟨q, hq, hcq, hS⟩ := gapReps_complete cs' c x hgt hs
      refine ⟨q, by simp [hq], fun c' hc' => ?_⟩
      rcases hmem c' hc' with rfl | hc'
      · exact ⟨iff_of_false (not_lt.2 hgt.le) (not_lt.2 hcq.le), iff_of_true hgt hcq⟩
      · exact hS c' hc'

/-! ### the representatives of the cells of a box -/

/-- every point of the box is in the cell of one of the representatives -/
theorem repsIn_complete (cuts : Nat → List Rat) : ∀ (b : Box) (off : Nat) (p : Pt), Box.Mem p b →
    ∃ r ∈ repsIn cuts off b, SameCell cuts off p r
  | [], _, p, hp => by
    cases hp
    exact ⟨[], by simp [repsIn], trivial⟩
  | I :: b, off, p, hp => by
    cases hp with
    | @cons x _ p' _ hx hp' =>
      obtain ⟨q, hq, hS⟩ := lineReps_complete (cuts off ++ SE.finBounds I) x
      obtain ⟨r', hr', hC⟩ := repsIn_complete cuts b (off + 1) p' hp'
      have hin : inItv q I = true := (mem_itv_side hS (fun c hc => List.mem_append_right _ hc)).1 hx
      refine ⟨q :: r', ?_, hS.mono (fun c hc => List.mem_append_left _ hc), hC⟩
      simp only [repsIn, List.mem_flatMap, List.mem_filter, List.mem_map]
      exact ⟨q, ⟨hq, hin⟩, r', hr', rfl⟩

/-- the point `p + t (r - p)` of the segment from the real point `p` to the rational point `r` -/
noncomputable def seg (t : ℝ) : Pt → RPt → Pt
  | x :: p, q :: r => (x + t * ((q : ℝ) - x)) :: seg t p r
  | _, _ => []

theorem exists_gap_width (x : ℝ) : ∀ (cs : List Rat), ∃ δ : ℝ, 0 < δ ∧ ∀ c ∈ cs, (c : ℝ) ≠ x → δ ≤ |(c : ℝ) - x|
  | [] => ⟨1, one_pos, fun c hc => by simp at hc⟩
  | c :: cs => by
    obtain ⟨δ, hδ, h⟩ := exists_gap_width x cs
    by_cases hcx : (c : ℝ) = x
    · exact ⟨δ, hδ, fun c' hc' hne => by
        rcases List.mem_cons.1 hc' with rfl | hc'
        · exact absurd hcx hne
        · exact h c' hc' hne⟩
    · have hpos : 0 < |(c : ℝ) - x| := abs_pos.2 (sub_ne_zero.2 hcx)
      refine ⟨min δ |(c : ℝ) - x|, lt_min hδ hpos, fun c' hc' hne => ?_⟩
      rcases List.mem_cons.1 hc' with rfl | hc'
      · exact min_le_right _ _
      · exact le_trans (min_le_left _ _) (h c' hc' hne)

/-- a point of a non-degenerate interval is the end of a segment whose other points lie in one gap of the grid,
    strictly inside the interval -/
theorem lineGap_adjacent (cs : List Rat) (a b : Ext) (hb : ∀ c ∈ SE.finBounds (.mk a b), c ∈ cs) (hne : a ≠ b)
    (x : ℝ) (hx : x ∈ Itv.mk a b) :
    ∃ q ∈ lineReps cs, sinItv q (.mk a b) = true ∧ q ∉ cs ∧
      ∀ t : ℝ, 0 < t → t ≤ 1 → SameSide cs (x + t * ((q : ℝ) - x)) q := by
  obtain ⟨hxa, hxb⟩ := (Itv.mem_mk _ _ _).1 hx
  obtain ⟨δ, hδ, hgap⟩ := exists_gap_width x cs
  -- a point y0 close to x, strictly inside the interval
  have hy0 : ∃ y0 : ℝ, |y0 - x| = δ / 2 ∧ a.toE < (y0 : EReal) ∧ (y0 : EReal) < b.toE := by
    by_cases hlt : (x : EReal) < b.toE
    · refine ⟨x + δ / 2, by rw [add_sub_cancel_left, abs_of_pos (by linarith)], ?_, ?_⟩
      · exact lt_of_le_of_lt hxa (EReal.coe_lt_coe_iff.2 (by linarith))
      · cases b with
        | ninf => simp at hlt
        | pinf => exact EReal.coe_lt_top _
        | fin bb =>
          simp only [Ext.toE_fin, EReal.coe_lt_coe_iff] at hlt ⊢
          have := hgap bb (hb bb mem_finBounds_hi) (ne_of_gt hlt)
          rw [abs_of_pos (by linarith)] at this
          linarith
    · have hxb' : (x : EReal) = b.toE := le_antisymm hxb (not_lt.1 hlt)
      have hab : a.toE < (x : EReal) := by
        rcases lt_or_eq_of_le hxa with h | h
        · exact h
        · exact absurd (Ext.toE_injective (h.trans hxb')) hne
      refine ⟨x - δ / 2, by rw [sub_sub_cancel_left, abs_neg, abs_of_pos (by linarith)], ?_, ?_⟩
      · cases a with
        | pinf => simp at hab
        | ninf => exact EReal.bot_lt_coe _
        | fin aa =>
          simp only [Ext.toE_fin, EReal.coe_lt_coe_iff] at hab ⊢
          have := hgap aa (hb aa mem_finBounds_lo) (ne_of_lt hab)
          rw [abs_of_neg (by linarith)] at this
          linarith
      · rw [← hxb']
        exact EReal.coe_lt_coe_iff.2 (by linarith)
  obtain ⟨y0, hy, hya, hyb⟩ := hy0
  have hy_ne : y0 ≠ x := fun e => by rw [e, sub_self, abs_zero] at hy; linarith
  have hyl := abs_le.1 (le_of_eq hy)
  -- y0 and x are on the same side of every cut different from x
  have hside : ∀ c ∈ cs, (c : ℝ) ≠ x → (((c : ℝ) < y0 ↔ (c : ℝ) < x) ∧ (y0 < (c : ℝ) ↔ x < (c : ℝ))) := by
    intro c hc hcx
    have h := hgap c hc hcx
    rcases lt_or_gt_of_ne hcx with hlt | hgt
    · rw [abs_of_neg (by linarith)] at h
      exact ⟨iff_of_true (by linarith) hlt, iff_of_false (by linarith) (by linarith)⟩
    · rw [abs_of_pos (by linarith)] at h
      exact ⟨iff_of_false (by linarith) (by linarith), iff_of_true (by linarith) hgt⟩
  obtain ⟨q, hq, hS⟩ := lineReps_complete cs y0
  have hq_notin : q ∉ cs := by
    intro hqc
    obtain ⟨h1, h2⟩ := hS q hqc
    have e : y0 = (q : ℝ) := le_antisymm (not_lt.1 (fun h => lt_irrefl _ (h2.1 h))) (not_lt.1 (fun h => lt_irrefl _ (h1.1 h)))
    have hqx : (q : ℝ) ≠ x := e ▸ hy_ne
    have := hgap q hqc hqx
    rw [← e, hy] at this
    linarith
  have hsin : sinItv q (.mk a b) = true :=
    (smem_itv_side hS hb).1 ⟨hya, hyb⟩
  refine ⟨q, hq, hsin, hq_notin, fun t ht0 ht1 c hc => ?_⟩
  obtain ⟨h1, h2⟩ := hS c hc
  have hqc : (q : ℝ) ≠ (c : ℝ) := fun e => hq_notin (by
    have : q = c := by exact_mod_cast e
    rw [this]; exact hc)
  by_cases hcx : (c : ℝ) = x
  · -- the cut is x itself: the segment leaves x towards q
    have e : x + t * ((q : ℝ) - x) = (c : ℝ) + t * ((q : ℝ) - (c : ℝ)) := by rw [hcx]
    rw [e]
    constructor
    · constructor
      · intro h
        by_contra hn
        have : 0 ≤ t * ((q : ℝ) - (c : ℝ)) := mul_nonneg ht0.le (by linarith)
        linarith
      · intro h
        have : t * ((q : ℝ) - (c : ℝ)) < 0 := mul_neg_of_pos_of_neg ht0 (by linarith)
        linarith
    · constructor
      · intro h
        by_contra hn
        have : t * ((q : ℝ) - (c : ℝ)) ≤ 0 := mul_nonpos_of_nonneg_of_nonpos ht0.le (by linarith)
        linarith
      · intro h
        have : 0 < t * ((q : ℝ) - (c : ℝ)) := mul_pos ht0 (by linarith)
        linarith
  · obtain ⟨s1, s2⟩ := hside c hc hcx
    have e : x + t * ((q : ℝ) - x) - (c : ℝ) = (1 - t) * (x - (c : ℝ)) + t * ((q : ℝ) - (c : ℝ)) := by ring
    rcases lt_or_gt_of_ne hcx with hlt | hgt
    · -- c < x, hence c < y0 and c < q
      have hcq : (c : ℝ) < (q : ℝ) := h2.1 (s1.2 hlt)
      have a1 : 0 ≤ (1 - t) * (x - (c : ℝ)) := mul_nonneg (by linarith) (by linarith)
      have a2 : 0 < t * ((q : ℝ) - (c : ℝ)) := mul_pos ht0 (by linarith)
      exact ⟨iff_of_false (by linarith) (by linarith), iff_of_true (by linarith) hcq⟩
    · have hqc' : (q : ℝ) < (c : ℝ) := h1.1 (s2.2 hgt)
      have a1 : (1 - t) * (x - (c : ℝ)) ≤ 0 := mul_nonpos_of_nonneg_of_nonpos (by linarith) (by linarith)
      have a2 : t * ((q : ℝ) - (c : ℝ)) < 0 := mul_neg_of_pos_of_neg ht0 (by linarith)
      exact ⟨iff_of_true (by linarith) hqc', iff_of_false (by linarith) (by linarith)⟩

/-- no component of the box is reduced to a point -/
def NonFlat (b : Box) : Prop := ∀ I ∈ b, I.isDegenerated = false

/-- every point of a non-flat box is the end of a segment whose other points lie in ONE full-dimensional cell of the box
    (strictly inside the box), the cell of one of the representatives `gapsIn` -/
theorem gapsIn_complete (cuts : Nat → List Rat) : ∀ (b : Box) (off : Nat) (p : Pt), Box.Mem p b → NonFlat b →
    ∃ r ∈ gapsIn cuts off b, r.length = p.length ∧
      ∀ t : ℝ, 0 < t → t ≤ 1 → SameCell cuts off (seg t p r) r ∧ SMem (seg t p r) b
  | [], _, p, hp, _ => by
    cases hp
    exact ⟨[], by simp [gapsIn], rfl, fun t _ _ => ⟨trivial, List.Forall₂.nil⟩⟩
  | I :: b, off, p, hp, hnf => by
    cases hp with
    | @cons x _ p' _ hx hp' =>
      have hI : I.isDegenerated = false := hnf I (List.mem_cons_self ..)
      obtain ⟨r', hr', hlen, hC⟩ := gapsIn_complete cuts b (off + 1) p' hp' (fun J hJ => hnf J (List.mem_cons_of_mem _ hJ))
      cases I with
      | empty => exact absurd hx (Itv.not_mem_empty x)
      | mk a bb =>
        have hne : a ≠ bb := by
          intro e
          simp [Itv.isDegenerated, e] at hI
        obtain ⟨q, hq, hsin, hnot, hseg⟩ :=
          lineGap_adjacent (cuts off ++ SE.finBounds (.mk a bb)) a bb (fun c hc => List.mem_append_right _ hc) hne x hx
        refine ⟨q :: r', ?_, by simp [hlen], fun t ht0 ht1 => ?_⟩
        · simp only [gapsIn, List.mem_flatMap, List.mem_filter, List.mem_map, Bool.and_eq_true, Bool.not_eq_true',
            List.contains_eq_mem, decide_eq_false_iff_not]
          exact ⟨q, ⟨hq, hsin, hnot⟩, r', hr', rfl⟩
        · obtain ⟨hC1, hC2⟩ := hC t ht0 ht1
          have hS := hseg t ht0 ht1
          exact ⟨⟨hS.mono (fun c hc => List.mem_append_left _ hc), hC1⟩,
            List.Forall₂.cons ((smem_itv_side hS (fun c hc => List.mem_append_right _ hc)).2 hsin) hC2⟩

/-! ### soundness of the checkers -/

/-- claim of a leaf of status `st` at any of its points: a YES leaf is possibly in, a NO leaf is not certainly in -/
def ClaimB (e : SE) (st : St) (p : Pt) : Prop :=
  match st with
  | .yes => e.Hi p
  | .no => ¬ e.Lo p
  | .maybe => True

/-- claim of a leaf of status `st` inside its full-dimensional cells: a YES leaf is certainly in, a NO leaf certainly out -/
def ClaimR (e : SE) (st : St) (p : Pt) : Prop :=
  match st with
  | .yes => e.Lo p
  | .no => ¬ e.Hi p
  | .maybe => True

theorem okB_cell {cuts : Nat → List Rat} {e : SE} (hb : e.boxy = true) (hc : ∀ j c, c ∈ e.cuts j → c ∈ cuts j)
    {p : Pt} {r : RPt} (h : SameCell cuts 0 p r) (st : St) : ClaimB e st p ↔ okB e st r = true := by
  obtain ⟨h1, h2⟩ := sem_cell e hb hc h
  cases st
  · exact h2
  · simp only [ClaimB, okB, SE.Lo, SE.lo, h1, Bool.not_eq_true', Bool.not_eq_true]
  · simp [ClaimB, okB]

theorem okR_cell {cuts : Nat → List Rat} {e : SE} (hb : e.boxy = true) (hc : ∀ j c, c ∈ e.cuts j → c ∈ cuts j)
    {p : Pt} {r : RPt} (h : SameCell cuts 0 p r) (st : St) : ClaimR e st p ↔ okR e st r = true := by
  obtain ⟨h1, h2⟩ := sem_cell e hb hc h
  cases st
  · exact h1
  · simp only [ClaimR, okR, SE.Hi, SE.hi, h2, Bool.not_eq_true', Bool.not_eq_true]
  · simp [ClaimR, okR]

/-- the table of cuts contains the cuts of the expression -/
theorem fastCuts_sup (e : SE) (n j : Nat) (c : Rat) (h : c ∈ e.cuts j) : c ∈ e.fastCuts (e.cutTable n) j := by
  unfold SE.fastCuts SE.cutTable
  rw [List.getElem?_map]
  by_cases hj : j < n
  · rw [List.getElem?_range hj]
    exact mem_sortCuts.2 h
  · rw [List.getElem?_eq_none (by simpa using not_lt.1 hj)]
    exact h

/-- a leaf accepted by the cell rules: (1) [sets] the claim `ClaimB` holds at EVERY real point of the leaf;
    (2) if the leaf is not flat, every real point `p` of the leaf is the end of a segment `p + t (m - p)`, `0 < t <= 1`,
    lying strictly inside the leaf, on which the strong claim `ClaimR` holds (p is a limit of such points) -/
theorem leafOkW_sound {cuts : Nat → List Rat} {e : SE} (hb : e.boxy = true) (hc : ∀ j c, c ∈ e.cuts j → c ∈ cuts j)
    {iset : Bool} {L : Leaf} (h : leafOkW cuts iset e L = true) :
    (iset = false → ∀ p, Box.Mem p L.box → ClaimB e L.st p) ∧
    (NonFlat L.box → ∀ p, Box.Mem p L.box →
      ∃ m : RPt, m.length = p.length ∧
        ∀ t : ℝ, 0 < t → t ≤ 1 → SMem (seg t p m) L.box ∧ ClaimR e L.st (seg t p m)) := by
  by_cases hm : L.st = .maybe
  · refine ⟨fun _ p _ => by rw [hm]; trivial, fun hnf p hp => ?_⟩
    obtain ⟨r, _, hlen, hr⟩ := gapsIn_complete cuts L.box 0 p hp hnf
    exact ⟨r, hlen, fun t h0 h1 => ⟨(hr t h0 h1).2, by rw [hm]; trivial⟩⟩
  · have h' : (iset = true ∨ (repsIn cuts 0 L.box).all (okB e L.st) = true) ∧ (gapsIn cuts 0 L.box).all (okR e L.st) = true := by
      simpa [leafOkW, hm] using h
    obtain ⟨hB, hR⟩ := h'
    refine ⟨fun hi p hp => ?_, fun hnf p hp => ?_⟩
    · have hall : (repsIn cuts 0 L.box).all (okB e L.st) = true := by
        rcases hB with hB | hB
        · rw [hi] at hB; cases hB
        · exact hB
      obtain ⟨r, hr, hC⟩ := repsIn_complete cuts L.box 0 p hp
      exact (okB_cell hb hc hC L.st).2 (List.all_eq_true.1 hall r hr)
    · obtain ⟨r, hr, hlen, hC⟩ := gapsIn_complete cuts L.box 0 p hp hnf
      exact ⟨r, hlen, fun t h0 h1 => ⟨(hC t h0 h1).2, (okR_cell hb hc (hC t h0 h1).1 L.st).2 (List.all_eq_true.1 hR r hr)⟩⟩

theorem uncovered_sound {p : Pt} : ∀ (leaves : List Leaf) (acc : List Box), (∀ L ∈ leaves, L.box.length = p.length) →
    (∃ x ∈ acc, Box.Mem p x) → (∀ L ∈ leaves, ¬ Box.Mem p L.box) → ∃ x ∈ uncovered leaves acc, Box.Mem p x
  | [], acc, _, h, _ => by simpa [uncovered] using h
  | L :: ls, acc, hl, ⟨x, hx, hpx⟩, hn => by
    have : uncovered (L :: ls) acc = uncovered ls (acc.flatMap fun x => Box.diff x L.box) := by
      simp [uncovered]
    rw [this]
    refine uncovered_sound ls _ (fun L' h' => hl L' (List.mem_cons_of_mem _ h')) ?_
      (fun L' h' => hn L' (List.mem_cons_of_mem _ h'))
    obtain ⟨b, hb, hpb⟩ := Box.diff_cover (hpx.length_eq.symm.trans (hl L (List.mem_cons_self ..)).symm) hpx
      (hn L (List.mem_cons_self ..))
    exact ⟨b, List.mem_flatMap.2 ⟨x, hx, hb⟩, hpb⟩

/-- the leaves cover the space -/
theorem coverOk_sound {n : Nat} {leaves : List Leaf} (h : coverOk n leaves = true) (p : Pt) (hp : p.length = n) :
    ∃ L ∈ leaves, Box.Mem p L.box := by
  simp only [coverOk, Bool.and_eq_true, List.all_eq_true, beq_iff_eq] at h
  obtain ⟨hlen, hall⟩ := h
  by_contra hcon
  simp only [not_exists, not_and] at hcon
  have hm : Box.Mem p (List.replicate n Itv.all) := by
    have := Box.mem_all (p := p) (y := List.replicate n Itv.all) (by simp [hp])
    simpa using this
  obtain ⟨x, hx, hpx⟩ := uncovered_sound leaves [List.replicate n Itv.all] (fun L hL => (hlen L hL).trans hp.symm)
    ⟨_, List.mem_singleton_self _, hm⟩ hcon
  exact Box.not_mem_of_isEmpty (hall x hx) hpx

/-- soundness of the paving checker, for all real points, any dimension, any number of leaves, any boxy expression -/
theorem paving_sound {iset : Bool} {e : SE} {n : Nat} {leaves : List Leaf} (h : pavingOk iset e n leaves = true) :
    (∀ p : Pt, p.length = n → ∃ L ∈ leaves, Box.Mem p L.box) ∧
    ∀ L ∈ leaves,
      (iset = false → ∀ p, Box.Mem p L.box → ClaimB e L.st p) ∧
      (NonFlat L.box → ∀ p, Box.Mem p L.box →
        ∃ m : RPt, m.length = p.length ∧
          ∀ t : ℝ, 0 < t → t ≤ 1 → SMem (seg t p m) L.box ∧ ClaimR e L.st (seg t p m)) := by
  simp only [pavingOk, Bool.and_eq_true, List.all_eq_true] at h
  obtain ⟨⟨hb, hcov⟩, hl⟩ := h
  exact ⟨fun p hp => coverOk_sound hcov p hp, fun L hL => leafOkW_sound hb (fastCuts_sup e n) (hl L hL)⟩

/-- `is_superset(B) = YES` accepted: every point of `B` is possibly in, and (B not flat) is a limit of points of `B`
    that are certainly in -/
theorem supOk_sound {e : SE} {n : Nat} {B : Box} (h : supOk e n B = true) :
    (∀ p, Box.Mem p B → e.Hi p) ∧
    (NonFlat B → ∀ p, Box.Mem p B →
      ∃ m : RPt, m.length = p.length ∧ ∀ t : ℝ, 0 < t → t ≤ 1 → SMem (seg t p m) B ∧ e.Lo (seg t p m)) := by
  simp only [supOk, Bool.and_eq_true] at h
  obtain ⟨h1, h2⟩ := leafOkW_sound h.1 (fastCuts_sup e n) h.2
  exact ⟨fun p hp => h1 rfl p hp, h2⟩

/-- the separator contract decided on the outputs of `Sep::separate`: every real point removed from the inner box is
    certainly in the set, every real point removed from the outer box is certainly not in it -/
theorem sepOk_sound {e : SE} {x xin xout : Box} (h : sepOk e x xin xout = true) (p : Pt) (hp : Box.Mem p x) :
    (¬ Box.Mem p xin → e.Lo p) ∧ (¬ Box.Mem p xout → ¬ e.Hi p) := by
  simp only [sepOk, Bool.and_eq_true, List.all_eq_true] at h
  obtain ⟨hb, hall⟩ := h
  obtain ⟨r, hr, hC⟩ := repsIn_complete _ x 0 p hp
  have hc : ∀ j c, c ∈ e.cuts j → c ∈ sepCuts (e.fastCuts (e.cutTable x.length)) xin xout j := fun j c hj =>
    List.mem_append_left _ (fastCuts_sup e _ j c hj)
  obtain ⟨h1, h2⟩ := sem_cell e hb hc hC
  have hin : Box.Mem p xin ↔ inBox r xin = true := mem_box_cell hC (fun i I hI c hcI => by
    rw [Nat.zero_add]
    exact List.mem_append_right _ (List.mem_append_left _ (mem_boxCuts hI hcI)))
  have hout : Box.Mem p xout ↔ inBox r xout = true := mem_box_cell hC (fun i I hI c hcI => by
    rw [Nat.zero_add]
    exact List.mem_append_right _ (List.mem_append_right _ (mem_boxCuts hI hcI)))
  have := hall r hr
  simp only [sepOkAt, Bool.and_eq_true, Bool.or_eq_true, Bool.not_eq_true'] at this
  obtain ⟨a1, a2⟩ := this
  refine ⟨fun hn => ?_, fun hn => ?_⟩
  · rcases a1 with a | a
    · exact absurd (hin.2 a) hn
    · exact h1.2 a
  · rcases a2 with a | a
    · exact absurd (hout.2 a) hn
    · intro hh
      have := h2.1 hh
      rw [SE.hi] at a
      rw [a] at this
      cases this

/-- consistency of the information of an i-set: no real point is certainly in and certainly out -/
theorem consistentOk_sound {e : SE} {n : Nat} (hb : e.boxy = true) (h : consistentOk e n = true) (p : Pt)
    (hp : p.length = n) : e.Lo p → e.Hi p := by
  simp only [consistentOk, List.all_eq_true] at h
  have hm : Box.Mem p (List.replicate n Itv.all) := by
    have := Box.mem_all (p := p) (y := List.replicate n Itv.all) (by simp [hp])
    simpa using this
  obtain ⟨r, hr, hC⟩ := repsIn_complete _ _ 0 p hm
  obtain ⟨h1, h2⟩ := sem_cell e hb (fastCuts_sup e n) hC
  have := h r hr
  simp only [incons, SE.lo, SE.hi, Bool.not_eq_true', Bool.and_eq_false_iff, Bool.not_eq_false'] at this
  intro hlo
  rcases this with a | a
  · have := h1.1 hlo
    rw [a] at this; cases this
  · exact h2.2 a

/-- refutation by an exact point (EVERY expression, also with polynomial constraints): the real point of `r` belongs to
    the leaf (to its interior for an i-set) and contradicts the label: YES but certainly not in the set, or NO but
    certainly in the set -/
theorem leafRefuted_sound {iset : Bool} {e : SE} {L : Leaf} {pts : List RPt} {r : RPt}
    (h : leafRefuted iset e L pts = some r) :
    (if iset = true then SMem (castPt r) L.box else Box.Mem (castPt r) L.box) ∧
    ((L.st = .yes ∧ ¬ e.Hi (castPt r)) ∨ (L.st = .no ∧ e.Lo (castPt r))) := by
  have := List.find?_some h
  simp only [Bool.and_eq_true, Bool.not_eq_true'] at this
  obtain ⟨hin, hok⟩ := this
  constructor
  · cases iset
    · simpa [inBox_iff] using hin
    · simpa [sinBox_iff] using hin
  · cases hst : L.st
    · left
      refine ⟨rfl, fun hh => ?_⟩
      have := (hi_cast e r).1 hh
      simp [okB, hst, this] at hok
    · right
      refine ⟨rfl, (lo_cast e r).2 ?_⟩
      simpa [okB, hst] using hok
    · simp [okB, hst] at hok

/-! ### the derived forms denote the set operations they name -/

@[simp] theorem sem_none (p : Pt) : SE.none.sem p = (¬ True, ¬ True) := rfl

theorem lo_none (p : Pt) : ¬ SE.none.Lo p := by simp [SE.Lo]
theorem hi_none (p : Pt) : ¬ SE.none.Hi p := by simp [SE.Hi]

/-- separator leaf (U,V): certainly in = outside every box of V; possibly in = inside some box of U -/
theorem lo_leaf (U V : List Box) (p : Pt) : (SE.leaf U V).Lo p ↔ ¬ InAny p V := Iff.rfl
theorem hi_leaf (U V : List Box) (p : Pt) : (SE.leaf U V).Hi p ↔ InAny p U := Iff.rfl

theorem lo_not (s : SE) (p : Pt) : (SE.not s).Lo p ↔ ¬ s.Hi p := Iff.rfl
theorem hi_not (s : SE) (p : Pt) : (SE.not s).Hi p ↔ ¬ s.Lo p := Iff.rfl
theorem lo_inter (a b : SE) (p : Pt) : (SE.inter a b).Lo p ↔ a.Lo p ∧ b.Lo p := Iff.rfl
theorem hi_inter (a b : SE) (p : Pt) : (SE.inter a b).Hi p ↔ a.Hi p ∧ b.Hi p := Iff.rfl
theorem lo_union (a b : SE) (p : Pt) : (SE.union a b).Lo p ↔ a.Lo p ∨ b.Lo p := Iff.rfl
theorem hi_union (a b : SE) (p : Pt) : (SE.union a b).Hi p ↔ a.Hi p ∨ b.Hi p := Iff.rfl
theorem lo_meet (a b : SE) (p : Pt) : (SE.meet a b).Lo p ↔ a.Lo p ∨ b.Lo p := Iff.rfl
theorem hi_meet (a b : SE) (p : Pt) : (SE.meet a b).Hi p ↔ a.Hi p ∧ b.Hi p := Iff.rfl

theorem lo_interL (p : Pt) : ∀ l : List SE, (SE.interL l).Lo p ↔ ∀ s ∈ l, s.Lo p
  | [] => by simp [SE.interL, SE.Lo, SE.sem]
  | [a] => by simp [SE.interL]
  | a :: b :: l => by
    have ih := lo_interL p (b :: l)
    rw [SE.interL, lo_inter, ih]
    · simp
    · simp
theorem hi_interL (p : Pt) : ∀ l : List SE, (SE.interL l).Hi p ↔ ∀ s ∈ l, s.Hi p
  | [] => by simp [SE.interL, SE.Hi, SE.sem]
  | [a] => by simp [SE.interL]
  | a :: b :: l => by
    have ih := hi_interL p (b :: l)
    rw [SE.interL, hi_inter, ih]
    · simp
    · simp
theorem lo_unionL (p : Pt) : ∀ l : List SE, (SE.unionL l).Lo p ↔ ∃ s ∈ l, s.Lo p
  | [] => by simp [SE.unionL, lo_none]
  | [a] => by simp [SE.unionL]
  | a :: b :: l => by
    have ih := lo_unionL p (b :: l)
    rw [SE.unionL, lo_union, ih]
    · simp
    · simp
theorem hi_unionL (p : Pt) : ∀ l : List SE, (SE.unionL l).Hi p ↔ ∃ s ∈ l, s.Hi p
  | [] => by simp [SE.unionL, hi_none]
  | [a] => by simp [SE.unionL]
  | a :: b :: l => by
    have ih := hi_unionL p (b :: l)
    rw [SE.unionL, hi_union, ih]
    · simp
    · simp

/-- `atLeast k l`: the points that are in all the sets of some sub-list of `k` of them (as `atLeast` of C19) -/
theorem lo_atLeast (p : Pt) : ∀ (l : List SE) (k : Nat),
    (SE.atLeast k l).Lo p ↔ ∃ sub : List SE, sub.Sublist l ∧ sub.length = k ∧ ∀ s ∈ sub, s.Lo p
  | l, 0 => by
    constructor
    · intro _; exact ⟨[], List.nil_sublist l, rfl, fun s hs => by simp at hs⟩
    · intro _; cases l <;> simp [SE.atLeast, SE.Lo, SE.sem]
  | [], k + 1 => by
    constructor
    · intro h; exact absurd h (by simpa [SE.atLeast] using lo_none p)
    · rintro ⟨sub, hs, hl, _⟩
      rw [List.sublist_nil.1 hs] at hl
      simp at hl
  | a :: l, k + 1 => by
    rw [SE.atLeast, lo_union, lo_inter, lo_atLeast p l k, lo_atLeast p l (k + 1)]
    constructor
    · rintro (⟨ha, sub, hs, hl, hall⟩ | ⟨sub, hs, hl, hall⟩)
      · exact ⟨a :: sub, hs.cons_cons a, by simp [hl], fun s hs' => by
          rcases List.mem_cons.1 hs' with rfl | h
          · exact ha
          · exact hall s h⟩
      · exact ⟨sub, hs.cons a, hl, hall⟩
    · rintro ⟨sub, hs, hl, hall⟩
      cases hs with
      | cons _ hs' => exact Or.inr ⟨sub, hs', hl, hall⟩
      | @cons_cons sub' _ _ hs' =>
        exact Or.inl ⟨hall a (List.mem_cons_self ..), sub', hs', by simpa using hl, fun s h => hall s (List.mem_cons_of_mem _ h)⟩

theorem hi_atLeast (p : Pt) : ∀ (l : List SE) (k : Nat),
    (SE.atLeast k l).Hi p ↔ ∃ sub : List SE, sub.Sublist l ∧ sub.length = k ∧ ∀ s ∈ sub, s.Hi p
  | l, 0 => by
    constructor
    · intro _; exact ⟨[], List.nil_sublist l, rfl, fun s hs => by simp at hs⟩
    · intro _; cases l <;> simp [SE.atLeast, SE.Hi, SE.sem]
  | [], k + 1 => by
    constructor
    · intro h; exact absurd h (by simpa [SE.atLeast] using hi_none p)
    · rintro ⟨sub, hs, hl, _⟩
      rw [List.sublist_nil.1 hs] at hl
      simp at hl
  | a :: l, k + 1 => by
    rw [SE.atLeast, hi_union, hi_inter, hi_atLeast p l k, hi_atLeast p l (k + 1)]
    constructor
    · rintro (⟨ha, sub, hs, hl, hall⟩ | ⟨sub, hs, hl, hall⟩)
      · exact ⟨a :: sub, hs.cons_cons a, by simp [hl], fun s hs' => by
          rcases List.mem_cons.1 hs' with rfl | h
          · exact ha
          · exact hall s h⟩
      · exact ⟨sub, hs.cons a, hl, hall⟩
    · rintro ⟨sub, hs, hl, hall⟩
      cases hs with
      | cons _ hs' => exact Or.inr ⟨sub, hs', hl, hall⟩
      | @cons_cons sub' _ _ hs' =>
        exact Or.inl ⟨hall a (List.mem_cons_self ..), sub', hs', by simpa using hl, fun s h => hall s (List.mem_cons_of_mem _ h)⟩

end Ibex.SetPaving
