/-
  The contractor contract of the HC4Revise model `IbexModel.HC4` (forward evaluation, meet of the
  root with the right-hand side, backward sweep with sequential in-place updates), over the reals,
  for every scalar DAG of the supported fragment (any size, any sharing / aliasing of arguments),
  every box and every right-hand side:

  * `revise_sub`   : the contracted box is inside the input box (no hypothesis at all: not even
                     distinct variable offsets, every write of `readBox` is a part of the box
                     component it replaces);
  * `revise_keeps` : a point of the box whose node values (`Sem`) put the root in `rhs` is never
                     lost: the result is not `empty`, and a returned box contains the point.

  Operators covered (all those of the model): var const add sub mul div max min minus sqr sqrt abs
  sign pow 1 pow 2.  `Sem` is a relation "vals[i] is the value of node i": arguments precede the
  node, denominators are non-zero, square roots take non-negative arguments, a (possibly thick)
  constant takes any of its members; nodes outside the fragment are unconstrained (the model then
  answers `unsupported`, about which nothing is claimed).

  Structure of the proofs: invariant `Inv v d` ("every node value is in its domain") established
  by the forward pass (`fwd_keeps`, from the enclosure lemmas of Arith/Arith2), kept by the meet
  with `rhs` and by every single in-place update of every backward step (`bwdNode_keeps`: the
  membership of the new domain is always derived from the CURRENT array, so aliased arguments
  need no special care), read back by `readBox_keeps`.  Contraction: every update is a part of
  the domain it replaces (`bwdNode_shrinks`), and variable nodes start from the box (`fwd_varDoms`).
-/
import IbexProofs.Arith2
import IbexProofs.Bwd

namespace Ibex.HC4
open Ibex

/-! ## A. interval facts -/

theorem r_sound : Rnd.Sound r := Rnd.dbl_sound

theorem toE_z : (z : Ext).toE = 0 := by simp [z]

theorem containsExt_z {I : Itv} : Itv.containsExt I z = true ↔ (0 : ℝ) ∈ I := Bwd.containsExt_z

theorem mem_nonneg {v : ℝ} : v ∈ nonneg ↔ 0 ≤ v := Bwd.mem_nonneg

/-- the rounded pieces of `divRel y x` cover { v | ∃ w ∈ x, v * w ∈ y } -/
theorem divRel_cover {y x : Itv} {v w : ℝ} (hw : w ∈ x) (hvw : v * w ∈ y) :
    ∃ p ∈ divRel y x, v ∈ p := by
  cases y with
  | empty => exact absurd hvw (Itv.not_mem_empty _)
  | mk a b =>
  cases x with
  | empty => exact absurd hw (Itv.not_mem_empty _)
  | mk c d =>
  have quot : ∀ {x' : Itv}, w ∈ x' → w ≠ 0 → v ∈ Itv.divG r (Itv.mk a b) x' := by
    intro x' hw' hw0
    have := Itv.divG_encl r_sound hvw hw' hw0
    rwa [mul_div_cancel_right₀ v hw0] at this
  simp only [divRel]
  by_cases h1 : (Itv.containsExt (Itv.mk a b) z && Itv.containsExt (Itv.mk c d) z) = true
  · rw [if_pos h1]
    exact ⟨Itv.all, by simp, Bwd.mem_all v⟩
  rw [if_neg h1]
  by_cases h2 : (Ext.lt z c || Ext.lt d z) = true
  · rw [if_pos h2]
    have hw0 : w ≠ 0 := by
      rintro rfl
      rcases Bool.or_eq_true _ _ ▸ h2 with h | h
      · rw [Ext.lt_iff, toE_z] at h
        exact absurd (lt_of_lt_of_le h hw.1) (by simp)
      · rw [Ext.lt_iff, toE_z] at h
        exact absurd (lt_of_le_of_lt hw.2 h) (by simp)
    exact ⟨_, by simp, quot hw hw0⟩
  · rw [if_neg h2]
    have hx0 : (0 : ℝ) ∈ Itv.mk c d := by
      simp only [Bool.or_eq_true, not_or, Ext.lt_iff, toE_z, not_lt] at h2
      exact ⟨by simpa using h2.1, by simpa using h2.2⟩
    have hy0 : ¬ (0 : ℝ) ∈ Itv.mk a b := by
      intro hy0
      exact h1 (by simp [containsExt_z.2 hy0, containsExt_z.2 hx0])
    have hw0 : w ≠ 0 := by
      rintro rfl
      rw [mul_zero] at hvw
      exact hy0 hvw
    rcases lt_or_gt_of_ne hw0 with hneg | hpos
    · have hc : Ext.lt c z = true := by
        rw [Ext.lt_iff, toE_z]
        exact lt_of_le_of_lt hw.1 (by exact_mod_cast hneg)
      have hm : w ∈ Itv.mk c z := ⟨hw.1, by rw [toE_z]; exact_mod_cast le_of_lt hneg⟩
      exact ⟨_, by simp [hc], quot hm hw0⟩
    · have hd : Ext.lt z d = true := by
        rw [Ext.lt_iff, toE_z]
        exact lt_of_lt_of_le (by exact_mod_cast hpos) hw.2
      have hm : w ∈ Itv.mk z d := ⟨by rw [toE_z]; exact_mod_cast le_of_lt hpos, hw.2⟩
      exact ⟨_, by simp [hd], quot hm hw0⟩

/-- `v ∈ x`, some `w ∈ dd` with `v * w ∈ y`: `v` survives the relational division -/
theorem mem_divRelInter {y dd x : Itv} {v w : ℝ} (hv : v ∈ x) (hw : w ∈ dd) (hvw : v * w ∈ y) :
    v ∈ divRelInter y dd x := by
  obtain ⟨p, hp, hvp⟩ := divRel_cover hw hvw
  exact Bwd.mem_hullL (List.mem_map.2 ⟨p, hp, rfl⟩) (Bwd.mem_meetPiece hv hvp hvw)

/-- backward square: `v ∈ x`, `v² ∈ y` -/
theorem mem_sqrBwd {y x : Itv} {v : ℝ} (hv : v ∈ x) (h : v ^ 2 ∈ y) :
    v ∈ Itv.hull (Itv.inter x (Itv.sqrt (Itv.inter y nonneg)))
      (Itv.inter x (Itv.neg (Itv.sqrt (Itv.inter y nonneg)))) := by
  have hyp : v ^ 2 ∈ Itv.inter y nonneg := Itv.mem_inter.2 ⟨h, mem_nonneg.2 (sq_nonneg v)⟩
  have hs : |v| ∈ Itv.sqrt (Itv.inter y nonneg) := by
    have := Itv.sqrt_encl hyp (sq_nonneg v)
    rwa [Real.sqrt_sq_eq_abs] at this
  rcases le_total 0 v with h0 | h0
  · rw [abs_of_nonneg h0] at hs
    exact Itv.mem_hull_left (Itv.mem_inter.2 ⟨hv, hs⟩)
  · rw [abs_of_nonpos h0] at hs
    exact Itv.mem_hull_right (Itv.mem_inter.2 ⟨hv, Bwd.mem_neg.2 hs⟩)

/-- backward square root: `v ∈ x`, `0 ≤ v`, `√v ∈ y` -/
theorem mem_sqrtBwd {y x : Itv} {v : ℝ} (hv : v ∈ x) (h0 : 0 ≤ v) (h : Real.sqrt v ∈ y) :
    v ∈ Itv.inter x (Itv.sqr (Itv.inter y nonneg)) := by
  refine Itv.mem_inter.2 ⟨hv, ?_⟩
  have hs : Real.sqrt v ∈ Itv.inter y nonneg :=
    Itv.mem_inter.2 ⟨h, mem_nonneg.2 (Real.sqrt_nonneg v)⟩
  have := Itv.sqr_encl hs
  rwa [Real.mul_self_sqrt h0] at this

/-- backward absolute value -/
theorem mem_absBwd {y x : Itv} {v : ℝ} (hv : v ∈ x) (h : |v| ∈ y) :
    v ∈ Itv.hull (Itv.inter x (Itv.inter y nonneg)) (Itv.inter x (Itv.neg (Itv.inter y nonneg))) :=
  Bwd.mem_projAbs hv h

/-! ### the projections shrink their argument -/

theorem inter_subset_left (X Y : Itv) : Itv.subset (Itv.inter X Y) X = true := by
  cases X with
  | empty => rfl
  | mk a b =>
    cases Y with
    | empty => rfl
    | mk c d =>
      simp only [Itv.inter, Itv.ofBounds]
      split
      · simp only [Itv.subset, Bool.and_eq_true, Ext.le_iff, Ext.toE_max, Ext.toE_min]
        exact ⟨le_max_left _ _, min_le_left _ _⟩
      · rfl

theorem subset_foldl_hull {Z : Itv} : ∀ (l : List Itv) (acc : Itv), Itv.subset acc Z = true →
    (∀ q ∈ l, Itv.subset q Z = true) → Itv.subset (l.foldl Itv.hull acc) Z = true
  | [], _, h, _ => h
  | q :: l, acc, h, hl => by
    rw [List.foldl_cons]
    exact subset_foldl_hull l _ (Itv.hull_least h (hl q (List.mem_cons_self ..)))
      (fun q' hq' => hl q' (List.mem_cons_of_mem _ hq'))

theorem hullL_subset {Z : Itv} {l : List Itv} (hl : ∀ q ∈ l, Itv.subset q Z = true) :
    Itv.subset (Bwd.hullL l) Z = true :=
  subset_foldl_hull l _ rfl hl

theorem meetPiece_subset (y x p : Itv) : Itv.subset (Bwd.meetPiece y x p) x = true := by
  unfold Bwd.meetPiece
  simp only []
  split
  · rfl
  · exact inter_subset_left x p

theorem divRelInter_subset (y dd x : Itv) : Itv.subset (divRelInter y dd x) x = true := by
  apply hullL_subset
  intro q hq
  obtain ⟨p, -, rfl⟩ := List.mem_map.1 hq
  exact meetPiece_subset y x p

theorem projMax1_subset (y x1 x2 : Itv) : Itv.subset (Bwd.projMax1 y x1 x2) x1 = true := by
  unfold Bwd.projMax1
  split
  · rfl
  · simp only []
    split
    · rfl
    · split
      · exact inter_subset_left _ _
      · exact inter_subset_left _ _

theorem mem_of_mem_projMax1 {y x1 x2 : Itv} {t : ℝ} (h : t ∈ Bwd.projMax1 y x1 x2) : t ∈ x1 :=
  Itv.mem_of_subset (projMax1_subset y x1 x2) h

theorem mem_of_mem_projMin1 {y x1 x2 : Itv} {t : ℝ} (h : t ∈ Bwd.projMin1 y x1 x2) : t ∈ x1 := by
  unfold Bwd.projMin1 at h
  rw [Bwd.mem_neg] at h
  have := mem_of_mem_projMax1 h
  rwa [Bwd.mem_neg, neg_neg] at this

theorem projSign_subset (y x : Itv) : Itv.subset (Bwd.projSign y x) x = true := by
  cases x with
  | empty => rfl
  | mk a b =>
    simp only [Bwd.projSign]
    apply Itv.hull_least
    · split
      · simp only [Itv.subset, Bool.and_eq_true, Ext.le_iff, Ext.toE_max]
        exact ⟨le_max_left _ _, le_refl _⟩
      · rfl
    · apply Itv.hull_least
      · split
        · exact inter_subset_left _ _
        · rfl
      · split
        · simp only [Itv.subset, Bool.and_eq_true, Ext.le_iff, Ext.toE_min]
          exact ⟨le_refl _, min_le_left _ _⟩
        · rfl

theorem mem_of_mem_hull {X Y Z : Itv} {t : ℝ} (hX : Itv.subset X Z = true)
    (hY : Itv.subset Y Z = true) (h : t ∈ Itv.hull X Y) : t ∈ Z :=
  Itv.mem_of_subset (Itv.hull_least hX hY) h

/-! ## B. node domains: `get`, `upd` -/

theorem get_push_lt {d : Array Itv} {x : Itv} {j : Nat} (h : j < d.size) :
    get (d.push x) j = get d j := by
  simp [get, Array.getElem?_push, Nat.ne_of_lt h]

theorem get_push_eq (d : Array Itv) (x : Itv) : get (d.push x) d.size = x := by
  simp [get]

theorem get_set_eq {d : Array Itv} {a : Nat} (x : Itv) (h : a < d.size) :
    get (d.setIfInBounds a x) a = x := by
  simp [get, h]

theorem get_set_ne {d : Array Itv} {a j : Nat} (x : Itv) (h : a ≠ j) :
    get (d.setIfInBounds a x) j = get d j := by
  simp [get, h]

theorem get_set_oob {d : Array Itv} {a : Nat} (x : Itv) (h : ¬ a < d.size) (j : Nat) :
    get (d.setIfInBounds a x) j = get d j := by
  by_cases e : a = j
  · subst e
    have : d[a]? = none := by simp [Nat.le_of_not_lt h]
    simp [get, h]
  · exact get_set_ne x e

theorem upd_eq_some {d d' : Array Itv} {a : Nat} {x : Itv} (h : upd d a x = some d') :
    d' = d.setIfInBounds a x := by
  unfold upd at h
  split at h
  · cases h
  · exact (Option.some.inj h).symm

/-- the node values are in the node domains -/
def Inv (v : Nat → ℝ) (d : Array Itv) : Prop := ∀ j, j < d.size → v j ∈ get d j

/-- an update by an interval containing the value of the node keeps the invariant (and succeeds) -/
theorem upd_keeps {v : Nat → ℝ} {d : Array Itv} {a : Nat} {x : Itv} (hI : Inv v d) (hx : v a ∈ x) :
    ∃ d', upd d a x = some d' ∧ Inv v d' ∧ d'.size = d.size := by
  refine ⟨d.setIfInBounds a x, ?_, ?_, by simp⟩
  · simp [upd, Itv.isEmpty_eq_false_of_mem hx]
  · intro j hj
    rw [Array.size_setIfInBounds] at hj
    by_cases e : a = j
    · subst e
      rw [get_set_eq x hj]
      exact hx
    · rw [get_set_ne x e]
      exact hI j hj

/-- `d'` has the same nodes as `d`, with smaller domains -/
def Shrinks (d d' : Array Itv) : Prop := d'.size = d.size ∧ ∀ j (t : ℝ), t ∈ get d' j → t ∈ get d j

theorem Shrinks.refl (d : Array Itv) : Shrinks d d := ⟨rfl, fun _ _ h => h⟩

theorem Shrinks.trans {d d' d'' : Array Itv} (h : Shrinks d d') (h' : Shrinks d' d'') : Shrinks d d'' :=
  ⟨h'.1.trans h.1, fun j t ht => h.2 j t (h'.2 j t ht)⟩

/-- an update of node `a` by a part of its domain in `d0` -/
theorem upd_shrinks {d0 d d' : Array Itv} {a : Nat} {x : Itv} (h0 : Shrinks d0 d)
    (hx : ∀ t : ℝ, t ∈ x → t ∈ get d0 a) (h : upd d a x = some d') : Shrinks d0 d' := by
  rw [upd_eq_some h]
  refine ⟨by simpa using h0.1, fun j t ht => ?_⟩
  by_cases hb : a < d.size
  · by_cases e : a = j
    · subst e
      rw [get_set_eq x hb] at ht
      exact hx t ht
    · rw [get_set_ne x e] at ht
      exact h0.2 j t ht
  · rw [get_set_oob x hb] at ht
    exact h0.2 j t ht

/-! ## C. real semantics of a scalar DAG -/

/-- node `i` has the value prescribed by its operator on the values of its arguments
    (`v j` = value of node `j`); arguments come before the node.  Constants may be thick: any
    member.  Nodes outside the supported fragment are unconstrained (`revise` is then
    `unsupported` and nothing is claimed). -/
def NodeSem (p : List ℝ) (v : Nat → ℝ) (i : Nat) (n : Node) : Prop :=
  match n.k with
  | .var off => p[off]? = some (v i)
  | .const [c] => v i ∈ c
  | .bin "add" a b => a < i ∧ b < i ∧ v i = v a + v b
  | .bin "sub" a b => a < i ∧ b < i ∧ v i = v a - v b
  | .bin "mul" a b => a < i ∧ b < i ∧ v i = v a * v b
  | .bin "div" a b => a < i ∧ b < i ∧ v b ≠ 0 ∧ v i = v a / v b
  | .bin "max" a b => a < i ∧ b < i ∧ v i = Max.max (v a) (v b)
  | .bin "min" a b => a < i ∧ b < i ∧ v i = Min.min (v a) (v b)
  | .un "minus" a => a < i ∧ v i = - v a
  | .un "sqr" a => a < i ∧ v i = v a ^ 2
  | .un "sqrt" a => a < i ∧ 0 ≤ v a ∧ v i = Real.sqrt (v a)
  | .un "abs" a => a < i ∧ v i = |v a|
  | .un "sign" a => a < i ∧ v i = (SignType.sign (v a) : ℝ)
  | .pow a 1 => a < i ∧ v i = v a
  | .pow a 2 => a < i ∧ v i = v a ^ 2
  | _ => True

/-- `vals` are the real values of the nodes of `dag` at the point `p` -/
def Sem (dag : Dag) (p : List ℝ) (vals : Array ℝ) : Prop :=
  vals.size = dag.size ∧ ∀ i (h : i < dag.size), NodeSem p (fun j => vals.getD j 0) i dag[i]

/-! ## D. forward pass -/

theorem ne_of_mem {X : Itv} {t : ℝ} (h : t ∈ X) :
    (some (if X.isEmpty = true then none else some X) : Option (Option Itv)) = some (some X) := by
  simp [Itv.isEmpty_eq_false_of_mem h]

/-- a forward step is unsupported, or it produces a domain containing the value of the node -/
theorem fwdNode_keeps {p : List ℝ} {box : List Itv} {v : Nat → ℝ} {d : Array Itv} {i : Nat} {n : Node}
    (hp : Box.Mem p box) (hI : Inv v d) (hsz : d.size = i) (hs : NodeSem p v i n) :
    fwdNode box d n = none ∨ ∃ x, fwdNode box d n = some (some x) ∧ v i ∈ x := by
  have arg : ∀ {a}, a < i → v a ∈ get d a := fun h => hI _ (hsz ▸ h)
  unfold fwdNode
  split
  · exact Or.inl rfl
  · simp only []
    split
    case h_16 => exact Or.inl rfl
    all_goals (rename_i heq; simp only [NodeSem, heq] at hs; right)
    · -- var
      rename_i off
      obtain ⟨hl, hm⟩ := Box.mem_iff.1 hp
      have hlt : off < box.length := by
        rw [← hl]; exact (List.getElem?_eq_some_iff.1 hs).1
      have hb : box[off]? = some box[off] := List.getElem?_eq_getElem hlt
      have hv : v i ∈ box[off] := hm off _ _ hs hb
      exact ⟨box[off], by simp [hb, Itv.isEmpty_eq_false_of_mem hv], hv⟩
    · exact ⟨_, ne_of_mem hs, hs⟩
    · obtain ⟨ha, hb, e⟩ := hs
      have := Itv.add_encl (arg ha) (arg hb)
      rw [← e] at this
      exact ⟨_, ne_of_mem this, this⟩
    · obtain ⟨ha, hb, e⟩ := hs
      have := Itv.sub_encl (arg ha) (arg hb)
      rw [← e] at this
      exact ⟨_, ne_of_mem this, this⟩
    · obtain ⟨ha, hb, e⟩ := hs
      have := Itv.mul_encl (arg ha) (arg hb)
      rw [← e] at this
      exact ⟨_, ne_of_mem this, this⟩
    · obtain ⟨ha, hb, h0, e⟩ := hs
      have := Itv.div_encl (arg ha) (arg hb) h0
      rw [← e] at this
      exact ⟨_, ne_of_mem this, this⟩
    · obtain ⟨ha, hb, e⟩ := hs
      have := Itv.max_encl (arg ha) (arg hb)
      rw [← e] at this
      exact ⟨_, ne_of_mem this, this⟩
    · obtain ⟨ha, hb, e⟩ := hs
      have := Itv.min_encl (arg ha) (arg hb)
      rw [← e] at this
      exact ⟨_, ne_of_mem this, this⟩
    · obtain ⟨ha, e⟩ := hs
      have := Itv.neg_encl (arg ha)
      rw [← e] at this
      exact ⟨_, ne_of_mem this, this⟩
    · obtain ⟨ha, e⟩ := hs
      have := Itv.sqr_encl (arg ha)
      rw [← pow_two, ← e] at this
      exact ⟨_, ne_of_mem this, this⟩
    · obtain ⟨ha, h0, e⟩ := hs
      have := Itv.sqrt_encl (arg ha) h0
      rw [← e] at this
      exact ⟨_, ne_of_mem this, this⟩
    · obtain ⟨ha, e⟩ := hs
      have := Itv.abs_encl (arg ha)
      rw [← e] at this
      exact ⟨_, ne_of_mem this, this⟩
    · obtain ⟨ha, e⟩ := hs
      have := Itv.sign_encl (arg ha)
      rw [← e] at this
      exact ⟨_, ne_of_mem this, this⟩
    · obtain ⟨ha, e⟩ := hs
      have := arg ha
      rw [← e] at this
      exact ⟨_, ne_of_mem this, this⟩
    · obtain ⟨ha, e⟩ := hs
      have := Itv.sqr_encl (arg ha)
      rw [← pow_two, ← e] at this
      exact ⟨_, ne_of_mem this, this⟩

/-- one step of the fold of `fwd` -/
def fwdStep (box : List Itv) (acc : Option (Array Itv)) (n : Node) : Option (Option (Array Itv)) :=
  match acc with
  | none => some none
  | some d => (fwdNode box d n).map fun v => v.map d.push

theorem fwd_eq (dag : Dag) (box : List Itv) :
    fwd dag box = dag.toList.foldlM (fwdStep box) (some #[]) := by
  unfold fwd
  rw [Array.foldlM_toList]
  rfl

/-- shape of what is proved about the result of the forward pass -/
def FwdPost (Q : Array Itv → Prop) (E : Prop) (n : Nat) : Option (Option (Array Itv)) → Prop
  | none => True
  | some none => E
  | some (some d) => Q d ∧ d.size = n

/-- induction principle of the forward pass: `Q` holds of the growing array of domains, `E` holds
    if the pass stops on an empty node -/
theorem fwd_ind {box : List Itv} {dag : Dag} {Q : Array Itv → Prop} {E : Prop} (h0 : Q #[])
    (hE : ∀ d n, dag[d.size]? = some n → Q d → fwdNode box d n = some none → E)
    (hQ : ∀ d n x, dag[d.size]? = some n → Q d → fwdNode box d n = some (some x) → Q (d.push x)) :
    FwdPost Q E dag.size (fwd dag box) := by
  have key : ∀ (l pre : List Node) (acc : Option (Array Itv)), dag.toList = pre ++ l →
      FwdPost Q E pre.length (some acc) →
      FwdPost Q E dag.size (l.foldlM (fwdStep box) acc) := by
    intro l
    induction l with
    | nil =>
      intro pre acc hl hacc
      have : pre.length = dag.size := by
        have := congrArg List.length hl
        simpa using this.symm
      rw [this] at hacc
      exact hacc
    | cons n l ih =>
      intro pre acc hl hacc
      rw [List.foldlM_cons]
      have hl' : dag.toList = (pre ++ [n]) ++ l := by rw [hl]; simp
      have hn : dag[pre.length]? = some n := by
        rw [← Array.getElem?_toList, hl]; simp
      cases acc with
      | none =>
        have : fwdStep box none n = some none := rfl
        rw [this]
        exact ih (pre ++ [n]) none hl' hacc
      | some d =>
        obtain ⟨hq, hsz⟩ := hacc
        rw [← hsz] at hn
        have e : fwdStep box (some d) n = (fwdNode box d n).map fun v => v.map d.push := rfl
        rw [e]
        cases hf : fwdNode box d n with
        | none => exact trivial
        | some r =>
          cases r with
          | none => exact ih (pre ++ [n]) none hl' (hE d n hn hq hf)
          | some x =>
            refine ih (pre ++ [n]) (some (d.push x)) hl' ⟨hQ d n x hn hq hf, ?_⟩
            simp [hsz]
  rw [fwd_eq]
  exact key dag.toList [] (some #[]) (by simp) ⟨h0, rfl⟩

/-- under `Sem`, the forward pass is unsupported or succeeds with all node values in the domains -/
theorem fwd_keeps {dag : Dag} {p : List ℝ} {box : List Itv} {v : Nat → ℝ} (hp : Box.Mem p box)
    (hs : ∀ i (h : i < dag.size), NodeSem p v i dag[i]) :
    FwdPost (Inv v) False dag.size (fwd dag box) := by
  have sem : ∀ (d : Array Itv) n, dag[d.size]? = some n → NodeSem p v d.size n := by
    intro d n hn
    obtain ⟨h, e⟩ := Array.getElem?_eq_some_iff.1 hn
    exact e ▸ hs d.size h
  refine fwd_ind (fun j hj => absurd hj (by simp)) ?_ ?_
  · intro d n hn hI hf
    rcases fwdNode_keeps hp hI rfl (sem d n hn) with h | ⟨x, h, -⟩ <;> rw [h] at hf <;> cases hf
  · intro d n x hn hI hf j hj
    rcases fwdNode_keeps hp hI rfl (sem d n hn) with h | ⟨x', h, hx⟩
    · rw [h] at hf; cases hf
    · rw [h] at hf
      cases hf
      rw [Array.size_push] at hj
      rcases Nat.lt_succ_iff_lt_or_eq.1 hj with hlt | rfl
      · rw [get_push_lt hlt]; exact hI j hlt
      · rw [get_push_eq]; exact hx

/-! ## E. backward sweep: no consistent value is lost -/

/-- the step succeeds, keeps the invariant and the size -/
def Keeps (v : Nat → ℝ) (s : Nat) (o : Option (Array Itv)) : Prop :=
  ∃ d', o = some d' ∧ Inv v d' ∧ d'.size = s

theorem Keeps.bind {v : Nat → ℝ} {s : Nat} {o : Option (Array Itv)} {f : Array Itv → Option (Array Itv)}
    (h : Keeps v s o) (hf : ∀ d1, Inv v d1 → d1.size = s → Keeps v s (f d1)) : Keeps v s (o >>= f) := by
  obtain ⟨d1, rfl, hI1, hs1⟩ := h
  exact hf d1 hI1 hs1

theorem upd_keeps' {v : Nat → ℝ} {d : Array Itv} {a s : Nat} {x : Itv} (hI : Inv v d) (hsz : d.size = s)
    (hx : v a ∈ x) : Keeps v s (upd d a x) := by
  obtain ⟨d', h1, h2, h3⟩ := upd_keeps (a := a) hI hx
  exact ⟨d', h1, h2, h3.trans hsz⟩

theorem bwdNode_keeps {p : List ℝ} {v : Nat → ℝ} {d : Array Itv} {i : Nat} {n : Node}
    (hI : Inv v d) (hi : i < d.size) (hs : NodeSem p v i n) :
    Keeps v d.size (bwdNode d i n) := by
  have hy : v i ∈ get d i := hI i hi
  have arg : ∀ {d1 : Array Itv} {a}, Inv v d1 → d1.size = d.size → a < i → v a ∈ get d1 a :=
    fun h1 h2 h3 => h1 _ (by omega)
  unfold bwdNode
  simp only []
  split
  case h_16 => exact ⟨d, rfl, hI, rfl⟩
  all_goals (rename_i heq; simp only [NodeSem, heq] at hs)
  · exact ⟨d, rfl, hI, rfl⟩
  · exact ⟨d, rfl, hI, rfl⟩
  · -- add
    obtain ⟨ha, hb, e⟩ := hs
    refine Keeps.bind (upd_keeps' hI rfl (Itv.mem_inter.2 ⟨arg hI rfl ha, ?_⟩)) fun d1 hI1 hs1 =>
      upd_keeps' hI1 hs1 (Itv.mem_inter.2 ⟨arg hI1 hs1 hb, ?_⟩)
    · have := Itv.sub_encl hy (arg hI rfl hb)
      rwa [e, add_sub_cancel_right] at this
    · have := Itv.sub_encl hy (arg hI1 hs1 ha)
      rwa [e, add_sub_cancel_left] at this
  · -- sub
    obtain ⟨ha, hb, e⟩ := hs
    refine Keeps.bind (upd_keeps' hI rfl (Itv.mem_inter.2 ⟨arg hI rfl ha, ?_⟩)) fun d1 hI1 hs1 =>
      upd_keeps' hI1 hs1 (Itv.mem_inter.2 ⟨arg hI1 hs1 hb, ?_⟩)
    · have := Itv.add_encl hy (arg hI rfl hb)
      rwa [e, sub_add_cancel] at this
    · have := Itv.sub_encl (arg hI1 hs1 ha) hy
      rwa [e, sub_sub_cancel] at this
  · -- mul
    obtain ⟨ha, hb, e⟩ := hs
    rw [e] at hy
    refine Keeps.bind (upd_keeps' hI rfl (mem_divRelInter (arg hI rfl ha) (arg hI rfl hb) hy))
      fun d1 hI1 hs1 => upd_keeps' hI1 hs1 (mem_divRelInter (arg hI1 hs1 hb) (arg hI1 hs1 ha) ?_)
    rwa [mul_comm]
  · -- div
    rename_i a b
    obtain ⟨ha, hb, h0, e⟩ := hs
    refine Keeps.bind (upd_keeps' hI rfl (Itv.mem_inter.2 ⟨arg hI rfl ha, ?_⟩)) fun d1 hI1 hs1 => ?_
    · have := Itv.mul_encl hy (arg hI rfl hb)
      rwa [e, div_mul_cancel₀ _ h0] at this
    · have hprod : v i * v b ∈ get d1 a := by
        rw [e, div_mul_cancel₀ _ h0]; exact arg hI1 hs1 ha
      have htmp : v i ∈ divRelInter (get d1 a) (get d1 b) (get d i) :=
        mem_divRelInter hy (arg hI1 hs1 hb) hprod
      rw [if_neg (by simp [Itv.isEmpty_eq_false_of_mem htmp])]
      refine upd_keeps' hI1 hs1 (mem_divRelInter (arg hI1 hs1 hb) htmp ?_)
      rwa [mul_comm]
  · -- max
    obtain ⟨ha, hb, e⟩ := hs
    rw [e] at hy
    refine Keeps.bind (upd_keeps' hI rfl (Bwd.mem_projMax1 (arg hI rfl ha) (arg hI rfl hb) hy))
      fun d1 hI1 hs1 => upd_keeps' hI1 hs1 (Bwd.mem_projMax1 (arg hI rfl hb) (arg hI rfl ha) ?_)
    rwa [max_comm]
  · -- min
    obtain ⟨ha, hb, e⟩ := hs
    rw [e] at hy
    refine Keeps.bind (upd_keeps' hI rfl (Bwd.mem_projMin1 (arg hI rfl ha) (arg hI rfl hb) hy))
      fun d1 hI1 hs1 => upd_keeps' hI1 hs1 (Bwd.mem_projMin1 (arg hI rfl hb) (arg hI rfl ha) ?_)
    rwa [min_comm]
  · -- minus
    obtain ⟨ha, e⟩ := hs
    refine upd_keeps' hI rfl (Itv.mem_inter.2 ⟨arg hI rfl ha, ?_⟩)
    have := Itv.neg_encl hy
    rwa [e, neg_neg] at this
  · -- sqr
    obtain ⟨ha, e⟩ := hs
    rw [e] at hy
    exact upd_keeps' hI rfl (mem_sqrBwd (arg hI rfl ha) hy)
  · -- pow 2
    obtain ⟨ha, e⟩ := hs
    rw [e] at hy
    exact upd_keeps' hI rfl (mem_sqrBwd (arg hI rfl ha) hy)
  · -- pow 1
    obtain ⟨ha, e⟩ := hs
    rw [e] at hy
    exact upd_keeps' hI rfl (Itv.mem_inter.2 ⟨arg hI rfl ha, hy⟩)
  · -- sqrt
    obtain ⟨ha, h0, e⟩ := hs
    rw [e] at hy
    exact upd_keeps' hI rfl (mem_sqrtBwd (arg hI rfl ha) h0 hy)
  · -- abs
    obtain ⟨ha, e⟩ := hs
    rw [e] at hy
    exact upd_keeps' hI rfl (mem_absBwd (arg hI rfl ha) hy)
  · -- sign
    obtain ⟨ha, e⟩ := hs
    rw [e] at hy
    exact upd_keeps' hI rfl (Bwd.mem_projSign (arg hI rfl ha) hy)

/-- every step `(node, index)` of the sweep is a node of the DAG -/
def StepsOf (dag : Dag) (l : List (Node × Nat)) : Prop := ∀ q ∈ l, dag[q.2]? = some q.1

theorem stepsOf_zipIdx (dag : Dag) : StepsOf dag dag.toList.zipIdx := by
  intro q hq
  rw [List.mem_zipIdx_iff_getElem?, Array.getElem?_toList] at hq
  exact hq

theorem stepsOf_reverse (dag : Dag) : StepsOf dag dag.toList.zipIdx.reverse :=
  fun q hq => stepsOf_zipIdx dag q (List.mem_reverse.1 hq)

theorem nodeSem_of_step {dag : Dag} {p : List ℝ} {v : Nat → ℝ}
    (hs : ∀ i (h : i < dag.size), NodeSem p v i dag[i]) {q : Node × Nat} (hq : dag[q.2]? = some q.1) :
    q.2 < dag.size ∧ NodeSem p v q.2 q.1 := by
  obtain ⟨h, e⟩ := Array.getElem?_eq_some_iff.1 hq
  exact ⟨h, e ▸ hs q.2 h⟩

theorem sweep_keeps {dag : Dag} {p : List ℝ} {v : Nat → ℝ}
    (hs : ∀ i (h : i < dag.size), NodeSem p v i dag[i]) :
    ∀ (l : List (Node × Nat)), StepsOf dag l → ∀ d, Inv v d → d.size = dag.size →
      Keeps v dag.size (l.foldlM (fun d (q : Node × Nat) => bwdNode d q.2 q.1) d)
  | [], _, d, hI, hsz => ⟨d, rfl, hI, hsz⟩
  | q :: l, hl, d, hI, hsz => by
    rw [List.foldlM_cons]
    obtain ⟨hlt, hsem⟩ := nodeSem_of_step hs (hl q (List.mem_cons_self ..))
    have := bwdNode_keeps hI (hsz ▸ hlt) hsem
    rw [hsz] at this
    exact this.bind fun d1 hI1 hs1 =>
      sweep_keeps hs l (fun q' hq' => hl q' (List.mem_cons_of_mem _ hq')) d1 hI1 hs1

theorem readBox_keeps {dag : Dag} {p : List ℝ} {v : Nat → ℝ} {d : Array Itv}
    (hs : ∀ i (h : i < dag.size), NodeSem p v i dag[i]) (hI : Inv v d) (hsz : d.size = dag.size)
    {box : List Itv} (hp : Box.Mem p box) : Box.Mem p (readBox dag box d) := by
  have key : ∀ (l : List (Node × Nat)), StepsOf dag l → ∀ b : List Itv, Box.Mem p b →
      Box.Mem p (l.foldl (fun b (q : Node × Nat) =>
        match q.1.k with
        | .var off => b.set off (get d q.2)
        | _ => b) b) := by
    intro l
    induction l with
    | nil => intro _ b hb; exact hb
    | cons q l ih =>
      intro hl b hb
      rw [List.foldl_cons]
      apply ih (fun q' hq' => hl q' (List.mem_cons_of_mem _ hq'))
      obtain ⟨hlt, hsem⟩ := nodeSem_of_step hs (hl q (List.mem_cons_self ..))
      split
      · rename_i off heq
        simp only [NodeSem, heq] at hsem
        exact Box.mem_set hb hsem (hI _ (hsz ▸ hlt))
      · exact hb
  exact key _ (stepsOf_zipIdx dag) box hp

/-- **No feasible point is lost.**  `p` is in the box, `vals` are the node values at `p`
    (`Sem`), the value `t` of the root (last node) is in `rhs`: HC4Revise does not answer `empty`,
    and a box it returns contains `p`.  (Nothing is claimed when it answers `unsupported`.) -/
theorem revise_keeps {dag : Dag} {rhs : Itv} {box : List Itv} {p : List ℝ} {vals : Array ℝ} {t : ℝ}
    (hp : Box.Mem p box) (hs : Sem dag p vals) (hroot : vals.back? = some t) (ht : t ∈ rhs) :
    revise dag rhs box ≠ .empty ∧ ∀ b, revise dag rhs box = .box b → Box.Mem p b := by
  obtain ⟨hvs, hsem⟩ := hs
  have hne : box.any Itv.isEmpty = false := Box.isEmpty_eq_false_of_mem hp
  have hfw := fwd_keeps hp hsem
  unfold revise
  rw [if_neg (by simp [hne])]
  cases hf : fwd dag box with
  | none => exact ⟨by simp, by simp⟩
  | some r =>
    rw [hf] at hfw
    cases r with
    | none => exact absurd hfw id
    | some d =>
      obtain ⟨hI, hsz⟩ := hfw
      -- the root
      have hv : (fun j => vals.getD j 0) (dag.size - 1) = t := by
        rw [Array.back?_eq_getElem?, hvs] at hroot
        obtain ⟨h, e⟩ := Array.getElem?_eq_some_iff.1 hroot
        simp [Array.getD, h, e]
      have hpos : dag.size - 1 < d.size := by
        rw [Array.back?_eq_getElem?] at hroot
        have := (Array.getElem?_eq_some_iff.1 hroot).1
        omega
      have hr : (fun j => vals.getD j 0) (dag.size - 1) ∈ Itv.inter (get d (dag.size - 1)) rhs :=
        Itv.mem_inter.2 ⟨hI _ hpos, hv ▸ ht⟩
      obtain ⟨d1, h1, hI1, hs1⟩ := upd_keeps' (a := dag.size - 1) hI hsz hr
      obtain ⟨d2, h2, hI2, hs2⟩ := sweep_keeps hsem _ (stepsOf_reverse dag) d1 hI1 hs1
      simp only [h1, h2]
      refine ⟨by simp, fun b hb => ?_⟩
      cases hb
      exact readBox_keeps hsem hI2 hs2 hp

/-! ## F. contraction -/

theorem bind_eq_some' {o : Option (Array Itv)} {f : Array Itv → Option (Array Itv)} {d' : Array Itv}
    (h : (o >>= f) = some d') : ∃ d1, o = some d1 ∧ f d1 = some d' := by
  cases o with
  | none => cases h
  | some d1 => exact ⟨d1, rfl, h⟩

theorem mem_inter_left {X Y : Itv} {t : ℝ} (h : t ∈ Itv.inter X Y) : t ∈ X := (Itv.mem_inter.1 h).1

theorem mem_of_mem_hull_inter {X S T : Itv} {t : ℝ}
    (h : t ∈ Itv.hull (Itv.inter X S) (Itv.inter X T)) : t ∈ X :=
  mem_of_mem_hull (inter_subset_left _ _) (inter_subset_left _ _) h

theorem mem_of_mem_divRelInter {y dd x : Itv} {t : ℝ} (h : t ∈ divRelInter y dd x) : t ∈ x :=
  Itv.mem_of_subset (divRelInter_subset y dd x) h

/-- a backward step only shrinks domains -/
theorem bwdNode_shrinks {d d' : Array Itv} {i : Nat} {n : Node} (h : bwdNode d i n = some d') :
    Shrinks d d' := by
  have R := Shrinks.refl d
  unfold bwdNode at h
  simp only [] at h
  split at h
  case h_16 => cases h; exact R
  · cases h; exact R
  · cases h; exact R
  · -- add
    obtain ⟨d1, h1, h2⟩ := bind_eq_some' h
    have S1 := upd_shrinks R (fun t ht => mem_inter_left ht) h1
    exact upd_shrinks S1 (fun t ht => S1.2 _ t (mem_inter_left ht)) h2
  · -- sub
    obtain ⟨d1, h1, h2⟩ := bind_eq_some' h
    have S1 := upd_shrinks R (fun t ht => mem_inter_left ht) h1
    exact upd_shrinks S1 (fun t ht => S1.2 _ t (mem_inter_left ht)) h2
  · -- mul
    obtain ⟨d1, h1, h2⟩ := bind_eq_some' h
    have S1 := upd_shrinks R (fun t ht => mem_of_mem_divRelInter ht) h1
    exact upd_shrinks S1 (fun t ht => S1.2 _ t (mem_of_mem_divRelInter ht)) h2
  · -- div
    obtain ⟨d1, h1, h2⟩ := bind_eq_some' h
    have S1 := upd_shrinks R (fun t ht => mem_inter_left ht) h1
    split at h2
    · cases h2
    · exact upd_shrinks S1 (fun t ht => S1.2 _ t (mem_of_mem_divRelInter ht)) h2
  · -- max
    obtain ⟨d1, h1, h2⟩ := bind_eq_some' h
    have S1 := upd_shrinks R (fun t ht => mem_of_mem_projMax1 ht) h1
    exact upd_shrinks S1 (fun t ht => mem_of_mem_projMax1 ht) h2
  · -- min
    obtain ⟨d1, h1, h2⟩ := bind_eq_some' h
    have S1 := upd_shrinks R (fun t ht => mem_of_mem_projMin1 ht) h1
    exact upd_shrinks S1 (fun t ht => mem_of_mem_projMin1 ht) h2
  · exact upd_shrinks R (fun t ht => mem_inter_left ht) h
  · exact upd_shrinks R (fun t ht => mem_of_mem_hull_inter ht) h
  · exact upd_shrinks R (fun t ht => mem_of_mem_hull_inter ht) h
  · exact upd_shrinks R (fun t ht => mem_inter_left ht) h
  · exact upd_shrinks R (fun t ht => mem_inter_left ht) h
  · exact upd_shrinks R (fun t ht => mem_of_mem_hull_inter ht) h
  · exact upd_shrinks R (fun t ht => Itv.mem_of_subset (projSign_subset _ _) ht) h

theorem sweep_shrinks : ∀ (l : List (Node × Nat)) (d d' : Array Itv),
    l.foldlM (fun d (q : Node × Nat) => bwdNode d q.2 q.1) d = some d' → Shrinks d d'
  | [], d, d', h => by cases h; exact Shrinks.refl d
  | q :: l, d, d', h => by
    rw [List.foldlM_cons] at h
    obtain ⟨d1, h1, h2⟩ := bind_eq_some' h
    exact (bwdNode_shrinks h1).trans (sweep_shrinks l d1 d' h2)

/-- the forward value of a variable node is the component of the box -/
theorem fwdNode_var {box : List Itv} {d : Array Itv} {n : Node} {x : Itv} {off : Nat}
    (hf : fwdNode box d n = some (some x)) (hk : n.k = .var off) : box[off]? = some x := by
  unfold fwdNode at hf
  split at hf
  · cases hf
  · simp only [hk] at hf
    cases hb : box[off]? with
    | none => rw [hb] at hf; cases hf
    | some I =>
      rw [hb] at hf
      simp only [Option.map_some, Option.some.injEq] at hf
      split at hf
      · cases hf
      · rw [Option.some.inj hf]

/-- variable nodes carry the components of the box after the forward pass -/
def VarDoms (dag : Dag) (box : List Itv) (d : Array Itv) : Prop :=
  ∀ j n off, j < d.size → dag[j]? = some n → n.k = .var off → box[off]? = some (get d j)

theorem fwd_varDoms (dag : Dag) (box : List Itv) :
    FwdPost (VarDoms dag box) True dag.size (fwd dag box) := by
  refine fwd_ind (fun j n off hj => absurd hj (by simp)) (fun _ _ _ _ _ => trivial) ?_
  intro d n x hn hQ hf j n' off hj hn' hk
  rw [Array.size_push] at hj
  rcases Nat.lt_succ_iff_lt_or_eq.1 hj with hlt | rfl
  · rw [get_push_lt hlt]; exact hQ j n' off hlt hn' hk
  · rw [get_push_eq]
    rw [hn] at hn'
    cases hn'
    exact fwdNode_var hf hk

/-- component-wise inclusion of boxes (as sets of reals) -/
def BoxSub (b box : List Itv) : Prop := List.Forall₂ (fun I J : Itv => ∀ t : ℝ, t ∈ I → t ∈ J) b box

theorem BoxSub.refl : ∀ (box : List Itv), BoxSub box box
  | [] => List.Forall₂.nil
  | _ :: l => List.Forall₂.cons (fun _ h => h) (BoxSub.refl l)

theorem BoxSub.mem {p : List ℝ} {b box : List Itv} (hm : Box.Mem p b) (hs : BoxSub b box) :
    Box.Mem p box := by
  induction hm generalizing box with
  | nil => cases hs; exact List.Forall₂.nil
  | cons h0 _ ih =>
    cases hs with
    | cons h1 h2 => exact List.Forall₂.cons (h1 _ h0) (ih h2)

theorem readBox_sub {dag : Dag} {box : List Itv} {d d' : Array Itv} (hv : VarDoms dag box d)
    (hsz : d.size = dag.size) (hS : Shrinks d d') : BoxSub (readBox dag box d') box := by
  have key : ∀ (l : List (Node × Nat)), StepsOf dag l → ∀ b : List Itv, BoxSub b box →
      BoxSub (l.foldl (fun b (q : Node × Nat) =>
        match q.1.k with
        | .var off => b.set off (get d' q.2)
        | _ => b) b) box := by
    intro l
    induction l with
    | nil => intro _ b hb; exact hb
    | cons q l ih =>
      intro hl b hb
      rw [List.foldl_cons]
      apply ih (fun q' hq' => hl q' (List.mem_cons_of_mem _ hq'))
      have hq := hl q (List.mem_cons_self ..)
      split
      · rename_i off heq
        have hlt : q.2 < d.size := hsz ▸ (Array.getElem?_eq_some_iff.1 hq).1
        exact forall₂_set_left hb (hv q.2 q.1 off hlt hq heq) (fun t ht => hS.2 _ t ht)
      · exact hb
  exact key _ (stepsOf_zipIdx dag) box (BoxSub.refl box)

/-- **Contraction.**  The box returned by HC4Revise is inside the input box. -/
theorem revise_sub {dag : Dag} {rhs : Itv} {box b : List Itv} (h : revise dag rhs box = .box b) :
    ∀ p, Box.Mem p b → Box.Mem p box := by
  intro p hp
  have hfw := fwd_varDoms dag box
  unfold revise at h
  split at h
  · cases h
  · split at h
    · cases h
    · cases h
    · rename_i d hf
      rw [hf] at hfw
      obtain ⟨hv, hsz⟩ := hfw
      simp only [] at h
      split at h
      · cases h
      · rename_i d1 h1
        split at h
        · cases h
        · rename_i d2 h2
          cases h
          have S1 : Shrinks d d1 := upd_shrinks (Shrinks.refl d) (fun t ht => mem_inter_left ht) h1
          have S2 : Shrinks d1 d2 := sweep_shrinks _ _ _ h2
          exact (readBox_sub hv hsz (S1.trans S2)).mem hp
