/-
  Soundness of the backward-operator checkers of `IbexModel.Bwd`.

  For every checker `opOk` the lemma `op_sound` says that an accepted output (x₁',x₂',flag)
  * is contracting            : x' ⊆ x,
  * loses no consistent tuple : v₁ ∈ x₁, v₂ ∈ x₂, op(v₁,v₂) ∈ y  ⇒  v₁ ∈ x₁' ∧ v₂ ∈ x₂',
  * has an honest flag        : flag = false ⇒ there is no consistent tuple,
  over real numbers, for all intervals (any extended bounds).  Only the *enclosure* property of
  the exact operators (`ArithG.lean` with `Rnd.exact`) is used: a consistent tuple is a member
  of the projection `proj`, and `proj ⊆ x'` was checked.
-/
import IbexProofs.ArithG
import IbexProofs.SetAlg
import Mathlib.Data.Sign.Basic
import Mathlib.Analysis.Real.Sqrt

namespace Ibex.Bwd
open Ibex

/-! ### generic facts -/

theorem X_sound : Rnd.Sound X := Rnd.exact_sound

theorem toE_z : (z : Ext).toE = 0 := by simp [z]

theorem containsExt_fin {I : Itv} {q : Rat} : Itv.containsExt I (.fin q) = true ↔ (q : ℝ) ∈ I := by
  cases I with
  | empty => simp [Itv.containsExt]
  | mk a b =>
    simp only [Itv.containsExt, Bool.and_eq_true, Ext.le_iff, Ext.toE_fin]
    exact Iff.rfl

theorem containsExt_z {I : Itv} : Itv.containsExt I z = true ↔ (0 : ℝ) ∈ I := by
  have := containsExt_fin (I := I) (q := 0)
  simpa [z] using this

theorem mem_point {v : ℝ} {q : Rat} : v ∈ Itv.point q ↔ v = (q : ℝ) := by
  simp only [Itv.point, Itv.mem_mk, Ext.toE_fin, EReal.coe_le_coe_iff]
  exact ⟨fun h => le_antisymm h.2 h.1, fun h => ⟨le_of_eq h.symm, le_of_eq h⟩⟩

theorem mem_point_zero {v : ℝ} : v ∈ Itv.point 0 ↔ v = 0 := by
  rw [mem_point]; simp

theorem mem_all (v : ℝ) : v ∈ Itv.all := by simp [Itv.all, Itv.mem_mk]

theorem mem_nonneg {v : ℝ} : v ∈ nonneg ↔ 0 ≤ v := by
  simp [nonneg, Itv.mem_mk]

theorem mem_neg {v : ℝ} {I : Itv} : v ∈ Itv.neg I ↔ -v ∈ I := by
  constructor
  · intro h
    have := Itv.neg_encl h
    cases I with
    | empty => exact absurd h (Itv.not_mem_empty v)
    | mk a b =>
      obtain ⟨h1, h2⟩ := this
      simp only [Ext.toE_neg, neg_neg] at h1 h2
      exact ⟨h1, h2⟩
  · intro h
    have := Itv.neg_encl h
    rwa [neg_neg] at this

theorem argOk_sound {x x' proj : Itv} (h : argOk x x' proj = true) :
    (∀ v : ℝ, v ∈ x' → v ∈ x) ∧ (∀ v : ℝ, v ∈ proj → v ∈ x') := by
  simp only [argOk, Bool.and_eq_true] at h
  exact ⟨fun v hv => Itv.mem_of_subset h.1 hv, fun v hv => Itv.mem_of_subset h.2 hv⟩

theorem flagOk_sound {flag : Bool} {proj : Itv} (h : flagOk flag proj = true) (hf : flag = false)
    (v : ℝ) : ¬ v ∈ proj := by
  subst hf
  cases proj with
  | empty => exact Itv.not_mem_empty v
  | mk a b => simp [flagOk, Itv.isEmpty] at h

/-- the shape shared by all binary checkers; `C v₁ v₂` is "the tuple satisfies the relation" -/
theorem binary_sound {x1 x2 x1' x2' p1 p2 pf : Itv} {flag : Bool} {C : ℝ → ℝ → Prop}
    (h : (argOk x1 x1' p1 && argOk x2 x2' p2 && flagOk flag pf) = true)
    (hp1 : ∀ v1 v2 : ℝ, v1 ∈ x1 → v2 ∈ x2 → C v1 v2 → v1 ∈ p1)
    (hp2 : ∀ v1 v2 : ℝ, v1 ∈ x1 → v2 ∈ x2 → C v1 v2 → v2 ∈ p2)
    (hpf : ∀ v1 v2 : ℝ, v1 ∈ x1 → v2 ∈ x2 → C v1 v2 → ∃ w : ℝ, w ∈ pf) :
    (∀ v : ℝ, v ∈ x1' → v ∈ x1) ∧ (∀ v : ℝ, v ∈ x2' → v ∈ x2) ∧
    (∀ v1 v2 : ℝ, v1 ∈ x1 → v2 ∈ x2 → C v1 v2 → v1 ∈ x1' ∧ v2 ∈ x2') ∧
    (flag = false → ¬ ∃ v1 v2 : ℝ, v1 ∈ x1 ∧ v2 ∈ x2 ∧ C v1 v2) := by
  simp only [Bool.and_eq_true] at h
  obtain ⟨⟨h1, h2⟩, h3⟩ := h
  have a1 := argOk_sound h1
  have a2 := argOk_sound h2
  refine ⟨a1.1, a2.1, ?_, ?_⟩
  · intro v1 v2 m1 m2 c
    exact ⟨a1.2 _ (hp1 v1 v2 m1 m2 c), a2.2 _ (hp2 v1 v2 m1 m2 c)⟩
  · rintro hf ⟨v1, v2, m1, m2, c⟩
    obtain ⟨w, hw⟩ := hpf v1 v2 m1 m2 c
    exact flagOk_sound h3 hf w hw

/-- the shape shared by all unary checkers -/
theorem unary_sound {x x' p : Itv} {flag : Bool} {C : ℝ → Prop}
    (h : (argOk x x' p && flagOk flag p) = true)
    (hp : ∀ v : ℝ, v ∈ x → C v → v ∈ p) :
    (∀ v : ℝ, v ∈ x' → v ∈ x) ∧ (∀ v : ℝ, v ∈ x → C v → v ∈ x') ∧
    (flag = false → ¬ ∃ v : ℝ, v ∈ x ∧ C v) := by
  simp only [Bool.and_eq_true] at h
  obtain ⟨h1, h3⟩ := h
  have a1 := argOk_sound h1
  refine ⟨a1.1, fun v m c => a1.2 _ (hp v m c), ?_⟩
  rintro hf ⟨v, m, c⟩
  exact flagOk_sound h3 hf v (hp v m c)

/-! ### addition, subtraction -/

theorem mem_projAdd1 {y x1 x2 : Itv} {v1 v2 : ℝ} (h1 : v1 ∈ x1) (h2 : v2 ∈ x2) (h : v1 + v2 ∈ y) :
    v1 ∈ projAdd1 y x1 x2 := by
  refine Itv.mem_inter.2 ⟨h1, ?_⟩
  have := Itv.subG_encl X_sound h h2
  rwa [add_sub_cancel_right] at this

theorem add_sound {y x1 x2 x1' x2' : Itv} {flag : Bool} (h : addOk y x1 x2 x1' x2' flag = true) :
    (∀ v : ℝ, v ∈ x1' → v ∈ x1) ∧ (∀ v : ℝ, v ∈ x2' → v ∈ x2) ∧
    (∀ v1 v2 : ℝ, v1 ∈ x1 → v2 ∈ x2 → v1 + v2 ∈ y → v1 ∈ x1' ∧ v2 ∈ x2') ∧
    (flag = false → ¬ ∃ v1 v2 : ℝ, v1 ∈ x1 ∧ v2 ∈ x2 ∧ v1 + v2 ∈ y) :=
  binary_sound (C := fun v1 v2 => v1 + v2 ∈ y) h
    (fun _ _ m1 m2 c => mem_projAdd1 m1 m2 c)
    (fun v1 v2 m1 m2 c => mem_projAdd1 m2 m1 (by rwa [add_comm] at c))
    (fun _ _ m1 m2 c => ⟨_, mem_projAdd1 m1 m2 c⟩)

theorem mem_projSub1 {y x1 x2 : Itv} {v1 v2 : ℝ} (h1 : v1 ∈ x1) (h2 : v2 ∈ x2) (h : v1 - v2 ∈ y) :
    v1 ∈ projSub1 y x1 x2 := by
  refine Itv.mem_inter.2 ⟨h1, ?_⟩
  have := Itv.addG_encl X_sound h h2
  rwa [sub_add_cancel] at this

theorem mem_projSub2 {y x1 x2 : Itv} {v1 v2 : ℝ} (h1 : v1 ∈ x1) (h2 : v2 ∈ x2) (h : v1 - v2 ∈ y) :
    v2 ∈ projSub2 y x1 x2 := by
  refine Itv.mem_inter.2 ⟨h2, ?_⟩
  have := Itv.subG_encl X_sound h1 h
  rwa [sub_sub_cancel] at this

theorem sub_sound {y x1 x2 x1' x2' : Itv} {flag : Bool} (h : subOk y x1 x2 x1' x2' flag = true) :
    (∀ v : ℝ, v ∈ x1' → v ∈ x1) ∧ (∀ v : ℝ, v ∈ x2' → v ∈ x2) ∧
    (∀ v1 v2 : ℝ, v1 ∈ x1 → v2 ∈ x2 → v1 - v2 ∈ y → v1 ∈ x1' ∧ v2 ∈ x2') ∧
    (flag = false → ¬ ∃ v1 v2 : ℝ, v1 ∈ x1 ∧ v2 ∈ x2 ∧ v1 - v2 ∈ y) :=
  binary_sound (C := fun v1 v2 => v1 - v2 ∈ y) h
    (fun _ _ m1 m2 c => mem_projSub1 m1 m2 c)
    (fun _ _ m1 m2 c => mem_projSub2 m1 m2 c)
    (fun _ _ m1 m2 c => ⟨_, mem_projSub1 m1 m2 c⟩)

/-! ### point-sample rule -/

/-- a sample `q` whose image enclosure `fv` is non-empty and inside `y` is kept by `x'` -/
theorem sampleOk_sound {y fv x' : Itv} {q : Rat} (h : sampleOk y fv (.fin q) x' = true)
    (hsub : Itv.subset fv y = true) (hne : fv ≠ .empty) : (q : ℝ) ∈ x' := by
  have he : fv.isEmpty = false := by
    cases fv with
    | empty => exact absurd rfl hne
    | mk a b => rfl
  simp only [sampleOk, hsub, he, Bool.not_false, Bool.and_self, Bool.not_true, Bool.false_or] at h
  exact containsExt_fin.1 h

/-- semantic form: if the image `f q` is known to lie in `fv ⊆ y` (so `q` is consistent: `f q ∈ y`),
    an accepted `x'` contains `q` -/
theorem sampleOk_sound' {y fv x' : Itv} {q : Rat} {fq : ℝ} (h : sampleOk y fv (.fin q) x' = true)
    (hsub : Itv.subset fv y = true) (hfq : fq ∈ fv) : fq ∈ y ∧ (q : ℝ) ∈ x' := by
  refine ⟨Itv.mem_of_subset hsub hfq, sampleOk_sound h hsub ?_⟩
  rintro rfl
  exact Itv.not_mem_empty _ hfq

/-! ### multiplication, division -/

theorem mem_foldl_hull {v : ℝ} : ∀ (l : List Itv) (acc : Itv),
    (v ∈ acc ∨ ∃ p ∈ l, v ∈ p) → v ∈ l.foldl Itv.hull acc
  | [], acc, h => by
    rcases h with h | ⟨p, hp, _⟩
    · exact h
    · cases hp
  | q :: l, acc, h => by
    rw [List.foldl_cons]
    apply mem_foldl_hull l
    rcases h with h | ⟨p, hp, hv⟩
    · exact Or.inl (Itv.mem_hull_left h)
    · rcases List.mem_cons.1 hp with rfl | hp
      · exact Or.inl (Itv.mem_hull_right hv)
      · exact Or.inr ⟨p, hp, hv⟩

theorem mem_hullL {v : ℝ} {l : List Itv} {p : Itv} (hp : p ∈ l) (hv : v ∈ p) : v ∈ hullL l :=
  mem_foldl_hull l _ (Or.inr ⟨p, hp, hv⟩)

/-- the pieces of `divRel y x` cover { v | ∃ w ∈ x, v * w ∈ y } -/
theorem divRel_cover {y x : Itv} {v w : ℝ} (hw : w ∈ x) (hvw : v * w ∈ y) :
    ∃ p ∈ divRel y x, v ∈ p := by
  cases y with
  | empty => exact absurd hvw (Itv.not_mem_empty _)
  | mk a b =>
  cases x with
  | empty => exact absurd hw (Itv.not_mem_empty _)
  | mk c d =>
  have quot : ∀ {x' : Itv}, w ∈ x' → w ≠ 0 → v ∈ Itv.divG X (Itv.mk a b) x' := by
    intro x' hw' hw0
    have := Itv.divG_encl X_sound hvw hw' hw0
    rwa [mul_div_cancel_right₀ v hw0] at this
  simp only [divRel]
  by_cases h1 : (Itv.containsExt (Itv.mk a b) z && Itv.containsExt (Itv.mk c d) z) = true
  · rw [if_pos h1]
    exact ⟨Itv.all, by simp, mem_all v⟩
  rw [if_neg h1]
  by_cases h2 : (Ext.lt z c || Ext.lt d z) = true
  · rw [if_pos h2]
    have hw0 : w ≠ 0 := by
      rintro rfl
      rcases Bool.or_eq_true _ _ ▸ h2 with h | h
      · rw [Ext.lt_iff, toE_z] at h
        exact absurd (lt_of_lt_of_le h hw.1) (by simp)
      · rw [Ext.lt_iff, toE_z] at h
        exact absurd (lt_of_le_of_lt hw.2 h) (by simp)
    exact ⟨_, by simp, quot hw hw0⟩
  · rw [if_neg h2]
    have hx0 : (0 : ℝ) ∈ Itv.mk c d := by
      simp only [Bool.or_eq_true, not_or, Ext.lt_iff, toE_z, not_lt] at h2
      exact ⟨by simpa using h2.1, by simpa using h2.2⟩
    have hy0 : ¬ (0 : ℝ) ∈ Itv.mk a b := by
      intro hy0
      exact h1 (by simp [containsExt_z.2 hy0, containsExt_z.2 hx0])
    have hw0 : w ≠ 0 := by
      rintro rfl
      rw [mul_zero] at hvw
      exact hy0 hvw
    rcases lt_or_gt_of_ne hw0 with hneg | hpos
    · have hc : Ext.lt c z = true := by
        rw [Ext.lt_iff, toE_z]
        exact lt_of_le_of_lt hw.1 (by exact_mod_cast hneg)
      have hm : w ∈ Itv.mk c z := ⟨hw.1, by rw [toE_z]; exact_mod_cast le_of_lt hneg⟩
      exact ⟨_, by simp [hc], quot hm hw0⟩
    · have hd : Ext.lt z d = true := by
        rw [Ext.lt_iff, toE_z]
        exact lt_of_lt_of_le (by exact_mod_cast hpos) hw.2
      have hm : w ∈ Itv.mk z d := ⟨by rw [toE_z]; exact_mod_cast le_of_lt hpos, hw.2⟩
      exact ⟨_, by simp [hd], quot hm hw0⟩

/-- a member `v` of `x1` and of a piece survives `meetPiece` when `v * w ∈ y` for some `w` -/
theorem mem_meetPiece {y x1 p : Itv} {v w : ℝ} (hv : v ∈ x1) (hp : v ∈ p) (hvw : v * w ∈ y) :
    v ∈ meetPiece y x1 p := by
  have hq : v ∈ Itv.inter x1 p := Itv.mem_inter.2 ⟨hv, hp⟩
  unfold meetPiece
  simp only []
  split_ifs with h
  · exfalso
    simp only [Bool.and_eq_true, beq_iff_eq, Bool.not_eq_true'] at h
    obtain ⟨e1, e2⟩ := h
    rw [e1, mem_point_zero] at hq
    subst hq
    rw [zero_mul] at hvw
    rw [containsExt_z.2 hvw] at e2
    exact Bool.noConfusion e2
  · exact hq

theorem mem_projMul1 {y x1 x2 : Itv} {v1 v2 : ℝ} (h1 : v1 ∈ x1) (h2 : v2 ∈ x2) (h : v1 * v2 ∈ y) :
    v1 ∈ projMul1 y x1 x2 := by
  obtain ⟨p, hp, hv⟩ := divRel_cover h2 h
  exact mem_hullL (List.mem_map.2 ⟨p, hp, rfl⟩) (mem_meetPiece h1 hv h)

theorem mul_sound {y x1 x2 x1' x2' : Itv} {flag : Bool} (h : mulOk y x1 x2 x1' x2' flag = true) :
    (∀ v : ℝ, v ∈ x1' → v ∈ x1) ∧ (∀ v : ℝ, v ∈ x2' → v ∈ x2) ∧
    (∀ v1 v2 : ℝ, v1 ∈ x1 → v2 ∈ x2 → v1 * v2 ∈ y → v1 ∈ x1' ∧ v2 ∈ x2') ∧
    (flag = false → ¬ ∃ v1 v2 : ℝ, v1 ∈ x1 ∧ v2 ∈ x2 ∧ v1 * v2 ∈ y) :=
  binary_sound (C := fun v1 v2 => v1 * v2 ∈ y) h
    (fun _ _ m1 m2 c => mem_projMul1 m1 m2 c)
    (fun v1 v2 m1 m2 c => mem_projMul1 m2 m1 (by rwa [mul_comm] at c))
    (fun _ _ m1 m2 c => ⟨_, mem_projMul1 m1 m2 c⟩)

theorem mem_projDiv1 {y x1 x2 : Itv} {v1 v2 : ℝ} (h1 : v1 ∈ x1) (h2 : v2 ∈ x2) (h0 : v2 ≠ 0)
    (h : v1 / v2 ∈ y) : v1 ∈ projDiv1 y x1 x2 := by
  unfold projDiv1
  split_ifs with hz
  · exfalso
    rw [beq_iff_eq] at hz
    rw [hz, mem_point_zero] at h2
    exact h0 h2
  · refine Itv.mem_inter.2 ⟨h1, ?_⟩
    have := Itv.mulG_encl X_sound h h2
    rwa [div_mul_cancel₀ v1 h0] at this

theorem mem_projDiv2 {y x1 x2 : Itv} {v1 v2 : ℝ} (h1 : v1 ∈ x1) (h2 : v2 ∈ x2) (h0 : v2 ≠ 0)
    (h : v1 / v2 ∈ y) : v2 ∈ projDiv2 y x1 x2 := by
  have hprod : v2 * (v1 / v2) ∈ x1 := by rwa [mul_div_cancel₀ v1 h0]
  obtain ⟨p, hp, hv⟩ := divRel_cover h hprod
  have hm : v2 ∈ hullL ((divRel x1 y).map (meetPiece x1 x2)) :=
    mem_hullL (List.mem_map.2 ⟨p, hp, rfl⟩) (mem_meetPiece h2 hv hprod)
  unfold projDiv2
  simp only []
  split_ifs with hz
  · exfalso
    rw [beq_iff_eq] at hz
    rw [hz, mem_point_zero] at hm
    exact h0 hm
  · exact hm

theorem div_sound {y x1 x2 x1' x2' : Itv} {flag : Bool} (h : divOk y x1 x2 x1' x2' flag = true) :
    (∀ v : ℝ, v ∈ x1' → v ∈ x1) ∧ (∀ v : ℝ, v ∈ x2' → v ∈ x2) ∧
    (∀ v1 v2 : ℝ, v1 ∈ x1 → v2 ∈ x2 → (v2 ≠ 0 ∧ v1 / v2 ∈ y) → v1 ∈ x1' ∧ v2 ∈ x2') ∧
    (flag = false → ¬ ∃ v1 v2 : ℝ, v1 ∈ x1 ∧ v2 ∈ x2 ∧ (v2 ≠ 0 ∧ v1 / v2 ∈ y)) :=
  binary_sound (C := fun v1 v2 => v2 ≠ 0 ∧ v1 / v2 ∈ y) h
    (fun _ _ m1 m2 c => mem_projDiv1 m1 m2 c.1 c.2)
    (fun _ _ m1 m2 c => mem_projDiv2 m1 m2 c.1 c.2)
    (fun _ _ m1 m2 c => ⟨_, mem_projDiv2 m1 m2 c.1 c.2⟩)

/-! ### square root, absolute value -/

theorem mem_projSqrt {y x : Itv} {v : ℝ} (hv : v ∈ x) (h0 : 0 ≤ v) (h : Real.sqrt v ∈ y) :
    v ∈ projSqrt y x := by
  refine Itv.mem_inter.2 ⟨hv, ?_⟩
  have hs : Real.sqrt v ∈ Itv.inter y nonneg :=
    Itv.mem_inter.2 ⟨h, mem_nonneg.2 (Real.sqrt_nonneg v)⟩
  have := Itv.sqrG_encl X_sound hs
  rwa [Real.mul_self_sqrt h0] at this

theorem sqrt_sound {y x x' : Itv} {flag : Bool} (h : sqrtOk y x x' flag = true) :
    (∀ v : ℝ, v ∈ x' → v ∈ x) ∧
    (∀ v : ℝ, v ∈ x → (0 ≤ v ∧ Real.sqrt v ∈ y) → v ∈ x') ∧
    (flag = false → ¬ ∃ v : ℝ, v ∈ x ∧ (0 ≤ v ∧ Real.sqrt v ∈ y)) :=
  unary_sound (C := fun v => 0 ≤ v ∧ Real.sqrt v ∈ y) h (fun _ m c => mem_projSqrt m c.1 c.2)

theorem mem_projAbs {y x : Itv} {v : ℝ} (hv : v ∈ x) (h : |v| ∈ y) : v ∈ projAbs y x := by
  have hyp : |v| ∈ Itv.inter y nonneg := Itv.mem_inter.2 ⟨h, mem_nonneg.2 (abs_nonneg v)⟩
  unfold projAbs
  simp only []
  rcases le_total 0 v with h0 | h0
  · rw [abs_of_nonneg h0] at hyp
    exact Itv.mem_hull_left (Itv.mem_inter.2 ⟨hv, hyp⟩)
  · rw [abs_of_nonpos h0] at hyp
    exact Itv.mem_hull_right (Itv.mem_inter.2 ⟨hv, mem_neg.2 hyp⟩)

theorem abs_sound {y x x' : Itv} {flag : Bool} (h : absOk y x x' flag = true) :
    (∀ v : ℝ, v ∈ x' → v ∈ x) ∧ (∀ v : ℝ, v ∈ x → |v| ∈ y → v ∈ x') ∧
    (flag = false → ¬ ∃ v : ℝ, v ∈ x ∧ |v| ∈ y) :=
  unary_sound (C := fun v => |v| ∈ y) h (fun _ m c => mem_projAbs m c)

/-! ### max, min -/

theorem mem_projMax1 {y x1 x2 : Itv} {v1 v2 : ℝ} (h1 : v1 ∈ x1) (h2 : v2 ∈ x2)
    (h : Max.max v1 v2 ∈ y) : v1 ∈ projMax1 y x1 x2 := by
  cases y with
  | empty => exact absurd h (Itv.not_mem_empty _)
  | mk yl yh =>
  obtain ⟨hl, hh⟩ := h
  have hv1h : (v1 : EReal) ≤ yh.toE := le_trans (EReal.coe_le_coe_iff.2 (le_max_left _ _)) hh
  have hv2h : (v2 : EReal) ≤ yh.toE := le_trans (EReal.coe_le_coe_iff.2 (le_max_right _ _)) hh
  have hm2 : v2 ∈ Itv.inter x2 (.mk .ninf yh) := Itv.mem_inter.2 ⟨h2, ⟨by simp, hv2h⟩⟩
  simp only [projMax1]
  generalize Itv.inter x2 (.mk .ninf yh) = x2c at hm2
  cases x2c with
  | empty => exact absurd hm2 (Itv.not_mem_empty _)
  | mk l x2h =>
  simp only []
  split_ifs with hle
  · exact Itv.mem_inter.2 ⟨h1, ⟨by simp, hv1h⟩⟩
  · refine Itv.mem_inter.2 ⟨h1, ⟨?_, hv1h⟩⟩
    rw [Ext.le_iff, not_le] at hle
    have hlt : (v2 : EReal) < yl.toE := lt_of_le_of_lt hm2.2 hle
    rcases le_total v1 v2 with h12 | h12
    · rw [max_eq_right h12] at hl
      exact absurd hl (not_le.2 hlt)
    · rwa [max_eq_left h12] at hl

theorem max_sound {y x1 x2 x1' x2' : Itv} {flag : Bool} (h : maxOk y x1 x2 x1' x2' flag = true) :
    (∀ v : ℝ, v ∈ x1' → v ∈ x1) ∧ (∀ v : ℝ, v ∈ x2' → v ∈ x2) ∧
    (∀ v1 v2 : ℝ, v1 ∈ x1 → v2 ∈ x2 → Max.max v1 v2 ∈ y → v1 ∈ x1' ∧ v2 ∈ x2') ∧
    (flag = false → ¬ ∃ v1 v2 : ℝ, v1 ∈ x1 ∧ v2 ∈ x2 ∧ Max.max v1 v2 ∈ y) :=
  binary_sound (C := fun v1 v2 => Max.max v1 v2 ∈ y) h
    (fun _ _ m1 m2 c => mem_projMax1 m1 m2 c)
    (fun v1 v2 m1 m2 c => mem_projMax1 m2 m1 (by rwa [max_comm] at c))
    (fun _ _ m1 m2 c => ⟨_, mem_projMax1 m1 m2 c⟩)

theorem mem_projMin1 {y x1 x2 : Itv} {v1 v2 : ℝ} (h1 : v1 ∈ x1) (h2 : v2 ∈ x2)
    (h : Min.min v1 v2 ∈ y) : v1 ∈ projMin1 y x1 x2 := by
  unfold projMin1
  rw [mem_neg]
  refine mem_projMax1 (v2 := -v2) (mem_neg.2 (by rwa [neg_neg])) (mem_neg.2 (by rwa [neg_neg])) ?_
  rw [mem_neg, max_neg_neg, neg_neg]
  exact h

theorem min_sound {y x1 x2 x1' x2' : Itv} {flag : Bool} (h : minOk y x1 x2 x1' x2' flag = true) :
    (∀ v : ℝ, v ∈ x1' → v ∈ x1) ∧ (∀ v : ℝ, v ∈ x2' → v ∈ x2) ∧
    (∀ v1 v2 : ℝ, v1 ∈ x1 → v2 ∈ x2 → Min.min v1 v2 ∈ y → v1 ∈ x1' ∧ v2 ∈ x2') ∧
    (flag = false → ¬ ∃ v1 v2 : ℝ, v1 ∈ x1 ∧ v2 ∈ x2 ∧ Min.min v1 v2 ∈ y) :=
  binary_sound (C := fun v1 v2 => Min.min v1 v2 ∈ y) h
    (fun _ _ m1 m2 c => mem_projMin1 m1 m2 c)
    (fun v1 v2 m1 m2 c => mem_projMin1 m2 m1 (by rwa [min_comm] at c))
    (fun _ _ m1 m2 c => ⟨_, mem_projMin1 m1 m2 c⟩)

/-! ### sign -/

theorem mem_projSign {y x : Itv} {v : ℝ} (hv : v ∈ x) (h : (SignType.sign v : ℝ) ∈ y) :
    v ∈ projSign y x := by
  cases x with
  | empty => exact absurd hv (Itv.not_mem_empty _)
  | mk a b =>
  simp only [projSign]
  rcases lt_trichotomy v 0 with hneg | rfl | hpos
  · apply Itv.mem_hull_right
    apply Itv.mem_hull_right
    have hy : Itv.containsExt y (.fin (-1)) = true :=
      containsExt_fin.2 (by simpa [sign_neg hneg] using h)
    have ha : Ext.lt a z = true := by
      rw [Ext.lt_iff, toE_z]
      exact lt_of_le_of_lt hv.1 (by exact_mod_cast hneg)
    rw [if_pos (by simp [hy, ha])]
    refine ⟨hv.1, ?_⟩
    rw [Ext.toE_min, toE_z]
    exact le_min hv.2 (by exact_mod_cast le_of_lt hneg)
  · apply Itv.mem_hull_right
    apply Itv.mem_hull_left
    have hy : Itv.containsExt y z = true := containsExt_z.2 (by simpa using h)
    rw [if_pos hy]
    exact Itv.mem_inter.2 ⟨hv, mem_point_zero.2 rfl⟩
  · apply Itv.mem_hull_left
    have hy : Itv.containsExt y (.fin 1) = true :=
      containsExt_fin.2 (by simpa [sign_pos hpos] using h)
    have hb : Ext.lt z b = true := by
      rw [Ext.lt_iff, toE_z]
      exact lt_of_lt_of_le (by exact_mod_cast hpos) hv.2
    rw [if_pos (by simp [hy, hb])]
    refine ⟨?_, hv.2⟩
    rw [Ext.toE_max, toE_z]
    exact max_le hv.1 (by exact_mod_cast le_of_lt hpos)

theorem sign_sound {y x x' : Itv} {flag : Bool} (h : signOk y x x' flag = true) :
    (∀ v : ℝ, v ∈ x' → v ∈ x) ∧ (∀ v : ℝ, v ∈ x → (SignType.sign v : ℝ) ∈ y → v ∈ x') ∧
    (flag = false → ¬ ∃ v : ℝ, v ∈ x ∧ (SignType.sign v : ℝ) ∈ y) :=
  unary_sound (C := fun v => (SignType.sign v : ℝ) ∈ y) h (fun _ m c => mem_projSign m c)

/-! ### floor, ceil -/

theorem rat_floor_eq (q : ℚ) : ⌊q⌋ = q.floor := rfl

theorem rat_ceil_eq (q : ℚ) : ⌈q⌉ = q.ceil := by
  rw [Rat.ceil_eq_neg_floor_neg]; rfl

/-- an integer of `y` is in `Itv.integer y` -/
theorem mem_integer {y : Itv} {n : ℤ} (h : ((n : ℤ) : ℝ) ∈ y) : ((n : ℤ) : ℝ) ∈ Itv.integer y := by
  cases y with
  | empty => exact absurd h (Itv.not_mem_empty _)
  | mk a b =>
  obtain ⟨ha, hb⟩ := h
  simp only [Itv.integer]
  refine Itv.mem_ofBounds_iff.2 ⟨?_, ?_⟩
  · cases a with
    | ninf => simp [Itv.ceilExt]
    | pinf => simp at ha
    | fin q =>
      simp only [Ext.toE_fin, EReal.coe_le_coe_iff] at ha
      simp only [Itv.ceilExt, Ext.toE_fin, EReal.coe_le_coe_iff]
      have hq : q ≤ (n : ℚ) := by exact_mod_cast ha
      have : q.ceil ≤ n := by rw [← rat_ceil_eq]; exact Int.ceil_le.2 hq
      push_cast
      exact_mod_cast this
  · cases b with
    | pinf => simp [Itv.floorExt]
    | ninf => simp at hb
    | fin q =>
      simp only [Ext.toE_fin, EReal.coe_le_coe_iff] at hb
      simp only [Itv.floorExt, Ext.toE_fin, EReal.coe_le_coe_iff]
      have hq : (n : ℚ) ≤ q := by exact_mod_cast hb
      have : n ≤ q.floor := by rw [← rat_floor_eq]; exact Int.le_floor.2 hq
      push_cast
      exact_mod_cast this

theorem mem_projFloor {y x : Itv} {v : ℝ} (hv : v ∈ x) (h : ((⌊v⌋ : ℤ) : ℝ) ∈ y) :
    v ∈ projFloor y x := by
  cases x with
  | empty => exact absurd hv (Itv.not_mem_empty _)
  | mk a b =>
  have hi := mem_integer h
  simp only [projFloor]
  generalize Itv.integer y = I at hi
  cases I with
  | empty => exact absurd hi (Itv.not_mem_empty _)
  | mk l u =>
  obtain ⟨hl, hu⟩ := hi
  have hlv : l.toE ≤ (v : EReal) := le_trans hl (EReal.coe_le_coe_iff.2 (Int.floor_le v))
  have key : ∀ u1 : Ext, (v : EReal) < u1.toE →
      v ∈ (if (Ext.le l b && Ext.lt a u1) = true then Itv.mk (Ext.max a l) (Ext.min b u1)
        else Itv.empty) := by
    intro u1 hu1
    have c1 : Ext.le l b = true := (Ext.le_iff _ _).2 (le_trans hlv hv.2)
    have c2 : Ext.lt a u1 = true := (Ext.lt_iff _ _).2 (lt_of_le_of_lt hv.1 hu1)
    rw [if_pos (by simp [c1, c2])]
    refine ⟨?_, ?_⟩
    · rw [Ext.toE_max]; exact max_le hv.1 hlv
    · rw [Ext.toE_min]; exact le_min hv.2 (le_of_lt hu1)
  cases u with
  | ninf => simp at hu
  | pinf => exact key .pinf (by simp)
  | fin q =>
    refine key (.fin (q + 1)) ?_
    simp only [Ext.toE_fin, EReal.coe_le_coe_iff, EReal.coe_lt_coe_iff] at hu ⊢
    push_cast
    linarith [Int.lt_floor_add_one v]

theorem floor_sound {y x x' : Itv} {flag : Bool} (h : floorOk y x x' flag = true) :
    (∀ v : ℝ, v ∈ x' → v ∈ x) ∧ (∀ v : ℝ, v ∈ x → ((⌊v⌋ : ℤ) : ℝ) ∈ y → v ∈ x') ∧
    (flag = false → ¬ ∃ v : ℝ, v ∈ x ∧ ((⌊v⌋ : ℤ) : ℝ) ∈ y) :=
  unary_sound (C := fun v => ((⌊v⌋ : ℤ) : ℝ) ∈ y) h (fun _ m c => mem_projFloor m c)

theorem mem_projCeil {y x : Itv} {v : ℝ} (hv : v ∈ x) (h : ((⌈v⌉ : ℤ) : ℝ) ∈ y) :
    v ∈ projCeil y x := by
  unfold projCeil
  rw [mem_neg]
  refine mem_projFloor (mem_neg.2 (by rwa [neg_neg])) ?_
  rw [mem_neg, Int.floor_neg]
  push_cast
  rwa [neg_neg]

theorem ceil_sound {y x x' : Itv} {flag : Bool} (h : ceilOk y x x' flag = true) :
    (∀ v : ℝ, v ∈ x' → v ∈ x) ∧ (∀ v : ℝ, v ∈ x → ((⌈v⌉ : ℤ) : ℝ) ∈ y → v ∈ x') ∧
    (flag = false → ¬ ∃ v : ℝ, v ∈ x ∧ ((⌈v⌉ : ℤ) : ℝ) ∈ y) :=
  unary_sound (C := fun v => ((⌈v⌉ : ℤ) : ℝ) ∈ y) h (fun _ m c => mem_projCeil m c)

/-! ### powers

  No real n-th root is needed: the Boolean conditions compare exact n-th powers, and a consistent
  `v` is placed with respect to the bounds of `x'` by monotonicity of `t ↦ tⁿ` on `[0,∞)` (even
  `n`, the negative half being handled through `-v`, `neg x`, `neg x'`) or on `ℝ` (odd `n`). -/

theorem extPow_fin (n : ℕ) (q : Rat) : (extPow n (.fin q)).toE = ((((q : ℝ) ^ n : ℝ)) : EReal) := by
  simp [extPow]

theorem extPow_le_of_pos (n : ℕ) {e : Ext} {v : ℝ} (he : 0 < e.toE) (hev : e.toE ≤ (v : EReal)) :
    (extPow n e).toE ≤ ((v ^ n : ℝ) : EReal) := by
  cases e with
  | ninf => simp at he
  | pinf => simp at hev
  | fin q =>
    simp only [Ext.toE_fin, EReal.coe_le_coe_iff] at hev
    have hq : (0 : ℝ) < q := by simpa using he
    rw [extPow_fin, EReal.coe_le_coe_iff]
    exact pow_le_pow_left₀ hq.le hev n

theorem le_extPow_of_nonneg (n : ℕ) {e : Ext} {v : ℝ} (hv : 0 ≤ v) (hve : (v : EReal) ≤ e.toE) :
    ((v ^ n : ℝ) : EReal) ≤ (extPow n e).toE := by
  cases e with
  | ninf => simp at hve
  | pinf => simp [extPow]
  | fin q =>
    simp only [Ext.toE_fin, EReal.coe_le_coe_iff] at hve
    rw [extPow_fin, EReal.coe_le_coe_iff]
    exact pow_le_pow_left₀ hv hve n

theorem le_of_extPow_le {n : ℕ} (hn : n ≠ 0) {e : Ext} {v : ℝ} (hv : 0 ≤ v)
    (h : (extPow n e).toE ≤ ((v ^ n : ℝ) : EReal)) : e.toE ≤ (v : EReal) := by
  cases e with
  | ninf => simp
  | pinf => exact absurd h (not_le.2 (EReal.coe_lt_top _))
  | fin q =>
    rw [extPow_fin, EReal.coe_le_coe_iff] at h
    simp only [Ext.toE_fin, EReal.coe_le_coe_iff]
    exact le_of_pow_le_pow_left₀ hn hv h

theorem le_of_le_extPow {n : ℕ} (hn : n ≠ 0) {e : Ext} {v : ℝ} (he : 0 ≤ e.toE)
    (h : ((v ^ n : ℝ) : EReal) ≤ (extPow n e).toE) : (v : EReal) ≤ e.toE := by
  cases e with
  | ninf => simp at he
  | pinf => simp
  | fin q =>
    rw [extPow_fin, EReal.coe_le_coe_iff] at h
    have hq : (0 : ℝ) ≤ q := by simpa using he
    simp only [Ext.toE_fin, EReal.coe_le_coe_iff]
    exact le_of_pow_le_pow_left₀ hn hq h

/-- a consistent `v ≥ 0` of `x` makes the "piece ∩ x non-empty" test succeed -/
theorem rootPiece_cond {n : ℕ} {a b xl xh : Ext} {v : ℝ} (hv0 : 0 ≤ v) (hv : v ∈ Itv.mk xl xh)
    (ha : a.toE ≤ ((v ^ n : ℝ) : EReal)) (hb : ((v ^ n : ℝ) : EReal) ≤ b.toE) :
    (leRoot n xl b && rootLe n a xh) = true := by
  have hv0' : (0 : EReal) ≤ (v : EReal) := by exact_mod_cast hv0
  have c1 : leRoot n xl b = true := by
    unfold leRoot
    rw [Bool.or_eq_true]
    by_cases h : xl.toE ≤ 0
    · left; rw [Ext.le_iff, toE_z]; exact h
    · right
      exact (Ext.le_iff _ _).2 (le_trans (extPow_le_of_pos n (not_le.1 h) hv.1) hb)
  have c2 : rootLe n a xh = true := by
    unfold rootLe
    rw [Bool.and_eq_true]
    exact ⟨(Ext.le_iff _ _).2 (by rw [toE_z]; exact le_trans hv0' hv.2),
      (Ext.le_iff _ _).2 (le_trans ha (le_extPow_of_nonneg n hv0 hv.2))⟩
  rw [c1, c2]; rfl

theorem keepsRootPiece_sound {n : ℕ} (hn : n ≠ 0) {a b : Ext} {x x' : Itv} {v : ℝ} (hv0 : 0 ≤ v)
    (hv : v ∈ x) (ha : a.toE ≤ ((v ^ n : ℝ) : EReal)) (hb : ((v ^ n : ℝ) : EReal) ≤ b.toE) :
    rootPieceEmpty n a b x = false ∧ (keepsRootPiece n a b x x' = true → v ∈ x') := by
  cases x with
  | empty => exact absurd hv (Itv.not_mem_empty _)
  | mk xl xh =>
  have hv0' : (0 : EReal) ≤ (v : EReal) := by exact_mod_cast hv0
  have hc := rootPiece_cond hv0 hv ha hb
  refine ⟨by simp only [rootPieceEmpty, hc]; rfl, ?_⟩
  intro hk
  simp only [keepsRootPiece] at hk
  rw [if_pos hc] at hk
  cases x' with
  | empty => exact absurd hk (by simp)
  | mk l' h' =>
    simp only [Bool.and_eq_true, Bool.or_eq_true] at hk
    obtain ⟨hlo, hhi⟩ := hk
    refine ⟨?_, ?_⟩
    · rcases hlo with h | h
      · exact le_trans ((Ext.le_iff _ _).1 h) hv.1
      · unfold leRoot at h
        rw [Bool.or_eq_true] at h
        rcases h with h | h
        · rw [Ext.le_iff, toE_z] at h; exact le_trans h hv0'
        · rw [Ext.le_iff] at h; exact le_of_extPow_le hn hv0 (le_trans h ha)
    · rcases hhi with h | h
      · exact le_trans hv.2 ((Ext.le_iff _ _).1 h)
      · unfold rootLe at h
        rw [Bool.and_eq_true, Ext.le_iff, Ext.le_iff, toE_z] at h
        exact le_of_le_extPow hn h.1 (le_trans hb h.2)

theorem extPow_odd_le {n : ℕ} (ho : n % 2 = 1) {e : Ext} {v : ℝ} (h : e.toE ≤ (v : EReal)) :
    (extPow n e).toE ≤ ((v ^ n : ℝ) : EReal) := by
  cases e with
  | ninf => simp [extPow, ho]
  | pinf => simp at h
  | fin q =>
    simp only [Ext.toE_fin, EReal.coe_le_coe_iff] at h
    rw [extPow_fin, EReal.coe_le_coe_iff]
    exact (Nat.odd_iff.2 ho).pow_le_pow.2 h

theorem le_extPow_odd {n : ℕ} {e : Ext} {v : ℝ} (ho : n % 2 = 1) (h : (v : EReal) ≤ e.toE) :
    ((v ^ n : ℝ) : EReal) ≤ (extPow n e).toE := by
  cases e with
  | ninf => simp at h
  | pinf => simp [extPow]
  | fin q =>
    simp only [Ext.toE_fin, EReal.coe_le_coe_iff] at h
    rw [extPow_fin, EReal.coe_le_coe_iff]
    exact (Nat.odd_iff.2 ho).pow_le_pow.2 h

theorem le_of_extPow_odd_le {n : ℕ} (ho : n % 2 = 1) {e : Ext} {v : ℝ}
    (h : (extPow n e).toE ≤ ((v ^ n : ℝ) : EReal)) : e.toE ≤ (v : EReal) := by
  cases e with
  | ninf => simp
  | pinf => exact absurd h (not_le.2 (EReal.coe_lt_top _))
  | fin q =>
    rw [extPow_fin, EReal.coe_le_coe_iff] at h
    simp only [Ext.toE_fin, EReal.coe_le_coe_iff]
    exact (Nat.odd_iff.2 ho).pow_le_pow.1 h

theorem le_of_le_extPow_odd {n : ℕ} (ho : n % 2 = 1) {e : Ext} {v : ℝ}
    (h : ((v ^ n : ℝ) : EReal) ≤ (extPow n e).toE) : (v : EReal) ≤ e.toE := by
  cases e with
  | ninf =>
    have e : extPow n .ninf = .ninf := by simp [extPow, ho]
    rw [e] at h
    exact absurd h (not_le.2 (EReal.bot_lt_coe _))
  | pinf => simp
  | fin q =>
    rw [extPow_fin, EReal.coe_le_coe_iff] at h
    simp only [Ext.toE_fin, EReal.coe_le_coe_iff]
    exact (Nat.odd_iff.2 ho).pow_le_pow.1 h

/-- a consistent `v` refutes "no consistent value" and is kept by an accepted `x'` -/
theorem powKeeps_sound {n : ℕ} (hn : n ≠ 0) {y x x' : Itv} {v : ℝ} (hv : v ∈ x) (hy : v ^ n ∈ y) :
    (powKeeps n y x x').2 = false ∧ ((powKeeps n y x x').1 = true → v ∈ x') := by
  unfold powKeeps
  by_cases he : n % 2 = 0
  · rw [if_pos he]
    have hev : Even n := Nat.even_iff.2 he
    have hm : v ^ n ∈ Itv.inter y nonneg :=
      Itv.mem_inter.2 ⟨hy, mem_nonneg.2 (hev.pow_nonneg v)⟩
    generalize Itv.inter y nonneg = I at hm
    cases I with
    | empty => exact absurd hm (Itv.not_mem_empty _)
    | mk a b =>
    obtain ⟨ha, hb⟩ := hm
    dsimp only
    rcases le_total 0 v with h0 | h0
    · obtain ⟨e1, e2⟩ := keepsRootPiece_sound (x' := x') hn h0 hv ha hb
      refine ⟨by rw [e1, Bool.false_and], fun hk => e2 ?_⟩
      rw [Bool.and_eq_true] at hk
      exact hk.1
    · have hnv : -v ∈ Itv.neg x := mem_neg.2 (by rwa [neg_neg])
      have hp : (-v) ^ n = v ^ n := hev.neg_pow v
      obtain ⟨e1, e2⟩ := keepsRootPiece_sound (x := Itv.neg x) (x' := Itv.neg x') (v := -v) hn
        (neg_nonneg.2 h0) hnv (by rwa [hp]) (by rwa [hp])
      refine ⟨by rw [e1, Bool.and_false], fun hk => ?_⟩
      rw [Bool.and_eq_true] at hk
      have := e2 hk.2
      rwa [mem_neg, neg_neg] at this
  · rw [if_neg he]
    have ho : n % 2 = 1 := by omega
    cases y with
    | empty => exact absurd hy (Itv.not_mem_empty _)
    | mk yl yh =>
    cases x with
    | empty => exact absurd hv (Itv.not_mem_empty _)
    | mk xl xh =>
    dsimp only
    have hne : (Ext.le (extPow n xl) yh && Ext.le yl (extPow n xh)) = true := by
      rw [Bool.and_eq_true, Ext.le_iff, Ext.le_iff]
      exact ⟨le_trans (extPow_odd_le ho hv.1) hy.2, le_trans hy.1 (le_extPow_odd ho hv.2)⟩
    rw [if_pos hne]
    cases x' with
    | empty => exact ⟨rfl, fun hk => absurd hk (by simp)⟩
    | mk l' h' =>
      refine ⟨rfl, fun hk => ?_⟩
      dsimp only at hk
      simp only [Bool.and_eq_true, Bool.or_eq_true, Ext.le_iff] at hk
      obtain ⟨hlo, hhi⟩ := hk
      refine ⟨?_, ?_⟩
      · rcases hlo with h | h
        · exact le_trans h hv.1
        · exact le_of_extPow_odd_le ho (le_trans h hy.1)
      · rcases hhi with h | h
        · exact le_trans hv.2 h
        · exact le_of_le_extPow_odd ho (le_trans hy.2 h)

theorem pow_sound {n : ℕ} (hn : 1 ≤ n) {y x x' : Itv} {flag : Bool}
    (h : powOk n y x x' flag = true) :
    (∀ v : ℝ, v ∈ x' → v ∈ x) ∧ (∀ v : ℝ, v ∈ x → v ^ n ∈ y → v ∈ x') ∧
    (flag = false → ¬ ∃ v : ℝ, v ∈ x ∧ v ^ n ∈ y) := by
  have hn0 : n ≠ 0 := by omega
  simp only [powOk, Bool.and_eq_true, Bool.or_eq_true] at h
  obtain ⟨⟨hsub, hk⟩, hf⟩ := h
  refine ⟨fun v hv => Itv.mem_of_subset hsub hv, fun v hv hy => (powKeeps_sound hn0 hv hy).2 hk, ?_⟩
  rintro rfl ⟨v, hv, hy⟩
  rcases hf with hf | hf
  · exact Bool.noConfusion hf
  · rw [(powKeeps_sound (x' := x') hn0 hv hy).1] at hf
    exact Bool.noConfusion hf

end Ibex.Bwd
