/-
  C14 — soundness of the checkers of `IbexModel/Inner.lean`, part 1: forward inner operators.

  `subRange op X Y Z = true` implies that every real of `Z` is a value of the operator at a point
  of the region: the checker exhibits (exact rational) points of the region whose values are on
  both sides of `z` (or a ray of the region along which the operator is unbounded); the region is
  preconnected and the operator continuous on it, hence the intermediate value theorem applies.
-/
import IbexProofs.ArithG
import IbexProofs.Arith2
import IbexProofs.SetAlg
import IbexProofs.Mono
import Mathlib.Topology.Order.IntermediateValue
import Mathlib.Topology.Connected.Basic
import Mathlib.Topology.Algebra.Order.Field
import Mathlib.Topology.Order.Lattice
import Mathlib.Topology.Instances.Real.Lemmas

namespace Ibex
namespace Inner
open Ibex

/-! ### real semantics of the binary operators, region -/

noncomputable def Op2.evalR : Op2 → ℝ → ℝ → ℝ
  | .add, x, y => x + y
  | .sub, x, y => x - y
  | .mul, x, y => x * y
  | .divp, x, y => x / y
  | .max, x, y => Max.max x y
  | .min, x, y => Min.min x y

/-- the region of `op` over X × Y (for `divp`: the part `y > 0`) -/
def Reg (op : Op2) (X Y : Itv) : Set (ℝ × ℝ) :=
  {x : ℝ | x ∈ X} ×ˢ {y : ℝ | y ∈ Y ∧ (op = .divp → 0 < y)}

theorem memQ_mem {q : Rat} {I : Itv} (h : memQ q I = true) : ((q : ℝ)) ∈ I := by
  cases I with
  | empty => simp [memQ, Itv.containsExt] at h
  | mk a b =>
    simp only [memQ, Itv.containsExt, Bool.and_eq_true] at h
    exact ⟨by simpa using (Ext.le_iff _ _).1 h.1, by simpa using (Ext.le_iff _ _).1 h.2⟩

theorem inS_mem {op : Op2} {X Y : Itv} {x y : Rat} (h : inS op X Y x y = true) :
    (((x : ℝ)), ((y : ℝ))) ∈ Reg op X Y := by
  simp only [inS, Bool.and_eq_true] at h
  refine ⟨memQ_mem h.1.1, memQ_mem h.1.2, ?_⟩
  intro hop
  subst hop
  have := h.2
  simp only [decide_eq_true_eq] at this
  show (0 : ℝ) < (y : ℝ)
  exact_mod_cast this

theorem evalQ_cast (op : Op2) (x y : Rat) : ((op.evalQ x y : Rat) : ℝ) = op.evalR (x : ℝ) (y : ℝ) := by
  cases op <;> simp only [Op2.evalQ, Op2.evalR]
  · push_cast; rfl
  · push_cast; rfl
  · push_cast; rfl
  · push_cast; rfl
  · by_cases h : x ≤ y
    · have h' : (x : ℝ) ≤ y := by exact_mod_cast h
      rw [if_pos h, max_eq_right h']
    · have h' : (y : ℝ) ≤ x := by exact_mod_cast le_of_lt (not_le.1 h)
      rw [if_neg h, max_eq_left h']
  · by_cases h : x ≤ y
    · have h' : (x : ℝ) ≤ y := by exact_mod_cast h
      rw [if_pos h, min_eq_left h']
    · have h' : (y : ℝ) ≤ x := by exact_mod_cast le_of_lt (not_le.1 h)
      rw [if_neg h, min_eq_right h']

theorem itv_set_ordConnected (X : Itv) : Set.OrdConnected {x : ℝ | x ∈ X} :=
  ⟨fun _ hx _ hy _ hz => Itv.ordConnected hx hy hz.1 hz.2⟩

theorem Reg_preconnected (op : Op2) (X Y : Itv) : IsPreconnected (Reg op X Y) := by
  refine IsPreconnected.prod (itv_set_ordConnected X).isPreconnected ?_
  refine Set.OrdConnected.isPreconnected ⟨?_⟩
  intro a ha b hb c hc
  exact ⟨Itv.ordConnected ha.1 hb.1 hc.1 hc.2, fun hop => lt_of_lt_of_le (ha.2 hop) hc.1⟩

theorem evalR_continuousOn (op : Op2) (X Y : Itv) :
    ContinuousOn (fun p : ℝ × ℝ => op.evalR p.1 p.2) (Reg op X Y) := by
  cases op
  · exact (continuous_fst.add continuous_snd).continuousOn
  · exact (continuous_fst.sub continuous_snd).continuousOn
  · exact (continuous_fst.mul continuous_snd).continuousOn
  · refine ContinuousOn.div continuous_fst.continuousOn continuous_snd.continuousOn ?_
    intro p hp
    exact ne_of_gt (hp.2.2 rfl)
  · exact (continuous_fst.max continuous_snd).continuousOn
  · exact (continuous_fst.min continuous_snd).continuousOn

/-- **intermediate values on the region** -/
theorem reg_ivt {op : Op2} {X Y : Itv} {p1 p2 : ℝ × ℝ} (h1 : p1 ∈ Reg op X Y) (h2 : p2 ∈ Reg op X Y)
    {z : ℝ} (hz1 : op.evalR p1.1 p1.2 ≤ z) (hz2 : z ≤ op.evalR p2.1 p2.2) :
    ∃ p ∈ Reg op X Y, op.evalR p.1 p.2 = z := by
  have := (Reg_preconnected op X Y).intermediate_value h1 h2 (evalR_continuousOn op X Y) ⟨hz1, hz2⟩
  obtain ⟨p, hp, hpz⟩ := this
  exact ⟨p, hp, hpz⟩

/-! ### rays -/

theorem mem_add_of_hiInf {X : Itv} {x t : ℝ} (hx : x ∈ X) (h : hiInf X = true) (ht : 0 ≤ t) : x + t ∈ X := by
  cases X with
  | empty => exact absurd hx (Itv.not_mem_empty x)
  | mk a b =>
    cases b <;> simp [hiInf] at h
    refine ⟨le_trans hx.1 ?_, by simp⟩
    exact_mod_cast (le_add_of_nonneg_right ht : x ≤ x + t)

theorem mem_add_of_loInf {X : Itv} {x t : ℝ} (hx : x ∈ X) (h : loInf X = true) (ht : t ≤ 0) : x + t ∈ X := by
  cases X with
  | empty => exact absurd hx (Itv.not_mem_empty x)
  | mk a b =>
    cases a <;> simp [loInf] at h
    refine ⟨by simp, le_trans ?_ hx.2⟩
    exact_mod_cast (add_le_of_nonpos_right ht : x + t ≤ x)

/-- along `t ↦ f0 + t*s` with the right sign of `s`, every level is passed, for `t` of a given sign -/
theorem affine_reach (up pos : Bool) (f0 s z : ℝ) (hs : if up = pos then 0 < s else s < 0) :
    ∃ t : ℝ, (if pos then 0 ≤ t else t ≤ 0) ∧ (if up then z ≤ f0 + t * s else f0 + t * s ≤ z) := by
  cases up <;> cases pos
  · -- down, t ≤ 0, s > 0
    have hs' : 0 < s := by simpa using hs
    refine ⟨-(|f0 - z| / s), ?_, ?_⟩
    · simp only [Bool.false_eq_true, ↓reduceIte, Left.neg_nonpos_iff]; positivity
    · simp only [Bool.false_eq_true, ↓reduceIte]
      have : -(|f0 - z| / s) * s = -|f0 - z| := by field_simp
      rw [this]
      have := le_abs_self (f0 - z)
      linarith
  · -- down, t ≥ 0, s < 0
    have hs' : s < 0 := by simpa using hs
    have hns : 0 < -s := by linarith
    refine ⟨|f0 - z| / (-s), ?_, ?_⟩
    · simp only [↓reduceIte]; positivity
    · simp only [Bool.false_eq_true, ↓reduceIte]
      have : |f0 - z| / (-s) * s = -|f0 - z| := by
        rw [div_neg, neg_mul, div_mul_cancel₀ _ (ne_of_lt hs')]
      rw [this]
      have := le_abs_self (f0 - z)
      linarith
  · -- up, t ≤ 0, s < 0
    have hs' : s < 0 := by simpa using hs
    have hns : 0 < -s := by linarith
    refine ⟨-(|z - f0| / (-s)), ?_, ?_⟩
    · simp only [Bool.false_eq_true, ↓reduceIte, Left.neg_nonpos_iff]; positivity
    · simp only [↓reduceIte]
      have : -(|z - f0| / (-s)) * s = |z - f0| := by
        rw [div_neg, neg_neg, div_mul_cancel₀ _ (ne_of_lt hs')]
      rw [this]
      have := le_abs_self (z - f0)
      linarith
  · -- up, t ≥ 0, s > 0
    have hs' : 0 < s := by simpa using hs
    refine ⟨|z - f0| / s, ?_, ?_⟩
    · simp only [↓reduceIte]; positivity
    · simp only [↓reduceIte]
      have : |z - f0| / s * s = |z - f0| := by field_simp
      rw [this]
      have := le_abs_self (z - f0)
      linarith

theorem slopeOk_iff (up pos : Bool) (s : Rat) (h : slopeOk up pos s = true) :
    if up = pos then 0 < (s : ℝ) else (s : ℝ) < 0 := by
  unfold slopeOk at h
  by_cases hup : up = pos
  · simp only [hup, beq_self_eq_true, if_true, decide_eq_true_eq] at h
    simp only [hup, if_true]
    exact_mod_cast h
  · have : (up == pos) = false := by simpa using hup
    simp only [this, Bool.false_eq_true, if_false, decide_eq_true_eq] at h
    simp only [hup, if_false]
    exact_mod_cast h

theorem slopeX_affine {op : Op2} {x y s : Rat} (h : slopeX op x y = some s) (hy : op = .divp → (0 : ℝ) < y)
    (t : ℝ) : op.evalR ((x : ℝ) + t) (y : ℝ) = op.evalR (x : ℝ) (y : ℝ) + t * (s : ℝ) := by
  cases op <;> simp only [slopeX, Option.some.injEq, reduceCtorEq] at h <;> subst h <;>
    simp only [Op2.evalR] <;> push_cast
  · ring
  · ring
  · ring
  · have := ne_of_gt (hy rfl)
    field_simp

theorem slopeY_affine {op : Op2} {x y s : Rat} (h : slopeY op x y = some s)
    (t : ℝ) : op.evalR (x : ℝ) ((y : ℝ) + t) = op.evalR (x : ℝ) (y : ℝ) + t * (s : ℝ) := by
  cases op <;> simp only [slopeY, Option.some.injEq, reduceCtorEq] at h <;> subst h <;>
    simp only [Op2.evalR] <;> push_cast <;> ring

/-- the conclusion of the unboundedness criteria -/
def Reach (up : Bool) (op : Op2) (X Y : Itv) (z : ℝ) : Prop :=
  ∃ p ∈ Reg op X Y, if up then z ≤ op.evalR p.1 p.2 else op.evalR p.1 p.2 ≤ z

theorem rayOk_sound {up : Bool} {op : Op2} {X Y : Itv} {p : Rat × Rat}
    (h : rayOk up op X Y p = true) (z : ℝ) : Reach up op X Y z := by
  simp only [rayOk, Bool.and_eq_true, Bool.or_eq_true] at h
  obtain ⟨hin, hray⟩ := h
  have hmem := inS_mem hin
  have hy0 : op = .divp → (0 : ℝ) < (p.2 : ℝ) := hmem.2.2
  rcases hray with hx | hy
  · -- ray along x
    cases hsx : slopeX op p.1 p.2 with
    | none => simp [hsx] at hx
    | some s =>
      simp only [hsx, Bool.or_eq_true, Bool.and_eq_true] at hx
      rcases hx with ⟨hinf, hsl⟩ | ⟨hinf, hsl⟩
      · obtain ⟨t, ht, hval⟩ := affine_reach up true (op.evalR p.1 p.2) s z (slopeOk_iff up true s hsl)
        simp only [if_true] at ht
        refine ⟨(((p.1 : ℝ)) + t, (p.2 : ℝ)), ⟨mem_add_of_hiInf hmem.1 hinf ht, hmem.2⟩, ?_⟩
        simp only [slopeX_affine hsx hy0 t]
        exact hval
      · obtain ⟨t, ht, hval⟩ := affine_reach up false (op.evalR p.1 p.2) s z (slopeOk_iff up false s hsl)
        simp only [Bool.false_eq_true, if_false] at ht
        refine ⟨(((p.1 : ℝ)) + t, (p.2 : ℝ)), ⟨mem_add_of_loInf hmem.1 hinf ht, hmem.2⟩, ?_⟩
        simp only [slopeX_affine hsx hy0 t]
        exact hval
  · cases hsy : slopeY op p.1 p.2 with
    | none => simp [hsy] at hy
    | some s =>
      have hnd : op ≠ .divp := by
        intro e; subst e; simp [slopeY] at hsy
      simp only [hsy, Bool.or_eq_true, Bool.and_eq_true] at hy
      rcases hy with ⟨hinf, hsl⟩ | ⟨hinf, hsl⟩
      · obtain ⟨t, ht, hval⟩ := affine_reach up true (op.evalR p.1 p.2) s z (slopeOk_iff up true s hsl)
        simp only [if_true] at ht
        refine ⟨((p.1 : ℝ), ((p.2 : ℝ)) + t), ⟨hmem.1, mem_add_of_hiInf hmem.2.1 hinf ht, fun e => absurd e hnd⟩, ?_⟩
        simp only [slopeY_affine hsy t]
        exact hval
      · obtain ⟨t, ht, hval⟩ := affine_reach up false (op.evalR p.1 p.2) s z (slopeOk_iff up false s hsl)
        simp only [Bool.false_eq_true, if_false] at ht
        refine ⟨((p.1 : ℝ), ((p.2 : ℝ)) + t), ⟨hmem.1, mem_add_of_loInf hmem.2.1 hinf ht, fun e => absurd e hnd⟩, ?_⟩
        simp only [slopeY_affine hsy t]
        exact hval

theorem poleOk_sound {up : Bool} {X Y : Itv} {p : Rat × Rat} (h : poleOk up X Y p = true) (z : ℝ) :
    Reach up .divp X Y z := by
  simp only [poleOk, Bool.and_eq_true] at h
  obtain ⟨⟨hin, hc⟩, hsgn⟩ := h
  have hmem := inS_mem hin
  have hy0 : (0 : ℝ) < (p.2 : ℝ) := hmem.2.2 rfl
  cases Y with
  | empty => simp at hc
  | mk c d =>
    simp only at hc
    have hc0 : c.toE ≤ ((0 : ℝ) : EReal) := by simpa [z0] using (Ext.le_iff _ _).1 hc
    -- for 0 < y ≤ p.2 the point (p.1, y) is in the region
    have hreg : ∀ y : ℝ, 0 < y → y ≤ (p.2 : ℝ) → (((p.1 : ℝ)), y) ∈ Reg .divp X (.mk c d) := by
      intro y hy hyp
      refine ⟨hmem.1, ⟨le_trans hc0 (by exact_mod_cast le_of_lt hy), le_trans (by exact_mod_cast hyp) hmem.2.1.2⟩, fun _ => hy⟩
    cases up
    · -- numerator < 0 : x/y → -∞
      have hx : ((p.1 : ℝ)) < 0 := by
        have : p.1 < 0 := by simpa using hsgn
        exact_mod_cast this
      by_cases hz : (p.1 : ℝ) / (p.2 : ℝ) ≤ z
      · exact ⟨_, hreg _ hy0 (le_refl _), by simpa [Op2.evalR] using hz⟩
      · have hz' : z < (p.1 : ℝ) / (p.2 : ℝ) := not_le.1 hz
        have hzneg : z < 0 := lt_trans hz' (div_neg_of_neg_of_pos hx hy0)
        -- y = p.1 / z
        have hypos : 0 < (p.1 : ℝ) / z := div_pos_of_neg_of_neg hx hzneg
        have hyle : (p.1 : ℝ) / z ≤ (p.2 : ℝ) := by
          rw [div_le_iff_of_neg hzneg]
          have := (lt_div_iff₀ hy0).1 hz'
          linarith
        refine ⟨_, hreg _ hypos hyle, ?_⟩
        simp only [Bool.false_eq_true, ↓reduceIte, Op2.evalR]
        rw [div_div_eq_mul_div, mul_div_cancel_left₀ _ (ne_of_lt hx)]
    · have hx : (0 : ℝ) < (p.1 : ℝ) := by
        have : 0 < p.1 := by simpa using hsgn
        exact_mod_cast this
      by_cases hz : z ≤ (p.1 : ℝ) / (p.2 : ℝ)
      · exact ⟨_, hreg _ hy0 (le_refl _), by simpa [Op2.evalR] using hz⟩
      · have hz' : (p.1 : ℝ) / (p.2 : ℝ) < z := not_le.1 hz
        have hzpos : 0 < z := lt_trans (div_pos hx hy0) hz'
        have hypos : 0 < (p.1 : ℝ) / z := div_pos hx hzpos
        have hyle : (p.1 : ℝ) / z ≤ (p.2 : ℝ) := by
          rw [div_le_iff₀ hzpos]
          have := (div_lt_iff₀ hy0).1 hz'
          linarith
        refine ⟨_, hreg _ hypos hyle, ?_⟩
        simp only [↓reduceIte, Op2.evalR]
        rw [div_div_eq_mul_div, mul_div_cancel_left₀ _ (ne_of_gt hx)]

theorem hiInf_top {X : Itv} (h : hiInf X = true) : ∃ a, X = .mk a .pinf := by
  cases X with
  | empty => simp [hiInf] at h
  | mk a b => cases b <;> simp [hiInf] at h; exact ⟨a, rfl⟩

theorem loInf_bot {X : Itv} (h : loInf X = true) : ∃ b, X = .mk .ninf b := by
  cases X with
  | empty => simp [loInf] at h
  | mk a b => cases a <;> simp [loInf] at h; exact ⟨b, rfl⟩

/-- **the unboundedness criterion is sound** -/
theorem unb_sound {up : Bool} {op : Op2} {X Y : Itv} (h : unb up op X Y = true) (z : ℝ) :
    Reach up op X Y z := by
  cases op <;> simp only [unb, List.any_eq_true] at h <;> obtain ⟨p, _, hp⟩ := h
  · exact rayOk_sound hp z
  · exact rayOk_sound hp z
  · exact rayOk_sound hp z
  · simp only [Bool.or_eq_true] at hp
    rcases hp with h1 | h1
    · exact rayOk_sound h1 z
    · exact poleOk_sound h1 z
  · -- max
    simp only [Bool.and_eq_true] at hp
    obtain ⟨hin, hc⟩ := hp
    have hmem := inS_mem hin
    cases up
    · simp only [Bool.false_eq_true, ↓reduceIte, Bool.and_eq_true] at hc
      -- both lower bounds infinite: (min x0 z, min y0 z)
      refine ⟨(Min.min (p.1 : ℝ) z, Min.min (p.2 : ℝ) z), ⟨?_, ?_, fun e => by cases e⟩, ?_⟩
      · have := mem_add_of_loInf hmem.1 hc.1 (t := Min.min (p.1 : ℝ) z - (p.1 : ℝ)) (by simp)
        simpa using this
      · have := mem_add_of_loInf hmem.2.1 hc.2 (t := Min.min (p.2 : ℝ) z - (p.2 : ℝ)) (by simp)
        simpa using this
      · simp only [Bool.false_eq_true, ↓reduceIte, Op2.evalR]
        exact max_le (min_le_right _ _) (min_le_right _ _)
    · simp only [↓reduceIte, Bool.or_eq_true] at hc
      rcases hc with hc | hc
      · refine ⟨(Max.max (p.1 : ℝ) z, (p.2 : ℝ)), ⟨?_, hmem.2.1, fun e => by cases e⟩, ?_⟩
        · have := mem_add_of_hiInf hmem.1 hc (t := Max.max (p.1 : ℝ) z - (p.1 : ℝ)) (by simp)
          simpa using this
        · simp only [↓reduceIte, Op2.evalR]
          exact le_trans (le_max_right _ _) (le_max_left _ _)
      · refine ⟨((p.1 : ℝ), Max.max (p.2 : ℝ) z), ⟨hmem.1, ?_, fun e => by cases e⟩, ?_⟩
        · have := mem_add_of_hiInf hmem.2.1 hc (t := Max.max (p.2 : ℝ) z - (p.2 : ℝ)) (by simp)
          simpa using this
        · simp only [↓reduceIte, Op2.evalR]
          exact le_trans (le_max_right _ _) (le_max_right _ _)
  · -- min
    simp only [Bool.and_eq_true] at hp
    obtain ⟨hin, hc⟩ := hp
    have hmem := inS_mem hin
    cases up
    · simp only [Bool.false_eq_true, ↓reduceIte, Bool.or_eq_true] at hc
      rcases hc with hc | hc
      · refine ⟨(Min.min (p.1 : ℝ) z, (p.2 : ℝ)), ⟨?_, hmem.2.1, fun e => by cases e⟩, ?_⟩
        · have := mem_add_of_loInf hmem.1 hc (t := Min.min (p.1 : ℝ) z - (p.1 : ℝ)) (by simp)
          simpa using this
        · simp only [Bool.false_eq_true, ↓reduceIte, Op2.evalR]
          exact le_trans (min_le_left _ _) (min_le_right _ _)
      · refine ⟨((p.1 : ℝ), Min.min (p.2 : ℝ) z), ⟨hmem.1, ?_, fun e => by cases e⟩, ?_⟩
        · have := mem_add_of_loInf hmem.2.1 hc (t := Min.min (p.2 : ℝ) z - (p.2 : ℝ)) (by simp)
          simpa using this
        · simp only [Bool.false_eq_true, ↓reduceIte, Op2.evalR]
          exact le_trans (min_le_right _ _) (min_le_right _ _)
    · simp only [↓reduceIte, Bool.and_eq_true] at hc
      refine ⟨(Max.max (p.1 : ℝ) z, Max.max (p.2 : ℝ) z), ⟨?_, ?_, fun e => by cases e⟩, ?_⟩
      · have := mem_add_of_hiInf hmem.1 hc.1 (t := Max.max (p.1 : ℝ) z - (p.1 : ℝ)) (by simp)
        simpa using this
      · have := mem_add_of_hiInf hmem.2.1 hc.2 (t := Max.max (p.2 : ℝ) z - (p.2 : ℝ)) (by simp)
        simpa using this
      · simp only [↓reduceIte, Op2.evalR]
        exact le_min (le_max_right _ _) (le_max_right _ _)

/-- one side of `subRange` -/
theorem sideOk_sound {up : Bool} {op : Op2} {X Y : Itv} {t : Ext} (h : sideOk up op X Y t = true) {z : ℝ}
    (hz : if up then (z : EReal) ≤ t.toE else t.toE ≤ (z : EReal)) : Reach up op X Y z := by
  cases t with
  | ninf =>
    simp only [sideOk, Bool.and_eq_true, Bool.not_eq_true'] at h
    obtain ⟨hup, hu⟩ := h
    subst hup
    exact unb_sound hu z
  | pinf =>
    simp only [sideOk, Bool.and_eq_true] at h
    obtain ⟨hup, hu⟩ := h
    subst hup
    exact unb_sound hu z
  | fin q =>
    simp only [sideOk, Bool.or_eq_true, List.any_eq_true, Bool.and_eq_true] at h
    rcases h with hu | ⟨p, _, hin, hcmp⟩
    · exact unb_sound hu z
    · refine ⟨(((p.1 : ℝ)), ((p.2 : ℝ))), inS_mem hin, ?_⟩
      cases up
      · simp only [Bool.false_eq_true, ↓reduceIte, decide_eq_true_eq] at hcmp hz ⊢
        have h1 : ((op.evalQ p.1 p.2 : Rat) : ℝ) ≤ (q : ℝ) := by exact_mod_cast hcmp
        rw [evalQ_cast] at h1
        have h2 : (q : ℝ) ≤ z := by simpa using hz
        exact le_trans h1 h2
      · simp only [↓reduceIte, decide_eq_true_eq] at hcmp hz ⊢
        have h1 : (q : ℝ) ≤ ((op.evalQ p.1 p.2 : Rat) : ℝ) := by exact_mod_cast hcmp
        rw [evalQ_cast] at h1
        have h2 : z ≤ (q : ℝ) := by simpa using hz
        exact le_trans h2 h1

/-- **`subRange` is sound**: every real of `Z` is a value of the operator on the region -/
theorem subRange_sound {op : Op2} {X Y Z : Itv} (h : subRange op X Y Z = true) {z : ℝ} (hz : z ∈ Z) :
    ∃ p ∈ Reg op X Y, op.evalR p.1 p.2 = z := by
  cases Z with
  | empty => exact absurd hz (Itv.not_mem_empty z)
  | mk l u =>
    simp only [subRange, Bool.and_eq_true] at h
    obtain ⟨p1, hp1, h1⟩ := sideOk_sound h.1 (z := z) (by simpa using hz.1)
    obtain ⟨p2, hp2, h2⟩ := sideOk_sound h.2 (z := z) (by simpa using hz.2)
    simp only [Bool.false_eq_true, ↓reduceIte] at h1 h2
    exact reg_ivt hp1 hp2 h1 h2

/-! ### division, square, unary minus; the operators by name -/

theorem Itv.neg_neg' (X : Itv) : Itv.neg (Itv.neg X) = X := by
  cases X with
  | empty => rfl
  | mk a b => cases a <;> cases b <;> simp [Itv.neg, Ext.neg]

theorem mem_of_neg_mem_neg {X : Itv} {x : ℝ} (h : x ∈ Itv.neg X) : -x ∈ X := by
  have := Itv.neg_encl h
  rwa [Itv.neg_neg'] at this

/-- one convex piece (`y > 0` or `y < 0`) of the division -/
theorem divPiece_sound {X Y W : Itv}
    (h : (subRange .divp X Y W || subRange .divp (Itv.neg X) (Itv.neg Y) W) = true) {z : ℝ} (hz : z ∈ W) :
    ∃ x y : ℝ, x ∈ X ∧ y ∈ Y ∧ y ≠ 0 ∧ x / y = z := by
  simp only [Bool.or_eq_true] at h
  rcases h with h | h
  · obtain ⟨p, hp, hv⟩ := subRange_sound h hz
    exact ⟨p.1, p.2, hp.1, hp.2.1, ne_of_gt (hp.2.2 rfl), hv⟩
  · obtain ⟨p, hp, hv⟩ := subRange_sound h hz
    refine ⟨-p.1, -p.2, mem_of_neg_mem_neg hp.1, mem_of_neg_mem_neg hp.2.1, ?_, ?_⟩
    · have := hp.2.2 rfl
      exact neg_ne_zero.2 (ne_of_gt this)
    · rw [neg_div_neg_eq]; exact hv

/-- **division**: every real of an accepted `Z` is a quotient `x / y` with `x ∈ X`, `y ∈ Y`, `y ≠ 0` -/
theorem subRangeDiv_sound {X Y Z : Itv} (h : subRangeDiv X Y Z = true) {z : ℝ} (hz : z ∈ Z) :
    ∃ x y : ℝ, x ∈ X ∧ y ∈ Y ∧ y ≠ 0 ∧ x / y = z := by
  simp only [subRangeDiv, Bool.or_eq_true, Bool.and_eq_true] at h
  rcases h with h | ⟨hn, hp⟩
  · exact divPiece_sound (by simpa using h) hz
  · by_cases h0 : z ≤ 0
    · refine divPiece_sound (by simpa using hn) (z := z) (Itv.mem_inter.2 ⟨hz, ?_⟩)
      exact ⟨by simp [nonpos], by simpa [nonpos] using h0⟩
    · refine divPiece_sound (by simpa using hp) (z := z) (Itv.mem_inter.2 ⟨hz, ?_⟩)
      have : 0 ≤ z := le_of_lt (not_le.1 h0)
      exact ⟨by simpa [nonneg] using this, by simp [nonneg]⟩

theorem unbSqr_sound {X : Itv} (h : unbSqr X = true) (z : ℝ) : ∃ x : ℝ, x ∈ X ∧ z ≤ x * x := by
  simp only [unbSqr, List.any_eq_true, Bool.and_eq_true, Bool.or_eq_true] at h
  obtain ⟨q, _, hq, hinf⟩ := h
  have hm := memQ_mem hq
  rcases hinf with hi | lo
  · refine ⟨(q : ℝ) + (|(q : ℝ)| + |z| + 1), mem_add_of_hiInf hm hi (by positivity), ?_⟩
    have h1 : 1 ≤ (q : ℝ) + (|(q : ℝ)| + |z| + 1) := by
      have := neg_abs_le (q : ℝ); have := abs_nonneg z; linarith
    have h2 : |z| ≤ (q : ℝ) + (|(q : ℝ)| + |z| + 1) := by
      have := neg_abs_le (q : ℝ); linarith
    calc z ≤ |z| := le_abs_self z
      _ ≤ (q : ℝ) + (|(q : ℝ)| + |z| + 1) := h2
      _ = ((q : ℝ) + (|(q : ℝ)| + |z| + 1)) * 1 := (mul_one _).symm
      _ ≤ _ := mul_le_mul_of_nonneg_left h1 (by linarith [abs_nonneg z])
  · refine ⟨(q : ℝ) + -(|(q : ℝ)| + |z| + 1), mem_add_of_loInf hm lo (by
      simp only [Left.neg_nonpos_iff]; positivity), ?_⟩
    have h1 : (q : ℝ) + -(|(q : ℝ)| + |z| + 1) ≤ -1 := by
      have := le_abs_self (q : ℝ); have := abs_nonneg z; linarith
    have h2 : (q : ℝ) + -(|(q : ℝ)| + |z| + 1) ≤ -|z| := by
      have := le_abs_self (q : ℝ); linarith
    have hz := le_abs_self z
    have hnz := abs_nonneg z
    nlinarith

/-- **square**: every real of an accepted `Z` is a square `x * x` with `x ∈ X` -/
theorem subRangeSqr_sound {X Z : Itv} (h : subRangeSqr X Z = true) {z : ℝ} (hz : z ∈ Z) :
    ∃ x : ℝ, x ∈ X ∧ x * x = z := by
  cases Z with
  | empty => exact absurd hz (Itv.not_mem_empty z)
  | mk l u =>
    simp only [subRangeSqr, Bool.and_eq_true] at h
    obtain ⟨hl, hu⟩ := h
    -- a point below
    have hlo : ∃ x1 : ℝ, x1 ∈ X ∧ x1 * x1 ≤ z := by
      cases l with
      | ninf => simp at hl
      | pinf => simp at hl
      | fin q =>
        simp only [List.any_eq_true, Bool.and_eq_true, decide_eq_true_eq] at hl
        obtain ⟨x, _, hx, hc⟩ := hl
        refine ⟨(x : ℝ), memQ_mem hx, ?_⟩
        have h1 : ((x * x : Rat) : ℝ) ≤ (q : ℝ) := by exact_mod_cast hc
        have h2 : (q : ℝ) ≤ z := by simpa using hz.1
        push_cast at h1
        linarith
    have hhi : ∃ x2 : ℝ, x2 ∈ X ∧ z ≤ x2 * x2 := by
      cases u with
      | ninf => simp at hu
      | pinf => exact unbSqr_sound (by simpa using hu) z
      | fin q =>
        simp only [Bool.or_eq_true, List.any_eq_true, Bool.and_eq_true, decide_eq_true_eq] at hu
        rcases hu with hu | ⟨x, _, hx, hc⟩
        · exact unbSqr_sound hu z
        · refine ⟨(x : ℝ), memQ_mem hx, ?_⟩
          have h1 : (q : ℝ) ≤ ((x * x : Rat) : ℝ) := by exact_mod_cast hc
          have h2 : z ≤ (q : ℝ) := by simpa using hz.2
          push_cast at h1
          linarith
    obtain ⟨x1, hx1, h1⟩ := hlo
    obtain ⟨x2, hx2, h2⟩ := hhi
    have hpre : IsPreconnected {x : ℝ | x ∈ X} := (itv_set_ordConnected X).isPreconnected
    have hcont : ContinuousOn (fun x : ℝ => x * x) {x : ℝ | x ∈ X} := (continuous_id.mul continuous_id).continuousOn
    obtain ⟨x, hx, hxz⟩ := hpre.intermediate_value hx1 hx2 hcont ⟨h1, h2⟩
    exact ⟨x, hx, hxz⟩

/-- real meaning of the forward inner operators by name -/
noncomputable def fwd2R : String → ℝ → ℝ → Option ℝ
  | "iadd", x, y => some (x + y)
  | "isub", x, y => some (x - y)
  | "imul", x, y => some (x * y)
  | "idiv", x, y => if y = 0 then none else some (x / y)
  | "imax", x, y => some (Max.max x y)
  | "imin", x, y => some (Min.min x y)
  | _, _, _ => none

/-- **Forward inner operators (binary)**: an accepted answer is a subset of the exact range. -/
theorem innerFwdOk_sound {op : String} {X Y Z : Itv} (h : innerFwdOk op X Y Z = some true) {z : ℝ} (hz : z ∈ Z) :
    ∃ x y : ℝ, x ∈ X ∧ y ∈ Y ∧ fwd2R op x y = some z := by
  unfold innerFwdOk at h
  split at h
  · simp only [Option.some.injEq] at h
    obtain ⟨p, hp, hv⟩ := subRange_sound h hz
    exact ⟨p.1, p.2, hp.1, hp.2.1, by simpa [fwd2R, Op2.evalR] using hv⟩
  · simp only [Option.some.injEq] at h
    obtain ⟨p, hp, hv⟩ := subRange_sound h hz
    exact ⟨p.1, p.2, hp.1, hp.2.1, by simpa [fwd2R, Op2.evalR] using hv⟩
  · simp only [Option.some.injEq] at h
    obtain ⟨p, hp, hv⟩ := subRange_sound h hz
    exact ⟨p.1, p.2, hp.1, hp.2.1, by simpa [fwd2R, Op2.evalR] using hv⟩
  · simp only [Option.some.injEq] at h
    obtain ⟨x, y, hx, hy, hy0, hv⟩ := subRangeDiv_sound h hz
    exact ⟨x, y, hx, hy, by simp [fwd2R, hy0, hv]⟩
  · simp only [Option.some.injEq] at h
    obtain ⟨p, hp, hv⟩ := subRange_sound h hz
    exact ⟨p.1, p.2, hp.1, hp.2.1, by simpa [fwd2R, Op2.evalR] using hv⟩
  · simp only [Option.some.injEq] at h
    obtain ⟨p, hp, hv⟩ := subRange_sound h hz
    exact ⟨p.1, p.2, hp.1, hp.2.1, by simpa [fwd2R, Op2.evalR] using hv⟩
  · exact absurd h (by simp)

noncomputable def fwd1R : String → ℝ → Option ℝ
  | "isqr", x => some (x * x)
  | "iminus", x => some (-x)
  | _, _ => none

/-- **Forward inner operators (unary)** -/
theorem innerFwd1Ok_sound {op : String} {X Z : Itv} (h : innerFwd1Ok op X Z = some true) {z : ℝ} (hz : z ∈ Z) :
    ∃ x : ℝ, x ∈ X ∧ fwd1R op x = some z := by
  unfold innerFwd1Ok at h
  split at h
  · simp only [Option.some.injEq] at h
    obtain ⟨x, hx, hv⟩ := subRangeSqr_sound h hz
    exact ⟨x, hx, by simp [fwd1R, hv]⟩
  · simp only [Option.some.injEq] at h
    have := mem_of_neg_mem_neg (Itv.mem_of_subset h hz)
    exact ⟨-z, this, by simp [fwd1R]⟩
  · exact absurd h (by simp)

end Inner
end Ibex
