/-
  Well-formedness of evaluated values: every matrix value produced by the generic evaluator has
  exactly `r * c` entries (for every algebra, environment, DAG and table of applied functions).
-/
import IbexProofs.EvalCert

namespace Ibex
namespace Eval
variable {α : Type}

/-! ### list lemmas -/

theorem wf_mapM_length {β γ : Type} {f : β → Option γ} :
    ∀ {l : List β} {o : List γ}, l.mapM f = some o → o.length = l.length := by
  intro l
  induction l with
  | nil => intro o h; simp at h; subst h; rfl
  | cons a l ih =>
    intro o h
    simp only [List.mapM_cons, bind, pure, Option.bind_eq_some_iff] at h
    obtain ⟨x, _, xs, hxs, h⟩ := h
    simp only [Option.some.injEq] at h
    subst h
    simp [ih hxs]

theorem wf_mapM_mem {β γ : Type} {f : β → Option γ} :
    ∀ {l : List β} {o : List γ}, l.mapM f = some o → ∀ x ∈ o, ∃ i ∈ l, f i = some x := by
  intro l
  induction l with
  | nil => intro o h; simp at h; subst h; simp
  | cons a l ih =>
    intro o h
    simp only [List.mapM_cons, bind, pure, Option.bind_eq_some_iff] at h
    obtain ⟨y, hy, ys, hys, h⟩ := h
    simp only [Option.some.injEq] at h
    subst h
    intro x hx
    rcases List.mem_cons.1 hx with rfl | hx
    · exact ⟨a, by simp, hy⟩
    · obtain ⟨i, hi, hfi⟩ := ih hys x hx
      exact ⟨i, by simp [hi], hfi⟩

theorem wf_filterMap_length {ι β : Type} {f : ι → Option β} :
    ∀ (l : List ι), (∀ i ∈ l, ∃ b, f i = some b) → (l.filterMap f).length = l.length := by
  intro l
  induction l with
  | nil => intro _; rfl
  | cons a l ih =>
    intro h
    obtain ⟨b, hb⟩ := h a (by simp)
    rw [List.filterMap_cons_some hb]
    simp [ih (fun i hi => h i (by simp [hi]))]

theorem wf_flatMap_length {ι β : Type} {f : ι → List β} {k : Nat} :
    ∀ (l : List ι), (∀ i ∈ l, (f i).length = k) → (l.flatMap f).length = l.length * k := by
  intro l
  induction l with
  | nil => intro _; simp
  | cons a l ih =>
    intro h
    rw [List.flatMap_cons, List.length_append, h a (by simp), ih (fun i hi => h i (by simp [hi])),
      List.length_cons, Nat.succ_mul, Nat.add_comm]

theorem wf_foldl_add (l : List Nat) : ∀ a : Nat, l.foldl (· + ·) a = a + l.sum := by
  induction l with
  | nil => intro a; simp
  | cons b l ih => intro a; simp only [List.foldl_cons, List.sum_cons, ih]; omega

theorem wf_idx_lt {r c i j : Nat} (hi : i < r) (hj : j < c) : i * c + j < r * c := by
  have h1 : (i + 1) * c ≤ r * c := Nat.mul_le_mul_right c hi
  rw [Nat.succ_mul] at h1
  omega

/-! ### matrix operations -/

theorem wf_row_length {m : Mat α} (hm : m.d.length = m.r * m.c) {i : Nat} (hi : i < m.r) :
    (m.row i).length = m.c := by
  unfold Mat.row
  rw [List.length_take, List.length_drop, hm]
  have h1 : (i + 1) * m.c ≤ m.r * m.c := Nat.mul_le_mul_right m.c hi
  rw [Nat.succ_mul] at h1
  omega

theorem wf_transpose {m : Mat α} (hm : m.d.length = m.r * m.c) :
    m.transpose.d.length = m.transpose.r * m.transpose.c := by
  unfold Mat.transpose
  simp only
  rw [wf_flatMap_length (k := m.r), List.length_range]
  intro j hj
  rw [wf_filterMap_length, List.length_range]
  intro i hi
  have hi' : i < m.r := List.mem_range.1 hi
  have hj' : j < m.c := List.mem_range.1 hj
  have hlt : i * m.c + j < m.d.length := by rw [hm]; exact wf_idx_lt hi' hj'
  exact ⟨m.d[i * m.c + j], List.getElem?_eq_getElem hlt⟩

theorem wf_mapM? {β : Type} {f : α → Option β} {m : Mat α} {x : Mat β}
    (hm : m.d.length = m.r * m.c) (hx : m.mapM? f = some x) : x.d.length = x.r * x.c := by
  unfold Mat.mapM? at hx
  simp only [Option.map_eq_some_iff] at hx
  obtain ⟨d, hd, rfl⟩ := hx
  simp only
  rw [wf_mapM_length hd, hm]

theorem wf_zip? {β : Type} {f : α → α → Option β} {a b : Mat α} {x : Mat β}
    (ha : a.d.length = a.r * a.c) (hb : b.d.length = b.r * b.c) (hx : Mat.zip? f a b = some x) :
    x.d.length = x.r * x.c := by
  unfold Mat.zip? at hx
  split at hx
  · rename_i hc
    simp only [Bool.and_eq_true, beq_iff_eq] at hc
    simp only [Option.map_eq_some_iff] at hx
    obtain ⟨d, hd, rfl⟩ := hx
    simp only
    rw [wf_mapM_length hd, List.length_zip, ha, hb, hc.1, hc.2, Nat.min_self]
  · exact absurd hx (by simp)

theorem wf_sub? {m x : Mat α} (hm : m.d.length = m.r * m.c) {r1 r2 c1 c2 : Nat}
    (hx : m.sub? r1 r2 c1 c2 = some x) : x.d.length = x.r * x.c := by
  unfold Mat.sub? at hx
  split at hx
  · rename_i hc
    simp only [Bool.and_eq_true, decide_eq_true_eq] at hc
    obtain ⟨⟨⟨h1, h2⟩, h3⟩, h4⟩ := hc
    simp only [Option.some.injEq] at hx
    subst hx
    simp only
    rw [wf_flatMap_length (k := c2 - c1 + 1), List.length_range]
    intro i hi
    have hi' : i < r2 - r1 + 1 := List.mem_range.1 hi
    rw [List.length_take, List.length_drop, wf_row_length hm (by omega)]
    omega
  · exact absurd hx (by simp)

theorem wf_matMul {A : Alg α} {a b x : Mat α} (hx : matMul A a b = some x) :
    x.d.length = x.r * x.c := by
  unfold matMul at hx
  split at hx
  · exact absurd hx (by simp)
  · simp only [bind, pure, Option.bind_eq_some_iff, Option.some.injEq] at hx
    obtain ⟨d, hd, rfl⟩ := hx
    simp only
    rw [wf_mapM_length hd, wf_flatMap_length (k := b.c), List.length_range]
    intro i _
    simp

theorem wf_mulVal {A : Alg α} {a b x : Mat α} (hb : b.d.length = b.r * b.c)
    (hx : mulVal A a b = some x) : x.d.length = x.r * x.c := by
  unfold mulVal at hx
  split at hx
  · split at hx
    · exact wf_mapM? hb hx
    · exact absurd hx (by simp)
  · exact wf_matMul hx

theorem wf_binVal {A : Alg α} (op : String) {a b x : Mat α} (ha : a.d.length = a.r * a.c)
    (hb : b.d.length = b.r * b.c) : binVal A op a b = some x → x.d.length = x.r * x.c := by
  unfold binVal
  split
  · exact wf_zip? ha hb
  · exact wf_zip? ha hb
  · exact wf_mulVal hb
  · split
    · exact wf_zip? ha hb
    · intro hx; exact absurd hx (by simp)
  · split
    · exact wf_zip? ha hb
    · intro hx; exact absurd hx (by simp)
  · split
    · exact wf_zip? ha hb
    · intro hx; exact absurd hx (by simp)
  · intro hx; exact absurd hx (by simp)

theorem wf_unVal {A : Alg α} (op : String) {a x : Mat α} (ha : a.d.length = a.r * a.c) :
    unVal A op a = some x → x.d.length = x.r * x.c := by
  unfold unVal
  split
  · intro hx
    simp only [Option.some.injEq] at hx
    subst hx
    exact wf_transpose ha
  · intro hx
    simp only [Option.bind_eq_some_iff] at hx
    obtain ⟨f, _, hx⟩ := hx
    exact wf_mapM? ha hx
  · split
    · intro hx
      simp only [Option.bind_eq_some_iff] at hx
      obtain ⟨f, _, hx⟩ := hx
      exact wf_mapM? ha hx
    · intro hx; exact absurd hx (by simp)

theorem wf_rows_length {k : Nat} {i : Nat} : ∀ (parts : List (Mat α)),
    (∀ q ∈ parts, q.d.length = q.r * q.c ∧ q.r = k) → i < k →
    (parts.flatMap fun q => q.row i).length = (parts.map (·.c)).sum := by
  intro parts
  induction parts with
  | nil => intro _ _; simp
  | cons q qs ih =>
    intro h hi
    obtain ⟨hq, hqr⟩ := h q (by simp)
    rw [List.flatMap_cons, List.length_append, wf_row_length hq (by omega),
      ih (fun q' hq' => h q' (by simp [hq'])) hi, List.map_cons, List.sum_cons]

theorem wf_cols_length {k : Nat} : ∀ (parts : List (Mat α)),
    (∀ q ∈ parts, q.d.length = q.r * q.c ∧ q.c = k) →
    (parts.flatMap (·.d)).length = (parts.map (·.r)).sum * k := by
  intro parts
  induction parts with
  | nil => intro _; simp
  | cons q qs ih =>
    intro h
    obtain ⟨hq, hqc⟩ := h q (by simp)
    rw [List.flatMap_cons, List.length_append, hq, hqc,
      ih (fun q' hq' => h q' (by simp [hq'])), List.map_cons, List.sum_cons, Nat.add_mul]

theorem wf_vecVal {row : Bool} {parts : List (Mat α)} {x : Mat α}
    (hp : ∀ q ∈ parts, q.d.length = q.r * q.c) (hx : vecVal row parts = some x) :
    x.d.length = x.r * x.c := by
  cases parts with
  | nil => exact absurd hx (by simp [vecVal])
  | cons p ps =>
    unfold vecVal at hx
    simp only at hx
    split at hx
    · split at hx
      · rename_i hall
        rw [List.all_eq_true] at hall
        simp only [Option.some.injEq] at hx
        subst hx
        simp only
        rw [wf_foldl_add, Nat.zero_add,
          wf_flatMap_length (k := ((p :: ps).map (·.c)).sum), List.length_range]
        intro i hi
        exact wf_rows_length (k := p.r) (p :: ps)
          (fun q hq => ⟨hp q hq, by simpa using hall q hq⟩) (List.mem_range.1 hi)
      · exact absurd hx (by simp)
    · split at hx
      · rename_i hall
        rw [List.all_eq_true] at hall
        simp only [Option.some.injEq] at hx
        subst hx
        simp only
        rw [wf_foldl_add, Nat.zero_add]
        exact wf_cols_length (k := p.c) (p :: ps)
          (fun q hq => ⟨hp q hq, by simpa using hall q hq⟩)
      · exact absurd hx (by simp)

/-! ### the evaluator -/

/-- all the values computed so far are well formed -/
def WFv (vals : Array (Mat α)) : Prop :=
  ∀ (j : Nat) (v : Mat α), vals[j]? = some v → v.d.length = v.r * v.c

/-- the applied functions return well-formed values -/
def CallWF (call : Nat → List (Mat α) → Option (Mat α)) : Prop :=
  ∀ (f : Nat) (as : List (Mat α)) (v : Mat α), call f as = some v → v.d.length = v.r * v.c

theorem nodeVal_wf {A : Alg α} {env : List α} {call : Nat → List (Mat α) → Option (Mat α)}
    {vals : Array (Mat α)} (hv : WFv vals) (hc : CallWF call) (n : Node) {x : Mat α} :
    nodeVal A env call vals n = some x → x.d.length = x.r * x.c := by
  obtain ⟨k, r, c⟩ := n
  cases k with
  | var off =>
    intro hx
    simp only [nodeVal] at hx
    split at hx
    · rename_i hl
      simp only [Option.some.injEq] at hx
      subst hx
      simpa using hl
    · exact absurd hx (by simp)
  | const vs =>
    intro hx
    simp only [nodeVal, Option.bind_eq_some_iff] at hx
    obtain ⟨d, _, hx⟩ := hx
    split at hx
    · rename_i hl
      simp only [Option.some.injEq] at hx
      subst hx
      simpa using hl
    · exact absurd hx (by simp)
  | un op a =>
    intro hx
    simp only [nodeVal, Option.bind_eq_some_iff] at hx
    obtain ⟨va, hva, hx⟩ := hx
    exact wf_unVal op (hv _ _ hva) hx
  | bin op a b =>
    intro hx
    simp only [nodeVal, bind, Option.bind_eq_some_iff] at hx
    obtain ⟨va, hva, vb, hvb, hx⟩ := hx
    exact wf_binVal op (hv _ _ hva) (hv _ _ hvb) hx
  | pow a k =>
    intro hx
    simp only [nodeVal, bind, Option.bind_eq_some_iff] at hx
    obtain ⟨va, hva, hx⟩ := hx
    split at hx
    · exact wf_mapM? (hv _ _ hva) hx
    · exact absurd hx (by simp)
  | idx a r1 r2 c1 c2 =>
    intro hx
    simp only [nodeVal, bind, Option.bind_eq_some_iff] at hx
    obtain ⟨va, hva, hx⟩ := hx
    exact wf_sub? (hv _ _ hva) hx
  | vec row as =>
    intro hx
    simp only [nodeVal, bind, Option.bind_eq_some_iff] at hx
    obtain ⟨ms, hms, hx⟩ := hx
    refine wf_vecVal (fun q hq => ?_) hx
    obtain ⟨i, _, hi⟩ := wf_mapM_mem hms q hq
    exact hv _ _ hi
  | chi a b c' =>
    intro hx
    simp only [nodeVal, bind, Option.bind_eq_some_iff] at hx
    obtain ⟨va, _, vb, _, vc, _, hx⟩ := hx
    split at hx
    · simp only [Option.map_eq_some_iff] at hx
      obtain ⟨s, _, rfl⟩ := hx
      rfl
    · exact absurd hx (by simp)
  | apply f as =>
    intro hx
    simp only [nodeVal, bind, Option.bind_eq_some_iff] at hx
    obtain ⟨ms, _, hx⟩ := hx
    exact hc _ _ _ hx

theorem fold_wf {A : Alg α} {env : List α} {call : Nat → List (Mat α) → Option (Mat α)}
    (hc : CallWF call) :
    ∀ (ns : List Node) {v r : Array (Mat α)}, WFv v → ns.foldlM (step A env call) v = some r →
      WFv r := by
  intro ns
  induction ns with
  | nil => intro v r hv h; simp at h; subst h; exact hv
  | cons n ns ih =>
    intro v r hv h
    simp only [List.foldlM_cons, bind, Option.bind_eq_some_iff] at h
    obtain ⟨w, hw, h⟩ := h
    obtain ⟨x, hx, _, _, rfl⟩ := step_eq_some hw
    refine ih ?_ h
    intro j y hj
    rw [Array.getElem?_push] at hj
    split at hj
    · simp only [Option.some.injEq] at hj
      subst hj
      exact nodeVal_wf hv hc n hx
    · exact hv j y hj

theorem root_wf_gen {A : Alg α} {env : List α} {call : Nat → List (Mat α) → Option (Mat α)}
    (hc : CallWF call) {dag : Dag} {v : Mat α} (h : root A env call dag = some v) :
    v.d.length = v.r * v.c := by
  unfold root at h
  simp only [Option.bind_eq_some_iff] at h
  obtain ⟨r, hr, h⟩ := h
  rw [run_eq] at hr
  rw [Array.back?_eq_getElem?] at h
  exact fold_wf hc _ (fun j v hj => by simp at hj) hr _ _ h

theorem buildCalls_wf (A : Alg α) (funs : List Dag) : CallWF (buildCalls A funs) := by
  unfold buildCalls
  generalize funs.zipIdx = l
  have h0 : CallWF (fun (_ : Nat) (_ : List (Mat α)) => (none : Option (Mat α))) := by
    intro f as v hx
    exact absurd hx (by simp)
  revert h0
  generalize (fun (_ : Nat) (_ : List (Mat α)) => (none : Option (Mat α))) = t
  induction l generalizing t with
  | nil => intro h0; exact h0
  | cons p l ih =>
    intro h0
    simp only [List.foldl_cons]
    apply ih
    intro f as v hx
    simp only at hx
    split at hx
    · exact root_wf_gen h0 hx
    · exact h0 _ _ _ hx

/-- **Values are well formed.** -/
theorem root_wf (A : Alg α) (env : List α) (funs : List Dag) (dag : Dag) {v : Mat α}
    (h : root A env (buildCalls A funs) dag = some v) : v.d.length = v.r * v.c :=
  root_wf_gen (buildCalls_wf A funs) h

end Eval
end Ibex
