/-
  Abstract contractor theory (used by C04 and C19): a contractor is a function on boxes; it is
  *sound* for a set S when it keeps every point of S that was in the input box, and *contracting*
  when its result is inside the input.  Any schedule (propagation loop) of sound contractors is
  sound; shaving (hull of the contractions of a family of slices covering the box) is sound.
-/
import IbexProofs.SetAlg

namespace Ibex.Ctc
open Ibex

abbrev Pt := List ℝ

def Sound (c : Box → Box) (S : Set Pt) : Prop := ∀ x p, Box.Mem p x → p ∈ S → Box.Mem p (c x)
def Contracting (c : Box → Box) : Prop := ∀ x p, Box.Mem p (c x) → Box.Mem p x

theorem sound_comp {c d : Box → Box} {S : Set Pt} (hc : Sound c S) (hd : Sound d S) :
    Sound (d ∘ c) S := fun x p hp hs => hd (c x) p (hc x p hp hs) hs

theorem contracting_comp {c d : Box → Box} (hc : Contracting c) (hd : Contracting d) :
    Contracting (d ∘ c) := fun x p hp => hc x p (hd (c x) p hp)

/-- a constraint-wise sound contractor is sound for the conjunction -/
theorem sound_mono {c : Box → Box} {S T : Set Pt} (h : Sound c S) (hTS : T ⊆ S) : Sound c T :=
  fun x p hp ht => h x p hp (hTS ht)

/-- any finite schedule of calls (propagation with any agenda, ratio, impact information…) -/
def run (cs : List (Box → Box)) (x : Box) : Box := cs.foldl (fun b c => c b) x

theorem run_sound {S : Set Pt} : ∀ (cs : List (Box → Box)), (∀ c ∈ cs, Sound c S) → Sound (run cs) S := by
  intro cs
  induction cs with
  | nil => intro _ x p hp _; exact hp
  | cons c cs ih =>
    intro h x p hp hs
    have hc : Sound c S := h c (by simp)
    have := ih (fun d hd => h d (by simp [hd])) (c x) p (hc x p hp hs) hs
    simpa [run] using this

theorem run_contracting : ∀ (cs : List (Box → Box)), (∀ c ∈ cs, Contracting c) → Contracting (run cs) := by
  intro cs
  induction cs with
  | nil => intro _ x p hp; exact hp
  | cons c cs ih =>
    intro h x p hp
    have hc : Contracting c := h c (by simp)
    have : Box.Mem p (run cs (c x)) := by simpa [run] using hp
    exact hc x p (ih (fun d hd => h d (by simp [hd])) (c x) p this)

/-- shaving certificate: `slices` cover `x` (every point of x is in some slice), each slice is
    contracted by a sound contractor, and `out` contains every contracted slice. -/
theorem shaving_sound {c : Box → Box} {S : Set Pt} (hc : Sound c S) {x out : Box} {slices : List Box}
    (hcover : ∀ p, Box.Mem p x → ∃ s ∈ slices, Box.Mem p s)
    (hout : ∀ s ∈ slices, ∀ p, Box.Mem p (c s) → Box.Mem p out) :
    ∀ p, Box.Mem p x → p ∈ S → Box.Mem p out := by
  intro p hp hs
  obtain ⟨s, hs1, hs2⟩ := hcover p hp
  exact hout s hs1 p (hc s p hs2 hs)

end Ibex.Ctc
