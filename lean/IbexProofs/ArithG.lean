/-
  Enclosure lemmas for the interval operators generic in the rounding pair (`IbexModel.ItvG`),
  valid for every *sound* rounding pair (`Rnd.Sound`): `Rnd.dbl` (binary64 directed rounding)
  and `Rnd.exact` (no rounding) are both sound.  The proofs are those of `Arith.lean` /
  `Arith2.lean` with `rd_le` / `le_ru` replaced by the soundness hypotheses.

  Imports only `IbexProofs.Arith`, and declares no name used by `Arith2.lean` or `SetAlg.lean`,
  so it can be imported together with either.
-/
import IbexProofs.Arith
import Mathlib.Tactic.FieldSimp

namespace Ibex
open Ibex

/-- a rounding pair is sound when `dn` rounds downwards and `up` rounds upwards -/
def Rnd.Sound (r : Rnd) : Prop :=
  (∀ q : Rat, (r.dn q).toE ≤ ((q : ℝ) : EReal)) ∧ (∀ q : Rat, ((q : ℝ) : EReal) ≤ (r.up q).toE)

theorem Rnd.dbl_sound : Rnd.dbl.Sound := ⟨rd_le, le_ru⟩

theorem Rnd.exact_sound : Rnd.exact.Sound := ⟨fun _ => le_refl _, fun _ => le_refl _⟩

private theorem Ext.toE_zero : (Ext.fin 0).toE = 0 := by simp

private theorem Ext.eq_zero_of_toE {a : Ext} (h : a.toE = 0) : a = Ext.fin 0 := by
  apply Ext.toE_injective; simpa using h

/-! ### addition, subtraction -/

theorem addLoG_le {r : Rnd} (hr : r.Sound) (a c : Ext) (x y : ℝ) (hx : a.toE ≤ x) (hy : c.toE ≤ y) :
    (Itv.addLoG r a c).toE ≤ ((x + y : ℝ) : EReal) := by
  cases a <;> cases c <;> simp only [Itv.addLoG, Ext.toE_ninf, bot_le]
  rename_i p q
  refine le_trans (hr.1 _) ?_
  simp only [Ext.toE_fin, EReal.coe_le_coe_iff] at hx hy ⊢
  push_cast; linarith

theorem le_addHiG {r : Rnd} (hr : r.Sound) (b d : Ext) (x y : ℝ) (hx : (x : EReal) ≤ b.toE)
    (hy : (y : EReal) ≤ d.toE) : ((x + y : ℝ) : EReal) ≤ (Itv.addHiG r b d).toE := by
  cases b <;> cases d <;> simp only [Itv.addHiG, Ext.toE_pinf, le_top]
  rename_i p q
  refine le_trans ?_ (hr.2 _)
  simp only [Ext.toE_fin, EReal.coe_le_coe_iff] at hx hy ⊢
  push_cast; linarith

theorem Itv.addG_encl {r : Rnd} (hr : r.Sound) {X Y : Itv} {x y : ℝ} (hx : x ∈ X) (hy : y ∈ Y) :
    x + y ∈ Itv.addG r X Y := by
  cases X with
  | empty => exact absurd hx (Itv.not_mem_empty x)
  | mk a b =>
    cases Y with
    | empty => exact absurd hy (Itv.not_mem_empty y)
    | mk c d => exact ⟨addLoG_le hr a c x y hx.1 hy.1, le_addHiG hr b d x y hx.2 hy.2⟩

theorem Itv.subG_encl {r : Rnd} (hr : r.Sound) {X Y : Itv} {x y : ℝ} (hx : x ∈ X) (hy : y ∈ Y) :
    x - y ∈ Itv.subG r X Y := by
  have := Itv.addG_encl hr hx (Itv.neg_encl hy)
  simpa [sub_eq_add_neg, Itv.subG] using this

/-! ### multiplication -/

theorem mulExt_dn_le {r : Rat → Ext} (hr : ∀ q : Rat, (r q).toE ≤ ((q : ℝ) : EReal)) (a b : Ext) :
    (Itv.mulExt r a b).toE ≤ a.toE * b.toE := by
  by_cases h : a.isFin = true ∧ b.isFin = true
  · cases a <;> cases b <;> simp [Ext.isFin] at h
    rename_i p q
    refine le_trans (hr _) ?_
    simp only [Ext.toE_fin]
    rw [← EReal.coe_mul]; push_cast; exact le_refl _
  · exact le_of_eq (mulExt_eq_of_not_fin r a b h)

theorem le_mulExt_up {r : Rat → Ext} (hr : ∀ q : Rat, ((q : ℝ) : EReal) ≤ (r q).toE) (a b : Ext) :
    a.toE * b.toE ≤ (Itv.mulExt r a b).toE := by
  by_cases h : a.isFin = true ∧ b.isFin = true
  · cases a <;> cases b <;> simp [Ext.isFin] at h
    rename_i p q
    refine le_trans ?_ (hr _)
    simp only [Ext.toE_fin]
    rw [← EReal.coe_mul]; push_cast; exact le_refl _
  · exact le_of_eq (mulExt_eq_of_not_fin r a b h).symm

theorem Itv.mulG_encl {r : Rnd} (hr : r.Sound) {X Y : Itv} {x y : ℝ} (hx : x ∈ X) (hy : y ∈ Y) :
    x * y ∈ Itv.mulG r X Y := by
  cases X with
  | empty => exact absurd hx (Itv.not_mem_empty x)
  | mk a b =>
    cases Y with
    | empty => exact absurd hy (Itv.not_mem_empty y)
    | mk c d =>
      obtain ⟨hax, hxb⟩ := hx
      obtain ⟨hcy, hyd⟩ := hy
      have hy' := ereal_corner c.toE d.toE (x : EReal) y hcy hyd
      have hc := ereal_corner a.toE b.toE c.toE x hax hxb
      have hd := ereal_corner a.toE b.toE d.toE x hax hxb
      rw [mul_comm c.toE, mul_comm d.toE, mul_comm (y : EReal)] at hy'
      rw [← EReal.coe_mul] at hy'
      refine ⟨?_, ?_⟩
      · simp only [Itv.min4, Ext.toE_min]
        have h1 : Min.min (Min.min (a.toE * c.toE) (a.toE * d.toE)) (Min.min (b.toE * c.toE) (b.toE * d.toE))
            ≤ ((x * y : ℝ) : EReal) := by
          refine le_trans ?_ hy'.1
          refine le_min (le_trans ?_ hc.1) (le_trans ?_ hd.1)
          · exact le_min (le_trans (min_le_left _ _) (min_le_left _ _)) (le_trans (min_le_right _ _) (min_le_left _ _))
          · exact le_min (le_trans (min_le_left _ _) (min_le_right _ _)) (le_trans (min_le_right _ _) (min_le_right _ _))
        refine le_trans ?_ h1
        exact min_le_min (min_le_min (mulExt_dn_le hr.1 _ _) (mulExt_dn_le hr.1 _ _))
          (min_le_min (mulExt_dn_le hr.1 _ _) (mulExt_dn_le hr.1 _ _))
      · simp only [Itv.max4, Ext.toE_max]
        have h1 : ((x * y : ℝ) : EReal) ≤
            Max.max (Max.max (a.toE * c.toE) (a.toE * d.toE)) (Max.max (b.toE * c.toE) (b.toE * d.toE)) := by
          refine le_trans hy'.2 ?_
          refine max_le (le_trans hc.2 ?_) (le_trans hd.2 ?_)
          · exact max_le (le_trans (le_max_left _ _) (le_max_left _ _)) (le_trans (le_max_left _ _) (le_max_right _ _))
          · exact max_le (le_trans (le_max_right _ _) (le_max_left _ _)) (le_trans (le_max_right _ _) (le_max_right _ _))
        refine le_trans h1 ?_
        exact max_le_max (max_le_max (le_mulExt_up hr.2 _ _) (le_mulExt_up hr.2 _ _))
          (max_le_max (le_mulExt_up hr.2 _ _) (le_mulExt_up hr.2 _ _))

/-! ### division -/

/-- lower bound, numerator bound ≥ 0, y > 0 bounded above by d -/
theorem divExt_lo_pos_nonnegG {r : Rat → Ext} (hr : ∀ q : Rat, (r q).toE ≤ ((q : ℝ) : EReal))
    (a d : Ext) (x y : ℝ) (ha : 0 ≤ a.toE) (hax : a.toE ≤ x)
    (hy : 0 < y) (hyd : (y : EReal) ≤ d.toE) : (Itv.divExt r a d).toE ≤ ((x / y : ℝ) : EReal) := by
  cases a with
  | ninf => simp at ha
  | pinf => simp at hax
  | fin p =>
    simp only [Ext.toE_fin, EReal.coe_le_coe_iff] at hax
    have hp : (0 : ℝ) ≤ p := by simpa using ha
    have hx : 0 ≤ x := le_trans hp hax
    cases d with
    | ninf => simp at hyd
    | pinf =>
      simp only [Itv.divExt, Ext.toE_fin, EReal.coe_le_coe_iff]
      push_cast; positivity
    | fin q =>
      simp only [Ext.toE_fin, EReal.coe_le_coe_iff] at hyd
      refine le_trans (hr _) ?_
      simp only [EReal.coe_le_coe_iff]
      push_cast
      have hq : (0 : ℝ) < q := lt_of_lt_of_le hy hyd
      calc (p : ℝ) / q ≤ p / y := div_le_div_of_nonneg_left hp hy hyd
        _ ≤ x / y := div_le_div_of_nonneg_right hax (le_of_lt hy)

/-- lower bound, numerator bound < 0, y > 0 bounded below by c > 0 -/
theorem divExt_lo_pos_negG {r : Rat → Ext} (hr : ∀ q : Rat, (r q).toE ≤ ((q : ℝ) : EReal))
    (a c : Ext) (x y : ℝ) (ha : a.toE ≤ 0) (hax : a.toE ≤ x)
    (hc : 0 < c.toE) (hcy : c.toE ≤ (y : EReal)) : (Itv.divExt r a c).toE ≤ ((x / y : ℝ) : EReal) := by
  cases c with
  | ninf => simp at hc
  | pinf => simp at hcy
  | fin q =>
    simp only [Ext.toE_fin, EReal.coe_le_coe_iff] at hcy
    have hq : (0 : ℝ) < q := by simpa using hc
    have hq' : (0 : Rat) < q := by exact_mod_cast hq
    have hy : 0 < y := lt_of_lt_of_le hq hcy
    cases a with
    | pinf => simp at hax
    | ninf => simp [Itv.divExt, hq']
    | fin p =>
      simp only [Ext.toE_fin, EReal.coe_le_coe_iff] at hax
      have hp : (p : ℝ) ≤ 0 := by simpa using ha
      refine le_trans (hr _) ?_
      simp only [EReal.coe_le_coe_iff]
      push_cast
      rw [div_le_div_iff₀ hq hy]
      nlinarith [mul_nonneg (sub_nonneg.2 hcy) (neg_nonneg.2 hp), mul_nonneg (sub_nonneg.2 hax) (le_of_lt hq)]

/-- upper bound, numerator bound ≥ 0, y > 0 bounded below by c > 0 -/
theorem divExt_hi_pos_nonnegG {r : Rat → Ext} (hr : ∀ q : Rat, ((q : ℝ) : EReal) ≤ (r q).toE)
    (b c : Ext) (x y : ℝ) (hb : 0 ≤ b.toE) (hxb : (x : EReal) ≤ b.toE)
    (hc : 0 < c.toE) (hcy : c.toE ≤ (y : EReal)) : ((x / y : ℝ) : EReal) ≤ (Itv.divExt r b c).toE := by
  cases c with
  | ninf => simp at hc
  | pinf => simp at hcy
  | fin q =>
    simp only [Ext.toE_fin, EReal.coe_le_coe_iff] at hcy
    have hq : (0 : ℝ) < q := by simpa using hc
    have hq' : (0 : Rat) < q := by exact_mod_cast hq
    have hy : 0 < y := lt_of_lt_of_le hq hcy
    cases b with
    | ninf => simp at hxb
    | pinf => simp [Itv.divExt, hq']
    | fin p =>
      simp only [Ext.toE_fin, EReal.coe_le_coe_iff] at hxb
      have hp : (0 : ℝ) ≤ p := by simpa using hb
      refine le_trans ?_ (hr _)
      simp only [EReal.coe_le_coe_iff]
      push_cast
      rw [div_le_div_iff₀ hy hq]
      nlinarith [mul_nonneg (sub_nonneg.2 hcy) hp, mul_nonneg (sub_nonneg.2 hxb) (le_of_lt hq)]

/-- upper bound, numerator bound ≤ 0, y > 0 bounded above by d -/
theorem divExt_hi_pos_nonposG {r : Rat → Ext} (hr : ∀ q : Rat, ((q : ℝ) : EReal) ≤ (r q).toE)
    (b d : Ext) (x y : ℝ) (hb : b.toE ≤ 0) (hxb : (x : EReal) ≤ b.toE)
    (hy : 0 < y) (hyd : (y : EReal) ≤ d.toE) : ((x / y : ℝ) : EReal) ≤ (Itv.divExt r b d).toE := by
  cases b with
  | ninf => simp at hxb
  | pinf => simp at hb
  | fin p =>
    simp only [Ext.toE_fin, EReal.coe_le_coe_iff] at hxb
    have hp : (p : ℝ) ≤ 0 := by simpa using hb
    have hx : x ≤ 0 := le_trans hxb hp
    cases d with
    | ninf => simp at hyd
    | pinf =>
      simp only [Itv.divExt, Ext.toE_fin, EReal.coe_le_coe_iff]
      push_cast
      exact div_nonpos_of_nonpos_of_nonneg hx (le_of_lt hy)
    | fin q =>
      simp only [Ext.toE_fin, EReal.coe_le_coe_iff] at hyd
      have hq : (0 : ℝ) < q := lt_of_lt_of_le hy hyd
      refine le_trans ?_ (hr _)
      simp only [EReal.coe_le_coe_iff]
      push_cast
      rw [div_le_div_iff₀ hy hq]
      nlinarith [mul_nonneg (sub_nonneg.2 hyd) (neg_nonneg.2 hp), mul_nonneg (sub_nonneg.2 hxb) (le_of_lt hq)]

/-- upper bound, numerator bound ≥ 0, y < 0 bounded below by c -/
theorem divExt_hi_neg_nonnegG {r : Rat → Ext} (hr : ∀ q : Rat, ((q : ℝ) : EReal) ≤ (r q).toE)
    (a c : Ext) (x y : ℝ) (ha : 0 ≤ a.toE) (hax : a.toE ≤ x)
    (hy : y < 0) (hcy : c.toE ≤ (y : EReal)) : ((x / y : ℝ) : EReal) ≤ (Itv.divExt r a c).toE := by
  cases a with
  | ninf => simp at ha
  | pinf => simp at hax
  | fin p =>
    simp only [Ext.toE_fin, EReal.coe_le_coe_iff] at hax
    have hp : (0 : ℝ) ≤ p := by simpa using ha
    have hx : 0 ≤ x := le_trans hp hax
    cases c with
    | pinf => simp at hcy
    | ninf =>
      simp only [Itv.divExt, Ext.toE_fin, EReal.coe_le_coe_iff]
      push_cast
      exact div_nonpos_of_nonneg_of_nonpos hx (le_of_lt hy)
    | fin q =>
      simp only [Ext.toE_fin, EReal.coe_le_coe_iff] at hcy
      have hq : (q : ℝ) < 0 := lt_of_le_of_lt hcy hy
      refine le_trans ?_ (hr _)
      simp only [EReal.coe_le_coe_iff]
      push_cast
      rw [← neg_div_neg_eq x y, ← neg_div_neg_eq (p : ℝ) q, div_le_div_iff₀ (neg_pos.2 hy) (neg_pos.2 hq)]
      nlinarith [mul_nonneg (sub_nonneg.2 hcy) hp, mul_nonneg (sub_nonneg.2 hax) (le_of_lt (neg_pos.2 hq))]

/-- lower bound, numerator bound ≤ 0, y < 0 bounded below by c -/
theorem divExt_lo_neg_nonposG {r : Rat → Ext} (hr : ∀ q : Rat, (r q).toE ≤ ((q : ℝ) : EReal))
    (b c : Ext) (x y : ℝ) (hb : b.toE ≤ 0) (hxb : (x : EReal) ≤ b.toE)
    (hy : y < 0) (hcy : c.toE ≤ (y : EReal)) : (Itv.divExt r b c).toE ≤ ((x / y : ℝ) : EReal) := by
  cases b with
  | ninf => simp at hxb
  | pinf => simp at hb
  | fin p =>
    simp only [Ext.toE_fin, EReal.coe_le_coe_iff] at hxb
    have hp : (p : ℝ) ≤ 0 := by simpa using hb
    have hx : x ≤ 0 := le_trans hxb hp
    cases c with
    | pinf => simp at hcy
    | ninf =>
      simp only [Itv.divExt, Ext.toE_fin, EReal.coe_le_coe_iff]
      push_cast
      exact div_nonneg_of_nonpos hx (le_of_lt hy)
    | fin q =>
      simp only [Ext.toE_fin, EReal.coe_le_coe_iff] at hcy
      have hq : (q : ℝ) < 0 := lt_of_le_of_lt hcy hy
      refine le_trans (hr _) ?_
      simp only [EReal.coe_le_coe_iff]
      push_cast
      rw [← neg_div_neg_eq x y, ← neg_div_neg_eq (p : ℝ) q, div_le_div_iff₀ (neg_pos.2 hq) (neg_pos.2 hy)]
      nlinarith [mul_nonneg (sub_nonneg.2 hcy) (neg_nonneg.2 hp), mul_nonneg (sub_nonneg.2 hxb) (le_of_lt (neg_pos.2 hq))]

theorem Itv.divPosG_encl {r : Rnd} (hr : r.Sound) {a b c d : Ext} {x y : ℝ} (hx : x ∈ Itv.mk a b) (hy : y ∈ Itv.mk c d)
    (hc : 0 < c.toE) : x / y ∈ Itv.divPosG r a b c d := by
  obtain ⟨hax, hxb⟩ := hx
  obtain ⟨hcy, hyd⟩ := hy
  have hy0 : 0 < y := by
    have := lt_of_lt_of_le hc hcy
    exact_mod_cast this
  unfold Itv.divPosG
  refine ⟨?_, ?_⟩
  · by_cases h : Ext.le (Ext.fin 0) a = true
    · simp only [h, if_true]
      rw [Ext.le_iff, Ext.toE_zero] at h
      exact divExt_lo_pos_nonnegG hr.1 a d x y h hax hy0 hyd
    · simp only [h]
      rw [Ext.le_iff, Ext.toE_zero, not_le] at h
      exact divExt_lo_pos_negG hr.1 a c x y (le_of_lt h) hax hc hcy
  · by_cases h : Ext.le (Ext.fin 0) b = true
    · simp only [h, if_true]
      rw [Ext.le_iff, Ext.toE_zero] at h
      exact divExt_hi_pos_nonnegG hr.2 b c x y h hxb hc hcy
    · simp only [h]
      rw [Ext.le_iff, Ext.toE_zero, not_le] at h
      exact divExt_hi_pos_nonposG hr.2 b d x y (le_of_lt h) hxb hy0 hyd

theorem Itv.divG_encl {r : Rnd} (hr : r.Sound) {X Y : Itv} {x y : ℝ} (hx : x ∈ X) (hy : y ∈ Y) (hy0 : y ≠ 0) :
    x / y ∈ Itv.divG r X Y := by
  cases X with
  | empty => exact absurd hx (Itv.not_mem_empty x)
  | mk a b =>
  cases Y with
  | empty => exact absurd hy (Itv.not_mem_empty y)
  | mk c d =>
  have hx' := hx
  have hy' := hy
  obtain ⟨hax, hxb⟩ := hx'
  obtain ⟨hcy, hyd⟩ := hy'
  simp only [Itv.divG]
  split_ifs with h1 h2 h3 h4 h5 h6 h7 h8 h9 h10
  · -- Y = {0}
    simp only [Bool.and_eq_true, beq_iff_eq] at h1
    rw [h1.1, Ext.toE_zero] at hcy
    rw [h1.2, Ext.toE_zero] at hyd
    exact absurd (le_antisymm (by exact_mod_cast hyd) (by exact_mod_cast hcy)) hy0
  · rw [Ext.lt_iff, Ext.toE_zero] at h2
    exact Itv.divPosG_encl hr hx hy h2
  · rw [Ext.lt_iff, Ext.toE_zero] at h3
    have hnx := Itv.neg_encl hx
    have hny := Itv.neg_encl hy
    have := Itv.divPosG_encl hr (x := -x) (y := -y) hnx hny (by rw [Ext.toE_neg]; simpa using h3)
    rwa [neg_div_neg_eq] at this
  · simp only [Bool.and_eq_true, beq_iff_eq] at h4
    rw [h4.1, Ext.toE_zero] at hax
    rw [h4.2, Ext.toE_zero] at hxb
    have : x = 0 := le_antisymm (by exact_mod_cast hxb) (by exact_mod_cast hax)
    subst this
    simp [Itv.mem_mk]
  · simp [Itv.all, Itv.mem_mk]
  · -- Y = [0,d], 0 ≤ a
    have hc0 : c = Ext.fin 0 := by simpa using h6
    rw [hc0, Ext.toE_zero] at hcy
    have hypos : 0 < y := lt_of_le_of_ne (by exact_mod_cast hcy) (Ne.symm hy0)
    rw [Ext.le_iff, Ext.toE_zero] at h7
    exact ⟨divExt_lo_pos_nonnegG hr.1 a d x y h7 hax hypos hyd, le_top⟩
  · have hc0 : c = Ext.fin 0 := by simpa using h6
    rw [hc0, Ext.toE_zero] at hcy
    have hypos : 0 < y := lt_of_le_of_ne (by exact_mod_cast hcy) (Ne.symm hy0)
    rw [Ext.le_iff, Ext.toE_zero] at h8
    exact ⟨bot_le, divExt_hi_pos_nonposG hr.2 b d x y h8 hxb hypos hyd⟩
  · simp [Itv.all, Itv.mem_mk]
  · -- Y = [c,0], c < 0
    have hyneg : y < 0 := by
      rw [Ext.lt_iff, Ext.toE_zero, not_lt] at h2
      have hc0 : c.toE ≠ 0 := fun h => h6 (by simp [Ext.eq_zero_of_toE h])
      have hclt : c.toE < 0 := lt_of_le_of_ne h2 hc0
      have hd : d.toE ≤ 0 := by
        by_contra hd
        exact h5 (by simp [Ext.lt_iff, hclt, not_le.1 hd])
      exact lt_of_le_of_ne (by exact_mod_cast le_trans hyd hd) hy0
    rw [Ext.le_iff, Ext.toE_zero] at h9
    exact ⟨bot_le, divExt_hi_neg_nonnegG hr.2 a c x y h9 hax hyneg hcy⟩
  · have hyneg : y < 0 := by
      rw [Ext.lt_iff, Ext.toE_zero, not_lt] at h2
      have hc0 : c.toE ≠ 0 := fun h => h6 (by simp [Ext.eq_zero_of_toE h])
      have hclt : c.toE < 0 := lt_of_le_of_ne h2 hc0
      have hd : d.toE ≤ 0 := by
        by_contra hd
        exact h5 (by simp [Ext.lt_iff, hclt, not_le.1 hd])
      exact lt_of_le_of_ne (by exact_mod_cast le_trans hyd hd) hy0
    rw [Ext.le_iff, Ext.toE_zero] at h10
    exact ⟨divExt_lo_neg_nonposG hr.1 b c x y h10 hxb hyneg hcy, le_top⟩
  · simp [Itv.all, Itv.mem_mk]

/-! ### square -/

theorem Itv.sqrG_encl {r : Rnd} (hr : r.Sound) {X : Itv} {x : ℝ} (hx : x ∈ X) : x * x ∈ Itv.sqrG r X := by
  cases X with
  | empty => exact absurd hx (Itv.not_mem_empty x)
  | mk a b =>
  obtain ⟨hax, hxb⟩ := hx
  simp only [Itv.sqrG]
  split_ifs with h1 h2
  · rw [Ext.le_iff, Ext.toE_zero] at h1
    have hx0 : (0 : EReal) ≤ x := le_trans h1 hax
    refine ⟨le_trans (mulExt_dn_le hr.1 a a) ?_, le_trans ?_ (le_mulExt_up hr.2 b b)⟩
    · rw [EReal.coe_mul]; exact mul_le_mul hax hax h1 hx0
    · rw [EReal.coe_mul]; exact mul_le_mul hxb hxb hx0 (le_trans hx0 hxb)
  · rw [Ext.le_iff, Ext.toE_zero] at h2
    have hx0 : (x : EReal) ≤ 0 := le_trans hxb h2
    refine ⟨le_trans (mulExt_dn_le hr.1 b b) ?_, le_trans ?_ (le_mulExt_up hr.2 a a)⟩
    · rw [EReal.coe_mul]
      have e1 := EReal.mul_le_mul_of_nonpos_right hxb h2
      have e2 := EReal.mul_le_mul_of_nonpos_right hxb hx0
      rw [mul_comm (x : EReal) b.toE] at e1
      exact le_trans e1 e2
    · rw [EReal.coe_mul]
      have e1 := EReal.mul_le_mul_of_nonpos_right hax hx0
      have e2 := EReal.mul_le_mul_of_nonpos_right hax (le_trans hax hx0)
      rw [mul_comm a.toE (x : EReal)] at e1
      exact le_trans e1 e2
  · refine ⟨?_, ?_⟩
    · rw [Ext.toE_zero]; exact_mod_cast mul_self_nonneg x
    · rw [Ext.toE_max, EReal.coe_mul]
      rcases le_total (0 : EReal) x with hx0 | hx0
      · exact le_trans (le_trans (mul_le_mul hxb hxb hx0 (le_trans hx0 hxb)) (le_mulExt_up hr.2 b b))
          (le_max_right _ _)
      · have e1 := EReal.mul_le_mul_of_nonpos_right hax hx0
        have e2 := EReal.mul_le_mul_of_nonpos_right hax (le_trans hax hx0)
        rw [mul_comm a.toE (x : EReal)] at e1
        exact le_trans (le_trans (le_trans e1 e2) (le_mulExt_up hr.2 a a)) (le_max_left _ _)


/-! ### natural powers -/

theorem powExt_dn_le_of_nonnegG {r : Rat → Ext} (hr : ∀ q : Rat, (r q).toE ≤ ((q : ℝ) : EReal))
    (n : ℕ) (a : Ext) (x : ℝ) (ha : 0 ≤ a.toE) (hax : a.toE ≤ x) :
    (Itv.powExt r n a).toE ≤ ((x ^ n : ℝ) : EReal) := by
  cases a with
  | ninf => simp at ha
  | pinf => simp at hax
  | fin q =>
    simp only [Ext.toE_fin, EReal.coe_le_coe_iff] at hax
    have hq : (0 : ℝ) ≤ q := by simpa using ha
    refine le_trans (hr _) ?_
    simp only [EReal.coe_le_coe_iff, Itv.ratPow]
    push_cast
    exact pow_le_pow_left₀ hq hax n

theorem le_powExt_up_of_nonnegG {r : Rat → Ext} (hr : ∀ q : Rat, ((q : ℝ) : EReal) ≤ (r q).toE)
    (n : ℕ) (b : Ext) (x : ℝ) (hx : 0 ≤ x) (hxb : (x : EReal) ≤ b.toE) :
    ((x ^ n : ℝ) : EReal) ≤ (Itv.powExt r n b).toE := by
  cases b with
  | ninf => simp at hxb
  | pinf => simp [Itv.powExt]
  | fin q =>
    simp only [Ext.toE_fin, EReal.coe_le_coe_iff] at hxb
    refine le_trans ?_ (hr _)
    simp only [EReal.coe_le_coe_iff, Itv.ratPow]
    push_cast
    exact pow_le_pow_left₀ hx hxb n

theorem powExt_dn_le_of_oddG {r : Rat → Ext} (hr : ∀ q : Rat, (r q).toE ≤ ((q : ℝ) : EReal))
    {n : ℕ} (hn : n % 2 = 1) (a : Ext) (x : ℝ) (hax : a.toE ≤ x) :
    (Itv.powExt r n a).toE ≤ ((x ^ n : ℝ) : EReal) := by
  cases a with
  | ninf => simp [Itv.powExt, hn]
  | pinf => simp at hax
  | fin q =>
    simp only [Ext.toE_fin, EReal.coe_le_coe_iff] at hax
    refine le_trans (hr _) ?_
    simp only [EReal.coe_le_coe_iff, Itv.ratPow]
    push_cast
    exact (Nat.odd_iff.2 hn).pow_le_pow.2 hax

theorem le_powExt_up_of_oddG {r : Rat → Ext} (hr : ∀ q : Rat, ((q : ℝ) : EReal) ≤ (r q).toE)
    {n : ℕ} (hn : n % 2 = 1) (b : Ext) (x : ℝ) (hxb : (x : EReal) ≤ b.toE) :
    ((x ^ n : ℝ) : EReal) ≤ (Itv.powExt r n b).toE := by
  cases b with
  | ninf => simp at hxb
  | pinf => simp [Itv.powExt]
  | fin q =>
    simp only [Ext.toE_fin, EReal.coe_le_coe_iff] at hxb
    refine le_trans ?_ (hr _)
    simp only [EReal.coe_le_coe_iff, Itv.ratPow]
    push_cast
    exact (Nat.odd_iff.2 hn).pow_le_pow.2 hxb

theorem powExt_dn_le_even_nonposG {r : Rat → Ext} (hr : ∀ q : Rat, (r q).toE ≤ ((q : ℝ) : EReal))
    {n : ℕ} (hn : n % 2 = 0) (b : Ext) (x : ℝ) (hb : b.toE ≤ 0)
    (hxb : (x : EReal) ≤ b.toE) : (Itv.powExt r n b).toE ≤ ((x ^ n : ℝ) : EReal) := by
  cases b with
  | ninf => simp at hxb
  | pinf => simp at hb
  | fin q =>
    simp only [Ext.toE_fin, EReal.coe_le_coe_iff] at hxb
    have hq : (q : ℝ) ≤ 0 := by simpa using hb
    refine le_trans (hr _) ?_
    simp only [EReal.coe_le_coe_iff, Itv.ratPow]
    push_cast
    have he : Even n := Nat.even_iff.2 hn
    rw [← he.neg_pow (q : ℝ), ← he.neg_pow x]
    exact pow_le_pow_left₀ (neg_nonneg.2 hq) (neg_le_neg hxb) n

theorem le_powExt_up_even_nonposG {r : Rat → Ext} (hr : ∀ q : Rat, ((q : ℝ) : EReal) ≤ (r q).toE)
    {n : ℕ} (hn : n % 2 = 0) (a : Ext) (x : ℝ) (hx : x ≤ 0)
    (hax : a.toE ≤ x) : ((x ^ n : ℝ) : EReal) ≤ (Itv.powExt r n a).toE := by
  cases a with
  | ninf => simp [Itv.powExt, hn]
  | pinf => simp at hax
  | fin q =>
    simp only [Ext.toE_fin, EReal.coe_le_coe_iff] at hax
    refine le_trans ?_ (hr _)
    simp only [EReal.coe_le_coe_iff, Itv.ratPow]
    push_cast
    have he : Even n := Nat.even_iff.2 hn
    rw [← he.neg_pow (q : ℝ), ← he.neg_pow x]
    exact pow_le_pow_left₀ (neg_nonneg.2 hx) (neg_le_neg hax) n

theorem Itv.powNatG_encl {r : Rnd} (hr : r.Sound) {X : Itv} {x : ℝ} (n : ℕ) (hx : x ∈ X) : x ^ n ∈ Itv.powNatG r X n := by
  cases X with
  | empty => exact absurd hx (Itv.not_mem_empty x)
  | mk a b =>
  obtain ⟨hax, hxb⟩ := hx
  simp only [Itv.powNatG]
  split_ifs with h0 h1 h2 h3
  · subst h0; simp [Itv.point, Itv.mem_mk]
  · exact ⟨powExt_dn_le_of_oddG hr.1 h1 a x hax, le_powExt_up_of_oddG hr.2 h1 b x hxb⟩
  · have hn : n % 2 = 0 := by omega
    rw [Ext.le_iff, Ext.toE_zero] at h2
    have hx0 : (0 : ℝ) ≤ x := by exact_mod_cast le_trans h2 hax
    exact ⟨powExt_dn_le_of_nonnegG hr.1 n a x h2 hax, le_powExt_up_of_nonnegG hr.2 n b x hx0 hxb⟩
  · have hn : n % 2 = 0 := by omega
    rw [Ext.le_iff, Ext.toE_zero] at h3
    have hx0 : x ≤ (0 : ℝ) := by exact_mod_cast le_trans hxb h3
    exact ⟨powExt_dn_le_even_nonposG hr.1 hn b x h3 hxb, le_powExt_up_even_nonposG hr.2 hn a x hx0 hax⟩
  · have hn : n % 2 = 0 := by omega
    refine ⟨?_, ?_⟩
    · rw [Ext.toE_zero]; exact_mod_cast (Nat.even_iff.2 hn).pow_nonneg x
    · rw [Ext.toE_max]
      rcases le_total 0 x with hx0 | hx0
      · exact le_trans (le_powExt_up_of_nonnegG hr.2 n b x hx0 hxb) (le_max_right _ _)
      · exact le_trans (le_powExt_up_even_nonposG hr.2 hn a x hx0 hax) (le_max_left _ _)


end Ibex
