/-
  C17 — lemmas about the buffer specification and the trace checker of `IbexModel/Buffers.lean`.

  Everything is by induction over the event list: no bound on the length of a history, on the
  number of cells or on the cost values.
-/
import IbexModel
import IbexProofs.Basic
import Mathlib.Data.Multiset.AddSub
import Mathlib.Data.List.Perm.Subperm
import Mathlib.Tactic.Abel

namespace Ibex.Buffers
open Ibex

/-! ### the ledger: what a history says about where each cell went (functions of the log only) -/

/-- ids of the cells the buffer accepted -/
def pushedIds : List Event → List Nat
  | [] => []
  | .push c true :: es => c.id :: pushedIds es
  | _ :: es => pushedIds es

/-- ids of the cells handed out by `pop` -/
def handedOut : List Event → List Nat
  | [] => []
  | .pop _ _ id _ :: es => id :: handedOut es
  | _ :: es => handedOut es

/-- ids of the cells whose destructor ran inside `contract` / `flush` -/
def destroyed : List Event → List Nat
  | [] => []
  | .contract _ d :: es => d ++ destroyed es
  | .flush d :: es => d ++ destroyed es
  | _ :: es => destroyed es

/-- ids of the cells removed by `erase_node` (SharedHeap only) -/
def erased : List Event → List Nat
  | [] => []
  | .erase id :: es => id :: erased es
  | _ :: es => erased es

/-! ### invariant of the spec state -/

structure Inv (cfg : Config) (s : State) : Prop where
  sorted : (ids s.cells).Pairwise (· < ·)
  bound : ∀ i ∈ ids s.cells, i < s.next
  tags : cfg.kind ≠ .beam → ∀ c ∈ s.cells, c.tag = 0
  lbs : cfg.lbFirst = true → ∀ c ∈ s.cells, c.c1 = c.lb

theorem Inv.nodup {cfg : Config} {s : State} (h : Inv cfg s) : (ids s.cells).Nodup :=
  h.sorted.imp (fun h => Nat.ne_of_lt h)

theorem inv_init (cfg : Config) : Inv cfg (init cfg) := by
  refine ⟨?_, ?_, ?_, ?_⟩ <;> simp [init, ids]

theorem ids_filter_sublist (p : Cell → Bool) (cs : List Cell) : (ids (cs.filter p)).Sublist (ids cs) :=
  List.filter_sublist.map _

theorem ids_map_of_id {f : Cell → Cell} (hf : ∀ c, (f c).id = c.id) (cs : List Cell) :
    ids (cs.map f) = ids cs := by
  simp [ids, List.map_map, Function.comp_def, hf]

theorem retag_id (m : List Nat) (c : Cell) : (retag m c).id = c.id := by
  unfold retag; split <;> rfl
theorem retag_c1 (m : List Nat) (c : Cell) : (retag m c).c1 = c.c1 := by
  unfold retag; split <;> rfl
theorem retag_c2 (m : List Nat) (c : Cell) : (retag m c).c2 = c.c2 := by
  unfold retag; split <;> rfl
theorem retag_lb (m : List Nat) (c : Cell) : (retag m c).lb = c.lb := by
  unfold retag; split <;> rfl

theorem setCost_id (k : Nat) (l : List (Nat × Ext)) (c : Cell) : (setCost k l c).id = c.id := by
  unfold setCost; split
  · split <;> rfl
  · rfl
theorem setCost_tag (k : Nat) (l : List (Nat × Ext)) (c : Cell) : (setCost k l c).tag = c.tag := by
  unfold setCost; split
  · split <;> rfl
  · rfl
theorem setCost_lb (k : Nat) (l : List (Nat × Ext)) (c : Cell) : (setCost k l c).lb = c.lb := by
  unfold setCost; split
  · split <;> rfl
  · rfl
theorem setCost_c1_of_one (l : List (Nat × Ext)) (c : Cell) : (setCost 1 l c).c1 = c.c1 := by
  unfold setCost; split
  · simp
  · rfl

/-- the cells after a step, as a function of the cells before -/
theorem step_next_le (cfg : Config) (s : State) (e : Event) : s.next ≤ (Spec.step cfg s e).next := by
  cases e <;> simp [Spec.step]

theorem step_next_of_not_push (cfg : Config) (s : State) (e : Event) (h : ∀ c b, e ≠ .push c b) :
    (Spec.step cfg s e).next = s.next := by
  cases e <;> simp_all [Spec.step]

theorem inv_step {cfg : Config} {s : State} {e : Event} (hi : Inv cfg s) (hc : check cfg s e = true) :
    Inv cfg (Spec.step cfg s e) := by
  have sub_inv : ∀ (cs : List Cell), (ids cs).Sublist (ids s.cells) → (∀ c ∈ cs, c ∈ s.cells) →
      Inv cfg { s with cells := cs } := by
    intro cs hs hm
    exact ⟨hi.sorted.sublist hs, fun i h => hi.bound i (hs.subset h),
      fun hk c h => hi.tags hk c (hm c h), fun hl c h => hi.lbs hl c (hm c h)⟩
  cases e with
  | push c stored =>
    simp only [check, Bool.and_eq_true, beq_iff_eq, Bool.or_eq_true, Bool.not_eq_true',
      decide_eq_true_eq] at hc
    obtain ⟨⟨⟨hid, htag⟩, hlb⟩, _⟩ := hc
    cases stored with
    | false =>
      refine ⟨hi.sorted, fun i h => Nat.lt_succ_of_lt (hi.bound i h), hi.tags, hi.lbs⟩
    | true =>
      refine ⟨?_, ?_, ?_, ?_⟩
      · simp only [Spec.step, ids, if_true, List.map_append, List.map_cons, List.map_nil]
        rw [List.pairwise_append]
        refine ⟨hi.sorted, List.pairwise_singleton _ _, ?_⟩
        intro a ha b hb
        simp only [List.mem_singleton] at hb
        subst hb; rw [hid]; exact hi.bound a ha
      · intro i h
        simp only [Spec.step, ids, if_true, List.map_append, List.map_cons, List.map_nil,
          List.mem_append, List.mem_singleton] at h
        rcases h with h | h
        · exact Nat.lt_succ_of_lt (hi.bound i h)
        · simp only [Spec.step]; omega
      · intro hk d hd
        simp only [Spec.step, if_true, List.mem_append, List.mem_singleton] at hd
        rcases hd with hd | hd
        · exact hi.tags hk d hd
        · subst hd; exact htag
      · intro hl d hd
        simp only [Spec.step, if_true, List.mem_append, List.mem_singleton] at hd
        rcases hd with hd | hd
        · exact hi.lbs hl d hd
        · subst hd
          rcases hlb with hlb | hlb
          · rw [hl] at hlb; cases hlb
          · exact hlb
  | pop sel which id moved =>
    have h0 := sub_inv (removeId id s.cells) (ids_filter_sublist _ _) (fun c h => (List.mem_filter.mp h).1)
    simp only [Spec.step]
    by_cases hb : (cfg.kind == .beam && src cfg s.cells == tFuture) = true
    · rw [if_pos hb]
      refine ⟨?_, ?_, ?_, ?_⟩
      · simpa [ids_map_of_id (retag_id moved)] using h0.sorted
      · simpa [ids_map_of_id (retag_id moved)] using h0.bound
      · intro hk
        simp only [Bool.and_eq_true, beq_iff_eq] at hb
        exact absurd hb.1 hk
      · intro hl d hd
        simp only [List.mem_map] at hd
        obtain ⟨d0, hd0, rfl⟩ := hd
        rw [retag_c1, retag_lb]; exact h0.lbs hl d0 hd0
    · rw [if_neg hb]
      exact ⟨h0.sorted, h0.bound, h0.tags, h0.lbs⟩
  | top sel which id => exact ⟨hi.sorted, hi.bound, hi.tags, hi.lbs⟩
  | minimum crit v => exact hi
  | contract loup deleted =>
    exact sub_inv _ (ids_filter_sublist _ _) (fun c h => (List.mem_filter.mp h).1)
  | flush deleted => exact sub_inv [] (List.nil_sublist _) (fun c h => by cases h)
  | size n => exact hi
  | empty b => exact hi
  | recost crit l =>
    simp only [check, Bool.and_eq_true, beq_iff_eq, Bool.or_eq_true, Bool.not_eq_true',
      Bool.and_eq_false_iff] at hc
    obtain ⟨⟨hcrit, hlbf⟩, _⟩ := hc
    refine ⟨?_, ?_, ?_, ?_⟩
    · simpa [Spec.step, ids_map_of_id (setCost_id crit l)] using hi.sorted
    · simpa [Spec.step, ids_map_of_id (setCost_id crit l)] using hi.bound
    · intro hk d hd
      simp only [Spec.step, List.mem_map] at hd
      obtain ⟨d0, hd0, rfl⟩ := hd
      rw [setCost_tag]; exact hi.tags hk d0 hd0
    · intro hl d hd
      simp only [Spec.step, List.mem_map] at hd
      obtain ⟨d0, hd0, rfl⟩ := hd
      have h1 : crit = 1 := by
        rcases hlbf with h | h
        · rw [hl] at h; cases h
        · rcases hcrit with h' | h'
          · simp [h'] at h
          · exact h'
      subst h1
      rw [setCost_c1_of_one, setCost_lb]; exact hi.lbs hl d0 hd0
  | erase id =>
    exact sub_inv _ (ids_filter_sublist _ _) (fun c h => (List.mem_filter.mp h).1)
  | heaps a b => exact hi
  | tree k o => exact hi

/-! ### splitting an accepted history -/

theorem go_append {cfg : Config} {s : State} {pre post : List Event} :
    go cfg s (pre ++ post) = true ↔ go cfg s pre = true ∧ go cfg (Spec.run cfg s pre) post = true := by
  induction pre generalizing s with
  | nil => simp [go, Spec.run]
  | cons e es ih => simp [go, Spec.run, ih, and_assoc]

theorem go_cons {cfg : Config} {s : State} {e : Event} {es : List Event} :
    go cfg s (e :: es) = true ↔ check cfg s e = true ∧ go cfg (Spec.step cfg s e) es = true := by
  simp [go]

theorem run_append (cfg : Config) (s : State) (pre post : List Event) :
    Spec.run cfg s (pre ++ post) = Spec.run cfg (Spec.run cfg s pre) post := by
  induction pre generalizing s with
  | nil => rfl
  | cons e es ih => simp [Spec.run, ih]

theorem inv_run {cfg : Config} {s : State} {evs : List Event} (hi : Inv cfg s)
    (h : go cfg s evs = true) : Inv cfg (Spec.run cfg s evs) := by
  induction evs generalizing s with
  | nil => exact hi
  | cons e es ih =>
    rw [go_cons] at h
    exact ih (inv_step hi h.1) h.2

/-- in an accepted history, the event at any position was admissible in the spec state reached by
    the events before it (which satisfies the invariant) -/
theorem accepted_at {cfg : Config} {pre post : List Event} {e : Event}
    (h : checkTrace cfg (pre ++ e :: post) = true) :
    Inv cfg (Spec.run cfg (init cfg) pre) ∧ check cfg (Spec.run cfg (init cfg) pre) e = true := by
  unfold checkTrace at h
  rw [go_append, go_cons] at h
  exact ⟨inv_run (inv_init cfg) h.1, h.2.1⟩

theorem checkTrace_prefix {cfg : Config} {pre post : List Event}
    (h : checkTrace cfg (pre ++ post) = true) : checkTrace cfg pre = true := by
  unfold checkTrace at h ⊢
  exact (go_append.mp h).1

/-! ### conservation of cells -/

theorem mem_ids {cs : List Cell} {i : Nat} : i ∈ ids cs ↔ ∃ c ∈ cs, c.id = i := by
  simp [ids]

/-- removing the (unique) cell `id` from the stored cells -/
theorem ids_removeId_perm {cs : List Cell} {id : Nat} (hn : (ids cs).Nodup) (hm : id ∈ ids cs) :
    (ids cs).Perm (id :: ids (removeId id cs)) := by
  induction cs with
  | nil => simp [ids] at hm
  | cons c t ih =>
    simp only [ids, List.map_cons, List.nodup_cons] at hn
    by_cases hc : c.id = id
    · have hnot : id ∉ ids t := by rw [← hc]; exact hn.1
      have hfil : removeId id t = t := by
        unfold removeId
        rw [List.filter_eq_self]
        intro d hd
        simp only [bne_iff_ne, ne_eq]
        intro hdi
        exact hnot (mem_ids.mpr ⟨d, hd, hdi⟩)
      have : removeId id (c :: t) = t := by
        unfold removeId at hfil ⊢
        rw [List.filter_cons]
        simp [hc, hfil]
      rw [this]; simp [ids, hc]
    · have hm' : id ∈ ids t := by
        simp only [ids, List.map_cons, List.mem_cons] at hm
        rcases hm with h | h
        · exact absurd h.symm hc
        · exact h
      have : removeId id (c :: t) = c :: removeId id t := by
        unfold removeId
        rw [List.filter_cons]
        simp [hc]
      rw [this]
      have := ih hn.2 hm'
      simp only [ids, List.map_cons] at this ⊢
      exact (List.Perm.cons c.id this).trans (List.Perm.swap _ _ _)

theorem ids_filter_partition (p : Cell → Bool) (cs : List Cell) :
    (ids cs).Perm (ids (cs.filter p) ++ ids (cs.filter (fun c => !p c))) := by
  have := (List.filter_append_perm p cs).map (·.id)
  simpa [ids] using this.symm

theorem frontOk_mem {cfg : Config} {s : State} {w id : Nat} (h : frontOk cfg s w id = true) :
    id ∈ ids s.cells := by
  unfold frontOk at h
  split at h
  · split at h
    · rename_i c hc
      simp only [beq_iff_eq] at h
      exact mem_ids.mpr ⟨c, List.mem_of_getLast? hc, h⟩
    · cases h
  · split at h
    · rename_i c hc
      simp only [beq_iff_eq] at h
      exact mem_ids.mpr ⟨c, List.mem_of_head? hc, h⟩
    · cases h
  · split at h
    · rename_i c hc
      have := List.find?_some hc
      simp only [beq_iff_eq] at this
      exact mem_ids.mpr ⟨c, List.mem_of_find?_eq_some hc, this⟩
    · cases h

/-- cells of the state after an admissible step, in terms of ids -/
theorem conservation_step {cfg : Config} {s : State} {e : Event} (hi : Inv cfg s)
    (hc : check cfg s e = true) :
    ((ids (Spec.step cfg s e).cells : Multiset Nat) + (handedOut [e] : Multiset Nat)
        + (destroyed [e] : Multiset Nat) + (erased [e] : Multiset Nat))
      = (ids s.cells : Multiset Nat) + (pushedIds [e] : Multiset Nat) := by
  cases e with
  | push c stored =>
    cases stored with
    | false => simp [Spec.step, handedOut, destroyed, erased, pushedIds, ids]
    | true =>
      simp only [Spec.step, handedOut, destroyed, erased, pushedIds, ids, if_true, List.map_append,
        List.map_cons, List.map_nil, Multiset.coe_nil, add_zero]
      rw [← Multiset.coe_add]
  | pop sel which id moved =>
    simp only [check, Bool.and_eq_true] at hc
    have hm := frontOk_mem hc.1.2
    have hp := ids_removeId_perm hi.nodup hm
    have hids : ids (Spec.step cfg s (.pop sel which id moved)).cells = ids (removeId id s.cells) := by
      simp only [Spec.step]
      split
      · exact ids_map_of_id (retag_id moved) _
      · rfl
    rw [hids]
    simp only [handedOut, destroyed, erased, pushedIds, Multiset.coe_nil, add_zero]
    rw [Multiset.coe_eq_coe.mpr hp]
    simp only [Multiset.coe_add, Multiset.coe_eq_coe]
    simp
  | top sel which id => simp [Spec.step, handedOut, destroyed, erased, pushedIds]
  | minimum crit v => simp [Spec.step, handedOut, destroyed, erased, pushedIds]
  | contract loup deleted =>
    simp only [check, Bool.and_eq_true, beq_iff_eq] at hc
    have hp := ids_filter_partition (fun c => Ext.le c.c1 loup) s.cells
    simp only [Spec.step, handedOut, destroyed, erased, pushedIds, Multiset.coe_nil, add_zero,
      List.append_nil]
    rw [Multiset.coe_eq_coe.mpr hp, hc.2, Multiset.coe_add]
  | flush deleted =>
    simp only [check, beq_iff_eq] at hc
    simp [Spec.step, handedOut, destroyed, erased, pushedIds, hc, ids]
  | size n => simp [Spec.step, handedOut, destroyed, erased, pushedIds]
  | empty b => simp [Spec.step, handedOut, destroyed, erased, pushedIds]
  | recost crit l =>
    simp [Spec.step, handedOut, destroyed, erased, pushedIds, ids_map_of_id (setCost_id crit l)]
  | erase id =>
    simp only [check, Bool.and_eq_true, List.contains_iff_mem] at hc
    have hp := ids_removeId_perm hi.nodup hc.2
    simp only [Spec.step, handedOut, destroyed, erased, pushedIds, Multiset.coe_nil, add_zero]
    rw [Multiset.coe_eq_coe.mpr hp]
    simp only [Multiset.coe_add, Multiset.coe_eq_coe]
    simp
  | heaps a b => simp [Spec.step, handedOut, destroyed, erased, pushedIds]
  | tree k o => simp [Spec.step, handedOut, destroyed, erased, pushedIds]

theorem pushedIds_cons (e : Event) (es : List Event) : pushedIds (e :: es) = pushedIds [e] ++ pushedIds es := by
  cases e with
  | push c b => cases b <;> simp [pushedIds]
  | _ => simp [pushedIds]
theorem handedOut_cons (e : Event) (es : List Event) : handedOut (e :: es) = handedOut [e] ++ handedOut es := by
  cases e <;> simp [handedOut]
theorem destroyed_cons (e : Event) (es : List Event) : destroyed (e :: es) = destroyed [e] ++ destroyed es := by
  cases e <;> simp [destroyed]
theorem erased_cons (e : Event) (es : List Event) : erased (e :: es) = erased [e] ++ erased es := by
  cases e <;> simp [erased]

/-- **conservation**, from any state satisfying the invariant: stored + handed out + destroyed +
    erased = stored before + pushed (as multisets of ids) -/
theorem conservation_from {cfg : Config} {s : State} {evs : List Event} (hi : Inv cfg s)
    (h : go cfg s evs = true) :
    ((ids (Spec.run cfg s evs).cells : Multiset Nat) + (handedOut evs : Multiset Nat)
        + (destroyed evs : Multiset Nat) + (erased evs : Multiset Nat))
      = (ids s.cells : Multiset Nat) + (pushedIds evs : Multiset Nat) := by
  induction evs generalizing s with
  | nil => simp [Spec.run, handedOut, destroyed, erased, pushedIds]
  | cons e es ih =>
    rw [go_cons] at h
    have h1 := conservation_step hi h.1
    have h2 := ih (inv_step hi h.1) h.2
    rw [pushedIds_cons, handedOut_cons, destroyed_cons, erased_cons]
    simp only [Spec.run, ← Multiset.coe_add]
    calc _ = ((ids (Spec.run cfg (Spec.step cfg s e) es).cells : Multiset Nat) + (handedOut es : Multiset Nat)
              + (destroyed es : Multiset Nat) + (erased es : Multiset Nat))
              + ((handedOut [e] : Multiset Nat) + (destroyed [e] : Multiset Nat) + (erased [e] : Multiset Nat)) := by abel
      _ = ((ids (Spec.step cfg s e).cells : Multiset Nat) + (pushedIds es : Multiset Nat))
              + ((handedOut [e] : Multiset Nat) + (destroyed [e] : Multiset Nat) + (erased [e] : Multiset Nat)) := by rw [h2]
      _ = ((ids (Spec.step cfg s e).cells : Multiset Nat) + (handedOut [e] : Multiset Nat)
              + (destroyed [e] : Multiset Nat) + (erased [e] : Multiset Nat)) + (pushedIds es : Multiset Nat) := by abel
      _ = _ := by rw [h1]; abel

/-- ids pushed in an accepted history are fresh: strictly increasing, all `≥ next` -/
theorem pushed_sorted_from {cfg : Config} {s : State} {evs : List Event} (h : go cfg s evs = true) :
    (pushedIds evs).Pairwise (· < ·) ∧ ∀ i ∈ pushedIds evs, s.next ≤ i := by
  induction evs generalizing s with
  | nil => simp [pushedIds]
  | cons e es ih =>
    rw [go_cons] at h
    have ⟨h1, h2⟩ := ih h.2
    by_cases hp : ∃ c, e = .push c true
    · obtain ⟨c, rfl⟩ := hp
      have hid : c.id = s.next := by
        have := h.1
        simp only [check, Bool.and_eq_true, beq_iff_eq] at this
        exact this.1.1.1
      simp only [pushedIds, List.pairwise_cons, List.mem_cons, forall_eq_or_imp]
      have hn : (Spec.step cfg s (.push c true)).next = s.next + 1 := by simp [Spec.step]
      refine ⟨⟨fun a ha => ?_, h1⟩, Nat.le_of_eq hid.symm, fun a ha => ?_⟩
      · have := h2 a ha; omega
      · have := h2 a ha; omega
    · have hpe : pushedIds (e :: es) = pushedIds es := by
        cases e with
        | push c b =>
          cases b
          · rfl
          · exact absurd ⟨c, rfl⟩ hp
        | _ => rfl
      rw [hpe]
      exact ⟨h1, fun i hi => Nat.le_trans (step_next_le cfg s e) (h2 i hi)⟩

theorem pushed_nodup_from {cfg : Config} {s : State} {evs : List Event} (hi : Inv cfg s)
    (h : go cfg s evs = true) : (ids s.cells ++ pushedIds evs).Nodup := by
  have ⟨h1, h2⟩ := pushed_sorted_from h
  have : (ids s.cells ++ pushedIds evs).Pairwise (· < ·) := by
    rw [List.pairwise_append]
    exact ⟨hi.sorted, h1, fun a ha b hb => Nat.lt_of_lt_of_le (hi.bound a ha) (h2 b hb)⟩
  exact this.imp (fun h => Nat.ne_of_lt h)

/-! ### order facts on `Ext` (through the embedding into `EReal`) -/

theorem ext_le_refl (a : Ext) : Ext.le a a = true := (Ext.le_iff a a).mpr le_rfl
theorem ext_le_trans {a b c : Ext} (h1 : Ext.le a b = true) (h2 : Ext.le b c = true) : Ext.le a c = true :=
  (Ext.le_iff a c).mpr (le_trans ((Ext.le_iff a b).mp h1) ((Ext.le_iff b c).mp h2))
theorem ext_le_total (a b : Ext) : Ext.le a b = true ∨ Ext.le b a = true := by
  rcases le_total a.toE b.toE with h | h
  · exact Or.inl ((Ext.le_iff a b).mpr h)
  · exact Or.inr ((Ext.le_iff b a).mpr h)
theorem ext_not_le {a b : Ext} : Ext.le a b = false ↔ b.toE < a.toE := by
  rw [← not_le, ← Ext.le_iff]; simp

/-! ### what an accepted answer means -/

theorem cell_eq_of_id {cs : List Cell} (hn : (ids cs).Nodup) {c d : Cell} (hc : c ∈ cs) (hd : d ∈ cs)
    (h : c.id = d.id) : c = d :=
  List.inj_on_of_nodup_map hn hc hd h

theorem find_id {cs : List Cell} (hn : (ids cs).Nodup) {c : Cell} (hc : c ∈ cs) :
    cs.find? (fun x => x.id == c.id) = some c := by
  cases hf : cs.find? (fun x => x.id == c.id) with
  | none =>
    rw [List.find?_eq_none] at hf
    have := hf c hc
    simp at this
  | some d =>
    have h1 := List.find?_some hf
    simp only [beq_iff_eq] at h1
    rw [cell_eq_of_id hn (List.mem_of_find?_eq_some hf) hc h1]

theorem costOf_mem {cs : List Cell} (hn : (ids cs).Nodup) {c : Cell} (hc : c ∈ cs) (k : Nat) :
    costOf k cs c.id = cost k c := by
  unfold costOf; rw [find_id hn hc]

theorem src_of_not_beam {cfg : Config} (h : cfg.kind ≠ .beam) (cs : List Cell) : src cfg cs = 0 := by
  unfold src; split
  · exact absurd ‹_› h
  · rfl

theorem selOk_which {cfg : Config} {s : State} {sel w : Nat} (h : selOk cfg s sel w = true) :
    (w = 0 ∨ w = 1) ∧ (cfg.kind ≠ .dheap → w = 0 ∧ sel = 0) := by
  unfold selOk at h
  split at h
  · refine ⟨?_, fun hk => absurd ‹_› hk⟩
    split at h
    · simp only [Bool.and_eq_true, Bool.or_eq_true, beq_iff_eq] at h; exact h.2
    · simp only [beq_iff_eq] at h; exact Or.inl h
    · simp only [beq_iff_eq] at h; exact Or.inr h
    · cases h
  · simp only [Bool.and_eq_true, beq_iff_eq] at h
    exact ⟨Or.inl h.2, fun _ => ⟨h.2, h.1⟩⟩

/-- pop / top of a heap-like buffer: the cell is stored, sits in the sub-buffer that serves the
    request, and its cost (criterion `w`) is minimal among the cells of that sub-buffer -/
theorem frontOk_heap {cfg : Config} {s : State} {w id : Nat}
    (hk : cfg.kind = .heap ∨ cfg.kind = .dheap ∨ cfg.kind = .beam)
    (h : frontOk cfg s w id = true) :
    ∃ c ∈ s.cells, c.id = id ∧ c.tag = src cfg s.cells ∧
      ∀ d ∈ s.cells, d.tag = src cfg s.cells → Ext.le (cost w c) (cost w d) = true := by
  unfold frontOk at h
  split at h
  · rename_i hs; rcases hk with hk | hk | hk <;> rw [hk] at hs <;> cases hs
  · rename_i hs; rcases hk with hk | hk | hk <;> rw [hk] at hs <;> cases hs
  · split at h
    · rename_i c hc
      have h1 := List.find?_some hc
      simp only [beq_iff_eq, Bool.and_eq_true] at h1 h
      refine ⟨c, List.mem_of_find?_eq_some hc, h1, h.1, fun d hd ht => ?_⟩
      have := h.2
      unfold isMin at this
      rw [List.all_eq_true] at this
      apply this d
      unfold pool
      rw [List.mem_filter]
      exact ⟨hd, by simp [ht]⟩
    · cases h

/-- heap / double heap: all cells live in one sub-buffer, so the minimum is global -/
theorem frontOk_global {cfg : Config} {s : State} {w id : Nat} (hi : Inv cfg s)
    (hk : cfg.kind = .heap ∨ cfg.kind = .dheap) (h : frontOk cfg s w id = true) :
    ∃ c ∈ s.cells, c.id = id ∧ ∀ d ∈ s.cells, Ext.le (cost w c) (cost w d) = true := by
  have hnb : cfg.kind ≠ .beam := by rcases hk with hk | hk <;> simp [hk]
  obtain ⟨c, hc, hid, _, hmin⟩ := frontOk_heap (by rcases hk with hk | hk <;> simp [hk]) h
  refine ⟨c, hc, hid, fun d hd => hmin d hd ?_⟩
  rw [src_of_not_beam hnb]; exact hi.tags hnb d hd

theorem frontOk_stack {cfg : Config} {s : State} {w id : Nat} (hi : Inv cfg s) (hk : cfg.kind = .stack)
    (h : frontOk cfg s w id = true) : id ∈ ids s.cells ∧ ∀ j ∈ ids s.cells, j ≤ id := by
  refine ⟨frontOk_mem h, ?_⟩
  unfold frontOk at h
  simp only [hk] at h
  split at h
  · rename_i c hc
    simp only [beq_iff_eq] at h
    obtain ⟨ys, hys⟩ := List.getLast?_eq_some_iff.mp hc
    have hs := hi.sorted
    rw [hys] at hs ⊢
    simp only [ids, List.map_append, List.map_cons, List.map_nil] at hs ⊢
    rw [List.pairwise_append] at hs
    intro j hj
    rw [List.mem_append, List.mem_singleton] at hj
    rcases hj with hj | hj
    · have := hs.2.2 j hj c.id (List.mem_singleton.mpr rfl); omega
    · omega
  · cases h

theorem frontOk_list {cfg : Config} {s : State} {w id : Nat} (hi : Inv cfg s) (hk : cfg.kind = .list)
    (h : frontOk cfg s w id = true) : id ∈ ids s.cells ∧ ∀ j ∈ ids s.cells, id ≤ j := by
  refine ⟨frontOk_mem h, ?_⟩
  unfold frontOk at h
  simp only [hk] at h
  split at h
  · rename_i c hc
    simp only [beq_iff_eq] at h
    obtain ⟨t, ht⟩ := List.head?_eq_some_iff.mp hc
    have hs := hi.sorted
    rw [ht] at hs ⊢
    simp only [ids, List.map_cons, List.pairwise_cons] at hs ⊢
    intro j hj
    rw [List.mem_cons] at hj
    rcases hj with hj | hj
    · omega
    · have := hs.1 j hj; omega
  · cases h

theorem minimum_sound {cfg : Config} {s : State} {k : Nat} {v : Ext}
    (h : check cfg s (.minimum k v) = true) :
    (∃ c ∈ s.cells, cost k c = v) ∧ ∀ d ∈ s.cells, Ext.le v (cost k d) = true := by
  simp only [check, Bool.and_eq_true, List.any_eq_true, decide_eq_true_eq, List.all_eq_true] at h
  exact ⟨h.1.2, h.2⟩

theorem contract_sound {cfg : Config} {s : State} {v : Ext} {del : List Nat} (hi : Inv cfg s)
    (h : check cfg s (.contract v del) = true) :
    del = ids (s.cells.filter (fun c => !Ext.le c.c1 v)) ∧
    (∀ c ∈ s.cells, (c.id ∈ del ↔ Ext.le c.c1 v = false)) ∧
    (∀ c ∈ s.cells, (c.id ∈ ids (Spec.step cfg s (.contract v del)).cells ↔ Ext.le c.c1 v = true)) := by
  simp only [check, Bool.and_eq_true, beq_iff_eq] at h
  refine ⟨h.2, fun c hc => ?_, fun c hc => ?_⟩
  · rw [h.2, mem_ids]
    constructor
    · rintro ⟨d, hd, hdi⟩
      rw [List.mem_filter] at hd
      rw [← cell_eq_of_id hi.nodup hd.1 hc hdi]
      simpa using hd.2
    · intro hle
      exact ⟨c, List.mem_filter.mpr ⟨hc, by simp [hle]⟩, rfl⟩
  · simp only [Spec.step]
    rw [mem_ids]
    constructor
    · rintro ⟨d, hd, hdi⟩
      rw [List.mem_filter] at hd
      rw [← cell_eq_of_id hi.nodup hd.1 hc hdi]
      exact hd.2
    · intro hle
      exact ⟨c, List.mem_filter.mpr ⟨hc, hle⟩, rfl⟩

theorem flush_sound {cfg : Config} {s : State} {del : List Nat} (h : check cfg s (.flush del) = true) :
    del = ids s.cells ∧ (Spec.step cfg s (.flush del)).cells = [] := by
  simp only [check, beq_iff_eq] at h
  exact ⟨h, rfl⟩

theorem nodupB_iff (l : List Nat) : nodupB l = true ↔ l.Nodup := by
  induction l with
  | nil => simp [nodupB]
  | cons a t ih => simp [nodupB, ih]

/-- the root of an array-embedded binary heap is a least entry -/
theorem heapOrdered_root_le {l : List Ext} (h : heapOrdered l = true) (i : Nat) (hi : i < l.length) :
    Ext.le (l.getD 0 .pinf) (l.getD i .pinf) = true := by
  induction i using Nat.strong_induction_on with
  | _ i ih =>
    by_cases h0 : i = 0
    · subst h0; exact ext_le_refl _
    · unfold heapOrdered at h
      rw [List.all_eq_true] at h
      have := h i (List.mem_range.mpr hi)
      simp only [Bool.or_eq_true, beq_iff_eq] at this
      rcases this with this | this
      · exact absurd this h0
      · have hp : (i - 1) / 2 < i := by omega
        exact ext_le_trans (ih _ hp (by omega)) this

theorem tree_sound {cfg : Config} {s : State} {k : Nat} {o : List Nat} (hi : Inv cfg s)
    (h : check cfg s (.tree k o) = true) :
    o.Perm (ids s.cells) ∧
      ∀ r, o.head? = some r → ∀ d ∈ s.cells, Ext.le (costOf k s.cells r) (cost k d) = true := by
  simp only [check, Bool.and_eq_true, beq_iff_eq, nodupB_iff, List.all_eq_true,
    List.contains_iff_mem] at h
  obtain ⟨⟨⟨⟨_, hlen⟩, hnd⟩, hsub⟩, hord⟩ := h
  have hperm : o.Perm (ids s.cells) := by
    apply List.Subperm.perm_of_length_le (List.subperm_of_subset hnd hsub)
    simp [ids, hlen]
  refine ⟨hperm, fun r hr d hd => ?_⟩
  have hdo : d.id ∈ o := hperm.mem_iff.mpr (mem_ids.mpr ⟨d, hd, rfl⟩)
  obtain ⟨i, hi', hget⟩ := List.getElem_of_mem hdo
  have h1 := heapOrdered_root_le hord i (by simpa using hi')
  have hr' : o = r :: o.tail := by
    cases o with
    | nil => cases hr
    | cons a t => simp only [List.head?_cons, Option.some.injEq] at hr; simp [hr]
  have e0 : (o.map (costOf k s.cells)).getD 0 .pinf = costOf k s.cells r := by
    rw [hr']; simp
  have ei : (o.map (costOf k s.cells)).getD i .pinf = cost k d := by
    simp [List.getD_eq_getElem?_getD, hi', hget, costOf_mem hi.nodup hd]
  rw [e0, ei] at h1
  exact h1

/-! ### the specification is a priority queue: draining it sorts -/

theorem exists_argmin (f : Cell → Ext) {l : List Cell} (hl : l ≠ []) :
    ∃ c ∈ l, ∀ d ∈ l, Ext.le (f c) (f d) = true := by
  induction l with
  | nil => exact absurd rfl hl
  | cons a t ih =>
    by_cases ht : t = []
    · subst ht
      exact ⟨a, List.mem_singleton.mpr rfl, fun d hd => by
        rw [List.mem_singleton] at hd; subst hd; exact ext_le_refl _⟩
    · obtain ⟨c, hc, hmin⟩ := ih ht
      rcases ext_le_total (f a) (f c) with h | h
      · refine ⟨a, List.mem_cons_self, fun d hd => ?_⟩
        rw [List.mem_cons] at hd
        rcases hd with hd | hd
        · subst hd; exact ext_le_refl _
        · exact ext_le_trans h (hmin d hd)
      · refine ⟨c, List.mem_cons_of_mem _ hc, fun d hd => ?_⟩
        rw [List.mem_cons] at hd
        rcases hd with hd | hd
        · subst hd; exact h
        · exact hmin d hd

/-- the spec never blocks: a non-empty heap has an admissible `pop` -/
theorem exists_pop {cfg : Config} {s : State} (hi : Inv cfg s) (hk : cfg.kind = .heap)
    (hne : s.cells ≠ []) : ∃ id, check cfg s (.pop 0 0 id []) = true := by
  obtain ⟨c, hc, hmin⟩ := exists_argmin (cost 0) hne
  have hnb : cfg.kind ≠ .beam := by simp [hk]
  refine ⟨c.id, ?_⟩
  simp only [check, Bool.and_eq_true]
  refine ⟨⟨?_, ?_⟩, ?_⟩
  · simp [selOk, hk]
  · unfold frontOk
    simp only [hk]
    rw [find_id hi.nodup hc]
    simp only [Bool.and_eq_true, beq_iff_eq]
    refine ⟨by rw [src_of_not_beam hnb]; exact hi.tags hnb c hc, ?_⟩
    unfold isMin
    rw [List.all_eq_true]
    intro d hd
    exact hmin d (List.mem_filter.mp hd).1
  · simp [moveOk, hk]

def popAll (l : List Nat) : List Event := l.map (fun i => Event.pop 0 0 i [])

theorem handedOut_popAll (l : List Nat) : handedOut (popAll l) = l := by
  induction l with
  | nil => rfl
  | cons a t ih => simp [popAll, handedOut] at ih ⊢; exact ih
theorem destroyed_popAll (l : List Nat) : destroyed (popAll l) = [] := by
  induction l with
  | nil => rfl
  | cons a t ih => simp [popAll, destroyed] at ih ⊢; exact ih
theorem erased_popAll (l : List Nat) : erased (popAll l) = [] := by
  induction l with
  | nil => rfl
  | cons a t ih => simp [popAll, erased] at ih ⊢; exact ih
theorem pushedIds_popAll (l : List Nat) : pushedIds (popAll l) = [] := by
  induction l with
  | nil => rfl
  | cons a t ih => simp [popAll, pushedIds] at ih ⊢; exact ih

/-- popping `l` from a heap: the ids come out in non-decreasing cost order, without repetition,
    and together with what remains they are exactly the stored cells -/
theorem drain_sorted {cfg : Config} {s : State} (hi : Inv cfg s) (hk : cfg.kind = .heap) (l : List Nat)
    (h : go cfg s (popAll l) = true) :
    (l.map (costOf 0 s.cells)).Pairwise (fun a b => Ext.le a b = true) ∧
      (ids (Spec.run cfg s (popAll l)).cells ++ l).Perm (ids s.cells) := by
  constructor
  · induction l generalizing s with
    | nil => simp
    | cons i t ih =>
      have h' := h
      simp only [popAll, List.map_cons] at h'
      rw [go_cons] at h'
      have hi' := inv_step hi h'.1
      have hnb : cfg.kind ≠ .beam := by simp [hk]
      have hcells : (Spec.step cfg s (.pop 0 0 i [])).cells = removeId i s.cells := by
        simp [Spec.step, hk]
      have ht := ih hi' h'.2
      -- ids of `t` are stored after the pop (conservation), with unchanged costs
      have hcons := conservation_from hi' h'.2
      rw [show List.map (fun i => Event.pop 0 0 i []) t = popAll t from rfl, handedOut_popAll,
        destroyed_popAll, erased_popAll, pushedIds_popAll] at hcons
      simp only [Multiset.coe_nil, add_zero] at hcons
      have hmem : ∀ j ∈ t, j ∈ ids (removeId i s.cells) := by
        intro j hj
        rw [← hcells]
        have : j ∈ ((ids (Spec.step cfg s (.pop 0 0 i [])).cells : List Nat) : Multiset Nat) := by
          rw [← hcons]; simp [hj]
        simpa using this
      have hsame : ∀ j ∈ t, costOf 0 (removeId i s.cells) j = costOf 0 s.cells j := by
        intro j hj
        obtain ⟨d, hd, hdj⟩ := mem_ids.mp (hmem j hj)
        have hd' : d ∈ s.cells := (List.mem_filter.mp hd).1
        have hn' : (ids (removeId i s.cells)).Nodup := by rw [← hcells]; exact hi'.nodup
        rw [← hdj, costOf_mem hn' hd, costOf_mem hi.nodup hd']
      simp only [List.map_cons, List.pairwise_cons]
      constructor
      · intro a ha
        rw [List.mem_map] at ha
        obtain ⟨j, hj, rfl⟩ := ha
        simp only [check, Bool.and_eq_true] at h'
        obtain ⟨c, hc, hci, hmin⟩ := frontOk_global hi (Or.inl hk) h'.1.1.2
        obtain ⟨d, hd, hdj⟩ := mem_ids.mp (hmem j hj)
        have hd' : d ∈ s.cells := (List.mem_filter.mp hd).1
        rw [← hci, ← hdj, costOf_mem hi.nodup hc, costOf_mem hi.nodup hd']
        exact hmin d hd'
      · rw [hcells] at ht
        rw [List.map_congr_left hsame] at ht
        exact ht
  · have hcons := conservation_from hi h
    rw [handedOut_popAll, destroyed_popAll, erased_popAll, pushedIds_popAll] at hcons
    simp only [Multiset.coe_nil, add_zero, Multiset.coe_add, Multiset.coe_eq_coe] at hcons
    exact hcons

/-- a complete drain exists from every heap state -/
theorem exists_drain {cfg : Config} (hk : cfg.kind = .heap) :
    ∀ (n : Nat) (s : State), Inv cfg s → s.cells.length = n →
      ∃ l : List Nat, l.length = n ∧ go cfg s (popAll l) = true
        ∧ (Spec.run cfg s (popAll l)).cells = [] := by
  intro n
  induction n with
  | zero =>
    intro s _ hn
    exact ⟨[], rfl, rfl, List.length_eq_zero_iff.mp hn⟩
  | succ n ih =>
    intro s hi hn
    have hne : s.cells ≠ [] := by intro h; rw [h] at hn; cases hn
    obtain ⟨id, hid⟩ := exists_pop hi hk hne
    have hi' := inv_step hi hid
    have hm : id ∈ ids s.cells := by
      simp only [check, Bool.and_eq_true] at hid
      exact frontOk_mem hid.1.2
    have hlen : (Spec.step cfg s (.pop 0 0 id [])).cells.length = n := by
      have hp := (ids_removeId_perm hi.nodup hm).length_eq
      have : (Spec.step cfg s (.pop 0 0 id [])).cells = removeId id s.cells := by simp [Spec.step, hk]
      rw [this]
      simp only [ids, List.length_map, List.length_cons] at hp
      omega
    obtain ⟨l, hl, hgo, hnil⟩ := ih _ hi' hlen
    refine ⟨id :: l, by simp [hl], ?_, ?_⟩
    · simp only [popAll, List.map_cons]
      rw [go_cons]
      exact ⟨hid, hgo⟩
    · simpa [popAll, Spec.run] using hnil

end Ibex.Buffers
