/-
  C19 — separators: the separator contract and its closure under pair-of-contractors,
  intersection, union, complement and q-intersection, for ARBITRARY sub-separators.
-/
import IbexProofs.Comb

namespace Ibex.C19
open Ibex Ibex.Comb

/-- the separator contract, for boxes of dimension `n`, w.r.t. the set `S` (a separator is called with
    `x_in = x_out = x`):
    two sub-boxes; the points outside `S` stay in the inner box, the points of `S` stay in the outer box -/
structure SepOK (n : Nat) (s : SepFn) (S : Set Pt) : Prop where
  subIn : ∀ x, x.length = n → BSub (s x).xin x
  subOut : ∀ x, x.length = n → BSub (s x).xout x
  keepIn : ∀ x p, x.length = n → Mem p x → p ∉ S → Mem p (s x).xin
  keepOut : ∀ x p, x.length = n → Mem p x → p ∈ S → Mem p (s x).xout

/-- each point removed from the inner box belongs to the set -/
theorem SepOK.removed_inner {n : Nat} {s : SepFn} {S : Set Pt} (h : SepOK n s S) {x : Box} {p : Pt}
    (hx : x.length = n) (hp : Mem p x) (hr : ¬ Mem p (s x).xin) : p ∈ S := by
  by_contra hS; exact hr (h.keepIn x p hx hp hS)

/-- each point removed from the outer box does not belong to the set -/
theorem SepOK.removed_outer {n : Nat} {s : SepFn} {S : Set Pt} (h : SepOK n s S) {x : Box} {p : Pt}
    (hx : x.length = n) (hp : Mem p x) (hr : ¬ Mem p (s x).xout) : p ∉ S := fun hS => hr (h.keepOut x p hx hp hS)

/-- every point of the box stays in one of the two sub-boxes -/
theorem SepOK.cover {n : Nat} {s : SepFn} {S : Set Pt} (h : SepOK n s S) {x : Box} {p : Pt}
    (hx : x.length = n) (hp : Mem p x) : Mem p (s x).xin ∨ Mem p (s x).xout := by
  by_cases hS : p ∈ S
  · exact Or.inr (h.keepOut x p hx hp hS)
  · exact Or.inl (h.keepIn x p hx hp hS)

/-- `SepCtcPair`: inner contractor sound for a set containing the complement of `S`, outer contractor
    sound for a set containing `S` -/
theorem sepPair_ok (n : Nat) {cin cout : CtcFn} {A B S : Set Pt} (hi : CtcOK cin A) (ho : CtcOK cout B)
    (hA : ∀ p : Pt, p.length = n → p ∉ S → p ∈ A) (hB : S ⊆ B) : SepOK n (sepPairF cin cout) S where
  subIn x _ := hi.sub x _
  subOut x _ := ho.sub x _
  keepIn x p hx hp hS := hi.sound x _ p hp (hA p (hp.length_eq.trans hx) hS)
  keepOut x p _ hp hS := ho.sound x _ p hp (hB hS)

/-- synthetic leaf `(U,V)`: any set between the complement of `⋃V` and `⋃U` -/
theorem sepLeaf_ok (n : Nat) (U V : List Box) (S : Set Pt)
    (hlo : ∀ p : Pt, p.length = n → p ∉ unionSet V → p ∈ S) (hhi : S ⊆ unionSet U) :
    SepOK n (sepLeafF U V) S where
  subIn x _ := BSub_ctcU_aux x V _ (BSub_emptyLike x)
  subOut x _ := BSub_ctcU_aux x U _ (BSub_emptyLike x)
  keepIn x p hx hp hS := by
    have hV : p ∈ unionSet V := by
      by_contra h; exact hS (hlo p (hp.length_eq.trans hx) h)
    exact mem_ctcU_aux x p hp V _ (emptyLike_length x) (Or.inr hV)
  keepOut x p _ hp hS := mem_ctcU_aux x p hp U _ (emptyLike_length x) (Or.inr (hhi hS))

/-- complement -/
theorem sepNot_ok {n : Nat} {s : SepFn} {S : Set Pt} (h : SepOK n s S) : SepOK n (sepNotF s) Sᶜ where
  subIn x hx := h.subOut x hx
  subOut x hx := h.subIn x hx
  keepIn x p hx hp hS := h.keepOut x p hx hp (by simpa using hS)
  keepOut x p hx hp hS := h.keepIn x p hx hp hS

/-! ### intersection -/

theorem sepInterGo_ok {n : Nat} {ss : List SepFn} {Ss : List (Set Pt)} (h : List.Forall₂ (SepOK n) ss Ss) (x : Box)
    (hx : x.length = n) :
    ∀ (xo resIn : Box) (gu : Bool), BSub xo x → BSub resIn x →
      BSub (sepInterGo x ss xo resIn gu).xin x ∧ BSub (sepInterGo x ss xo resIn gu).xout x ∧
      (∀ p, Mem p x → (Mem p resIn ∨ (Mem p xo ∧ p ∉ interSets Ss)) → Mem p (sepInterGo x ss xo resIn gu).xin) ∧
      (∀ p, Mem p x → Mem p xo → p ∈ interSets Ss → Mem p (sepInterGo x ss xo resIn gu).xout) := by
  induction h with
  | nil =>
    intro xo resIn gu hxo hres
    refine ⟨hres, hxo, ?_, fun p _ hp _ => hp⟩
    intro p _ hp
    rcases hp with hp | ⟨_, hn⟩
    · exact hp
    · exact absurd (fun S hS => by simp at hS) hn
  | @cons s S ss Ss hs _ ih =>
    intro xo resIn gu hxo hres
    have hb : BSub (binter x xo) x := BSub_binter_left x xo
    have hbl : (binter x xo).length = n := (binter_length x xo).trans hx
    have hxi : BSub (s (binter x xo)).xin x := (hs.subIn _ hbl).trans hb
    have hxo' : BSub (s (binter x xo)).xout x := (hs.subOut _ hbl).trans hb
    have hl : resIn.length = (s (binter x xo)).xin.length := hres.length_eq.trans hxi.length_eq.symm
    obtain ⟨i1, i2, i3, i4⟩ := ih (s (binter x xo)).xout (Box.hull resIn (s (binter x xo)).xin) (gu || (s (binter x xo)).gaveUp)
      hxo' (BSub_hull hres hxi)
    refine ⟨i1, i2, ?_, ?_⟩
    · intro p hp hcase
      apply i3 p hp
      rcases hcase with hr | ⟨hpo, hn⟩
      · exact Or.inl (mem_hull_left hr hl)
      · have hpb : Mem p (binter x xo) := mem_binter hp hpo
        by_cases hS : p ∈ S
        · refine Or.inr ⟨hs.keepOut _ p hbl hpb hS, ?_⟩
          intro hall
          apply hn
          intro T hT
          rcases List.mem_cons.1 hT with rfl | hT'
          · exact hS
          · exact hall T hT'
        · exact Or.inl (mem_hull_right (hs.keepIn _ p hbl hpb hS) hl)
    · intro p hp hpo hall
      exact i4 p hp (hs.keepOut _ p hbl (mem_binter hp hpo) (hall S (List.mem_cons_self ..)))
        (fun T hT => hall T (List.mem_cons_of_mem _ hT))

/-- intersection of separators -/
theorem sepInter_ok {n : Nat} {ss : List SepFn} {Ss : List (Set Pt)} (h : List.Forall₂ (SepOK n) ss Ss) :
    SepOK n (sepInterF ss) (interSets Ss) where
  subIn x hx := (sepInterGo_ok h x hx x (emptyLike x) false (BSub.refl x) (BSub_emptyLike x)).1
  subOut x hx := (sepInterGo_ok h x hx x (emptyLike x) false (BSub.refl x) (BSub_emptyLike x)).2.1
  keepIn x p hx hp hS := (sepInterGo_ok h x hx x (emptyLike x) false (BSub.refl x) (BSub_emptyLike x)).2.2.1 p hp (Or.inr ⟨hp, hS⟩)
  keepOut x p hx hp hS := (sepInterGo_ok h x hx x (emptyLike x) false (BSub.refl x) (BSub_emptyLike x)).2.2.2 p hp hp hS

/-! ### union -/

theorem sepUnionGo_ok {n : Nat} {ss : List SepFn} {Ss : List (Set Pt)} (h : List.Forall₂ (SepOK n) ss Ss) (x : Box)
    (hx : x.length = n) :
    ∀ (xi resOut : Box) (gu : Bool), BSub xi x → BSub resOut x →
      BSub (sepUnionGo x ss xi resOut gu).xin x ∧ BSub (sepUnionGo x ss xi resOut gu).xout x ∧
      (∀ p, Mem p x → (Mem p resOut ∨ (Mem p xi ∧ p ∈ unionSets Ss)) → Mem p (sepUnionGo x ss xi resOut gu).xout) ∧
      (∀ p, Mem p x → Mem p xi → p ∉ unionSets Ss → Mem p (sepUnionGo x ss xi resOut gu).xin) := by
  induction h with
  | nil =>
    intro xi resOut gu hxi hres
    refine ⟨hxi, hres, ?_, fun p _ hp _ => hp⟩
    intro p _ hp
    rcases hp with hp | ⟨_, T, hT, _⟩
    · exact hp
    · simp at hT
  | @cons s S ss Ss hs _ ih =>
    intro xi resOut gu hxi hres
    have hb : BSub (binter x xi) x := BSub_binter_left x xi
    have hbl : (binter x xi).length = n := (binter_length x xi).trans hx
    have hxi' : BSub (s (binter x xi)).xin x := (hs.subIn _ hbl).trans hb
    have hxo : BSub (s (binter x xi)).xout x := (hs.subOut _ hbl).trans hb
    have hl : resOut.length = (s (binter x xi)).xout.length := hres.length_eq.trans hxo.length_eq.symm
    obtain ⟨i1, i2, i3, i4⟩ := ih (s (binter x xi)).xin (Box.hull resOut (s (binter x xi)).xout) (gu || (s (binter x xi)).gaveUp)
      hxi' (BSub_hull hres hxo)
    refine ⟨i1, i2, ?_, ?_⟩
    · intro p hp hcase
      apply i3 p hp
      rcases hcase with hr | ⟨hpi, T, hT, hpT⟩
      · exact Or.inl (mem_hull_left hr hl)
      · have hpb : Mem p (binter x xi) := mem_binter hp hpi
        by_cases hS : p ∈ S
        · exact Or.inl (mem_hull_right (hs.keepOut _ p hbl hpb hS) hl)
        · refine Or.inr ⟨hs.keepIn _ p hbl hpb hS, T, ?_, hpT⟩
          rcases List.mem_cons.1 hT with rfl | hT'
          · exact absurd hpT hS
          · exact hT'
    · intro p hp hpi hnone
      have hS : p ∉ S := fun hS => hnone ⟨S, List.mem_cons_self .., hS⟩
      exact i4 p hp (hs.keepIn _ p hbl (mem_binter hp hpi) hS)
        (fun ⟨T, hT, hpT⟩ => hnone ⟨T, List.mem_cons_of_mem _ hT, hpT⟩)

/-- union of separators -/
theorem sepUnion_ok {n : Nat} {ss : List SepFn} {Ss : List (Set Pt)} (h : List.Forall₂ (SepOK n) ss Ss) :
    SepOK n (sepUnionF ss) (unionSets Ss) where
  subIn x hx := (sepUnionGo_ok h x hx x (emptyLike x) false (BSub.refl x) (BSub_emptyLike x)).1
  subOut x hx := (sepUnionGo_ok h x hx x (emptyLike x) false (BSub.refl x) (BSub_emptyLike x)).2.1
  keepOut x p hx hp hS := (sepUnionGo_ok h x hx x (emptyLike x) false (BSub.refl x) (BSub_emptyLike x)).2.2.1 p hp (Or.inr ⟨hp, hS⟩)
  keepIn x p hx hp hS := (sepUnionGo_ok h x hx x (emptyLike x) false (BSub.refl x) (BSub_emptyLike x)).2.2.2 p hp hp hS

/-! ### q-intersection -/

theorem atLeast_zero (Ss : List (Set Pt)) (p : Pt) : p ∈ atLeast 0 Ss :=
  ⟨[], List.nil_sublist _, rfl, fun S hS => by simp at hS⟩

/-- a point that does not belong to `k` of the sets is outside at least `n+1-k` of them -/
theorem not_atLeast_compl (p : Pt) : ∀ (Ss : List (Set Pt)) (k : Nat), p ∉ atLeast k Ss →
    p ∈ atLeast (Ss.length + 1 - k) (Ss.map fun S => Sᶜ) := by
  intro Ss
  induction Ss with
  | nil =>
    intro k hk
    cases k with
    | zero => exact absurd (atLeast_zero [] p) hk
    | succ j =>
      have : ([] : List (Set Pt)).length + 1 - (j + 1) = 0 := by simp
      rw [this]; exact atLeast_zero _ p
  | cons S T ih =>
    intro k hk
    by_cases hpS : p ∈ S
    · cases k with
      | zero => exact absurd (atLeast_zero _ p) hk
      | succ j =>
        have hT : p ∉ atLeast j T := by
          rintro ⟨sub, hsub, hlen, hall⟩
          apply hk
          refine ⟨S :: sub, List.Sublist.cons_cons S hsub, by simp [hlen], ?_⟩
          intro U hU
          rcases List.mem_cons.1 hU with rfl | hU'
          · exact hpS
          · exact hall U hU'
        obtain ⟨sub, hsub, hlen, hall⟩ := ih j hT
        refine ⟨sub, ?_, ?_, hall⟩
        · simp only [List.map_cons]; exact List.Sublist.cons _ hsub
        · rw [hlen]; simp only [List.length_cons]; omega
    · have hT : p ∉ atLeast k T := by
        rintro ⟨sub, hsub, hlen, hall⟩
        exact hk ⟨sub, List.Sublist.cons S hsub, hlen, hall⟩
      obtain ⟨sub, hsub, hlen, hall⟩ := ih k hT
      by_cases hk' : k ≤ T.length + 1
      · refine ⟨Sᶜ :: sub, ?_, ?_, ?_⟩
        · simp only [List.map_cons]; exact List.Sublist.cons_cons _ hsub
        · simp only [List.length_cons, hlen]; omega
        · intro U hU
          rcases List.mem_cons.1 hU with rfl | hU'
          · exact hpS
          · exact hall U hU'
      · have : (S :: T).length + 1 - k = 0 := by simp only [List.length_cons]; omega
        rw [this]; exact atLeast_zero _ p

theorem sep_boxes_rel {n : Nat} {ss : List SepFn} {Ss : List (Set Pt)} (h : List.Forall₂ (SepOK n) ss Ss) (x : Box)
    (hx : x.length = n) :
    List.Forall₂ (fun (b : Box) (T : Set Pt) => ∀ p, Mem p x → p ∈ T → Mem p b)
      ((ss.map fun s => s x).map (·.xin)) (Ss.map fun S => Sᶜ) ∧
    List.Forall₂ (fun (b : Box) (T : Set Pt) => ∀ p, Mem p x → p ∈ T → Mem p b)
      ((ss.map fun s => s x).map (·.xout)) Ss := by
  induction h with
  | nil => exact ⟨List.Forall₂.nil, List.Forall₂.nil⟩
  | cons hs _ ih =>
    exact ⟨List.Forall₂.cons (fun p hp hT => hs.keepIn x p hx hp hT) ih.1,
           List.Forall₂.cons (fun p hp hT => hs.keepOut x p hx hp hT) ih.2⟩

theorem mem_qinterSpec_of_atLeast {x : Box} {boxes : List Box} {Ts : List (Set Pt)} {q : Nat} {p : Pt}
    (hrel : List.Forall₂ (fun (b : Box) (T : Set Pt) => ∀ p, Mem p x → p ∈ T → Mem p b) boxes Ts)
    (hp : Mem p x) (hS : p ∈ atLeast q Ts) : Mem p (qinterSpec x boxes q) := by
  obtain ⟨subS, hsub, hlen, hall⟩ := hS
  obtain ⟨subB, hsB, hr⟩ := sublist_forall₂ hrel hsub
  refine mem_qinterSpec hp hsB (hr.length_eq.trans hlen) ?_
  intro b hb
  obtain ⟨T, hT, hbT⟩ := forall₂_mem_left hr b hb
  exact hbT p hp (hall T hT)

/-- q-intersection of separators (`q` = number of separators that may be ignored): the set of the
    points that belong to at least `n-q` of the `n` sets -/
theorem sepQInter_ok {n : Nat} {ss : List SepFn} {Ss : List (Set Pt)} (h : List.Forall₂ (SepOK n) ss Ss) (q : Nat) :
    SepOK n (sepQInterF ss q) (atLeast (ss.length - q) Ss) where
  subIn x _ := BSub_binter_left _ _
  subOut x _ := BSub_binter_left _ _
  keepOut x p hx hp hS := mem_binter hp (mem_qinterSpec_of_atLeast (sep_boxes_rel h x hx).2 hp hS)
  keepIn x p hx hp hS := by
    have hlen : ss.length = Ss.length := h.length_eq
    have h1 := not_atLeast_compl p Ss (ss.length - q) hS
    by_cases hq : q ≤ Ss.length
    · have : Ss.length + 1 - (ss.length - q) = q + 1 := by omega
      rw [this] at h1
      exact mem_binter hp (mem_qinterSpec_of_atLeast (sep_boxes_rel h x hx).1 hp h1)
    · have : ss.length - q = 0 := by omega
      rw [this] at hS
      exact absurd (atLeast_zero Ss p) hS

end Ibex.C19
