/-
  Dual-number evaluation (`Alg.dual`, forward-mode automatic differentiation with exact rational
  arithmetic) computes TRUE derivatives.

  For a DAG with `n` flattened variables, a rational point `p` and the seeded environment of
  `Driver.dualEval` (variable `k` has value `p_k` and gradient `e_k`): if the dual evaluation is
  defined, with values `dvals`, then there are functions `fvals` of `x : Fin n → ℝ` such that
    * for all `x` in a neighbourhood of `p`, the evaluation with the real semantics `Alg.real` at
      `x` is defined and its values are `fvals x`  (so `fvals` IS the real denotation near `p`),
    * `fvals p = dvals.v`,
    * every entry of `fvals` is Fréchet-differentiable at `p` and its derivative is the linear
      map `v ↦ Σ_k g_k · v_k` where `g = dvals.g` is the gradient computed by the dual numbers.
  This holds for every DAG (any size, sharing, vectors/matrices, dot and matrix products,
  indexing, `chi`, applied functions = chain rule through `Eval.buildCalls`), because it is an
  instance of the naturality of the evaluator (`EvalCert.lean`) for the relation
  `DRel n p : Dual → ((Fin n → ℝ) → ℝ) → Prop` between `Alg.dual n` and the algebra of functions
  `Alg.ev (𝓝 p) Alg.real` (`EvalEv.lean`); the only operator-specific work is `Alg.dual_ev`.
-/
import IbexProofs.EvalEv
import IbexModel.Deriv
import Mathlib.Analysis.Calculus.FDeriv.Mul
import Mathlib.Analysis.Calculus.FDeriv.Add
import Mathlib.Analysis.Calculus.Deriv.ZPow
import Mathlib.Analysis.Calculus.Deriv.Inv
import Mathlib.Analysis.Calculus.FDeriv.Pi
import Mathlib.Analysis.Calculus.Deriv.Pi

namespace Ibex
open Ibex List Filter Topology

noncomputable section

/-! ## 1. gradients as linear maps -/

/-- coefficient `k` of a gradient list, as a real number -/
def gcoef (g : List ℚ) (k : ℕ) : ℝ := ((g.getD k 0 : ℚ) : ℝ)

/-- the linear map `v ↦ Σ_k g_k · v_k` -/
def gradMap (n : ℕ) (g : List ℚ) : (Fin n → ℝ) →L[ℝ] ℝ :=
  ∑ k : Fin n, gcoef g k • ContinuousLinearMap.proj k

theorem gradMap_apply (n : ℕ) (g : List ℚ) (v : Fin n → ℝ) :
    gradMap n g v = ∑ k : Fin n, gcoef g k * v k := by
  simp [gradMap]

theorem gcoef_lin {n : ℕ} {a b : ℚ} {x y : Dual} (hx : x.g.length = n) (hy : y.g.length = n) {k : ℕ}
    (hk : k < n) : gcoef (Dual.lin a x b y) k = (a : ℝ) * gcoef x.g k + (b : ℝ) * gcoef y.g k := by
  unfold gcoef Dual.lin
  rw [List.getD_eq_getElem?_getD, List.getD_eq_getElem?_getD, List.getD_eq_getElem?_getD,
    List.getElem?_zipWith, List.getElem?_eq_getElem (by omega : k < x.g.length),
    List.getElem?_eq_getElem (by omega : k < y.g.length)]
  simp

theorem gcoef_scale {a : ℚ} {x : Dual} {k : ℕ} : gcoef (Dual.scale a x) k = (a : ℝ) * gcoef x.g k := by
  unfold gcoef Dual.scale
  rw [List.getD_eq_getElem?_getD, List.getD_eq_getElem?_getD, List.getElem?_map]
  cases x.g[k]? <;> simp

theorem length_lin {n : ℕ} {a b : ℚ} {x y : Dual} (hx : x.g.length = n) (hy : y.g.length = n) :
    (Dual.lin a x b y).length = n := by
  simp [Dual.lin, hx, hy]

theorem length_scale {n : ℕ} {a : ℚ} {x : Dual} (hx : x.g.length = n) : (Dual.scale a x).length = n := by
  simp [Dual.scale, hx]

theorem gradMap_lin {n : ℕ} {a b : ℚ} {x y : Dual} (hx : x.g.length = n) (hy : y.g.length = n) :
    gradMap n (Dual.lin a x b y) = (a : ℝ) • gradMap n x.g + (b : ℝ) • gradMap n y.g := by
  ext v
  simp only [gradMap_apply, _root_.add_apply, _root_.smul_apply, smul_eq_mul,
    Finset.mul_sum, ← Finset.sum_add_distrib]
  refine Finset.sum_congr rfl fun k _ => ?_
  rw [gcoef_lin hx hy k.2]
  ring

theorem gradMap_scale {n : ℕ} {a : ℚ} {x : Dual} :
    gradMap n (Dual.scale a x) = (a : ℝ) • gradMap n x.g := by
  ext v
  simp only [gradMap_apply, _root_.smul_apply, smul_eq_mul, Finset.mul_sum]
  refine Finset.sum_congr rfl fun k _ => ?_
  rw [gcoef_scale]
  ring

theorem gradMap_zero (n : ℕ) : gradMap n (List.replicate n 0) = 0 := by
  ext v
  simp only [gradMap_apply, _root_.zero_apply]
  refine Finset.sum_eq_zero fun k _ => ?_
  simp [gcoef, List.getD_eq_getElem?_getD]

/-- gradient of the `k`-th coordinate function -/
theorem gradMap_unit {n : ℕ} (k : Fin n) :
    gradMap n ((List.range n).map fun j => if j == k.1 then (1 : ℚ) else 0) = ContinuousLinearMap.proj k := by
  ext v
  rw [gradMap_apply, ContinuousLinearMap.proj_apply, Finset.sum_eq_single k]
  · simp [gcoef, List.getD_eq_getElem?_getD]
  · intro j _ hjk
    have : ¬ (j.1 = k.1) := fun e => hjk (Fin.ext e)
    simp [gcoef, List.getD_eq_getElem?_getD, this]
  · intro h; exact absurd (Finset.mem_univ k) h

/-! ## 2. the relation between a dual number and a function -/

/-- `d` is the value and the gradient at `p` of the function `φ` (Fréchet derivative) -/
def DRel (n : ℕ) (p : Fin n → ℝ) (d : Dual) (φ : (Fin n → ℝ) → ℝ) : Prop :=
  d.g.length = n ∧ φ p = (d.v : ℝ) ∧ HasFDerivAt φ (gradMap n d.g) p

variable {n : ℕ} {p : Fin n → ℝ}

theorem hfd_congr {f : (Fin n → ℝ) → ℝ} {L L' : (Fin n → ℝ) →L[ℝ] ℝ} (h : HasFDerivAt f L p)
    (e : ∀ v, L v = L' v) : HasFDerivAt f L' p := h.congr_fderiv (ContinuousLinearMap.ext e)

theorem DRel.cont {d : Dual} {φ : (Fin n → ℝ) → ℝ} (h : DRel n p d φ) : ContinuousAt φ p := h.2.2.continuousAt

/-- a family of optional reals that is, near `p`, given by a differentiable function -/
theorem DRel.of_eventually {z : ℝ} {o : (Fin n → ℝ) → Option ℝ} {ψ : (Fin n → ℝ) → ℝ} {d : Dual}
    (hlen : d.g.length = n) (hev : ∀ᶠ x in 𝓝 p, o x = some (ψ x)) (hv : ψ p = (d.v : ℝ))
    (hd : HasFDerivAt ψ (gradMap n d.g) p) : ∃ ψ', evOpt (𝓝 p) z o = some ψ' ∧ DRel n p d ψ' := by
  obtain ⟨ψ', h1, h2⟩ := evOpt_of_eventually (z := z) hev
  exact ⟨ψ', h1, hlen, by rw [h2.eq_of_nhds, hv], hd.congr_of_eventuallyEq h2⟩

theorem DRel.const (n : ℕ) (p : Fin n → ℝ) (q : ℚ) : DRel n p (Dual.const n q) (fun _ => (q : ℝ)) := by
  refine ⟨by simp [Dual.const], rfl, ?_⟩
  show HasFDerivAt _ (gradMap n (List.replicate n 0)) p
  rw [gradMap_zero]
  exact hasFDerivAt_const _ _

/-! ## 3. every operator of `Alg.dual` computes the value and the derivative of the real operator -/

theorem ratPow_cast_nonneg (q : ℚ) {k : ℤ} (hk : 0 ≤ k) : ((q ^ k.toNat : ℚ) : ℝ) = (q : ℝ) ^ k := by
  conv_rhs => rw [← Int.toNat_of_nonneg hk]
  rw [zpow_natCast]
  push_cast
  rfl

theorem dual_ev_un (F : Filter (Fin n → ℝ)) (op : String) (h : (Alg.ev F Alg.real).un op = none) :
    (Alg.dual n).un op = none := by
  simp only [Alg.dual]
  split
  all_goals first
    | rfl
    | (simp [Alg.ev, Alg.real] at h)

theorem Alg.dual_ev_supp (F : Filter (Fin n → ℝ)) (nd : Node) : Eval.Supp (Alg.dual n) (Alg.ev F Alg.real) nd :=
  fun op _ _ _ h => dual_ev_un F op h

/-- **Operator-level correctness of the dual numbers**: when an operation of `Alg.dual n` is defined
    on dual numbers that are the values and gradients at `p` of some functions, then the real
    operation applied to these functions is defined in a neighbourhood of `p`, and the resulting
    dual number is the value and the gradient at `p` of the resulting function. -/
theorem Alg.dual_ev (n : ℕ) (p : Fin n → ℝ) : AlgRel (DRel n p) (Alg.dual n) (Alg.ev (𝓝 p) Alg.real) where
  ofItv := by
    intro I a h
    simp only [Alg.dual, Option.map_eq_some_iff] at h
    obtain ⟨q, hq, rfl⟩ := h
    obtain ⟨b, hb, hqb⟩ := Alg.rat_real.ofItv I q hq
    refine ⟨fun _ => b, ?_, ?_⟩
    · show (Alg.real.ofItv I).map _ = _
      rw [hb]; rfl
    · rw [show b = (q : ℝ) from hqb]
      exact DRel.const n p q
  zero := by
    have := DRel.const n p 0
    simp only [Rat.cast_zero] at this
    exact this
  add := by
    intro a φ b ψ x ha hb h
    simp only [Alg.dual, Option.some.injEq] at h
    subst h
    refine DRel.of_eventually (ψ := fun x => φ x + ψ x) (length_lin ha.1 hb.1)
      (Eventually.of_forall fun x => rfl) (by simp [ha.2.1, hb.2.1]) ?_
    refine hfd_congr (ha.2.2.add hb.2.2) fun v => ?_
    simp [gradMap_lin ha.1 hb.1]
  sub := by
    intro a φ b ψ x ha hb h
    simp only [Alg.dual, Option.some.injEq] at h
    subst h
    refine DRel.of_eventually (ψ := fun x => φ x - ψ x) (length_lin ha.1 hb.1)
      (Eventually.of_forall fun x => rfl) (by simp [ha.2.1, hb.2.1]) ?_
    refine hfd_congr (ha.2.2.sub hb.2.2) fun v => ?_
    simp [gradMap_lin ha.1 hb.1, sub_eq_add_neg]
  mul := by
    intro a φ b ψ x ha hb h
    simp only [Alg.dual, Option.some.injEq] at h
    subst h
    refine DRel.of_eventually (ψ := fun x => φ x * ψ x) (length_lin ha.1 hb.1)
      (Eventually.of_forall fun x => rfl) (by simp [ha.2.1, hb.2.1]) ?_
    refine hfd_congr (ha.2.2.mul hb.2.2) fun v => ?_
    simp only [gradMap_lin ha.1 hb.1, _root_.add_apply, _root_.smul_apply, smul_eq_mul, ha.2.1, hb.2.1]
    ring
  div := by
    intro a φ b ψ x ha hb h
    simp only [Alg.dual] at h
    split at h
    · exact absurd h (by simp)
    · rename_i hb0
      simp only [Option.some.injEq] at h
      subst h
      have hb0' : ψ p ≠ 0 := by rw [hb.2.1]; exact_mod_cast hb0
      have hne : ∀ᶠ x in 𝓝 p, ψ x ≠ 0 := hb.cont.eventually_ne hb0'
      refine DRel.of_eventually (ψ := fun x => φ x * (ψ x)⁻¹) (length_lin ha.1 hb.1) ?_ ?_ ?_
      · filter_upwards [hne] with x hx
        simp only [Alg.real, if_neg hx, div_eq_mul_inv]
      · simp [ha.2.1, hb.2.1, div_eq_mul_inv]
      · have hinv := (hasDerivAt_inv hb0').comp_hasFDerivAt p hb.2.2
        refine hfd_congr (ha.2.2.mul hinv) fun v => ?_
        simp only [gradMap_lin ha.1 hb.1, _root_.add_apply, _root_.smul_apply, smul_eq_mul,
          ha.2.1, hb.2.1]
        have : ((b.v : ℚ) : ℝ) ≠ 0 := by exact_mod_cast hb0
        push_cast
        field_simp
        ring
  max := by
    intro a φ b ψ x ha hb h
    simp only [Alg.dual] at h
    split at h
    · rename_i hlt
      simp only [Option.some.injEq] at h
      subst h
      have hlt' : φ p < ψ p := by rw [ha.2.1, hb.2.1]; exact_mod_cast hlt
      refine DRel.of_eventually (ψ := ψ) hb.1 ?_ hb.2.1 hb.2.2
      filter_upwards [ha.cont.eventually_lt hb.cont hlt'] with x hx
      simp only [Alg.real, max_eq_right hx.le]
    · split at h
      · rename_i _ hlt
        simp only [Option.some.injEq] at h
        subst h
        have hlt' : ψ p < φ p := by rw [ha.2.1, hb.2.1]; exact_mod_cast hlt
        refine DRel.of_eventually (ψ := φ) ha.1 ?_ ha.2.1 ha.2.2
        filter_upwards [hb.cont.eventually_lt ha.cont hlt'] with x hx
        simp only [Alg.real, max_eq_left hx.le]
      · exact absurd h (by simp)
  min := by
    intro a φ b ψ x ha hb h
    simp only [Alg.dual] at h
    split at h
    · rename_i hlt
      simp only [Option.some.injEq] at h
      subst h
      have hlt' : φ p < ψ p := by rw [ha.2.1, hb.2.1]; exact_mod_cast hlt
      refine DRel.of_eventually (ψ := φ) ha.1 ?_ ha.2.1 ha.2.2
      filter_upwards [ha.cont.eventually_lt hb.cont hlt'] with x hx
      simp only [Alg.real, min_eq_left hx.le]
    · split at h
      · rename_i _ hlt
        simp only [Option.some.injEq] at h
        subst h
        have hlt' : ψ p < φ p := by rw [ha.2.1, hb.2.1]; exact_mod_cast hlt
        refine DRel.of_eventually (ψ := ψ) hb.1 ?_ hb.2.1 hb.2.2
        filter_upwards [hb.cont.eventually_lt ha.cont hlt'] with x hx
        simp only [Alg.real, min_eq_right hx.le]
      · exact absurd h (by simp)
  un := by
    intro op f g hf hg a φ x ha hx
    simp only [Alg.dual] at hf
    split at hf
    · -- minus
      simp only [Alg.ev, Alg.real, Option.map_some, Option.some.injEq] at hf hg
      subst hf; subst hg
      simp only [Option.some.injEq] at hx; subst hx
      refine DRel.of_eventually (ψ := fun x => -φ x) (length_scale ha.1)
        (Eventually.of_forall fun x => rfl) (by simp [ha.2.1]) ?_
      refine hfd_congr ha.2.2.neg fun v => ?_
      simp [gradMap_scale]
    · -- sqr
      simp only [Alg.ev, Alg.real, Option.map_some, Option.some.injEq] at hf hg
      subst hf; subst hg
      simp only [Option.some.injEq] at hx; subst hx
      refine DRel.of_eventually (ψ := fun x => φ x * φ x) (length_scale ha.1)
        (Eventually.of_forall fun x => rfl) (by simp [ha.2.1]) ?_
      refine hfd_congr (ha.2.2.mul ha.2.2) fun v => ?_
      simp only [gradMap_scale, _root_.add_apply, _root_.smul_apply, smul_eq_mul, ha.2.1]
      push_cast
      ring
    · -- abs
      simp only [Alg.ev, Alg.real, Option.map_some, Option.some.injEq] at hf hg
      subst hf; subst hg
      simp only at hx
      split at hx
      · rename_i hpos
        simp only [Option.some.injEq] at hx; subst hx
        have hpos' : (0 : ℝ) < φ p := by rw [ha.2.1]; exact_mod_cast hpos
        refine DRel.of_eventually (ψ := φ) ha.1 ?_ ha.2.1 ha.2.2
        filter_upwards [continuousAt_const.eventually_lt ha.cont hpos'] with x hx
        simp only [abs_of_pos hx]
      · split at hx
        · rename_i _ hneg
          simp only [Option.some.injEq] at hx; subst hx
          have hneg' : φ p < 0 := by rw [ha.2.1]; exact_mod_cast hneg
          refine DRel.of_eventually (ψ := fun x => -φ x) (length_scale ha.1) ?_ (by simp [ha.2.1]) ?_
          · filter_upwards [ha.cont.eventually_lt continuousAt_const hneg'] with x hx
            simp only [abs_of_neg hx]
          · refine hfd_congr ha.2.2.neg fun v => ?_
            simp [gradMap_scale]
        · exact absurd hx (by simp)
    · -- sign
      simp only [Alg.ev, Alg.real, Option.map_some, Option.some.injEq] at hf hg
      subst hf; subst hg
      simp only at hx
      split at hx
      · exact absurd hx (by simp)
      · rename_i hne
        simp only [Option.some.injEq] at hx; subst hx
        refine DRel.of_eventually (ψ := fun _ => ((ratSign a.v : ℚ) : ℝ)) (length_scale ha.1) ?_ rfl ?_
        · rw [ratSign_cast, ← ha.2.1]
          rcases lt_or_gt_of_ne hne with hneg | hpos
          · have hneg' : φ p < 0 := by rw [ha.2.1]; exact_mod_cast hneg
            filter_upwards [ha.cont.eventually_lt continuousAt_const hneg'] with x hx
            rw [sign_neg hx, sign_neg hneg']
          · have hpos' : (0 : ℝ) < φ p := by rw [ha.2.1]; exact_mod_cast hpos
            filter_upwards [continuousAt_const.eventually_lt ha.cont hpos'] with x hx
            rw [sign_pos hx, sign_pos hpos']
        · refine hfd_congr (hasFDerivAt_const (((ratSign a.v : ℚ) : ℝ)) p) fun v => ?_
          simp [gradMap_scale]
    · exact absurd hf (by simp)
  pow := by
    intro k a φ x ha h
    simp only [Alg.dual] at h
    split at h
    · -- k = 0
      rename_i hk
      subst hk
      simp only [Option.some.injEq] at h; subst h
      refine DRel.of_eventually (ψ := fun _ => (1 : ℝ)) (length_scale ha.1) ?_ (by simp) ?_
      · exact Eventually.of_forall fun x => by simp [Alg.real]
      · refine hfd_congr (hasFDerivAt_const (1 : ℝ) p) fun v => ?_
        simp [gradMap_scale]
    · rename_i hk0
      split at h
      · -- k > 0
        rename_i hk
        simp only [Option.some.injEq] at h; subst h
        have hnn : ¬ k < 0 := by omega
        refine DRel.of_eventually (ψ := fun x => φ x ^ k) (length_scale ha.1) ?_ ?_ ?_
        · exact Eventually.of_forall fun x => by simp [Alg.real, hnn]
        · simp only [ha.2.1]
          exact (ratPow_cast_nonneg a.v (by omega)).symm
        · refine hfd_congr ((hasDerivAt_zpow k (φ p) (Or.inr (by omega))).comp_hasFDerivAt p ha.2.2)
            fun v => ?_
          simp only [gradMap_scale, _root_.smul_apply, smul_eq_mul, ha.2.1]
          have e : k - 1 = ((k.toNat - 1 : ℕ) : ℤ) := by omega
          rw [e, zpow_natCast]
          push_cast
          rfl
      · split at h
        · exact absurd h (by simp)
        · -- k < 0, a.v ≠ 0
          rename_i hk hne
          simp only [Option.some.injEq] at h; subst h
          have hne' : φ p ≠ 0 := by rw [ha.2.1]; exact_mod_cast hne
          have hq : ((a.v : ℚ) : ℝ) ≠ 0 := by exact_mod_cast hne
          refine DRel.of_eventually (ψ := fun x => φ x ^ k) (length_scale ha.1) ?_ ?_ ?_
          · filter_upwards [ha.cont.eventually_ne hne'] with x hx
            simp [Alg.real, hx]
          · simp only [ha.2.1]
            have e : k = -(((-k).toNat : ℕ) : ℤ) := by omega
            conv_lhs => rw [e]
            rw [zpow_neg, zpow_natCast]
            push_cast
            simp
          · refine hfd_congr ((hasDerivAt_zpow k (φ p) (Or.inl hne')).comp_hasFDerivAt p ha.2.2)
              fun v => ?_
            simp only [gradMap_scale, _root_.smul_apply, smul_eq_mul, ha.2.1]
            have e : k - 1 = -((((-k).toNat + 1 : ℕ)) : ℤ) := by omega
            rw [e, zpow_neg, zpow_natCast, div_eq_mul_inv]
            push_cast
            rfl
  chi := by
    intro a φa b φb c φc x ha hb hc h
    simp only [Alg.dual] at h
    split at h
    · rename_i hneg
      simp only [Option.some.injEq] at h; subst h
      have hneg' : φa p < 0 := by rw [ha.2.1]; exact_mod_cast hneg
      refine DRel.of_eventually (ψ := φb) hb.1 ?_ hb.2.1 hb.2.2
      filter_upwards [ha.cont.eventually_lt continuousAt_const hneg'] with x hx
      simp only [Alg.real, if_pos hx.le]
    · split at h
      · rename_i _ hpos
        simp only [Option.some.injEq] at h; subst h
        have hpos' : (0 : ℝ) < φa p := by rw [ha.2.1]; exact_mod_cast hpos
        refine DRel.of_eventually (ψ := φc) hc.1 ?_ hc.2.1 hc.2.2
        filter_upwards [continuousAt_const.eventually_lt ha.cont hpos'] with x hx
        simp only [Alg.real, if_neg (not_le.2 hx)]
      · exact absurd h (by simp)

/-! ## 4. every DAG: the dual evaluation computes the value and the derivative of the real denotation -/

/-- the real point denoted by a list of rationals -/
def ptR (p : List ℚ) : Fin p.length → ℝ := fun k => ((p[k.1]'k.2 : ℚ) : ℝ)

/-- the coordinate functions `x ↦ x_k`, i.e. the environment of the function algebra -/
def coordFns (n : ℕ) : List ((Fin n → ℝ) → ℝ) := List.ofFn fun (k : Fin n) (x : Fin n → ℝ) => x k

theorem coordFns_at {n : ℕ} (x : Fin n → ℝ) : (coordFns n).map (· x) = List.ofFn x := by
  unfold coordFns
  rw [List.map_ofFn]
  rfl

/-- the seeded environment of `dualEval`: variable `k` has value `p_k` and gradient `e_k` -/
theorem seed_rel (p : List ℚ) : Forall₂ (DRel p.length (ptR p)) (Deriv.seed p) (coordFns p.length) := by
  rw [List.forall₂_iff_get]
  refine ⟨by simp [Deriv.seed, coordFns], fun i h1 h2 => ?_⟩
  have hi : i < p.length := by simpa [Deriv.seed] using h1
  simp only [Deriv.seed, coordFns, List.get_eq_getElem, List.getElem_map, List.getElem_zipIdx,
    List.getElem_ofFn, Nat.zero_add]
  refine ⟨by simp, rfl, ?_⟩
  show HasFDerivAt _ (gradMap p.length ((List.range p.length).map fun j => if j == i then (1 : ℚ) else 0)) _
  rw [gradMap_unit ⟨i, hi⟩]
  exact hasFDerivAt_apply (𝕜 := ℝ) (⟨i, hi⟩ : Fin p.length) (ptR p)

/-- **Correctness of the dual evaluation, all nodes.**  If the dual-number evaluation of `dag`
    (with applied functions `funs`) at the rational point `p` is defined, with node values `dvals`,
    then there are node values `fvals` that are functions of `x : Fin n → ℝ` such that
    (1) for every `x` in a neighbourhood of `p` the evaluation of `dag` in the real semantics at `x`
        is defined and its node values are `fvals` at `x`;
    (2) every entry `d` of `dvals` and the corresponding entry `φ` of `fvals` satisfy `DRel`:
        `φ p = d.v` and `φ` has the Fréchet derivative `v ↦ Σ_k d.g[k]·v_k` at `p`. -/
theorem dual_run_correct (funs : List Dag) (dag : Dag) (p : List ℚ) {dvals : Array (Mat Dual)}
    (h : Eval.run (Alg.dual p.length) (Deriv.seed p) (Eval.buildCalls (Alg.dual p.length) funs) dag = some dvals) :
    ∃ fvals : Array (Mat ((Fin p.length → ℝ) → ℝ)),
      (∀ᶠ x in 𝓝 (ptR p), Eval.run Alg.real (List.ofFn x) (Eval.buildCalls Alg.real funs) dag
          = some (fvals.map (Mat.at x))) ∧
      dvals.size = fvals.size ∧ Eval.ArgsRel (DRel p.length (ptR p)) dvals fvals := by
  have hA := Alg.dual_ev p.length (ptR p)
  obtain ⟨fvals, hrun, hs, hv⟩ := Eval.run_rel_total hA (seed_rel p)
    (Eval.buildCalls_rel_total hA funs fun _ _ nd _ => Alg.dual_ev_supp _ nd)
    (fun nd _ => Alg.dual_ev_supp _ nd) h
  refine ⟨fvals, ?_, hs, hv⟩
  filter_upwards [Eval.run_ev (Eval.buildCalls_ev funs) hrun] with x hx
  rw [coordFns_at] at hx
  exact hx

/-- **Correctness of the dual evaluation, root value** (`Deriv.dualEval`, as used by the driver). -/
theorem dual_root_correct (funs : List Dag) (dag : Dag) (p : List ℚ) {dv : Mat Dual}
    (h : Deriv.dualEval funs dag p = some dv) :
    ∃ fv : Mat ((Fin p.length → ℝ) → ℝ),
      (∀ᶠ x in 𝓝 (ptR p), Eval.root Alg.real (List.ofFn x) (Eval.buildCalls Alg.real funs) dag = some (fv.at x)) ∧
      MatRel (DRel p.length (ptR p)) dv fv := by
  have hA := Alg.dual_ev p.length (ptR p)
  obtain ⟨fv, hroot, hv⟩ := Eval.root_rel_total hA (seed_rel p)
    (Eval.buildCalls_rel_total hA funs fun _ _ nd _ => Alg.dual_ev_supp _ nd)
    (fun nd _ => Alg.dual_ev_supp _ nd) h
  refine ⟨fv, ?_, hv⟩
  filter_upwards [Eval.root_ev (Eval.buildCalls_ev funs) hroot] with x hx
  rw [coordFns_at] at hx
  exact hx

/-! ## 5. partial derivatives -/

theorem gradMap_single {n : ℕ} (g : List ℚ) (j : Fin n) : gradMap n g (Pi.single j 1) = gcoef g j := by
  rw [gradMap_apply, Finset.sum_eq_single j]
  · simp
  · intro k _ hkj
    simp [hkj]
  · intro h; exact absurd (Finset.mem_univ j) h

/-- the `j`-th partial derivative: derivative of `t ↦ φ (p with p_j replaced by t)` at `t = p_j` -/
theorem DRel.partial {d : Dual} {φ : (Fin n → ℝ) → ℝ} (h : DRel n p d φ) (j : Fin n) :
    HasDerivAt (fun t => φ (Function.update p j t)) (gcoef d.g j) (p j) := by
  have h1 := hasDerivAt_update p j (p j)
  have h2 : HasFDerivAt φ (gradMap n d.g) (Function.update p j (p j)) := by
    rw [Function.update_eq_self]; exact h.2.2
  have := h2.comp_hasDerivAt (p j) h1
  rw [gradMap_single] at this
  exact this

/-- along the line `t ↦ p + t·e_j`, at `t = 0` -/
theorem DRel.partial_line {d : Dual} {φ : (Fin n → ℝ) → ℝ} (h : DRel n p d φ) (j : Fin n) :
    HasDerivAt (fun t => φ (Function.update p j (p j + t))) (gcoef d.g j) 0 := by
  have h1 : HasDerivAt (fun t : ℝ => p j + t) 1 0 := by
    simpa using (hasDerivAt_id (0 : ℝ)).const_add (p j)
  have h2 : HasDerivAt (fun t => φ (Function.update p j t)) (gcoef d.g j) (p j + 0) := by
    rw [add_zero]; exact h.partial j
  have := h2.comp (0 : ℝ) h1
  rw [mul_one] at this
  exact this

/-- **One direction at a time** (the line `t ↦ p + t·e_j`): for `t` near `0` the real evaluation at
    `p + t·e_j` is defined, its node values are `fvals` at that point, and for every node and every
    entry `d` of its dual value, the entry `φ` of `fvals` satisfies `φ(p) = d.v` and
    `t ↦ φ(p + t·e_j)` has the derivative `d.g[j]` at `t = 0`. -/
theorem dual_run_correct_line (funs : List Dag) (dag : Dag) (p : List ℚ) {dvals : Array (Mat Dual)}
    (h : Eval.run (Alg.dual p.length) (Deriv.seed p) (Eval.buildCalls (Alg.dual p.length) funs) dag = some dvals)
    (j : Fin p.length) :
    ∃ fvals : Array (Mat ((Fin p.length → ℝ) → ℝ)),
      (∀ᶠ t in 𝓝 (0 : ℝ),
        Eval.run Alg.real (List.ofFn (Function.update (ptR p) j (ptR p j + t))) (Eval.buildCalls Alg.real funs) dag
          = some (fvals.map (Mat.at (Function.update (ptR p) j (ptR p j + t))))) ∧
      dvals.size = fvals.size ∧
      ∀ (i : ℕ) (v : Mat Dual), dvals[i]? = some v → ∃ z, fvals[i]? = some z ∧ v.r = z.r ∧ v.c = z.c ∧
        Forall₂ (fun (d : Dual) (φ : (Fin p.length → ℝ) → ℝ) => φ (ptR p) = (d.v : ℝ) ∧
          HasDerivAt (fun t => φ (Function.update (ptR p) j (ptR p j + t))) ((d.g.getD j 0 : ℚ) : ℝ) 0) v.d z.d := by
  obtain ⟨fvals, hev, hs, hv⟩ := dual_run_correct funs dag p h
  refine ⟨fvals, ?_, hs, fun i v hi => ?_⟩
  · have hcont : Continuous fun t : ℝ => Function.update (ptR p) j (ptR p j + t) :=
      continuous_const.update j (continuous_const.add continuous_id)
    have htend := hcont.tendsto 0
    simp only [add_zero, Function.update_eq_self] at htend
    exact htend.eventually hev
  · obtain ⟨z, hz, hr, hc, hd⟩ := hv i v hi
    exact ⟨z, hz, hr, hc, hd.imp fun d φ hrel => ⟨hrel.2.1, hrel.partial_line j⟩⟩

/-! ## 6. the real denotation as a function, entry by entry -/

/-- entry `i` (row-major) of the real value of `dag` at the point `x`; junk value `0` where the
    real evaluation is undefined (it IS defined near `p` in the theorems below) -/
def realEntry (funs : List Dag) (dag : Dag) {n : ℕ} (i : ℕ) (x : Fin n → ℝ) : ℝ :=
  ((Eval.root Alg.real (List.ofFn x) (Eval.buildCalls Alg.real funs) dag).bind (·.d[i]?)).getD 0

theorem DRel.congr {d : Dual} {φ φ' : (Fin n → ℝ) → ℝ} (h : DRel n p d φ) (e : φ' =ᶠ[𝓝 p] φ) :
    DRel n p d φ' :=
  ⟨h.1, by rw [e.eq_of_nhds, h.2.1], h.2.2.congr_of_eventuallyEq e⟩

theorem forall₂_getElem {α β : Type} {R : α → β → Prop} {l1 : List α} {l2 : List β} (h : Forall₂ R l1 l2)
    {i : ℕ} (h1 : i < l1.length) : ∃ h2 : i < l2.length, R l1[i] l2[i] := by
  rw [List.forall₂_iff_get] at h
  have h2 : i < l2.length := h.1 ▸ h1
  exact ⟨h2, by simpa using h.2 i h1 h2⟩

/-- **The dual evaluation computes the true value and the true derivative of every output
    component.**  `v = dualEval funs dag p`.  Then
    (1) the real evaluation of the DAG is defined on a neighbourhood of `p`, with the shape of `v`;
    (2) for every component `i`: the real value at `p` is `v.d[i].v`, the real denotation
        `realEntry funs dag i` is Fréchet-differentiable at `p` with derivative
        `u ↦ Σ_k v.d[i].g[k]·u_k`. -/
theorem dual_entry_correct (funs : List Dag) (dag : Dag) (p : List ℚ) {v : Mat Dual}
    (h : Deriv.dualEval funs dag p = some v) :
    (∀ᶠ x in 𝓝 (ptR p), ∃ y, Eval.root Alg.real (List.ofFn x) (Eval.buildCalls Alg.real funs) dag = some y ∧
      y.r = v.r ∧ y.c = v.c ∧ y.d.length = v.d.length) ∧
    ∀ (i : ℕ) (hi : i < v.d.length), DRel p.length (ptR p) v.d[i] (realEntry funs dag i) := by
  obtain ⟨fv, hev, hr, hc, hd⟩ := dual_root_correct funs dag p h
  constructor
  · filter_upwards [hev] with x hx
    exact ⟨_, hx, hr.symm, hc.symm, by simp [Mat.at, Mat.map, hd.length_eq]⟩
  · intro i hi
    obtain ⟨hi', hrel⟩ := forall₂_getElem hd hi
    refine hrel.congr ?_
    filter_upwards [hev] with x hx
    simp [realEntry, hx, Mat.at, Mat.map, hi']

/-! ### exact rational evaluation at `p` gives the values of the real denotation -/

theorem ptR_env (p : List ℚ) : Forall₂ RCast p (List.ofFn (ptR p)) := by
  rw [List.forall₂_iff_get]
  refine ⟨by simp, fun i h1 h2 => ?_⟩
  simp [RCast, ptR]

/-- where `Alg.rat` is defined, `Alg.real` is defined with the same (cast) value -/
theorem rat_root_real (funs : List Dag) (dag : Dag) (p : List ℚ) {v : Mat ℚ}
    (h : Eval.root Alg.rat p (Eval.buildCalls Alg.rat funs) dag = some v) :
    ∃ y : Mat ℝ, Eval.root Alg.real (List.ofFn (ptR p)) (Eval.buildCalls Alg.real funs) dag = some y ∧
      MatRel RCast v y :=
  Eval.root_rel_total Alg.rat_real (ptR_env p)
    (Eval.buildCalls_rel_total Alg.rat_real funs fun _ _ nd _ => Alg.rat_real_supp nd)
    (fun nd _ => Alg.rat_real_supp nd) h

theorem realEntry_of_rat (funs : List Dag) (dag : Dag) (p : List ℚ) {v : Mat ℚ}
    (h : Eval.root Alg.rat p (Eval.buildCalls Alg.rat funs) dag = some v) {i : ℕ} {a : ℚ}
    (hi : v.d[i]? = some a) : realEntry funs dag i (ptR p) = (a : ℝ) := by
  obtain ⟨y, hy, hrel⟩ := rat_root_real funs dag p h
  rcases forall₂_getElem? hrel.2.2 i with ⟨h1, _⟩ | ⟨a', b, h1, h2, hab⟩
  · rw [hi] at h1; exact absurd h1 (by simp)
  · rw [hi] at h1
    simp only [Option.some.injEq] at h1
    subst h1
    simp [realEntry, hy, h2, hab]

end

end Ibex
