/-
  Soundness of the branch-and-contract cover certificate (`IbexModel/Cover.lean`): lemmas on the
  Boolean rules (`split2Ok`, `storedOk`, `sameBox`, `removeOne`) and the invariant of the replay
  state machine (`step`, `discharge`), by induction over the event list (no bound on the log).
-/
import IbexProofs.SetAlg
import Mathlib.Data.Set.Defs

namespace Ibex.Cover
open Ibex

/-! ### the Boolean rules -/

/-- `sameBox a b`: the two boxes have the same points -/
theorem sameBox_sound {a b : Box} (h : sameBox a b = true) {p : List ℝ} (hp : Box.Mem p b) :
    Box.Mem p a := by
  simp only [sameBox, Bool.or_eq_true, Bool.and_eq_true] at h
  rcases h with ⟨-, hb⟩ | h
  · exact absurd hp (Box.not_mem_of_isEmpty hb)
  · have : a = b := by simpa using h
    exact this ▸ hp

theorem sameBox_sound' {a b : Box} (h : sameBox a b = true) {p : List ℝ} (hp : Box.Mem p a) :
    Box.Mem p b := by
  simp only [sameBox, Bool.or_eq_true, Bool.and_eq_true] at h
  rcases h with ⟨ha, -⟩ | h
  · exact absurd hp (Box.not_mem_of_isEmpty ha)
  · have : a = b := by simpa using h
    exact this ▸ hp

/-- every element of the list is the removed one or is still in the list -/
theorem mem_of_removeOne {b : Box} : ∀ {l l' : List Box}, removeOne b l = some l' →
    ∀ x ∈ l, x = b ∨ x ∈ l'
  | [], _, h => by simp [removeOne] at h
  | y :: ys, l', h => by
    intro x hx
    simp only [removeOne] at h
    split at h
    · rename_i hy
      have hy : y = b := by simpa using hy
      injection h with h
      subst h
      rcases List.mem_cons.1 hx with rfl | hx
      · exact Or.inl hy
      · exact Or.inr hx
    · cases hr : removeOne b ys with
      | none => simp [hr] at h
      | some r =>
        simp only [hr, Option.map_some, Option.some.injEq] at h
        subst h
        rcases List.mem_cons.1 hx with rfl | hx
        · exact Or.inr (List.mem_cons_self ..)
        · rcases mem_of_removeOne hr x hx with h | h
          · exact Or.inl h
          · exact Or.inr (List.mem_cons_of_mem _ h)

/-- the list is a permutation of the removed box followed by the rest -/
theorem removeOne_perm {b : Box} : ∀ {l l' : List Box}, removeOne b l = some l' →
    List.Perm l (b :: l')
  | [], _, h => by simp [removeOne] at h
  | y :: ys, l', h => by
    simp only [removeOne] at h
    split at h
    · rename_i hy
      have hy : y = b := by simpa using hy
      injection h with h
      subst h; subst hy
      exact List.Perm.refl _
    · cases hr : removeOne b ys with
      | none => simp [hr] at h
      | some r =>
        simp only [hr, Option.map_some, Option.some.injEq] at h
        subst h
        exact ((removeOne_perm hr).cons y).trans (List.Perm.swap b y r)

/-- one coordinate treated apart, all the others by interval inclusion -/
theorem mem_of_coord {p : List ℝ} {c l : Box} (hp : Box.Mem p c) (hl : c.length = l.length) (i : Nat)
    (hi : ∀ t I, p[i]? = some t → l[i]? = some I → t ∈ I)
    (hoth : ∀ j, j < c.length → j ≠ i →
      ∃ cj lj, c[j]? = some cj ∧ l[j]? = some lj ∧ Itv.subset cj lj = true) : Box.Mem p l := by
  rw [Box.mem_iff] at hp ⊢
  obtain ⟨hpl, hpc⟩ := hp
  refine ⟨hpl.trans hl, fun j t I h1 h2 => ?_⟩
  by_cases e : j = i
  · subst e; exact hi t I h1 h2
  · have hj : j < c.length := by
      rw [← hpl]; exact (List.getElem?_eq_some_iff.1 h1).1
    obtain ⟨cj, lj, h3, h4, h5⟩ := hoth j hj e
    rw [h4] at h2
    injection h2 with h2
    subst h2
    exact Itv.mem_of_subset h5 (hpc j t cj h1 h3)

/-- **children cover the cell**: `split2Ok c l r` implies `c ⊆ l ∪ r` -/
theorem split2Ok_sound {c l r : Box} (h : split2Ok c l r = true) {p : List ℝ} (hp : Box.Mem p c) :
    Box.Mem p l ∨ Box.Mem p r := by
  simp only [split2Ok, Bool.or_eq_true, Bool.and_eq_true] at h
  rcases h with (h | h) | ⟨⟨hcl, hcr⟩, h⟩
  · exact Or.inl (Box.subset_sound h hp)
  · exact Or.inr (Box.subset_sound h hp)
  · have hcl : c.length = l.length := by simpa using hcl
    have hcr : c.length = r.length := by simpa using hcr
    obtain ⟨i, hi, h⟩ := List.any_eq_true.1 h
    have hic : i < c.length := List.mem_range.1 hi
    split at h
    · rename_i ca cb la lb ra rb hci hli hri
      simp only [Bool.and_eq_true, Bool.or_eq_true, List.all_eq_true, List.mem_range,
        Ext.le_iff] at h
      obtain ⟨hoth, hcov⟩ := h
      -- the other coordinates
      have hothL : ∀ j, j < c.length → j ≠ i →
          ∃ cj lj, c[j]? = some cj ∧ l[j]? = some lj ∧ Itv.subset cj lj = true := by
        intro j hj hne
        have := hoth j hj
        rcases this with this | this
        · exact absurd (by simpa using this) hne
        · split at this
          · rename_i cj lj rj h1 h2 h3
            simp only [Bool.and_eq_true] at this
            exact ⟨cj, lj, h1, h2, this.1⟩
          · exact absurd this Bool.false_ne_true
      have hothR : ∀ j, j < c.length → j ≠ i →
          ∃ cj rj, c[j]? = some cj ∧ r[j]? = some rj ∧ Itv.subset cj rj = true := by
        intro j hj hne
        have := hoth j hj
        rcases this with this | this
        · exact absurd (by simpa using this) hne
        · split at this
          · rename_i cj lj rj h1 h2 h3
            simp only [Bool.and_eq_true] at this
            exact ⟨cj, rj, h1, h3, this.2⟩
          · exact absurd this Bool.false_ne_true
      -- the coordinate of p along i
      have hpl := hp.length_eq
      obtain ⟨t, ht⟩ : ∃ t, p[i]? = some t :=
        ⟨p[i]'(by omega), List.getElem?_eq_getElem (by omega)⟩
      have htc : t ∈ Itv.mk ca cb := (Box.mem_iff.1 hp).2 i t _ ht hci
      obtain ⟨htl, htu⟩ := htc
      have inL : la.toE ≤ (t : EReal) → (t : EReal) ≤ lb.toE → Box.Mem p l := fun h1 h2 =>
        mem_of_coord hp hcl i (fun t' I h3 h4 => by
          rw [ht] at h3; injection h3 with h3; subst h3
          rw [hli] at h4; injection h4 with h4; subst h4
          exact ⟨h1, h2⟩) hothL
      have inR : ra.toE ≤ (t : EReal) → (t : EReal) ≤ rb.toE → Box.Mem p r := fun h1 h2 =>
        mem_of_coord hp hcr i (fun t' I h3 h4 => by
          rw [ht] at h3; injection h3 with h3; subst h3
          rw [hri] at h4; injection h4 with h4; subst h4
          exact ⟨h1, h2⟩) hothR
      rcases hcov with ⟨⟨h1, h2⟩, h3⟩ | ⟨⟨h1, h2⟩, h3⟩
      · by_cases hle : (t : EReal) ≤ lb.toE
        · exact Or.inl (inL (le_trans h1 htl) hle)
        · exact Or.inr (inR (le_trans h3 (le_of_lt (not_le.1 hle))) (le_trans htu h2))
      · by_cases hle : (t : EReal) ≤ rb.toE
        · exact Or.inr (inR (le_trans h1 htl) hle)
        · exact Or.inl (inL (le_trans h3 (le_of_lt (not_le.1 hle))) (le_trans htu h2))
    · exact absurd h Bool.false_ne_true

/-- a stored cell is inside a box of the paving or inside the unicity box of a solution -/
theorem storedOk_sound {pv : Paving} {c : Box} (h : storedOk pv c = true) {p : List ℝ}
    (hp : Box.Mem p c) :
    (∃ b ∈ pv.boxes, Box.Mem p b) ∨ (∃ eu ∈ pv.unicity, Box.Mem p eu.2.1) := by
  simp only [storedOk, Bool.or_eq_true, List.any_eq_true] at h
  rcases h with ⟨s, hs, h⟩ | ⟨eu, heu, h⟩
  · exact Or.inl ⟨s, hs, Box.subset_sound h hp⟩
  · exact Or.inr ⟨eu, heu, Box.subset_sound h hp⟩

/-! ### the invariant of the replay -/

/-- the point is in a box of the final paving -/
def InPaving (pv : Paving) (p : List ℝ) : Prop := ∃ b ∈ pv.boxes, Box.Mem p b

/-- hypotheses on the paving and on the replacement certificate -/
structure Hyp (Sol : Set (List ℝ)) (cert : Box → Box × Box × List Nat → Bool) (pv : Paving) : Prop where
  /-- soundness of the replacement certificate -/
  cert : ∀ c eu, cert c eu = true → eu ∈ pv.unicity → ∀ p ∈ Sol, Box.Mem p c → Box.Mem p eu.1
  /-- a solution inside a unicity box is inside its existence box -/
  uni : ∀ eu ∈ pv.unicity, ∀ p ∈ Sol, Box.Mem p eu.2.1 → Box.Mem p eu.1
  /-- existence boxes are part of the paving -/
  ex : ∀ eu ∈ pv.unicity, eu.1 ∈ pv.boxes

/-- **Invariant** of the replay, for the state reached after a prefix of the log.
    `cov`: every solution of the root box is in a box of the final paving, in a box of the buffer, or
    in the popped cell whose obligation is pending (the children pushed since, `kids`, do not count
    before `discharge`).
    `top`: while a cell is being processed (between `top` and `pop`), no obligation is pending and
    the current box keeps every solution of the topped box (which is still in the buffer). -/
structure Inv (Sol : Set (List ℝ)) (pv : Paving) (root : Box) (s : St) : Prop where
  cov : ∀ p ∈ Sol, Box.Mem p root →
    InPaving pv p ∨ (∃ b ∈ s.openB, Box.Mem p b) ∨ (∃ c, s.popped = some c ∧ Box.Mem p c)
  top : ∀ t, s.topped = some t →
    s.popped = none ∧ ∀ c, s.cur = some c → ∀ p ∈ Sol, Box.Mem p t → Box.Mem p c

variable {Sol : Set (List ℝ)} {cert : Box → Box × Box × List Nat → Bool} {pv : Paving} {root : Box}

/-- a solution of a stored cell is in the paving -/
theorem inPaving_of_storedOk (H : Hyp Sol cert pv) {c : Box} (h : storedOk pv c = true)
    {p : List ℝ} (hs : p ∈ Sol) (hp : Box.Mem p c) : InPaving pv p := by
  rcases storedOk_sound h hp with h | ⟨eu, heu, h⟩
  · exact h
  · exact ⟨eu.1, H.ex eu heu, H.uni eu heu p hs h⟩

/-- `discharge` keeps the invariant and leaves no pending obligation -/
theorem discharge_inv (H : Hyp Sol cert pv) {s s' : St} (hI : Inv Sol pv root s)
    (h : discharge cert pv s = .ok s') : Inv Sol pv root s' ∧ s'.popped = none := by
  unfold discharge at h
  split at h
  · -- nothing pending
    rename_i hpop
    injection h with h
    subst h
    refine ⟨⟨fun p hs hp => ?_, fun t ht => ⟨hpop, (hI.top t ht).2⟩⟩, hpop⟩
    rcases hI.cov p hs hp with h | ⟨b, hb, h⟩ | ⟨c, hc, -⟩
    · exact Or.inl h
    · exact Or.inr (Or.inl ⟨b, List.mem_append_right _ hb, h⟩)
    · rw [hpop] at hc; cases hc
  · rename_i c hpop
    have notop : ∀ t, s.topped = some t → False := fun t ht => by
      have := (hI.top t ht).1
      rw [hpop] at this; cases this
    split at h
    · -- emptied cell
      rename_i hce
      split at h
      · injection h with h
        subst h
        refine ⟨⟨fun p hs hp => ?_, fun t ht => (notop t ht).elim⟩, rfl⟩
        rcases hI.cov p hs hp with h | h | ⟨c', hc', h⟩
        · exact Or.inl h
        · exact Or.inr (Or.inl h)
        · rw [hpop] at hc'; injection hc' with hc'; subst hc'
          exact absurd h (Box.not_mem_of_isEmpty hce)
      · cases h
    · split at h
      · -- no child: stored, or certified
        have key : (∀ p ∈ Sol, Box.Mem p c → InPaving pv p) → ∀ k,
            Inv Sol pv root { s with popped := none, certified := k } := by
          intro hk k
          refine ⟨fun p hs hp => ?_, fun t ht => (notop t ht).elim⟩
          rcases hI.cov p hs hp with h | h | ⟨c', hc', h⟩
          · exact Or.inl h
          · exact Or.inr (Or.inl h)
          · rw [hpop] at hc'; injection hc' with hc'; subst hc'
            exact Or.inl (hk p hs h)
        split at h
        · rename_i hst
          injection h with h
          subst h
          exact ⟨key (fun p hs hp => inPaving_of_storedOk H hst hs hp) _, rfl⟩
        · split at h
          · rename_i hcert
            injection h with h
            subst h
            obtain ⟨eu, heu, hc⟩ := List.any_eq_true.1 hcert
            exact ⟨key (fun p hs hp => ⟨eu.1, H.ex eu heu, H.cert c eu hc heu p hs hp⟩) _, rfl⟩
          · split at h
            · cases h
            · split at h <;> cases h
      · -- two children
        rename_i a b hk
        split at h
        · rename_i hsp
          injection h with h
          subst h
          refine ⟨⟨fun p hs hp => ?_, fun t ht => (notop t ht).elim⟩, rfl⟩
          rcases hI.cov p hs hp with h | ⟨x, hx, h⟩ | ⟨c', hc', h⟩
          · exact Or.inl h
          · exact Or.inr (Or.inl ⟨x, List.mem_cons_of_mem _ (List.mem_cons_of_mem _ hx), h⟩)
          · rw [hpop] at hc'; injection hc' with hc'; subst hc'
            rcases split2Ok_sound hsp h with h | h
            · exact Or.inr (Or.inl ⟨a, List.mem_cons_self .., h⟩)
            · exact Or.inr (Or.inl ⟨b, List.mem_cons_of_mem _ (List.mem_cons_self ..), h⟩)
        · cases h
      · cases h

/-- one event keeps the invariant; a logged contraction must keep the solutions -/
theorem step_inv (H : Hyp Sol cert pv) {s s' : St} {e : Ev} (hI : Inv Sol pv root s)
    (hleaf : ∀ i o, e = Ev.ctc i o → ∀ p ∈ Sol, Box.Mem p i → Box.Mem p o)
    (h : step cert pv s e = .ok s') : Inv Sol pv root s' := by
  cases e with
  | push b =>
    simp only [step] at h
    split at h
    · cases h
    · split at h
      · injection h with h
        subst h
        exact ⟨hI.cov, hI.top⟩
      · injection h with h
        subst h
        refine ⟨fun p hs hp => ?_, hI.top⟩
        rcases hI.cov p hs hp with h | ⟨x, hx, h⟩ | h
        · exact Or.inl h
        · exact Or.inr (Or.inl ⟨x, List.mem_cons_of_mem _ hx, h⟩)
        · exact Or.inr (Or.inr h)
  | top b =>
    simp only [step, bind, Except.bind] at h
    cases hd : discharge cert pv s with
    | error m => rw [hd] at h; cases h
    | ok s1 =>
      rw [hd] at h
      obtain ⟨hI1, hp1⟩ := discharge_inv H hI hd
      simp only at h
      split at h
      · injection h with h
        subst h
        refine ⟨hI1.cov, fun t ht => ⟨hp1, fun c hc p _ hp => ?_⟩⟩
        simp only [Option.some.injEq] at ht hc
        subst ht; subst hc
        exact hp
      · cases h
  | ctc i o =>
    simp only [step] at h
    split at h
    · rename_i c hc
      split at h
      · rename_i hsame
        split at h
        · injection h with h
          subst h
          refine ⟨hI.cov, fun t ht => ⟨(hI.top t ht).1, fun c' hc' p hs hp => ?_⟩⟩
          simp only [Option.some.injEq] at hc'
          subst hc'
          exact hleaf i _ rfl p hs (sameBox_sound hsame ((hI.top t ht).2 c hc p hs hp))
        · cases h
      · injection h with h
        subst h
        exact hI
    · injection h with h
      subst h
      exact hI
  | pop b =>
    simp only [step] at h
    split at h
    · rename_i t c ht hc
      split at h
      · cases h
      · rename_i hsame
        have hsame : sameBox b c = true := by simpa using hsame
        split at h
        · rename_i rest hrem
          injection h with h
          subst h
          refine ⟨fun p hs hp => ?_, fun t' ht' => by cases ht'⟩
          rcases hI.cov p hs hp with h | ⟨x, hx, h⟩ | ⟨c', hc', -⟩
          · exact Or.inl h
          · rcases mem_of_removeOne hrem x hx with rfl | hx'
            · exact Or.inr (Or.inr ⟨b, rfl, sameBox_sound hsame ((hI.top x ht).2 c hc p hs h)⟩)
            · exact Or.inr (Or.inl ⟨x, hx', h⟩)
          · rw [(hI.top t ht).1] at hc'; cases hc'
        · cases h
    · cases h
  | flush => exact (discharge_inv H hI h).1

/-- the whole log keeps the invariant (induction over the event list) -/
theorem foldlM_inv (H : Hyp Sol cert pv) : ∀ (log : List Ev) {s s' : St}, Inv Sol pv root s →
    (∀ i o, Ev.ctc i o ∈ log → ∀ p ∈ Sol, Box.Mem p i → Box.Mem p o) →
    log.foldlM (step cert pv) s = .ok s' → Inv Sol pv root s'
  | [], s, s', hI, _, h => by
    simp only [List.foldlM_nil, pure, Except.pure] at h
    injection h with h
    exact h ▸ hI
  | e :: es, s, s', hI, hleaf, h => by
    simp only [List.foldlM_cons, bind, Except.bind] at h
    cases hs : step cert pv s e with
    | error m => rw [hs] at h; cases h
    | ok s1 =>
      rw [hs] at h
      exact foldlM_inv H es
        (step_inv H hI (fun i o he => hleaf i o (he ▸ List.mem_cons_self ..)) hs)
        (fun i o he => hleaf i o (List.mem_cons_of_mem _ he)) h

/-- the state after the first event `push root` -/
theorem inv_first {s : St} (h : step cert pv St.init (.push root) = .ok s) : Inv Sol pv root s := by
  simp only [step, St.init] at h
  split at h
  · cases h
  · injection h with h
    subst h
    exact ⟨fun p _ hp => Or.inr (Or.inl ⟨root, List.mem_cons_self .., hp⟩), fun t ht => by cases ht⟩

/-- **Soundness of the cover certificate**: an accepted log that starts by pushing `root` proves that
    every solution of `root` is in a box of the final paving. -/
theorem check_sound (H : Hyp Sol cert pv) {rest : List Ev} {k : Nat}
    (hacc : check cert pv (.push root :: rest) = .ok k)
    (hleaf : ∀ i o, Ev.ctc i o ∈ rest → ∀ p ∈ Sol, Box.Mem p i → Box.Mem p o) :
    ∀ p ∈ Sol, Box.Mem p root → InPaving pv p := by
  intro p hs hp
  simp only [check, List.foldlM_cons, bind, Except.bind] at hacc
  cases h0 : step cert pv St.init (.push root) with
  | error m => rw [h0] at hacc; cases hacc
  | ok s0 =>
    rw [h0] at hacc
    simp only at hacc
    cases h1 : rest.foldlM (step cert pv) s0 with
    | error m => rw [h1] at hacc; cases hacc
    | ok s1 =>
      rw [h1] at hacc
      simp only at hacc
      cases h2 : discharge cert pv s1 with
      | error m => rw [h2] at hacc; cases hacc
      | ok s2 =>
        rw [h2] at hacc
        simp only at hacc
        split at hacc
        · rename_i hall
          obtain ⟨hI, hpop⟩ := discharge_inv H (foldlM_inv H rest (inv_first h0) hleaf h1) h2
          rcases hI.cov p hs hp with h | ⟨b, hb, h⟩ | ⟨c, hc, -⟩
          · exact h
          · exact inPaving_of_storedOk H (List.all_eq_true.1 hall b hb) hs h
          · rw [hpop] at hc; cases hc
        · cases hacc

/-! ### several starting cells (a search resumed from a saved paving) -/

/-- after any accepted log, the invariant holds for every box pushed at the very beginning of the log -/
theorem leading_inv (H : Hyp Sol cert pv) : ∀ (log : List Ev) {s s' : St}, s.popped = none → s.topped = none →
    (∀ i o, Ev.ctc i o ∈ log → ∀ p ∈ Sol, Box.Mem p i → Box.Mem p o) →
    log.foldlM (step cert pv) s = .ok s' → ∀ r ∈ leadingPushes log, Inv Sol pv r s'
  | [], _, _, _, _, _, _ => by intro r hr; cases hr
  | .top _ :: _, _, _, _, _, _, _ => by intro r hr; cases hr
  | .ctc _ _ :: _, _, _, _, _, _, _ => by intro r hr; cases hr
  | .pop _ :: _, _, _, _, _, _, _ => by intro r hr; cases hr
  | .flush :: _, _, _, _, _, _, _ => by intro r hr; cases hr
  | .push b :: es, s, s', hpop, htop, hleaf, h => by
    intro r hr
    simp only [List.foldlM_cons, bind, Except.bind] at h
    cases hs : step cert pv s (.push b) with
    | error m => rw [hs] at h; cases h
    | ok s1 =>
      rw [hs] at h
      have hs' := hs
      simp only [step, hpop] at hs'
      split at hs'
      · cases hs'
      · injection hs' with hs'
        have hleaf' : ∀ i o, Ev.ctc i o ∈ es → ∀ p ∈ Sol, Box.Mem p i → Box.Mem p o :=
          fun i o he => hleaf i o (List.mem_cons_of_mem _ he)
        simp only [leadingPushes, List.mem_cons] at hr
        rcases hr with rfl | hr
        · refine foldlM_inv H es ?_ hleaf' h
          subst hs'
          exact ⟨fun p _ hp => Or.inr (Or.inl ⟨r, List.mem_cons_self .., hp⟩),
            fun t ht => by simp only [htop] at ht; cases ht⟩
        · refine leading_inv H es ?_ ?_ hleaf' h r hr
          · subst hs'; rfl
          · subst hs'; exact htop

/-- **Soundness of the cover certificate for a resumed search**: an accepted log proves that every solution
    of every box pushed at the very beginning of the log is in a box of the final paving. -/
theorem check_sound_roots (H : Hyp Sol cert pv) {log : List Ev} {k : Nat}
    (hacc : check cert pv log = .ok k)
    (hleaf : ∀ i o, Ev.ctc i o ∈ log → ∀ p ∈ Sol, Box.Mem p i → Box.Mem p o) :
    ∀ r ∈ leadingPushes log, ∀ p ∈ Sol, Box.Mem p r → InPaving pv p := by
  intro r hr p hs hp
  simp only [check, bind, Except.bind] at hacc
  cases h1 : log.foldlM (step cert pv) St.init with
  | error m => rw [h1] at hacc; cases hacc
  | ok s1 =>
    rw [h1] at hacc
    simp only at hacc
    cases h2 : discharge cert pv s1 with
    | error m => rw [h2] at hacc; cases hacc
    | ok s2 =>
      rw [h2] at hacc
      simp only at hacc
      split at hacc
      · rename_i hall
        obtain ⟨hI, hpop⟩ := discharge_inv H (leading_inv H log rfl rfl hleaf h1 r hr) h2
        rcases hI.cov p hs hp with h | ⟨b, hb, h⟩ | ⟨c, hc, -⟩
        · exact h
        · exact inPaving_of_storedOk H (List.all_eq_true.1 hall b hb) hs h
        · rw [hpop] at hc; cases hc
      · cases hacc

end Ibex.Cover
