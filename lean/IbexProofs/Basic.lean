/-
  Real-number semantics of the executable model: `Ext` as extended reals,
  membership of a real in an `Itv`, soundness of directed rounding.
-/
import IbexModel
import Mathlib.Data.EReal.Basic
import Mathlib.Data.EReal.Operations
import Mathlib.Algebra.Order.Floor.Ring
import Mathlib.Data.Rat.Floor
import Mathlib.Tactic.Linarith
import Mathlib.Tactic.Positivity
import Mathlib.Tactic.Ring
import Mathlib.Tactic.NormNum

namespace Ibex
open Ibex

/-- extended-real value of a model bound -/
noncomputable def Ext.toE : Ext → EReal
  | .ninf => ⊥
  | .fin q => ((q : ℝ) : EReal)
  | .pinf => ⊤

@[simp] theorem Ext.toE_ninf : Ext.toE .ninf = ⊥ := rfl
@[simp] theorem Ext.toE_pinf : Ext.toE .pinf = ⊤ := rfl
@[simp] theorem Ext.toE_fin (q : Rat) : Ext.toE (.fin q) = ((q : ℝ) : EReal) := rfl

theorem Ext.le_iff (a b : Ext) : Ext.le a b = true ↔ a.toE ≤ b.toE := by
  cases a <;> cases b <;> simp [Ext.le]

theorem Ext.lt_iff (a b : Ext) : Ext.lt a b = true ↔ a.toE < b.toE := by
  unfold Ext.lt
  rw [Bool.not_eq_true', ← Bool.not_eq_true, Ext.le_iff]
  exact not_le

theorem Ext.toE_injective : Function.Injective Ext.toE := by
  intro a b h
  cases a <;> cases b <;> simp_all

theorem Ext.toE_min (a b : Ext) : (Ext.min a b).toE = Min.min a.toE b.toE := by
  unfold Ext.min
  by_cases h : Ext.le a b = true
  · simp [h, min_eq_left ((Ext.le_iff a b).1 h)]
  · have : ¬ a.toE ≤ b.toE := fun h' => h ((Ext.le_iff a b).2 h')
    simp [h, min_eq_right (le_of_lt (not_le.1 this))]

theorem Ext.toE_max (a b : Ext) : (Ext.max a b).toE = Max.max a.toE b.toE := by
  unfold Ext.max
  by_cases h : Ext.le a b = true
  · simp [h, max_eq_right ((Ext.le_iff a b).1 h)]
  · have : ¬ a.toE ≤ b.toE := fun h' => h ((Ext.le_iff a b).2 h')
    simp [h, max_eq_left (le_of_lt (not_le.1 this))]

theorem Ext.toE_neg (a : Ext) : (Ext.neg a).toE = - a.toE := by
  cases a <;> simp [Ext.neg]

/-- a real number belongs to an interval -/
def Itv.Mem (x : ℝ) : Itv → Prop
  | .empty => False
  | .mk lo hi => lo.toE ≤ (x : EReal) ∧ (x : EReal) ≤ hi.toE

instance : Membership ℝ Itv := ⟨fun I x => Itv.Mem x I⟩

theorem Itv.mem_mk (x : ℝ) (lo hi : Ext) : x ∈ Itv.mk lo hi ↔ lo.toE ≤ (x : EReal) ∧ (x : EReal) ≤ hi.toE := Iff.rfl
@[simp] theorem Itv.not_mem_empty (x : ℝ) : ¬ x ∈ Itv.empty := fun h => h

/-! ### directed rounding is sound -/

theorem pow2_pos (e : Int) : 0 < pow2 e := by
  unfold pow2
  split
  · exact_mod_cast Nat.pos_of_ne_zero (by positivity)
  · apply div_pos one_pos
    exact_mod_cast Nat.pos_of_ne_zero (by positivity)

theorem gridDown_le (u q : Rat) (hu : 0 < u) : gridDown u q ≤ q := by
  unfold gridDown
  have h : ((q / u).floor : Rat) ≤ q / u := Rat.floor_le _
  calc ((q / u).floor : Rat) * u ≤ (q / u) * u := by
        exact mul_le_mul_of_nonneg_right h (le_of_lt hu)
    _ = q := by field_simp

theorem le_gridUp (u q : Rat) (hu : 0 < u) : q ≤ gridUp u q := by
  unfold gridUp
  have h : q / u ≤ ((q / u).ceil : Rat) := Rat.le_ceil
  calc q = (q / u) * u := by field_simp
    _ ≤ ((q / u).ceil : Rat) * u := mul_le_mul_of_nonneg_right h (le_of_lt hu)

/-- round-down never exceeds the exact value -/
theorem rd_le (q : Rat) : (rd q).toE ≤ ((q : ℝ) : EReal) := by
  unfold rd
  split
  · rename_i h
    simp only [Ext.toE_fin, EReal.coe_le_coe_iff]
    exact_mod_cast le_of_lt h
  · split
    · simp
    · simp only [Ext.toE_fin, EReal.coe_le_coe_iff]
      exact_mod_cast gridDown_le _ q (pow2_pos _)

/-- round-up is never below the exact value -/
theorem le_ru (q : Rat) : ((q : ℝ) : EReal) ≤ (ru q).toE := by
  unfold ru
  split
  · rename_i h
    simp only [Ext.toE_fin, EReal.coe_le_coe_iff]
    exact_mod_cast le_of_lt h
  · split
    · simp
    · simp only [Ext.toE_fin, EReal.coe_le_coe_iff]
      exact_mod_cast le_gridUp _ q (pow2_pos _)

end Ibex
