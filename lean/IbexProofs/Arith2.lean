/-
  Enclosure lemmas, part 2: division, square, abs, max/min, sign, floor/ceil/integer,
  integer powers, square root, and emptiness characterisations.
-/
import IbexProofs.Arith
import Mathlib.Data.Sign.Basic
import Mathlib.Analysis.Real.Sqrt
import Mathlib.Tactic.FieldSimp

namespace Ibex
open Ibex

/-! ### small helpers -/

theorem Ext.beq_iff (a b : Ext) : (a == b) = true ↔ a = b := by simp

theorem Ext.toE_zero : (Ext.fin 0).toE = 0 := by simp

theorem Ext.eq_zero_of_toE {a : Ext} (h : a.toE = 0) : a = Ext.fin 0 := by
  apply Ext.toE_injective; simpa using h

/-! ### division -/

/-- lower bound, numerator bound ≥ 0, y > 0 bounded above by d -/
theorem divExt_lo_pos_nonneg (a d : Ext) (x y : ℝ) (ha : 0 ≤ a.toE) (hax : a.toE ≤ x)
    (hy : 0 < y) (hyd : (y : EReal) ≤ d.toE) : (Itv.divExt rd a d).toE ≤ ((x / y : ℝ) : EReal) := by
  cases a with
  | ninf => simp at ha
  | pinf => simp at hax
  | fin p =>
    simp only [Ext.toE_fin, EReal.coe_le_coe_iff] at hax
    have hp : (0 : ℝ) ≤ p := by simpa using ha
    have hx : 0 ≤ x := le_trans hp hax
    cases d with
    | ninf => simp at hyd
    | pinf =>
      simp only [Itv.divExt, Ext.toE_fin, EReal.coe_le_coe_iff]
      push_cast; positivity
    | fin q =>
      simp only [Ext.toE_fin, EReal.coe_le_coe_iff] at hyd
      refine le_trans (rd_le _) ?_
      simp only [EReal.coe_le_coe_iff]
      push_cast
      have hq : (0 : ℝ) < q := lt_of_lt_of_le hy hyd
      calc (p : ℝ) / q ≤ p / y := div_le_div_of_nonneg_left hp hy hyd
        _ ≤ x / y := div_le_div_of_nonneg_right hax (le_of_lt hy)

/-- lower bound, numerator bound < 0, y > 0 bounded below by c > 0 -/
theorem divExt_lo_pos_neg (a c : Ext) (x y : ℝ) (ha : a.toE ≤ 0) (hax : a.toE ≤ x)
    (hc : 0 < c.toE) (hcy : c.toE ≤ (y : EReal)) : (Itv.divExt rd a c).toE ≤ ((x / y : ℝ) : EReal) := by
  cases c with
  | ninf => simp at hc
  | pinf => simp at hcy
  | fin q =>
    simp only [Ext.toE_fin, EReal.coe_le_coe_iff] at hcy
    have hq : (0 : ℝ) < q := by simpa using hc
    have hq' : (0 : Rat) < q := by exact_mod_cast hq
    have hy : 0 < y := lt_of_lt_of_le hq hcy
    cases a with
    | pinf => simp at hax
    | ninf => simp [Itv.divExt, hq']
    | fin p =>
      simp only [Ext.toE_fin, EReal.coe_le_coe_iff] at hax
      have hp : (p : ℝ) ≤ 0 := by simpa using ha
      refine le_trans (rd_le _) ?_
      simp only [EReal.coe_le_coe_iff]
      push_cast
      rw [div_le_div_iff₀ hq hy]
      nlinarith [mul_nonneg (sub_nonneg.2 hcy) (neg_nonneg.2 hp), mul_nonneg (sub_nonneg.2 hax) (le_of_lt hq)]

/-- upper bound, numerator bound ≥ 0, y > 0 bounded below by c > 0 -/
theorem divExt_hi_pos_nonneg (b c : Ext) (x y : ℝ) (hb : 0 ≤ b.toE) (hxb : (x : EReal) ≤ b.toE)
    (hc : 0 < c.toE) (hcy : c.toE ≤ (y : EReal)) : ((x / y : ℝ) : EReal) ≤ (Itv.divExt ru b c).toE := by
  cases c with
  | ninf => simp at hc
  | pinf => simp at hcy
  | fin q =>
    simp only [Ext.toE_fin, EReal.coe_le_coe_iff] at hcy
    have hq : (0 : ℝ) < q := by simpa using hc
    have hq' : (0 : Rat) < q := by exact_mod_cast hq
    have hy : 0 < y := lt_of_lt_of_le hq hcy
    cases b with
    | ninf => simp at hxb
    | pinf => simp [Itv.divExt, hq']
    | fin p =>
      simp only [Ext.toE_fin, EReal.coe_le_coe_iff] at hxb
      have hp : (0 : ℝ) ≤ p := by simpa using hb
      refine le_trans ?_ (le_ru _)
      simp only [EReal.coe_le_coe_iff]
      push_cast
      rw [div_le_div_iff₀ hy hq]
      nlinarith [mul_nonneg (sub_nonneg.2 hcy) hp, mul_nonneg (sub_nonneg.2 hxb) (le_of_lt hq)]

/-- upper bound, numerator bound ≤ 0, y > 0 bounded above by d -/
theorem divExt_hi_pos_nonpos (b d : Ext) (x y : ℝ) (hb : b.toE ≤ 0) (hxb : (x : EReal) ≤ b.toE)
    (hy : 0 < y) (hyd : (y : EReal) ≤ d.toE) : ((x / y : ℝ) : EReal) ≤ (Itv.divExt ru b d).toE := by
  cases b with
  | ninf => simp at hxb
  | pinf => simp at hb
  | fin p =>
    simp only [Ext.toE_fin, EReal.coe_le_coe_iff] at hxb
    have hp : (p : ℝ) ≤ 0 := by simpa using hb
    have hx : x ≤ 0 := le_trans hxb hp
    cases d with
    | ninf => simp at hyd
    | pinf =>
      simp only [Itv.divExt, Ext.toE_fin, EReal.coe_le_coe_iff]
      push_cast
      exact div_nonpos_of_nonpos_of_nonneg hx (le_of_lt hy)
    | fin q =>
      simp only [Ext.toE_fin, EReal.coe_le_coe_iff] at hyd
      have hq : (0 : ℝ) < q := lt_of_lt_of_le hy hyd
      refine le_trans ?_ (le_ru _)
      simp only [EReal.coe_le_coe_iff]
      push_cast
      rw [div_le_div_iff₀ hy hq]
      nlinarith [mul_nonneg (sub_nonneg.2 hyd) (neg_nonneg.2 hp), mul_nonneg (sub_nonneg.2 hxb) (le_of_lt hq)]

/-- upper bound, numerator bound ≥ 0, y < 0 bounded below by c -/
theorem divExt_hi_neg_nonneg (a c : Ext) (x y : ℝ) (ha : 0 ≤ a.toE) (hax : a.toE ≤ x)
    (hy : y < 0) (hcy : c.toE ≤ (y : EReal)) : ((x / y : ℝ) : EReal) ≤ (Itv.divExt ru a c).toE := by
  cases a with
  | ninf => simp at ha
  | pinf => simp at hax
  | fin p =>
    simp only [Ext.toE_fin, EReal.coe_le_coe_iff] at hax
    have hp : (0 : ℝ) ≤ p := by simpa using ha
    have hx : 0 ≤ x := le_trans hp hax
    cases c with
    | pinf => simp at hcy
    | ninf =>
      simp only [Itv.divExt, Ext.toE_fin, EReal.coe_le_coe_iff]
      push_cast
      exact div_nonpos_of_nonneg_of_nonpos hx (le_of_lt hy)
    | fin q =>
      simp only [Ext.toE_fin, EReal.coe_le_coe_iff] at hcy
      have hq : (q : ℝ) < 0 := lt_of_le_of_lt hcy hy
      refine le_trans ?_ (le_ru _)
      simp only [EReal.coe_le_coe_iff]
      push_cast
      rw [← neg_div_neg_eq x y, ← neg_div_neg_eq (p : ℝ) q, div_le_div_iff₀ (neg_pos.2 hy) (neg_pos.2 hq)]
      nlinarith [mul_nonneg (sub_nonneg.2 hcy) hp, mul_nonneg (sub_nonneg.2 hax) (le_of_lt (neg_pos.2 hq))]

/-- lower bound, numerator bound ≤ 0, y < 0 bounded below by c -/
theorem divExt_lo_neg_nonpos (b c : Ext) (x y : ℝ) (hb : b.toE ≤ 0) (hxb : (x : EReal) ≤ b.toE)
    (hy : y < 0) (hcy : c.toE ≤ (y : EReal)) : (Itv.divExt rd b c).toE ≤ ((x / y : ℝ) : EReal) := by
  cases b with
  | ninf => simp at hxb
  | pinf => simp at hb
  | fin p =>
    simp only [Ext.toE_fin, EReal.coe_le_coe_iff] at hxb
    have hp : (p : ℝ) ≤ 0 := by simpa using hb
    have hx : x ≤ 0 := le_trans hxb hp
    cases c with
    | pinf => simp at hcy
    | ninf =>
      simp only [Itv.divExt, Ext.toE_fin, EReal.coe_le_coe_iff]
      push_cast
      exact div_nonneg_of_nonpos hx (le_of_lt hy)
    | fin q =>
      simp only [Ext.toE_fin, EReal.coe_le_coe_iff] at hcy
      have hq : (q : ℝ) < 0 := lt_of_le_of_lt hcy hy
      refine le_trans (rd_le _) ?_
      simp only [EReal.coe_le_coe_iff]
      push_cast
      rw [← neg_div_neg_eq x y, ← neg_div_neg_eq (p : ℝ) q, div_le_div_iff₀ (neg_pos.2 hq) (neg_pos.2 hy)]
      nlinarith [mul_nonneg (sub_nonneg.2 hcy) (neg_nonneg.2 hp), mul_nonneg (sub_nonneg.2 hxb) (le_of_lt (neg_pos.2 hq))]

theorem Itv.divPos_encl {a b c d : Ext} {x y : ℝ} (hx : x ∈ Itv.mk a b) (hy : y ∈ Itv.mk c d)
    (hc : 0 < c.toE) : x / y ∈ Itv.divPos a b c d := by
  obtain ⟨hax, hxb⟩ := hx
  obtain ⟨hcy, hyd⟩ := hy
  have hy0 : 0 < y := by
    have := lt_of_lt_of_le hc hcy
    exact_mod_cast this
  unfold Itv.divPos
  refine ⟨?_, ?_⟩
  · by_cases h : Ext.le (Ext.fin 0) a = true
    · simp only [h, if_true]
      rw [Ext.le_iff, Ext.toE_zero] at h
      exact divExt_lo_pos_nonneg a d x y h hax hy0 hyd
    · simp only [h]
      rw [Ext.le_iff, Ext.toE_zero, not_le] at h
      exact divExt_lo_pos_neg a c x y (le_of_lt h) hax hc hcy
  · by_cases h : Ext.le (Ext.fin 0) b = true
    · simp only [h, if_true]
      rw [Ext.le_iff, Ext.toE_zero] at h
      exact divExt_hi_pos_nonneg b c x y h hxb hc hcy
    · simp only [h]
      rw [Ext.le_iff, Ext.toE_zero, not_le] at h
      exact divExt_hi_pos_nonpos b d x y (le_of_lt h) hxb hy0 hyd

theorem Itv.div_encl {X Y : Itv} {x y : ℝ} (hx : x ∈ X) (hy : y ∈ Y) (hy0 : y ≠ 0) :
    x / y ∈ Itv.div X Y := by
  cases X with
  | empty => exact absurd hx (Itv.not_mem_empty x)
  | mk a b =>
  cases Y with
  | empty => exact absurd hy (Itv.not_mem_empty y)
  | mk c d =>
  have hx' := hx
  have hy' := hy
  obtain ⟨hax, hxb⟩ := hx'
  obtain ⟨hcy, hyd⟩ := hy'
  simp only [Itv.div]
  split_ifs with h1 h2 h3 h4 h5 h6 h7 h8 h9 h10
  · -- Y = {0}
    simp only [Bool.and_eq_true, beq_iff_eq] at h1
    rw [h1.1, Ext.toE_zero] at hcy
    rw [h1.2, Ext.toE_zero] at hyd
    exact absurd (le_antisymm (by exact_mod_cast hyd) (by exact_mod_cast hcy)) hy0
  · rw [Ext.lt_iff, Ext.toE_zero] at h2
    exact Itv.divPos_encl hx hy h2
  · rw [Ext.lt_iff, Ext.toE_zero] at h3
    have hnx := Itv.neg_encl hx
    have hny := Itv.neg_encl hy
    have := Itv.divPos_encl (x := -x) (y := -y) hnx hny (by rw [Ext.toE_neg]; simpa using h3)
    rwa [neg_div_neg_eq] at this
  · simp only [Bool.and_eq_true, beq_iff_eq] at h4
    rw [h4.1, Ext.toE_zero] at hax
    rw [h4.2, Ext.toE_zero] at hxb
    have : x = 0 := le_antisymm (by exact_mod_cast hxb) (by exact_mod_cast hax)
    subst this
    simp [Itv.mem_mk]
  · simp [Itv.all, Itv.mem_mk]
  · -- Y = [0,d], 0 ≤ a
    have hc0 : c = Ext.fin 0 := by simpa using h6
    rw [hc0, Ext.toE_zero] at hcy
    have hypos : 0 < y := lt_of_le_of_ne (by exact_mod_cast hcy) (Ne.symm hy0)
    rw [Ext.le_iff, Ext.toE_zero] at h7
    exact ⟨divExt_lo_pos_nonneg a d x y h7 hax hypos hyd, le_top⟩
  · have hc0 : c = Ext.fin 0 := by simpa using h6
    rw [hc0, Ext.toE_zero] at hcy
    have hypos : 0 < y := lt_of_le_of_ne (by exact_mod_cast hcy) (Ne.symm hy0)
    rw [Ext.le_iff, Ext.toE_zero] at h8
    exact ⟨bot_le, divExt_hi_pos_nonpos b d x y h8 hxb hypos hyd⟩
  · simp [Itv.all, Itv.mem_mk]
  · -- Y = [c,0], c < 0
    have hyneg : y < 0 := by
      rw [Ext.lt_iff, Ext.toE_zero, not_lt] at h2
      have hc0 : c.toE ≠ 0 := fun h => h6 (by simp [Ext.eq_zero_of_toE h])
      have hclt : c.toE < 0 := lt_of_le_of_ne h2 hc0
      have hd : d.toE ≤ 0 := by
        by_contra hd
        exact h5 (by simp [Ext.lt_iff, hclt, not_le.1 hd])
      exact lt_of_le_of_ne (by exact_mod_cast le_trans hyd hd) hy0
    rw [Ext.le_iff, Ext.toE_zero] at h9
    exact ⟨bot_le, divExt_hi_neg_nonneg a c x y h9 hax hyneg hcy⟩
  · have hyneg : y < 0 := by
      rw [Ext.lt_iff, Ext.toE_zero, not_lt] at h2
      have hc0 : c.toE ≠ 0 := fun h => h6 (by simp [Ext.eq_zero_of_toE h])
      have hclt : c.toE < 0 := lt_of_le_of_ne h2 hc0
      have hd : d.toE ≤ 0 := by
        by_contra hd
        exact h5 (by simp [Ext.lt_iff, hclt, not_le.1 hd])
      exact lt_of_le_of_ne (by exact_mod_cast le_trans hyd hd) hy0
    rw [Ext.le_iff, Ext.toE_zero] at h10
    exact ⟨divExt_lo_neg_nonpos b c x y h10 hxb hyneg hcy, le_top⟩
  · simp [Itv.all, Itv.mem_mk]

/-! ### square -/

theorem Itv.sqr_encl {X : Itv} {x : ℝ} (hx : x ∈ X) : x * x ∈ Itv.sqr X := by
  cases X with
  | empty => exact absurd hx (Itv.not_mem_empty x)
  | mk a b =>
  obtain ⟨hax, hxb⟩ := hx
  simp only [Itv.sqr]
  split_ifs with h1 h2
  · rw [Ext.le_iff, Ext.toE_zero] at h1
    have hx0 : (0 : EReal) ≤ x := le_trans h1 hax
    refine ⟨le_trans (mulExt_rd_le a a) ?_, le_trans ?_ (le_mulExt_ru b b)⟩
    · rw [EReal.coe_mul]; exact mul_le_mul hax hax h1 hx0
    · rw [EReal.coe_mul]; exact mul_le_mul hxb hxb hx0 (le_trans hx0 hxb)
  · rw [Ext.le_iff, Ext.toE_zero] at h2
    have hx0 : (x : EReal) ≤ 0 := le_trans hxb h2
    refine ⟨le_trans (mulExt_rd_le b b) ?_, le_trans ?_ (le_mulExt_ru a a)⟩
    · rw [EReal.coe_mul]
      have e1 := EReal.mul_le_mul_of_nonpos_right hxb h2
      have e2 := EReal.mul_le_mul_of_nonpos_right hxb hx0
      rw [mul_comm (x : EReal) b.toE] at e1
      exact le_trans e1 e2
    · rw [EReal.coe_mul]
      have e1 := EReal.mul_le_mul_of_nonpos_right hax hx0
      have e2 := EReal.mul_le_mul_of_nonpos_right hax (le_trans hax hx0)
      rw [mul_comm a.toE (x : EReal)] at e1
      exact le_trans e1 e2
  · refine ⟨?_, ?_⟩
    · rw [Ext.toE_zero]; exact_mod_cast mul_self_nonneg x
    · rw [Ext.toE_max, EReal.coe_mul]
      rcases le_total (0 : EReal) x with hx0 | hx0
      · exact le_trans (le_trans (mul_le_mul hxb hxb hx0 (le_trans hx0 hxb)) (le_mulExt_ru b b))
          (le_max_right _ _)
      · have e1 := EReal.mul_le_mul_of_nonpos_right hax hx0
        have e2 := EReal.mul_le_mul_of_nonpos_right hax (le_trans hax hx0)
        rw [mul_comm a.toE (x : EReal)] at e1
        exact le_trans (le_trans (le_trans e1 e2) (le_mulExt_ru a a)) (le_max_left _ _)

/-! ### absolute value -/

theorem Itv.abs_encl {X : Itv} {x : ℝ} (hx : x ∈ X) : |x| ∈ Itv.abs X := by
  cases X with
  | empty => exact absurd hx (Itv.not_mem_empty x)
  | mk a b =>
  have hx' := hx
  obtain ⟨hax, hxb⟩ := hx'
  simp only [Itv.abs]
  split_ifs with h1 h2
  · rw [Ext.le_iff, Ext.toE_zero] at h1
    have hx0 : (0 : ℝ) ≤ x := by exact_mod_cast le_trans h1 hax
    rw [abs_of_nonneg hx0]; exact hx
  · rw [Ext.le_iff, Ext.toE_zero] at h2
    have hx0 : x ≤ (0 : ℝ) := by exact_mod_cast le_trans hxb h2
    rw [abs_of_nonpos hx0]; exact Itv.neg_encl hx
  · refine ⟨?_, ?_⟩
    · rw [Ext.toE_zero]; exact_mod_cast abs_nonneg x
    · rw [Ext.toE_max, Ext.toE_neg]
      rcases le_total 0 x with hx0 | hx0
      · rw [abs_of_nonneg hx0]; exact le_trans hxb (le_max_right _ _)
      · rw [abs_of_nonpos hx0, EReal.coe_neg]
        exact le_trans (EReal.neg_le_neg_iff.2 hax) (le_max_left _ _)

/-! ### max, min -/

theorem ereal_coe_max (x y : ℝ) : ((Max.max x y : ℝ) : EReal) = Max.max (x : EReal) (y : EReal) :=
  EReal.coe_strictMono.monotone.map_max

theorem ereal_coe_min (x y : ℝ) : ((Min.min x y : ℝ) : EReal) = Min.min (x : EReal) (y : EReal) :=
  EReal.coe_strictMono.monotone.map_min

theorem Itv.max_encl {X Y : Itv} {x y : ℝ} (hx : x ∈ X) (hy : y ∈ Y) :
    Max.max x y ∈ Itv.max X Y := by
  cases X with
  | empty => exact absurd hx (Itv.not_mem_empty x)
  | mk a b =>
  cases Y with
  | empty => exact absurd hy (Itv.not_mem_empty y)
  | mk c d =>
  refine ⟨?_, ?_⟩
  · rw [Ext.toE_max, ereal_coe_max]; exact max_le_max hx.1 hy.1
  · rw [Ext.toE_max, ereal_coe_max]; exact max_le_max hx.2 hy.2

theorem Itv.min_encl {X Y : Itv} {x y : ℝ} (hx : x ∈ X) (hy : y ∈ Y) :
    Min.min x y ∈ Itv.min X Y := by
  cases X with
  | empty => exact absurd hx (Itv.not_mem_empty x)
  | mk a b =>
  cases Y with
  | empty => exact absurd hy (Itv.not_mem_empty y)
  | mk c d =>
  refine ⟨?_, ?_⟩
  · rw [Ext.toE_min, ereal_coe_min]; exact min_le_min hx.1 hy.1
  · rw [Ext.toE_min, ereal_coe_min]; exact min_le_min hx.2 hy.2

/-! ### sign -/

theorem sign_cast_ge (x : ℝ) : (-1 : ℝ) ≤ (SignType.sign x : ℝ) := by
  rcases lt_trichotomy x 0 with h | h | h
  · simp [sign_neg h]
  · simp [h]
  · simp [sign_pos h]

theorem sign_cast_le (x : ℝ) : (SignType.sign x : ℝ) ≤ 1 := by
  rcases lt_trichotomy x 0 with h | h | h
  · simp [sign_neg h]
  · simp [h]
  · simp [sign_pos h]

theorem sign_cast_nonneg {x : ℝ} (hx : 0 ≤ x) : (0 : ℝ) ≤ (SignType.sign x : ℝ) := by
  rcases eq_or_lt_of_le hx with h | h
  · simp [← h]
  · simp [sign_pos h]

theorem sign_cast_nonpos {x : ℝ} (hx : x ≤ 0) : (SignType.sign x : ℝ) ≤ 0 := by
  rcases eq_or_lt_of_le hx with h | h
  · simp [h]
  · simp [sign_neg h]

theorem Itv.sign_encl {X : Itv} {x : ℝ} (hx : x ∈ X) : (SignType.sign x : ℝ) ∈ Itv.sign X := by
  cases X with
  | empty => exact absurd hx (Itv.not_mem_empty x)
  | mk a b =>
  obtain ⟨hax, hxb⟩ := hx
  simp only [Itv.sign]
  by_cases h1 : Ext.lt b (Ext.fin 0) = true
  · rw [if_pos h1]
    rw [Ext.lt_iff, Ext.toE_zero] at h1
    have hx0 : x < 0 := by exact_mod_cast lt_of_le_of_lt hxb h1
    simp [sign_neg hx0, Itv.point, Itv.mem_mk]
  rw [if_neg h1]
  by_cases h2 : Ext.lt (Ext.fin 0) a = true
  · rw [if_pos h2]
    rw [Ext.lt_iff, Ext.toE_zero] at h2
    have hx0 : 0 < x := by exact_mod_cast lt_of_lt_of_le h2 hax
    simp [sign_pos hx0, Itv.point, Itv.mem_mk]
  rw [if_neg h2]
  refine ⟨?_, ?_⟩
  · split_ifs with h3
    · simp only [Ext.toE_fin, EReal.coe_le_coe_iff]
      push_cast; exact sign_cast_ge x
    · rw [Ext.lt_iff, Ext.toE_zero, not_lt] at h3
      have hx0 : 0 ≤ x := by exact_mod_cast le_trans h3 hax
      simp only [Ext.toE_fin, EReal.coe_le_coe_iff]
      push_cast; exact sign_cast_nonneg hx0
  · split_ifs with h3
    · simp only [Ext.toE_fin, EReal.coe_le_coe_iff]
      push_cast; exact sign_cast_le x
    · rw [Ext.lt_iff, Ext.toE_zero, not_lt] at h3
      have hx0 : x ≤ 0 := by exact_mod_cast le_trans hxb h3
      simp only [Ext.toE_fin, EReal.coe_le_coe_iff]
      push_cast; exact sign_cast_nonpos hx0

/-! ### floor, ceil, integer -/

theorem rat_floor_eq (q : ℚ) : ⌊q⌋ = q.floor := rfl

theorem rat_ceil_eq (q : ℚ) : ⌈q⌉ = q.ceil := by
  rw [Rat.ceil_eq_neg_floor_neg]; rfl

theorem floorExt_le (a : Ext) (x : ℝ) (h : a.toE ≤ x) : (Itv.floorExt a).toE ≤ (((⌊x⌋ : ℤ) : ℝ) : EReal) := by
  cases a with
  | ninf => simp [Itv.floorExt]
  | pinf => simp at h
  | fin q =>
    simp only [Ext.toE_fin, EReal.coe_le_coe_iff] at h
    simp only [Itv.floorExt, Ext.toE_fin, EReal.coe_le_coe_iff]
    have := Int.floor_le_floor h
    rw [Rat.floor_cast, rat_floor_eq] at this
    push_cast; exact_mod_cast this

theorem le_floorExt (b : Ext) (x : ℝ) (h : (x : EReal) ≤ b.toE) : (((⌊x⌋ : ℤ) : ℝ) : EReal) ≤ (Itv.floorExt b).toE := by
  cases b with
  | pinf => simp [Itv.floorExt]
  | ninf => simp at h
  | fin q =>
    simp only [Ext.toE_fin, EReal.coe_le_coe_iff] at h
    simp only [Itv.floorExt, Ext.toE_fin, EReal.coe_le_coe_iff]
    have := Int.floor_le_floor h
    rw [Rat.floor_cast, rat_floor_eq] at this
    push_cast; exact_mod_cast this

theorem ceilExt_le (a : Ext) (x : ℝ) (h : a.toE ≤ x) : (Itv.ceilExt a).toE ≤ (((⌈x⌉ : ℤ) : ℝ) : EReal) := by
  cases a with
  | ninf => simp [Itv.ceilExt]
  | pinf => simp at h
  | fin q =>
    simp only [Ext.toE_fin, EReal.coe_le_coe_iff] at h
    simp only [Itv.ceilExt, Ext.toE_fin, EReal.coe_le_coe_iff]
    have := Int.ceil_le_ceil h
    rw [Rat.ceil_cast, rat_ceil_eq] at this
    push_cast; exact_mod_cast this

theorem le_ceilExt (b : Ext) (x : ℝ) (h : (x : EReal) ≤ b.toE) : (((⌈x⌉ : ℤ) : ℝ) : EReal) ≤ (Itv.ceilExt b).toE := by
  cases b with
  | pinf => simp [Itv.ceilExt]
  | ninf => simp at h
  | fin q =>
    simp only [Ext.toE_fin, EReal.coe_le_coe_iff] at h
    simp only [Itv.ceilExt, Ext.toE_fin, EReal.coe_le_coe_iff]
    have := Int.ceil_le_ceil h
    rw [Rat.ceil_cast, rat_ceil_eq] at this
    push_cast; exact_mod_cast this

theorem Itv.floor_encl {X : Itv} {x : ℝ} (hx : x ∈ X) : ((⌊x⌋ : ℤ) : ℝ) ∈ Itv.floor X := by
  cases X with
  | empty => exact absurd hx (Itv.not_mem_empty x)
  | mk a b => exact ⟨floorExt_le a x hx.1, le_floorExt b x hx.2⟩

theorem Itv.ceil_encl {X : Itv} {x : ℝ} (hx : x ∈ X) : ((⌈x⌉ : ℤ) : ℝ) ∈ Itv.ceil X := by
  cases X with
  | empty => exact absurd hx (Itv.not_mem_empty x)
  | mk a b => exact ⟨ceilExt_le a x hx.1, le_ceilExt b x hx.2⟩

theorem Itv.mem_ofBounds {lo hi : Ext} {x : ℝ} (h1 : lo.toE ≤ x) (h2 : (x : EReal) ≤ hi.toE) :
    x ∈ Itv.ofBounds lo hi := by
  unfold Itv.ofBounds
  have hle : Ext.le lo hi = true := (Ext.le_iff lo hi).2 (le_trans h1 h2)
  have hlo : lo ≠ Ext.pinf := by rintro rfl; simp at h1
  have hhi : hi ≠ Ext.ninf := by rintro rfl; simp at h2
  rw [if_pos (by simp [hle, hlo, hhi])]
  exact ⟨h1, h2⟩

theorem Itv.integer_encl {X : Itv} {x : ℝ} (hx : x ∈ X) (hint : ∃ n : ℤ, x = n) :
    x ∈ Itv.integer X := by
  cases X with
  | empty => exact absurd hx (Itv.not_mem_empty x)
  | mk a b =>
  obtain ⟨n, rfl⟩ := hint
  have h1 := ceilExt_le a _ hx.1
  have h2 := le_floorExt b _ hx.2
  rw [Int.ceil_intCast] at h1
  rw [Int.floor_intCast] at h2
  exact Itv.mem_ofBounds h1 h2

/-! ### natural powers -/

theorem powExt_rd_le_of_nonneg (n : ℕ) (a : Ext) (x : ℝ) (ha : 0 ≤ a.toE) (hax : a.toE ≤ x) :
    (Itv.powExt rd n a).toE ≤ ((x ^ n : ℝ) : EReal) := by
  cases a with
  | ninf => simp at ha
  | pinf => simp at hax
  | fin q =>
    simp only [Ext.toE_fin, EReal.coe_le_coe_iff] at hax
    have hq : (0 : ℝ) ≤ q := by simpa using ha
    refine le_trans (rd_le _) ?_
    simp only [EReal.coe_le_coe_iff, Itv.ratPow]
    push_cast
    exact pow_le_pow_left₀ hq hax n

theorem le_powExt_ru_of_nonneg (n : ℕ) (b : Ext) (x : ℝ) (hx : 0 ≤ x) (hxb : (x : EReal) ≤ b.toE) :
    ((x ^ n : ℝ) : EReal) ≤ (Itv.powExt ru n b).toE := by
  cases b with
  | ninf => simp at hxb
  | pinf => simp [Itv.powExt]
  | fin q =>
    simp only [Ext.toE_fin, EReal.coe_le_coe_iff] at hxb
    refine le_trans ?_ (le_ru _)
    simp only [EReal.coe_le_coe_iff, Itv.ratPow]
    push_cast
    exact pow_le_pow_left₀ hx hxb n

theorem powExt_rd_le_of_odd {n : ℕ} (hn : n % 2 = 1) (a : Ext) (x : ℝ) (hax : a.toE ≤ x) :
    (Itv.powExt rd n a).toE ≤ ((x ^ n : ℝ) : EReal) := by
  cases a with
  | ninf => simp [Itv.powExt, hn]
  | pinf => simp at hax
  | fin q =>
    simp only [Ext.toE_fin, EReal.coe_le_coe_iff] at hax
    refine le_trans (rd_le _) ?_
    simp only [EReal.coe_le_coe_iff, Itv.ratPow]
    push_cast
    exact (Nat.odd_iff.2 hn).pow_le_pow.2 hax

theorem le_powExt_ru_of_odd {n : ℕ} (hn : n % 2 = 1) (b : Ext) (x : ℝ) (hxb : (x : EReal) ≤ b.toE) :
    ((x ^ n : ℝ) : EReal) ≤ (Itv.powExt ru n b).toE := by
  cases b with
  | ninf => simp at hxb
  | pinf => simp [Itv.powExt]
  | fin q =>
    simp only [Ext.toE_fin, EReal.coe_le_coe_iff] at hxb
    refine le_trans ?_ (le_ru _)
    simp only [EReal.coe_le_coe_iff, Itv.ratPow]
    push_cast
    exact (Nat.odd_iff.2 hn).pow_le_pow.2 hxb

theorem powExt_rd_le_even_nonpos {n : ℕ} (hn : n % 2 = 0) (b : Ext) (x : ℝ) (hb : b.toE ≤ 0)
    (hxb : (x : EReal) ≤ b.toE) : (Itv.powExt rd n b).toE ≤ ((x ^ n : ℝ) : EReal) := by
  cases b with
  | ninf => simp at hxb
  | pinf => simp at hb
  | fin q =>
    simp only [Ext.toE_fin, EReal.coe_le_coe_iff] at hxb
    have hq : (q : ℝ) ≤ 0 := by simpa using hb
    refine le_trans (rd_le _) ?_
    simp only [EReal.coe_le_coe_iff, Itv.ratPow]
    push_cast
    have he : Even n := Nat.even_iff.2 hn
    rw [← he.neg_pow (q : ℝ), ← he.neg_pow x]
    exact pow_le_pow_left₀ (neg_nonneg.2 hq) (neg_le_neg hxb) n

theorem le_powExt_ru_even_nonpos {n : ℕ} (hn : n % 2 = 0) (a : Ext) (x : ℝ) (hx : x ≤ 0)
    (hax : a.toE ≤ x) : ((x ^ n : ℝ) : EReal) ≤ (Itv.powExt ru n a).toE := by
  cases a with
  | ninf => simp [Itv.powExt, hn]
  | pinf => simp at hax
  | fin q =>
    simp only [Ext.toE_fin, EReal.coe_le_coe_iff] at hax
    refine le_trans ?_ (le_ru _)
    simp only [EReal.coe_le_coe_iff, Itv.ratPow]
    push_cast
    have he : Even n := Nat.even_iff.2 hn
    rw [← he.neg_pow (q : ℝ), ← he.neg_pow x]
    exact pow_le_pow_left₀ (neg_nonneg.2 hx) (neg_le_neg hax) n

theorem Itv.powNat_encl {X : Itv} {x : ℝ} (n : ℕ) (hx : x ∈ X) : x ^ n ∈ Itv.powNat X n := by
  cases X with
  | empty => exact absurd hx (Itv.not_mem_empty x)
  | mk a b =>
  obtain ⟨hax, hxb⟩ := hx
  simp only [Itv.powNat]
  split_ifs with h0 h1 h2 h3
  · subst h0; simp [Itv.point, Itv.mem_mk]
  · exact ⟨powExt_rd_le_of_odd h1 a x hax, le_powExt_ru_of_odd h1 b x hxb⟩
  · have hn : n % 2 = 0 := by omega
    rw [Ext.le_iff, Ext.toE_zero] at h2
    have hx0 : (0 : ℝ) ≤ x := by exact_mod_cast le_trans h2 hax
    exact ⟨powExt_rd_le_of_nonneg n a x h2 hax, le_powExt_ru_of_nonneg n b x hx0 hxb⟩
  · have hn : n % 2 = 0 := by omega
    rw [Ext.le_iff, Ext.toE_zero] at h3
    have hx0 : x ≤ (0 : ℝ) := by exact_mod_cast le_trans hxb h3
    exact ⟨powExt_rd_le_even_nonpos hn b x h3 hxb, le_powExt_ru_even_nonpos hn a x hx0 hax⟩
  · have hn : n % 2 = 0 := by omega
    refine ⟨?_, ?_⟩
    · rw [Ext.toE_zero]; exact_mod_cast (Nat.even_iff.2 hn).pow_nonneg x
    · rw [Ext.toE_max]
      rcases le_total 0 x with hx0 | hx0
      · exact le_trans (le_powExt_ru_of_nonneg n b x hx0 hxb) (le_max_right _ _)
      · exact le_trans (le_powExt_ru_even_nonpos hn a x hx0 hax) (le_max_left _ _)

/-! ### square root -/

theorem isqrtFloor_sq_le (r : ℚ) (hr : 0 ≤ r) : ((Itv.isqrtFloor r : ℚ)) ^ 2 ≤ r := by
  unfold Itv.isqrtFloor
  have hdpos : 0 < r.den := r.den_pos
  have hnum : ((r.num.toNat : ℕ) : ℚ) = r.num := by
    have : ((r.num.toNat : ℕ) : ℤ) = r.num := Int.toNat_of_nonneg (Rat.num_nonneg.2 hr)
    exact_mod_cast congrArg (fun z : ℤ => (z : ℚ)) this
  have hr' : r = (r.num.toNat : ℚ) / (r.den : ℚ) := by rw [hnum]; exact (Rat.num_div_den r).symm
  generalize r.num.toNat = n at *
  generalize r.den = d at *
  set k := Nat.sqrt (n * d) / d with hk
  have h1 : k * d ≤ Nat.sqrt (n * d) := Nat.div_mul_le_self _ _
  have h2 : (k * d) * (k * d) ≤ n * d := Nat.le_sqrt.1 h1
  have h3 : k * k * d ≤ n := by
    apply Nat.le_of_mul_le_mul_right _ hdpos
    calc k * k * d * d = (k * d) * (k * d) := by ring
      _ ≤ n * d := h2
  have hd' : (0 : ℚ) < d := by exact_mod_cast hdpos
  rw [hr', le_div_iff₀ hd']
  have : ((k * k * d : ℕ) : ℚ) ≤ (n : ℚ) := by exact_mod_cast h3
  push_cast at this
  rw [pow_two]; exact this

theorem lt_isqrtFloor_succ_sq (r : ℚ) (hr : 0 ≤ r) : r < ((Itv.isqrtFloor r : ℚ) + 1) ^ 2 := by
  unfold Itv.isqrtFloor
  have hdpos : 0 < r.den := r.den_pos
  have hnum : ((r.num.toNat : ℕ) : ℚ) = r.num := by
    have : ((r.num.toNat : ℕ) : ℤ) = r.num := Int.toNat_of_nonneg (Rat.num_nonneg.2 hr)
    exact_mod_cast congrArg (fun z : ℤ => (z : ℚ)) this
  have hr' : r = (r.num.toNat : ℚ) / (r.den : ℚ) := by rw [hnum]; exact (Rat.num_div_den r).symm
  generalize r.num.toNat = n at *
  generalize r.den = d at *
  set k := Nat.sqrt (n * d) / d with hk
  have h1 : Nat.sqrt (n * d) < (k + 1) * d := by
    have := Nat.lt_mul_div_succ (Nat.sqrt (n * d)) hdpos
    rw [Nat.mul_comm d] at this
    exact this
  have h2 : n * d < ((k + 1) * d) * ((k + 1) * d) := Nat.sqrt_lt.1 h1
  have h3 : n < (k + 1) * (k + 1) * d := by
    apply Nat.lt_of_mul_lt_mul_right (a := d)
    calc n * d < ((k + 1) * d) * ((k + 1) * d) := h2
      _ = (k + 1) * (k + 1) * d * d := by ring
  have hd' : (0 : ℚ) < d := by exact_mod_cast hdpos
  rw [hr', div_lt_iff₀ hd']
  have : (n : ℚ) < (((k + 1) * (k + 1) * d : ℕ) : ℚ) := by exact_mod_cast h3
  push_cast at this
  rw [pow_two]; exact this

/-- the ulp used by `sqrtDown`/`sqrtUp` (only its positivity matters for soundness) -/
def sqrtUlp (q : Rat) : Rat :=
  let e := floorLog2 q
  let h : Int := (if e % 2 = 0 then e else e - 1) / 2
  let ue : Int := if h - 52 < -1074 then -1074 else h - 52
  pow2 ue

theorem sqrtUlp_pos (q : Rat) : 0 < sqrtUlp q := pow2_pos _

theorem sqrtDown_pos (q : Rat) (hq : 0 < q) :
    Itv.sqrtDown q = .fin ((Itv.isqrtFloor (q / (sqrtUlp q * sqrtUlp q)) : Rat) * sqrtUlp q) := by
  simp only [Itv.sqrtDown, if_neg (not_le.2 hq), sqrtUlp]

theorem sqrtUp_pos (q : Rat) (hq : 0 < q) :
    Itv.sqrtUp q =
      if ((Itv.isqrtFloor (q / (sqrtUlp q * sqrtUlp q)) : Rat) * sqrtUlp q) *
          ((Itv.isqrtFloor (q / (sqrtUlp q * sqrtUlp q)) : Rat) * sqrtUlp q) == q
      then .fin ((Itv.isqrtFloor (q / (sqrtUlp q * sqrtUlp q)) : Rat) * sqrtUlp q)
      else .fin ((Itv.isqrtFloor (q / (sqrtUlp q * sqrtUlp q)) : Rat) * sqrtUlp q + sqrtUlp q) := by
  unfold Itv.sqrtUp
  rw [sqrtDown_pos q hq]
  simp only [if_neg (not_le.2 hq)]
  rfl

theorem sqrtDown_le (q : Rat) (x : ℝ) (hqx : (q : ℝ) ≤ x) :
    (Itv.sqrtDown q).toE ≤ ((Real.sqrt x : ℝ) : EReal) := by
  by_cases hq : q ≤ 0
  · simp only [Itv.sqrtDown, if_pos hq, Ext.toE_fin, EReal.coe_le_coe_iff]
    push_cast; exact Real.sqrt_nonneg x
  · have hq' : 0 < q := not_le.1 hq
    rw [sqrtDown_pos q hq']
    simp only [Ext.toE_fin, EReal.coe_le_coe_iff]
    have hu := sqrtUlp_pos q
    set u := sqrtUlp q
    set k : ℚ := (Itv.isqrtFloor (q / (u * u)) : ℚ)
    have hk : k ^ 2 ≤ q / (u * u) := isqrtFloor_sq_le _ (by positivity)
    have hk' : (k * u) ^ 2 ≤ q := by
      rw [le_div_iff₀ (by positivity)] at hk
      calc (k * u) ^ 2 = k ^ 2 * (u * u) := by ring
        _ ≤ q := hk
    apply Real.le_sqrt_of_sq_le
    refine le_trans ?_ hqx
    exact_mod_cast hk'

theorem le_sqrtUp (q : Rat) (x : ℝ) (hx : 0 ≤ x) (hxq : x ≤ (q : ℝ)) :
    ((Real.sqrt x : ℝ) : EReal) ≤ (Itv.sqrtUp q).toE := by
  have hq0 : (0 : ℚ) ≤ q := by exact_mod_cast le_trans hx hxq
  rcases eq_or_lt_of_le hq0 with hq | hq
  · subst hq
    have hx0 : x = 0 := le_antisymm (by simpa using hxq) hx
    subst hx0
    simp [Itv.sqrtUp, Itv.sqrtDown]
  · rw [sqrtUp_pos q hq]
    have hu := sqrtUlp_pos q
    set u := sqrtUlp q
    have hk0 : (0 : ℚ) ≤ (Itv.isqrtFloor (q / (u * u)) : ℚ) := Nat.cast_nonneg _
    have hk : q / (u * u) < ((Itv.isqrtFloor (q / (u * u)) : ℚ) + 1) ^ 2 :=
      lt_isqrtFloor_succ_sq _ (by positivity)
    set k : ℚ := (Itv.isqrtFloor (q / (u * u)) : ℚ)
    split_ifs with h
    · have h' : k * u * (k * u) = q := by simpa using h
      simp only [Ext.toE_fin, EReal.coe_le_coe_iff]
      rw [Real.sqrt_le_left (by exact_mod_cast mul_nonneg hk0 (le_of_lt hu))]
      refine le_trans hxq ?_
      rw [pow_two]; exact_mod_cast le_of_eq h'.symm
    · simp only [Ext.toE_fin, EReal.coe_le_coe_iff]
      have hk' : q ≤ (k * u + u) ^ 2 := by
        rw [div_lt_iff₀ (by positivity)] at hk
        calc q ≤ (k + 1) ^ 2 * (u * u) := le_of_lt hk
          _ = (k * u + u) ^ 2 := by ring
      rw [Real.sqrt_le_left (by exact_mod_cast add_nonneg (mul_nonneg hk0 (le_of_lt hu)) (le_of_lt hu))]
      refine le_trans hxq ?_
      exact_mod_cast hk'

theorem Itv.sqrt_encl {X : Itv} {x : ℝ} (hx : x ∈ X) (h0 : 0 ≤ x) : Real.sqrt x ∈ Itv.sqrt X := by
  cases X with
  | empty => exact absurd hx (Itv.not_mem_empty x)
  | mk a b =>
  obtain ⟨hax, hxb⟩ := hx
  simp only [Itv.sqrt]
  split_ifs with h1
  · rw [Ext.lt_iff, Ext.toE_zero] at h1
    have : x < 0 := by exact_mod_cast lt_of_le_of_lt hxb h1
    exact absurd h0 (not_le.2 this)
  · refine ⟨?_, ?_⟩
    · cases a with
      | pinf => simp at hax
      | ninf =>
        simp only [Ext.toE_fin, EReal.coe_le_coe_iff]
        push_cast; exact Real.sqrt_nonneg x
      | fin q =>
        simp only [Ext.toE_fin, EReal.coe_le_coe_iff] at hax
        exact sqrtDown_le q x hax
    · cases b with
      | ninf => simp at hxb
      | pinf => simp
      | fin q =>
        simp only [Ext.toE_fin, EReal.coe_le_coe_iff] at hxb
        exact le_sqrtUp q x h0 hxb

/-! ### integer powers -/

/-- the local `recipPow` of `Itv.powInt`, as a standalone definition -/
def recipPow (m : ℕ) (r : Rat → Ext) (e : Ext) : Ext :=
  match e with
  | .fin q => if q = 0 then .pinf else r (1 / Itv.ratPow q m)
  | _ => .fin 0

theorem powInt_neg_eq (a b : Ext) (n : ℤ) (hn : ¬ n ≥ 0) :
    Itv.powInt (.mk a b) n =
      (let m := (-n).toNat
       let z := Ext.fin 0
       if a == z && b == z then Itv.empty
       else if Ext.lt z a || Ext.lt b z then
         if m % 2 = 0 then
           if Ext.lt z a then .mk (recipPow m rd b) (recipPow m ru a)
           else .mk (recipPow m rd a) (recipPow m ru b)
         else .mk (recipPow m rd b) (recipPow m ru a)
       else if m % 2 = 0 then
         let la := if a == z then Ext.pinf else recipPow m rd a
         let lb := if b == z then Ext.pinf else recipPow m rd b
         .mk (Ext.min la lb) .pinf
       else
         if a == z then .mk (recipPow m rd b) .pinf
         else if b == z then .mk .ninf (recipPow m ru a)
         else Itv.all) := by
  simp only [Itv.powInt, if_neg hn]
  rfl

/-- lower bound on the positive side: 0 < x ≤ b -/
theorem recipPow_rd_le_pos (m : ℕ) (b : Ext) (x : ℝ) (hx : 0 < x) (hxb : (x : EReal) ≤ b.toE) :
    (recipPow m rd b).toE ≤ (((x ^ m)⁻¹ : ℝ) : EReal) := by
  cases b with
  | ninf => simp at hxb
  | pinf =>
    simp only [recipPow, Ext.toE_fin, EReal.coe_le_coe_iff]
    push_cast; positivity
  | fin q =>
    simp only [Ext.toE_fin, EReal.coe_le_coe_iff] at hxb
    have hq : (0 : ℝ) < q := lt_of_lt_of_le hx hxb
    have hq' : q ≠ 0 := by intro h; rw [h] at hq; simp at hq
    simp only [recipPow, if_neg hq']
    refine le_trans (rd_le _) ?_
    simp only [EReal.coe_le_coe_iff, Itv.ratPow]
    push_cast
    rw [one_div]
    exact inv_anti₀ (pow_pos hx m) (pow_le_pow_left₀ (le_of_lt hx) hxb m)

/-- upper bound on the positive side: 0 ≤ a ≤ x, 0 < x -/
theorem le_recipPow_ru_pos (m : ℕ) (a : Ext) (x : ℝ) (ha : 0 ≤ a.toE) (hax : a.toE ≤ x) :
    (((x ^ m)⁻¹ : ℝ) : EReal) ≤ (recipPow m ru a).toE := by
  cases a with
  | ninf => simp at ha
  | pinf => simp at hax
  | fin q =>
    simp only [Ext.toE_fin, EReal.coe_le_coe_iff] at hax
    have hq : (0 : ℝ) ≤ q := by simpa using ha
    by_cases hq' : q = 0
    · simp [recipPow, hq']
    · simp only [recipPow, if_neg hq']
      have hqpos : (0 : ℝ) < q := lt_of_le_of_ne hq (by exact_mod_cast Ne.symm hq')
      refine le_trans ?_ (le_ru _)
      simp only [EReal.coe_le_coe_iff, Itv.ratPow]
      push_cast
      rw [one_div]
      exact inv_anti₀ (pow_pos hqpos m) (pow_le_pow_left₀ hq hax m)

/-- lower bound on the negative side, even exponent: a ≤ x < 0 -/
theorem recipPow_rd_le_neg_even {m : ℕ} (hm : m % 2 = 0) (a : Ext) (x : ℝ) (hx : x < 0)
    (hax : a.toE ≤ x) : (recipPow m rd a).toE ≤ (((x ^ m)⁻¹ : ℝ) : EReal) := by
  have he : Even m := Nat.even_iff.2 hm
  cases a with
  | pinf => simp at hax
  | ninf =>
    simp only [recipPow, Ext.toE_fin, EReal.coe_le_coe_iff]
    push_cast
    exact inv_nonneg.2 (he.pow_nonneg x)
  | fin q =>
    simp only [Ext.toE_fin, EReal.coe_le_coe_iff] at hax
    have hq : (q : ℝ) < 0 := lt_of_le_of_lt hax hx
    have hq' : q ≠ 0 := by intro h; rw [h] at hq; simp at hq
    simp only [recipPow, if_neg hq']
    refine le_trans (rd_le _) ?_
    simp only [EReal.coe_le_coe_iff, Itv.ratPow]
    push_cast
    rw [one_div, ← he.neg_pow (q : ℝ), ← he.neg_pow x]
    exact inv_anti₀ (pow_pos (neg_pos.2 hx) m)
      (pow_le_pow_left₀ (le_of_lt (neg_pos.2 hx)) (neg_le_neg hax) m)

/-- upper bound on the negative side, even exponent: x ≤ b ≤ 0, x < 0 -/
theorem le_recipPow_ru_neg_even {m : ℕ} (hm : m % 2 = 0) (b : Ext) (x : ℝ)
    (hb : b.toE ≤ 0) (hxb : (x : EReal) ≤ b.toE) :
    (((x ^ m)⁻¹ : ℝ) : EReal) ≤ (recipPow m ru b).toE := by
  have he : Even m := Nat.even_iff.2 hm
  cases b with
  | ninf => simp at hxb
  | pinf => simp at hb
  | fin q =>
    simp only [Ext.toE_fin, EReal.coe_le_coe_iff] at hxb
    have hq : (q : ℝ) ≤ 0 := by simpa using hb
    by_cases hq' : q = 0
    · simp [recipPow, hq']
    · simp only [recipPow, if_neg hq']
      have hqneg : (q : ℝ) < 0 := lt_of_le_of_ne hq (by exact_mod_cast hq')
      refine le_trans ?_ (le_ru _)
      simp only [EReal.coe_le_coe_iff, Itv.ratPow]
      push_cast
      rw [one_div, ← he.neg_pow (q : ℝ), ← he.neg_pow x]
      exact inv_anti₀ (pow_pos (neg_pos.2 hqneg) m)
        (pow_le_pow_left₀ (le_of_lt (neg_pos.2 hqneg)) (neg_le_neg hxb) m)

/-- lower bound on the negative side, odd exponent: x ≤ b < 0 -/
theorem recipPow_rd_le_neg_odd {m : ℕ} (hm : m % 2 = 1) (b : Ext) (x : ℝ)
    (hb : b.toE < 0) (hxb : (x : EReal) ≤ b.toE) :
    (recipPow m rd b).toE ≤ (((x ^ m)⁻¹ : ℝ) : EReal) := by
  have ho : Odd m := Nat.odd_iff.2 hm
  cases b with
  | ninf => simp at hxb
  | pinf => simp at hb
  | fin q =>
    simp only [Ext.toE_fin, EReal.coe_le_coe_iff] at hxb
    have hq : (q : ℝ) < 0 := by simpa using hb
    have hx : x < 0 := lt_of_le_of_lt hxb hq
    have hq' : q ≠ 0 := by intro h; rw [h] at hq; simp at hq
    simp only [recipPow, if_neg hq']
    refine le_trans (rd_le _) ?_
    simp only [EReal.coe_le_coe_iff, Itv.ratPow]
    push_cast
    rw [one_div, inv_le_inv_of_neg (ho.pow_neg_iff.2 hq) (ho.pow_neg_iff.2 hx)]
    exact ho.pow_le_pow.2 hxb

/-- upper bound on the negative side, odd exponent: a ≤ x < 0 -/
theorem le_recipPow_ru_neg_odd {m : ℕ} (hm : m % 2 = 1) (a : Ext) (x : ℝ) (hx : x < 0)
    (hax : a.toE ≤ x) : (((x ^ m)⁻¹ : ℝ) : EReal) ≤ (recipPow m ru a).toE := by
  have ho : Odd m := Nat.odd_iff.2 hm
  cases a with
  | pinf => simp at hax
  | ninf =>
    simp only [recipPow, Ext.toE_fin, EReal.coe_le_coe_iff]
    push_cast
    exact inv_nonpos.2 (le_of_lt (ho.pow_neg_iff.2 hx))
  | fin q =>
    simp only [Ext.toE_fin, EReal.coe_le_coe_iff] at hax
    have hq : (q : ℝ) < 0 := lt_of_le_of_lt hax hx
    have hq' : q ≠ 0 := by intro h; rw [h] at hq; simp at hq
    simp only [recipPow, if_neg hq']
    refine le_trans ?_ (le_ru _)
    simp only [EReal.coe_le_coe_iff, Itv.ratPow]
    push_cast
    rw [one_div, inv_le_inv_of_neg (ho.pow_neg_iff.2 hx) (ho.pow_neg_iff.2 hq)]
    exact ho.pow_le_pow.2 hax

theorem recipPow_even_mixed {m : ℕ} (hm : m % 2 = 0) (a b : Ext) (x : ℝ) (hx0 : x ≠ 0)
    (hax : a.toE ≤ x) (hxb : (x : EReal) ≤ b.toE) :
    (Ext.min (if (a == Ext.fin 0) = true then Ext.pinf else recipPow m rd a)
        (if (b == Ext.fin 0) = true then Ext.pinf else recipPow m rd b)).toE
      ≤ (((x ^ m)⁻¹ : ℝ) : EReal) := by
  rw [Ext.toE_min]
  rcases lt_or_gt_of_ne hx0 with hx | hx
  · have ha : ¬ (a == Ext.fin 0) = true := by
      intro h
      rw [beq_iff_eq] at h
      rw [h, Ext.toE_zero] at hax
      exact absurd hx (not_lt.2 (by exact_mod_cast hax))
    rw [if_neg ha]
    exact le_trans (min_le_left _ _) (recipPow_rd_le_neg_even hm a x hx hax)
  · have hb : ¬ (b == Ext.fin 0) = true := by
      intro h
      rw [beq_iff_eq] at h
      rw [h, Ext.toE_zero] at hxb
      exact absurd hx (not_lt.2 (by exact_mod_cast hxb))
    rw [if_neg hb]
    exact le_trans (min_le_right _ _) (recipPow_rd_le_pos m b x hx hxb)

theorem Itv.powInt_encl {X : Itv} {x : ℝ} (n : ℤ) (hx : x ∈ X) (h0 : n < 0 → x ≠ 0) :
    x ^ n ∈ Itv.powInt X n := by
  by_cases hn : n ≥ 0
  · have h := Itv.powNat_encl n.toNat hx
    have e : x ^ n = x ^ n.toNat := by
      conv_lhs => rw [← Int.toNat_of_nonneg hn]
      exact zpow_natCast x _
    rw [e]
    simpa only [Itv.powInt, if_pos hn] using h
  · cases X with
    | empty => exact absurd hx (Itv.not_mem_empty x)
    | mk a b =>
    have hx0 : x ≠ 0 := h0 (not_le.1 hn)
    obtain ⟨hax, hxb⟩ := hx
    have e : x ^ n = (x ^ (-n).toNat)⁻¹ := by
      have : n = -(((-n).toNat : ℕ) : ℤ) := by omega
      conv_lhs => rw [this]
      rw [zpow_neg, zpow_natCast]
    rw [e, powInt_neg_eq a b n hn]
    generalize (-n).toNat = m
    simp only []
    by_cases h1 : (a == Ext.fin 0 && b == Ext.fin 0) = true
    · -- X = {0}
      simp only [Bool.and_eq_true, beq_iff_eq] at h1
      rw [h1.1, Ext.toE_zero] at hax
      rw [h1.2, Ext.toE_zero] at hxb
      exact absurd (le_antisymm (by exact_mod_cast hxb) (by exact_mod_cast hax)) hx0
    rw [if_neg h1]
    by_cases h2 : (Ext.lt (Ext.fin 0) a || Ext.lt b (Ext.fin 0)) = true
    · -- constant sign
      rw [if_pos h2]
      simp only [Bool.or_eq_true, Ext.lt_iff, Ext.toE_zero] at h2
      split_ifs with h3 h4
      · rw [Ext.lt_iff, Ext.toE_zero] at h4
        have hxpos : 0 < x := by exact_mod_cast lt_of_lt_of_le h4 hax
        exact ⟨recipPow_rd_le_pos m b x hxpos hxb, le_recipPow_ru_pos m a x (le_of_lt h4) hax⟩
      · rw [Ext.lt_iff, Ext.toE_zero] at h4
        have hb : b.toE < 0 := h2.resolve_left h4
        have hxneg : x < 0 := by exact_mod_cast lt_of_le_of_lt hxb hb
        exact ⟨recipPow_rd_le_neg_even h3 a x hxneg hax, le_recipPow_ru_neg_even h3 b x (le_of_lt hb) hxb⟩
      · have hm : m % 2 = 1 := by omega
        rcases h2 with h4 | hb
        · have hxpos : 0 < x := by exact_mod_cast lt_of_lt_of_le h4 hax
          exact ⟨recipPow_rd_le_pos m b x hxpos hxb, le_recipPow_ru_pos m a x (le_of_lt h4) hax⟩
        · have hxneg : x < 0 := by exact_mod_cast lt_of_le_of_lt hxb hb
          exact ⟨recipPow_rd_le_neg_odd hm b x hb hxb, le_recipPow_ru_neg_odd hm a x hxneg hax⟩
    rw [if_neg h2]
    by_cases h5 : m % 2 = 0
    · rw [if_pos h5]
      exact ⟨recipPow_even_mixed h5 a b x hx0 hax hxb, le_top⟩
    rw [if_neg h5]
    have hm : m % 2 = 1 := by omega
    split_ifs with h9 h10
    · rw [beq_iff_eq] at h9
      rw [h9, Ext.toE_zero] at hax
      have hxpos : 0 < x := lt_of_le_of_ne (by exact_mod_cast hax) (Ne.symm hx0)
      exact ⟨recipPow_rd_le_pos m b x hxpos hxb, le_top⟩
    · rw [beq_iff_eq] at h10
      rw [h10, Ext.toE_zero] at hxb
      have hxneg : x < 0 := lt_of_le_of_ne (by exact_mod_cast hxb) hx0
      exact ⟨bot_le, le_recipPow_ru_neg_odd hm a x hxneg hax⟩
    · simp [Itv.all, Itv.mem_mk]

/-! ### emptiness -/

theorem Itv.add_empty_iff (X Y : Itv) : Itv.add X Y = .empty ↔ X = .empty ∨ Y = .empty := by
  cases X <;> cases Y <;> simp [Itv.add]

theorem Itv.neg_empty_iff (X : Itv) : Itv.neg X = .empty ↔ X = .empty := by
  cases X <;> simp [Itv.neg]

theorem Itv.sub_empty_iff (X Y : Itv) : Itv.sub X Y = .empty ↔ X = .empty ∨ Y = .empty := by
  rw [Itv.sub, Itv.add_empty_iff, Itv.neg_empty_iff]

theorem Itv.mul_empty_iff (X Y : Itv) : Itv.mul X Y = .empty ↔ X = .empty ∨ Y = .empty := by
  cases X <;> cases Y <;> simp [Itv.mul]

theorem Itv.max_empty_iff (X Y : Itv) : Itv.max X Y = .empty ↔ X = .empty ∨ Y = .empty := by
  cases X <;> cases Y <;> simp [Itv.max]

theorem Itv.min_empty_iff (X Y : Itv) : Itv.min X Y = .empty ↔ X = .empty ∨ Y = .empty := by
  cases X <;> cases Y <;> simp [Itv.min]

theorem Itv.div_empty_imp {X Y : Itv} (h : Itv.div X Y = .empty) :
    ∀ x y : ℝ, x ∈ X → y ∈ Y → y = 0 := by
  intro x y hx hy
  cases X with
  | empty => exact absurd hx (Itv.not_mem_empty x)
  | mk a b =>
  cases Y with
  | empty => exact absurd hy (Itv.not_mem_empty y)
  | mk c d =>
  simp only [Itv.div, Itv.divPos, Itv.all] at h
  split_ifs at h with h1
  simp only [Bool.and_eq_true, beq_iff_eq] at h1
  obtain ⟨hcy, hyd⟩ := hy
  rw [h1.1, Ext.toE_zero] at hcy
  rw [h1.2, Ext.toE_zero] at hyd
  exact le_antisymm (by exact_mod_cast hyd) (by exact_mod_cast hcy)

theorem Itv.sqrt_empty_imp {X : Itv} (h : Itv.sqrt X = .empty) : ∀ x : ℝ, x ∈ X → x < 0 := by
  intro x hx
  cases X with
  | empty => exact absurd hx (Itv.not_mem_empty x)
  | mk a b =>
  simp only [Itv.sqrt] at h
  split_ifs at h with h1
  rw [Ext.lt_iff, Ext.toE_zero] at h1
  exact_mod_cast lt_of_le_of_lt hx.2 h1

theorem Itv.powNat_ne_empty (a b : Ext) (n : ℕ) : Itv.powNat (.mk a b) n ≠ .empty := by
  simp only [Itv.powNat, Itv.point]
  split_ifs <;> simp

theorem Itv.powInt_empty_imp {X : Itv} {n : ℤ} (h : Itv.powInt X n = .empty) :
    ∀ x : ℝ, x ∈ X → (n < 0 ∧ x = 0) := by
  intro x hx
  cases X with
  | empty => exact absurd hx (Itv.not_mem_empty x)
  | mk a b =>
  by_cases hn : n ≥ 0
  · simp only [Itv.powInt, if_pos hn] at h
    exact absurd h (Itv.powNat_ne_empty a b _)
  · refine ⟨not_le.1 hn, ?_⟩
    rw [powInt_neg_eq a b n hn] at h
    simp only [Itv.all] at h
    split_ifs at h with h1
    simp only [Bool.and_eq_true, beq_iff_eq] at h1
    obtain ⟨hax, hxb⟩ := hx
    rw [h1.1, Ext.toE_zero] at hax
    rw [h1.2, Ext.toE_zero] at hxb
    exact le_antisymm (by exact_mod_cast hxb) (by exact_mod_cast hax)

end Ibex
