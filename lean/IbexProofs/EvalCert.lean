/-
  Evaluation of expression DAGs: the evaluator of `IbexModel/Expr.lean` is *natural* with respect
  to a relation between the entries of two number algebras.  Instances of the relation:
    * `x ∈ X` (a real number belongs to an interval)  — interval evaluation encloses the value at
      every real point of the box, and an accepted node certificate (`Eval.certOk`) proves that
      the implementation's node domains enclose the real values (property C02);
    * `x = (q : ℝ)` — the exact rational evaluation performed by the driver at sample points is
      the real semantics.
-/
import IbexProofs.Arith2
import Mathlib.Data.List.Forall2
import Mathlib.Analysis.SpecialFunctions.Exp
import Mathlib.Analysis.SpecialFunctions.Log.Basic
import Mathlib.Analysis.SpecialFunctions.Trigonometric.Basic
import Mathlib.Analysis.SpecialFunctions.Trigonometric.Inverse
import Mathlib.Analysis.SpecialFunctions.Trigonometric.Arctan
import Mathlib.Analysis.SpecialFunctions.Arsinh
import Mathlib.Analysis.SpecialFunctions.Arcosh
import Mathlib.Analysis.SpecialFunctions.Artanh

namespace Ibex
open Ibex List

/-! ## 1. relations between entries, lifted to lists and matrices -/

section Rel
variable {α β γ δ : Type}

/-- entrywise relation between two matrices of the same shape -/
def MatRel (R : α → β → Prop) (v : Mat α) (z : Mat β) : Prop :=
  v.r = z.r ∧ v.c = z.c ∧ Forall₂ R v.d z.d

/-- `g` follows `f`: on related arguments, when `f` is defined so is `g`, with related results -/
def Rel1 (R : α → β → Prop) (S : γ → δ → Prop) (f : α → Option γ) (g : β → Option δ) : Prop :=
  ∀ a b x, R a b → f a = some x → ∃ y, g b = some y ∧ S x y

def Rel2 (R : α → β → Prop) (S : γ → δ → Prop) (f : α → α → Option γ) (g : β → β → Option δ) : Prop :=
  ∀ a b a' b' x, R a b → R a' b' → f a a' = some x → ∃ y, g b b' = some y ∧ S x y

theorem mapM_rel {R : α → β → Prop} {S : γ → δ → Prop} {f : α → Option γ} {g : β → Option δ}
    (hfg : Rel1 R S f g) :
    ∀ {l1 : List α} {l2 : List β} {o1 : List γ}, Forall₂ R l1 l2 → l1.mapM f = some o1 →
      ∃ o2, l2.mapM g = some o2 ∧ Forall₂ S o1 o2 := by
  intro l1 l2 o1 h
  induction h generalizing o1 with
  | nil => intro h; simp at h; subst h; exact ⟨[], by simp, .nil⟩
  | cons hab _ ih =>
    intro h
    simp only [List.mapM_cons, bind, pure, Option.bind_eq_some_iff] at h
    obtain ⟨x, hx, xs, hxs, h⟩ := h
    obtain ⟨y, hy, hxy⟩ := hfg _ _ _ hab hx
    obtain ⟨ys, hys, hxys⟩ := ih hxs
    refine ⟨y :: ys, ?_, ?_⟩
    · simp [List.mapM_cons, hy, hys]
    · simp at h; subst h; exact .cons hxy hxys

theorem forall₂_eq_self {ι : Type} (l : List ι) : Forall₂ Eq l l := by
  induction l with
  | nil => exact .nil
  | cons a l ih => exact .cons rfl ih

/-- `mapM` over the same list of indices -/
theorem mapM_rel_same {ι : Type} {S : γ → δ → Prop} {f : ι → Option γ} {g : ι → Option δ}
    (hfg : ∀ i x, f i = some x → ∃ y, g i = some y ∧ S x y) {l : List ι} {o1 : List γ}
    (h : l.mapM f = some o1) : ∃ o2, l.mapM g = some o2 ∧ Forall₂ S o1 o2 := by
  refine mapM_rel (R := Eq) ?_ (forall₂_eq_self _) h
  rintro a b x rfl hx
  exact hfg _ _ hx

theorem foldlM_rel {R : α → β → Prop} {f : α → α → Option α} {g : β → β → Option β}
    (hfg : Rel2 R R f g) :
    ∀ {l1 : List α} {l2 : List β} {a : α} {b : β} {x : α}, Forall₂ R l1 l2 → R a b →
      l1.foldlM f a = some x → ∃ y, l2.foldlM g b = some y ∧ R x y := by
  intro l1 l2 a b x h
  induction h generalizing a b x with
  | nil => intro hab h; simp at h; subst h; exact ⟨b, by simp, hab⟩
  | cons hcd _ ih =>
    intro hab h
    simp only [List.foldlM_cons, bind, Option.bind_eq_some_iff] at h
    obtain ⟨a', ha', h⟩ := h
    obtain ⟨b', hb', hab'⟩ := hfg _ _ _ _ _ hab hcd ha'
    obtain ⟨y, hy, hxy⟩ := ih hab' h
    exact ⟨y, by simp [List.foldlM_cons, hb', hy], hxy⟩

theorem forall₂_zip_pair {R : α → β → Prop} :
    ∀ {a1 : List α} {a2 : List β}, Forall₂ R a1 a2 → ∀ {b1 : List α} {b2 : List β}, Forall₂ R b1 b2 →
      Forall₂ (fun p q => R p.1 q.1 ∧ R p.2 q.2) (List.zip a1 b1) (List.zip a2 b2) := by
  intro a1 a2 ha
  induction ha with
  | nil => intro b1 b2 _; simp
  | cons h _ ih =>
    intro b1 b2 hb
    cases hb with
    | nil => simp
    | cons h' hb' => exact .cons ⟨h, h'⟩ (ih hb')

theorem forall₂_getElem? {R : α → β → Prop} {l1 : List α} {l2 : List β} (h : Forall₂ R l1 l2) (i : Nat) :
    (l1[i]? = none ∧ l2[i]? = none) ∨ ∃ a b, l1[i]? = some a ∧ l2[i]? = some b ∧ R a b := by
  induction h generalizing i with
  | nil => left; simp
  | cons hab _ ih =>
    cases i with
    | zero => right; exact ⟨_, _, by simp, by simp, hab⟩
    | succ i => simpa using ih i

theorem forall₂_filterMap_idx {R : α → β → Prop} {l1 : List α} {l2 : List β} (h : Forall₂ R l1 l2)
    (φ : Nat → Nat) (is : List Nat) :
    Forall₂ R (is.filterMap fun i => l1[φ i]?) (is.filterMap fun i => l2[φ i]?) := by
  induction is with
  | nil => simp
  | cons i is ih =>
    rcases forall₂_getElem? h (φ i) with ⟨h1, h2⟩ | ⟨a, b, h1, h2, hab⟩
    · simpa [List.filterMap_cons, h1, h2] using ih
    · simpa [List.filterMap_cons, h1, h2] using Forall₂.cons hab ih

theorem forall₂_flatMap {ι κ : Type} {P : ι → κ → Prop} {R : α → β → Prop} {f : ι → List α} {g : κ → List β}
    (hfg : ∀ i k, P i k → Forall₂ R (f i) (g k)) :
    ∀ {l1 : List ι} {l2 : List κ}, Forall₂ P l1 l2 → Forall₂ R (l1.flatMap f) (l2.flatMap g) := by
  intro l1 l2 h
  induction h with
  | nil => simp
  | cons hik _ ih => simpa [List.flatMap_cons] using rel_append (hfg _ _ hik) ih

theorem forall₂_flatMap_same {ι : Type} {R : α → β → Prop} {f : ι → List α} {g : ι → List β}
    (hfg : ∀ i, Forall₂ R (f i) (g i)) (l : List ι) : Forall₂ R (l.flatMap f) (l.flatMap g) :=
  forall₂_flatMap (P := Eq) (by rintro i k rfl; exact hfg i) (forall₂_eq_self _)

/-! ### structural matrix operations only move entries around -/

variable {R : α → β → Prop}

theorem MatRel.row {a : Mat α} {b : Mat β} (h : MatRel R a b) (i : Nat) : Forall₂ R (a.row i) (b.row i) := by
  obtain ⟨_, hc, hd⟩ := h
  unfold Mat.row
  rw [hc]
  exact forall₂_take _ (forall₂_drop _ hd)

theorem MatRel.col {a : Mat α} {b : Mat β} (h : MatRel R a b) (j : Nat) : Forall₂ R (a.col j) (b.col j) := by
  obtain ⟨hr, hc, hd⟩ := h
  unfold Mat.col
  rw [hr, hc]
  exact forall₂_filterMap_idx hd (fun i => i * b.c + j) _

theorem MatRel.transpose {a : Mat α} {b : Mat β} (h : MatRel R a b) : MatRel R a.transpose b.transpose := by
  obtain ⟨hr, hc, hd⟩ := h
  refine ⟨hc, hr, ?_⟩
  unfold Mat.transpose
  simp only
  rw [hr, hc]
  exact forall₂_flatMap_same (fun j => forall₂_filterMap_idx hd (fun i => i * b.c + j) _) _

theorem MatRel.sub? {a : Mat α} {b : Mat β} (h : MatRel R a b) {r1 r2 c1 c2 : Nat} {x : Mat α}
    (hx : a.sub? r1 r2 c1 c2 = some x) : ∃ y, b.sub? r1 r2 c1 c2 = some y ∧ MatRel R x y := by
  have hr := h.1
  have hc := h.2.1
  unfold Mat.sub? at hx ⊢
  rw [← hr, ← hc]
  split at hx
  · rename_i hcond
    rw [if_pos hcond]
    simp only [Option.some.injEq] at hx
    subst hx
    refine ⟨_, rfl, rfl, rfl, ?_⟩
    exact forall₂_flatMap_same (fun i => forall₂_take _ (forall₂_drop _ (h.row _))) _
  · exact absurd hx (by simp)

theorem Mat.mapM?_rel {S : γ → δ → Prop} {f : α → Option γ} {g : β → Option δ} (hfg : Rel1 R S f g)
    {a : Mat α} {b : Mat β} (h : MatRel R a b) {x : Mat γ} (hx : a.mapM? f = some x) :
    ∃ y, b.mapM? g = some y ∧ MatRel S x y := by
  obtain ⟨hr, hc, hd⟩ := h
  unfold Mat.mapM? at hx ⊢
  simp only [Option.map_eq_some_iff] at hx
  obtain ⟨d, hd1, rfl⟩ := hx
  obtain ⟨d', hd2, hdd⟩ := mapM_rel hfg hd hd1
  exact ⟨_, by rw [hd2]; rfl, hr, hc, hdd⟩

theorem Mat.zip?_rel {S : γ → δ → Prop} {f : α → α → Option γ} {g : β → β → Option δ} (hfg : Rel2 R S f g)
    {a a' : Mat α} {b b' : Mat β} (h : MatRel R a b) (h' : MatRel R a' b') {x : Mat γ}
    (hx : Mat.zip? f a a' = some x) : ∃ y, Mat.zip? g b b' = some y ∧ MatRel S x y := by
  obtain ⟨hr, hc, hd⟩ := h
  obtain ⟨hr', hc', hd'⟩ := h'
  unfold Mat.zip? at hx ⊢
  rw [← hr, ← hc, ← hr', ← hc']
  split at hx
  · rename_i hcond
    rw [if_pos hcond]
    simp only [Option.map_eq_some_iff] at hx
    obtain ⟨d, hd1, rfl⟩ := hx
    have hz := forall₂_zip_pair hd hd'
    obtain ⟨d2, hd2, hdd⟩ := mapM_rel (R := fun (p : α × α) (q : β × β) => R p.1 q.1 ∧ R p.2 q.2) (S := S)
      (f := fun (p : α × α) => f p.1 p.2) (g := fun (p : β × β) => g p.1 p.2)
      (fun p q x hpq hx => hfg _ _ _ _ _ hpq.1 hpq.2 hx) hz hd1
    exact ⟨_, by rw [hd2]; rfl, rfl, rfl, hdd⟩
  · exact absurd hx (by simp)

/-! ## 2. the evaluator is natural w.r.t. a relation between two algebras -/

/-- `B` follows `A` along `R`: every operation of `A` that is defined on arguments related to
    arguments of `B` is defined in `B` with a related result.  For the unary operators named by a
    string the requirement applies only to the names that `B` supports. -/
structure AlgRel (R : α → β → Prop) (A : Alg α) (B : Alg β) : Prop where
  ofItv : ∀ I a, A.ofItv I = some a → ∃ b, B.ofItv I = some b ∧ R a b
  zero : R A.zero B.zero
  add : Rel2 R R A.add B.add
  sub : Rel2 R R A.sub B.sub
  mul : Rel2 R R A.mul B.mul
  div : Rel2 R R A.div B.div
  max : Rel2 R R A.max B.max
  min : Rel2 R R A.min B.min
  un : ∀ op f g, A.un op = some f → B.un op = some g → Rel1 R R f g
  pow : ∀ n, Rel1 R R (fun a => A.pow a n) (fun b => B.pow b n)
  chi : ∀ a b a' b' a'' b'' x, R a b → R a' b' → R a'' b'' → A.chi a a' a'' = some x →
    ∃ y, B.chi b b' b'' = some y ∧ R x y

namespace Eval
variable {A : Alg α} {B : Alg β}

theorem sumList_rel (h : AlgRel R A B) {l1 : List α} {l2 : List β} (hl : Forall₂ R l1 l2) {x : α}
    (hx : sumList A l1 = some x) : ∃ y, sumList B l2 = some y ∧ R x y := by
  cases hl with
  | nil => simp only [sumList, Option.some.injEq] at hx ⊢; subst hx; exact ⟨_, rfl, h.zero⟩
  | cons hab hl => exact foldlM_rel h.add hl hab hx

theorem dot_rel (h : AlgRel R A B) {u1 v1 : List α} {u2 v2 : List β} (hu : Forall₂ R u1 u2)
    (hv : Forall₂ R v1 v2) {x : α} (hx : dot A u1 v1 = some x) : ∃ y, dot B u2 v2 = some y ∧ R x y := by
  unfold dot at hx ⊢
  simp only [bind, Option.bind_eq_some_iff] at hx
  obtain ⟨ps, hps, hx⟩ := hx
  obtain ⟨qs, hqs, hpq⟩ := mapM_rel (R := fun (p : α × α) (q : β × β) => R p.1 q.1 ∧ R p.2 q.2) (S := R)
      (f := fun (p : α × α) => A.mul p.1 p.2) (g := fun (p : β × β) => B.mul p.1 p.2)
      (fun p q x hpq hx => h.mul _ _ _ _ _ hpq.1 hpq.2 hx) (forall₂_zip_pair hu hv) hps
  simp only [bind, hqs, Option.bind_some]
  cases hpq with
  | nil => simp only [Option.some.injEq] at hx ⊢; subst hx; exact ⟨_, rfl, h.zero⟩
  | cons hab hl => exact foldlM_rel h.add hl hab hx

theorem matMul_rel (h : AlgRel R A B) {a a' : Mat α} {b b' : Mat β} (ha : MatRel R a b)
    (ha' : MatRel R a' b') {x : Mat α} (hx : matMul A a a' = some x) :
    ∃ y, matMul B b b' = some y ∧ MatRel R x y := by
  unfold matMul at hx ⊢
  rw [← ha.2.1, ← ha'.1, ← ha.1, ← ha'.2.1]
  split at hx
  · exact absurd hx (by simp)
  · rename_i hcond
    rw [if_neg hcond]
    simp only [bind, pure, Option.bind_eq_some_iff, Option.some.injEq] at hx
    obtain ⟨d, hd, rfl⟩ := hx
    obtain ⟨d', hd', hdd⟩ := mapM_rel_same (S := R)
      (g := fun (ij : Nat × Nat) => dot B (b.row ij.1) (b'.col ij.2))
      (fun ij x hx => dot_rel h (ha.row _) (ha'.col _) hx) hd
    exact ⟨⟨a.r, a'.c, d'⟩, by simp only [bind, pure, hd', Option.bind_some], rfl, rfl, hdd⟩

theorem isScalar_eq {a : Mat α} {b : Mat β} (h : MatRel R a b) : a.isScalar = b.isScalar := by
  unfold Mat.isScalar; rw [h.1, h.2.1]

theorem mulVal_rel (h : AlgRel R A B) {a a' : Mat α} {b b' : Mat β} (ha : MatRel R a b)
    (ha' : MatRel R a' b') {x : Mat α} (hx : mulVal A a a' = some x) :
    ∃ y, mulVal B b b' = some y ∧ MatRel R x y := by
  unfold mulVal at hx ⊢
  rw [← isScalar_eq ha]
  split at hx
  · rename_i hs
    rw [if_pos hs]
    have hd := ha.2.2
    split at hx
    · rename_i s hs1
      rw [hs1] at hd
      generalize b.d = bd at hd ⊢
      cases hd with
      | cons hst hnil =>
        cases hnil
        exact Mat.mapM?_rel (R := R) (S := R) (f := fun u => A.mul s u)
          (fun u v x huv hx => h.mul _ _ _ _ _ hst huv hx) ha' hx
    · exact absurd hx (by simp)
  · rename_i hs
    rw [if_neg hs]
    exact matMul_rel h ha ha' hx

theorem binVal_rel (h : AlgRel R A B) (op : String) {a a' : Mat α} {b b' : Mat β} (ha : MatRel R a b)
    (ha' : MatRel R a' b') {x : Mat α} :
    binVal A op a a' = some x → ∃ y, binVal B op b b' = some y ∧ MatRel R x y := by
  unfold binVal
  rw [← isScalar_eq ha, ← isScalar_eq ha']
  split
  · exact Mat.zip?_rel h.add ha ha'
  · exact Mat.zip?_rel h.sub ha ha'
  · exact mulVal_rel h ha ha'
  · split
    · exact Mat.zip?_rel h.div ha ha'
    · intro hx; exact absurd hx (by simp)
  · split
    · exact Mat.zip?_rel h.max ha ha'
    · intro hx; exact absurd hx (by simp)
  · split
    · exact Mat.zip?_rel h.min ha ha'
    · intro hx; exact absurd hx (by simp)
  · intro hx; exact absurd hx (by simp)

theorem unVal_rel (h : AlgRel R A B) (op : String) {a : Mat α} {b : Mat β} (ha : MatRel R a b) {x : Mat α} :
    unVal A op a = some x →
      (∃ y, unVal B op b = some y ∧ MatRel R x y) ∨ (op ≠ "trans" ∧ B.un op = none) := by
  unfold unVal
  rw [← isScalar_eq ha]
  split
  · intro hx
    simp only [Option.some.injEq] at hx
    subst hx
    exact .inl ⟨_, rfl, ha.transpose⟩
  · intro hx
    simp only [Option.bind_eq_some_iff] at hx
    obtain ⟨f, hf, hx⟩ := hx
    cases hg : B.un "minus" with
    | none => exact .inr ⟨by decide, rfl⟩
    | some g =>
      obtain ⟨y, hy, hxy⟩ := Mat.mapM?_rel (h.un _ f g hf hg) ha hx
      exact .inl ⟨y, by simpa using hy, hxy⟩
  · rename_i hnt _
    split
    · intro hx
      simp only [Option.bind_eq_some_iff] at hx
      obtain ⟨f, hf, hx⟩ := hx
      cases hg : B.un op with
      | none => exact .inr ⟨fun e => hnt e, rfl⟩
      | some g =>
        obtain ⟨y, hy, hxy⟩ := Mat.mapM?_rel (h.un _ f g hf hg) ha hx
        exact .inl ⟨y, by simpa using hy, hxy⟩
    · intro hx; exact absurd hx (by simp)

theorem forall₂_map_eq {ι κ μ : Type} {P : ι → κ → Prop} {f : ι → μ} {g : κ → μ}
    (hfg : ∀ a b, P a b → f a = g b) :
    ∀ {l1 : List ι} {l2 : List κ}, Forall₂ P l1 l2 → l1.map f = l2.map g := by
  intro l1 l2 h
  induction h with
  | nil => rfl
  | cons hab _ ih => simp [hfg _ _ hab, ih]

theorem forall₂_all_eq {ι κ : Type} {P : ι → κ → Prop} {f : ι → Bool} {g : κ → Bool}
    (hfg : ∀ a b, P a b → f a = g b) {l1 : List ι} {l2 : List κ} (h : Forall₂ P l1 l2) :
    l1.all f = l2.all g := by
  induction h with
  | nil => rfl
  | cons hab _ ih => simp [hfg _ _ hab, ih]

theorem vecVal_rel {row : Bool} {ps : List (Mat α)} {qs : List (Mat β)} (h : Forall₂ (MatRel R) ps qs)
    {x : Mat α} (hx : vecVal row ps = some x) : ∃ y, vecVal row qs = some y ∧ MatRel R x y := by
  cases h with
  | nil => exact absurd hx (by simp [vecVal])
  | @cons p q ps' qs' hpq hrest =>
    have hall : Forall₂ (MatRel R) (p :: ps') (q :: qs') := .cons hpq hrest
    have hr : (p :: ps').all (fun m => m.r == p.r) = (q :: qs').all (fun m => m.r == q.r) :=
      forall₂_all_eq (fun a b hab => by rw [hab.1, hpq.1]) hall
    have hc : (p :: ps').all (fun m => m.c == p.c) = (q :: qs').all (fun m => m.c == q.c) :=
      forall₂_all_eq (fun a b hab => by rw [hab.2.1, hpq.2.1]) hall
    have hmr : (p :: ps').map (·.r) = (q :: qs').map (·.r) := forall₂_map_eq (fun a b hab => hab.1) hall
    have hmc : (p :: ps').map (·.c) = (q :: qs').map (·.c) := forall₂_map_eq (fun a b hab => hab.2.1) hall
    unfold vecVal at hx ⊢
    simp only at hx ⊢
    rw [← hr, ← hc, ← hmr, ← hmc]
    split at hx
    · rename_i hrow
      split at hx
      · rename_i hcond
        rw [if_pos hrow, if_pos hcond]
        simp only [Option.some.injEq] at hx
        subst hx
        refine ⟨_, rfl, hpq.1, rfl, ?_⟩
        simp only
        rw [← hpq.1]
        exact forall₂_flatMap_same (fun i => forall₂_flatMap (fun a b hab => hab.row i) hall) _
      · exact absurd hx (by simp)
    · rename_i hrow
      split at hx
      · rename_i hcond
        rw [if_neg hrow, if_pos hcond]
        simp only [Option.some.injEq] at hx
        subst hx
        refine ⟨_, rfl, rfl, hpq.2.1, ?_⟩
        exact forall₂_flatMap (fun a b hab => hab.2.2) hall
      · exact absurd hx (by simp)

/-- the values available so far are related (and `v2` is defined wherever `v1` is) -/
def ArgsRel (R : α → β → Prop) (v1 : Array (Mat α)) (v2 : Array (Mat β)) : Prop :=
  ∀ (j : Nat) (v : Mat α), v1[j]? = some v → ∃ z, v2[j]? = some z ∧ MatRel R v z

/-- call tables: when both calls are defined on related arguments, the results are related -/
def CallRel (R : α → β → Prop) (c1 : Nat → List (Mat α) → Option (Mat α))
    (c2 : Nat → List (Mat β) → Option (Mat β)) : Prop :=
  ∀ f as bs x y, Forall₂ (MatRel R) as bs → c1 f as = some x → c2 f bs = some y → MatRel R x y

/-- The only two reasons why `B` can leave a node undefined although `A` defines it on related
    arguments: a unary operator whose name `B` does not support, or an applied function whose
    evaluation in `B` is undefined. -/
def Unchecked (B : Alg β) (c2 : Nat → List (Mat β) → Option (Mat β)) (v2 : Array (Mat β)) (n : Node) : Prop :=
  (∃ op a, n.k = .un op a ∧ op ≠ "trans" ∧ B.un op = none) ∨
  (∃ f as bs, n.k = .apply f as ∧ as.mapM (fun i => v2[i]?) = some bs ∧ c2 f bs = none)

theorem args_mapM (hv : ArgsRel R v1 v2) {as : List Nat} {ms : List (Mat α)}
    (h : as.mapM (fun i => v1[i]?) = some ms) :
    ∃ zs, as.mapM (fun i => v2[i]?) = some zs ∧ Forall₂ (MatRel R) ms zs :=
  mapM_rel_same (fun i x hx => hv i x hx) h

/-- **Naturality of one evaluation step.** -/
theorem nodeVal_rel {e1 : List α} {e2 : List β} {c1 : Nat → List (Mat α) → Option (Mat α)}
    {c2 : Nat → List (Mat β) → Option (Mat β)} {v1 : Array (Mat α)} {v2 : Array (Mat β)}
    (h : AlgRel R A B) (henv : Forall₂ R e1 e2) (hc : CallRel R c1 c2) (hv : ArgsRel R v1 v2)
    (n : Node) {x : Mat α} :
    nodeVal A e1 c1 v1 n = some x →
      (∃ y, nodeVal B e2 c2 v2 n = some y ∧ MatRel R x y) ∨ Unchecked B c2 v2 n := by
  obtain ⟨k, r, c⟩ := n
  cases k with
  | var off =>
    intro hx
    left
    simp only [nodeVal] at hx ⊢
    have hd := forall₂_take (r * c) (forall₂_drop off henv)
    rw [← hd.length_eq]
    split at hx
    · rename_i hl
      rw [if_pos hl]
      simp only [Option.some.injEq] at hx
      subst hx
      exact ⟨_, rfl, rfl, rfl, hd⟩
    · exact absurd hx (by simp)
  | const vs =>
    intro hx
    left
    simp only [nodeVal, Option.bind_eq_some_iff] at hx ⊢
    obtain ⟨d, hd, hx⟩ := hx
    obtain ⟨d', hd', hdd⟩ := mapM_rel_same (S := R) (g := B.ofItv) (fun I a ha => h.ofItv I a ha) hd
    split at hx
    · rename_i hl
      simp only [Option.some.injEq] at hx
      subst hx
      exact ⟨_, ⟨d', hd', by rw [← hdd.length_eq, if_pos hl]⟩, rfl, rfl, hdd⟩
    · exact absurd hx (by simp)
  | un op a =>
    intro hx
    simp only [nodeVal, Option.bind_eq_some_iff] at hx
    obtain ⟨va, hva, hx⟩ := hx
    obtain ⟨vb, hvb, hab⟩ := hv _ _ hva
    rcases unVal_rel h op hab hx with ⟨y, hy, hxy⟩ | hun
    · exact .inl ⟨y, by simp only [nodeVal, hvb, Option.bind_some, hy], hxy⟩
    · exact .inr (.inl ⟨op, a, rfl, hun⟩)
  | bin op a b =>
    intro hx
    left
    simp only [nodeVal, bind, Option.bind_eq_some_iff] at hx
    obtain ⟨va, hva, vb, hvb, hx⟩ := hx
    obtain ⟨wa, hwa, haa⟩ := hv _ _ hva
    obtain ⟨wb, hwb, hbb⟩ := hv _ _ hvb
    obtain ⟨y, hy, hxy⟩ := binVal_rel h op haa hbb hx
    exact ⟨y, by simp only [nodeVal, bind, hwa, hwb, Option.bind_some, hy], hxy⟩
  | pow a k =>
    intro hx
    left
    simp only [nodeVal, bind, Option.bind_eq_some_iff] at hx
    obtain ⟨va, hva, hx⟩ := hx
    obtain ⟨wa, hwa, haa⟩ := hv _ _ hva
    split at hx
    · rename_i hs
      obtain ⟨y, hy, hxy⟩ := Mat.mapM?_rel (h.pow k) haa hx
      rw [isScalar_eq haa] at hs
      exact ⟨y, by simp only [nodeVal, bind, hwa, Option.bind_some, if_pos hs, hy], hxy⟩
    · exact absurd hx (by simp)
  | idx a r1 r2 c1 c2 =>
    intro hx
    left
    simp only [nodeVal, bind, Option.bind_eq_some_iff] at hx
    obtain ⟨va, hva, hx⟩ := hx
    obtain ⟨wa, hwa, haa⟩ := hv _ _ hva
    obtain ⟨y, hy, hxy⟩ := haa.sub? hx
    exact ⟨y, by simp only [nodeVal, bind, hwa, Option.bind_some, hy], hxy⟩
  | vec row as =>
    intro hx
    left
    simp only [nodeVal, bind, Option.bind_eq_some_iff] at hx
    obtain ⟨ms, hms, hx⟩ := hx
    obtain ⟨zs, hzs, hmz⟩ := args_mapM hv hms
    obtain ⟨y, hy, hxy⟩ := vecVal_rel hmz hx
    exact ⟨y, by simp only [nodeVal, bind, hzs, Option.bind_some, hy], hxy⟩
  | chi a b c' =>
    intro hx
    left
    simp only [nodeVal, bind, Option.bind_eq_some_iff] at hx
    obtain ⟨va, hva, vb, hvb, vc, hvc, hx⟩ := hx
    obtain ⟨wa, hwa, haa⟩ := hv _ _ hva
    obtain ⟨wb, hwb, hbb⟩ := hv _ _ hvb
    obtain ⟨wc, hwc, hcc⟩ := hv _ _ hvc
    simp only [nodeVal, bind, hwa, hwb, hwc, Option.bind_some]
    have ha := haa.2.2
    have hb := hbb.2.2
    have hc' := hcc.2.2
    split at hx
    · rename_i x1 y1 z1 e1 e2 e3
      rw [e1] at ha; rw [e2] at hb; rw [e3] at hc'
      generalize wa.d = da at ha ⊢
      generalize wb.d = db at hb ⊢
      generalize wc.d = dc at hc' ⊢
      cases ha with
      | cons ha hn1 =>
      cases hn1
      cases hb with
      | cons hb hn2 =>
      cases hn2
      cases hc' with
      | cons hc' hn3 =>
      cases hn3
      simp only [Option.map_eq_some_iff] at hx ⊢
      obtain ⟨s, hs, rfl⟩ := hx
      obtain ⟨t, ht, hst⟩ := h.chi _ _ _ _ _ _ _ ha hb hc' hs
      exact ⟨_, ⟨t, ht, rfl⟩, rfl, rfl, .cons hst .nil⟩
    · exact absurd hx (by simp)
  | apply f as =>
    intro hx
    simp only [nodeVal, bind, Option.bind_eq_some_iff] at hx
    obtain ⟨ms, hms, hx⟩ := hx
    obtain ⟨zs, hzs, hmz⟩ := args_mapM hv hms
    cases hy : c2 f zs with
    | none => exact .inr (.inr ⟨f, as, zs, rfl, hzs, hy⟩)
    | some y => exact .inl ⟨y, by simp only [nodeVal, bind, hzs, Option.bind_some, hy], hc _ _ _ _ _ hmz hx hy⟩

/-! ### the whole evaluation (`Eval.run`): induction over the node array -/

/-- one step of `Eval.run` -/
def step (A : Alg α) (env : List α) (call : Nat → List (Mat α) → Option (Mat α))
    (vals : Array (Mat α)) (n : Node) : Option (Array (Mat α)) := do
  let v ← nodeVal A env call vals n
  if v.r == n.r && v.c == n.c then pure (vals.push v) else none

theorem run_eq (A : Alg α) (env : List α) (call : Nat → List (Mat α) → Option (Mat α)) (dag : Dag) :
    run A env call dag = dag.toList.foldlM (step A env call) #[] := by
  unfold run
  rw [Array.foldlM_toList]
  rfl

theorem step_eq_some {env : List α} {call : Nat → List (Mat α) → Option (Mat α)} {vals w : Array (Mat α)}
    {n : Node} (h : step A env call vals n = some w) :
    ∃ v, nodeVal A env call vals n = some v ∧ v.r = n.r ∧ v.c = n.c ∧ w = vals.push v := by
  unfold step at h
  simp only [bind, Option.bind_eq_some_iff] at h
  obtain ⟨v, hv, h⟩ := h
  split at h
  · rename_i hd
    simp only [Bool.and_eq_true, beq_iff_eq] at hd
    simp only [pure, Option.some.injEq] at h
    exact ⟨v, hv, hd.1, hd.2, h.symm⟩
  · exact absurd h (by simp)

theorem step_of_nodeVal {env : List α} {call : Nat → List (Mat α) → Option (Mat α)} {vals : Array (Mat α)}
    {n : Node} {v : Mat α} (h : nodeVal A env call vals n = some v) (hr : v.r = n.r) (hc : v.c = n.c) :
    step A env call vals n = some (vals.push v) := by
  unfold step
  simp [bind, h, hr, hc]

/-- later steps only append: the size grows by one per node and earlier entries are kept -/
theorem fold_prefix {env : List α} {call : Nat → List (Mat α) → Option (Mat α)} :
    ∀ (ns : List Node) {v r : Array (Mat α)}, ns.foldlM (step A env call) v = some r →
      r.size = v.size + ns.length ∧ ∀ j, j < v.size → r[j]? = v[j]? := by
  intro ns
  induction ns with
  | nil => intro v r h; simp at h; subst h; simp
  | cons n ns ih =>
    intro v r h
    simp only [List.foldlM_cons, bind, Option.bind_eq_some_iff] at h
    obtain ⟨w, hw, h⟩ := h
    obtain ⟨x, _, _, _, rfl⟩ := step_eq_some hw
    obtain ⟨h1, h2⟩ := ih h
    refine ⟨by rw [h1]; simp; omega, fun j hj => ?_⟩
    rw [h2 j (by simp; omega), Array.getElem?_push, if_neg (by omega)]

theorem ArgsRel.push {v1 : Array (Mat α)} {v2 : Array (Mat β)} (hs : v1.size = v2.size)
    (hv : ArgsRel R v1 v2) {x : Mat α} {y : Mat β} (hxy : MatRel R x y) :
    ArgsRel R (v1.push x) (v2.push y) := by
  intro j v hj
  rw [Array.getElem?_push] at hj ⊢
  rw [← hs]
  split at hj
  · rename_i e
    rw [if_pos e]
    simp only [Option.some.injEq] at hj
    subst hj
    exact ⟨y, rfl, hxy⟩
  · rename_i e
    rw [if_neg e]
    exact hv j v hj

theorem unVal_none {op : String} (hop : op ≠ "trans") (hB : B.un op = none) (b : Mat β) :
    unVal B op b = none := by
  unfold unVal
  split
  · exact absurd rfl hop
  · rw [hB]; rfl
  · rw [hB]; split <;> rfl

/-- a node that `B` cannot check is undefined in `B` -/
theorem Unchecked.nodeVal_none {e2 : List β} {c2 : Nat → List (Mat β) → Option (Mat β)}
    {v2 : Array (Mat β)} {n : Node} (h : Unchecked B c2 v2 n) : nodeVal B e2 c2 v2 n = none := by
  obtain ⟨k, r, c⟩ := n
  rcases h with ⟨op, a, hk, hop, hB⟩ | ⟨f, as, bs, hk, hbs, hc⟩
  · simp only at hk
    subst hk
    simp only [nodeVal]
    cases v2[a]? with
    | none => rfl
    | some b => exact unVal_none hop hB b
  · simp only at hk
    subst hk
    simp only [nodeVal, bind, hbs, Option.bind_some, hc]

/-- weak form of `nodeVal_rel`: when both sides are defined, the values are related -/
theorem nodeVal_rel_of_some {e1 : List α} {e2 : List β} {c1 : Nat → List (Mat α) → Option (Mat α)}
    {c2 : Nat → List (Mat β) → Option (Mat β)} {v1 : Array (Mat α)} {v2 : Array (Mat β)}
    (h : AlgRel R A B) (henv : Forall₂ R e1 e2) (hc : CallRel R c1 c2) (hv : ArgsRel R v1 v2)
    {n : Node} {x : Mat α} {y : Mat β} (hx : nodeVal A e1 c1 v1 n = some x)
    (hy : nodeVal B e2 c2 v2 n = some y) : MatRel R x y := by
  rcases nodeVal_rel h henv hc hv n hx with ⟨y', hy', hxy⟩ | hu
  · rw [hy] at hy'
    simp only [Option.some.injEq] at hy'
    subst hy'
    exact hxy
  · rw [hu.nodeVal_none] at hy
    exact absurd hy (by simp)

theorem fold_rel {e1 : List α} {e2 : List β} {c1 : Nat → List (Mat α) → Option (Mat α)}
    {c2 : Nat → List (Mat β) → Option (Mat β)} (h : AlgRel R A B) (henv : Forall₂ R e1 e2)
    (hc : CallRel R c1 c2) :
    ∀ (ns : List Node) {v1 r1 : Array (Mat α)} {v2 r2 : Array (Mat β)}, v1.size = v2.size →
      ArgsRel R v1 v2 → ns.foldlM (step A e1 c1) v1 = some r1 → ns.foldlM (step B e2 c2) v2 = some r2 →
      r1.size = r2.size ∧ ArgsRel R r1 r2 := by
  intro ns
  induction ns with
  | nil =>
    intro v1 r1 v2 r2 hs hv h1 h2
    simp at h1 h2
    subst h1; subst h2
    exact ⟨hs, hv⟩
  | cons n ns ih =>
    intro v1 r1 v2 r2 hs hv h1 h2
    simp only [List.foldlM_cons, bind, Option.bind_eq_some_iff] at h1 h2
    obtain ⟨w1, hw1, h1⟩ := h1
    obtain ⟨w2, hw2, h2⟩ := h2
    obtain ⟨x, hx, _, _, rfl⟩ := step_eq_some hw1
    obtain ⟨y, hy, _, _, rfl⟩ := step_eq_some hw2
    have hxy := nodeVal_rel_of_some h henv hc hv hx hy
    exact ih (by simp [hs]) (hv.push hs hxy) h1 h2

/-- **Naturality of the evaluation of a whole DAG** (any size, any sharing): if both evaluations
    are defined, they have a value for the same nodes and the values are related node by node. -/
theorem run_rel {e1 : List α} {e2 : List β} {c1 : Nat → List (Mat α) → Option (Mat α)}
    {c2 : Nat → List (Mat β) → Option (Mat β)} (h : AlgRel R A B) (henv : Forall₂ R e1 e2)
    (hc : CallRel R c1 c2) {dag : Dag} {r1 : Array (Mat α)} {r2 : Array (Mat β)}
    (h1 : run A e1 c1 dag = some r1) (h2 : run B e2 c2 dag = some r2) :
    r1.size = r2.size ∧ ArgsRel R r1 r2 := by
  rw [run_eq] at h1 h2
  exact fold_rel h henv hc _ rfl (fun j v hj => by simp at hj) h1 h2

theorem root_rel {e1 : List α} {e2 : List β} {c1 : Nat → List (Mat α) → Option (Mat α)}
    {c2 : Nat → List (Mat β) → Option (Mat β)} (h : AlgRel R A B) (henv : Forall₂ R e1 e2)
    (hc : CallRel R c1 c2) {dag : Dag} {x : Mat α} {y : Mat β}
    (h1 : root A e1 c1 dag = some x) (h2 : root B e2 c2 dag = some y) : MatRel R x y := by
  unfold root at h1 h2
  simp only [Option.bind_eq_some_iff] at h1 h2
  obtain ⟨r1, hr1, h1⟩ := h1
  obtain ⟨r2, hr2, h2⟩ := h2
  obtain ⟨hs, hv⟩ := run_rel h henv hc hr1 hr2
  rw [Array.back?_eq_getElem?] at h1 h2
  obtain ⟨z, hz, hxz⟩ := hv _ _ h1
  rw [hs, h2] at hz
  simp only [Option.some.injEq] at hz
  subst hz
  exact hxz

/-- the call tables built from the same function definitions are related -/
theorem buildCalls_rel (h : AlgRel R A B) (funs : List Dag) :
    CallRel R (buildCalls A funs) (buildCalls B funs) := by
  unfold buildCalls
  generalize funs.zipIdx = l
  have h0 : CallRel R (fun (_ : Nat) (_ : List (Mat α)) => (none : Option (Mat α)))
      (fun (_ : Nat) (_ : List (Mat β)) => (none : Option (Mat β))) := by
    intro f as bs x y _ hx
    exact absurd hx (by simp)
  revert h0
  generalize (fun (_ : Nat) (_ : List (Mat α)) => (none : Option (Mat α))) = t1
  generalize (fun (_ : Nat) (_ : List (Mat β)) => (none : Option (Mat β))) = t2
  induction l generalizing t1 t2 with
  | nil => intro h0; exact h0
  | cons p l ih =>
    intro h0
    simp only [List.foldl_cons]
    apply ih
    intro f as bs x y hab hx hy
    simp only at hx hy
    split at hx
    · rename_i hf
      rw [if_pos hf] at hy
      exact root_rel h (forall₂_flatMap (fun a b hab => hab.2.2) hab) h0 hx hy
    · rename_i hf
      rw [if_neg hf] at hy
      exact h0 _ _ _ _ _ hab hx hy

end Eval

end Rel

/-! ## 3. the real-number algebra -/

/-- a degenerate interval constant `[q,q]` denotes the real `q`; a thick constant has no point value -/
noncomputable def realOfItv : Itv → Option ℝ
  | .mk (.fin a) (.fin b) => if a = b then some (a : ℝ) else none
  | _ => none

open Classical in
/-- The real semantics of the operators (the specification).  It mirrors `Alg.rat` on ℝ and adds
    `sqrt` and the elementary functions, each defined on its natural domain.  Thick interval
    constants are undefined (an expression containing one has no point value). -/
noncomputable def Alg.real : Alg ℝ where
  ofItv := realOfItv
  zero := 0
  add a b := some (a + b)
  sub a b := some (a - b)
  mul a b := some (a * b)
  div a b := if b = 0 then none else some (a / b)
  max a b := some (Max.max a b)
  min a b := some (Min.min a b)
  un op := match op with
    | "minus" => some fun a => some (-a)
    | "sqr" => some fun a => some (a * a)
    | "abs" => some fun a => some |a|
    | "sign" => some fun a => some (SignType.sign a : ℝ)
    | "floor" => some fun a => some ((⌊a⌋ : ℤ) : ℝ)
    | "ceil" => some fun a => some ((⌈a⌉ : ℤ) : ℝ)
    | "sqrt" => some fun a => if 0 ≤ a then some (Real.sqrt a) else none
    | "exp" => some fun a => some (Real.exp a)
    | "log" => some fun a => if 0 < a then some (Real.log a) else none
    | "cos" => some fun a => some (Real.cos a)
    | "sin" => some fun a => some (Real.sin a)
    | "tan" => some fun a => if Real.cos a = 0 then none else some (Real.tan a)
    | "cosh" => some fun a => some (Real.cosh a)
    | "sinh" => some fun a => some (Real.sinh a)
    | "tanh" => some fun a => some (Real.tanh a)
    | "acos" => some fun a => if -1 ≤ a ∧ a ≤ 1 then some (Real.arccos a) else none
    | "asin" => some fun a => if -1 ≤ a ∧ a ≤ 1 then some (Real.arcsin a) else none
    | "atan" => some fun a => some (Real.arctan a)
    | "acosh" => some fun a => if 1 ≤ a then some (Real.arcosh a) else none
    | "asinh" => some fun a => some (Real.arsinh a)
    | "atanh" => some fun a => if -1 < a ∧ a < 1 then some (Real.artanh a) else none
    | _ => none
  pow a n := if n < 0 ∧ a = 0 then none else some (a ^ n)
  chi a b c := some (if a ≤ 0 then b else c)

/-- membership of a real matrix in an interval matrix -/
def MatMem (v : Mat ℝ) (z : Mat Itv) : Prop :=
  v.r = z.r ∧ v.c = z.c ∧ List.Forall₂ (· ∈ ·) v.d z.d

/-- membership of a (flattened) real environment in a box -/
def EnvMem (p : List ℝ) (box : List Itv) : Prop := List.Forall₂ (· ∈ ·) p box

/-- the relation "the real `x` belongs to the interval `X`" -/
abbrev RMem : ℝ → Itv → Prop := fun x X => x ∈ X

theorem MatMem_iff {v : Mat ℝ} {z : Mat Itv} : MatMem v z ↔ MatRel RMem v z := Iff.rfl

theorem mem_itvNonEmpty {x : ℝ} {X : Itv} (h : x ∈ X) : ∃ Y, itvNonEmpty X = some Y ∧ x ∈ Y := by
  cases X with
  | empty => exact absurd h (Itv.not_mem_empty x)
  | mk a b => exact ⟨_, rfl, h⟩

private theorem mem_hull_l {x : ℝ} {X Y : Itv} (hx : x ∈ X) : x ∈ Itv.hull X Y := by
  cases X with
  | empty => exact absurd hx (Itv.not_mem_empty x)
  | mk a b =>
    cases Y with
    | empty => exact hx
    | mk c d =>
      simp only [Itv.hull, Itv.mem_mk, Ext.toE_max, Ext.toE_min]
      exact ⟨le_trans (min_le_left _ _) hx.1, le_trans hx.2 (le_max_left _ _)⟩

private theorem mem_hull_r {x : ℝ} {X Y : Itv} (hx : x ∈ Y) : x ∈ Itv.hull X Y := by
  cases Y with
  | empty => exact absurd hx (Itv.not_mem_empty x)
  | mk c d =>
    cases X with
    | empty => exact hx
    | mk a b =>
      simp only [Itv.hull, Itv.mem_mk, Ext.toE_max, Ext.toE_min]
      exact ⟨le_trans (min_le_right _ _) hx.1, le_trans hx.2 (le_max_right _ _)⟩

/-- **Operator-level enclosure**: every interval operator of the model (`Alg.itv`) encloses the
    real operator, and is defined (non-empty) whenever the real operator is defined at a point of
    its arguments. -/
theorem Alg.real_itv : AlgRel RMem Alg.real Alg.itv where
  ofItv := by
    intro I a h
    unfold Alg.real realOfItv at h
    simp only at h
    split at h
    · rename_i q q'
      split at h
      · rename_i e
        subst e
        simp only [Option.some.injEq] at h
        subst h
        exact ⟨_, rfl, le_refl _, le_refl _⟩
      · exact absurd h (by simp)
    · exact absurd h (by simp)
  zero := by
    show (0 : ℝ) ∈ Itv.point 0
    simp [Itv.point, Itv.mem_mk]
  add := by
    intro x X y Y s hx hy h
    simp only [Alg.real, Option.some.injEq] at h
    subst h
    exact mem_itvNonEmpty (Itv.add_encl hx hy)
  sub := by
    intro x X y Y s hx hy h
    simp only [Alg.real, Option.some.injEq] at h
    subst h
    exact mem_itvNonEmpty (Itv.sub_encl hx hy)
  mul := by
    intro x X y Y s hx hy h
    simp only [Alg.real, Option.some.injEq] at h
    subst h
    exact mem_itvNonEmpty (Itv.mul_encl hx hy)
  div := by
    intro x X y Y s hx hy h
    simp only [Alg.real] at h
    split at h
    · exact absurd h (by simp)
    · rename_i hy0
      simp only [Option.some.injEq] at h
      subst h
      exact mem_itvNonEmpty (Itv.div_encl hx hy hy0)
  max := by
    intro x X y Y s hx hy h
    simp only [Alg.real, Option.some.injEq] at h
    subst h
    exact mem_itvNonEmpty (Itv.max_encl hx hy)
  min := by
    intro x X y Y s hx hy h
    simp only [Alg.real, Option.some.injEq] at h
    subst h
    exact mem_itvNonEmpty (Itv.min_encl hx hy)
  un := by
    intro op f g hf hg x X s hx hs
    simp only [Alg.itv] at hg
    split at hg
    · simp only [Alg.real, Option.some.injEq] at hf hg
      subst hf; subst hg
      simp only [Option.some.injEq] at hs; subst hs
      exact mem_itvNonEmpty (Itv.neg_encl hx)
    · simp only [Alg.real, Option.some.injEq] at hf hg
      subst hf; subst hg
      simp only [Option.some.injEq] at hs; subst hs
      exact mem_itvNonEmpty (Itv.sqr_encl hx)
    · simp only [Alg.real, Option.some.injEq] at hf hg
      subst hf; subst hg
      simp only [Option.some.injEq] at hs; subst hs
      exact mem_itvNonEmpty (Itv.abs_encl hx)
    · simp only [Alg.real, Option.some.injEq] at hf hg
      subst hf; subst hg
      simp only [Option.some.injEq] at hs; subst hs
      exact mem_itvNonEmpty (Itv.sign_encl hx)
    · simp only [Alg.real, Option.some.injEq] at hf hg
      subst hf; subst hg
      simp only at hs
      split at hs
      · rename_i h0
        simp only [Option.some.injEq] at hs; subst hs
        exact mem_itvNonEmpty (Itv.sqrt_encl hx h0)
      · exact absurd hs (by simp)
    · simp only [Alg.real, Option.some.injEq] at hf hg
      subst hf; subst hg
      simp only [Option.some.injEq] at hs; subst hs
      exact mem_itvNonEmpty (Itv.floor_encl hx)
    · simp only [Alg.real, Option.some.injEq] at hf hg
      subst hf; subst hg
      simp only [Option.some.injEq] at hs; subst hs
      exact mem_itvNonEmpty (Itv.ceil_encl hx)
    · exact absurd hg (by simp)
  pow := by
    intro n x X s hx h
    simp only [Alg.real] at h
    split at h
    · exact absurd h (by simp)
    · rename_i h0
      simp only [Option.some.injEq] at h
      subst h
      exact mem_itvNonEmpty (Itv.powInt_encl n hx (fun hn hx0 => h0 ⟨hn, hx0⟩))
  chi := by
    intro x X y Y z Z s hx hy hz h
    simp only [Alg.real, Option.some.injEq] at h
    subst h
    cases X with
    | empty => exact absurd hx (Itv.not_mem_empty x)
    | mk al ah =>
      simp only [Alg.itv]
      obtain ⟨h1, h2⟩ := hx
      split
      · rename_i hle
        rw [Ext.le_iff, Ext.toE_zero] at hle
        have : x ≤ 0 := by exact_mod_cast le_trans h2 hle
        rw [if_pos this]
        exact mem_itvNonEmpty hy
      · split
        · rename_i _ hlt
          rw [Ext.lt_iff, Ext.toE_zero] at hlt
          have : ¬ x ≤ 0 := not_le.2 (by exact_mod_cast lt_of_lt_of_le hlt h1)
          rw [if_neg this]
          exact mem_itvNonEmpty hz
        · split
          · exact mem_itvNonEmpty (mem_hull_l hy)
          · exact mem_itvNonEmpty (mem_hull_r hz)

/-! ## 4. soundness of the node certificate `Eval.certOk` -/

namespace Eval

theorem forall₂_mem_of_subset :
    ∀ {vd : List ℝ} {md zd : List Itv}, Forall₂ RMem vd md → md.length = zd.length →
      ((List.zip md zd).all fun p => Itv.subset p.1 p.2) = true → Forall₂ RMem vd zd := by
  intro vd md zd h
  induction h generalizing zd with
  | nil =>
    intro hl _
    cases zd with
    | nil => exact .nil
    | cons _ _ => simp at hl
  | cons hab _ ih =>
    intro hl hs
    cases zd with
    | nil => simp at hl
    | cons z zd =>
      simp only [List.zip_cons_cons, List.all_cons, Bool.and_eq_true] at hs
      simp only [List.length_cons, Nat.add_right_cancel_iff] at hl
      exact .cons (Itv.mem_of_subset hs.1 hab) (ih hl hs.2)

/-- inclusion of interval matrices preserves membership -/
theorem MatMem.of_matSubset {v : Mat ℝ} {m z : Mat Itv} (hm : MatMem v m) (hs : matSubset m z = true) :
    MatMem v z := by
  unfold matSubset at hs
  simp only [Bool.and_eq_true, beq_iff_eq] at hs
  obtain ⟨⟨⟨hr, hc⟩, hl⟩, hall⟩ := hs
  exact ⟨hm.1.trans hr, hm.2.1.trans hc, forall₂_mem_of_subset hm.2.2 hl hall⟩

theorem certOk_size {funs : List Dag} {dag : Dag} {box : List Itv} {doms : Array (Mat Itv)}
    (h : certOk funs dag box doms = true) : doms.size = dag.size := by
  unfold certOk at h
  simp only [Bool.and_eq_true, beq_iff_eq] at h
  exact h.1

/-- what an accepted certificate says about one node -/
theorem certOk_node {funs : List Dag} {dag : Dag} {box : List Itv} {doms : Array (Mat Itv)}
    (h : certOk funs dag box doms = true) {i : Nat} {n : Node} (hn : dag[i]? = some n) {m : Mat Itv}
    (hm : nodeVal Alg.itv box (buildCalls Alg.itv funs) doms n = some m) :
    ∃ z, doms[i]? = some z ∧ matSubset m z = true := by
  unfold certOk certBad at h
  simp only [Bool.and_eq_true, List.isEmpty_iff, List.filterMap_eq_nil_iff] at h
  have hmem : (n, i) ∈ dag.toList.zipIdx := by
    rw [List.mk_mem_zipIdx_iff_getElem?, Array.getElem?_toList]
    exact hn
  have := h.2 _ hmem
  simp only [hm] at this
  cases hz : doms[i]? with
  | none => rw [hz] at this; simp at this
  | some z =>
    rw [hz] at this
    simp only at this
    refine ⟨z, rfl, ?_⟩
    by_contra hne
    rw [if_neg hne] at this
    exact absurd this (by simp)

variable {AR : Alg ℝ} {p : List ℝ} {box : List Itv} {rcall : Nat → List (Mat ℝ) → Option (Mat ℝ)}
  {icall : Nat → List (Mat Itv) → Option (Mat Itv)} {dag : Dag} {doms : Array (Mat Itv)}

/-- induction over the node list: the real values computed so far belong to the implementation's
    domains at the same indices -/
theorem cert_fold (hAR : AlgRel RMem AR Alg.itv) (hcall : CallRel RMem rcall icall) (hp : EnvMem p box)
    {rfinal : Array (Mat ℝ)}
    (hcert : ∀ (i : Nat) n m, dag[i]? = some n → nodeVal Alg.itv box icall doms n = some m →
      ∃ z, doms[i]? = some z ∧ matSubset m z = true)
    (hyp : ∀ (i : Nat) n v1 x, dag[i]? = some n → Unchecked Alg.itv icall doms n →
      ArgsRel RMem v1 doms → nodeVal AR p rcall v1 n = some x → rfinal[i]? = some x →
      ∃ z, doms[i]? = some z ∧ MatMem x z) :
    ∀ (ns pre : List Node) (v1 : Array (Mat ℝ)), dag.toList = pre ++ ns → v1.size = pre.length →
      ArgsRel RMem v1 doms → ns.foldlM (step AR p rcall) v1 = some rfinal → ArgsRel RMem rfinal doms := by
  intro ns
  induction ns with
  | nil =>
    intro pre v1 _ _ hv h
    simp at h
    subst h
    exact hv
  | cons n ns ih =>
    intro pre v1 hdag hsz hv h
    simp only [List.foldlM_cons, bind, Option.bind_eq_some_iff] at h
    obtain ⟨w, hw, h⟩ := h
    obtain ⟨x, hx, _, _, rfl⟩ := step_eq_some hw
    have hn : dag[pre.length]? = some n := by
      rw [← Array.getElem?_toList, hdag, List.getElem?_append_right (le_refl _)]
      simp
    have hfin : rfinal[pre.length]? = some x := by
      rw [(fold_prefix ns h).2 pre.length (by simp [hsz]), Array.getElem?_push, if_pos hsz.symm]
    have hxz : ∃ z, doms[pre.length]? = some z ∧ MatMem x z := by
      rcases nodeVal_rel hAR hp hcall hv n hx with ⟨y, hy, hxy⟩ | hu
      · obtain ⟨z, hz, hsub⟩ := hcert _ _ _ hn hy
        exact ⟨z, hz, MatMem.of_matSubset hxy hsub⟩
      · exact hyp _ _ _ _ hn hu hv hx hfin
    refine ih (pre ++ [n]) (v1.push x) (by simp [hdag]) (by simp [hsz]) ?_ h
    intro j v hj
    rw [Array.getElem?_push] at hj
    split at hj
    · rename_i e
      simp only [Option.some.injEq] at hj
      subst hj
      rw [e, hsz]
      exact hxz
    · exact hv j v hj

/-- **Soundness of the certificate, general form**: `AR` is any real semantics of the operators that
    the model's interval operators enclose (`Alg.real`, `Alg.realWith`), `rcall` any real semantics
    of the applied functions enclosed by the model's interval evaluation of these functions.
    The nodes that the certificate cannot check are exactly the `Unchecked` ones: they are assumed
    (`hyp`).  The assumption may use that the real arguments `v1` of the node belong to the
    implementation's argument domains (operator-level enclosure, as validated against an oracle),
    or refer to the actual value `rvals[i]`. -/
theorem cert_sound_gen {funs : List Dag} (hAR : AlgRel RMem AR Alg.itv)
    (hcall : CallRel RMem rcall (buildCalls Alg.itv funs))
    (h : certOk funs dag box doms = true) (hp : EnvMem p box) {rvals : Array (Mat ℝ)}
    (hrun : run AR p rcall dag = some rvals)
    (hyp : ∀ (i : Nat) n v1 x, dag[i]? = some n → Unchecked Alg.itv (buildCalls Alg.itv funs) doms n →
      ArgsRel RMem v1 doms → nodeVal AR p rcall v1 n = some x → rvals[i]? = some x →
      ∀ z, doms[i]? = some z → MatMem x z) :
    ∀ (i : Nat) v z, rvals[i]? = some v → doms[i]? = some z → MatMem v z := by
  rw [run_eq] at hrun
  have hsz := certOk_size h
  have hyp' : ∀ (i : Nat) n v1 x, dag[i]? = some n →
      Unchecked Alg.itv (buildCalls Alg.itv funs) doms n → ArgsRel RMem v1 doms →
      nodeVal AR p rcall v1 n = some x → rvals[i]? = some x → ∃ z, doms[i]? = some z ∧ MatMem x z := by
    intro i n v1 x hn hu hv1 hx hv
    have hi : i < doms.size := by
      rw [hsz]
      by_contra hge
      rw [Array.getElem?_eq_none (by omega)] at hn
      exact absurd hn (by simp)
    exact ⟨doms[i], Array.getElem?_eq_getElem hi,
      hyp i n v1 x hn hu hv1 hx hv _ (Array.getElem?_eq_getElem hi)⟩
  have key := cert_fold hAR hcall hp (fun i n m hn hm => certOk_node h hn hm) hyp' dag.toList [] #[]
    (by simp) (by simp) (fun j v hj => by simp at hj) hrun
  intro i v z hv hz
  obtain ⟨z', hz', hvz⟩ := key i v hv
  rw [hz] at hz'
  simp only [Option.some.injEq] at hz'
  subst hz'
  exact hvz

end Eval

/-! ## 5. total form: when `B` supports everything `A` does, `B` is defined wherever `A` is -/

section Total
variable {α β : Type} {R : α → β → Prop} {A : Alg α} {B : Alg β}

namespace Eval

/-- call tables, total form: the second call is defined whenever the first one is -/
def CallRelT (R : α → β → Prop) (c1 : Nat → List (Mat α) → Option (Mat α))
    (c2 : Nat → List (Mat β) → Option (Mat β)) : Prop :=
  ∀ f as bs x, Forall₂ (MatRel R) as bs → c1 f as = some x → ∃ y, c2 f bs = some y ∧ MatRel R x y

theorem CallRelT.toCallRel {c1 : Nat → List (Mat α) → Option (Mat α)}
    {c2 : Nat → List (Mat β) → Option (Mat β)} (h : CallRelT R c1 c2) : CallRel R c1 c2 := by
  intro f as bs x y hab hx hy
  obtain ⟨y', hy', hxy⟩ := h f as bs x hab hx
  rw [hy] at hy'
  simp only [Option.some.injEq] at hy'
  subst hy'
  exact hxy

/-- node `n` applies no unary operator that `A` supports and `B` does not -/
def Supp (A : Alg α) (B : Alg β) (n : Node) : Prop :=
  ∀ op a, n.k = .un op a → op ≠ "trans" → B.un op = none → A.un op = none

theorem nodeVal_rel_total {e1 : List α} {e2 : List β} {c1 : Nat → List (Mat α) → Option (Mat α)}
    {c2 : Nat → List (Mat β) → Option (Mat β)} {v1 : Array (Mat α)} {v2 : Array (Mat β)}
    (h : AlgRel R A B) (henv : Forall₂ R e1 e2)
    (hc : CallRelT R c1 c2) (hv : ArgsRel R v1 v2) (n : Node) (hsup : Supp A B n) {x : Mat α}
    (hx : nodeVal A e1 c1 v1 n = some x) : ∃ y, nodeVal B e2 c2 v2 n = some y ∧ MatRel R x y := by
  rcases nodeVal_rel h henv hc.toCallRel hv n hx with hy | hu
  · exact hy
  · exfalso
    rcases hu with ⟨op, a, hk, hop, hB⟩ | ⟨f, as, bs, hk, hbs, hcn⟩
    · have : Unchecked A c1 v1 n := .inl ⟨op, a, hk, hop, hsup op a hk hop hB⟩
      rw [this.nodeVal_none] at hx
      exact absurd hx (by simp)
    · obtain ⟨k, r, c⟩ := n
      simp only at hk
      subst hk
      simp only [nodeVal, bind, Option.bind_eq_some_iff] at hx
      obtain ⟨ms, hms, hx⟩ := hx
      obtain ⟨zs, hzs, hmz⟩ := args_mapM hv hms
      rw [hbs] at hzs
      simp only [Option.some.injEq] at hzs
      subst hzs
      obtain ⟨y, hy, _⟩ := hc _ _ _ _ hmz hx
      rw [hcn] at hy
      exact absurd hy (by simp)

theorem fold_rel_total {e1 : List α} {e2 : List β} {c1 : Nat → List (Mat α) → Option (Mat α)}
    {c2 : Nat → List (Mat β) → Option (Mat β)} (h : AlgRel R A B)
    (henv : Forall₂ R e1 e2) (hc : CallRelT R c1 c2) :
    ∀ (ns : List Node) {v1 r1 : Array (Mat α)} {v2 : Array (Mat β)}, (∀ n ∈ ns, Supp A B n) →
      v1.size = v2.size →
      ArgsRel R v1 v2 → ns.foldlM (step A e1 c1) v1 = some r1 →
      ∃ r2, ns.foldlM (step B e2 c2) v2 = some r2 ∧ r1.size = r2.size ∧ ArgsRel R r1 r2 := by
  intro ns
  induction ns with
  | nil =>
    intro v1 r1 v2 _ hs hv h1
    simp at h1
    subst h1
    exact ⟨v2, by simp, hs, hv⟩
  | cons n ns ih =>
    intro v1 r1 v2 hsup hs hv h1
    simp only [List.foldlM_cons, bind, Option.bind_eq_some_iff] at h1
    obtain ⟨w1, hw1, h1⟩ := h1
    obtain ⟨x, hx, hxr, hxc, rfl⟩ := step_eq_some hw1
    obtain ⟨y, hy, hxy⟩ := nodeVal_rel_total h henv hc hv n (hsup n (by simp)) hx
    have hstep := step_of_nodeVal hy (hxy.1 ▸ hxr) (hxy.2.1 ▸ hxc)
    obtain ⟨r2, hr2, hres⟩ := ih (v2 := v2.push y) (fun m hm => hsup m (by simp [hm]))
      (by simp [hs]) (hv.push hs hxy) h1
    exact ⟨r2, by simp only [List.foldlM_cons, bind, hstep, Option.bind_some, hr2], hres⟩

theorem run_rel_total {e1 : List α} {e2 : List β} {c1 : Nat → List (Mat α) → Option (Mat α)}
    {c2 : Nat → List (Mat β) → Option (Mat β)} (h : AlgRel R A B)
    (henv : Forall₂ R e1 e2) (hc : CallRelT R c1 c2)
    {dag : Dag} (hsup : ∀ n ∈ dag.toList, Supp A B n) {r1 : Array (Mat α)}
    (h1 : run A e1 c1 dag = some r1) :
    ∃ r2, run B e2 c2 dag = some r2 ∧ r1.size = r2.size ∧ ArgsRel R r1 r2 := by
  rw [run_eq] at h1
  rw [run_eq]
  exact fold_rel_total h henv hc _ hsup rfl (fun j v hj => by simp at hj) h1

theorem root_rel_total {e1 : List α} {e2 : List β} {c1 : Nat → List (Mat α) → Option (Mat α)}
    {c2 : Nat → List (Mat β) → Option (Mat β)} (h : AlgRel R A B)
    (henv : Forall₂ R e1 e2) (hc : CallRelT R c1 c2)
    {dag : Dag} (hsup : ∀ n ∈ dag.toList, Supp A B n) {x : Mat α} (h1 : root A e1 c1 dag = some x) :
    ∃ y, root B e2 c2 dag = some y ∧ MatRel R x y := by
  unfold root at h1 ⊢
  simp only [Option.bind_eq_some_iff] at h1
  obtain ⟨r1, hr1, h1⟩ := h1
  obtain ⟨r2, hr2, hs, hv⟩ := run_rel_total h henv hc hsup hr1
  rw [Array.back?_eq_getElem?] at h1
  obtain ⟨z, hz, hxz⟩ := hv _ _ h1
  rw [hs] at hz
  exact ⟨z, by simp only [hr2, Option.bind_some, Array.back?_eq_getElem?, hz], hxz⟩

theorem buildCalls_rel_total (h : AlgRel R A B) (funs : List Dag)
    (hsup : ∀ d ∈ funs, ∀ n ∈ d.toList, Supp A B n) :
    CallRelT R (buildCalls A funs) (buildCalls B funs) := by
  unfold buildCalls
  have hl : ∀ q ∈ funs.zipIdx, ∀ n ∈ q.1.toList, Supp A B n := by
    rintro ⟨d, i⟩ hq
    exact hsup d (List.fst_mem_of_mem_zipIdx hq)
  revert hl
  generalize funs.zipIdx = l
  intro hl
  have h0 : CallRelT R (fun (_ : Nat) (_ : List (Mat α)) => (none : Option (Mat α)))
      (fun (_ : Nat) (_ : List (Mat β)) => (none : Option (Mat β))) := by
    intro f as bs x _ hx
    exact absurd hx (by simp)
  revert h0
  generalize (fun (_ : Nat) (_ : List (Mat α)) => (none : Option (Mat α))) = t1
  generalize (fun (_ : Nat) (_ : List (Mat β)) => (none : Option (Mat β))) = t2
  induction l generalizing t1 t2 with
  | nil => intro h0; exact h0
  | cons p l ih =>
    intro h0
    simp only [List.foldl_cons]
    apply ih (fun q hq => hl q (by simp [hq]))
    intro f as bs x hab hx
    simp only at hx ⊢
    split at hx
    · rename_i hf
      rw [if_pos hf]
      exact root_rel_total h (forall₂_flatMap (fun a b hab => hab.2.2) hab) h0 (hl p (by simp)) hx
    · rename_i hf
      rw [if_neg hf]
      exact h0 _ _ _ _ hab hx

end Eval
end Total

/-! ### the exact rational evaluation is the real semantics -/

/-- the relation "the real `x` is the rational `q`" -/
abbrev RCast : ℚ → ℝ → Prop := fun q x => x = (q : ℝ)

theorem ratSqrt?_spec {q s : ℚ} (h : ratSqrt? q = some s) : 0 ≤ (q : ℝ) ∧ Real.sqrt (q : ℝ) = (s : ℝ) := by
  unfold ratSqrt? at h
  split at h
  · exact absurd h (by simp)
  · rename_i hq
    simp only at h
    split at h
    · rename_i hsq
      simp only [Option.some.injEq] at h
      simp only [Bool.and_eq_true, beq_iff_eq] at hsq
      have hq0 : 0 ≤ q := not_lt.1 hq
      have hq0R : 0 ≤ (q : ℝ) := by exact_mod_cast hq0
      refine ⟨hq0R, ?_⟩
      have hnum : (q.num.toNat : ℤ) = q.num := Int.toNat_of_nonneg (Rat.num_nonneg.2 hq0)
      have hden : (0 : ℝ) < (Nat.sqrt q.den : ℝ) := by
        have : 0 < Nat.sqrt q.den := by
          rcases Nat.eq_zero_or_pos (Nat.sqrt q.den) with h0 | h0
          · have := hsq.2; rw [h0] at this; exact absurd this.symm (by simp [q.den_ne_zero])
          · exact h0
        exact_mod_cast this
      have hs0 : 0 ≤ (s : ℝ) := by
        rw [← h]; push_cast; positivity
      rw [Real.sqrt_eq_iff_mul_self_eq hq0R hs0, ← h]
      push_cast
      have e1 : ((Nat.sqrt q.num.toNat : ℝ)) * (Nat.sqrt q.num.toNat : ℝ) = (q.num : ℝ) := by
        have : ((Nat.sqrt q.num.toNat * Nat.sqrt q.num.toNat : ℕ) : ℤ) = q.num := by rw [hsq.1]; exact hnum
        exact_mod_cast this
      have e2 : ((Nat.sqrt q.den : ℝ)) * (Nat.sqrt q.den : ℝ) = (q.den : ℝ) := by exact_mod_cast hsq.2
      have hqd : (q : ℝ) = (q.num : ℝ) / (q.den : ℝ) := by
        exact Rat.cast_def (K := ℝ) q
      rw [hqd, div_mul_div_comm, e1, e2]
    · exact absurd h (by simp)

theorem ratSign_cast (q : ℚ) : ((ratSign q : ℚ) : ℝ) = (SignType.sign (q : ℝ) : ℝ) := by
  unfold ratSign
  rcases lt_trichotomy q 0 with h | h | h
  · have h' : (q : ℝ) < 0 := by exact_mod_cast h
    rw [if_neg (not_lt.2 h.le), if_pos h, sign_neg h']
    simp
  · subst h
    simp
  · have h' : (0 : ℝ) < (q : ℝ) := by exact_mod_cast h
    rw [if_pos h, sign_pos h']
    simp

/-- **`Alg.rat` agrees with `Alg.real` under the cast ℚ → ℝ**, for every operation that `Alg.rat`
    supports: whenever the rational operation is defined, so is the real one, with the same value. -/
theorem Alg.rat_real : AlgRel RCast Alg.rat Alg.real where
  ofItv := by
    intro I a h
    unfold Alg.rat ratOfItv at h
    simp only at h
    split at h
    · rename_i q q'
      split at h
      · rename_i e
        simp only [beq_iff_eq] at e
        subst e
        simp only [Option.some.injEq] at h
        subst h
        exact ⟨_, by simp [Alg.real, realOfItv], rfl⟩
      · exact absurd h (by simp)
    · exact absurd h (by simp)
  zero := by simp [RCast, Alg.rat, Alg.real]
  add := by
    rintro a _ a' _ x rfl rfl h
    simp only [Alg.rat, Option.some.injEq] at h
    subst h
    exact ⟨_, rfl, by simp [RCast]⟩
  sub := by
    rintro a _ a' _ x rfl rfl h
    simp only [Alg.rat, Option.some.injEq] at h
    subst h
    exact ⟨_, rfl, by simp [RCast]⟩
  mul := by
    rintro a _ a' _ x rfl rfl h
    simp only [Alg.rat, Option.some.injEq] at h
    subst h
    exact ⟨_, rfl, by simp [RCast]⟩
  div := by
    rintro a _ a' _ x rfl rfl h
    simp only [Alg.rat] at h
    split at h
    · exact absurd h (by simp)
    · rename_i h0
      simp only [Option.some.injEq] at h
      subst h
      have : ¬ ((a' : ℝ) = 0) := by exact_mod_cast h0
      exact ⟨(a : ℝ) / (a' : ℝ), by simp only [Alg.real, if_neg this], by simp [RCast]⟩
  max := by
    rintro a _ a' _ x rfl rfl h
    simp only [Alg.rat, Option.some.injEq] at h
    subst h
    refine ⟨_, rfl, ?_⟩
    show Max.max (a : ℝ) (a' : ℝ) = _
    split_ifs with hle
    · exact max_eq_right (by exact_mod_cast hle)
    · exact max_eq_left (by exact_mod_cast (not_le.1 hle).le)
  min := by
    rintro a _ a' _ x rfl rfl h
    simp only [Alg.rat, Option.some.injEq] at h
    subst h
    refine ⟨_, rfl, ?_⟩
    show Min.min (a : ℝ) (a' : ℝ) = _
    split_ifs with hle
    · exact min_eq_left (by exact_mod_cast hle)
    · exact min_eq_right (by exact_mod_cast (not_le.1 hle).le)
  un := by
    rintro op f g hf hg a _ x rfl hx
    simp only [Alg.rat] at hf
    split at hf
    · simp only [Alg.real, Option.some.injEq] at hf hg
      subst hf; subst hg
      simp only [Option.some.injEq] at hx; subst hx
      exact ⟨_, rfl, by simp [RCast]⟩
    · simp only [Alg.real, Option.some.injEq] at hf hg
      subst hf; subst hg
      simp only [Option.some.injEq] at hx; subst hx
      exact ⟨_, rfl, by simp [RCast]⟩
    · simp only [Alg.real, Option.some.injEq] at hf hg
      subst hf; subst hg
      simp only [Option.some.injEq] at hx; subst hx
      refine ⟨_, rfl, ?_⟩
      show |(a : ℝ)| = _
      split_ifs with hlt
      · rw [abs_of_neg (by exact_mod_cast hlt)]; simp
      · rw [abs_of_nonneg (by exact_mod_cast not_lt.1 hlt)]
    · simp only [Alg.real, Option.some.injEq] at hf hg
      subst hf; subst hg
      simp only [Option.some.injEq] at hx; subst hx
      exact ⟨_, rfl, (ratSign_cast a).symm⟩
    · simp only [Alg.real, Option.some.injEq] at hf hg
      subst hf; subst hg
      simp only [Option.some.injEq] at hx; subst hx
      refine ⟨_, rfl, ?_⟩
      show ((⌊(a : ℝ)⌋ : ℤ) : ℝ) = ((a.floor : ℚ) : ℝ)
      rw [Rat.floor_cast, rat_floor_eq]
      simp
    · simp only [Alg.real, Option.some.injEq] at hf hg
      subst hf; subst hg
      simp only [Option.some.injEq] at hx; subst hx
      refine ⟨_, rfl, ?_⟩
      show ((⌈(a : ℝ)⌉ : ℤ) : ℝ) = ((a.ceil : ℚ) : ℝ)
      rw [Rat.ceil_cast, rat_ceil_eq]
      simp
    · simp only [Alg.real, Option.some.injEq] at hf hg
      subst hf; subst hg
      obtain ⟨h0, hs⟩ := ratSqrt?_spec hx
      exact ⟨Real.sqrt (a : ℝ), by simp only [if_pos h0], hs⟩
    · exact absurd hf (by simp)
  pow := by
    rintro n a _ x rfl h
    simp only [Alg.rat, ratPow] at h
    split at h
    · rename_i hn
      simp only [Option.some.injEq] at h
      subst h
      have : ¬ (n < 0 ∧ (a : ℝ) = 0) := fun hh => absurd hh.1 (not_lt.2 hn)
      refine ⟨(a : ℝ) ^ n, by simp only [Alg.real, if_neg this], ?_⟩
      show (a : ℝ) ^ n = _
      conv_lhs => rw [← Int.toNat_of_nonneg hn]
      rw [zpow_natCast]
      simp
    · rename_i hn
      split at h
      · exact absurd h (by simp)
      · rename_i h0
        simp only [Option.some.injEq] at h
        subst h
        have h0' : ¬ ((a : ℝ) = 0) := by exact_mod_cast h0
        have : ¬ (n < 0 ∧ (a : ℝ) = 0) := fun hh => h0' hh.2
        refine ⟨(a : ℝ) ^ n, by simp only [Alg.real, if_neg this], ?_⟩
        show (a : ℝ) ^ n = _
        have hneg : n = -(((-n).toNat : ℕ) : ℤ) := by
          rw [Int.toNat_of_nonneg (by omega)]; omega
        conv_lhs => rw [hneg]
        rw [zpow_neg, zpow_natCast]
        simp
  chi := by
    rintro a _ b _ c _ x rfl rfl rfl h
    simp only [Alg.rat, Option.some.injEq] at h
    subst h
    refine ⟨_, rfl, ?_⟩
    show (if (a : ℝ) ≤ 0 then (b : ℝ) else (c : ℝ)) = _
    have : ((a : ℝ) ≤ 0) ↔ a ≤ 0 := by exact_mod_cast Iff.rfl
    split_ifs <;> simp_all

/-- every unary operator of `Alg.rat` is an operator of `Alg.real` -/
theorem Alg.rat_real_un (op : String) (h : Alg.real.un op = none) : Alg.rat.un op = none := by
  simp only [Alg.rat]
  split
  all_goals first
    | rfl
    | (simp [Alg.real] at h)

theorem Alg.rat_real_supp (n : Node) : Eval.Supp Alg.rat Alg.real n :=
  fun op _ _ _ h => Alg.rat_real_un op h

/-- Real semantics in which a thick interval constant `I` denotes the real `ch I` (any selection of
    a member); `Alg.real` is the case where only degenerate constants have a value. -/
noncomputable def Alg.realWith (ch : Itv → Option ℝ) : Alg ℝ := { Alg.real with ofItv := ch }

theorem Alg.realWith_itv {ch : Itv → Option ℝ} (hch : ∀ I x, ch I = some x → x ∈ I) :
    AlgRel RMem (Alg.realWith ch) Alg.itv where
  ofItv := fun I a h => mem_itvNonEmpty (hch I a h)
  zero := Alg.real_itv.zero
  add := Alg.real_itv.add
  sub := Alg.real_itv.sub
  mul := Alg.real_itv.mul
  div := Alg.real_itv.div
  max := Alg.real_itv.max
  min := Alg.real_itv.min
  un := Alg.real_itv.un
  pow := Alg.real_itv.pow
  chi := Alg.real_itv.chi

end Ibex
